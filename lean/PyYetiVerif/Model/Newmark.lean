/-
Model of pyyeti's Newmark-Beta time-domain solver (C17).  Core Lean only (no Mathlib) so that it
runs under `lake env lean --run`.

Sources transcribed (pyyeti/ode/solvenewmark.py):
  _newmark_precalcs  -> `coefA`, `coefA1`, `coefA0`, `scalarSys`, `matSys`
  _init_dva          -> `uM1`, `scaled`, `f0`, `fM1`, first `step` of `run`
  tsolve             -> `loop` (the `for j in range(2, nt)` loop), extrapolated step `de`,
                        central differences `velo`, `accel`
  def_nonlin         -> the pre-multiplied nonlinear term `nl` (see below)

ONE definition, several instances.  The scheme is written once over a vector type `V` (with `+`,
`-`) and a scalar type `α` acting on it through `VecOps` (`a * x`, `x / a`); the system enters as
the five operators the code precomputes (`K ·`, `B ·`, `A⁻¹ ·`, `(A⁻¹A1) ·`, `(A⁻¹A0) ·`).
  * `V = α` with `scalarSys m b k h`        : one diagonal DOF (`unc` branch, `A1 * D`); run at `Float`
                                              by the driver, proved about at a field in `Props/C17`;
  * `V = Vec α` with `matSys M B K h solve` : full matrices, `solve` = `lu_factor/lu_solve`
                                              (a parameter: Gaussian elimination in the driver, "a left
                                              inverse of A" in the theorems);
  * `V` any module over a field             : `Props/C17.newmark_is_documented`.

Nonlinear terms.  `def_nonlin` stores `T' = A⁻¹ T`; in the loop `N = Σ T' @ func(D, j, h)` is added
to the right-hand side.  The callback sees the displacement matrix `D` whose columns `0..j` are
computed and whose column `-1` holds `u₋₁` (documented).  The model passes the callback the index
`j` and the reversed history `[d_j, d_{j-1}, …, d_0, u₋₁]`; `nl j hist` is the already
pre-multiplied sum `N`.

`nt < 2` raises `IndexError` in the code (`force[:, 1]`); the model returns `none`.

Added with the second extension (all core Lean):
  def_nonlin / _get_nonlin -> `NlTerm`, `applyT`, `defNonlin`, `getNonlin`, `zOut`: the dictionary of terms with
                        `T' = A⁻¹ T` formed column by column AT THE TIME OF THE CALL, `N = 0.0; N += T' @ z`, the
                        recorded callback outputs `sol.z`; and the solver object under call sequences
                        (`NlCall`, `NlWorld`, `runCalls`: caller arrays named by an id, overwritten in place,
                        `def_nonlin` with array objects, `tsolve`)
  m = None           -> `identMat`, `massOr`, `matSysOpt` (`np.diag(np.ones(ksize) / sqh)`)
  rf partition       -> `pick`, `pickMat`, `scatter`, `nonrfOf`, `tsolveNonrf`, `tsolveRf`: the whole `tsolve` on all
                        `n` rows — rf rows static with `v = a = 0` and initial conditions ignored, the others from
                        `run` on the non-rf partition of `m, b, k, force, d0, v0`; nonlinear callbacks see the non-rf
                        rows at every step (fix 62d98b6, finding F63)
-/
namespace PyYetiVerif.Newmark

/-- scalar–vector operations used by the scheme: `a * x` and `x / a` -/
class VecOps (α : Type) (V : Type) where
  smul : α → V → V
  sdiv : V → α → V

/-- a scalar is a one-component vector -/
instance scalarVecOps {α : Type} [Mul α] [Div α] : VecOps α α := ⟨(· * ·), (· / ·)⟩

/-- the precomputed operators of one solver instance -/
structure Sys (V : Type) (α : Type) where
  h : α
  /-- `self.k * x` / `self.k @ x` -/
  K : V → V
  /-- `self.b * x` / `self.b @ x` -/
  B : V → V
  /-- `x / self.Ad` / `lu_solve(self.Ad, x)` -/
  solve : V → V
  /-- `self.A1 * x` / `self.A1 @ x` (already pre-multiplied by `A⁻¹`) -/
  A1 : V → V
  /-- `self.A0 * x` / `self.A0 @ x` -/
  A0 : V → V

/-- what `tsolve` returns for the non-rf DOF (`de` is the extra, extrapolated displacement) -/
structure Hist (V : Type) where
  d : List V
  v : List V
  a : List V
  de : V

section scheme
variable {α V : Type} [Add V] [Sub V] [VecOps α V] [Mul α] [OfNat α 2] [OfNat α 3]
open VecOps

/-- `u_1 = d0 - v0 * h` -/
def uM1 (S : Sys V α) (d0 v0 : V) : V := d0 - smul S.h v0

/-- `force / 3.0` followed by `A⁻¹` -/
def scaled (S : Sys V α) (f : V) : V := S.solve (sdiv f (3 : α))

/-- replaced `F₀ = K u₀ + B v₀` (scaled) -/
def f0 (S : Sys V α) (d0 v0 : V) : V := scaled S (S.K d0 + S.B v0)

/-- `F₋₁ = K u₋₁ + B v₀` (scaled) -/
def fM1 (S : Sys V α) (d0 v0 : V) : V := scaled S (S.K (uM1 S d0 v0) + S.B v0)

/-- one application of the three-point recurrence (`g*` scaled forces, `n` nonlinear term):
`F[:, j] + F[:, j-1] + F[:, j-2] + N + A1 D[:, j-1] + A0 D[:, j-2]` -/
def step (S : Sys V α) (g2 g1 g0 n u1 u0 : V) : V := g2 + g1 + g0 + n + S.A1 u1 + S.A0 u0

/-- state of the integration loop: `u1 = d_j`, `u0 = d_{j-1}`, `older = [d_{j-2}, …, d_0, u₋₁]`,
`g1`, `g0` the scaled forces at `j`, `j-1` -/
structure LoopSt (V : Type) where
  j : Nat
  u1 : V
  u0 : V
  older : List V
  g1 : V
  g0 : V

/-- reversed displacement history held by a loop state -/
def LoopSt.hist (s : LoopSt V) : List V := s.u1 :: s.u0 :: s.older

/-- `for j in range(2, nt)`: consumes the remaining scaled forces -/
def loop (S : Sys V α) (nl : Nat → List V → V) (s : LoopSt V) : List V → LoopSt V
  | [] => s
  | g2 :: gs =>
    let u2 := step S g2 s.g1 s.g0 (nl s.j s.hist) s.u1 s.u0
    loop S nl { j := s.j + 1, u1 := u2, u0 := s.u1, older := s.u0 :: s.older, g1 := g2, g0 := s.g1 } gs

/-- state after the start-up step (`d[:, 1]` computed in `_init_dva`); `F1` is the raw force at
`t = h` -/
def start (S : Sys V α) (nl : Nat → List V → V) (F1 d0 v0 : V) : LoopSt V :=
  let um := uM1 S d0 v0
  let g0 := f0 S d0 v0
  let g1 := scaled S F1
  { j := 1, u1 := step S g1 g0 (fM1 S d0 v0) (nl 0 [d0, um]) d0 um, u0 := d0, older := [um],
    g1 := g1, g0 := g0 }

/-- the extra step with the linearly extrapolated force:
`De = 3 * F[:, -1] + N + A1 D[:, -1] + A0 D[:, -2]` -/
def lastStep (S : Sys V α) (nl : Nat → List V → V) (s : LoopSt V) : V :=
  smul (3 : α) s.g1 + nl s.j s.hist + S.A1 s.u1 + S.A0 s.u0

/-- `(D[:, 2:] - D[:, :-2]) / h2` over a forward list -/
def velo (h2 : α) : List V → List V
  | a :: b :: c :: rest => sdiv (c - a) h2 :: velo h2 (b :: c :: rest)
  | _ => []

/-- `(D[:, 2:] - 2 * D[:, 1:-1] + D[:, :-2]) / sqh` over a forward list -/
def accel (sqh : α) : List V → List V
  | a :: b :: c :: rest => sdiv (c - smul (2 : α) b + a) sqh :: accel sqh (b :: c :: rest)
  | _ => []

/-- forward list `[u₋₁, d_0, …, d_{nt-1}, De]` of a final loop state -/
def extended (S : Sys V α) (nl : Nat → List V → V) (s : LoopSt V) : List V :=
  (lastStep S nl s :: s.hist).reverse

/-- `SolveNewmark.tsolve` on the non-rf DOF; `F` is the list of force columns -/
def run (S : Sys V α) (nl : Nat → List V → V) (F : List V) (d0 v0 : V) : Option (Hist V) :=
  match F with
  | _ :: F1 :: rest =>
    let s := loop S nl (start S nl F1 d0 v0) (rest.map (scaled S))
    let uu := extended S nl s
    some { d := s.hist.reverse.tail
           v := v0 :: (velo ((2 : α) * S.h) uu).tail
           a := accel (S.h * S.h) uu
           de := lastStep S nl s }
  | _ => none

end scheme

/-! ### nonlinear terms: `def_nonlin`, `_get_nonlin`, `sol.z` -/
section nonlin
variable {α V : Type} [Add V] [VecOps α V]
open VecOps

/-- one entry of `self.nl_dct`: the callback (it sees the step index `j` and the reversed history
`[d_j, …, d_0, u₋₁]`, returns the 1d array `z`) and the columns of the pre-multiplied transform `T' = A⁻¹ T` -/
structure NlTerm (α V : Type) where
  func : Nat → List V → List α
  Tp : List V

/-- `T @ z`: the combination `Σ_k z_k · T[:, k]` of the columns, accumulated from `zero` -/
def applyT (zero : V) (cols : List V) (z : List α) : V :=
  (List.zipWith (fun c zk => smul zk c) cols z).foldl (· + ·) zero

/-- `def_nonlin(dct)`: every transform is pre-multiplied by `A⁻¹` (`v[1] / self.Ad[:, None]` or
`la.lu_solve(self.Ad, v[1])`, column by column) when the call is made; the result REPLACES `self.nl_dct` -/
def defNonlin (S : Sys V α) (dct : List ((Nat → List V → List α) × List V)) : List (NlTerm α V) :=
  dct.map fun ft => { func := ft.1, Tp := ft.2.map S.solve }

/-- `_get_nonlin(j)`: `N = 0.0; for key, (func, T, args) in nl_dct.items(): N += T @ func(D, j, h)` -/
def getNonlin (zero : V) (terms : List (NlTerm α V)) (j : Nat) (hist : List V) : V :=
  terms.foldl (fun N t => N + applyT zero t.Tp (t.func j hist)) zero

/-- reversed history the callback sees at step `j` of a finished run: `[d_j, …, d_0, u₋₁]` -/
def histAt (um : V) (ds : List V) (j : Nat) : List V := (ds.take (j + 1)).reverse ++ [um]

/-- `sol.z`: for every term the callback outputs `z[:, j] = func(D, j, h)`, `j = 0 … nt − 1` -/
def zOut (terms : List (NlTerm α V)) (um : V) (ds : List V) : List (List (List α)) :=
  terms.map fun t => (List.range ds.length).map fun j => t.func j (histAt um ds j)

end nonlin

/-! ### the solver object under call sequences (`def_nonlin` re-defined between `tsolve` calls) -/
section calls
variable {α V : Type} [Add V] [Sub V] [VecOps α V] [Mul α] [OfNat α 2] [OfNat α 3]

/-- what a caller can do with one `SolveNewmark` object and the transform arrays it owns (named by an id) -/
inductive NlCall (α V : Type) where
  /-- the caller (over)writes the array object `id` in place -/
  | setArr (id : Nat) (cols : List V)
  /-- `ts.def_nonlin(dct)`: the dictionary holds callbacks and array OBJECTS -/
  | defNonlin (dct : List ((Nat → List V → List α) × Nat))
  /-- `ts.tsolve(F, d0, v0)` -/
  | tsolve (F : List V) (d0 v0 : V)

/-- caller's arrays and the object's `nl_dct` -/
structure NlWorld (α V : Type) where
  store : Nat → List V
  obj : List (NlTerm α V)

/-- one call; a `tsolve` also produces an output -/
def NlWorld.exec (S : Sys V α) (zero : V) (w : NlWorld α V) : NlCall α V → NlWorld α V × Option (Option (Hist V))
  | .setArr id cols => ({ w with store := fun i => if i = id then cols else w.store i }, none)
  | .defNonlin dct => ({ w with obj := Newmark.defNonlin S (dct.map fun fi => (fi.1, w.store fi.2)) }, none)
  | .tsolve F d0 v0 => (w, some (run S (getNonlin zero w.obj) F d0 v0))

/-- outputs of the `tsolve` calls of a call sequence, in order -/
def runCalls (S : Sys V α) (zero : V) (w : NlWorld α V) : List (NlCall α V) → List (Option (Hist V))
  | [] => []
  | c :: cs =>
    match w.exec S zero c with
    | (w', some out) => out :: runCalls S zero w' cs
    | (w', none) => runCalls S zero w' cs

end calls

/-! ### scalar / diagonal instance (`self.unc`) -/
section scalar
variable {α : Type} [Add α] [Sub α] [Mul α] [Div α] [OfNat α 2] [OfNat α 3]

/-- `A = mterm + b / h2 + k / 3`, `mterm = m / sqh` -/
def coefA (m b k h : α) : α := m / (h * h) + b / (2 * h) + k / 3
/-- `A1 = 2 * mterm - k / 3` -/
def coefA1 (m k h : α) : α := 2 * (m / (h * h)) - k / 3
/-- `A0 = b / h2 - k / 3 - mterm` -/
def coefA0 (m b k h : α) : α := b / (2 * h) - k / 3 - m / (h * h)

/-- one diagonal DOF: `self.A1 = A1 / A`, `self.A0 = A0 / A`, `x / self.Ad` -/
def scalarSys (m b k h : α) : Sys α α :=
  { h := h
    K := fun x => k * x
    B := fun x => b * x
    solve := fun x => x / coefA m b k h
    A1 := fun x => coefA1 m k h / coefA m b k h * x
    A0 := fun x => coefA0 m b k h / coefA m b k h * x }

/-- rf rows are solved statically: `d[rf] = ikrf * force[rf]`, `ikrf = 1 / krf`; `v = a = 0` -/
def rfStatic [OfNat α 1] (krf f : α) : α := (1 / krf) * f

end scalar

/-! ### matrix instance, parameterised by `solve` -/

/-- a vector of components (wrapper so that `+`/`-` are componentwise) -/
structure Vec (α : Type) where
  a : Array α

abbrev Mat (α : Type) := Array (Array α)

section matrix
variable {α : Type} [Add α] [Sub α] [Mul α] [Div α] [OfNat α 0]

instance : Add (Vec α) := ⟨fun x y => ⟨Array.zipWith (· + ·) x.a y.a⟩⟩
instance : Sub (Vec α) := ⟨fun x y => ⟨Array.zipWith (· - ·) x.a y.a⟩⟩
instance : VecOps α (Vec α) := ⟨fun c x => ⟨x.a.map (c * ·)⟩, fun x c => ⟨x.a.map (· / c)⟩⟩

/-- `M @ x` (rows of `M`) -/
def matVec (M : Mat α) (x : Vec α) : Vec α :=
  ⟨M.map fun row => (Array.zipWith (· * ·) row x.a).foldl (· + ·) 0⟩

def matZip (f : α → α → α) (X Y : Mat α) : Mat α := Array.zipWith (Array.zipWith f) X Y
def matMap (f : α → α) (X : Mat α) : Mat α := X.map (·.map f)

/-- column `j` of a matrix -/
def matCol (M : Mat α) (j : Nat) : Vec α := ⟨M.map fun row => row.getD j 0⟩

/-- matrix whose columns are the given vectors (`n` rows) -/
def ofCols (n : Nat) (cols : Array (Vec α)) : Mat α :=
  (Array.range n).map fun i => cols.map fun c => c.a.getD i 0

variable [OfNat α 2] [OfNat α 3]

/-- `A`, `A1`, `A0` of `_newmark_precalcs` for full matrices -/
def matA (M B K : Mat α) (h : α) : Mat α :=
  matZip (· + ·) (matZip (· + ·) (matMap (· / (h * h)) M) (matMap (· / (2 * h)) B)) (matMap (· / 3) K)
def matA1 (M K : Mat α) (h : α) : Mat α :=
  matZip (· - ·) (matMap (fun x => 2 * (x / (h * h))) M) (matMap (· / 3) K)
def matA0 (M B K : Mat α) (h : α) : Mat α :=
  matZip (· - ·) (matZip (· - ·) (matMap (· / (2 * h)) B) (matMap (· / 3) K)) (matMap (· / (h * h)) M)

/-- full-matrix instance: `solveWith A` stands for `lu_solve(lu_factor(A), ·)`;
`self.A1 = lu_solve(Ad, A1)` column by column -/
def matSys (M B K : Mat α) (h : α) (solveWith : Mat α → Vec α → Vec α) : Sys (Vec α) α :=
  let n := K.size
  let solve := solveWith (matA M B K h)
  let pre (X : Mat α) : Mat α := ofCols n ((Array.range n).map fun j => solve (matCol X j))
  let A1p := pre (matA1 M K h)
  let A0p := pre (matA0 M B K h)
  { h := h, K := matVec K, B := matVec B, solve := solve, A1 := matVec A1p, A0 := matVec A0p }

/-- rf rows of a coupled system: `d[rf] = la.lu_solve(ikrf, force[rf])`, column by column, with
`ikrf = lu_factor(krf)`; `solveWith krf` stands for the factor/solve pair -/
def rfStaticMat (krf : Mat α) (solveWith : Mat α → Vec α → Vec α) (Frf : List (Vec α)) : List (Vec α) :=
  Frf.map (solveWith krf)

/-! ### `m = None` and the rf partition -/

/-- `np.diag(np.ones(n))`: with it `matA` forms `np.diag(np.ones(n) / sqh)` entry by entry -/
def identMat [OfNat α 1] (n : Nat) : Mat α :=
  (Array.range n).map fun i => (Array.range n).map fun j => if i = j then (1 : α) else 0

/-- the mass the solver works with: identity when `m is None` -/
def massOr [OfNat α 1] (M : Option (Mat α)) (n : Nat) : Mat α := M.getD (identMat n)

/-- `matSys` for an optional mass -/
def matSysOpt [OfNat α 1] (M : Option (Mat α)) (B K : Mat α) (h : α)
    (solveWith : Mat α → Vec α → Vec α) : Sys (Vec α) α :=
  matSys (massOr M K.size) B K h solveWith

/-- `x[idx]` -/
def pick (idx : List Nat) (x : Vec α) : Vec α := ⟨(idx.map fun i => x.a.getD i 0).toArray⟩
/-- `X[np.ix_(idx, idx)]` -/
def pickMat (idx : List Nat) (X : Mat α) : Mat α :=
  (idx.map fun i => (idx.map fun j => (X.getD i #[]).getD j 0).toArray).toArray

/-- full-size vector with `x` on the rows `nonrf` and `y` on the rows `rf` -/
def scatter (n : Nat) (nonrf rf : List Nat) (x y : Vec α) : Vec α :=
  ⟨(Array.range n).map fun i =>
    match nonrf.findIdx? (· == i) with
    | some p => x.a.getD p 0
    | none =>
      match rf.findIdx? (· == i) with
      | some p => y.a.getD p 0
      | none => 0⟩

/-- rows that are not residual-flexibility rows, in order (`self.nonrf`) -/
def nonrfOf (n : Nat) (rf : List Nat) : List Nat := (List.range n).filter fun i => !rf.contains i

/-- the non-rf partition of `SolveNewmark(m, b, k, h, rf).tsolve(F, d0, v0)`: `run` on the picked `m, b, k, force, d0,
v0`; the nonlinear callbacks see the non-rf rows at EVERY step, step 0 included (`D = d[self.nonrf]` in `_init_dva`
since fix 62d98b6 (F63), `D = d[self.kdof]` in the loop) -/
def tsolveNonrf [OfNat α 1] (n : Nat) (rf : List Nat) (M : Option (Mat α)) (B K : Mat α) (h : α)
    (solveWith : Mat α → Vec α → Vec α) (nl : Sys (Vec α) α → Nat → List (Vec α) → Vec α)
    (F : List (Vec α)) (d0 v0 : Vec α) : Option (Hist (Vec α)) :=
  let nonrf := nonrfOf n rf
  let S := matSysOpt (M.map (pickMat nonrf)) (pickMat nonrf B) (pickMat nonrf K) h solveWith
  run S (nl S) (F.map (pick nonrf)) (pick nonrf d0) (pick nonrf v0)

/-- `SolveNewmark(m, b, k, h, rf).tsolve(F, d0, v0)` on all `n` rows: `(d, v, a)` as lists of full-size columns.
rf rows: `d = k_rf⁻¹ F_rf` column by column, `v = a = 0`, initial conditions ignored; the other rows: `tsolveNonrf`.
`none` = `IndexError` (a single time step with at least one non-rf row). -/
def tsolveRf [OfNat α 1] (n : Nat) (rf : List Nat) (M : Option (Mat α)) (B K : Mat α) (h : α)
    (solveWith : Mat α → Vec α → Vec α) (nl : Sys (Vec α) α → Nat → List (Vec α) → Vec α)
    (F : List (Vec α)) (d0 v0 : Vec α) : Option (List (Vec α) × List (Vec α) × List (Vec α)) :=
  let nonrf := nonrfOf n rf
  let drf := rfStaticMat (pickMat rf K) solveWith (F.map (pick rf))
  let zrf : Vec α := ⟨Array.replicate rf.length 0⟩
  let znr : Vec α := ⟨Array.replicate nonrf.length 0⟩
  if nonrf.isEmpty then
    some (drf.map (scatter n nonrf rf znr), drf.map fun _ => scatter n nonrf rf znr zrf,
      drf.map fun _ => scatter n nonrf rf znr zrf)
  else
    match tsolveNonrf n rf M B K h solveWith nl F d0 v0 with
    | none => none
    | some hh =>
      some (List.zipWith (scatter n nonrf rf) hh.d drf, hh.v.map fun x => scatter n nonrf rf x zrf,
        hh.a.map fun x => scatter n nonrf rf x zrf)

end matrix

end PyYetiVerif.Newmark
