/-
Model of pyyeti/frclim.py `calcAM` / `ntfl` (Norton-Thevenin coupling) and of the part of
`pyyeti/cb.py: cbtf` that `calcAM` uses.

Core Lean only (no Mathlib).  The formulas are written ONCE, polymorphic over operation classes
(`Add`, `Sub`, `Mul`, `Inv`, heterogeneous `HMul` for rectangular blocks, `SMul` for the
frequency-dependent scalars).  They are

  * reasoned about in `Lemmas/NT.lean`, `Props/C15.lean` over an arbitrary (non-commutative) ring
    with the required inverses as hypotheses, and over Mathlib `Matrix` blocks of arbitrary,
    different sizes (Mathlib's matrix product *is* a heterogeneous `HMul` instance), and
  * executed by `Drivers/C15.lean` at `CMat`, a shape-carrying dense complex-`Float` matrix type
    defined at the end of this file (inverse by Gauss-Jordan elimination with partial pivoting).

Frequency dependence.  With `s = iΩ` the frequency-domain equations of motion
`(-Ω² M + iΩ B + K) x = f`, written for the acceleration `a = -Ω² x`, are `D a = f` with the
"acceleration impedance" (full-size apparent mass)

    D = M + cv • B + cd • K,     cv = 1/(iΩ),  cd = -1/Ω²        (`accImp`)

so every formula below is algebra in `D`; `cv`, `cd` are just two scalars.

Source anchors
  frclim.py:215-245  bdof 2-d (recovery matrix T):  Acc[:, j, :] = T H(Ω_j) Tᵀ, AM = inv(Acc)   (`drmAM`)
  frclim.py:246-257  bdof 1-d (partition vector, Craig-Bampton form): AM[:, :, d] = cbtf(...).frc (`cbtfAM`)
  cb.py:203-255      cbtf: K_bq, K_qb are NOT used (CB form assumed), Ω = 0 handled apart
  frclim.py:805-818  TAM = SAM + LAM; Mr = solve(Ms + Ml, Ms); A = Mr As; F = Ml A; R = diag Mr
-/
namespace PyYetiVerif.NT

/-! ## the formulas (polymorphic) -/

/-- apparent mass is the inverse of the boundary accelerance (`AM[:, j, :] = inv(Acc[:, j, :])`) -/
def amOfAcc {α : Type} [Inv α] (H : α) : α := H⁻¹

/-- `TAM = SAM + LAM` -/
def tam {α : Type} [Add α] (Ms Ml : α) : α := Ms + Ml

/-- `Mr = la.solve(Ms + Ml, Ms)` -/
def ntMr {α : Type} [Add α] [Mul α] [Inv α] (Ms Ml : α) : α := (Ms + Ml)⁻¹ * Ms

/-- `A[:, j] = Mr @ As[:, j]` -/
def ntA {α β : Type} [Add α] [Mul α] [Inv α] [HMul α β β] (Ms Ml : α) (As : β) : β :=
  HMul.hMul (ntMr Ms Ml) As

/-- `F[:, j] = Ml @ A[:, j]` -/
def ntF {α β : Type} [Add α] [Mul α] [Inv α] [HMul α β β] (Ms Ml : α) (As : β) : β :=
  HMul.hMul Ml (ntA Ms Ml As)

/-- acceleration impedance `D = M + cv • B + cd • K` (`cv = 1/(iΩ)`, `cd = -1/Ω²`) -/
def accImp {γ α : Type} [Add α] [SMul γ α] (M B K : α) (cv cd : γ) : α := M + cv • B + cd • K

/-- boundary apparent mass of a partitioned impedance `[[Dbb, Dbq], [Dqb, Dqq]]` when the
boundary acceleration is enforced and the interior is unloaded: the Schur complement
`Dbb - Dbq Dqq⁻¹ Dqb`.  The four blocks may have four different types (shapes). -/
def schurAM {A B C D : Type} [Sub A] [Inv D] [HMul B D B] [HMul B C A]
    (Dbb : A) (Dbq : B) (Dqb : C) (Dqq : D) : A :=
  Dbb - HMul.hMul (HMul.hMul Dbq Dqq⁻¹) Dqb

/-- `calcAM` with a recovery matrix `T` (`tt` is its transpose, supplied by the caller so that
the definition needs no transpose class): unit forces `Tᵀ` on the full model, boundary
accelerance `T D⁻¹ Tᵀ`, inverted. -/
def drmAM {T Tt D A : Type} [Inv D] [Inv A] [HMul T D T] [HMul T Tt A]
    (t : T) (d : D) (tt : Tt) : A :=
  amOfAcc (HMul.hMul (HMul.hMul t d⁻¹) tt)

/-- `calcAM` with a partition vector, i.e. `cb.cbtf` for unit boundary accelerations, `Ω ≠ 0`:
the Schur complement of the impedance in which the `K_bq`, `K_qb` blocks are absent — `cbtf`
never reads them (Craig-Bampton form is assumed by the code). -/
def cbtfAM {γ A B C D : Type} [Add A] [Sub A] [Add B] [Add C] [Add D] [Inv D]
    [SMul γ A] [SMul γ B] [SMul γ C] [SMul γ D] [HMul B D B] [HMul B C A]
    (Mbb Bbb Kbb : A) (Mbq Bbq : B) (Mqb Bqb : C) (Mqq Bqq Kqq : D) (cv cd : γ) : A :=
  schurAM (accImp Mbb Bbb Kbb cv cd) (Mbq + cv • Bbq) (Mqb + cv • Bqb) (accImp Mqq Bqq Kqq cv cd)

/-- `cbtf` at `Ω = 0`: boundary displacement and velocity are set to zero and the interior
acceleration is `-0²·d = 0`, so the returned force is `M_bb a`. -/
def cbtfAM0 {A : Type} (Mbb : A) : A := Mbb

/-- `cbtf` with an EMPTY q-set (every DOF is a boundary DOF): `frc = m[bb] @ a + b[bb] @ v + k[bb] @ d`;
the arguments are the `np.ix_(bset, bset)` blocks, i.e. the matrices re-indexed by the partition
vector (before the fix `cbtf-empty-qset-unsorted-bset` the code used the matrices in model order). -/
def cbtfEmptyAM {γ A : Type} [Add A] [SMul γ A] (M B K : A) (cv cd : γ) : A := accImp M B K cv cd

/-- the same at `Ω = 0` -/
def cbtfEmptyAM0 {A : Type} (M : A) : A := M

/-! ## the `(b × freq × b)` layout (C order) as index arithmetic -/

/-- flat offset of `AM[i, j, k]` in an array of shape `(b, nf, b)` -/
def idx3 (nf b i j k : Nat) : Nat := (i * nf + j) * b + k

/-- flat offset of `As[i, j]` in an array of shape `(b, nf)` -/
def idx2 (nf i j : Nat) : Nat := i * nf + j

/-! ## executable instance: dense complex `Float` matrices -/

structure Cx where
  re : Float
  im : Float
deriving Inhabited

namespace Cx
def zero : Cx := ⟨0, 0⟩
def one : Cx := ⟨1, 0⟩
instance : Add Cx := ⟨fun a b => ⟨a.re + b.re, a.im + b.im⟩⟩
instance : Sub Cx := ⟨fun a b => ⟨a.re - b.re, a.im - b.im⟩⟩
instance : Neg Cx := ⟨fun a => ⟨-a.re, -a.im⟩⟩
instance : Mul Cx := ⟨fun a b => ⟨a.re * b.re - a.im * b.im, a.re * b.im + a.im * b.re⟩⟩
def abs2 (a : Cx) : Float := a.re * a.re + a.im * a.im
instance : Inv Cx := ⟨fun a => let n := a.abs2; ⟨a.re / n, -a.im / n⟩⟩
instance : Div Cx := ⟨fun a b => a * b⁻¹⟩
end Cx

/-- dense row-major matrix that carries its shape; operations on mismatched shapes return the
empty matrix (the driver reports it as an error, it never takes part in a comparison) -/
structure CMat where
  r : Nat
  c : Nat
  d : Array Cx
deriving Inhabited

namespace CMat
def empty : CMat := ⟨0, 0, #[]⟩
def get (m : CMat) (i j : Nat) : Cx := m.d.getD (i * m.c + j) Cx.zero
def ofFn (r c : Nat) (f : Nat → Nat → Cx) : CMat :=
  ⟨r, c, Id.run do
    let mut a : Array Cx := Array.mkEmpty (r * c)
    for i in [0:r] do
      for j in [0:c] do
        a := a.push (f i j)
    return a⟩
def ident (n : Nat) : CMat := ofFn n n fun i j => if i = j then Cx.one else Cx.zero
def transpose (m : CMat) : CMat := ofFn m.c m.r fun i j => m.get j i
def map2 (f : Cx → Cx → Cx) (a b : CMat) : CMat :=
  if a.r = b.r ∧ a.c = b.c then ofFn a.r a.c fun i j => f (a.get i j) (b.get i j) else empty
def mul (a b : CMat) : CMat :=
  if a.c = b.r then
    ofFn a.r b.c fun i j => Id.run do
      let mut s := Cx.zero
      for k in [0:a.c] do
        s := s + a.get i k * b.get k j
      return s
  else empty
def smul (z : Cx) (a : CMat) : CMat := ofFn a.r a.c fun i j => z * a.get i j
/-- rows `rs`, columns `cs` (`np.ix_`) -/
def sub2 (m : CMat) (rs cs : Array Nat) : CMat :=
  ofFn rs.size cs.size fun i j => m.get (rs.getD i 0) (cs.getD j 0)

/-- Gauss-Jordan inverse with partial pivoting.  Its specification (`inv a * a = 1`) is NOT
proved (IEEE arithmetic); the theorems take the inverse equations as hypotheses and the
correspondence check compares the result with LAPACK's on every run. -/
def inv (a : CMat) : CMat :=
  if a.r ≠ a.c then empty else Id.run do
    let n := a.r
    let w := 2 * n
    -- augmented rows
    let mut rows : Array (Array Cx) := Array.mkEmpty n
    for i in [0:n] do
      let mut row : Array Cx := Array.mkEmpty w
      for j in [0:n] do
        row := row.push (a.get i j)
      for j in [0:n] do
        row := row.push (if i = j then Cx.one else Cx.zero)
      rows := rows.push row
    for col in [0:n] do
      -- pivot search
      let mut p := col
      let mut best := ((rows.getD col #[]).getD col Cx.zero).abs2
      for i in [col+1:n] do
        let v := ((rows.getD i #[]).getD col Cx.zero).abs2
        if v > best then
          best := v
          p := i
      let rp := rows.getD p #[]
      let rc := rows.getD col #[]
      rows := (rows.setIfInBounds p rc).setIfInBounds col rp
      let piv := (rp.getD col Cx.zero)⁻¹
      let prow := rp.map (fun z => z * piv)
      rows := rows.setIfInBounds col prow
      for i in [0:n] do
        if i ≠ col then
          let ri := rows.getD i #[]
          let f := ri.getD col Cx.zero
          let mut nr : Array Cx := Array.mkEmpty w
          for j in [0:w] do
            nr := nr.push (ri.getD j Cx.zero - f * prow.getD j Cx.zero)
          rows := rows.setIfInBounds i nr
    return ofFn n n fun i j => (rows.getD i #[]).getD (n + j) Cx.zero

instance : Add CMat := ⟨map2 (· + ·)⟩
instance : Sub CMat := ⟨map2 (· - ·)⟩
instance : Mul CMat := ⟨mul⟩
instance : Inv CMat := ⟨inv⟩
instance : SMul Cx CMat := ⟨smul⟩
end CMat

/-! ## `ntfl` / `calcAM` on flat arrays (what the driver runs) -/

/-- `X[:, j, :]` of a flat `(b, nf, b)` array -/
def slice3 (x : Array Cx) (nf b j : Nat) : CMat :=
  CMat.ofFn b b fun i k => x.getD (idx3 nf b i j k) Cx.zero

/-- `As[:, j]` as a `b × 1` matrix -/
def col2 (x : Array Cx) (nf b j : Nat) : CMat :=
  CMat.ofFn b 1 fun i _ => x.getD (idx2 nf i j) Cx.zero

structure NtOut where
  A : Array Cx    -- (b, nf)
  F : Array Cx    -- (b, nf)
  R : Array Cx    -- (b, nf)
  TAM : Array Cx  -- (b, nf, b)

/-- `ntfl(SAM, LAM, As, freq)` for 3-d `SAM`, `LAM` -/
def ntflArrays (b nf : Nat) (sam lam as : Array Cx) : NtOut := Id.run do
  let mut cols : Array (CMat × CMat × CMat × CMat) := #[]
  for j in [0:nf] do
    let Ms := slice3 sam nf b j
    let Ml := slice3 lam nf b j
    let a := col2 as nf b j
    cols := cols.push (ntA Ms Ml a, ntF Ms Ml a, ntMr Ms Ml, tam Ms Ml)
  let get (j : Nat) := cols.getD j (CMat.empty, CMat.empty, CMat.empty, CMat.empty)
  let A := (CMat.ofFn b nf fun i j => (get j).1.get i 0).d
  let F := (CMat.ofFn b nf fun i j => (get j).2.1.get i 0).d
  let R := (CMat.ofFn b nf fun i j => (get j).2.2.1.get i i).d
  let mut T : Array Cx := Array.mkEmpty (b * nf * b)
  for i in [0:b] do
    for j in [0:nf] do
      for k in [0:b] do
        T := T.push ((get j).2.2.2.get i k)
  return ⟨A, F, R, T⟩

def twoPi : Float := 2 * 3.141592653589793

/-- `cv = 1/(iΩ)`, `cd = -1/Ω²` for `Ω = 2π f` -/
def cvcd (f : Float) : Cx × Cx :=
  let w := twoPi * f
  (⟨0, -1 / w⟩, ⟨-1 / (w * w), 0⟩)

/-- pack per-frequency `r × r` matrices into the flat `(r, nf, r)` layout -/
def pack3 (r nf : Nat) (ms : Array CMat) : Array Cx := Id.run do
  let mut T : Array Cx := Array.mkEmpty (r * nf * r)
  for i in [0:r] do
    for j in [0:nf] do
      for k in [0:r] do
        T := T.push ((ms.getD j CMat.empty).get i k)
  return T

/-- `calcAM([M, B, K, T], freq)` (recovery-matrix form), all `freq ≠ 0` -/
def calcAMdrm (M B K T : CMat) (freq : Array Float) : Array Cx :=
  let tt := T.transpose
  pack3 T.r freq.size (freq.map fun f =>
    let (cv, cd) := cvcd f
    drmAM T (accImp M B K cv cd) tt)

/-- `calcAM([M, B, K, bset], freq)` (partition-vector form; `cbtf` semantics incl. `f = 0`) -/
def calcAMpv (M B K : CMat) (bset : Array Nat) (freq : Array Float) : Array Cx :=
  let qset := (Array.range M.r).filter fun i => !bset.contains i
  let bb (X : CMat) := X.sub2 bset bset
  let bq (X : CMat) := X.sub2 bset qset
  let qb (X : CMat) := X.sub2 qset bset
  let qq (X : CMat) := X.sub2 qset qset
  pack3 bset.size freq.size (freq.map fun f =>
    let (cv, cd) := cvcd f
    if qset.size = 0 then
      -- cb.py:221-227 (after fix `cbtf-empty-qset-unsorted-bset`): the b-b blocks in b-set order
      (if f == 0 then cbtfEmptyAM0 (bb M) else cbtfEmptyAM (bb M) (bb B) (bb K) cv cd)
    else if f == 0 then cbtfAM0 (bb M) else
    cbtfAM (bb M) (bb B) (bb K) (bq M) (bq B) (qb M) (qb B) (qq M) (qq B) (qq K) cv cd)

end PyYetiVerif.NT
