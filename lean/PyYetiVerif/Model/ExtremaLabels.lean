import PyYetiVerif.Model.Extrema
/-!
# `form_extreme` over events whose categories list DIFFERENT ROWS (core Lean only)

Source modelled: `pyyeti/locate.py: merge_lists` and, in `pyyeti/cla/dr_results.py`,
`DR_Results.form_extreme`'s helpers `_check_row_compatibility`, `_expand`, the category loop of
`_calc_extreme` for ONE category, `init_extreme_cat` (sizes and NaN fill) and the two-column branch
of `cla/_utilities.py: extrema` WITH `casenum` — this time on whole tables, because the label merge
moves rows.

* `merge_lists(l1, l2)`: `merged = l1[:]`; the items of `l2` are visited in order; one that is not in
  `merged` is put aside (`elements`), one that is in `merged` (at `i`) has the items put aside so far
  inserted in front of it; what is left at the end is appended.  `pv1[i] = merged.index(l1[i], prev)`
  (`prev` = the previous hit), `pv2 = [merged.index(e) for e in l2]`.  So `l1` keeps its order; a new
  item of `l2` ends up immediately in front of the next item of `l2` that `l1` also has (NOT at the
  end, unless no such item follows).
* `_check_row_compatibility(ext1, ext2)`: equal label lists: nothing happens (repeated labels are then
  allowed); otherwise `ValueError` if either list repeats a label; otherwise BOTH sides are expanded
  onto the merged list (`_expand(ext1, l3, pv1)`, then `_expand(ext2, l3, pv2)`).
* `_expand(old, labels, pv)`: for `ext, ext_x, mx, mn, mx_x, mn_x` (each only when it is there and not
  `None`: `old.__dict__.get(name)` since fix 40cd789, finding F58 — an event made by `add_maxmin` has no
  `mx, mn, mx_x, mn_x`, and the per-case members of an EVENT are never read by `form_extreme` anyway, so
  the model does not carry them): a new NaN array with `new[pv] = old`; `maxcase` / `mincase`: `'n/a'`
  lists with `new[pv[i]] = old[i]`.
* `_calc_extreme`, one category: the first event that carries it sizes the new category
  (`init_extreme_cat`: `ext = ext_x = maxcase = mincase = None`, `mx, mn, mx_x, mn_x` NaN arrays
  `rows x len(cases)`, `drminfo` a copy: the event's labels); every later event goes through
  `_check_row_compatibility` first; then `extrema(new, val, maxcase, mincase, j)` with the labels of
  `_mk_case_lbls` (computed from the EXPANDED `val`).
* `extrema` (two columns, `casenum = j`): `mx[:, j] = mm.ext[:, 0]`, `mn[:, j] = mm.ext[:, 1]`,
  `mx_x[:, j] = mm.ext_x[:, 0]` or NaN when `mm.ext_x is None`, likewise `mn_x`; first call: copies;
  later calls: `j = nan_argmax(cur.ext[:, 0], mm.ext[:, 0]).nonzero()[0]`, and only `if j.size > 0`
  the labels, values and — `_put_time` — abscissae of the rows in `j` are overwritten.  `_put_time`
  (after fix 19ddbb5, finding F57): `mm` has `ext_x`: when the accumulator has none yet it gets a NEW
  all-NaN array `np.full(curext.ext.shape, nan)`, then the rows in `j` take `mm`'s abscissae (only
  those: a row that `mm` does not win keeps NaN); `mm` has none but the accumulator has: NaN into the
  rows in `j`; neither has: nothing.

A table is the list of its rows; a row bundles `ext[i, :]`, `ext_x[i, :]`, `maxcase[i]`, `mincase[i]`
(`Cur`) and, for the accumulator, `mx[i, :]`, `mn[i, :]`, `mx_x[i, :]`, `mn_x[i, :]`.  `hasX` is
`ext_x is not None`; the abscissae of a table without `ext_x` are never read (the harness sends NaN
for them, which is what the theorems assume: `EvOk.nox`).  Values are `Option α`
(`none` = NaN), abscissae `Option X`.
-/
namespace PyYetiVerif.ExtremaLabels
open PyYetiVerif.Extrema

/-! ### `locate.merge_lists` -/
section merge
variable {β : Type} [DecidableEq β]

/-- insert `xs` (in order) in front of position `i` -/
def insertAt (l : List β) (i : Nat) (xs : List β) : List β := l.take i ++ xs ++ l.drop i

/-- the main loop of `merge_lists`: state `(merged, elements)` -/
def mergeStep (st : List β × List β) (e : β) : List β × List β :=
  if st.1.contains e then (insertAt st.1 (st.1.idxOf e) st.2, [])
  else (st.1, st.2 ++ [e])

/-- `merged.index(e, prev)` -/
def indexFrom (l : List β) (e : β) (prev : Nat) : Nat := prev + (l.drop prev).idxOf e

def pv1Loop (merged : List β) : Nat → List β → List Nat
  | _, [] => []
  | prev, e :: rest => let i := indexFrom merged e prev; i :: pv1Loop merged i rest

/-- `merge_lists(list1, list2)` = `(merged, pv1, pv2)` -/
def mergeLists (l1 l2 : List β) : List β × List Nat × List Nat :=
  let st := l2.foldl mergeStep (l1, [])
  let merged := st.1 ++ st.2
  (merged, pv1Loop merged 0 l1, l2.map (fun e => merged.idxOf e))

/-- `len(lbls) == len(set(lbls))` -/
def nodupB : List β → Bool
  | [] => true
  | a :: l => !l.contains a && nodupB l

end merge

/-! ### tables -/

/-- a results category handed to `form_extreme` (an event's, or a lower level's envelope) -/
structure Cat (α X Lb : Type) where
  labels : List Lb
  /-- `ext_x is not None` -/
  hasX : Bool
  rows : List (Cur α (Option X) String)
deriving Repr, DecidableEq

/-- a row of the new category -/
structure ARow (α X : Type) where
  cur : Cur α (Option X) String
  mx : List (Option α)
  mn : List (Option α)
  mxx : List (Option X)
  mnx : List (Option X)
deriving Repr, DecidableEq

/-- the new (`'extreme'`) category once `ext` is set -/
structure Acc (α X Lb : Type) where
  labels : List Lb
  hasX : Bool
  rows : List (ARow α X)
deriving Repr, DecidableEq

inductive Err where
  /-- `ValueError`: row labels not all unique -/
  | value
deriving Repr, DecidableEq

/-- the row a table holds for label `l` (first occurrence) -/
def rowAt {R Lb : Type} [DecidableEq Lb] (labels : List Lb) (rows : List R) (l : Lb) : Option R :=
  if l ∈ labels then rows[labels.idxOf l]? else none

section expand
variable {α X Lb : Type}

/-- `new = fill; new[pv] = old` -/
def expandRows {R : Type} (fill : R) (n : Nat) (pv : List Nat) (rows : List R) : List R :=
  (pv.zip rows).foldl (fun acc p => acc.set p.1 p.2) (List.replicate n fill)

/-- a row nobody supplied: NaN values and abscissae, labels `'n/a'` -/
def fillCur : Cur α (Option X) String := ⟨⟨none, none, "n/a"⟩, ⟨none, none, "n/a"⟩⟩

/-- the same for the accumulator with `nc` per-case columns -/
def fillARow (nc : Nat) : ARow α X :=
  ⟨fillCur, List.replicate nc none, List.replicate nc none, List.replicate nc none,
    List.replicate nc none⟩

/-- `_expand(val, l3, pv)` -/
def expandCat (c : Cat α X Lb) (l3 : List Lb) (pv : List Nat) : Cat α X Lb :=
  { c with labels := l3, rows := expandRows fillCur l3.length pv c.rows }

/-- `_expand(new_ext[drm], l3, pv)` -/
def expandAcc (nc : Nat) (a : Acc α X Lb) (l3 : List Lb) (pv : List Nat) : Acc α X Lb :=
  { a with labels := l3, rows := expandRows (fillARow nc) l3.length pv a.rows }

variable [DecidableEq Lb]

/-- `_check_row_compatibility(new_ext[drm], val)` -/
def checkRows (nc : Nat) (a : Acc α X Lb) (c : Cat α X Lb) :
    Except Err (Acc α X Lb × Cat α X Lb) :=
  if a.labels = c.labels then .ok (a, c)
  else if !nodupB a.labels || !nodupB c.labels then .error .value
  else
    let m := mergeLists a.labels c.labels
    .ok (expandAcc nc a m.1 m.2.1, expandCat c m.1 m.2.2)

end expand

/-! ### `extrema(curext, mm, maxcase, mincase, casenum)` on aligned tables -/
section extrema
variable {α X Lb : Type} [LT α] [DecidableLT α]

/-- `_put_time` seen from one row and one column: `rep` = the row is in `j`, `trig` = `j.size > 0`;
`own` is the accumulator's abscissa in that column, `new` the input's -/
def putTime (accX valX trig rep : Bool) (own new : Option X) : Option X :=
  if valX then
    if accX then (if rep then new else own)
    else (if trig then (if rep then new else none) else own)
  else if accX then (if rep then none else own)
  else own

/-- the abscissa of the OTHER column after `_put_time` for this column: only the creation of the
all-NaN array touches it -/
def putTimeOther (accX valX trig : Bool) (own : Option X) : Option X :=
  if valX && !accX && trig then none else own

/-- the event's row with the labels of `_mk_case_lbls` -/
def relabel (case : String) (useExt : Bool) (d : Nat) (m : Cur α (Option X) String) :
    Cur α (Option X) String :=
  ⟨⟨m.hi.v, m.hi.x, mkCaseLbl case m.hi.lab useExt d⟩, ⟨m.lo.v, m.lo.x, mkCaseLbl case m.lo.lab useExt d⟩⟩

/-- the record part: column `j` of the four per-case arrays -/
def recordRow (valX : Bool) (j : Nat) (a : ARow α X) (m : Cur α (Option X) String) : ARow α X :=
  { a with mx := a.mx.set j m.hi.v, mn := a.mn.set j m.lo.v,
           mxx := a.mxx.set j (if valX then m.hi.x else none),
           mnx := a.mnx.set j (if valX then m.lo.x else none) }

/-- the maximum column of a later call -/
def stepHi (accX valX trig : Bool) (a : ARow α X) (m : Cur α (Option X) String) : ARow α X :=
  let rep := nanRepl gtB a.cur.hi.v m.hi.v
  { a with cur :=
    ⟨⟨if rep then m.hi.v else a.cur.hi.v, putTime accX valX trig rep a.cur.hi.x m.hi.x,
       if rep then m.hi.lab else a.cur.hi.lab⟩,
     ⟨a.cur.lo.v, putTimeOther accX valX trig a.cur.lo.x, a.cur.lo.lab⟩⟩ }

/-- the minimum column of a later call -/
def stepLo (accX valX trig : Bool) (a : ARow α X) (m : Cur α (Option X) String) : ARow α X :=
  let rep := nanRepl ltB a.cur.lo.v m.lo.v
  { a with cur :=
    ⟨⟨a.cur.hi.v, putTimeOther accX valX trig a.cur.hi.x, a.cur.hi.lab⟩,
     ⟨if rep then m.lo.v else a.cur.lo.v, putTime accX valX trig rep a.cur.lo.x m.lo.x,
       if rep then m.lo.lab else a.cur.lo.lab⟩⟩ }

/-- a later call of `extrema` on tables with the same rows; `ms` = the event's rows, already
relabelled -/
def extremaTbl (j : Nat) (a : Acc α X Lb) (valX : Bool) (ms : List (Cur α (Option X) String)) :
    Acc α X Lb :=
  let rows0 := List.zipWith (recordRow valX j) a.rows ms
  -- `j.size > 0` for the two columns (the record part and the maximum column leave `ext[:, 1]` alone)
  let trig0 := (a.rows.zip ms).any fun p => nanRepl gtB p.1.cur.hi.v p.2.hi.v
  let rows1 := List.zipWith (stepHi a.hasX valX trig0) rows0 ms
  let x1 := a.hasX || (valX && trig0)
  let trig1 := (a.rows.zip ms).any fun p => nanRepl ltB p.1.cur.lo.v p.2.lo.v
  let rows2 := List.zipWith (stepLo x1 valX trig1) rows1 ms
  { a with hasX := x1 || (valX && trig1), rows := rows2 }

/-- `init_extreme_cat(cases, val)` followed by the first `extrema` call -/
def initAcc (nc j : Nat) (labels : List Lb) (valX : Bool) (ms : List (Cur α (Option X) String)) :
    Acc α X Lb :=
  { labels := labels, hasX := valX,
    rows := ms.map fun m => recordRow valX j ⟨m, List.replicate nc none, List.replicate nc none,
      List.replicate nc none, List.replicate nc none⟩ m }

variable [DecidableEq Lb]

/-- one event of `_calc_extreme` for the category: `j` = its position in `cases`, `case` = its key -/
structure Ev (α X Lb : Type) where
  j : Nat
  case : String
  useExt : Bool
  cat : Cat α X Lb
deriving Repr

/-- the body of the loop of `_calc_extreme` for one event that carries the category -/
def formStep (d nc : Nat) (acc : Option (Acc α X Lb)) (e : Ev α X Lb) : Except Err (Acc α X Lb) :=
  match acc with
  | none => .ok (initAcc nc e.j e.cat.labels e.cat.hasX (e.cat.rows.map (relabel e.case e.useExt d)))
  | some a =>
    match checkRows nc a e.cat with
    | .error err => .error err
    | .ok (a', c') => .ok (extremaTbl e.j a' c'.hasX (c'.rows.map (relabel e.case e.useExt d)))

/-- `_calc_extreme` for one category over the events that carry it (`nc = len(cases)`); an error
comes with the case number of the event at which it is raised -/
def formCat (d nc : Nat) :
    Option (Acc α X Lb) → List (Ev α X Lb) → Except (Err × Nat) (Option (Acc α X Lb))
  | acc, [] => .ok acc
  | acc, e :: es =>
    match formStep d nc acc e with
    | .error err => .error (err, e.j)
    | .ok a => formCat d nc (some a) es

end extrema

/-- a lower-level envelope as the next level reads it (`dct[case]['extreme'][drm]`: its `ext`, `ext_x`,
`maxcase`, `mincase` are the rows' `cur`) -/
def accToCat {α X Lb : Type} (a : Acc α X Lb) : Cat α X Lb :=
  ⟨a.labels, a.hasX, a.rows.map (·.cur)⟩

/-! ### the by-label reference: what the row of label `l` should hold -/
section bylabel
variable {α X Lb : Type} [LT α] [DecidableLT α] [DecidableEq Lb]

/-- the row an event holds for label `l` (first occurrence), relabelled; `none` = the event does not
list `l` -/
def evRow (d : Nat) (l : Lb) (e : Ev α X Lb) : Option (Cur α (Option X) String) :=
  (rowAt e.cat.labels e.cat.rows l).map (relabel e.case e.useExt d)

/-- fold of the two-column compare-and-replace over the rows of the events that carry `l`, starting
from the first event's row when it carries `l` and from the `'n/a'` fill row otherwise -/
def rowFold (d : Nat) (l : Lb) : List (Ev α X Lb) → Cur α (Option X) String
  | [] => fillCur
  | e :: es =>
    (es.filterMap (evRow d l)).foldl (fun c m => upd2 (some c) (m.hi, m.lo)) ((evRow d l e).getD fillCur)

/-- per-case column of label `l` (`mx[i, :]`, `mn[i, :]`, `mx_x[i, :]`, `mn_x[i, :]`): every event writes
column `j` = its case number — what it holds for `l`, NaN when it does not list `l` -/
def colFold {γ : Type} (d : Nat) (l : Lb) (nc : Nat) (sel : Cur α (Option X) String → Option γ)
    (es : List (Ev α X Lb)) : List (Option γ) :=
  record nc none (es.map fun e => (e.j, (evRow d l e).bind sel))

/-- the whole row of label `l` in the new category -/
def specRow (d nc : Nat) (l : Lb) (es : List (Ev α X Lb)) : ARow α X :=
  ⟨rowFold d l es, colFold d l nc (·.hi.v) es, colFold d l nc (·.lo.v) es,
    colFold d l nc (·.hi.x) es, colFold d l nc (·.lo.x) es⟩

/-- the row labels of the result: iterated `merge_lists` -/
def labelFold : List Lb → List (List Lb) → List Lb
  | acc, [] => acc
  | acc, l :: ls => labelFold (if acc = l then acc else (mergeLists acc l).1) ls

end bylabel

end PyYetiVerif.ExtremaLabels
