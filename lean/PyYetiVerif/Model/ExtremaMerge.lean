import PyYetiVerif.Model.Extrema
/-!
# Executable model of the remaining `DR_Results` bookkeeping (core Lean only)

* `DR_Results.merge`: event names (after `rename_dict`) are appended to the ordered dictionary; a
  name already present raises `ValueError`;
* `DR_Results.add_maxmin`: extreme table of a category set from an external source;
* `DR_Results.calc_ext`: `.ext` recomputed from the per-case columns with numpy's NaN-PROPAGATING
  `max / min / argmax / argmin` (first NaN wins, otherwise first extreme), `ext_x = None`;
* `DR_Results.calc_stat_ext`: `mean ± k·std(ddof=1)` over the per-case columns, labels
  `'Statistical'`.
-/
namespace PyYetiVerif.Extrema

/-- `merge(results_iter, rename_dict)`: `existing` are the keys already in `self`, `incoming` the
event names of the results in iteration order; `none` = `ValueError` -/
def mergeEvents {L : Type} [DecidableEq L] (rename : L → L) (existing incoming : List L) :
    Option (List L) :=
  incoming.foldl (fun st e => st.bind fun keys =>
    if keys.contains (rename e) then none else some (keys ++ [rename e])) (some existing)

/-- `add_maxmin(cat, mxmn, maxcase, mincase, mxmn_xvalue)` for one row: `x = none` when
`mxmn_xvalue is None`; `mincase = none` copies `maxcase` -/
def addMaxminRow {α X L : Type} (mx mn : Option α) (x : Option (X × X)) (nox : X) (maxcase : L)
    (mincase : Option L) : Cur α X L :=
  ⟨⟨mx, (x.map (·.1)).getD nox, maxcase⟩, ⟨mn, (x.map (·.2)).getD nox, mincase.getD maxcase⟩⟩

section calcext
variable {α L : Type}

/-- numpy `argmax` / `argmin` replacement rule: a NaN already found stays, the first NaN replaces
any number, otherwise strict improvement -/
def propRepl (better : α → α → Bool) : Option α → Option α → Bool
  | some a, some b => better a b
  | some _, none => true
  | none, _ => false

/-- `res.mx.max(axis=1)`, `[cases[i] for i in res.mx.argmax(axis=1)]` for one row; `none` for an
empty row (numpy raises) -/
def calcBest (better : α → α → Bool) : List (Tr α Unit L) → Option (Tr α Unit L)
  | [] => none
  | t :: ts => some (ts.foldl (fun cur new => if propRepl better cur.v new.v then new else cur) t)

variable [LT α] [DecidableLT α]

/-- `calc_ext` for one row: `mx`, `mn` are row `i` of `res.mx`, `res.mn`; labels from `res.cases` -/
def calcExtRow (mx mn : List (Option α)) (cases : List L) : Option (Cur α Unit L) :=
  match calcBest gtB ((mx.zip cases).map fun p => ⟨p.1, (), p.2⟩),
        calcBest ltB ((mn.zip cases).map fun p => ⟨p.1, (), p.2⟩) with
  | some h, some l => some ⟨h, l⟩
  | _, _ => none

end calcext

section stat
variable {α : Type} [Add α] [Sub α] [Mul α] [Div α] [Zero α] [NatCast α]

/-- `x.mean()` -/
def mean (xs : List α) : α := xs.sum / (xs.length : α)

/-- `x.std(ddof=1)` given the square root -/
def std1 (sqrt : α → α) (xs : List α) : α :=
  let m := mean xs
  sqrt ((xs.map fun x => (x - m) * (x - m)).sum / ((xs.length - 1 : Nat) : α))

/-- `calc_stat_ext(k)` for one row: `[mean(mx) + k*std(mx), mean(mn) - k*std(mn)]` -/
def statExtRow (sqrt : α → α) (k : α) (mx mn : List α) : α × α :=
  (mean mx + k * std1 sqrt mx, mean mn - k * std1 sqrt mn)

end stat

end PyYetiVerif.Extrema
