/-
Model of pyyeti/rainflow/py_rain.py (`_rainflow1`, `_rainflow2`) and
pyyeti/rainflow/c_rain.c (`rainflow1`, `rainflow2`, both settings of
USE_FASTER_RAINFLOW_ROUTINE).  Core Lean only (no Mathlib) so that it runs
under `lake env lean --run`.

The work array `pts[0..j]` (with `cycle_index[0..j]`) is a list with the
newest point first.  One output row is a `Cyc`: range `|A-B|` and sum `A+B`
(the code stores amplitude = range/2 and mean = sum/2; halving is applied by
the correspondence harness so the model stays in the ring of the input),
`full` = (count == 1.0), and the two offsets.
-/
namespace PyYetiVerif.Rainflow

structure Cyc (α : Type) where
  rng  : α
  sum  : α
  full : Bool
  s    : Nat
  e    : Nat
deriving Repr, DecidableEq

variable {α : Type} [Sub α] [Add α] [LT α] [DecidableLT α]

/-- `abs(a - b)` as the code computes it, for a linear order. -/
def absd (a b : α) : α := if a < b then b - a else a - b

def mkCyc (full : Bool) (a b : α × Nat) : Cyc α :=
  { rng := absd a.1 b.1, sum := a.1 + b.1, full := full, s := a.2, e := b.2 }

/-- The `while j > 1` loop (steps 2-5).  Input: the stack, newest first.
Output: the stack after the loop and the rows emitted, in order. -/
def reduce : List (α × Nat) → List (α × Nat) × List (Cyc α)
  | c :: b :: a :: [] =>
      if absd b.1 c.1 < absd a.1 b.1 then (c :: b :: a :: [], [])
      else ([c, b], [mkCyc false a b])                       -- step 5 (j == 2)
  | c :: b :: a :: r :: rest =>
      if absd b.1 c.1 < absd a.1 b.1 then (c :: b :: a :: r :: rest, [])
      else
        let res := reduce (c :: r :: rest)                   -- step 4: discard j-2, j-1
        (res.1, mkCyc true a b :: res.2)
  | st => (st, [])
termination_by st => st.length

/-- Step 6: every remaining adjacent pair (oldest first) is a half cycle. -/
def finish : List (α × Nat) → List (Cyc α)
  | a :: b :: rest => mkCyc false a b :: finish (b :: rest)
  | _ => []

/-- One pass of the `for k in range(L)` body: push, then reduce. -/
def step (acc : List (α × Nat) × List (Cyc α)) (p : α × Nat) :
    List (α × Nat) × List (Cyc α) :=
  let res := reduce (p :: acc.1)
  (res.1, acc.2 ++ res.2)

def run (pts : List (α × Nat)) : List (α × Nat) × List (Cyc α) :=
  pts.foldl step ([], [])

/-- Attach offsets `k, k+1, …`. -/
def index : List α → Nat → List (α × Nat)
  | [], _ => []
  | x :: xs, k => (x, k) :: index xs (k + 1)

/-- The whole routine with offsets (`_rainflow2` / `rainflow2`). -/
def rainflow (pts : List α) : List (Cyc α) :=
  let res := run (index pts 0)
  res.2 ++ finish res.1.reverse

/-- The variant without offsets (`_rainflow1` / `rainflow1`): same table, no
offsets.  It is a separate transcription (stack of bare values). -/
def reduce1 : List α → List α × List (α × α × Bool)
  | c :: b :: a :: [] =>
      if absd b c < absd a b then (c :: b :: a :: [], [])
      else ([c, b], [(absd a b, a + b, false)])
  | c :: b :: a :: r :: rest =>
      if absd b c < absd a b then (c :: b :: a :: r :: rest, [])
      else
        let res := reduce1 (c :: r :: rest)
        (res.1, (absd a b, a + b, true) :: res.2)
  | st => (st, [])
termination_by st => st.length

def finish1 : List α → List (α × α × Bool)
  | a :: b :: rest => (absd a b, a + b, false) :: finish1 (b :: rest)
  | _ => []

def step1 (acc : List α × List (α × α × Bool)) (p : α) :=
  let res := reduce1 (p :: acc.1)
  (res.1, acc.2 ++ res.2)

def rainflow1 (pts : List α) : List (α × α × Bool) :=
  let res := pts.foldl step1 ([], [])
  res.2 ++ finish1 res.1.reverse

/-- The public entry points refuse fewer than two points (`ValueError`). -/
def rainflowApi (pts : List α) : Option (List (Cyc α)) :=
  if pts.length < 2 then none else some (rainflow pts)

def rainflow1Api (pts : List α) : Option (List (α × α × Bool)) :=
  if pts.length < 2 then none else some (rainflow1 pts)

/-- Number of rows the code returns: `L - fullcyclesp1`. -/
def nrows (pts : List α) : Nat :=
  pts.length - (1 + ((rainflow pts).filter (·.full)).length)

end PyYetiVerif.Rainflow
