/-!
# C07 — model of `pyyeti/ssmodel.py`: `SSModel.c2d` / `SSModel.d2c` (core Lean only)

The four conversion methods as formulas over one type `α` of (square, same-size) matrices — a
non-commutative ring in the theorems (`Props/C07.lean`), exact rational matrices or `Float` in
the driver.  Every inverse the code obtains from `lu_solve` / `solve`, the matrix exponential
data `E, I1, I2/h, I1 − I2/h` and the logarithm are *arguments* (data), so the formulas stay
division free; the theorems carry the corresponding hypotheses (`Q * (k − A) = 1`, …).

`k` is the scalar `2/h` (or the prewarped `w / tan(w h / 2)`) as an element of `α` (`k·I`).
-/
namespace PyYetiVerif.SSModel

structure SS (α : Type) where
  A : α
  B : α
  C : α
  D : α
  deriving Repr

class TanOps (α : Type) where
  tan : α → α

/-- `k = 2/h` when `prewarp` is `None` or `0`, else `prewarp / tan(prewarp·h/2)` (both `c2d` and
`d2c` compute it with the same two lines) -/
def tustinK {α : Type} [Div α] [Mul α] [OfNat α 0] [OfNat α 2] [BEq α] [TanOps α]
    (h prewarp : α) : α :=
  if prewarp == 0 then 2 / h else prewarp / TanOps.tan (prewarp * h / 2)

variable {α : Type} [Add α] [Sub α] [Mul α] [OfNat α 1]

/-- `c2d(method='tustin')`: `q = lu_factor(k I − A)`, `A_z = q⁻¹(k I + A)`, `QB = q⁻¹ B`,
`B_z = (I + A_z) QB`, `D_z = C QB + D`.  `Q` is the inverse of `k − A`. -/
def tustinC2D (k Q : α) (s : SS α) : SS α :=
  let zA := Q * (k + s.A)
  let QB := Q * s.B
  ⟨zA, (1 + zA) * QB, s.C, s.C * QB + s.D⟩

/-- `d2c(method='tustin')`: `q = lu_factor(I + A_z)`,
`A = k·(lu_solve(q, A_zᵀ − I, trans=1))ᵀ = k (A_z − I) q⁻¹`, `QB = q⁻¹ B_z`, `B = (k I − A) QB`,
`D = D_z − C_z QB`.  `q` is the inverse of `1 + A_z`. -/
def tustinD2C (k q : α) (z : SS α) : SS α :=
  let A := k * ((z.A - 1) * q)
  let QB := q * z.B
  ⟨A, (k - A) * QB, z.C, z.D - z.C * QB⟩

/-- `c2d(method='zoh')`: `A, B, Q = getEPQ(A, h, 0, B=B)`: `A_z = E`, `B_z = I1 B` -/
def zohC2D (E I1 : α) (s : SS α) : SS α := ⟨E, I1 * s.B, s.C, s.D⟩

/-- `d2c(method='zoh')` (after the repair 3c00cc3): `A = log(A_z)/h`,
`E, P, Q = getEPQ(A, h, 0)`, `B = solve(P, B_z)`; `Pinv` is the inverse of `P = I1(A)` -/
def zohD2C (A Pinv : α) (z : SS α) : SS α := ⟨A, Pinv * z.B, z.C, z.D⟩

/-- `c2d(method='zoha')`: `A, P, Q = getEPQ(A, h, 0, B=B)`, `P /= 2`, `Q = P`, `B_z = P + A_z Q`,
`D_z = C Q + D`; `half` stands for the scalar `1/2` -/
def zohaC2D (E I1 half : α) (s : SS α) : SS α :=
  let P := half * (I1 * s.B)
  ⟨E, P + E * P, s.C, s.C * P + s.D⟩

/-- `d2c(method='zoha')`: `P = I1(A)/2`, `Q = P`, `B = solve(P + A_z Q, B_z)`,
`D = D_z − C (Q B)`; `inv` is the inverse of `P + A_z P` -/
def zohaD2C (A I1 half inv : α) (z : SS α) : SS α :=
  let P := half * I1
  let B := inv * z.B
  ⟨A, B, z.C, z.D - z.C * (P * B)⟩

/-- `c2d(method='foh')`: `A, P, Q = getEPQ(A, h, 1, B=B)` (`P = (I2/h) B`, `Q = (I1 − I2/h) B`),
`B_z = P + A_z Q`, `D_z = C Q + D`.  `P, Q` are given without the factor `B`. -/
def fohC2D (E P Q : α) (s : SS α) : SS α :=
  ⟨E, P * s.B + E * (Q * s.B), s.C, s.C * (Q * s.B) + s.D⟩

/-- `d2c(method='foh')`: `E, P, Q = getEPQ(A, h, 1)`, `B = solve(P + A_z Q, B_z)`,
`D = D_z − C (Q B)`; `inv` is the inverse of `P + A_z Q` -/
def fohD2C (A P Q inv : α) (z : SS α) : SS α :=
  let B := inv * z.B
  ⟨A, B, z.C, z.D - z.C * (Q * B)⟩

/-! ## the whole routines `SSModel.c2d` / `SSModel.d2c`, with the attributes `h`, `method`, `prewarp`

An `SSModel` object is the four matrices plus `h` (`None` = continuous), `method`, `prewarp`.
`c2d` starts with `if self.h: return self` (truthiness: `None` and `0` count as continuous), `d2c`
with `if self.h is None: return self`; every conversion builds a *new* object: `c2d` one with
`h, method` (and `prewarp` for tustin), `d2c` one **without** `h` (`SSModel(A, B, C, D,
method=method[, prewarp=prewarp])`).  The numerical kernels are data (`Kernels`). -/

inductive Method where
  | zoh | zoha | foh | tustin
  deriving DecidableEq, Repr

structure Sys (α τ : Type) where
  ss : SS α
  h : Option τ
  method : Option Method
  prewarp : Option τ

/-- what `c2d` / `d2c` call: `getEPQ(A, h, 0)` → `expm`, `int1`; `getEPQ(A, h, 1)` → `expm`, `fohP`
(`= I2/h`), `fohQ` (`= I1 − I2/h`); `logm Z h` the `eig`-based `log(Z)/h`; `inv` what `lu_solve` /
`la.solve` apply; `kI h prewarp` the scalar `2/h` or `prewarp/tan(prewarp·h/2)` times the identity;
`half` the scalar `1/2` -/
structure Kernels (α τ : Type) where
  expm : α → τ → α
  int1 : α → τ → α
  fohP : α → τ → α
  fohQ : α → τ → α
  logm : α → τ → α
  inv : α → α
  kI : τ → Option τ → α
  half : α

/-- Python truthiness of the attribute `h` -/
def truthy {τ : Type} [BEq τ] [OfNat τ 0] : Option τ → Bool
  | none => false
  | some x => !(x == 0)

/-- `SSModel.c2d(self, h, method, prewarp)` (a valid `method`; any other string is a `ValueError`) -/
def Sys.c2d {τ : Type} [BEq τ] [OfNat τ 0] (K : Kernels α τ) (self : Sys α τ) (h : τ) (method : Method)
    (prewarp : Option τ) : Sys α τ :=
  if truthy self.h then self
  else
    let s := self.ss
    match method with
    | .zoh => ⟨zohC2D (K.expm s.A h) (K.int1 s.A h) s, some h, some .zoh, none⟩
    | .zoha => ⟨zohaC2D (K.expm s.A h) (K.int1 s.A h) K.half s, some h, some .zoha, none⟩
    | .foh => ⟨fohC2D (K.expm s.A h) (K.fohP s.A h) (K.fohQ s.A h) s, some h, some .foh, none⟩
    | .tustin =>
      let k := K.kI h prewarp
      ⟨tustinC2D k (K.inv (k - s.A)) s, some h, some .tustin, prewarp⟩

/-- `SSModel.d2c(self, method, prewarp)` -/
def Sys.d2c {τ : Type} (K : Kernels α τ) (self : Sys α τ) (method : Method) (prewarp : Option τ) :
    Sys α τ :=
  match self.h with
  | none => self
  | some h =>
    let z := self.ss
    match method with
    | .tustin =>
      let k := K.kI h prewarp
      ⟨tustinD2C k (K.inv (1 + z.A)) z, none, some .tustin, prewarp⟩
    | .foh =>
      let A := K.logm z.A h
      let P := K.fohP A h
      let Q := K.fohQ A h
      ⟨fohD2C A P Q (K.inv (P + z.A * Q)) z, none, some .foh, none⟩
    | .zoh =>
      let A := K.logm z.A h
      ⟨zohD2C A (K.inv (K.int1 A h)) z, none, some .zoh, none⟩
    | .zoha =>
      let A := K.logm z.A h
      let I1 := K.int1 A h
      ⟨zohaD2C A I1 K.half (K.inv (K.half * I1 + z.A * (K.half * I1))) z, none, some .zoha, none⟩

end PyYetiVerif.SSModel
