import PyYetiVerif.Model.Bulk
/-
Model of `rddmig(f, expanded=…, square=…)` (pyyeti/nastran/bulk.py, `_cards_to_df` with its helpers
`_add_iddof_expanded`, `_add_iddof_minimal`, `_mk_index`, `_prep_dataframe`) — the re-indexing options
of the punch reader (C13).  Core Lean only.

  expanded=True   every GRID id referenced on the DMIG gets all six DOF in the index (an id first seen
                  with DOF 0 is a scalar point and gets the single label `(id, 0)`); a form-9 matrix
                  gets the columns `1 … NCOL` of the header card
  square=True     a form-1 matrix gets the union of its row and column labels as row AND column index
                  (what the reader always does for form 6); no other form is affected

The assignments (`DmigRead.entries`, `DmigRead.assign`, `DmigRead.cell`) are those of the plain reader:
only the two index lists change.
-/
namespace PyYetiVerif.Bulk

structure RdOpt where
  expanded : Bool
  square : Bool
deriving Repr, DecidableEq

def sixOf (nid : Int) : List (Int × Int) := [(nid, 1), (nid, 2), (nid, 3), (nid, 4), (nid, 5), (nid, 6)]

/-- what `_add_iddof_expanded` appends for an id it has not seen: `dof > 0` ⇒ six labels, else `(id, 0)` -/
def expOf (p : Int × Int) : List (Int × Int) := if 0 < p.2 then sixOf p.1 else [(p.1, 0)]

/-- `_add_iddof_expanded(ids, iddof, nid, dof)`: state = (`ids`, `iddof`) -/
def addExp (st : List Int × List (Int × Int)) (p : Int × Int) : List Int × List (Int × Int) :=
  if st.1.contains p.1 then st else (p.1 :: st.1, st.2 ++ expOf p)

def expandAll (st : List Int × List (Int × Int)) (ls : List (Int × Int)) : List Int × List (Int × Int) :=
  ls.foldl addExp st

/-- the column cards of one matrix: column labels and, per card, the row entries (`c[4::4]`, `c[5::4]`,
`c[6::4]`, `c[7::4]`); `none` = a label that is not a pair of integers -/
def dmigParse (cc : List (List Val)) :
    Option (List (Int × Int) × List (List ((Int × Int) × Val × Val))) :=
  let colL : Option (List (Int × Int)) := cc.mapM fun c => lbl (c.getD 1 .blank) (c.getD 2 .blank)
  let ents : Option (List (List ((Int × Int) × Val × Val))) := cc.mapM fun c =>
    let ids := every4 4 c
    let dofs := every4 5 c
    let res := every4 6 c
    let ims := every4 7 c
    (((ids.zip dofs).zip (res.zip (ims ++ List.replicate res.length Val.blank))).mapM
      fun ((a, b), (x, y)) => (lbl a b).map fun l => (l, x, y))
  match colL, ents with
  | some colL, some ents => some (colL, ents)
  | _, _ => none

/-- `form == 6 or (form == 1 and square)` -/
def unionIdx (o : RdOpt) (form : Val) : Bool := form == .int 6 || (form == .int 1 && o.square)

/-- `np.arange(1, ncol + 1)` as labels `(k, 0)` -/
def colRange (n : Int) : List (Int × Int) := (List.range n.toNat).map fun (k : Nat) => ((k : Int) + 1, 0)

/-- the row and column index of `_prep_dataframe`; `none` = the NCOL field of a form-9 header is not an
integer (TypeError in `np.arange`) -/
def dmigIndex (o : RdOpt) (form ncol : Val) (rowL colL : List (Int × Int)) :
    Option (List (Int × Int) × List (Int × Int)) :=
  let u := unionIdx o form
  if o.expanded then
    let colSt := expandAll ([], []) colL
    let rowSt := expandAll ([], []) rowL
    let rowSt := if u then expandAll rowSt colSt.2 else rowSt
    let rows := sortSet rowSt.2
    if form == .int 9 then
      match ncol with
      | .int n => some (rows, colRange n)
      | _ => none
    else some (rows, if u then rows else sortSet colSt.2)
  else
    let rows := if u then sortSet (rowL ++ colL) else sortSet rowL
    some (rows, if u then rows else sortSet colL)

/-- `_cards_to_df` for one matrix with the options -/
def dmigOneX (o : RdOpt) (h : List Val) (nm : Txt) (cc : List (List Val)) : Option DmigRead :=
  let form := h.getD 2 .blank
  let mtype := h.getD 3 .blank
  match dmigParse cc with
  | none => none
  | some (colL, ents) =>
    match dmigIndex o form (h.getD 7 .blank) (ents.flatten.map (·.1)) colL with
    | none => none
    | some (rows, cols) =>
      some { name := nm, form := form, mtype := mtype, rows := rows, cols := cols,
             entries := (colL.zip ents).flatMap fun (cl, es) => es.map fun (rl, x, y) => (rl, cl, x, y) }

def dmigAuxX (o : RdOpt) : Nat → List (List Val) → Option (List DmigRead)
  | 0, _ => some []
  | _, [] => some []
  | fuel + 1, h :: rest =>
      match cardName h with
      | none => none
      | some nm =>
        let cc := rest.takeWhile fun c => cardName c == some nm
        let rest' := rest.dropWhile fun c => cardName c == some nm
        match dmigOneX o h nm cc, dmigAuxX o fuel rest' with
        | some d, some ds => some (d :: ds)
        | _, _ => none

/-- `rddmig(f, expanded=…, square=…)` on punch text -/
def rdDmigX (o : RdOpt) (lines : List Txt) : Option (List DmigRead) :=
  let cards := rdcards (txt "dmig") lines
  if cards.isEmpty then none else dmigAuxX o (cards.length + 1) cards

end PyYetiVerif.Bulk
