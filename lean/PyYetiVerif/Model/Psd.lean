import PyYetiVerif.Model.Fixtime
/-
Model of `pyyeti.psd.area`, `psd.interp` and `psd.rescale` (C19).  Core Lean only.

One definition, two instances: everything is polymorphic over the arithmetic operations plus the
small class `PsdOps` (`log exp sqrt`).  `Props/C19.lean` proves about the definitions at `ℝ`
(area, interp) and over any linearly ordered field (rescale); `Drivers/C19.lean` runs the same
definitions at `Float` (numeric correspondence) and at `Rat` (exact, linear band scales).

* `areaSeg`, `area`      — the segment formula with its `abs(s + 1.0) < 1e-8` branch, summed left
                           to right from `0`.
* `interp1dLin`          — `scipy.interpolate.interp1d(kind="linear", bounds_error=False,
                           fill_value=0, assume_sorted=True)` evaluated at one point
                           (`searchsorted`, clip to `[1, n-1]`, `slope*(x - x_lo) + y_lo`).
* `interpLog`, `interpLin` — `psd.interp(spec, x, linear=False|True)` for one PSD column.
* `isLinTol`, `isLinExact`, `edgesLin`, `edgesLog`, `getFlFu`, `inEdges`
                         — band edges of a centre-frequency scale (`rescale._get_fl_fu` and the
                           input-scale test `np.all(Df == Df[0])`).
* `npInterp`             — `np.interp(x, xp, fp)` (end values outside `[xp[0], xp[-1]]`).
* `rescaleCore`          — everything `rescale` does once the edges exist: cumulative area,
                           `extendends` clipping, `cal`/`cau`, `ms`, `psdoct`, re-scaling of `ms`.
* `trimBands`, `rescaleFreq` — the `freq=` path of `rescale` (`Nmin`/`Nmax` trimming).
-/
namespace PyYetiVerif.Psd
open PyYetiVerif.Fixtime

class PsdOps (α : Type) where
  log : α → α
  exp : α → α
  sqrt : α → α

variable {α : Type} [Add α] [Sub α] [Mul α] [Div α] [LT α] [DecidableLT α] [LE α] [DecidableLE α]
  [OfNat α 0] [OfNat α 1] [OfNat α 2]

/-- `abs(x)` -/
def absv (x : α) : α := if x < 0 then 0 - x else x

/-- `sum` accumulated left to right from `0` (the code's `_area[j] += …`, `np.sum`, `cumsum`). -/
def sumL (l : List α) : α := l.foldl (· + ·) 0

section area
variable [OfScientific α] [PsdOps α]

/-- one segment of `psd.area` -/
def areaSeg (f1 p1 f2 p2 : α) : α :=
  let s := PsdOps.log (p2 / p1) / PsdOps.log (f2 / f1)
  if absv (s + 1) < 1e-8 then p1 * f1 * PsdOps.log (f2 / f1)
  else (f2 * p2 - f1 * p1) / (s + 1)

/-- the segment areas of a specification given as rows `(f, p)` -/
def segAreas : List (α × α) → List α
  | a :: b :: r => areaSeg a.1 a.2 b.1 b.2 :: segAreas (b :: r)
  | _ => []

/-- `psd.area(spec)` for one PSD column -/
def area (spec : List (α × α)) : α := sumL (segAreas spec)

end area

/-- `interp1d(xs, ys, kind="linear", bounds_error=False, fill_value=0, assume_sorted=True)(x)` -/
def interp1dLin (xs ys : List α) (x : α) : α :=
  match xs.head?, xs.getLast? with
  | some x0, some xl =>
      if x < x0 then 0 else if xl < x then 0 else
        let k0 := ssLeft xs x
        let k := if k0 < 1 then 1 else if xs.length - 1 < k0 then xs.length - 1 else k0
        match xs[k - 1]?, xs[k]?, ys[k - 1]?, ys[k]? with
        | some xlo, some xhi, some ylo, some yhi => (yhi - ylo) / (xhi - xlo) * (x - xlo) + ylo
        | _, _, _, _ => 0
  | _, _ => 0

/-- `psd.interp(spec, [x], linear=True)[0]` -/
def interpLin (spec : List (α × α)) (x : α) : α :=
  interp1dLin (spec.map (·.1)) (spec.map (·.2)) x

/-- `psd.interp(spec, [x], linear=False)[0]`: interpolate the logs, `exp` inside the range -/
def interpLog [PsdOps α] (spec : List (α × α)) (x : α) : α :=
  let y := interp1dLin (spec.map fun r => PsdOps.log r.1) (spec.map fun r => PsdOps.log r.2)
    (PsdOps.log x)
  match (spec.map (·.1)).head?, (spec.map (·.1)).getLast? with
  | some f0, some fl => if f0 ≤ x ∧ x ≤ fl then PsdOps.exp y else y
  | _, _ => y

/-! ### band edges -/

/-- `np.diff` -/
def diffs : List α → List α
  | a :: b :: r => (b - a) :: diffs (b :: r)
  | _ => []

/-- `(abs(Df / Df[0] - 1.0) < 1e-12).all()` -/
def isLinTol [OfScientific α] (c : List α) : Bool :=
  match diffs c with
  | [] => true
  | d0 :: r => (d0 :: r).all fun d => decide (absv (d / d0 - 1) < 1e-12)

/-- `np.all(Df == Df[0])` -/
def isLinExact (c : List α) : Bool :=
  match diffs c with
  | [] => true
  | d0 :: r => r.all fun d => decide (d ≤ d0) && decide (d0 ≤ d)

/-- `FL = fcenter - Df/2; FU = fcenter + Df/2` -/
def edgesLin (c : List α) (d : α) : List α × List α :=
  (c.map (· - d / 2), c.map (· + d / 2))

/-- `mid = sqrt(c[:-1]*c[1:])` -/
def mids [PsdOps α] : List α → List α
  | a :: b :: r => PsdOps.sqrt (a * b) :: mids (b :: r)
  | _ => []

/-- the logarithmic branch of `_get_fl_fu` (at least two centres) -/
def edgesLog [PsdOps α] (c : List α) : List α × List α :=
  let mid := mids c
  match c, c.getLast?, mid.head?, mid.getLast? with
  | c0 :: c1 :: _, some cl, some m0, some ml =>
      ((m0 / c1 * c0) :: mid, mid ++ [cl / ml * cl])
  | _, _, _, _ => ([], [])

/-- `rescale._get_fl_fu(fcenter)` (at least two centres) -/
def getFlFu [OfScientific α] [PsdOps α] (c : List α) : List α × List α :=
  match diffs c with
  | d0 :: _ => if isLinTol c then edgesLin c d0 else edgesLog c
  | [] => ([], [])

/-- edges of the input scale: exact-equality test first, `_get_fl_fu` otherwise -/
def inEdges [OfScientific α] [PsdOps α] (F : List α) : List α × List α :=
  match diffs F with
  | d0 :: _ => if isLinExact F then edgesLin F d0 else getFlFu F
  | [] => ([], [])

/-! ### cumulative-area bookkeeping -/

/-- interior of `np.interp`: `xp[j] <= x < xp[j+1]` → `slope*(x - xp[j]) + fp[j]`; past the last
point → last value -/
def interpGo : List α → List α → α → α
  | x0 :: x1 :: xs, y0 :: y1 :: ys, x =>
      if x < x1 then (y1 - y0) / (x1 - x0) * (x - x0) + y0 else interpGo (x1 :: xs) (y1 :: ys) x
  | _, y0 :: _, _ => y0
  | _, [], _ => 0

/-- `np.interp(x, xp, fp)` -/
def npInterp (xp fp : List α) (x : α) : α :=
  match xp, fp with
  | x0 :: _, y0 :: _ => if x < x0 then y0 else interpGo xp fp x
  | _, _ => 0

/-- `cumsum` started from `c` (the running value is emitted after each addition) -/
def cumFrom (c : α) : List α → List α
  | [] => []
  | a :: r => (c + a) :: cumFrom (c + a) r

/-- replace the first / last element -/
def setHead (l : List α) (v : α) : List α := match l with | [] => [] | _ :: r => v :: r
def setLast (l : List α) (v : α) : List α := match l.reverse with
  | [] => [] | _ :: r => (v :: r).reverse

/-- `FL[0] = FLin[0] if FL[0] < FLin[0]`, `FU[-1] = FUin[-1] if FU[-1] > FUin[-1]` -/
def clipEnds (FLin FUin FL FU : List α) : List α × List α :=
  let FL' := match FL.head?, FLin.head? with
    | some a, some b => if a < b then setHead FL b else FL
    | _, _ => FL
  let FU' := match FU.getLast?, FUin.getLast? with
    | some a, some b => if b < a then setLast FU b else FU
    | _, _ => FU
  (FL', FU')

/-- `Fa = hstack((FLin[0], FUin))` -/
def cumGrid (FLin FUin : List α) : List α :=
  match FLin with
  | [] => FUin
  | l0 :: _ => l0 :: FUin

/-- `ca = vstack((0, cumsum(Df * P)))`, `Df = FUin - FLin` -/
def cumVals (FLin FUin P : List α) : List α :=
  (0 : α) :: cumFrom 0 (List.zipWith (· * ·) (List.zipWith (· - ·) FUin FLin) P)

structure Rescaled (α : Type) where
  psd : List α
  ms : List α
  msv : α

/-- `rescale` from the point where input edges `(FLin, FUin)`, one PSD column `P` and output
edges `(FL, FU)` exist. -/
def rescaleCore (FLin FUin P FL FU : List α) (ext : Bool) : Rescaled α :=
  let ca := cumVals FLin FUin P
  let Fa := cumGrid FLin FUin
  let (FLc, FUc) := if ext then clipEnds FLin FUin FL FU else (FL, FU)
  let cal := FLc.map (npInterp Fa ca)
  let cau := FUc.map (npInterp Fa ca)
  let ms := List.zipWith (· - ·) cau cal
  let w := List.zipWith (· - ·) FUc FLc
  let psd := List.zipWith (fun m d => m * (1 / d)) ms w
  let ms' := if ext then List.zipWith (· * ·) psd (List.zipWith (· - ·) FU FL) else ms
  ⟨psd, ms', sumL ms'⟩

/-- `Nmax = max(nonzero(FL <= F[-1])) + 1; Nmin = min(nonzero(FU >= F[0]))`; `none` = the
`ValueError` of `max`/`min` of an empty sequence -/
def trimBands (FL FU : List α) (F0 Fl : α) : Option (Nat × Nat) :=
  let idxL := (List.range FL.length).filter fun i => match FL[i]? with
    | some v => decide (v ≤ Fl) | none => false
  let idxU := (List.range FU.length).filter fun i => match FU[i]? with
    | some v => decide (F0 ≤ v) | none => false
  match idxL.getLast?, idxU.head? with
  | some a, some b => some (b, a + 1)
  | _, _ => none

/-- `rescale(P, F, freq=freq, extendends=ext)` for one PSD column, `frange=None`;
returns `(Rescaled, Nmin, Nmax)` -/
def rescaleFreq [OfScientific α] [PsdOps α] (P F freq : List α) (ext : Bool) :
    Option (Rescaled α × Nat × Nat) :=
  let (FL, FU) := getFlFu freq
  match F.head?, F.getLast? with
  | some F0, some Fl =>
      match trimBands FL FU F0 Fl with
      | some (lo, hi) =>
          let FL' := (FL.take hi).drop lo
          let FU' := (FU.take hi).drop lo
          let (FLin, FUin) := inEdges F
          some (rescaleCore FLin FUin P FL' FU' ext, lo, hi)
      | none => none
  | _, _ => none

end PyYetiVerif.Psd
