import PyYetiVerif.Model.RigidBodyGuyan
import PyYetiVerif.Generated.RigidBodyConsts
/-
Model of `cb.mk_net_drms` (cb.py:841-1504) for property C06, as the code IS (including the open
finding F46: `rbcg = rbgeom_uset(uset_if, cg_sc)` forms the "rigid-body modes relative to the cg" about
the point whose BASIC coordinates are the cg offset from `ref`).

  _get_Tlv2sc (3x3 form)        `tsc2lv`
  reorder=True normalisation    `netReorderSub`, (`pvList`, `usetRank` of Model/RigidBody.lean)
  bsubset                       `bsetIf`, `rowsOf`
  ifltma / ifltmd               `netDrm`, `netDrmD`
  grounding warning             `maxAbs`, `groundWarn`
  RBE3 columns                  `dofDigits`, `ifatmCols`, `scatterCols`; the least-squares kernel of
                                `formrbe3` for this configuration: `rbe3Normal`, `rbe3Rhs`, `rbe3Weights`
  cg, cgatm                     `cgatmRhs` (+ `linalg.solve(Mcg, ·)` as a parameter), `divRows3`
  weight / height / axial       `maxAbs3`, `argmaxAbs3`, `allclose1`
  cglf                          `latIdx`, `momSign`, `cglfa`, `cglfd`
  labels                        `ifltmLabels`, `ifatmLabels`, `cglfLabels`
  everything together           `mkNetDrms`

Core Lean only.  The two dense kernels (`formrbe3`'s normal-equation solve and `linalg.solve(Mcg, ·)`)
enter as function parameters with the stated specification `A · solve A B = B`.
-/
namespace PyYetiVerif.RigidBody
open PyYetiVerif.Generated

/-- constants of `mk_net_drms` / `np.allclose` that are not ring arithmetic -/
class NetOps (α : Type) where
  /-- `1e-8` of the grounding warning (cb.py:1330, generated) -/
  groundTol : α
  /-- numpy's `allclose` defaults -/
  rtol : α
  atol : α
  /-- `x == 0` as numpy decides it (`np.sign`) -/
  isZero : α → Bool
  ofNat : Nat → α
  /-- `1e-12` of `formrbe3` (`Lc > 1.0e-12`) -/
  lcTol : α

instance : NetOps Float where
  groundTol := Float.ofBits RigidBodyConsts.groundTolBits
  rtol := 1e-5
  atol := 1e-8
  isZero x := x == 0
  ofNat := Float.ofNat
  lcTol := 1e-12

section idx

/-- `bset[bsubset]` (`sub` = positions inside `bset`; all of them when `bsubset is None`) -/
def bsetIf (bset sub : List Nat) : List Nat := sub.map fun k => bset.getD k 0

/-- `reorder=True`: `bsubset = index2bool(bsubset, nb)[argsort(argsort(bset))]` used as a mask on the new
b-set `arange(nb)`: the new positions `j` whose uset row `rank(bset[j])` is named by `bsubset` -/
def netReorderSub (bset sub : List Nat) : List Nat :=
  (List.range bset.length).filter fun j => sub.contains ((usetRank bset).getD j 0)

/-- digits of a DOF code minus one: `n2p.expanddof([[1, dof]])[:, 1] - 1` for a code made of digits 1..6 -/
def dofDigits (code : Nat) : List Nat := (Nat.toDigits 10 code).map fun c => c.toNat - 49

/-- the columns of `ifatm` that receive the RBE3 coefficients (cb.py:1361-1368): with more than six interface
DOF the components `code` (default 123) of every interface grid, otherwise all interface DOF -/
def ifatmCols (bIf : List Nat) (code : Nat) : List Nat :=
  if bIf.length > RigidBodyConsts.rbe3AllDofRows then
    (List.range (bIf.length / 6)).flatMap fun g => (dofDigits code).map fun d => bIf.getD (6 * g + d) 0
  else bIf

/-- the independent-DOF code actually used (cb.py:1362, 1367) -/
def indepCode (nbi : Nat) (user : Option Nat) : Nat :=
  if nbi > RigidBodyConsts.rbe3AllDofRows then user.getD RigidBodyConsts.rbe3IndepDefault
  else RigidBodyConsts.rbe3IndepAll

/-- positions inside the interface uset (grid, component) of the independent DOF, in column order -/
def indepRows (nbi code : Nat) : List Nat :=
  if nbi > RigidBodyConsts.rbe3AllDofRows then
    (List.range (nbi / 6)).flatMap fun g => (dofDigits code).map fun d => 6 * g + d
  else List.range nbi

end idx

section ring
variable {α : Type} [Add α] [Sub α] [Mul α] [Neg α] [OfNat α 0] [OfNat α 1]

/-- `_get_Tlv2sc(sccoord).T` for `sccoord` None / 3x3: `blockdiag(sccoord, sccoord).T` -/
def tsc2lv (sc : Option (NMat α)) : NMat α := fun i j =>
  match sc with
  | none => if i = j then 1 else 0
  | some T =>
    if i < 3 then (if j < 3 then T j i else 0)
    else if j < 3 then 0 else T (j - 3) (i - 3)

/-- rows `rows[k]` of a table -/
def rowsOf (rows : List Nat) (u : NMat α) : NMat α := fun i j => u (rows.getD i 0) j

/-- `rb.T @ Kcb[np.ix_(bset_if, bset)]` (cb.py:1324, 1355) -/
def netDrmD (nbi : Nat) (rb K : NMat α) (bi bs : Nat → Nat) : NMat α := fun i j =>
  sumN nbi fun k => rb k i * K (bi k) (bs j)

/-- `X[:, cols] = R` into a zero matrix (cb.py:1377-1378) -/
def scatterCols (cols : List Nat) (R : NMat α) : NMat α := fun i j =>
  match idxIn cols j with
  | some k => R i k
  | none => 0

/-- `T @ X` for a 6x6 `T` -/
def mul6 (T X : NMat α) : NMat α := fun i j => sumN 6 fun k => T i k * X k j

/-- the normal matrix `rb.T @ diag(w) @ rb` of `formrbe3` (6x6; `rb` = the `m` rows of the independent DOF
relative to the dependent grid) -/
def rbe3Normal (m : Nat) (rb : NMat α) (w : Nat → α) : NMat α := fun i j =>
  sumN m fun k => rb k i * w k * rb k j

/-- its right-hand side `rb.T * w` (6 x m) -/
def rbe3Rhs (rb : NMat α) (w : Nat → α) : NMat α := fun i k => rb k i * w k

/-- `rbcg.T @ Mcb[bset_if]` (cb.py:1404) -/
def cgatmRhs (nbi : Nat) (rbcg M : NMat α) (bi : Nat → Nat) : NMat α := netDrm nbi rbcg M bi

end ring

section ord
variable {α : Type} [Add α] [Sub α] [Mul α] [Div α] [Neg α] [OfNat α 0] [OfNat α 1] [RbOps α] [NetOps α]
open RbOps NetOps

/-- `abs(A).max()` of an `nr x nc` block (0 for an empty one) -/
def maxAbs (nr nc : Nat) (A : NMat α) : α :=
  (List.range nr).foldl (fun m i => (List.range nc).foldl (fun m2 j => pyMax m2 (abs (A i j))) m) 0

/-- the grounding warning of cb.py:1329-1335: `abs(Kbb @ rb_all).max() > abs(Kbb).max() * 1e-8` -/
def groundWarn (nb : Nat) (kbb rbAll : NMat α) : Bool :=
  gt (maxAbs nb 6 (mulN nb kbb rbAll)) (maxAbs nb nb kbb * groundTol)

def v3get (v : V3 α) (i : Nat) : α := if i = 0 then v.x else if i = 1 then v.y else v.z

/-- `abs(v).max()` -/
def maxAbs3 (v : V3 α) : α := pyMax (pyMax (abs v.x) (abs v.y)) (abs v.z)

/-- `np.argmax(abs(v))`: the first index of the maximum -/
def argmaxAbs3 (v : V3 α) : Nat :=
  let a := abs v.x; let b := abs v.y; let c := abs v.z
  if gt b a then (if gt c b then 2 else 1) else (if gt c a then 2 else 0)

/-- `np.allclose(a, b)` for scalars: `|a - b| <= atol + rtol |b|` -/
def allclose1 (a b : α) : Bool := !(gt (abs (a - b)) (atol + rtol * abs b))

/-- `T[:3, :3] @ v` -/
def mul3v (T : NMat α) (v : V3 α) : V3 α :=
  ⟨T 0 0 * v.x + T 0 1 * v.y + T 0 2 * v.z, T 1 0 * v.x + T 1 1 * v.y + T 1 2 * v.z,
   T 2 0 * v.x + T 2 1 * v.y + T 2 2 * v.z⟩

/-- rows `0..2` divided by `g` (`X[:3] /= g`) -/
def divRows3 (X : NMat α) (g : α) : NMat α := fun i j => if i < 3 then X i j / g else X i j

/-- rows `0..2` multiplied by `f` (`X[:3] *= f`) -/
def mulRows3 (X : NMat α) (f : α) : NMat α := fun i j => if i < 3 then X i j * f else X i j

/-- characteristic length of `formrbe3`: mean distance of the `ng` independent grids (`u` = their uset rows)
from the dependent grid at `ref` -/
def rbe3Lc (ng : Nat) (u : NMat α) (ref : V3 α) : α :=
  (sumN ng fun g =>
    let dx := u (6 * g) 0 - ref.x; let dy := u (6 * g) 1 - ref.y; let dz := u (6 * g) 2 - ref.z
    sqrt (dx * dx + dy * dy + dz * dz)) / ofNat ng

/-- weights of the independent DOF: 1 for translations, `Lc²` for rotations when `Lc > 1e-12`
(`formrbe3` with unit weighting factors) -/
def rbe3Weights (rows : List Nat) (Lc : α) : Nat → α := fun k =>
  if rows.getD k 0 % 6 < 3 then 1 else if gt Lc lcTol then Lc * Lc else 1

/-- `np.delete([0, 1, 2], ax)` -/
def latIdx (ax : Nat) : Nat × Nat := if ax = 0 then (1, 2) else if ax = 1 then (0, 2) else (0, 1)

/-- `np.sign(x)` -/
def sgn (x : α) : α := if isZero x then 0 else if gt x 0 then 1 else -1

/-- `_moment_signs(cg, ax, lat)` (cb.py:1166-1174): `[s, -s]` when the lateral axes are adjacent, `[-s, s]`
otherwise (`ax = 1`) -/
def momSign (cg : V3 α) (ax : Nat) : α × α :=
  let s := sgn (v3get cg ax)
  if ax = 1 then (-s, s) else (s, -s)

/-- the five rows of one coordinate system of `cglfa` / `cglfd` (cb.py:1201-1218): axial, two shear rows
(zero in `cglfd`: `atm = none`), two moment-based rows `sign * ifltm[lat[::-1] + 3] / (weight * height)` -/
def cglf5 (atm : Option (NMat α)) (ifltm : NMat α) (cg : V3 α) (ax : Nat) (weight height : α) : NMat α :=
  let wh := weight * height
  let lat := latIdx ax
  let sg := momSign cg ax
  fun i j =>
    if i = 0 then (match atm with | some A => A ax j | none => 0)
    else if i = 1 then (match atm with | some A => A lat.1 j | none => 0)
    else if i = 2 then (match atm with | some A => A lat.2 j | none => 0)
    else if i = 3 then sg.1 * ifltm (lat.2 + 3) j / wh
    else sg.2 * ifltm (lat.1 + 3) j / wh

/-- the 14 rows: 5 s/c rows, 5 l/v rows (replaced by the s/c rows when no l/v axis is the s/c axial one),
4 blank rows for root-sum-squaring -/
def cglf14 (sc lv : NMat α) (replaceLv : Bool) : NMat α := fun i j =>
  if i < 5 then sc i j
  else if i < 10 then (if replaceLv then sc (i - 5) j else lv (i - 5) j)
  else 0

end ord

/-! ### labels (cb.py:1224-1280) -/

def putAxial (labels : List String) (ax : Nat) (s tOld tNew rOld rNew : String) : List String :=
  let l := labels.map fun x => x.replace "{}" s
  let l := l.set ax ((l.getD ax "").replace tOld tNew)
  l.set (ax + 3) ((l.getD (ax + 3) "").replace rOld rNew)

def ifltmLabels (axSc axLv : Nat) : List String :=
  let labels := ["I/F Lateral Frc FX {}", "I/F Lateral Frc FY {}", "I/F Lateral Frc FZ {}",
    "I/F Moment      MX {}", "I/F Moment      MY {}", "I/F Moment      MZ {}"]
  putAxial labels axSc " sc" "Lateral Frc" "Axial Frc  " "Moment " "Torsion" ++
    putAxial labels axLv " lv" "Lateral Frc" "Axial Frc  " "Moment " "Torsion"

def ifatmLabels (axSc axLv : Nat) (tauSc tauLv : String) : List String :=
  let labels := ["I/F Lateral   X {} (g)", "I/F Lateral   Y {} (g)", "I/F Lateral   Z {} (g)",
    "I/F Rotation RX {} (r/s^2)", "I/F Rotation RY {} (r/s^2)", "I/F Rotation RZ {} (r/s^2)"]
  let l := putAxial labels axSc " sc" "Lateral" "Axial  " "Rotation" "Torsion " ++
    putAxial labels axLv " lv" "Lateral" "Axial  " "Rotation" "Torsion "
  let fix (l : List String) (tau : String) (rows : List Nat) : List String :=
    if tau != "g" then rows.foldl (fun l i => l.set i ((l.getD i "").replace "(g)" ("(" ++ tau ++ "/s^2)"))) l else l
  fix (fix l tauSc [0, 1, 2]) tauLv [6, 7, 8]

def cglfLabels (replaceLv : Bool) : List String :=
  let l := ["S/C CG Axial         sc", "S/C CG Shear Lat 1   sc", "S/C CG Shear Lat 2   sc",
    "S/C CG Mom. Lat 1    sc", "S/C CG Mom. Lat 2    sc", "S/C CG Axial         lv",
    "S/C CG Shear Lat 1   lv", "S/C CG Shear Lat 2   lv", "S/C CG Mom. Lat 1    lv",
    "S/C CG Mom. Lat 2    lv", "S/C CG Shear Lat RSS sc", "S/C CG Mom. Lat RSS  sc",
    "S/C CG Shear Lat RSS lv", "S/C CG Mom. Lat RSS  lv"]
  if replaceLv then l.map fun x => x.replace " lv" "!lv" else l

/-! ### the routine -/

structure NetOpts (α : Type) where
  conv : Option (α × α)
  sccoord : Option (NMat α)
  g : α
  /-- `tau[0] == "g"`, `tau[1] == "g"` -/
  tauScG : Bool
  tauLvG : Bool
  reorder : Bool
  rbe3Indep : Option Nat

structure NetOut (α : Type) where
  ifltmaSc : NMat α
  ifltmdSc : NMat α
  ifltmaLv : NMat α
  ifltmdLv : NMat α
  ifatmSc : NMat α
  ifatmLv : NMat α
  cgatmSc : NMat α
  cgatmLv : NMat α
  cglfa : NMat α
  cglfd : NMat α
  weightSc : α
  heightSc : α
  weightLv : α
  heightLv : α
  cgSc : V3 α
  cgLv : V3 α
  axSc : Nat
  axLv : Nat
  replaceLv : Bool
  grounding : Bool
  rb : NMat α
  rbAll : NMat α
  /-- residual data of the two kernels, for the run-time specification check -/
  rbe3A : NMat α
  rbe3B : NMat α
  rbe3X : NMat α
  mcg : NMat α
  cgB : NMat α
  cgX : NMat α
  nxyz : Nat
  bset : List Nat

section routine
variable {α : Type} [Add α] [Sub α] [Mul α] [Div α] [Neg α] [OfNat α 0] [OfNat α 1] [RbOps α] [NetOps α]
open RbOps NetOps

/-- `mk_net_drms(Mcb, Kcb, bset, bsubset=sub, uset=u, ref=ref, …)`.  `n` = matrix size; `u` = the x, y, z
columns of the b-set uset (6 rows per grid; in `bset` order, or - with `reorder` - in ascending matrix
position); `isCyl`/`isSph` per grid of `u`; `sub` = `bsubset` (positions, `range nb` for None);
`solve nc A B` = `linalg.solve` for a 6x6 `A` and a 6 x `nc` right-hand side `B`; `memo nr nc A` must agree with `A` on
the `nr x nc` block (the identity for the theorems, a tabulation in the driver). -/
def mkNetDrmsWith (memo : Memo α) (n : Nat) (M0 K0 : NMat α) (bset0 sub0 : List Nat) (u0 : NMat α)
    (isCyl0 isSph0 : Nat → Bool) (ref0 : V3 α) (o : NetOpts α)
    (solve : (nc : Nat) → NMat α → NMat α → NMat α) : NetOut α :=
  let nb := bset0.length
  -- reorder=True: b-set first, uset rows by rank, bsubset as a permuted mask
  let pvl := pvList bset0 n false
  let rk := usetRank bset0
  let M1 : NMat α := (memo n n (if o.reorder then reorder M0 (fun i => pvl.getD i 0) else M0)).get
  let K1 : NMat α := (memo n n (if o.reorder then reorder K0 (fun i => pvl.getD i 0) else K0)).get
  let u1 : NMat α := (memo nb 3 (if o.reorder then fun i j => u0 (rk.getD i 0) j else u0)).get
  let gk (g : Nat) : Nat := if o.reorder then rk.getD (6 * g) 0 / 6 else g
  let isCyl1 : Nat → Bool := fun g => isCyl0 (gk g)
  let isSph1 : Nat → Bool := fun g => isSph0 (gk g)
  let sub : List Nat := if o.reorder then netReorderSub bset0 sub0 else sub0
  let bset : List Nat := if o.reorder then List.range nb else bset0
  let bs : Nat → Nat := fun k => bset.getD k 0
  let nbi := sub.length
  let bIf := bsetIf bset sub
  let bi : Nat → Nat := fun k => bIf.getD k 0
  let cylIf : Nat → Bool := fun g => isCyl1 (sub.getD (6 * g) 0 / 6)
  let sphIf : Nat → Bool := fun g => isSph1 (sub.getD (6 * g) 0 / 6)
  let T := tsc2lv o.sccoord
  -- s/c units
  let rb := (memo nbi 6 (rbgeomUset (rowsOf sub u1) cylIf sphIf ref0)).get
  let ifltmaSc0 := (memo 6 n (netDrm nbi rb M1 bi)).get
  let ifltmdSc0 := (memo 6 nb (netDrmD nbi rb K1 bi bs)).get
  let rbAll := (memo nb 6 (rbgeomUset u1 isCyl1 isSph1 ref0)).get
  let kbb : NMat α := (memo nb nb (fun i j => K1 (bs i) (bs j))).get
  let grounding := groundWarn nb kbb rbAll
  -- l/v units
  let lc : α := match o.conv with | some c => c.1 | none => 1
  let mc : α := match o.conv with | some c => c.2 | none => 1
  let isConv := o.conv.isSome
  let ifltmaSc : NMat α := (memo 6 n (if isConv then cbconvert ifltmaSc0 bset lc mc true else ifltmaSc0)).get
  let ifltmdSc : NMat α := (memo 6 nb (if isConv then cbconvert ifltmdSc0 (List.range nb) lc mc true else ifltmdSc0)).get
  let M2 : NMat α := (memo n n (if isConv then cbconvert M1 bset lc mc false else M1)).get
  let K2 : NMat α := (memo n n (if isConv then cbconvert K1 bset lc mc false else K1)).get
  let u2 : NMat α := (memo nb 3 (if isConv then usetConvert u1 lc else u1)).get
  let ref : V3 α := if isConv then ⟨ref0.x * lc, ref0.y * lc, ref0.z * lc⟩ else ref0
  let rb2 : NMat α := (memo nbi 6 (if isConv then rbgeomUset (rowsOf sub u2) cylIf sphIf ref else rb)).get
  let rbAll2 : NMat α := (memo nb 6 (if isConv then rbgeomUset u2 isCyl1 isSph1 ref else rbAll)).get
  let ifltmaLv0 : NMat α := (memo 6 n (if isConv then netDrm nbi rb2 M2 bi else ifltmaSc)).get
  let ifltmdLv0 : NMat α := (memo 6 nb (if isConv then netDrmD nbi rb2 K2 bi bs else ifltmdSc)).get
  -- RBE3 for the net interface acceleration: dependent grid at `ref` (basic), independent DOF `code`
  let code := indepCode nbi o.rbe3Indep
  let irows := indepRows nbi code
  let cols := ifatmCols bIf code
  let m := irows.length
  let rbI : NMat α := (memo m 6 (fun k j => rb2 (irows.getD k 0) j)).get
  let w := rbe3Weights irows (rbe3Lc (nbi / 6) (rowsOf sub u2) ref)
  let A := (memo 6 6 (rbe3Normal m rbI w)).get
  let B := (memo 6 m (rbe3Rhs rbI w)).get
  let X := (memo 6 m (solve m A B)).get
  let ifatm0 := (memo 6 n (scatterCols cols X)).get
  -- cg and mass at the cg (l/v units, s/c coordinates)
  let mbb : NMat α := (memo nb nb (fun i j => M2 (bs i) (bs j))).get
  let Mif := (memo 6 6 (mass6 nb rbAll2 mbb)).get
  let cgm := cgmass Mif
  let Mcg := (memo 6 6 cgm.1).get
  let cgSc := cgm.2
  let cgLv := mul3v T cgSc
  let replaceLv := !(allclose1 (maxAbs3 cgSc) (maxAbs3 cgLv))
  -- F46: the cg offset from `ref` is used as a BASIC location
  let rbcg := (memo nbi 6 (rbgeomUset (rowsOf sub u2) cylIf sphIf cgSc)).get
  let cgB := (memo 6 n (cgatmRhs nbi rbcg M2 bi)).get
  let cgX := (memo 6 n (solve n Mcg cgB)).get
  let ifatmSc1 := (memo 6 n (divRows3 ifatm0 o.g)).get
  let cgatmSc1 := (memo 6 n (divRows3 cgX o.g)).get
  let weightLv := Mcg 0 0 * o.g
  let heightLv := maxAbs3 cgSc
  let weightSc := if isConv then weightLv / (mc * lc) else weightLv
  let heightSc := if isConv then heightLv / lc else heightLv
  let axSc := argmaxAbs3 cgSc
  let axLv := argmaxAbs3 cgLv
  let ifltmaLv := (memo 6 n (mul6 T ifltmaLv0)).get
  let ifltmdLv := (memo 6 nb (mul6 T ifltmdLv0)).get
  let ifatmLv1 := (memo 6 n (mul6 T ifatmSc1)).get
  let cgatmLv1 := (memo 6 n (mul6 T cgatmSc1)).get
  let cglfa := cglf14 (cglf5 (some cgatmSc1) ifltmaSc cgSc axSc weightSc heightSc)
    (cglf5 (some cgatmLv1) ifltmaLv cgLv axLv weightLv heightLv) replaceLv
  let cglfd := cglf14 (cglf5 none ifltmdSc cgSc axSc weightSc heightSc)
    (cglf5 none ifltmdLv cgLv axLv weightLv heightLv) replaceLv
  -- tau: back to natural units where the caller does not want g
  let factor := if isConv then o.g / lc else o.g
  let ifatmSc := if o.tauScG then ifatmSc1 else mulRows3 ifatmSc1 factor
  let cgatmSc := if o.tauScG then cgatmSc1 else mulRows3 cgatmSc1 factor
  let ifatmLv := if o.tauLvG then ifatmLv1 else mulRows3 ifatmLv1 o.g
  let cgatmLv := if o.tauLvG then cgatmLv1 else mulRows3 cgatmLv1 o.g
  { ifltmaSc, ifltmdSc, ifltmaLv, ifltmdLv, ifatmSc, ifatmLv, cgatmSc, cgatmLv, cglfa, cglfd,
    weightSc, heightSc, weightLv, heightLv, cgSc, cgLv, axSc, axLv, replaceLv, grounding,
    rb := rb2, rbAll := rbAll2, rbe3A := A, rbe3B := B, rbe3X := X, mcg := Mcg, cgB, cgX,
    nxyz := m, bset }

/-- the routine itself (no tabulation of intermediate matrices: `memo` only matters for the run time of the `Float`
driver, which passes a tabulating one) -/
def mkNetDrms (n : Nat) (M0 K0 : NMat α) (bset0 sub0 : List Nat) (u0 : NMat α) (isCyl0 isSph0 : Nat → Bool)
    (ref0 : V3 α) (o : NetOpts α) (solve : (nc : Nat) → NMat α → NMat α → NMat α) : NetOut α :=
  mkNetDrmsWith Memo.id n M0 K0 bset0 sub0 u0 isCyl0 isSph0 ref0 o solve

end routine

end PyYetiVerif.RigidBody
