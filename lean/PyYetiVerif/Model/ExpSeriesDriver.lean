import PyYetiVerif.Model.ExpSeries
/-!
# C07 — the DRIVER LOGIC of `pyyeti/expmint.py` (core Lean only, no Mathlib)

Everything in `expmint`, `_expm_SS`, `_geti2`, `expmint_pow`, `getEPQ` that is a *decision* and not
a floating-point kernel:

* §1 `padeDecision`: the chain `eta_k < theta_m and _ell(A, m) == 0` → Padé order `m`, the scaling
  exponent `s0 = max(ceil(log2(eta_5 / theta_13)), 0)` (as the least `s` with
  `eta_5 ≤ theta_13·2^s`, `scalingExp`), `s = s0 + _ell(2**-s0 A, 13)`, number of squarings `= s`;
* §2 scipy's `_ell` on an exact matrix (`ell`);
* §3 the squaring loop `I += I.dot(E); E = E.dot(E)` (`squareLoop`) and the loop that would also
  carry the second integral (`squareLoop3`, the doubling rule of theorem `doubling_I2`);
* §4 `_geti2`: table branches, `np.allclose(I_test, I)` acceptance of the direct branch, the
  power-series fallback with its `RuntimeWarning` / `RuntimeError` (`geti2Branch`, `seriesLoops`);
* §5 `expmint_pow` / `getEPQ_pow`: the truncation rule of the power series (`powLoops`);
* §6 `getEPQ`: the norm switch (`epqRoute`).

The norm quantities `d4 … d10` (scipy `onenormest`, estimated for `n > 2`) and the outcome of the
LU factorisation are *inputs* of the decisions; the thresholds are parameters, instantiated with
the constants the translator regenerates from the source.
-/
namespace PyYetiVerif.ExpSeries

/-! ## 1. Padé order and scaling exponent -/

/-- `theta_3, theta_5, theta_7, theta_9` of the `if` chain and `theta_13` -/
structure Thetas where
  t3 : Rat
  t5 : Rat
  t7 : Rat
  t9 : Rat
  t13 : Rat
  deriving Repr, DecidableEq

/-- the norm quantities in the order `expmint` reads them: `d4_loose, d6_loose` (eta_1),
`d4_tight` (eta_2), `d6_tight, d8_loose` (eta_3), `d10_loose` (eta_4).  For `_expm_SS`
(`use_exact_onenorm=True`) loose = tight. -/
structure Etas where
  d4l : Rat
  d6l : Rat
  d4t : Rat
  d6t : Rat
  d8l : Rat
  d10l : Rat
  deriving Repr

def scalingExpAux (θ x : Rat) : Nat → Nat → Nat
  | 0, s => s
  | f + 1, s => if x ≤ θ * 2 ^ s then s else scalingExpAux θ x f (s + 1)

/-- fuel of the search: a double is below `2^1024` -/
def scalingFuel : Nat := 1100

/-- the least `s` with `x ≤ θ·2^s` (= `max(int(np.ceil(np.log2(x / θ))), 0)` for `x > 0`) -/
def scalingExp (θ x : Rat) : Nat := scalingExpAux θ x scalingFuel 0

structure PadeDecision where
  /-- Padé order 3, 5, 7, 9 or 13 -/
  m : Nat
  /-- `max(ceil(log2(eta_5/theta_13)), 0)` (0 unless `m = 13`) -/
  s0 : Nat
  /-- `s0 + _ell(2**-s0 A, 13)` = the argument of `pade13_scaled_i` = number of squarings -/
  s : Nat
  deriving Repr, DecidableEq

/-- the branch chain of `expmint` (and of `_expm_SS`).  `ell3 … ell9` are `_ell(A, m)`,
`ell13 s0` is `_ell(2**-s0 A, 13)`. -/
def padeDecision (th : Thetas) (e : Etas) (ell3 ell5 ell7 ell9 : Nat) (ell13 : Nat → Nat) :
    PadeDecision :=
  let eta1 := max e.d4l e.d6l
  if eta1 < th.t3 ∧ ell3 = 0 then ⟨3, 0, 0⟩ else
  let eta2 := max e.d4t e.d6l
  if eta2 < th.t5 ∧ ell5 = 0 then ⟨5, 0, 0⟩ else
  let eta3 := max e.d6t e.d8l
  if eta3 < th.t7 ∧ ell7 = 0 then ⟨7, 0, 0⟩ else
  if eta3 < th.t9 ∧ ell9 = 0 then ⟨9, 0, 0⟩ else
  let eta4 := max e.d8l e.d10l
  let eta5 := min eta3 eta4
  let s0 := if eta5 = 0 then 0 else scalingExp th.t13 eta5
  ⟨13, s0, s0 + ell13 s0⟩

/-- `eta_5` of the order-13 branch -/
def eta5 (e : Etas) : Rat := min (max e.d6t e.d8l) (max e.d8l e.d10l)

/-! ## 2. scipy's `_ell` -/

/-- `1/|c_{2m+1}|` of the backward-error series (scipy `_ell`, the dict `c_i`) -/
def ellConst : Nat → Rat
  | 3 => 100800
  | 5 => 10059033600
  | 7 => 4487938430976000
  | 9 => 5914384781877411840000
  | 13 => 113250775606021113483283660800000000
  | _ => 0

def IMat.absM (a : IMat) : IMat := a.map fun r => r.map fun x => (x.natAbs : Int)

/-- `_onenorm_matrix_power_nnm(abs(A), p)`: `max((|A|ᵀ)^p · 1)`, numerator over `den^p` -/
def absPowNorm (A : QMat) (p : Nat) : Rat :=
  let n := A.rows
  let M := A.num.absM
  let v0 : Array Int := Array.replicate n 1
  let step (v : Array Int) : Array Int :=
    Array.ofFn (n := n) fun j => (List.range n).foldl (fun acc i => acc + M.get i j.1 * v.getD i 0) 0
  let v := (List.range p).foldl (fun v _ => step v) v0
  mkRat (v.foldl (fun m x => max m x) 0) (A.den ^ p)

def leastPowAux (x : Rat) (b : Nat) : Nat → Nat → Nat
  | 0, v => v
  | f + 1, v => if x ≤ (b : Rat) ^ v then v else leastPowAux x b f (v + 1)

/-- `_ell(A, m)`: with `alpha = ‖|A|^(2m+1)‖₁ / (‖A‖₁ · c_m)` and `u = 2^-53`,
`max(ceil(log2(alpha/u) / (2m)), 0)` = the least `v` with `alpha·2^53 ≤ (2^(2m))^v`; `0` when
the power vanishes.  `fac` multiplies `alpha` (1 in the model; the driver also evaluates `1 ± 1e-9` to
recognise inputs within round-off of a jump of the floating-point `log2`). -/
def ellScaled (fac : Rat) (A : QMat) (m : Nat) : Nat :=
  let an := absPowNorm A (2 * m + 1)
  if an = 0 then 0
  else
    let alpha := an / (A.norm1 * ellConst m)
    leastPowAux (fac * alpha * 2 ^ 53) (2 ^ (2 * m)) 600 0

def ell (A : QMat) (m : Nat) : Nat := ellScaled 1 A m

/-- `2**-s * A` -/
def QMat.scalePow2 (A : QMat) (s : Nat) : QMat := ⟨A.num, A.den * 2 ^ s⟩

/-- the whole decision of `expmint` for a given exact matrix `X = A h` and measured norms -/
def expmintDecision (th : Thetas) (e : Etas) (X : QMat) : PadeDecision :=
  padeDecision th e (ell X 3) (ell X 5) (ell X 7) (ell X 9) fun s0 => ell (X.scalePow2 s0) 13

/-! ## 3. the squaring loop -/

def iter {α : Type} (f : α → α) : Nat → α → α
  | 0, a => a
  | n + 1, a => iter f n (f a)

/-- `I += I.dot(E); E = E.dot(E)` on the pair `(E, I)` -/
def squareStep {α : Type} [Add α] [Mul α] (p : α × α) : α × α := (p.1 * p.1, p.2 + p.2 * p.1)

/-- `for _ in range(s): …` -/
def squareLoop {α : Type} [Add α] [Mul α] (s : Nat) (p : α × α) : α × α := iter squareStep s p

/-- the loop that would also carry the second integral (the repair of F12 / F37):
state `(E, I1, I2, t)`, `I2 += E·(I2 + t·I1)`, `I1 += I1·E`, `E = E·E`, `t = 2t` -/
def squareStep3 {α : Type} [Add α] [Mul α] (p : α × α × α × α) : α × α × α × α :=
  let (E, I1, I2, t) := p
  (E * E, I1 + I1 * E, I2 + E * (I2 + t * I1), t + t)

def squareLoop3 {α : Type} [Add α] [Mul α] (s : Nat) (p : α × α × α × α) : α × α × α × α :=
  iter squareStep3 s p

/-! ## 4. `_geti2` -/

inductive I2Branch where
  /-- `pade <= 3/5/7/9`: the rational approximant of that order -/
  | pade (m : Nat)
  /-- `lu_solve(lup, h (E h − I_test))` -/
  | direct
  /-- power series, `RuntimeWarning` issued, loop left with this `j` -/
  | series (j : Nat)
  /-- power series, `RuntimeWarning` issued, then `RuntimeError` (`j >= maxloops`) -/
  | maxloops
  deriving Repr, DecidableEq

def ratAbs (x : Rat) : Rat := if x < 0 then -x else x

/-- `np.allclose(a, b, rtol, atol)` on finite values: `|a − b| ≤ atol + rtol·|b|` elementwise -/
def allclose (rtol atol : Rat) (a b : List Rat) : Bool :=
  a.length == b.length && (a.zip b).all fun (x, y) => decide (ratAbs (x - y) ≤ atol + rtol * ratAbs y)

def QMat.maxAbs (a : QMat) : Rat := mkRat a.num.maxAbs a.den

/-- the `while abs(term).max() > tol * abs(E).max() and j < maxloops` loop of `_geti2`:
`term₁ = X`, each pass `j += 1; I2 += term/(j+1); term = term·X / j`; returns the final `j` -/
def seriesLoopsAux (X : QMat) (bound : Rat) (maxloops : Nat) : Nat → Nat → QMat → Nat
  | 0, j, _ => j
  | f + 1, j, term =>
    if term.maxAbs > bound ∧ j < maxloops then
      seriesLoopsAux X bound maxloops f (j + 1) ((term.mul X).smul (1 / ((j + 1 : Nat) : Rat)))
    else j

def seriesLoops (X : QMat) (emax tol : Rat) (maxloops : Nat) : Nat :=
  seriesLoopsAux X (tol * emax) maxloops maxloops 1 X

/-- which formula `_geti2(H, E, I, h, pade)` uses.  `luOK`: `lu_factor`/`lu_solve` raised no
`RuntimeWarning` (an exactly zero pivot raises `LinAlgWarning`); `accept`: `np.allclose(I_test, I)`;
`j`: the final loop counter of the series -/
def geti2Branch (pade : Nat) (luOK accept : Bool) (j maxloops : Nat) : I2Branch :=
  if pade ≤ 3 then .pade 3
  else if pade ≤ 5 then .pade 5
  else if pade ≤ 7 then .pade 7
  else if pade ≤ 9 then .pade 9
  else if luOK && accept then .direct
  else if j ≥ maxloops then .maxloops
  else .series j

/-- is the `RuntimeWarning` "Using power series expansion directly" issued? -/
def I2Branch.warned : I2Branch → Bool
  | .series _ => true
  | .maxloops => true
  | _ => false

/-! ## 5. `expmint_pow` -/

structure PowState where
  j : Nat
  E : QMat
  term : QMat
  deriving Inhabited

/-- `a + b`, on the denominator of `b` when that is a multiple of the denominator of `a` (the value is that of
`QMat.add`; keeps the running sum on the denominator of the last term) -/
def QMat.addInto (a b : QMat) : QMat :=
  if b.den % a.den = 0 then ⟨(a.num.scale ((b.den / a.den : Nat) : Int)).add b.num, b.den⟩ else a.add b

/-- `j += 1; E += term; …; term = term.dot(Ah) / j` -/
def powStep (X : QMat) (st : PowState) : PowState :=
  { j := st.j + 1, E := st.E.addInto st.term, term := (st.term.mul X).smul (1 / ((st.j + 1 : Nat) : Rat)) }

/-- `abs(term).max() > tol * abs(E).max() and j < maxloops` -/
def powCont (tol : Rat) (maxloops : Nat) (st : PowState) : Bool :=
  decide (st.term.maxAbs > tol * st.E.maxAbs) && decide (st.j < maxloops)

def powRun (X : QMat) (tol : Rat) (maxloops : Nat) : Nat → PowState → PowState
  | 0, st => st
  | f + 1, st => if powCont tol maxloops st then powRun X tol maxloops f (powStep X st) else st

/-- final `j` of `expmint_pow(A, h)` for `X = A h` (`j >= maxloops` → `RuntimeError`); the sums then
hold `j` terms of each series -/
def powLoops (X : QMat) (tol : Rat) (maxloops : Nat) : Nat :=
  (powRun X tol maxloops maxloops ⟨1, QMat.ident X.rows, X⟩).j

/-! ## 6. `getEPQ` -/

/-- `norm1 <= switch` → `getEPQ1` (route 1), else `getEPQ2` (route 2) -/
def epqRoute (switch norm1 : Rat) : Nat := if norm1 ≤ switch then 1 else 2

end PyYetiVerif.ExpSeries
