import PyYetiVerif.Model.Rainflow
import PyYetiVerif.Model.RainflowImp
/-
Model of the three public entry points (core Lean only):

  * `pyyeti.rainflow.py_rain.rainflow(peaks, getoffsets=False)`
      `np.atleast_1d`, then `L = size if ndim == 1 else 0`, `ValueError` iff `L < 2`;
  * `pyyeti.rainflow.c_rain.rainflow(peaks, getoffsets=False)`
      `"O|p"` argument parsing (an absent second argument is 0 **on every call**: the C variable is
      an automatic one), `PyArray_FROM_OTF(.., NPY_DOUBLE, NPY_ARRAY_IN_ARRAY)` (a positional float64
      copy of whatever the caller handed over — refused with `TypeError` when the array's dtype
      does not cast *safely* to float64: longdouble, complex, object; py_rain has no such test),
      the same `ndim`/`L` test and `ValueError`;
  * `pyyeti.cyclecount.rainflow(peaks, getoffsets=False, use_pandas=True)`
      which implementation `rain` is (`c_rain` if it imports, else `py_rain`), and the DataFrame
      packaging (columns amp/mean/count and start/stop).

`Nd α` is what numpy's conversion makes of the caller's object (shape + elements in row-major
order); how a list / tuple / Series / memoryview becomes that is numpy's business and is *checked*
by the correspondence streams of harness/props/c05.py, not modelled.
-/
namespace PyYetiVerif.RainflowEntry
open PyYetiVerif.Rainflow PyYetiVerif.RainflowImp

variable {α : Type} [Ops α]

/-- a row of `rf` for a row of the offsets-free model: `[range / 2, sum / 2, 1.0 or 0.5]` -/
def rfRow (r : α × α × Bool) : List α :=
  [Ops.half r.1, Ops.half r.2.1, if r.2.2 then Ops.c1 else Ops.c05]
/-- a row of `rf` for a model row -/
def rfRowC (c : Cyc α) : List α := [Ops.half c.rng, Ops.half c.sum, if c.full then Ops.c1 else Ops.c05]
/-- a row of `os` for a model row -/
def osRow (c : Cyc α) : List Int := [(c.s : Int), (c.e : Int)]

/-- what a caller can observe of a result -/
inductive Out (α : Type) where
  | table (rf : List (List α))
  | tables (rf : List (List α)) (os : List (List Int))
  | frame (cols : List String) (rf : List (List α))
  | frames (cols : List String) (rf : List (List α)) (ocols : List String) (os : List (List Int))

/-- the numbers in a result, whatever the packaging -/
def Out.values : Out α → List (List α) × Option (List (List Int))
  | .table rf => (rf, none)
  | .tables rf os => (rf, some os)
  | .frame _ rf => (rf, none)
  | .frames _ rf _ os => (rf, some os)

/-- the cycle count of a vector -/
def count (pts : List α) (getoffsets : Bool) : Out α :=
  if getoffsets then .tables ((rainflow pts).map rfRowC) ((rainflow pts).map osRow)
  else .table ((rainflow1 pts).map rfRow)

/-- a shape and the number of elements fit together -/
def NdWF (a : Nd α) : Prop := a.data.length = a.shape.foldr (· * ·) 1

/-- `py_rain.rainflow(peaks, getoffsets)`; `none` = argument omitted -/
def pyEntry (peaks : Nd α) (getoffsets : Option Bool) : Except PyErr (Out α) :=
  let p := peaks.atleast_1d
  let L := if p.ndim = 1 then p.data.length else 0
  if L < 2 then .error .valueError else .ok (count p.data (getoffsets.getD false))

/-- `c_rain.rainflow(peaks, getoffsets)`; `none` = argument omitted -/
def cEntry (peaks : Nd α) (getoffsets : Option Bool) : Except PyErr (Out α) :=
  if !peaks.safe then .error .typeError else
  let L := if peaks.ndim = 1 then peaks.data.length else 0
  if L < 2 then .error .valueError else .ok (count peaks.data (getoffsets.getD false))

def implEntry : Impl → Nd α → Option Bool → Except PyErr (Out α)
  | .c_rain => cEntry
  | .py_rain => pyEntry

/-- the module `rain` of cyclecount.py -/
def imported (available : Impl → Bool) : Impl := if available .c_rain then .c_rain else .py_rain

/-- the DataFrame packaging: same numbers, column labels added -/
def relabel : Out α → Out α
  | .table rf => .frame ["amp", "mean", "count"] rf
  | .tables rf os => .frames ["amp", "mean", "count"] rf ["start", "stop"] os
  | o => o

/-- `cyclecount.rainflow(peaks, getoffsets, use_pandas)`; `none` = argument omitted -/
def wrapper (available : Impl → Bool) (peaks : Nd α) (getoffsets use_pandas : Option Bool) :
    Except PyErr (Out α) :=
  match implEntry (imported available) peaks (some (getoffsets.getD false)) with
  | .error e => .error e
  | .ok o => .ok (if use_pandas.getD true then relabel o else o)

/-! ### call sequences -/

/-- what the three modules remember between two calls: nothing -/
structure ModState where
deriving DecidableEq

inductive Target where
  | impl (i : Impl)
  | wrapper (use_pandas : Option Bool)

structure Call (α : Type) where
  target : Target
  peaks : Nd α
  getoffsets : Option Bool

/-- the result of one call made on its own -/
def Call.result (available : Impl → Bool) (c : Call α) : Except PyErr (Out α) :=
  match c.target with
  | .impl i => implEntry i c.peaks c.getoffsets
  | .wrapper up => wrapper available c.peaks c.getoffsets up

/-- one call in a session: new module state and result -/
def call (available : Impl → Bool) (st : ModState) (c : Call α) : ModState × Except PyErr (Out α) :=
  (st, c.result available)

/-- a session: the calls are made one after the other on the same modules -/
def session (available : Impl → Bool) : ModState → List (Call α) → List (Except PyErr (Out α))
  | _, [] => []
  | st, c :: cs => (call available st c).2 :: session available (call available st c).1 cs

/-! ### observing the generated programs -/

def rows? {β : Type} (a : Arr2 β) : Except PyErr (List (List β)) :=
  match a.toRows with
  | some r => .ok r
  | none => .error .internal

/-- what the caller sees of a `PyResult` (an unwritten cell would be garbage: `internal`) -/
def observe : Except PyErr (PyResult α) → Except PyErr (Out α)
  | .error e => .error e
  | .ok (.plain rf) => (rows? rf).map .table
  | .ok (.pair rf os) => (rows? rf).bind fun a => (rows? os).map fun b => .tables a b

def observeW : Except PyErr (WrapResult α) → Except PyErr (Out α)
  | .error e => .error e
  | .ok (.array rf) => (rows? rf).map .table
  | .ok (.arrays rf os) => (rows? rf).bind fun a => (rows? os).map fun b => .tables a b
  | .ok (.frame rf) => (rows? rf.values).map (.frame rf.columns)
  | .ok (.frames rf os) => (rows? rf.values).bind fun a => (rows? os.values).map fun b =>
      .frames rf.columns a os.columns b

end PyYetiVerif.RainflowEntry
