import PyYetiVerif.Model.Findap
/-
Model of the `pyyeti.locate` helpers on the `findap` side of C10: `find_unique` (used by the
default `findap`) and `find_duplicates`.  Core Lean only.
-/
namespace PyYetiVerif.Findap

variable {α : Type} [Sub α] [LT α] [DecidableLT α]

/-- `locate.find_unique(y, tol)`: `m = diff(y); stol = abs(tol * abs(m).max());
hstack((True, abs(m) > stol))`.  `none` = the `ValueError` of `max` on an empty `diff` (fewer than
two samples). -/
def findUnique [Mul α] [Zero α] (tol : α) : List α → Option (List Bool)
  | [] => none
  | [_] => none
  | a :: r => some (true :: uniqMask (stol tol (a :: r)) a r)

/-- `locate.find_duplicates(v, tol)`: `i = argsort(v); dif = diff(v[i]); tf = abs(dif) <= tol;
dups[i[1:-1]] = tf[1:] | tf[:-1]; dups[i[0]] = tf[0]; dups[i[-1]] = tf[-1]`; all `False` for fewer
than two values.  (The result does not depend on the order `argsort` gives equal values.) -/
def findDuplicates (tol : α) (v : List α) : List Bool :=
  if v.length < 2 then v.map fun _ => false
  else
    let s := v.zipIdx.mergeSort fun a b => !decide (b.1 < a.1)
    let vals := s.map (·.1)
    let tf := (vals.zip vals.tail).map fun p => !decide (tol < absd p.2 p.1)
    let flag := fun (k : Nat) => tf.getD k false || (decide (0 < k) && tf.getD (k - 1) false)
    let placed := (List.range s.length).zip s |>.map fun q => (q.2.2, flag q.1)
    (List.range v.length).map fun p =>
      match placed.find? (fun q => q.1 = p) with
      | some q => q.2
      | none => false

/-- the documented meaning: "True for any value that is repeated anywhere else in the vector"
(within `tol`): some OTHER position holds a value within `tol`. -/
def dupSpec (tol : α) (v : List α) : List Bool :=
  v.zipIdx.map fun p => v.zipIdx.any fun q => decide (q.2 ≠ p.2) && !decide (tol < absd q.1 p.1)

end PyYetiVerif.Findap
