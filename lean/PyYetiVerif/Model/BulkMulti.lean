import PyYetiVerif.Model.BulkGrid
/-
Files that hold the cards of several readers (C13): DMIG matrices, GRID, CORD2x, SPOINT … cards, comment lines,
case-control SET statements, foreign cards — interleaved in any order.  A file is a list of segments; a `card`
segment is the first line of a card and its continuation lines, tagged with the index of the reader that owns it; a
`junk` segment is anything no reader of the family matches.  Core Lean only.
-/
namespace PyYetiVerif.Bulk

inductive Seg where
  | card (owner : Nat) (first : Txt) (conts : List Txt)
  | junk (ls : List Txt)
deriving Repr

def Seg.lines : Seg → List Txt
  | .card _ f cs => f :: cs
  | .junk ls => ls

def fileOf (segs : List Seg) : List Txt := segs.flatMap Seg.lines

def Seg.ownedBy (k : Nat) : Seg → Bool
  | .card o _ _ => o == k
  | .junk _ => false

/-- what `rdcards(…, return_var="list", keep_name=keep)` returns for one card block -/
def cardOf (keep : Bool) (f : Txt) (cs : List Txt) : List Val :=
  let m := modeOf f
  let body := cardVals Val.blank m.inc (lineFields m true f :: cs.map (lineFields m false))
  if keep then nameField m f :: body else body

/-- the cards of reader `k`, in file order -/
def ownCards (keep : Bool) (k : Nat) : List Seg → List (List Val)
  | [] => []
  | .card o f cs :: r => if o = k then cardOf keep f cs :: ownCards keep k r else ownCards keep k r
  | .junk _ :: r => ownCards keep k r

/-- the file is well formed for the family of matchers `ps`: the first line of a card is matched by its owner and by
no other reader and is itself no continuation line; its continuation lines are continuation lines of its syntax
(8 wide, 16 wide, comma) that no reader matches; the line after the card (if any) is NOT a continuation line of that
syntax; junk lines are matched by nobody. -/
def FileOK (ps : List (Txt → Bool)) : List Seg → Prop
  | [] => True
  | .card o f cs :: r =>
      (∀ k, k < ps.length → (ps.getD k fun _ => false) f = decide (k = o)) ∧
      (isCont .comma f = false ∧ isCont .f8 f = false ∧ isCont .f16 f = false) ∧
      (∀ l ∈ cs, isCont (modeOf f) l = true ∧ ∀ k, k < ps.length → (ps.getD k fun _ => false) l = false) ∧
      (∀ x, (fileOf r).head? = some x → isCont (modeOf f) x = false) ∧ FileOK ps r
  | .junk ls :: r => (∀ l ∈ ls, ∀ k, k < ps.length → (ps.getD k fun _ => false) l = false) ∧ FileOK ps r

/-- the matcher of `rdcards(f, name)` (plain name) -/
def nameMatch (name : Txt) (l : Txt) : Bool := startsWith (lower name) (lower l)

/-- the matchers of the typed readers: `rdcards(f, "dmig")`, `"grid"`, the CORD2x regular expression, `"spoint"`,
`"csuper"`, `"extrn"`, `"tabled1"` -/
def bulkReaders : List (Txt → Bool) :=
  [nameMatch (txt "dmig"), nameMatch (txt "grid"), cord2Match, nameMatch (txt "spoint"), nameMatch (txt "csuper"),
   nameMatch (txt "extrn"), nameMatch (txt "tabled1")]

/-- executable form of `FileOK` (sound: `Lemmas/BulkMulti.fileOKb_sound`) -/
def fileOKb (ps : List (Txt → Bool)) : List Seg → Bool
  | [] => true
  | .card o f cs :: r =>
      (List.range ps.length).all (fun k => (ps.getD k fun _ => false) f == decide (k = o)) &&
      (!isCont .comma f && !isCont .f8 f && !isCont .f16 f) &&
      cs.all (fun l => isCont (modeOf f) l && (List.range ps.length).all fun k => !(ps.getD k fun _ => false) l) &&
      (match (fileOf r).head? with
       | some x => !isCont (modeOf f) x
       | none => true) &&
      fileOKb ps r
  | .junk ls :: r =>
      ls.all (fun l => (List.range ps.length).all fun k => !(ps.getD k fun _ => false) l) && fileOKb ps r

end PyYetiVerif.Bulk
