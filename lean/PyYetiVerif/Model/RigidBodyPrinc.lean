import PyYetiVerif.Model.RigidBody
/-
Model of the principal-axis part of `cb.cgmass(m, all6=True)` (cb.py:807-822) for property C06.

`linalg.eigh(I)` is an external kernel: it enters as data `(w, V)` with the stated specification
`Vᵀ·V = 1`, `Vᵀ·I·V = diag(w)`, `w` ascending (`eighResidO`, `eighResidD`, `ascending3` measure it at
run time); what the routine computes FROM it is modelled: `princ_I = diag(w)`,
`m2 = Vᵀ·mcg[:3,:3]·V`, `princ_gyr = sqrt(w / diag(m2))`.  (The NaN branch - `princ = gyr` when the
inertia holds a NaN - and the complex branch do not occur for finite real input.)
Core Lean only.
-/
namespace PyYetiVerif.RigidBody

section princ
variable {α : Type} [Add α] [Sub α] [Mul α] [Div α] [Neg α] [OfNat α 0] [OfNat α 1] [RbOps α]
open RbOps

/-- the 3x3 inertia block `mcg[3:, 3:]` handed to `eigh` -/
def inertiaBlock (mcg : NMat α) : NMat α := fun i j => mcg (i + 3) (j + 3)

/-- `diag(v.T @ mcg[:3, :3] @ v)[i]` -/
def princMass (mcg V : NMat α) (i : Nat) : α :=
  sumN 3 fun a => sumN 3 fun b => V a i * mcg a b * V b i

/-- `princ_gyr = np.sqrt(w / np.diag(m2))` -/
def princGyr (mcg : NMat α) (w : Nat → α) (V : NMat α) (i : Nat) : α := sqrt (w i / princMass mcg V i)

/-- `princ_I = np.diag(w)` -/
def princI (w : Nat → α) : NMat α := fun i j => if i = j then w i else 0

/-- residual of the orthonormality part of the `eigh` specification: `Vᵀ·V - 1` -/
def eighResidO (V : NMat α) : NMat α := fun i j =>
  (sumN 3 fun a => V a i * V a j) - (if i = j then 1 else 0)

/-- residual of the diagonalisation part: `Vᵀ·I·V - diag(w)` -/
def eighResidD (I V : NMat α) (w : Nat → α) : NMat α := fun i j =>
  (sumN 3 fun a => sumN 3 fun b => V a i * I a b * V b j) - (if i = j then w i else 0)

/-- `w[0] <= w[1] <= w[2]` -/
def ascending3 (w : Nat → α) : Bool := !(gt (w 0) (w 1)) && !(gt (w 1) (w 2))

end princ

end PyYetiVerif.RigidBody
