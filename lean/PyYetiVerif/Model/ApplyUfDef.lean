/-!
# `uf_reds` of a category as `DR_Def.add` stores it (core Lean only)

Source modelled: `cla/dr_def.py: DR_Def._handle_defaults` (the `uf_reds` lines) and
`cla/_utilities.py: _merge_uf_reds(old, new)` with the default method `"replace"`:

    if ns.uf_reds is None:
        ns.uf_reds = self.defaults.get("uf_reds", (1, 1, 1, 1))
    ...
    # ensure uf_reds has no None values:
    ns.uf_reds = _merge_uf_reds((1, 1, 1, 1), ns.uf_reds)

`_merge_uf_reds` is `tuple(n if n is not None else o for o, n in zip(old, new))`.

The docstring of `DR_Def.add` says something else for `None` ENTRIES: "any of the four entries in the
tuple can be None; these get reset to the corresponding entry from the `self.defaults` or, if that's
None too, 1" (`addUfRedsDoc`).  The code resets them to 1 whatever `defaults` holds (`addUfReds`) —
observation (a) of the C16 brief, a finding: see `Props/C16UfDef.lean`.
-/
namespace PyYetiVerif.ApplyUfDef

/-- `_merge_uf_reds(old, new)` (method `"replace"`) -/
def mergeUfReds {α : Type} (old : List α) (new : List (Option α)) : List α :=
  List.zipWith (fun o n => n.getD o) old new

/-- the code: `defaults` = `self.defaults.get('uf_reds')` (`none`: no such key), `given` = the
`uf_reds` argument of `add` -/
def addUfReds {α : Type} [OfNat α 1] (defaults given : Option (List (Option α))) : List α :=
  mergeUfReds [1, 1, 1, 1] (given.getD (defaults.getD [some 1, some 1, some 1, some 1]))

/-- the docstring: an entry given wins, else the entry of `defaults`, else 1 -/
def addUfRedsDoc {α : Type} [OfNat α 1] (defaults given : Option (List (Option α))) : List α :=
  mergeUfReds (mergeUfReds [1, 1, 1, 1] (defaults.getD [none, none, none, none]))
    (given.getD [none, none, none, none])

end PyYetiVerif.ApplyUfDef
