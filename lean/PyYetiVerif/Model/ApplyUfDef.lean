/-!
# `uf_reds` of a category as `DR_Def.add` stores it (core Lean only)

Source modelled: `cla/dr_def.py: DR_Def._handle_defaults` (the `uf_reds` lines, after fix 8b1ec50,
finding F56) and `cla/_utilities.py: _merge_uf_reds(old, new)` with the default method `"replace"`:

    if ns.uf_reds is None:
        ns.uf_reds = self.defaults.get("uf_reds", (1, 1, 1, 1))
    ...
    uf_default = self.defaults.get("uf_reds")
    if uf_default is None:
        uf_default = (None, None, None, None)
    uf_default = _merge_uf_reds((1, 1, 1, 1), uf_default)
    ns.uf_reds = _merge_uf_reds(uf_default, ns.uf_reds)

`_merge_uf_reds` is `tuple(n if n is not None else o for o, n in zip(old, new))`.

The docstring of `DR_Def.add`: "any of the four entries in the tuple can be None; these get reset to the
corresponding entry from the `self.defaults` or, if that's None too, 1" (`addUfRedsDoc`).  Before the fix
the code reset `None` entries to 1 whatever `defaults` held.
-/
namespace PyYetiVerif.ApplyUfDef

/-- `_merge_uf_reds(old, new)` (method `"replace"`) -/
def mergeUfReds {α : Type} (old : List α) (new : List (Option α)) : List α :=
  List.zipWith (fun o n => n.getD o) old new

/-- the code: `defaults` = `self.defaults.get('uf_reds')` (`none`: no such key), `given` = the
`uf_reds` argument of `add` -/
def addUfReds {α : Type} [OfNat α 1] (defaults given : Option (List (Option α))) : List α :=
  let ns := given.getD (defaults.getD [some 1, some 1, some 1, some 1])
  let ufDefault := mergeUfReds [1, 1, 1, 1] (defaults.getD [none, none, none, none])
  mergeUfReds ufDefault ns

/-- the docstring: an entry given wins, else the entry of `defaults`, else 1 -/
def addUfRedsDoc {α : Type} [OfNat α 1] (defaults given : Option (List (Option α))) : List α :=
  mergeUfReds (mergeUfReds [1, 1, 1, 1] (defaults.getD [none, none, none, none]))
    (given.getD [none, none, none, none])

end PyYetiVerif.ApplyUfDef
