import PyYetiVerif.Model.Op4Variants
/-!
# OUTPUT2 (op2) files: an independent encoder (C11)

Written from the record grammar that `pyyeti/nastran/op2.py` reads (DESIGN.md §6 C11), sharing no
code with pyYeti.  `K x` is a Fortran record holding one key, `R b` a Fortran record holding the
bytes `b`; record markers are always 4-byte integers, keys are 4 or 8 bytes (`bit64`).

    file  = K 3, R date, K 7, R tape-id (7 words), K 2, R label (2 words), K (-1), K 0, block*, K 0
    block = K 2, R name, K (-1), K 7, R trailer (7 keys), K (-2), K 1, K 0, K 2, R name, K (-3), K 1,
            K type, body
    matrix body (type 1) = ( [K n, R (row, n-1 reals)]*  K (-(j+4)), K 1, K more? )*  K 0
    table  body (type 0) = ( [K nᵢ, R (nᵢ keys)]*        K (-(j+4)), K 1, K 0     )*  K 0

Byte lists are `List Nat` (values `< 256`); reals are raw bit patterns (32-bit when the block is
single precision in a 32-bit file, 64-bit otherwise), so the encoder is exact.  Core Lean only.
-/
namespace PyYetiVerif.Op2
open PyYetiVerif.Op4 PyYetiVerif.Op4V

structure V2 where
  e     : Endian
  bit64 : Bool

def kb (v : V2) : Nat := if v.bit64 then 8 else 4

def mark (v : V2) (n : Nat) : List Nat := natBytes v.e 4 n
def key (v : V2) (x : Int) : List Nat := intBytes v.e (kb v) x
def keys (v : V2) (xs : List Int) : List Nat := xs.flatMap (key v)

/-- a record holding one key -/
def K (v : V2) (x : Int) : List Nat := mark v (kb v) ++ key v x ++ mark v (kb v)
/-- a record holding the bytes `b` -/
def R (v : V2) (b : List Nat) : List Nat := mark v b.length ++ b ++ mark v b.length

/-- `bytes.ljust(n)` with blanks -/
def ljust (n : Nat) (b : List Nat) : List Nat := b ++ List.replicate (n - b.length) 32

/-- a string of a matrix column: first row (1-based) and the bit patterns of its reals -/
abbrev MStr := Nat × List Nat

structure MatBlock where
  name    : List Nat
  trailer : List Int
  single  : Bool
  cols    : List (List MStr)

structure TabBlock where
  name    : List Nat
  trailer : List Int
  records : List (List (List Int))   -- record → pieces → keys

inductive Block
  | mat (m : MatBlock)
  | tab (t : TabBlock)

def realBytes (v : V2) (single : Bool) : Nat := if single && !v.bit64 then 4 else 8

def header (v : V2) (date : List Int) (label : List Nat) : List Nat :=
  K v 3 ++ R v (keys v date) ++ K v 7 ++ R v (List.replicate (7 * kb v) 78) ++ K v 2 ++
    R v (ljust (2 * kb v) label) ++ K v (-1) ++ K v 0

def blockHead (v : V2) (name : List Nat) (trailer : List Int) (type : Int) : List Nat :=
  let nm := ljust (2 * kb v) name
  K v 2 ++ R v nm ++ K v (-1) ++ K v 7 ++ R v (keys v trailer) ++ K v (-2) ++ K v 1 ++ K v 0 ++
    K v 2 ++ R v nm ++ K v (-3) ++ K v 1 ++ K v type

def encStr (v : V2) (single : Bool) (s : MStr) : List Nat :=
  let payload := key v s.1 ++ s.2.flatMap (natBytes v.e (realBytes v single))
  K v (payload.length / kb v) ++ R v payload

def encMatCols (v : V2) (single : Bool) (ncols : Nat) : Nat → List (List MStr) → List Nat
  | _, [] => []
  | j, c :: r =>
    c.flatMap (encStr v single) ++ K v (-((j : Int) + 4)) ++ K v 1 ++
      K v (if j + 1 == ncols then 0 else 1) ++ encMatCols v single ncols (j + 1) r

def encTabRecs (v : V2) : Nat → List (List (List Int)) → List Nat
  | _, [] => []
  | j, pieces :: r =>
    pieces.flatMap (fun p => K v p.length ++ R v (keys v p)) ++ K v (-((j : Int) + 4)) ++ K v 1 ++
      K v 0 ++ encTabRecs v (j + 1) r

def encBlock (v : V2) : Block → List Nat
  | .mat m => blockHead v m.name m.trailer 1 ++ encMatCols v m.single m.cols.length 0 m.cols ++ K v 0
  | .tab t => blockHead v t.name t.trailer 0 ++ encTabRecs v 0 t.records ++ K v 0

def encOp2 (v : V2) (date : List Int) (label : List Nat) (bs : List Block) : List Nat :=
  header v date label ++ bs.flatMap (encBlock v) ++ K v 0

/-- byte range `[start, stop)` of every block inside `encOp2 …` -/
def positionsFrom (v : V2) : Nat → List Block → List (Nat × Nat)
  | _, [] => []
  | p, b :: r => let q := p + (encBlock v b).length; (p, q) :: positionsFrom v q r

def positions (v : V2) (date : List Int) (label : List Nat) (bs : List Block) : List (Nat × Nat) :=
  positionsFrom v (header v date label).length bs

end PyYetiVerif.Op2
