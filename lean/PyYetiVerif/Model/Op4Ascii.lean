import PyYetiVerif.Model.Op4
/-!
Model of the **ASCII reader** of pyyeti/nastran/op4.py (class `OP4`): `_op4open_read` (the
ASCII branch: `_dformat` detection), `_loadop4_ascii` (header line, format field, defaults),
`_rd_dense_ascii`, `_rd_bigmat_ascii`, `_rd_nonbigmat_ascii`, `_get_ascii_block`,
`_put_ascii_values*`, `_skipop4_ascii`, and the loops of `listload` / `dir`.  Core Lean only.

Representation (exact):
* the text file is a `List Char`; the reader only ever asks for the *next line* (`readline`,
  `itertools.islice(fh, n)`), so the file is cut once into its lines (`linesOf`, every line keeps
  its terminating `'\n'`) and the reader consumes a `List Str`; `readline()` at end of file
  returns `""` (here: the list is empty);
* `int(s)` is `pyInt?` (`ws* [+-]? digit+ ws*`), `float(s)` is `pyFloat?`
  (`ws* [+-]? (digit+ [. digit*] | . digit+) [(e|E) [+-]? digit+] ws*`); `none` is `ValueError`.
  The value of a field is kept as the **exact decimal it denotes**, `Dec10 = (neg, man, exp)`
  meaning `(-1)^neg · man · 10^exp`; rounding that decimal to the nearest double is CPython's
  `float()` (done in the driver by the correctly rounded `PyFloat.toBits`, never in a theorem);
* an element read is `AEntry = re × im` of such decimals (`im = +0` for a real matrix).

Outside the model (the reader model answers `none`, the harness never produces such files):
underscores / `inf` / `nan` in numbers, non-ASCII text, carriage returns, a format field
announcing `perline < 1` or `numlen < 1`, negative row/column/length fields (Python would index
from the end or silently read nothing).
-/
namespace PyYetiVerif.Op4A
open PyYetiVerif.Op4 PyYetiVerif.Generated.Op4Consts

abbrev Str := List Char

/-! ## 1. text primitives -/

/-- `str.isspace()` on ASCII: blank, `\t \n \v \f \r`, `\x1c … \x1f` -/
def isWs (c : Char) : Bool :=
  c == ' ' || (9 ≤ c.toNat && c.toNat ≤ 13) || (28 ≤ c.toNat && c.toNat ≤ 31)

def lstrip (s : Str) : Str := s.dropWhile isWs
def rstrip (s : Str) : Str := (s.reverse.dropWhile isWs).reverse
def strip (s : Str) : Str := rstrip (lstrip s)

/-- `s[a:b]` for `0 ≤ a ≤ b` -/
def slice (s : Str) (a b : Nat) : Str := (s.take b).drop a

def upperC (c : Char) : Char := if 97 ≤ c.toNat ∧ c.toNat ≤ 122 then Char.ofNat (c.toNat - 32) else c

/-- the lines of a text file, each with its terminating `'\n'` (the last one possibly without) -/
def linesOf : Str → List Str
  | [] => []
  | c :: t =>
    if c = '\n' then ['\n'] :: linesOf t else
    match linesOf t with
    | [] => [[c]]
    | l :: ls => (c :: l) :: ls

def digitsVal (s : Str) : Nat := Nat.ofDigitChars 10 s 0

/-- a non-empty string of ASCII digits -/
def allDigits (s : Str) : Bool := !s.isEmpty && s.all Char.isDigit

def splitSign : Str → Bool × Str
  | '-' :: r => (true, r)
  | '+' :: r => (false, r)
  | s => (false, s)

/-- `int(s)` -/
def pyInt? (s : Str) : Option Int :=
  let p := splitSign (strip s)
  if allDigits p.2 then some (if p.1 then -(digitsVal p.2 : Int) else (digitsVal p.2 : Int)) else none

/-- the exact decimal a field denotes: `(-1)^neg · man · 10^exp` -/
structure Dec10 where
  neg : Bool
  man : Nat
  exp : Int
deriving Repr, DecidableEq

def Dec10.zero : Dec10 := { neg := false, man := 0, exp := 0 }

/-- `float(s)`, before rounding to a double -/
def pyFloat? (s : Str) : Option Dec10 :=
  let p := splitSign (strip s)
  let ip := p.2.takeWhile Char.isDigit
  let r1 := p.2.dropWhile Char.isDigit
  let q : Str × Str :=
    match r1 with
    | '.' :: t => (t.takeWhile Char.isDigit, t.dropWhile Char.isDigit)
    | _ => ([], r1)
  if ip.isEmpty && q.1.isEmpty then none else
  match q.2 with
  | [] => some { neg := p.1, man := digitsVal (ip ++ q.1), exp := -(q.1.length : Int) }
  | c :: t =>
    if c == 'e' || c == 'E' then
      let e := splitSign t
      if allDigits e.2 then
        some { neg := p.1, man := digitsVal (ip ++ q.1),
               exp := (if e.1 then -(digitsVal e.2 : Int) else (digitsVal e.2 : Int)) - (q.1.length : Int) }
      else none
    else none

/-! ## 2. the header line -/

structure Hdr where
  cols : Int
  rows : Int
  form : Int
  mtype : Int
  name : Str        -- `line[n_slice]`, before `_check_name`
  perline : Nat
  numlen : Nat
deriving Repr, DecidableEq

/-- `numformat = line[n_slice.stop:].strip().upper()`, optional `1P,`, `p = find('E')` after
`D → E`; `perline = int(numformat[:p])`, `numlen = int(numformat[p+1:].split('.')[0])`; the
defaults `(5, 16)` when there is no exponent letter or it comes first. -/
def parseFormat (tail : Str) : Option (Nat × Nat) :=
  let nf := (strip tail).map upperC
  let nf := if "1P,".toList.isPrefixOf nf then nf.drop 3 else nf
  let isE := fun c : Char => c == 'E' || c == 'D'
  let p := (nf.takeWhile fun c => !isE c).length
  if p < nf.length ∧ 0 < p then
    match pyInt? (nf.take p), pyInt? ((nf.drop (p + 1)).takeWhile (· != '.')) with
    | some a, some b => if 1 ≤ a ∧ 1 ≤ b then some (a.toNat, b.toNat) else none
    | _, _ => none
  else some (defaultPerline, defaultNumlen)

/-- the title line of `_loadop4_ascii`; `some none` is end of file (an empty line after `rstrip`) -/
def rdHeader (l0 : Str) : Option (Option Hdr) :=
  let line := rstrip l0
  if line.isEmpty then some none else
  let i16 := "|I16".toList.isSuffixOf line
  let line := if i16 then line.take (line.length - 4) else line
  let w := if i16 then hdrWidthBig else hdrWidthSmall
  match pyInt? (slice line 0 w), pyInt? (slice line w (2 * w)), pyInt? (slice line (2 * w) (2 * w + 8)),
        pyInt? (slice line (2 * w + 8) (2 * w + 16)) with
  | some cols, some rows, some form, some mtype =>
    let stop := 2 * w + 24
    let fmt := if line.length > stop then parseFormat (line.drop stop) else some (defaultPerline, defaultNumlen)
    match fmt with
    | some (perline, numlen) =>
      some (some { cols := cols, rows := rows, form := form, mtype := mtype,
                   name := slice line (2 * w + 16) stop, perline := perline, numlen := numlen })
    | none => none
  | _, _, _, _ => none

/-! ## 3. values -/

abbrev AEntry := Dec10 × Dec10

structure Cfg where
  dformat : Bool
  cplx : Bool
  wper : Nat
  perline : Nat
  numlen : Nat
deriving Repr, DecidableEq

/-- `_get_ascii_block(L, perline, linelen)`: `(L - 1) // perline + 1` lines, each cut to
`linelen = perline * numlen` characters, joined; `D → E` when the file is in D format -/
def getBlock (g : Cfg) (L : Nat) (ls : List Str) : Str × List Str :=
  let nlines := if L = 0 then 0 else (L - 1) / g.perline + 1
  let s := ((ls.take nlines).map fun ln => ln.take (g.perline * g.numlen)).flatten
  (if g.dformat then s.map (fun c => if c = 'D' then 'E' else c) else s, ls.drop nlines)

/-- the reader's slices: `s[0:n], s[n:2n], …` (`k` of them) -/
def fields (n : Nat) : Nat → Str → List Str
  | 0, _ => []
  | k + 1, s => s.take n :: fields n k (s.drop n)

def pairUp : List Dec10 → List AEntry
  | a :: b :: t => (a, b) :: pairUp t
  | _ => []

/-- `_put_ascii_values*`: `L` reals, or `L // 2` (real, imaginary) pairs -/
def readVals (g : Cfg) (s : Str) (L : Nat) : Option (List AEntry) :=
  if g.cplx then ((fields g.numlen (2 * (L / 2)) s).mapM pyFloat?).map pairUp
  else ((fields g.numlen L s).mapM pyFloat?).map fun xs => xs.map fun x => (x, Dec10.zero)

/-- one `put(X, r, c, …)`: 0-based row, column, elements -/
abbrev APut := Nat × Nat × List AEntry

/-! ## 4. the column readers -/

/-- `int(line[c_slice]) - 1`, `int(line[r_slice])` of a column header line -/
def colHead (line : Str) : Option (Int × Int) :=
  match pyInt? (slice line 0 8), pyInt? (slice line 8 16) with
  | some c, some r => some (c - 1, r)
  | _, _ => none

/-- `_rd_dense_ascii`; returns the puts and the lines after the line that ended the loop -/
def rdDense (g : Cfg) (cols : Int) : Nat → (c r : Int) → (line : Str) → List Str → List APut →
    Option (List APut × List Str)
  | 0, _, _, _, _, _ => none
  | fuel + 1, c, r, line, ls, acc =>
    if c < cols then
      if c < 0 ∨ r ≤ 0 then none else
      match pyInt? (slice line 16 24) with
      | some elems =>
        if elems < 0 then none else
        let b := getBlock g elems.toNat ls
        match readVals g b.1 elems.toNat, b.2 with
        | some es, line' :: ls2 =>
          match colHead line' with
          | some (c', r') => rdDense g cols fuel c' r' line' ls2 (acc ++ [((r - 1).toNat, c.toNat, es)])
          | none => none
        | _, _ => none
      | none => none
    else some (acc, ls)

/-- `while elems > 0` of `_rd_bigmat_ascii`: string header `L+1  irow`, then the values -/
def rdStrBig (g : Cfg) : Nat → Nat → List Str → Option (List (Nat × List AEntry) × List Str)
  | _, 0, ls => some ([], ls)
  | 0, _ + 1, _ => none
  | fuel + 1, elems + 1, ls =>
    match ls with
    | [] => none
    | line :: ls1 =>
      match pyInt? (slice line 0 8), pyInt? (slice line 8 16) with
      | some L1, some irow =>
        if L1 < 1 ∨ irow < 1 then none else
        let L := (L1 - 1).toNat
        let b := getBlock g (L / g.wper) ls1
        match readVals g b.1 (L / g.wper), rdStrBig g fuel (elems + 1 - (L + 2)) b.2 with
        | some es, some (rest, ls3) => some (((irow - 1).toNat, es) :: rest, ls3)
        | _, _ => none
      | _, _ => none

/-- `while elems > 0` of `_rd_nonbigmat_ascii`: string header `IS`, then the values -/
def rdStrNonbig (g : Cfg) : Nat → Nat → List Str → Option (List (Nat × List AEntry) × List Str)
  | _, 0, ls => some ([], ls)
  | 0, _ + 1, _ => none
  | fuel + 1, elems + 1, ls =>
    match ls with
    | [] => none
    | line :: ls1 =>
      match pyInt? line with
      | some ISi =>
        if ISi < 0 then none else
        let IS := ISi.toNat
        let u := unpackIS IS
        if IS >>> isShiftR = 0 ∨ u.1 = 0 then none else
        let L := u.2
        let b := getBlock g (L / g.wper) ls1
        match readVals g b.1 (L / g.wper), rdStrNonbig g fuel (elems + 1 - (L + 1)) b.2 with
        | some es, some (rest, ls3) => some ((u.1 - 1, es) :: rest, ls3)
        | _, _ => none
      | none => none

/-- the column loop of `_rd_bigmat_ascii` / `_rd_nonbigmat_ascii` -/
def rdSparse (g : Cfg) (big : Bool) (cols : Int) : Nat → (c : Int) → (line : Str) → List Str → List APut →
    Option (List APut × List Str)
  | 0, _, _, _, _ => none
  | fuel + 1, c, line, ls, acc =>
    if c < cols then
      if c < 0 then none else
      match pyInt? (slice line 16 24) with
      | some elems =>
        match (if big then rdStrBig g ls.length elems.toNat ls else rdStrNonbig g ls.length elems.toNat ls) with
        | some (ss, line' :: ls2) =>
          -- only `int(line[c_slice])` is evaluated here: the row field of a later column header is never read
          match pyInt? (slice line' 0 8) with
          | some c1 => rdSparse g big cols fuel (c1 - 1) line' ls2 (acc ++ ss.map fun s => (s.1, c.toNat, s.2))
          | none => none
        | _ => none
      | none => none
    else some (acc, ls)

/-! ## 5. one matrix, a whole file -/

/-- what one matrix of an ASCII file decodes to -/
structure ADec where
  rawName : Str
  rows : Int
  cols : Int
  form : Int
  mtype : Int
  perline : Nat
  numlen : Nat
  layout : Layout
  sparseAuto : Bool
  puts : List APut
deriving Repr, DecidableEq

/-- `_loadop4_ascii` for the next matrix; `some none` is end of file -/
def rdMatrixA (dformat : Bool) (ls : List Str) : Option (Option (ADec × List Str)) :=
  match ls with
  | [] => some none
  | l0 :: ls1 =>
    match rdHeader l0 with
    | none => none
    | some none => some none
    | some (some h) =>
      match ls1 with
      | [] => none
      | line :: ls2 =>
        match colHead line with
        | none => none
        | some (c, r) =>
          let g : Cfg := { dformat := dformat, cplx := decide (3 ≤ h.mtype),
                           wper := if h.mtype % 2 = 1 then 1 else 2, perline := h.perline, numlen := h.numlen }
          let lay := chooseLayout h.rows r (decide (c ≥ h.cols))
          let body :=
            match lay.1 with
            | .dense => rdDense g h.cols (ls2.length + 1) c r line ls2 []
            | .bigmat => rdSparse g true h.cols (ls2.length + 1) c line ls2 []
            | .nonbigmat => rdSparse g false h.cols (ls2.length + 1) c line ls2 []
          match body with
          | some (puts, rest) =>
            some (some ({ rawName := h.name, rows := h.rows, cols := h.cols, form := h.form, mtype := h.mtype,
                          perline := h.perline, numlen := h.numlen, layout := lay.1, sparseAuto := lay.2,
                          puts := puts }, rest.drop 1))
          | none => none

/-- the loop of `listload`: matrices until end of file -/
def rdFileA (dformat : Bool) : Nat → List Str → Option (List ADec)
  | 0, _ => none
  | fuel + 1, ls =>
    match rdMatrixA dformat ls with
    | none => none
    | some none => some []
    | some (some (d, rest)) => (rdFileA dformat fuel rest).map (d :: ·)

/-- `_op4open_read`, ASCII branch: the third line (the fourth when the third has no `.`) holds a `D` -/
def detectD (ls : List Str) : Bool :=
  let l3 := (ls.drop 2).headD []
  let l := if l3.contains '.' then l3 else (ls.drop 3).headD []
  l.contains 'D'

/-- `_decode_format`: ASCII iff none of the first four bytes is zero (and the file has 16 bytes) -/
def isAsciiFile (cs : Str) : Bool :=
  decide (16 ≤ cs.length) && (cs.take 4).all fun c => c.toNat != 0

/-- `op4.load(file, into='list')` on an ASCII file -/
def loadAscii (cs : Str) : Option (List ADec) :=
  if isAsciiFile cs then
    let ls := linesOf cs
    rdFileA (detectD ls) (ls.length + 1) ls
  else none

/-! ## 6. `_skipop4_ascii` and `dir` -/

/-- `while elems > 0` of the two sparse branches of `_skipop4_ascii`, in Python's integer arithmetic
(nothing is checked there: a negative length makes `elems` grow and skips no line) -/
def skipStrs (big : Bool) (wper perline : Nat) : Nat → Int → List Str → Option (List Str)
  | 0, _, _ => none
  | fuel + 1, elems, ls =>
    if elems ≤ 0 then some ls else
    match ls with
    | [] => none
    | line :: ls1 =>
      match (if big then pyInt? (slice line 0 8) else pyInt? line) with
      | none => none
      | some v =>
        -- `L = int(line[c_slice]) - 1`, or `L = (IS >> 16) - 1` (floor, also for a negative `IS`)
        let L : Int := if big then v - 1 else v / ((2 ^ isShiftR : Nat) : Int) - 1
        let used : Int := if big then L + 2 else L + 1
        -- `L //= wper; nlines = (L + perline - 1) // perline`; `itertools.repeat(None, n)`, `n < 0`: nothing
        let n := ((L / (wper : Int) + (perline : Int) - 1) / (perline : Int)).toNat
        skipStrs big wper perline fuel (elems - used) (ls1.drop n)

/-- the three `while c < cols` loops of `_skipop4_ascii`; `kind = 0` dense (`r > 0`), `1` bigmat,
`2` nonbigmat.  Returns the lines after the line that ended the loop. -/
def skipCols (kind : Nat) (wper perline : Nat) (cols : Int) : Nat → Int → Str → List Str → Option (List Str)
  | 0, _, _, _ => none
  | fuel + 1, c, line, ls =>
    if c < cols then
      match pyInt? (slice line 16 24) with
      | some elems =>
        let after : Option (List Str) :=
          if kind = 0 then
            -- `(elems + perline - 1) // perline` lines; `itertools.repeat(None, n)` with `n < 0` repeats nothing
            some (ls.drop ((elems + (perline : Int) - 1) / (perline : Int)).toNat)
          else skipStrs (kind = 1) wper perline (ls.length + 1) elems ls
        match after with
        | some (line' :: ls2) =>
          match pyInt? (slice line' 0 8) with
          | some c' => skipCols kind wper perline cols fuel (c' - 1) line' ls2
          | none => none
        | _ => none
      | none => none
    else some ls

/-- `dir`: `(raw name, |rows|, cols, form, mtype)` of every matrix -/
def dirA : Nat → List Str → Option (List (Str × Int × Int × Int × Int))
  | 0, _ => none
  | fuel + 1, ls =>
    match ls with
    | [] => some []
    | l0 :: ls1 =>
      match rdHeader l0 with
      | none => none
      | some none => some []
      | some (some h) =>
        match ls1 with
        | [] => none
        | line :: ls2 =>
          match pyInt? (slice line 0 8), pyInt? (slice line 8 16) with
          | some c1, some r =>
            let kind := if r > 0 then 0 else if h.rows < 0 ∨ h.rows ≥ rows4bigmat then 1 else 2
            match skipCols kind (if h.mtype % 2 = 1 then 1 else 2) h.perline h.cols (ls2.length + 1) (c1 - 1) line ls2 with
            | some rest =>
              (dirA fuel (rest.drop 1)).map
                ((h.name, (if h.rows < 0 then -h.rows else h.rows), h.cols, h.form, h.mtype) :: ·)
            | none => none
          | _, _ => none

def dirAscii (cs : Str) : Option (List (Str × Int × Int × Int × Int)) :=
  if isAsciiFile cs then
    let ls := linesOf cs
    dirA (ls.length + 1) ls
  else none

/-! ## 7. from the puts to the matrix -/

def putColA (X : List AEntry) (r : Nat) (ys : List AEntry) : Option (List AEntry) :=
  if r + ys.length ≤ X.length then some (X.take r ++ ys ++ X.drop (r + ys.length)) else none

/-- the dense matrix a list of puts produces: columns of `rows` elements -/
def applyPutsA (rows cols : Nat) (puts : List APut) : Option (List (List AEntry)) :=
  puts.foldlM (init := List.replicate cols (List.replicate rows ((Dec10.zero, Dec10.zero) : AEntry))) fun X p =>
    match X[p.2.1]? with
    | some col => (putColA col p.1 p.2.2).map fun col' => X.set p.2.1 col'
    | none => none

/-- the COO triplets of the sparse read: `(row, col, element)` in file order -/
def cooOfPutsA (puts : List APut) : List (Nat × Nat × AEntry) :=
  puts.flatMap fun p => (List.range p.2.2.length).zip p.2.2 |>.map fun (i, x) => (p.1 + i, p.2.1, x)

end PyYetiVerif.Op4A
