/-
Model of the rigid-body / Craig-Bampton bookkeeping of pyyeti/cb.py and pyyeti/nastran/n2p.py
(property C06):

  n2p.rbgeom          `rbBlock`, `rbgeom`          (n2p.py:111-126)
  n2p.rbmove          `rbmove`                     (n2p.py:308)
  n2p.rbgeom_uset     `usetBlock`, `rbgeomUset`    (n2p.py:216-276; rectangular, cylindrical, spherical)
  cb.cgmass           `cgmass`, `gyr`              (cb.py:776-804)
  cb.cbreorder        `flippv`, `pvList`, `reorder`, `reorderCols`   (cb.py:346-372)
  cb.cbconvert        `role`, `convC`, `convD`, `cbconvert`          (cb.py:626-653)
  cb.uset_convert     `usetConvert`                (cb.py:453-466)
  cb._cbcoordchk      `rbsAssemble`, `schurResid`  (cb.py:2095-2112; `linalg.solve` is a parameter)
  cb.cbcheck          `usetRank` (row order of the reordered uset, cb.py:2859), `mass6`,
                      `effmass`, `effmassPercent`  (cb.py:2964-2966, 3022-3024)

Core Lean only (no Mathlib).  Matrices are functions `Nat → Nat → α` used on an explicit index
range (every theorem carries the range as a hypothesis); every definition is polymorphic over
operation classes, is run at `Float` by `Drivers/C06.lean` and reasoned about over a field /
`ℝ` in `Lemmas/RigidBody.lean` and `Props/C06.lean`.
-/
namespace PyYetiVerif.RigidBody

abbrev NMat (α : Type) := Nat → Nat → α

structure V3 (α : Type) where
  x : α
  y : α
  z : α

/-- operations of `rbgeom_uset` / `cbconvert` / `cgmass(all6)` outside ring arithmetic -/
class RbOps (α : Type) where
  cos : α → α
  sin : α → α
  sqrt : α → α
  abs : α → α
  atan2 : α → α → α
  /-- `x > y` as the implementation evaluates it -/
  gt : α → α → Bool
  /-- the literal `1e-8` of n2p.py:240/256/264 -/
  tiny : α

instance : RbOps Float where
  cos := Float.cos
  sin := Float.sin
  sqrt := Float.sqrt
  abs := Float.abs
  atan2 := Float.atan2
  gt x y := x > y
  tiny := 1e-8

section ring
variable {α : Type} [Add α] [Sub α] [Mul α] [Neg α] [OfNat α 0] [OfNat α 1]

/-- entry `j` of a row of six (0 outside) -/
def pick6 (j : Nat) (a0 a1 a2 a3 a4 a5 : α) : α :=
  if j = 0 then a0 else if j = 1 then a1 else if j = 2 then a2 else if j = 3 then a3
  else if j = 4 then a4 else if j = 5 then a5 else 0

/-- entry `j` of a row of three (0 outside) -/
def pick3 (j : Nat) (a0 a1 a2 : α) : α :=
  if j = 0 then a0 else if j = 1 then a1 else if j = 2 then a2 else 0

/-- `f 0 + f 1 + … + f (n-1)` (left to right) -/
def sumN : Nat → (Nat → α) → α
  | 0, _ => 0
  | n + 1, f => sumN n f + f n

/-- product of an `? × n` and an `n × ?` matrix -/
def mulN (n : Nat) (A B : NMat α) : NMat α := fun i j => sumN n fun k => A i k * B k j

def trN (A : NMat α) : NMat α := fun i j => A j i

/-- `RBᵀ · M · RB` for `n`-row rigid-body modes (cb.py:2964-2966) -/
def mass6 (n : Nat) (rb m : NMat α) : NMat α := mulN n (trN rb) (mulN n m rb)

/-! ### n2p.rbgeom / rbmove -/

/-- the six rows of `rbgeom` of a grid at `p` for a reference at `r` (n2p.py:117-125):
motion of `p` for unit translations and rotations of `r` -/
def rbBlock (p r : V3 α) : NMat α :=
  let dx := p.x - r.x
  let dy := p.y - r.y
  let dz := p.z - r.z
  fun i j =>
    pick6 i (pick6 j 1 0 0 0 dz (-dy))
            (pick6 j 0 1 0 (-dz) 0 dx)
            (pick6 j 0 0 1 dy (-dx) 0)
            (pick6 j 0 0 0 1 0 0)
            (pick6 j 0 0 0 0 1 0)
            (pick6 j 0 0 0 0 0 1)

/-- `rbgeom(grids, ref)`: row `6 g + a` is row `a` of the block of grid `g` -/
def rbgeom (grids : Nat → V3 α) (r : V3 α) : NMat α := fun i j => rbBlock (grids (i / 6)) r (i % 6) j

/-- `rbmove(rb, oldref, newref) = rb @ rbgeom(oldref, newref)` -/
def rbmove (rb : NMat α) (oldref newref : V3 α) : NMat α := mulN 6 rb (rbBlock oldref newref)

/-! ### cb.cbreorder -/

/-- `locate.flippv(b, n)`: the indices of `range n` not in `b`, ascending -/
def flippv (b : List Nat) (n : Nat) : List Nat := (List.range n).filter fun i => !b.contains i

/-- the index vector `pv` cbreorder applies (cb.py:357-367) -/
def pvList (b : List Nat) (lt : Nat) (last : Bool) : List Nat :=
  if lt - b.length = 0 then b
  else if last then flippv b lt ++ b else b ++ flippv b lt

/-- `M[np.ix_(pv, pv)]` -/
def reorder (M : NMat α) (pv : Nat → Nat) : NMat α := fun i j => M (pv i) (pv j)

/-- `M[:, pv]` (`drm=True`) -/
def reorderCols (M : NMat α) (pv : Nat → Nat) : NMat α := fun i j => M i (pv j)

/-- number of entries of `b` smaller than `x` -/
def rankIn (b : List Nat) (x : Nat) : Nat := (b.filter fun y => decide (y < x)).length

/-- `np.argsort(np.argsort(bseto))` (cb.py:2859): new uset row `j` is old row `rank(bseto[j])` -/
def usetRank (bseto : List Nat) : List Nat := bseto.map (rankIn bseto)

end ring

/-! ### cb.cbconvert -/

inductive Role where
  | trans | rot | q
  deriving DecidableEq, Repr

/-- position of `i` in `b` -/
def idxIn (b : List Nat) (i : Nat) : Option Nat :=
  match b with
  | [] => none
  | x :: xs => if x = i then some 0 else (idxIn xs i).map (· + 1)

/-- what a row/column of the Craig-Bampton matrix is: the `k`-th b-set entry is a translation
when `k % 6 < 3` (`mkpattvec([0,1,2], lb, 6)`), a rotation otherwise; everything else is modal -/
def role (b : List Nat) (i : Nat) : Role :=
  match idxIn b i with
  | some k => if k % 6 < 3 then .trans else .rot
  | none => .q

section field
variable {α : Type} [Add α] [Sub α] [Mul α] [Div α] [Neg α] [OfNat α 0] [OfNat α 1] [RbOps α]
open RbOps

/-- `C`: converts b/q displacements from output to input units (cb.py:638-648) -/
def convC (lc mc : α) : Role → α
  | .trans => 1 / lc
  | .rot => 1
  | .q => 1 / (sqrt mc * lc)

/-- `D`: converts forces from input to output units -/
def convD (lc mc : α) : Role → α
  | .trans => mc * lc
  | .rot => mc * (lc * lc)
  | .q => sqrt mc * lc

/-- `cbconvert(M, b, (lc, mc), drm)`: `D·(M·C)`, or `M·C` for a data recovery matrix -/
def cbconvert (M : NMat α) (b : List Nat) (lc mc : α) (drm : Bool) : NMat α := fun i j =>
  let mc' := M i j * convC lc mc (role b j)
  if drm then mc' else convD lc mc (role b i) * mc'

/-- `uset_convert`: rows with dof 1 (location) and dof 3 (origin of the output system) of every
grid are multiplied by the length factor; `u` holds the x,y,z columns, 6 rows per grid -/
def usetConvert (u : NMat α) (lc : α) : NMat α := fun i j =>
  if i % 6 = 0 ∨ i % 6 = 2 then u i j * lc else u i j

/-! ### cb.cgmass -/

/-- `cgmass(m)`: (6x6 mass at the cg, distances from the reference point to the cg) -/
def cgmass (m : NMat α) : NMat α × V3 α :=
  let mx := m 0 0
  let my := m 1 1
  let mz := m 2 2
  let dx := m 1 5 / my
  let dy := m 2 3 / mz
  let dz := m 0 4 / mx
  let Md : NMat α := fun i j =>
    pick3 i (pick3 j 0 (mx * dz) (-(mx * dy)))
            (pick3 j (-(my * dz)) 0 (my * dx))
            (pick3 j (mz * dy) (-(mz * dx)) 0)
  let I : NMat α := fun i j =>
    pick3 i (pick3 j (mz * (dy * dy) + my * (dz * dz)) (-(mz * dx * dy)) (-(my * dx * dz)))
            (pick3 j (-(mz * dx * dy)) (mz * (dx * dx) + mx * (dz * dz)) (-(mx * dy * dz)))
            (pick3 j (-(my * dx * dz)) (-(mx * dy * dz)) (mx * (dy * dy) + my * (dx * dx)))
  let mcg : NMat α := fun i j =>
    if i < 3 then (if j < 3 then m i j else m i j - Md i (j - 3))
    else (if j < 3 then m i j - Md j (i - 3) else m i j - I (i - 3) (j - 3))
  (mcg, ⟨dx, dy, dz⟩)

/-- radii of gyration about X, Y, Z from the cg (cb.py:804) -/
def gyr (mcg : NMat α) : V3 α :=
  ⟨sqrt (mcg 3 3 / mcg 0 0), sqrt (mcg 4 4 / mcg 1 1), sqrt (mcg 5 5 / mcg 2 2)⟩

/-- the 6x6 mass at a reference point of a body with translational masses `mx my mz`, cg at `d`
(from the reference point) and 3x3 inertia block `J` about the cg — the matrix of the cgmass
docstring (cb.py:690-707) -/
def genMass (mx my mz : α) (d : V3 α) (J : NMat α) : NMat α := fun i j =>
  pick6 i
    (pick6 j mx 0 0 0 (mx * d.z) (-(mx * d.y)))
    (pick6 j 0 my 0 (-(my * d.z)) 0 (my * d.x))
    (pick6 j 0 0 mz (mz * d.y) (-(mz * d.x)) 0)
    (pick6 j 0 (-(my * d.z)) (mz * d.y)
      (J 0 0 + mz * (d.y * d.y) + my * (d.z * d.z)) (J 0 1 - mz * d.x * d.y) (J 0 2 - my * d.x * d.z))
    (pick6 j (mx * d.z) 0 (-(mz * d.x))
      (J 1 0 - mz * d.x * d.y) (J 1 1 + mz * (d.x * d.x) + mx * (d.z * d.z)) (J 1 2 - mx * d.y * d.z))
    (pick6 j (-(mx * d.y)) (my * d.x) 0
      (J 2 0 - my * d.x * d.z) (J 2 1 - mx * d.y * d.z) (J 2 2 + mx * (d.y * d.y) + my * (d.x * d.x)))

/-- `diag(mx, my, mz, J)` -/
def cgMassMat (mx my mz : α) (J : NMat α) : NMat α := fun i j =>
  if i < 3 then (if i = j then pick3 i mx my mz else 0)
  else if j < 3 then 0 else J (i - 3) (j - 3)

/-! ### n2p.rbgeom_uset -/

/-- rows `lo, lo+1` of `a` replaced by `[[c, s], [-s, c]] @ a[lo:lo+2]` -/
def rot2 (c s : α) (lo : Nat) (a : NMat α) : NMat α := fun i j =>
  if i = lo then c * a lo j + s * a (lo + 1) j
  else if i = lo + 1 then -s * a lo j + c * a (lo + 1) j
  else a i j

/-- rows `lo..lo+2` replaced by `[[s,0,c],[c,0,-s],[0,1,0]] @ a[lo:lo+3]` -/
def rot3 (c s : α) (lo : Nat) (a : NMat α) : NMat α := fun i j =>
  if i = lo then s * a lo j + c * a (lo + 2) j
  else if i = lo + 1 then c * a lo j - s * a (lo + 2) j
  else if i = lo + 2 then a (lo + 1) j
  else a i j

/-- the six rows of `rbgeom_uset` of one grid.  `u` is the grid's 6x3 slice of the uset columns
x,y,z: row 0 location in basic, row 1 `[cid, type, 0]`, row 2 origin of the output system,
rows 3-5 its 3x3 transform to basic.  `isCyl` / `isSph` are the tests `u[1,1] == 2`, `== 3`. -/
def usetBlock (u : NMat α) (isCyl isSph : Bool) (r : V3 α) : NMat α :=
  let loc : V3 α := ⟨u 0 0, u 0 1, u 0 2⟩
  let rb := rbBlock loc r
  -- t = u[3:6].T ; rb2[0:3] = t @ rb[0:3] ; rb2[3:6] = t @ rb[3:6]
  let rb2 : NMat α := fun i j =>
    if i < 3 then u 3 i * rb 0 j + u 4 i * rb 1 j + u 5 i * rb 2 j
    else u 3 (i - 3) * rb 3 j + u 4 (i - 3) * rb 4 j + u 5 (i - 3) * rb 5 j
  let dl : V3 α := ⟨u 0 0 - u 2 0, u 0 1 - u 2 1, u 0 2 - u 2 2⟩
  let l0 := u 3 0 * dl.x + u 4 0 * dl.y + u 5 0 * dl.z
  let l1 := u 3 1 * dl.x + u 4 1 * dl.y + u 5 1 * dl.z
  let l2 := u 3 2 * dl.x + u 4 2 * dl.y + u 5 2 * dl.z
  if isCyl then
    if gt (abs l1 + abs l0) tiny then
      let th := atan2 l1 l0
      rot2 (cos th) (sin th) 3 (rot2 (cos th) (sin th) 0 rb2)
    else rb2
  else if isSph then
    let off := gt (abs l1 + abs l0) tiny
    let ph := atan2 l1 l0
    let rbA := if off then rot2 (cos ph) (sin ph) 3 (rot2 (cos ph) (sin ph) 0 rb2) else rb2
    let l0' := if off then cos ph * l0 + sin ph * l1 else l0
    let th := if gt (abs l2 + abs l0') tiny then atan2 l0' l2 else 0
    rot3 (cos th) (sin th) 3 (rot3 (cos th) (sin th) 0 rbA)
  else rb2

/-- `rbgeom_uset(uset, ref)` for a table of grids only (6 rows each) -/
def rbgeomUset (u : NMat α) (isCyl isSph : Nat → Bool) (r : V3 α) : NMat α := fun i j =>
  let g := i / 6
  usetBlock (fun a b => u (6 * g + a) b) (isCyl g) (isSph g) r (i % 6) j

/-! ### cb._cbcoordchk -/

/-- stiffness-based rigid-body modes on the b-set (cb.py:2096-2103): identity on the reference
DOF `ref`, `X = -solve(koo, kor)` on the others `o` (`X` is supplied: the linear solve is an
external kernel with the specification `koo · X = -kor`) -/
def rbsAssemble (ref o : List Nat) (X : NMat α) : NMat α := fun i j =>
  match idxIn ref i with
  | some k => if k = j then 1 else 0
  | none => match idxIn o i with
    | some k => X k j
    | none => 0

/-- `krr - rhs` with `rhs = -kor.T @ X` (cb.py:2109-2110), the quantity `refpoint_chk` tests -/
def schurResid (no : Nat) (krr kor X : NMat α) : NMat α := fun i j =>
  krr i j - (-(sumN no fun k => kor k i * X k j))

/-! ### cb.cbcheck: modal effective mass (cb.py:3022-3024) -/

/-- `(m[QB] @ rbg) ** 2` -/
def effmass (nb : Nat) (mqb rbg : NMat α) : NMat α := fun q j =>
  let v := sumN nb fun k => mqb q k * rbg k j
  v * v

/-- `effmass * (100 / diag(mg))` -/
def effmassPercent (nb : Nat) (mqb rbg mg : NMat α) (hundred : α) : NMat α := fun q j =>
  effmass nb mqb rbg q j * (hundred / mg j j)

end field

end PyYetiVerif.RigidBody
