import PyYetiVerif.Lemmas.NT
/-!
# C15 — Norton-Thevenin coupling reproduces the directly coupled system

Property theorems only (helpers in `Lemmas/NT.lean`).  All statements are about the polymorphic
definitions of `Model/NT.lean` — the same definitions `Drivers/C15.lean` executes at complex
`Float` matrices and the correspondence check compares with `frclim.ntfl`, `frclim.calcAM`,
`cb.cbtf` on every run.

Reading.  With `s = iΩ`, `D = M + (1/s) B + (1/s²) K` (`accImp`) is the full-size apparent mass of a
model: `D a = f` for accelerations `a` and forces `f`.  "Source"/"load" blocks `S.. / L..` below
are blocks of such `D`'s, `b` = shared interface DOF, `o` / `q` = the source's / load's other DOF,
`m` = load cases (columns).  Index types are arbitrary finite types, the scalars any commutative
ring (`ℂ` in the application; nothing uses commutativity of *matrices*).  The first two theorems
hold in ANY ring (possibly non-commutative) whose `⁻¹` satisfies the inverse equations that are
actually used, stated as hypotheses.

Outside these statements: IEEE rounding; that LAPACK / the eigen-solution inside `ode.SolveUnc`
return inverses (hypotheses here, residuals measured by the harness); the limit `Ω → 0` of a
flexible model (`am_rigid_limit` is the algebraic part, the limit is checked by the oracle).
-/
namespace PyYetiVerif.C15
open PyYetiVerif.NT Matrix

/-! ## Norton-Thevenin algebra in an arbitrary ring -/

/-- ★ `nt_algebra`.  From the source's reaction `A = As − Ms⁻¹ F` (eq. (3) of the `ntfl`
docstring) and the load's equation `F = Ml A` (eq. (2)) follow the implemented formulas
`A = (Ms+Ml)⁻¹ Ms As`, `F = Ml A`; any ring, `Ms` right-invertible, `Ms + Ml` left-invertible. -/
theorem nt_algebra {R : Type} [Ring R] [Inv R] (Ms Ml As A F : R)
    (hMs : Ms * Ms⁻¹ = 1) (hT : (Ms + Ml)⁻¹ * (Ms + Ml) = 1)
    (hsrc : A = As - Ms⁻¹ * F) (hload : F = Ml * A) :
    A = ntA Ms Ml As ∧ F = ntF Ms Ml As := by
  have h1 : Ms * A = Ms * As - F := by
    conv_lhs => rw [hsrc]
    rw [mul_sub, ← mul_assoc, hMs, one_mul]
  have key : (Ms + Ml) * A = Ms * As := by
    rw [add_mul, h1, ← hload, sub_add_cancel]
  have hA : A = ntA Ms Ml As := by
    calc A = ((Ms + Ml)⁻¹ * (Ms + Ml)) * A := by rw [hT, one_mul]
      _ = (Ms + Ml)⁻¹ * (Ms * As) := by rw [mul_assoc, key]
      _ = ntA Ms Ml As := by
        show _ = ((Ms + Ml)⁻¹ * Ms) * As
        rw [mul_assoc]
  refine ⟨hA, ?_⟩
  show F = Ml * ntA Ms Ml As
  rw [← hA]; exact hload

/-- ★ converse of `nt_algebra`: the implemented `A`, `F` DO satisfy the source-reaction and load
equations (so the pair of equations has exactly one solution, the implemented one). -/
theorem nt_solves_coupled {R : Type} [Ring R] [Inv R] (Ms Ml As : R)
    (hMs : Ms⁻¹ * Ms = 1) (hT : (Ms + Ml) * (Ms + Ml)⁻¹ = 1) :
    ntA Ms Ml As = As - Ms⁻¹ * ntF Ms Ml As ∧ ntF Ms Ml As = Ml * ntA Ms Ml As := by
  refine ⟨?_, rfl⟩
  set A := ntA Ms Ml As with hA
  have key : (Ms + Ml) * A = Ms * As := by
    show (Ms + Ml) * (((Ms + Ml)⁻¹ * Ms) * As) = Ms * As
    rw [← mul_assoc, ← mul_assoc, hT, one_mul]
  have h2 : Ml * A = Ms * As - Ms * A := by
    rw [← key]; noncomm_ring
  show A = As - Ms⁻¹ * (Ml * A)
  rw [h2, mul_sub, ← mul_assoc, ← mul_assoc, hMs, one_mul, one_mul, sub_sub_cancel]

/-! ## the same for matrices with a rectangular right-hand side -/
section matrices
variable {b o q m K : Type} [Fintype b] [Fintype o] [Fintype q] [DecidableEq b] [DecidableEq o]
  [DecidableEq q] [CommRing K]

/-- ★ `nt_algebra` for `b × b` apparent masses and `b × m` accelerations / forces (`m` load
cases; `m = Unit` is the single column `As[:, j]` of the code). -/
theorem nt_algebra_matrix (Ms Ml : Matrix b b K) (As A F : Matrix b m K)
    (hMs : IsUnit Ms.det) (hT : IsUnit (Ms + Ml).det)
    (hsrc : A = As - Ms⁻¹ * F) (hload : F = Ml * A) :
    A = ntA Ms Ml As ∧ F = ntF Ms Ml As := by
  have h1 : Ms * A = Ms * As - F := by
    conv_lhs => rw [hsrc]
    rw [Matrix.mul_sub, mul_nonsing_inv_cancel_left Ms _ hMs]
  have key : (Ms + Ml) * A = Ms * As := by
    rw [Matrix.add_mul, h1, ← hload, sub_add_cancel]
  have hA : A = ntA Ms Ml As := by
    calc A = (Ms + Ml)⁻¹ * ((Ms + Ml) * A) := (nonsing_inv_mul_cancel_left _ _ hT).symm
      _ = (Ms + Ml)⁻¹ * (Ms * As) := by rw [key]
      _ = ntA Ms Ml As := by
        show _ = ((Ms + Ml)⁻¹ * Ms) * As
        rw [Matrix.mul_assoc]
  refine ⟨hA, ?_⟩
  show F = Ml * ntA Ms Ml As
  rw [← hA]; exact hload

/-- ★ `nt_equals_coupled`.  Source `[[Sbb, Sbo], [Sob, Soo]]` loaded by `(fb, fo)`, load
`[[Lbb, Lbq], [Lqb, Lqq]]` unloaded.  `asb` is the source's FREE interface acceleration (source
alone, `hs1 hs2`).  `(ab, ao, aq)` solves the ASSEMBLED system in which the interface DOF are
shared (`hc1 hc2 hc3`).  Then the interface acceleration is the Norton-Thevenin formula applied to
the two Schur complements (the boundary apparent masses), and the interface force — what the load's
own equations say acts on its boundary, `Lbb ab + Lbq aq` — is `ntF`.  Needed: `Soo`, `Lqq` and
`SAM + LAM` invertible; nothing else (not even `SAM` invertible). -/
theorem nt_equals_coupled
    (Sbb : Matrix b b K) (Sbo : Matrix b o K) (Sob : Matrix o b K) (Soo : Matrix o o K)
    (Lbb : Matrix b b K) (Lbq : Matrix b q K) (Lqb : Matrix q b K) (Lqq : Matrix q q K)
    (fb asb ab : Matrix b m K) (fo aso ao : Matrix o m K) (aq : Matrix q m K)
    (hSoo : IsUnit Soo.det) (hLqq : IsUnit Lqq.det)
    (hT : IsUnit (schurAM Sbb Sbo Sob Soo + schurAM Lbb Lbq Lqb Lqq).det)
    (hs1 : Sbb * asb + Sbo * aso = fb) (hs2 : Sob * asb + Soo * aso = fo)
    (hc1 : (Sbb + Lbb) * ab + Sbo * ao + Lbq * aq = fb)
    (hc2 : Sob * ab + Soo * ao = fo)
    (hc3 : Lqb * ab + Lqq * aq = 0) :
    ab = ntA (schurAM Sbb Sbo Sob Soo) (schurAM Lbb Lbq Lqb Lqq) asb ∧
    Lbb * ab + Lbq * aq = ntF (schurAM Sbb Sbo Sob Soo) (schurAM Lbb Lbq Lqb Lqq) asb := by
  set Ms := schurAM Sbb Sbo Sob Soo with hMs
  set Ml := schurAM Lbb Lbq Lqb Lqq with hMl
  -- condensed source alone, condensed source in the coupled system, condensed load
  have e1 := schur_elim Sbb Sbo Sob Soo hSoo asb aso fo hs2
  have e2 := schur_elim Sbb Sbo Sob Soo hSoo ab ao fo hc2
  have e3 := schur_elim Lbb Lbq Lqb Lqq hLqq ab aq 0 hc3
  rw [Matrix.mul_zero, add_zero, ← hMl] at e3
  rw [← hMs] at e1 e2
  have key : (Ms + Ml) * ab = Ms * asb := by
    have : (Sbb + Lbb) * ab + Sbo * ao + Lbq * aq
        = (Sbb * ab + Sbo * ao) + (Lbb * ab + Lbq * aq) := by
      rw [Matrix.add_mul]; abel
    rw [this, e2, e3, ← hs1, e1] at hc1
    rw [Matrix.add_mul]
    have h : Ms * ab + Ml * ab + Sbo * Soo⁻¹ * fo = Ms * asb + Sbo * Soo⁻¹ * fo := by
      rw [← hc1]; abel
    exact add_right_cancel h
  have hA : ab = ntA Ms Ml asb := by
    calc ab = (Ms + Ml)⁻¹ * ((Ms + Ml) * ab) := (nonsing_inv_mul_cancel_left _ _ hT).symm
      _ = (Ms + Ml)⁻¹ * (Ms * asb) := by rw [key]
      _ = ntA Ms Ml asb := by
        show _ = ((Ms + Ml)⁻¹ * Ms) * asb
        rw [Matrix.mul_assoc]
  refine ⟨hA, ?_⟩
  show _ = Ml * ntA Ms Ml asb
  rw [← hA, e3]

/-- ★ `am_inverse`.  `calcAM` (recovery-matrix form) applies unit boundary forces `Tᵀ` to the full
model (`D X = Tᵀ`), reads the boundary accelerance `Acc = T X`, and returns `drmAM`; that is a
two-sided inverse of `Acc`. -/
theorem am_inverse (D : Matrix o o K) (T : Matrix b o K) (X : Matrix o b K)
    (hD : IsUnit D.det) (hX : D * X = Tᵀ) (hAcc : IsUnit (T * X).det) :
    (drmAM T D Tᵀ : Matrix b b K) * (T * X) = 1 ∧ (T * X) * (drmAM T D Tᵀ : Matrix b b K) = 1 := by
  have hXe : X = D⁻¹ * Tᵀ := by rw [← hX, nonsing_inv_mul_cancel_left _ _ hD]
  have hE : (drmAM T D Tᵀ : Matrix b b K) = (T * X)⁻¹ := by
    show (T * D⁻¹ * Tᵀ)⁻¹ = _
    rw [hXe, Matrix.mul_assoc]
  rw [hE]
  exact ⟨nonsing_inv_mul _ hAcc, mul_nonsing_inv _ hAcc⟩

/-- ★ `tam_additive`.  The boundary apparent mass of the ASSEMBLED system (interior DOF
`o ⊕ q`, the two interiors not coupled to each other) is `SAM + LAM`: what `ntfl` returns as
`TAM` is the apparent mass of the coupled system. -/
theorem tam_additive
    (Sbb : Matrix b b K) (Sbo : Matrix b o K) (Sob : Matrix o b K) (Soo : Matrix o o K)
    (Lbb : Matrix b b K) (Lbq : Matrix b q K) (Lqb : Matrix q b K) (Lqq : Matrix q q K)
    (hSoo : IsUnit Soo.det) (hLqq : IsUnit Lqq.det) :
    schurAM (Sbb + Lbb) (fromCols Sbo Lbq) (fromRows Sob Lqb) (fromBlocks Soo 0 0 Lqq)
      = tam (schurAM Sbb Sbo Sob Soo) (schurAM Lbb Lbq Lqb Lqq) := by
  have hinv : (fromBlocks Soo 0 0 Lqq)⁻¹ = fromBlocks Soo⁻¹ 0 0 Lqq⁻¹ := by
    apply inv_eq_right_inv
    rw [fromBlocks_multiply]
    simp only [Matrix.mul_zero, Matrix.zero_mul, add_zero, zero_add, mul_nonsing_inv _ hSoo,
      mul_nonsing_inv _ hLqq, fromBlocks_one]
  show (Sbb + Lbb) - fromCols Sbo Lbq * (fromBlocks Soo 0 0 Lqq)⁻¹ * fromRows Sob Lqb
      = (Sbb - Sbo * Soo⁻¹ * Sob) + (Lbb - Lbq * Lqq⁻¹ * Lqb)
  rw [hinv, fromCols_mul_fromBlocks, fromCols_mul_fromRows]
  simp only [Matrix.mul_zero, add_zero, zero_add]
  abel

/-- ★ `forms_agree`.  Recovery-matrix form with `T = [1 0]` selecting the b-set of a partitioned
impedance equals the enforced-acceleration (Schur complement) form.  Needed: the full impedance
and its `qq` block invertible. -/
theorem forms_agree (Dbb : Matrix b b K) (Dbq : Matrix b q K) (Dqb : Matrix q b K)
    (Dqq : Matrix q q K) (hD : IsUnit (fromBlocks Dbb Dbq Dqb Dqq).det) (hqq : IsUnit Dqq.det) :
    (drmAM (fromCols (1 : Matrix b b K) (0 : Matrix b q K)) (fromBlocks Dbb Dbq Dqb Dqq)
        (fromRows (1 : Matrix b b K) (0 : Matrix q b K)) : Matrix b b K)
      = schurAM Dbb Dbq Dqb Dqq := by
  set X := (fromBlocks Dbb Dbq Dqb Dqq)⁻¹ with hXdef
  have hmul : fromBlocks Dbb Dbq Dqb Dqq * X = 1 := mul_nonsing_inv _ hD
  rw [← fromBlocks_toBlocks X, fromBlocks_multiply, ← fromBlocks_one, fromBlocks_inj] at hmul
  obtain ⟨h11, -, h21, -⟩ := hmul
  -- boundary accelerance = top-left block of the inverse
  have hsel : fromCols (1 : Matrix b b K) (0 : Matrix b q K) * X
      * fromRows (1 : Matrix b b K) (0 : Matrix q b K) = X.toBlocks₁₁ := by
    conv_lhs => rw [← fromBlocks_toBlocks X]
    rw [fromCols_mul_fromBlocks, fromCols_mul_fromRows]
    simp
  show (fromCols (1 : Matrix b b K) (0 : Matrix b q K) * X
      * fromRows (1 : Matrix b b K) (0 : Matrix q b K))⁻¹ = _
  rw [hsel]
  apply inv_eq_left_inv
  have e := schur_elim Dbb Dbq Dqb Dqq hqq X.toBlocks₁₁ X.toBlocks₂₁ 0 h21
  rw [Matrix.mul_zero, add_zero] at e
  rw [← e, h11]

/-- ★ `forms_agree` for the code's partition-vector route (`cbtf`): for a model in Craig-Bampton
form — `K_bq = 0`, `K_qb = 0`, which `calcAM` documents and `cbtf` silently assumes — the
partition-vector form equals the recovery-matrix form with `T` selecting the b-set, at every
frequency (`cv`, `cd` arbitrary scalars). -/
theorem forms_agree_cbtf (Mbb Bbb Kbb : Matrix b b K) (Mbq Bbq : Matrix b q K)
    (Mqb Bqb : Matrix q b K) (Mqq Bqq Kqq : Matrix q q K) (cv cd : K)
    (hD : IsUnit (accImp (fromBlocks Mbb Mbq Mqb Mqq) (fromBlocks Bbb Bbq Bqb Bqq)
      (fromBlocks Kbb 0 0 Kqq) cv cd).det)
    (hqq : IsUnit (accImp Mqq Bqq Kqq cv cd).det) :
    (drmAM (fromCols (1 : Matrix b b K) (0 : Matrix b q K))
        (accImp (fromBlocks Mbb Mbq Mqb Mqq) (fromBlocks Bbb Bbq Bqb Bqq) (fromBlocks Kbb 0 0 Kqq) cv cd)
        (fromRows (1 : Matrix b b K) (0 : Matrix q b K)) : Matrix b b K)
      = cbtfAM Mbb Bbb Kbb Mbq Bbq Mqb Bqb Mqq Bqq Kqq cv cd := by
  have hblk : accImp (fromBlocks Mbb Mbq Mqb Mqq) (fromBlocks Bbb Bbq Bqb Bqq)
      (fromBlocks Kbb 0 0 Kqq) cv cd
      = fromBlocks (accImp Mbb Bbb Kbb cv cd) (Mbq + cv • Bbq) (Mqb + cv • Bqb)
          (accImp Mqq Bqq Kqq cv cd) := by
    show fromBlocks Mbb Mbq Mqb Mqq + cv • fromBlocks Bbb Bbq Bqb Bqq + cd • fromBlocks Kbb 0 0 Kqq = _
    rw [fromBlocks_smul, fromBlocks_smul, fromBlocks_add, fromBlocks_add]
    simp only [smul_zero, add_zero]
    rfl
  rw [hblk] at hD ⊢
  exact forms_agree _ _ _ _ hD hqq

/-- the impedance is additive in the model: assembling models (adding their `M`, `B`, `K`
contributions) adds their impedances — why "assembled system" in `nt_equals_coupled` /
`tam_additive` may be read at the level of mass, damping and stiffness matrices. -/
theorem accImp_additive (M₁ B₁ K₁ M₂ B₂ K₂ : Matrix o o K) (cv cd : K) :
    accImp (M₁ + M₂) (B₁ + B₂) (K₁ + K₂) cv cd = accImp M₁ B₁ K₁ cv cd + accImp M₂ B₂ K₂ cv cd := by
  show (M₁ + M₂) + cv • (B₁ + B₂) + cd • (K₁ + K₂) = (M₁ + cv • B₁ + cd • K₁) + (M₂ + cv • B₂ + cd • K₂)
  rw [smul_add, smul_add]; abel

/-- ★ `am_rigid_limit` (algebraic part).  (i) A rigid body — no stiffness, no damping — whose DOF
are all boundary DOF has apparent mass = physical mass at EVERY frequency, through the
recovery-matrix route; (ii) through the partition-vector route as coded for an empty q-set;
(iii) a partitioned model whose boundary is not coupled to the interior (`Dbq = 0`) shows `Dbb`.
The limit `Ω → 0` for a flexible free-free model is analysis and is checked numerically only. -/
theorem am_rigid_limit (M : Matrix b b K) (hM : IsUnit M.det) (cv cd : K)
    (Dbb : Matrix b b K) (Dqb : Matrix q b K) (Dqq : Matrix q q K) :
    (drmAM (1 : Matrix b b K) (accImp M 0 0 cv cd) (1 : Matrix b b K) : Matrix b b K) = M ∧
    cbtfEmptyAM M 0 0 cv cd = M ∧
    schurAM Dbb (0 : Matrix b q K) Dqb Dqq = Dbb := by
  have hacc : accImp M (0 : Matrix b b K) 0 cv cd = M := by
    show M + cv • (0 : Matrix b b K) + cd • (0 : Matrix b b K) = M
    simp
  refine ⟨?_, hacc, ?_⟩
  · show (1 * (accImp M 0 0 cv cd)⁻¹ * 1)⁻¹ = M
    rw [hacc, Matrix.one_mul, Matrix.mul_one]
    exact nonsing_inv_nonsing_inv M hM
  · show Dbb - 0 * Dqq⁻¹ * Dqb = Dbb
    simp

/-! ### the partition-vector route with an empty q-set -/

/-- ★ `forms_agree` when EVERY DOF is a boundary DOF (rigid bodies; empty q-set), the partition
vector listing the model DOF in an arbitrary order `e` (position `i` of `bset` names model DOF
`e i`): the recovery-matrix form with the selection matrix `T[i, e i] = 1` equals what `cbtf`
computes from the `np.ix_(bset, bset)` blocks.  (Before the fix recorded as finding
`cbtf-empty-qset-unsorted-bset` the code used the blocks in model order, for which this statement
is false: `diag(1, 2)`, `bset = [1, 0]`.) -/
theorem forms_agree_empty_qset (e : b ≃ o) (M B Kk : Matrix o o K) (cv cd : K)
    (hD : IsUnit (accImp M B Kk cv cd).det) :
    (drmAM ((1 : Matrix o o K).submatrix e (Equiv.refl o)) (accImp M B Kk cv cd)
        ((1 : Matrix o o K).submatrix (Equiv.refl o) e) : Matrix b b K)
      = cbtfEmptyAM (M.submatrix e e) (B.submatrix e e) (Kk.submatrix e e) cv cd := by
  have hsub : cbtfEmptyAM (M.submatrix e e) (B.submatrix e e) (Kk.submatrix e e) cv cd
      = (accImp M B Kk cv cd).submatrix e e := by
    ext i j
    simp [cbtfEmptyAM, accImp]
  rw [hsub]
  set D := accImp M B Kk cv cd with hDdef
  show ((1 : Matrix o o K).submatrix e (Equiv.refl o) * D⁻¹
      * (1 : Matrix o o K).submatrix (Equiv.refl o) e)⁻¹ = _
  rw [one_submatrix_mul, mul_submatrix_one]
  have : ((D⁻¹.submatrix ((Equiv.refl o).symm ∘ e) id).submatrix id ((Equiv.refl o).symm ∘ e))
      = D⁻¹.submatrix e e := by
    ext i j; simp
  rw [this, inv_submatrix_equiv, nonsing_inv_nonsing_inv D hD]

/-- the model-order reading is NOT the property: two rigid masses `1, 2` listed as `bset = [1, 0]`
have apparent mass `diag(2, 1)` in b-set order, not `diag(1, 2)` (regression witness for the fix) -/
theorem pv_empty_qset_order_matters :
    cbtfEmptyAM ((Matrix.diagonal ![(1 : ℚ), 2]).submatrix (Equiv.swap (0 : Fin 2) 1) (Equiv.swap 0 1))
        0 0 (0 : ℚ) 0 ≠ cbtfEmptyAM (Matrix.diagonal ![(1 : ℚ), 2]) 0 0 (0 : ℚ) 0 := by
  intro h
  have h00 := congrFun (congrFun h 0) 0
  simp [cbtfEmptyAM, accImp, Matrix.submatrix_apply] at h00

end matrices

/-! ## the `(b × freq × b)` layout -/

/-- flat offsets of distinct `(i, j, k)` are distinct … -/
theorem layout_injective (nf b i j k i' j' k' : Nat) (hj : j < nf) (hk : k < b) (hj' : j' < nf)
    (hk' : k' < b) (h : idx3 nf b i j k = idx3 nf b i' j' k') : i = i' ∧ j = j' ∧ k = k' := by
  unfold idx3 at h
  have hb : 0 < b := by omega
  have h1 : ((i * nf + j) * b + k) / b = i * nf + j := by
    rw [Nat.add_comm, Nat.add_mul_div_right _ _ hb, Nat.div_eq_of_lt hk, Nat.zero_add]
  have h2 : ((i' * nf + j') * b + k') / b = i' * nf + j' := by
    rw [Nat.add_comm, Nat.add_mul_div_right _ _ hb, Nat.div_eq_of_lt hk', Nat.zero_add]
  have hx : i * nf + j = i' * nf + j' := by rw [← h1, ← h2, h]
  have hkk : k = k' := by
    have := h; rw [hx] at this; omega
  have hn : 0 < nf := by omega
  have h3 : (i * nf + j) / nf = i := by
    rw [Nat.add_comm, Nat.add_mul_div_right _ _ hn, Nat.div_eq_of_lt hj, Nat.zero_add]
  have h4 : (i' * nf + j') / nf = i' := by
    rw [Nat.add_comm, Nat.add_mul_div_right _ _ hn, Nat.div_eq_of_lt hj', Nat.zero_add]
  have hii : i = i' := by rw [← h3, ← h4, hx]
  refine ⟨hii, ?_, hkk⟩
  rw [hii] at hx; omega

/-- … and lie inside the array of `b * nf * b` entries -/
theorem layout_in_bounds (nf b i j k : Nat) (hi : i < b) (hj : j < nf) (hk : k < b) :
    idx3 nf b i j k < b * nf * b := by
  unfold idx3
  have h1 : i * nf + j < b * nf := by
    calc i * nf + j < i * nf + nf := by omega
      _ = (i + 1) * nf := by ring
      _ ≤ b * nf := Nat.mul_le_mul_right _ hi
  calc (i * nf + j) * b + k < (i * nf + j) * b + b := by omega
    _ = (i * nf + j + 1) * b := by ring
    _ ≤ (b * nf) * b := Nat.mul_le_mul_right _ h1

/-! ## non-vacuity: the hypotheses are inhabited -/

/-- scalars (one interface DOF): source mass 25, load mass 20, `R = 25/45` (the `ntfl` doctest) -/
example : ntMr (25 : ℚ) 20 = 5 / 9 ∧ ntA (25 : ℚ) 20 (9 : ℚ) = 5 ∧ ntF (25 : ℚ) 20 (9 : ℚ) = 100 := by
  refine ⟨?_, ?_, ?_⟩ <;> norm_num [ntMr, ntA, ntF]

/-- `nt_algebra`'s hypotheses hold for those numbers -/
example : ∃ A F : ℚ, A = 9 - (25 : ℚ)⁻¹ * F ∧ F = 20 * A ∧ (25 : ℚ) * 25⁻¹ = 1
    ∧ ((25 : ℚ) + 20)⁻¹ * (25 + 20) = 1 :=
  ⟨5, 100, by norm_num, by norm_num, by norm_num, by norm_num⟩

/-- a non-commutative instance: `2 × 2` matrices that do not commute, all hypotheses of
`nt_algebra_matrix` hold -/
example : ∃ Ms Ml : Matrix (Fin 2) (Fin 2) ℚ, Ms * Ml ≠ Ml * Ms ∧ IsUnit Ms.det ∧ IsUnit (Ms + Ml).det := by
  refine ⟨!![1, 1; 0, 1], !![1, 0; 1, 1], ?_, ?_, ?_⟩
  · intro h
    have := congrFun (congrFun h 0) 0
    simp [Matrix.mul_apply, Fin.sum_univ_two] at this
  · simp [Matrix.det_fin_two]
  · simp [Matrix.det_fin_two]; norm_num

end PyYetiVerif.C15
