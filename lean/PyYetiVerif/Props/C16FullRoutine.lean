import PyYetiVerif.Props.C16Full
import PyYetiVerif.Lemmas.ApplyUfFullRoutine
/-!
# C16 — uncertainty factors with full modal matrices: the whole routine, no residual flexibility

Property theorems only.  `Props/C16Full.lean` is about the partition arithmetic; here the partition
layer of `Model/ApplyUfFull.lean` (`flippv(…)[nrb:]`, `np.ix_`, the in-place scalings of `a`, `v`,
the scatter into `n` rows) is included for `rfmodes = None`, any number `nrb < n` of rigid-body
modes and any number of columns: `dataM …` enumerates the well-shaped inputs of `applyFull`.
-/
namespace PyYetiVerif.C16
open PyYetiVerif.ApplyUf PyYetiVerif.ApplyUfFull

section routine
variable {α : Type} [Field α] {n : Nat}

/-- ★ the whole routine on full matrices without residual-flexibility modes: rigid-body `a, v` scale
by `ruf·suf` and their displacement rows are zero; elastic `a, v` scale by `euf·duf`; the elastic rows
of `d_static` are `euf·suf·inv(k_el)·F`, of `d_dynamic` `−euf·duf·inv(k_el)·(m a + b v)`, with
`F = m a + b v + k d` on the elastic partition `k_el = k[nrb:, nrb:]`; `d = d_static + d_dynamic`. -/
theorem uf_scaling_full_routine (uf : Uf α) (nrb : Nat) (h : nrb < n) (m : Option (ArgM n α))
    (b : ArgM n α) (K : Matrix (Fin n) (Fin n) α) (KeeInv : Matrix (Fin (n - nrb)) (Fin (n - nrb)) α)
    (cs : List ((Fin n → α) × (Fin n → α) × (Fin n → α)))
    (hE : K.submatrix (sh nrb h.le) (sh nrb h.le) * KeeInv = 1) :
    (applyFull none (dataM nrb m b K KeeInv) (cs.map fun c => ⟨toL c.1, toL c.2.1, toL c.2.2⟩) uf).1
      = cs.map fun c =>
          let e := sh nrb h.le
          let av := (mMat (m.map (ArgM.blockM nrb h.le))).mulVec (fun i => c.1 (e i))
            + (b.blockM nrb h.le).mat.mulVec (fun i => c.2.1 (e i))
          let F := av + (K.submatrix e e).mulVec (fun i => c.2.2 (e i))
          let ds := liftE nrb h.le ((uf.euf * uf.suf) • KeeInv.mulVec F)
          let dd := liftE nrb h.le (-((uf.euf * uf.duf) • KeeInv.mulVec av))
          ⟨toL fun j => if j.val < nrb then c.1 j * (uf.ruf * uf.suf) else c.1 j * (uf.euf * uf.duf),
            toL fun j => if j.val < nrb then c.2.1 j * (uf.ruf * uf.suf) else c.2.1 j * (uf.euf * uf.duf),
            toL (ds + dd), toL ds, toL dd⟩ := by
  have hne : ((dataM nrb m b K KeeInv).nrb == (dataM nrb m b K KeeInv).n) = false := by
    simp only [dataM, beq_eq_false_iff_ne]
    omega
  rw [applyFull_none _ _ _ hne, List.map_map]
  apply List.map_congr_left
  intro c _
  simp only [Function.comp_apply]
  rw [blocksOf_dataM nrb h.le, colOf_dataM nrb h.le]
  obtain ⟨-, -, ⟨ds, hds, -, hdse⟩, ⟨dd, hdd, -, hdde⟩, -, -⟩ :=
    uf_scaling_full uf (m.map (ArgM.blockM nrb h.le)) (b.blockM nrb h.le)
      (K.submatrix (sh nrb h.le) (sh nrb h.le)) KeeInv (0 : Matrix (Fin 0) (Fin 0) α) 0
      (fun i => c.1 (sh nrb h.le i)) (fun i => c.2.1 (sh nrb h.le i)) (fun i => c.2.2 (sh nrb h.le i))
      (fun _ : Fin 0 => (0 : α)) hE (Subsingleton.elim _ _)
  unfold assemble
  have hrf : (dataM nrb m b K KeeInv).rf = [] := rfl
  have hn : (dataM nrb m b K KeeInv).n = n := rfl
  have hnrb : (dataM nrb m b K KeeInv).nrb = nrb := rfl
  simp only [hrf, hn, hnrb, elasticIdx_nil, hds, hdd, scatter_shift nrb h.le, scaleAV_nil _ hrf]
  have hs0 : ∀ (vals base : List α), scatter [] vals base = base := fun _ _ => rfl
  simp only [hs0, vadd_toL, hdse, hdde]

/-- ★ unit factors leave the solution unchanged, whole routine, no residual flexibility: `a` and `v`
come back as they went in, `d` comes back on the elastic rows and is zeroed on the rigid-body rows
(as documented). -/
theorem uf_unit_full_routine (nrb : Nat) (h : nrb < n) (m : Option (ArgM n α))
    (b : ArgM n α) (K : Matrix (Fin n) (Fin n) α) (KeeInv : Matrix (Fin (n - nrb)) (Fin (n - nrb)) α)
    (cs : List ((Fin n → α) × (Fin n → α) × (Fin n → α)))
    (hE : K.submatrix (sh nrb h.le) (sh nrb h.le) * KeeInv = 1) :
    ((applyFull none (dataM nrb m b K KeeInv) (cs.map fun c => ⟨toL c.1, toL c.2.1, toL c.2.2⟩)
        ⟨1, 1, 1, 1⟩).1.map fun o => (o.a, o.v, o.d))
      = cs.map fun c => (toL c.1, toL c.2.1,
          toL fun j : Fin n => if nrb ≤ j.val then c.2.2 j else 0) := by
  rw [uf_scaling_full_routine ⟨1, 1, 1, 1⟩ nrb h m b K KeeInv cs hE, List.map_map]
  apply List.map_congr_left
  intro c _
  have hE' : KeeInv * K.submatrix (sh nrb h.le) (sh nrb h.le) = 1 := mul_eq_one_comm.1 hE
  simp only [Function.comp_apply, mul_one, ite_self, one_smul, Prod.mk.injEq, true_and]
  congr 1
  funext j
  simp only [Pi.add_apply, liftE]
  split_ifs with hj
  · simp only [Matrix.mulVec_add, Matrix.mulVec_mulVec, hE', Matrix.one_mulVec, Pi.add_apply,
      Pi.neg_apply]
    have : (sh nrb h.le ⟨j.val - nrb, by omega⟩) = j := Fin.ext (by simp [sh]; omega)
    rw [this]
    ring
  · simp

end routine

/-! ### non-vacuity -/

/-- one rigid-body mode and a non-diagonal elastic partition with its inverse: the hypothesis of
both theorems is inhabited -/
example : ((!![0, 0, 0; 0, 2, 1; 0, 1, 1] : Matrix (Fin 3) (Fin 3) ℚ).submatrix
      (sh 1 (by omega : 1 ≤ 3)) (sh 1 (by omega : 1 ≤ 3))) * !![1, -1; -1, 2] = 1 := by
  ext i j
  fin_cases i <;> fin_cases j <;> simp [Matrix.mul_apply, Fin.sum_univ_two, sh] <;> norm_num

end PyYetiVerif.C16
