import PyYetiVerif.Lemmas.OrderStatsApi
import PyYetiVerif.Lemmas.KFactorApi
import PyYetiVerif.Lemmas.OrderStatsEffects
import PyYetiVerif.Lemmas.OrderStats
import Mathlib.Tactic.NormNum
/-!
# C20 — the public entry points (`order_stats`, `ksingle`, `kdouble`) as a whole

Property theorems about `Model/OrderStatsApi.lean`, `Model/KFactorApi.lean` and the effect skeletons of
`Generated/C20Stats.lean`:

* `order_stats_dispatch`   the decision logic of `order_stats` stated outright (there is no argument
  validation in the code: the quantity asked for is ignored, absent arguments surface as `TypeError`);
* `order_stats_absent`     an absent argument that a branch reads never yields a value;
* `order_stats_broadcast`  array arguments: shape = numpy's broadcast shape and the value at every
  multi-index is the scalar answer for the arguments' elements at the clipped multi-index;
* `order_stats_scalar`     scalars in, scalars out, with the scalar model's answer and the right kind;
* `kfactor_elementwise`    the same for `ksingle` (exactly) and `kdouble` (all elements share the number
  of Newton passes);
* `arguments_unchanged`    no function of stats.py writes a buffer owned by its caller;
* `stats_consts_tie`       the constants and switch points of stats.py are the ones the models and
  theorems use (regenerated from the source on every run);
* `stats_dtype_tie`        the conversions that make the answers independent of the integer dtype of the
  caller's arrays are present in the source.
-/
set_option linter.unusedSectionVars false
set_option linter.unusedVariables false
set_option linter.unusedSimpArgs false
namespace PyYetiVerif.C20
open PyYetiVerif.OrderStats PyYetiVerif.KFactor PyYetiVerif.Effects PyYetiVerif.Generated

section api
variable {α : Type} [Field α] [LinearOrder α] [IsStrictOrderedRing α]

/-- **decision logic of `order_stats`**: (1) a `which` other than `"c"`, `"r"`, `"n"`, `"p"` raises
`ValueError` whatever the other arguments are; (2) the quantity that is asked for is never read: giving it
(any value) changes nothing; (3) `'c'` with `r`, `p` or `n` absent is a `TypeError`. -/
theorem order_stats_dispatch (iters : ℕ) (a : Args α) :
    (∀ s : String, s ≠ "c" → s ≠ "r" → s ≠ "n" → s ≠ "p" → orderStats iters s a = .err .badWhich) ∧
    (∀ x, orderStats iters "c" { a with c := x } = orderStats iters "c" a) ∧
    (∀ x, orderStats iters "r" { a with r := x } = orderStats iters "r" a) ∧
    (∀ x, orderStats iters "n" { a with n := x } = orderStats iters "n" a) ∧
    (∀ x, orderStats iters "p" { a with p := x } = orderStats iters "p" a) ∧
    ((a.r = none ∨ a.p = none ∨ a.n = none) → orderStats iters "c" a = .err .typeError) := by
  refine ⟨fun s h1 h2 h3 h4 => ?_, fun x => rfl, fun x => rfl, fun x => rfl, fun x => rfl, fun h => ?_⟩
  · simp [orderStats, whichOf, h1, h2, h3, h4]
  · have hw : whichOf "c" = some Which.c := by decide
    simp only [orderStats, hw]
    rcases h with h | h | h
    · rw [h]
    · rw [h]; cases a.r <;> rfl
    · rw [h]; cases a.r <;> cases a.p <;> rfl

/-- the branches and the argument order of their `np.broadcast` calls are those of the source -/
theorem order_stats_dispatch_tie :
    C20Stats.whichOrder = ["c", "r", "n", "p"] ∧ C20Stats.bcast_r = Which.r.reads ∧
      C20Stats.bcast_n = Which.n.reads ∧ C20Stats.bcast_p = Which.p.reads ∧
      (C20Stats.whichOrder.map whichOf) = [some .c, some .r, some .n, some .p] := by
  decide

/-- **absent arguments** in the `'r'`, `'n'`, `'p'` branches: when an argument that the branch reads is
`None` the call raises (`ValueError` if the shapes do not broadcast, else `TypeError` at the first
element) or returns an array without elements — never a value. -/
theorem order_stats_absent (iters : ℕ) (a : Args α) :
    ((a.c = none ∨ a.n = none ∨ a.p = none) →
      orderStats iters "r" a = .err .shapeError ∨ orderStats iters "r" a = .err .typeError ∨
        ∃ sh, orderStats iters "r" a = .intArr ⟨sh, []⟩) ∧
    ((a.c = none ∨ a.r = none ∨ a.p = none) →
      orderStats iters "n" a = .err .shapeError ∨ orderStats iters "n" a = .err .typeError ∨
        ∃ sh, orderStats iters "n" a = .intArr ⟨sh, []⟩) ∧
    ((a.c = none ∨ a.r = none ∨ a.n = none) →
      orderStats iters "p" a = .err .shapeError ∨ orderStats iters "p" a = .err .typeError ∨
        ∃ sh, orderStats iters "p" a = .floatArr ⟨sh, []⟩) := by
  have hr : whichOf "r" = some Which.r := by decide
  have hn : whichOf "n" = some Which.n := by decide
  have hp : whichOf "p" = some Which.p := by decide
  refine ⟨fun h => ?_, fun h => ?_, fun h => ?_⟩
  · simp only [orderStats, hr]
    rcases elementwise_absent _ a.c a.n a.p h with e | e | ⟨sh, e⟩
    · rw [e]; exact Or.inl rfl
    · rw [e]; exact Or.inr (Or.inl rfl)
    · rw [e]; exact Or.inr (Or.inr ⟨sh, by cases sh <;> rfl⟩)
  · simp only [orderStats, hn]
    rcases elementwise_absent _ a.c a.r a.p h with e | e | ⟨sh, e⟩
    · rw [e]; exact Or.inl rfl
    · rw [e]; exact Or.inr (Or.inl rfl)
    · rw [e]; exact Or.inr (Or.inr ⟨sh, by cases sh <;> rfl⟩)
  · simp only [orderStats, hp]
    rcases elementwise_absent _ a.c a.r a.n h with e | e | ⟨sh, e⟩
    · rw [e]; exact Or.inl rfl
    · rw [e]; exact Or.inr (Or.inl rfl)
    · rw [e]; exact Or.inr (Or.inr ⟨sh, by cases sh <;> rfl⟩)

/-- **broadcasting** (`'r'`: array result).  The result has numpy's broadcast shape of `(c, n, p)`, one
element per multi-index, and the element at `idx` is `rank n (1 - p) c` for the elements of `c`, `n`, `p`
at the clipped multi-index (index 0 along every dimension where the argument has extent 1). -/
theorem order_stats_broadcast_r (iters : ℕ) (a : Args α) (o : Nd ℕ)
    (h : orderStats iters "r" a = .intArr o) :
    bshape3 (lift a.c).shape (lift a.n).shape (lift a.p).shape = some o.shape ∧
      o.data.length = size o.shape ∧
      ∀ idx, Valid idx o.shape → ∃ c n p,
        (lift a.c).data[readAt o.shape (lift a.c).shape idx]? = some (some c) ∧
        (lift a.n).data[readAt o.shape (lift a.n).shape idx]? = some (some n) ∧
        (lift a.p).data[readAt o.shape (lift a.p).shape idx]? = some (some p) ∧
        o.data[ravel o.shape idx]? = some (rank n (1 - p) c) := by
  have hr : whichOf "r" = some Which.r := by decide
  simp only [orderStats, hr] at h
  split at h
  · cases h
  · rename_i m he
    have hm : m = o := by
      split at h
      · cases h
      · simpa using h
    subst hm
    obtain ⟨h1, h2, h3⟩ := elementwise_ok _ _ _ _ _ he
    refine ⟨h1, h2, fun idx hv => ?_⟩
    obtain ⟨c, n, p, v, hc, hn, hp, hf, hd⟩ := h3 idx hv
    simp only [Except.ok.injEq] at hf
    exact ⟨c, n, p, hc, hn, hp, hf ▸ hd⟩

/-- **broadcasting** (`'n'`): as `order_stats_broadcast_r`, the element at `idx` is the sample-size answer
`nSearch r (1 - p) c` of the arguments' elements (all of which exist: no element raised). -/
theorem order_stats_broadcast_n (iters : ℕ) (a : Args α) (o : Nd ℕ)
    (h : orderStats iters "n" a = .intArr o) :
    bshape3 (lift a.c).shape (lift a.r).shape (lift a.p).shape = some o.shape ∧
      o.data.length = size o.shape ∧
      ∀ idx, Valid idx o.shape → ∃ c r p v,
        (lift a.c).data[readAt o.shape (lift a.c).shape idx]? = some (some c) ∧
        (lift a.r).data[readAt o.shape (lift a.r).shape idx]? = some (some r) ∧
        (lift a.p).data[readAt o.shape (lift a.p).shape idx]? = some (some p) ∧
        nSearch r (1 - p) c = some v ∧ o.data[ravel o.shape idx]? = some v := by
  have hn : whichOf "n" = some Which.n := by decide
  simp only [orderStats, hn] at h
  split at h
  · cases h
  · rename_i m he
    have hm : m = o := by
      split at h
      · cases h
      · simpa using h
    subst hm
    obtain ⟨h1, h2, h3⟩ := elementwise_ok _ _ _ _ _ he
    refine ⟨h1, h2, fun idx hv => ?_⟩
    obtain ⟨c, r, p, v, hc, hr, hp, hf, hd⟩ := h3 idx hv
    refine ⟨c, r, p, v, hc, hr, hp, ?_, hd⟩
    cases hs : nSearch r (1 - p) c with
    | none => simp [hs] at hf
    | some w => simp only [hs, Except.ok.injEq] at hf; rw [hf]

/-- **broadcasting** (`'p'`): the element at `idx` is the `'p'` answer `pQuery iters c r n` of the
arguments' elements. -/
theorem order_stats_broadcast_p (iters : ℕ) (a : Args α) (o : Nd α)
    (h : orderStats iters "p" a = .floatArr o) :
    bshape3 (lift a.c).shape (lift a.r).shape (lift a.n).shape = some o.shape ∧
      o.data.length = size o.shape ∧
      ∀ idx, Valid idx o.shape → ∃ c r n v,
        (lift a.c).data[readAt o.shape (lift a.c).shape idx]? = some (some c) ∧
        (lift a.r).data[readAt o.shape (lift a.r).shape idx]? = some (some r) ∧
        (lift a.n).data[readAt o.shape (lift a.n).shape idx]? = some (some n) ∧
        pQuery iters c r n = some v ∧ o.data[ravel o.shape idx]? = some v := by
  have hp : whichOf "p" = some Which.p := by decide
  simp only [orderStats, hp] at h
  split at h
  · cases h
  · rename_i m he
    have hm : m = o := by
      unfold packFloat at h
      split at h
      · cases h
      · simpa using h
    subst hm
    obtain ⟨h1, h2, h3⟩ := elementwise_ok _ _ _ _ _ he
    refine ⟨h1, h2, fun idx hv => ?_⟩
    obtain ⟨c, r, n, v, hc, hr, hn, hf, hd⟩ := h3 idx hv
    refine ⟨c, r, n, v, hc, hr, hn, ?_, hd⟩
    cases hs : pQuery iters c r n with
    | none => simp [hs] at hf
    | some w => simp only [hs, Except.ok.injEq] at hf; rw [hf]

/-- **broadcasting** (`'c'`): all three arguments are present, and the element at `idx` is the confidence
`tail n r (1 - p)` of the arguments' elements. -/
theorem order_stats_broadcast_c (iters : ℕ) (a : Args α) (o : Nd α)
    (h : orderStats iters "c" a = .floatArr o) :
    ∃ r n p, a.r = some r ∧ a.n = some n ∧ a.p = some p ∧
      bshape3 r.shape n.shape p.shape = some o.shape ∧ o.data.length = size o.shape ∧
      ∀ idx, Valid idx o.shape → ∃ x y z,
        r.data[readAt o.shape r.shape idx]? = some x ∧ n.data[readAt o.shape n.shape idx]? = some y ∧
        p.data[readAt o.shape p.shape idx]? = some z ∧
        o.data[ravel o.shape idx]? = some (tail y x (1 - z)) := by
  have hc : whichOf "c" = some Which.c := by decide
  simp only [orderStats, hc] at h
  cases hr : a.r with
  | none => simp [hr] at h
  | some r =>
    cases hp : a.p with
    | none => simp [hr, hp] at h
    | some p =>
      cases hn : a.n with
      | none => simp [hr, hp, hn] at h
      | some n =>
        simp only [hr, hp, hn] at h
        cases hb : bmap3 (fun (r n : ℕ) (p : α) => tail n r (1 - p)) r n p with
        | none => simp [hb] at h
        | some m =>
          simp only [hb] at h
          have hm : m = o := by
            unfold packFloat at h
            split at h
            · simp at h
            · simpa using h
          subst hm
          obtain ⟨h1, h2, h3⟩ := bmap3_spec _ _ _ _ _ hb
          exact ⟨r, n, p, rfl, rfl, rfl, h1, h2, h3⟩

/-- **scalars in, scalars out**: with scalar (0-d) arguments every branch returns the scalar model's answer,
as a python `int` for `'r'`, a numpy integer for `'n'`, a numpy float for `'c'` and `'p'`. -/
theorem order_stats_scalar (iters : ℕ) (p c : α) (n r : ℕ) (x : Option (Nd α)) (y : Option (Nd ℕ)) :
    orderStats iters "c" ⟨some (.scalar p), x, some (.scalar n), some (.scalar r)⟩
        = .npFloat (tail n r (1 - p)) ∧
    orderStats iters "r" ⟨some (.scalar p), some (.scalar c), some (.scalar n), y⟩
        = .pyInt (rank n (1 - p) c) ∧
    (∀ v, nSearch r (1 - p) c = some v →
      orderStats iters "n" ⟨some (.scalar p), some (.scalar c), y, some (.scalar r)⟩ = .npInt v) ∧
    (nSearch r (1 - p) c = none →
      orderStats iters "n" ⟨some (.scalar p), some (.scalar c), y, some (.scalar r)⟩ = .err .solverError) ∧
    (∀ v, pQuery iters c r n = some v →
      orderStats iters "p" ⟨x, some (.scalar c), some (.scalar n), some (.scalar r)⟩ = .npFloat v) ∧
    (pQuery iters c r n = none →
      orderStats iters "p" ⟨x, some (.scalar c), some (.scalar n), some (.scalar r)⟩ = .err .solverError) := by
  have hc : whichOf "c" = some Which.c := by decide
  have hr : whichOf "r" = some Which.r := by decide
  have hn : whichOf "n" = some Which.n := by decide
  have hp : whichOf "p" = some Which.p := by decide
  have hb : bshape3 [] [] [] = some [] := by decide
  refine ⟨?_, ?_, fun v hv => ?_, fun hv => ?_, fun v hv => ?_, fun hv => ?_⟩
  · simp [orderStats, hc, bmap3, hb, Nd.scalar, bcastIdx, offsets, pad, bstrides, map3, allSome, packFloat]
  · simp [orderStats, hr, elementwise, lift, bmap3, hb, Nd.scalar, bcastIdx, offsets, pad, bstrides, map3,
      allSome, need3, collect]
  · simp [orderStats, hn, elementwise, lift, bmap3, hb, Nd.scalar, bcastIdx, offsets, pad, bstrides, map3,
      allSome, need3, collect, hv]
  · simp [orderStats, hn, elementwise, lift, bmap3, hb, Nd.scalar, bcastIdx, offsets, pad, bstrides, map3,
      allSome, need3, collect, hv]
  · simp [orderStats, hp, elementwise, lift, bmap3, hb, Nd.scalar, bcastIdx, offsets, pad, bstrides, map3,
      allSome, need3, collect, hv, packFloat]
  · simp [orderStats, hp, elementwise, lift, bmap3, hb, Nd.scalar, bcastIdx, offsets, pad, bstrides, map3,
      allSome, need3, collect, hv]

/-- the position at which an operand is read is its own C-order position of the trailing part of the
clipped index: the leading 1-dimensions added by the alignment do not move the data. -/
theorem order_stats_broadcast_readAt (k : ℕ) (s idx : List ℕ) :
    ravel (List.replicate k 1 ++ s) (List.replicate k 0 ++ idx) = ravel s idx :=
  ravel_pad k s idx

/-- non-vacuity: the documented table layout — ranks down the rows (shape `(2, 1)`), coverages along the
columns (shape `(3,)`), one confidence — gives a `(2, 3)` table whose `(i, j)` entry belongs to `r_i`, `p_j`
(computed here for the `'c'` query over `ℚ`; transposing the result would be detected). -/
example :
    orderStats (α := ℚ) 0 "c" ⟨some ⟨[3], [1/2, 1/4, 3/4]⟩, none, some (.scalar 2), some ⟨[2, 1], [1, 2]⟩⟩
      = .floatArr ⟨[2, 3], [3/4, 15/16, 7/16, 1/4, 9/16, 1/16]⟩ := by
  have hc : whichOf "c" = some Which.c := by decide
  have hb : bshape3 [2, 1] [] [3] = some [2, 3] := by decide
  simp only [orderStats, hc, bmap3, hb, Nd.scalar]
  norm_num [bcastIdx, offsets, rows, pad, bstrides, size, map3, allSome, packFloat, tail, lower, pmf,
    OrderStats.choose, List.replicate]

end api

section kfactor
variable {α : Type} [Field α] [LinearOrder α] [IsStrictOrderedRing α]

/-- **`ksingle` with array arguments is the scalar formula elementwise** over numpy's broadcast of
`(p, c, n)` — one formula for every `n` (the code has no large-sample branch and no table). -/
theorem kfactor_elementwise_ksingle (o : Ops α) (p c n out : Nd α) (h : ksingleApi o p c n = some out) :
    bshape3 p.shape c.shape n.shape = some out.shape ∧ out.data.length = size out.shape ∧
      ∀ idx, Valid idx out.shape → ∃ x y z,
        p.data[readAt out.shape p.shape idx]? = some x ∧ c.data[readAt out.shape c.shape idx]? = some y ∧
        n.data[readAt out.shape n.shape idx]? = some z ∧
        out.data[ravel out.shape idx]? = some (ksingle o x y z) :=
  bmap3_spec _ _ _ _ _ h

/-- **`kdouble` with array arguments**.  `_getr` runs its Newton loop on the whole `(n, p)` grid at once:
there is ONE number of passes `K ≤ MAXLOOPS` for all elements; the grid value at `j` is the `K`-th scalar
Newton iterate from the scalar starting point; if `K < MAXLOOPS` no element moved by more than `tol` in the
last pass; and the result is `sqrt((n-1)/chi2.ppf(1-c, n-1)) · R` elementwise over the broadcast of `c`, `n`
and the `R` grid.  (So an element of an array call has had at least as many Newton passes as the same
element in a scalar call: `newton_monotone_convex` bounds the difference.) -/
theorem kfactor_elementwise_kdouble (o : Ops α) (tol : α) (p c n out : Nd α) (K : ℕ)
    (h : kdoubleApi o tol p c n = some (out, K)) :
    K ≤ C20Stats.getrMaxLoops ∧
    ∃ g : Nd (α × α), ∃ R : List α,
      bmap3 (fun (n p : α) (_ : Unit) => (n, p)) n p (Nd.scalar ()) = some g ∧
      -- the R grid: K scalar Newton steps from the scalar starting point, for every element
      (∀ (j : ℕ) (nj pj : α), g.data[j]? = some (nj, pj) →
        R[j]? = some ((newtonStep o nj pj)^[K] (getrStart o nj pj))) ∧
      -- stopping test: below the cap, no element moved by more than tol in the last pass
      (K < C20Stats.getrMaxLoops → 1 ≤ K → ∀ (j : ℕ) (nj pj : α), g.data[j]? = some (nj, pj) →
        ¬ tol < absv ((newtonStep o nj pj)^[K] (getrStart o nj pj)
                      - (newtonStep o nj pj)^[K - 1] (getrStart o nj pj))) ∧
      -- the factor
      bshape3 c.shape n.shape g.shape = some out.shape ∧ out.data.length = size out.shape ∧
      ∀ idx, Valid idx out.shape → ∃ x y z,
        c.data[readAt out.shape c.shape idx]? = some x ∧ n.data[readAt out.shape n.shape idx]? = some y ∧
        R[readAt out.shape g.shape idx]? = some z ∧
        out.data[ravel out.shape idx]? = some (kdoubleOf o x y z) := by
  unfold kdoubleApi at h
  cases hg : bmap3 (fun (n p : α) (_ : Unit) => (n, p)) n p (Nd.scalar ()) with
  | none => simp [hg] at h
  | some g =>
    simp only [hg, Option.map_eq_some_iff, Prod.mk.injEq] at h
    obtain ⟨m, hm, rfl, hK⟩ := h
    set ns := g.data.map (·.1) with hns
    set ps := g.data.map (·.2) with hps
    set r0 := (ns.zip ps).map (fun np => getrStart o np.1 np.2) with hr0
    have hloop : getrLoop o tol ns ps C20Stats.getrMaxLoops 0 r0
        (r0.map (· + ((C20Stats.getrRoldOffset : ℕ) : α))) = ((getrAll o tol ns ps).1, K) := by
      rw [← hK]; rfl
    obtain ⟨K', hK1, hK2, hR, hstop⟩ := getrLoop_spec o tol ns ps _ _ _ _ _ _ hloop
    have hKK : K = K' := by omega
    subst hKK
    have hstart : ∀ (j : ℕ) (nj pj : α), g.data[j]? = some (nj, pj) →
        ns[j]? = some nj ∧ ps[j]? = some pj ∧ r0[j]? = some (getrStart o nj pj) := by
      intro j nj pj hj
      have h1 : ns[j]? = some nj := by simp [hns, hj]
      have h2 : ps[j]? = some pj := by simp [hps, hj]
      refine ⟨h1, h2, ?_⟩
      simp [hr0, (List.getElem?_zip_eq_some (z := (nj, pj))).2 ⟨h1, h2⟩]
    have hiter : ∀ (k j : ℕ) (nj pj : α), g.data[j]? = some (nj, pj) →
        ((stepAll o ns ps)^[k] r0)[j]? = some ((newtonStep o nj pj)^[k] (getrStart o nj pj)) := by
      intro k j nj pj hj
      obtain ⟨h1, h2, h3⟩ := hstart j nj pj hj
      exact stepAll_iterate_getElem? o ns ps j nj pj h1 h2 k r0 _ h3
    refine ⟨hK1, g, (getrAll o tol ns ps).1, rfl, fun j nj pj hj => ?_, fun hlt h1 j nj pj hj => ?_, ?_⟩
    · rw [hR]; exact hiter K j nj pj hj
    · rcases hstop hlt with ⟨h0, _⟩ | ⟨K'', hK'', hnm⟩
      · omega
      · subst hK''
        exact anyMoved_false tol _ _ hnm j _ _ (hiter (K'' + 1) j nj pj hj) (by
          simpa using hiter K'' j nj pj hj)
    · exact bmap3_spec _ _ _ _ _ hm

end kfactor

section effects

/-- **the caller's arrays are not modified.**  For ANY program of the effect grammar whose taint analysis
succeeds (`safe k prog`), every execution (either branch of every `if`, any number of passes of every
`while`) from the entry state in which the `k` parameters hold the caller's buffers `0 … k-1` writes only
buffers allocated inside the function (identifiers `≥ k`). -/
theorem arguments_unchanged (k : ℕ) (prog : Prog) (hs : safe k prog = true) (s' : St)
    (hexec : Exec prog (init k) s') : ∀ id ∈ s'.written, k ≤ id := by
  unfold safe at hs
  cases h : absRun prog (List.range k) with
  | none => simp [h] at hs
  | some S => exact (absRun_sound k hexec _ _ h (init_inv k)).wr

/-- … and the analysis succeeds on the skeleton of every function of stats.py that the property reads
(`ksingle`, `_getr`, `kdouble`, `order_stats` and its nested `_func`/`_run_brentq`), regenerated from the
source on every run: an in-place operation on an argument (`n -= 1` after `n = np.asarray(n)`) makes this
`decide` fail. -/
theorem stats_effects_safe : ∀ pk ∈ C20Stats.allProgs, safe pk.1 pk.2 = true := by decide

/-- the analysis is not vacuous: it rejects the in-place decrement of an aliased argument … -/
example : safe 3 (.seq (.share 2 2) (.write 2)) = false := by decide
/-- … and accepts the same write once the variable has been rebound to a fresh array. -/
example : safe 3 (.seq (.share 2 2) (.seq (.fresh 2) (.write 2))) = true := by decide

/-- **constants and switch points** of stats.py (regenerated from the source on every run) are the ones the
models and the theorems use: the bracket of `'n'` starts at `r`, is doubled (`nSearchL`/`bracket` use
`2 * b`) at most 30 more times (`nSearch = nSearchL 30`, `n_total`: failure only beyond `r · 2^31`); the
`'p'` bracket is `[0, 1]` (`p_query_exists_unique` is about the root in `(0, 1)`); `_getr` allows 100 passes,
forces the first one (`rold = r + 10 > tol`), starts at `Φ⁻¹((1 + prob)/2) · (1 + 1/(2n))`; `kdouble`'s default
tolerance is `10⁻¹²`. -/
theorem stats_consts_tie :
    C20Stats.nGrowFactor = 2 ∧ C20Stats.nGrowLoops = 30 ∧
      C20Stats.pBracketLo = 0 ∧ C20Stats.pBracketHi = 1 ∧
      C20Stats.getrMaxLoops = 100 ∧ C20Stats.getrRoldOffset = 10 ∧
      C20Stats.getrStartHalf = 2 ∧ C20Stats.getrStartInvN = 2 ∧
      C20Stats.kdoubleTolMant = 1 ∧ C20Stats.kdoubleTolNegExp = 12 := by
  decide

/-- **integer arguments of any width** (fix cd7a6f7, findings F54/F55).  The models compute with the sample
sizes as elements of the field (`ksingleApi`, `kdoubleApi`: float64 in the driver) and with the rank as a natural
number (`nSearch`: unbounded): they do not know the integer dtype of the caller's arrays.  The code agrees with
that only because it converts first — `n = np.asarray(n, dtype=float)` in `ksingle` and `kdouble` (otherwise
`np.sqrt` of an int8 array is a float16), `r = int(r)` first in `_run_brentq` (otherwise `b = 2 * a` wraps in the
dtype of `r`).  These three facts are regenerated from the source on every run. -/
theorem stats_dtype_tie :
    C20Stats.ksingleNFloat = true ∧ C20Stats.kdoubleNFloat = true ∧ C20Stats.nRankToInt = true := by
  decide

end effects
end PyYetiVerif.C20
