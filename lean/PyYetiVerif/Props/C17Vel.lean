import PyYetiVerif.Lemmas.NewmarkVel
import PyYetiVerif.Props.C17
import PyYetiVerif.Props.C17Conv
/-!
# C17 (continued) — velocities and accelerations of SolveNewmark: what is returned, and how fast it converges

Property theorems only (helpers in `Lemmas/NewmarkVel.lean`).

* `newmark_velocity_is_central_difference` — over ANY vector type: for a linear run on `nt = n + 2` force columns
  `v_0 = v0` (the given initial velocity, NOT a difference), `v_j = (d_{j+1} − d_{j−1}) / 2h` for `1 ≤ j ≤ nt − 2`, and at
  the last step `v_{nt−1} = (De − d_{nt−2}) / 2h` with the extrapolated displacement `De`: the end point uses the same
  centred formula (one extra integration step), no one-sided difference; likewise
  `a_0 = (d_1 − 2 d_0 + u₋₁) / h²`, `a_j = (d_{j+1} − 2 d_j + d_{j−1}) / h²`, `a_{nt−1} = (De − 2 d_{nt−1} + d_{nt−2}) / h²`.
* `newmark_velocity_converges_scalar` — scalar test equation, hypotheses of `newmark_converges_scalar`: `v_0` is exact and
  for `1 ≤ j ≤ nt − 2`: `|v_j − u'(t_j)| ≤ R/√m + M₃ h²/6` with the energy radius of the error
  `R = E₁ |F(0) − K u₀ − B v₀| h + E₂ h²` (`convE1`, `convE2` explicit; `convK1 = (T/√m) E₁`, `convK2 = (T/√m) E₂`):
  second order when the start-up is balanced, first order otherwise — the same orders as the displacements.
* `newmark_accel_converges_scalar` — for `1 ≤ j ≤ nt − 2`:
  `|a_j − u''(t_j)| ≤ (C_τ h² + [j = 1] |F(0) − K u₀ − B v₀|/3 + (b + k T) R/√m)/m + M₄ h²/12`: second order when balanced;
  when the start-up is unbalanced first order from `j = 2` on and NO convergence at `j = 1` (the replaced `F₀` enters that
  equation; the docstring's "approximately correct by the third time step").
* `newmark_initial_accel_error_scalar`, `newmark_initial_accel_first_order` — the first returned acceleration:
  `|a_0 − u''(0)| ≤ |u''(0)| (1/2 + |b h/12 − m/6|/m) + (2/3) M₃ h + b M₃ h²/(4m)`: FIRST order when balanced
  (`u''(0) = 0`), and `newmark_initial_accel_defect`: on `u = c₀ + c₁ t + c₂ t²` exactly
  `A h² (a_0 − u''(0)) = −c₂ (4m + b h + k h²)/3`, so `a_0 → u''(0)/3` as `h → 0`: not consistent when unbalanced.
* `newmark_last_step_converges_scalar` — the end point `j = nt − 1` (needs `f ∈ C²`, `|f''| ≤ M_F`, and `nt·h ≤ T`): the
  extrapolated force adds `M_F h²/3` to the forcing of the error, so `v` and `a` at the last step have the same order as
  in the interior (second order when balanced), with `R' = R + (C_τ + M_F/3) h³/√m` in place of `R`.
-/
namespace PyYetiVerif.C17
open PyYetiVerif.Newmark Set

/-! ## what `run` returns for `v` and `a` -/
section returned
variable {α V : Type} [Add V] [Sub V] [VecOps α V] [Mul α] [OfNat α 2] [OfNat α 3]
open VecOps

theorem newmark_velocity_is_central_difference (S : Sys V α) (Fn : Nat → V) (d0 v0 z : V) (n : Nat) :
    ∃ hh, run S (fun _ _ => z) ((List.range (n + 2)).map Fn) d0 v0 = some hh ∧
      hh.d = (List.range (n + 2)).map (dseq S Fn d0 v0 z) ∧
      hh.de = lastStep S (fun _ _ => z) (stateAt S Fn d0 v0 z n) ∧
      hh.v[0]? = some v0 ∧
      (∀ i, i < n → hh.v[i + 1]?
        = some (sdiv (dseq S Fn d0 v0 z (i + 2) - dseq S Fn d0 v0 z i) ((2 : α) * S.h))) ∧
      hh.v[n + 1]? = some (sdiv (hh.de - dseq S Fn d0 v0 z n) ((2 : α) * S.h)) ∧
      hh.a[0]? = some (sdiv (dseq S Fn d0 v0 z 1 - smul (2 : α) d0 + uM1 S d0 v0) (S.h * S.h)) ∧
      (∀ i, i < n → hh.a[i + 1]?
        = some (sdiv (dseq S Fn d0 v0 z (i + 2) - smul (2 : α) (dseq S Fn d0 v0 z (i + 1))
            + dseq S Fn d0 v0 z i) (S.h * S.h))) ∧
      hh.a[n + 1]? = some (sdiv (hh.de - smul (2 : α) (dseq S Fn d0 v0 z (n + 1))
            + dseq S Fn d0 v0 z n) (S.h * S.h)) := by
  obtain ⟨hh, hrun, hd, hde, hv, ha⟩ := run_va S Fn d0 v0 z n
  refine ⟨hh, hrun, hd, hde, by rw [hv]; rfl, ?_, ?_, ?_, ?_, ?_⟩
  · intro i hi
    rw [hv, run_v_get S Fn d0 v0 z n i (by omega)]
    simp only [uuAt]
    rw [if_pos (by omega), if_pos (by omega)]
  · rw [hv, run_v_get S Fn d0 v0 z n n (le_refl _), hde]
    simp only [uuAt]
    rw [if_neg (by omega), if_pos (by omega)]
  · rw [ha, run_a_get S Fn d0 v0 z n 0 (by omega)]
    simp only [uuAt]
    rw [if_pos (by omega), if_pos (by omega)]
    rfl
  · intro i hi
    rw [ha, run_a_get S Fn d0 v0 z n (i + 1) (by omega)]
    simp only [uuAt]
    rw [if_pos (by omega), if_pos (by omega), if_pos (by omega)]
  · rw [ha, run_a_get S Fn d0 v0 z n (n + 1) (le_refl _), hde]
    simp only [uuAt]
    rw [if_neg (by omega), if_pos (by omega), if_pos (by omega)]

end returned

/-! ## convergence of the returned velocities and accelerations (scalar test equation) -/

/-- `convK1`, `convK2` of `newmark_converges_scalar` are `T/√m` times the energy-radius coefficients `convE1`, `convE2` -/
theorem convK_eq_convE (m b k T M3 M4 : ℝ) :
    convK1 m b k T = T / √m * convE1 m b k T ∧ convK2 m b k T M3 M4 = T / √m * convE2 m b k T M3 M4 :=
  ⟨rfl, rfl⟩

/-- interior velocities: `|v_j − u'(t_j)| ≤ R/√m + M₃ h²/6`, `1 ≤ j ≤ nt − 2`; `v_0` is the exact `u'(0)` -/
theorem newmark_velocity_converges_scalar (m b k T M3 M4 : ℝ) (hm : 0 < m) (hb : 0 ≤ b) (hk : 0 ≤ k)
    (u u1 u2 u3 u4 f : ℝ → ℝ)
    (hu : ∀ t, HasDerivAt u (u1 t) t) (hu1 : ∀ t, HasDerivAt u1 (u2 t) t)
    (hu2 : ∀ t, HasDerivAt u2 (u3 t) t) (hu3 : ∀ t, HasDerivAt u3 (u4 t) t)
    (hM3 : ∀ t ∈ Icc 0 T, |u3 t| ≤ M3) (hM4 : ∀ t ∈ Icc 0 T, |u4 t| ≤ M4)
    (hode : ∀ t ∈ Icc 0 T, m * u2 t + b * u1 t + k * u t = f t)
    (h : ℝ) (n : ℕ) (hh : 0 < h) (hnT : ((n : ℝ) + 1) * h ≤ T) :
    ∃ hist, run (scalarSys m b k h) (fun _ _ => 0) ((List.range (n + 2)).map fun j : ℕ => f ((j : ℝ) * h))
        (u 0) (u1 0) = some hist ∧ hist.v[0]? = some (u1 0) ∧
      ∀ i, i < n → ∃ x, hist.v[i + 1]? = some x ∧
        |x - u1 (((i + 1 : ℕ) : ℝ) * h)|
          ≤ convR m b k T M3 M4 |f 0 - (k * u 0 + b * u1 0)| h / √m + M3 * h ^ 2 / 6 := by
  obtain ⟨hist, hrun, -, -, hv0, hvi, -, -, -, -⟩ := newmark_velocity_is_central_difference
    (scalarSys m b k h) (fun j : ℕ => f (j * h)) (u 0) (u1 0) 0 n
  obtain ⟨hR0, hEn, -, -, -⟩ := scalar_error_energy m b k T M3 M4 hm hb hk u u1 u2 u3 u4 f hu hu1 hu2 hu3
    hM3 hM4 hode h n hh hnT
  refine ⟨hist, hrun, hv0, fun i hi => ⟨_, hvi i hi, ?_⟩⟩
  set R := convR m b k T M3 M4 |f 0 - (k * u 0 + b * u1 0)| h with hR
  set μ := √m with hμd
  have hμ : 0 < μ := Real.sqrt_pos.mpr hm
  have hmμ : m = μ ^ 2 := (Real.sq_sqrt hm.le).symm
  set t := ((i + 1 : ℕ) : ℝ) * h with ht
  have tp : t + h = ((i + 2 : ℕ) : ℝ) * h := by rw [ht]; push_cast; ring
  have tm : t - h = ((i : ℕ) : ℝ) * h := by rw [ht]; push_cast; ring
  have hi0 : (0 : ℝ) ≤ i := Nat.cast_nonneg i
  have hiT : ((i : ℝ) + 2) * h ≤ T := by
    have : (i : ℝ) + 2 ≤ n + 1 := by exact_mod_cast (by omega : i + 2 ≤ n + 1)
    nlinarith
  have sub : ∀ s ∈ Icc (t - h) (t + h), s ∈ Icc 0 T := by
    intro s hs
    rw [tm] at hs; rw [tp] at hs
    refine ⟨le_trans (by positivity) hs.1, le_trans hs.2 ?_⟩
    push_cast; linarith
  have htr := centered_diff_le u u1 u2 u3 hu hu1 hu2 t h M3 hh.le (fun s hs => hM3 s (sub s hs))
  have hce := centered_err_le m k h μ R R (errSeq m b k h u u1 f (i + 2)) (errSeq m b k h u u1 f (i + 1))
    (errSeq m b k h u u1 f i) hμ hmμ hk hh hR0 hR0 (hEn (i + 1) (by omega)) (hEn i (by omega))
  have h2 : (0 : ℝ) < 2 * h := by positivity
  have key : ∀ D2 D0 U2 U0 w : ℝ, (D2 - D0) / (2 * h) - w
      = ((D2 - U2) - (D0 - U0)) / (2 * h) + (U2 - U0 - 2 * h * w) / (2 * h) := by
    intros; field_simp; ring
  have e2 : errSeq m b k h u u1 f (i + 2)
      = dseq (scalarSys m b k h) (fun j : ℕ => f (j * h)) (u 0) (u1 0) 0 (i + 2) - u (t + h) := by
    rw [tp]; rfl
  have e0 : errSeq m b k h u u1 f i
      = dseq (scalarSys m b k h) (fun j : ℕ => f (j * h)) (u 0) (u1 0) 0 i - u (t - h) := by
    rw [tm]; rfl
  have hsplit : VecOps.sdiv (dseq (scalarSys m b k h) (fun j : ℕ => f (j * h)) (u 0) (u1 0) 0 (i + 2)
        - dseq (scalarSys m b k h) (fun j : ℕ => f (j * h)) (u 0) (u1 0) 0 i) ((2 : ℝ) * (scalarSys m b k h).h)
      - u1 t
      = (errSeq m b k h u u1 f (i + 2) - errSeq m b k h u u1 f i) / (2 * h)
        + (u (t + h) - u (t - h) - 2 * h * u1 t) / (2 * h) := by
    rw [e2, e0]
    exact key _ _ _ _ _
  rw [hsplit]
  refine le_trans (abs_add_le _ _) (add_le_add ?_ ?_)
  · calc _ ≤ (R + R) / (2 * μ) := hce
      _ = R / μ := by field_simp; ring
  · rw [abs_div, abs_of_pos h2, div_le_iff₀ h2]
    calc _ ≤ M3 / 3 * h ^ 3 := htr
      _ = M3 * h ^ 2 / 6 * (2 * h) := by ring

/-- interior accelerations, `1 ≤ j ≤ nt − 2` (`j = i + 1`) -/
theorem newmark_accel_converges_scalar (m b k T M3 M4 : ℝ) (hm : 0 < m) (hb : 0 ≤ b) (hk : 0 ≤ k)
    (u u1 u2 u3 u4 f : ℝ → ℝ)
    (hu : ∀ t, HasDerivAt u (u1 t) t) (hu1 : ∀ t, HasDerivAt u1 (u2 t) t)
    (hu2 : ∀ t, HasDerivAt u2 (u3 t) t) (hu3 : ∀ t, HasDerivAt u3 (u4 t) t)
    (hM3 : ∀ t ∈ Icc 0 T, |u3 t| ≤ M3) (hM4 : ∀ t ∈ Icc 0 T, |u4 t| ≤ M4)
    (hode : ∀ t ∈ Icc 0 T, m * u2 t + b * u1 t + k * u t = f t)
    (h : ℝ) (n : ℕ) (hh : 0 < h) (hnT : ((n : ℝ) + 1) * h ≤ T) :
    ∃ hist, run (scalarSys m b k h) (fun _ _ => 0) ((List.range (n + 2)).map fun j : ℕ => f ((j : ℝ) * h))
        (u 0) (u1 0) = some hist ∧
      ∀ i, i < n → ∃ x, hist.a[i + 1]? = some x ∧
        |x - u2 (((i + 1 : ℕ) : ℝ) * h)|
          ≤ ((5 * m * M4 / 12 + b * M3 / 2) * h ^ 2
              + (if i = 0 then |f 0 - (k * u 0 + b * u1 0)| / 3 else 0)
              + (b + k * T) * (convR m b k T M3 M4 |f 0 - (k * u 0 + b * u1 0)| h / √m)) / m
            + M4 * h ^ 2 / 12 := by
  obtain ⟨hist, hrun, -, -, -, -, -, -, hai, -⟩ := newmark_velocity_is_central_difference
    (scalarSys m b k h) (fun j : ℕ => f (j * h)) (u 0) (u1 0) 0 n
  obtain ⟨hR0, hEn, hsz, hrec, hg⟩ := scalar_error_energy m b k T M3 M4 hm hb hk u u1 u2 u3 u4 f hu hu1
    hu2 hu3 hM3 hM4 hode h n hh hnT
  refine ⟨hist, hrun, fun i hi => ⟨_, hai i hi, ?_⟩⟩
  set R := convR m b k T M3 M4 |f 0 - (k * u 0 + b * u1 0)| h with hR
  set μ := √m with hμd
  have hμ : 0 < μ := Real.sqrt_pos.mpr hm
  have hmμ : m = μ ^ 2 := (Real.sq_sqrt hm.le).symm
  set t := ((i + 1 : ℕ) : ℝ) * h with ht
  have tp : t + h = ((i + 2 : ℕ) : ℝ) * h := by rw [ht]; push_cast; ring
  have tm : t - h = ((i : ℕ) : ℝ) * h := by rw [ht]; push_cast; ring
  have hi0 : (0 : ℝ) ≤ i := Nat.cast_nonneg i
  have hiT : ((i : ℝ) + 2) * h ≤ T := by
    have : (i : ℝ) + 2 ≤ n + 1 := by exact_mod_cast (by omega : i + 2 ≤ n + 1)
    nlinarith
  have hT : 0 ≤ T := le_trans (by positivity) hiT
  have sub : ∀ s ∈ Icc (t - h) (t + h), s ∈ Icc 0 T := by
    intro s hs
    rw [tm] at hs; rw [tp] at hs
    refine ⟨le_trans (by positivity) hs.1, le_trans hs.2 ?_⟩
    push_cast; linarith
  have htr := second_diff_taylor_le u u1 u2 u3 u4 hu hu1 hu2 hu3 t h M4 hh.le (fun s hs => hM4 s (sub s hs))
  have hce := centered_err_le m k h μ R R (errSeq m b k h u u1 f (i + 2)) (errSeq m b k h u u1 f (i + 1))
    (errSeq m b k h u u1 f i) hμ hmμ hk hh hR0 hR0 (hEn (i + 1) (by omega)) (hEn i (by omega))
  have hce' : |(errSeq m b k h u u1 f (i + 2) - errSeq m b k h u u1 f i) / (2 * h)| ≤ R / μ := by
    calc _ ≤ (R + R) / (2 * μ) := hce
      _ = R / μ := by field_simp; ring
  have hsd := second_diff_err_le m b k h (errForce m b k h u u1 f i) (errSeq m b k h u u1 f (i + 2))
    (errSeq m b k h u u1 f (i + 1)) (errSeq m b k h u u1 f i) (R / μ) (T / μ * R) hm hb hk hh (hrec i) hce'
    (hsz (i + 2) (by omega)) (hsz (i + 1) (by omega)) (hsz i (by omega))
  have hh2 : (0 : ℝ) < h ^ 2 := by positivity
  have key : ∀ D2 D1 D0 U2 U1 U0 w : ℝ, (D2 - 2 * D1 + D0) / (h * h) - w
      = ((D2 - U2) - 2 * (D1 - U1) + (D0 - U0)) / h ^ 2 + (U2 - 2 * U1 + U0 - h ^ 2 * w) / h ^ 2 := by
    intros; field_simp; ring
  have e2 : errSeq m b k h u u1 f (i + 2)
      = dseq (scalarSys m b k h) (fun j : ℕ => f (j * h)) (u 0) (u1 0) 0 (i + 2) - u (t + h) := by
    rw [tp]; rfl
  have e1 : errSeq m b k h u u1 f (i + 1)
      = dseq (scalarSys m b k h) (fun j : ℕ => f (j * h)) (u 0) (u1 0) 0 (i + 1) - u t := rfl
  have e0 : errSeq m b k h u u1 f i
      = dseq (scalarSys m b k h) (fun j : ℕ => f (j * h)) (u 0) (u1 0) 0 i - u (t - h) := by
    rw [tm]; rfl
  have hsplit : VecOps.sdiv (dseq (scalarSys m b k h) (fun j : ℕ => f (j * h)) (u 0) (u1 0) 0 (i + 2)
        - VecOps.smul (2 : ℝ) (dseq (scalarSys m b k h) (fun j : ℕ => f (j * h)) (u 0) (u1 0) 0 (i + 1))
        + dseq (scalarSys m b k h) (fun j : ℕ => f (j * h)) (u 0) (u1 0) 0 i)
        ((scalarSys m b k h).h * (scalarSys m b k h).h) - u2 t
      = (errSeq m b k h u u1 f (i + 2) - 2 * errSeq m b k h u u1 f (i + 1) + errSeq m b k h u u1 f i) / h ^ 2
        + (u (t + h) - 2 * u t + u (t - h) - h ^ 2 * u2 t) / h ^ 2 := by
    rw [e2, e1, e0]
    exact key _ _ _ _ _ _ _
  rw [hsplit]
  refine le_trans (abs_add_le _ _) (add_le_add ?_ ?_)
  · refine le_trans hsd (div_le_div_of_nonneg_right ?_ hm.le)
    have := hg i hi
    have e : k * (T / μ * R) = k * T * (R / μ) := by ring
    rw [e]
    nlinarith
  · rw [abs_div, abs_of_pos hh2, div_le_iff₀ hh2]
    calc _ ≤ M4 / 12 * h ^ 4 := htr
      _ = M4 * h ^ 2 / 12 * h ^ 2 := by ring

/-- the first returned acceleration `a_0 = (d_1 − 2 d_0 + u₋₁)/h²` -/
theorem newmark_initial_accel_error_scalar (m b k h M3 : ℝ) (u u1 u2 u3 f : ℝ → ℝ) (hm : 0 < m) (hb : 0 ≤ b)
    (hk : 0 ≤ k) (hh : 0 < h)
    (hu : ∀ t, HasDerivAt u (u1 t) t) (hu1 : ∀ t, HasDerivAt u1 (u2 t) t)
    (hu2 : ∀ t, HasDerivAt u2 (u3 t) t) (hM3 : ∀ s ∈ Icc 0 h, |u3 s| ≤ M3)
    (hode : m * u2 h + b * u1 h + k * u h = f h) (n : ℕ) :
    ∃ hist, run (scalarSys m b k h) (fun _ _ => 0) ((List.range (n + 2)).map fun j : ℕ => f ((j : ℝ) * h))
        (u 0) (u1 0) = some hist ∧ ∃ x, hist.a[0]? = some x ∧
      |x - u2 0| ≤ |u2 0| * (1 / 2 + |b * h / 12 - m / 6| / m)
        + (2 / 3 * M3 * h + b * M3 * h ^ 2 / (4 * m)) := by
  obtain ⟨hist, hrun, -, -, -, -, -, ha0, -, -⟩ := newmark_velocity_is_central_difference
    (scalarSys m b k h) (fun j : ℕ => f (j * h)) (u 0) (u1 0) 0 n
  refine ⟨hist, hrun, _, ha0, ?_⟩
  have hs := startup_error_abs_le m b k h M3 u u1 u2 u3 f hm hb hk hh hu hu1 hu2 hM3 hode
  have hM3' : ∀ s ∈ Icc (0 : ℝ) (0 + h), |u3 s| ≤ M3 := by simpa using hM3
  obtain ⟨-, -, t3⟩ := forward_taylor_le u u1 u2 u3 hu hu1 hu2 0 h M3 hh.le hM3'
  simp only [zero_add] at t3
  set e1 := dseq (scalarSys m b k h) (fun j : ℕ => f (j * h)) (u 0) (u1 0) 0 1 - u h with he1
  set R3 := u h - u 0 - h * u1 0 - h ^ 2 / 2 * u2 0 with hR3
  have hh2 : (0 : ℝ) < h ^ 2 := by positivity
  have key : ∀ D1 U0 V0 U1 w : ℝ, (D1 - 2 * U0 + (U0 - h * V0)) / (h * h) - w
      = (D1 - U1) / h ^ 2 + (U1 - U0 - h * V0 - h ^ 2 / 2 * w) / h ^ 2 - w / 2 := by
    intros; field_simp; ring
  have hsplit : VecOps.sdiv (dseq (scalarSys m b k h) (fun j : ℕ => f (j * h)) (u 0) (u1 0) 0 1
        - VecOps.smul (2 : ℝ) (u 0) + uM1 (scalarSys m b k h) (u 0) (u1 0))
        ((scalarSys m b k h).h * (scalarSys m b k h).h) - u2 0
      = e1 / h ^ 2 + R3 / h ^ 2 - u2 0 / 2 := key _ _ _ _ _
  rw [hsplit]
  have c1 : |e1 / h ^ 2| ≤ (|u2 0| * |b * h / 12 - m / 6| + m * M3 * h / 2 + b * M3 * h ^ 2 / 4) / m := by
    rw [abs_div, abs_of_pos hh2, div_le_iff₀ hh2]
    calc |e1| ≤ h ^ 2 / m * (|u2 0| * |b * h / 12 - m / 6| + m * M3 * h / 2 + b * M3 * h ^ 2 / 4) := hs
      _ = _ := by ring
  have c2 : |R3 / h ^ 2| ≤ M3 * h / 6 := by
    rw [abs_div, abs_of_pos hh2, div_le_iff₀ hh2]
    calc _ ≤ M3 / 6 * h ^ 3 := t3
      _ = M3 * h / 6 * h ^ 2 := by ring
  have c3 : |u2 0 / 2| = |u2 0| / 2 := by rw [abs_div, abs_of_pos (by norm_num : (0 : ℝ) < 2)]
  have tri : |e1 / h ^ 2 + R3 / h ^ 2 - u2 0 / 2| ≤ |e1 / h ^ 2| + |R3 / h ^ 2| + |u2 0 / 2| :=
    le_trans (abs_sub _ _) (add_le_add (abs_add_le _ _) (le_refl _))
  have e : (|u2 0| * |b * h / 12 - m / 6| + m * M3 * h / 2 + b * M3 * h ^ 2 / 4) / m
      = |u2 0| * (|b * h / 12 - m / 6| / m) + M3 * h / 2 + b * M3 * h ^ 2 / (4 * m) := by
    field_simp
  rw [e] at c1
  rw [c3] at tri
  linarith

/-- balanced start (`F(0) = K u₀ + B v₀`, i.e. `u''(0) = 0`): the initial acceleration is FIRST order accurate -/
theorem newmark_initial_accel_first_order (m b k h M3 : ℝ) (u u1 u2 u3 f : ℝ → ℝ) (hm : 0 < m) (hb : 0 ≤ b)
    (hk : 0 ≤ k) (hh : 0 < h)
    (hu : ∀ t, HasDerivAt u (u1 t) t) (hu1 : ∀ t, HasDerivAt u1 (u2 t) t)
    (hu2 : ∀ t, HasDerivAt u2 (u3 t) t) (hM3 : ∀ s ∈ Icc 0 h, |u3 s| ≤ M3)
    (hode : m * u2 h + b * u1 h + k * u h = f h) (hode0 : m * u2 0 + b * u1 0 + k * u 0 = f 0)
    (hbal : f 0 = k * u 0 + b * u1 0) (n : ℕ) :
    ∃ hist, run (scalarSys m b k h) (fun _ _ => 0) ((List.range (n + 2)).map fun j : ℕ => f ((j : ℝ) * h))
        (u 0) (u1 0) = some hist ∧ ∃ x, hist.a[0]? = some x ∧
      |x - u2 0| ≤ (2 / 3 * M3 + b * M3 * h / (4 * m)) * h := by
  obtain ⟨hist, hrun, x, hx, hb'⟩ := newmark_initial_accel_error_scalar m b k h M3 u u1 u2 u3 f hm hb hk hh
    hu hu1 hu2 hM3 hode n
  refine ⟨hist, hrun, x, hx, ?_⟩
  have hz : u2 0 = 0 := by
    have : m * u2 0 = 0 := by linarith
    rcases mul_eq_zero.mp this with h1 | h1
    · exact absurd h1 hm.ne'
    · exact h1
  rw [hz, abs_zero, zero_mul, zero_add] at hb'
  rw [hz]
  calc _ ≤ 2 / 3 * M3 * h + b * M3 * h ^ 2 / (4 * m) := hb'
    _ = _ := by field_simp

/-- the initial acceleration on a quadratic solution `u = c₀ + c₁ t + c₂ t²` (`u''(0) = 2 c₂`), exactly:
`A h² (a_0 − u''(0)) = −c₂ (4 m + b h + k h²)/3`; hence `a_0 ≠ u''(0)` unless `c₂ = 0`, and `a_0 → u''(0)/3` as
`h → 0` when the start-up is unbalanced. -/
theorem newmark_initial_accel_defect {α : Type} [Field α] [CharZero α] (m b k h c0 c1 c2 : α) (hh : h ≠ 0)
    (hA : coefA m b k h ≠ 0) :
    coefA m b k h * (h * h) *
        (VecOps.sdiv ((start (scalarSys m b k h) (fun _ _ => 0) (quadForce m b k c0 c1 c2 h) c0 c1).u1
            - VecOps.smul (2 : α) c0 + uM1 (scalarSys m b k h) c0 c1)
          ((scalarSys m b k h).h * (scalarSys m b k h).h) - 2 * c2)
      = -(c2 * (4 * m + b * h + k * h ^ 2) / 3) := by
  have key := newmark_startup_defect m b k h c0 c1 c2 hh hA
  generalize (start (scalarSys m b k h) (fun _ _ => 0) (quadForce m b k c0 c1 c2 h) c0 c1).u1 = d1 at key ⊢
  have hS : (scalarSys m b k h).h = h := rfl
  simp only [VecOps.sdiv, VecOps.smul, uM1, hS]
  have h1 : coefA m b k h * (h * h) * ((d1 - 2 * c0 + (c0 - h * c1)) / (h * h) - 2 * c2)
      = coefA m b k h * d1 - coefA m b k h * (c0 + h * c1) - coefA m b k h * (h * h) * (2 * c2) := by
    field_simp
    ring
  have k2 : coefA m b k h * d1 = coefA m b k h * quad c0 c1 c2 h + c2 * (b * h / 6 - m / 3) := by
    linear_combination key
  rw [h1, k2]
  simp only [coefA, quad]
  field_simp
  ring

/-- the end point `j = nt − 1`: velocity and acceleration computed with the extrapolated displacement `De` -/
theorem newmark_last_step_converges_scalar (m b k T M3 M4 MF : ℝ) (hm : 0 < m) (hb : 0 ≤ b) (hk : 0 ≤ k)
    (u u1 u2 u3 u4 f f1 f2 : ℝ → ℝ)
    (hu : ∀ t, HasDerivAt u (u1 t) t) (hu1 : ∀ t, HasDerivAt u1 (u2 t) t)
    (hu2 : ∀ t, HasDerivAt u2 (u3 t) t) (hu3 : ∀ t, HasDerivAt u3 (u4 t) t)
    (hf : ∀ t, HasDerivAt f (f1 t) t) (hf1 : ∀ t, HasDerivAt f1 (f2 t) t)
    (hM3 : ∀ t ∈ Icc 0 T, |u3 t| ≤ M3) (hM4 : ∀ t ∈ Icc 0 T, |u4 t| ≤ M4)
    (hMF : ∀ t ∈ Icc 0 T, |f2 t| ≤ MF)
    (hode : ∀ t ∈ Icc 0 T, m * u2 t + b * u1 t + k * u t = f t)
    (h : ℝ) (n : ℕ) (hh : 0 < h) (hnT : ((n : ℝ) + 2) * h ≤ T) :
    ∃ hist, run (scalarSys m b k h) (fun _ _ => 0) ((List.range (n + 2)).map fun j : ℕ => f ((j : ℝ) * h))
        (u 0) (u1 0) = some hist ∧
      ∃ xv xa, hist.v[n + 1]? = some xv ∧ hist.a[n + 1]? = some xa ∧
        |xv - u1 (((n + 1 : ℕ) : ℝ) * h)|
          ≤ (convR m b k T M3 M4 |f 0 - (k * u 0 + b * u1 0)| h
                + h * ((5 * m * M4 / 12 + b * M3 / 2 + MF / 3) * h ^ 2) / √m
              + convR m b k T M3 M4 |f 0 - (k * u 0 + b * u1 0)| h) / (2 * √m) + M3 * h ^ 2 / 6 ∧
        |xa - u2 (((n + 1 : ℕ) : ℝ) * h)|
          ≤ ((5 * m * M4 / 12 + b * M3 / 2 + MF / 3) * h ^ 2
              + b * ((convR m b k T M3 M4 |f 0 - (k * u 0 + b * u1 0)| h
                  + h * ((5 * m * M4 / 12 + b * M3 / 2 + MF / 3) * h ^ 2) / √m
                  + convR m b k T M3 M4 |f 0 - (k * u 0 + b * u1 0)| h) / (2 * √m))
              + k * (T / √m * convR m b k T M3 M4 |f 0 - (k * u 0 + b * u1 0)| h
                  + h / √m * (convR m b k T M3 M4 |f 0 - (k * u 0 + b * u1 0)| h
                    + h * ((5 * m * M4 / 12 + b * M3 / 2 + MF / 3) * h ^ 2) / √m))) / m
            + M4 * h ^ 2 / 12 := by
  have hn0 : (0 : ℝ) ≤ n := Nat.cast_nonneg n
  have hnT1 : ((n : ℝ) + 1) * h ≤ T := by nlinarith
  obtain ⟨hist, hrun, -, hde, -, -, hvl, -, -, hal⟩ := newmark_velocity_is_central_difference
    (scalarSys m b k h) (fun j : ℕ => f (j * h)) (u 0) (u1 0) 0 n
  obtain ⟨hR0, hEn, hsz, -, -⟩ := scalar_error_energy m b k T M3 M4 hm hb hk u u1 u2 u3 u4 f hu hu1
    hu2 hu3 hM3 hM4 hode h n hh hnT1
  rw [hde] at hvl hal
  refine ⟨hist, hrun, _, _, hvl, hal, ?_⟩
  set R := convR m b k T M3 M4 |f 0 - (k * u 0 + b * u1 0)| h with hR
  set μ := √m with hμd
  have hμ : 0 < μ := Real.sqrt_pos.mpr hm
  have hmμ : m = μ ^ 2 := (Real.sq_sqrt hm.le).symm
  have hApos : 0 < coefA m b k h := by
    simp only [coefA]
    have : 0 < m / (h * h) := by positivity
    have : 0 ≤ b / (2 * h) := by positivity
    have : 0 ≤ k / 3 := by positivity
    linarith
  set t := ((n + 1 : ℕ) : ℝ) * h with ht
  have tp : t + h = ((n + 2 : ℕ) : ℝ) * h := by rw [ht]; push_cast; ring
  have tm : t - h = ((n : ℕ) : ℝ) * h := by rw [ht]; push_cast; ring
  have sub : ∀ s ∈ Icc (t - h) (t + h), s ∈ Icc 0 T := by
    intro s hs
    rw [tm] at hs; rw [tp] at hs
    refine ⟨le_trans (by positivity) hs.1, le_trans hs.2 ?_⟩
    push_cast; linarith
  have h0T : (0 : ℝ) ∈ Icc 0 T := ⟨le_refl _, le_trans (by positivity) hnT⟩
  have hM3n : 0 ≤ M3 := le_trans (abs_nonneg _) (hM3 0 h0T)
  have hM4n : 0 ≤ M4 := le_trans (abs_nonneg _) (hM4 0 h0T)
  have hMFn : 0 ≤ MF := le_trans (abs_nonneg _) (hMF 0 h0T)
  set Cg := 5 * m * M4 / 12 + b * M3 / 2 + MF / 3 with hCg
  have hCg0 : 0 ≤ Cg := by positivity
  -- forcing of the last error equation
  have htrunc := trunc_abs_le m b k h M3 M4 u u1 u2 u3 u4 f t hm.le hb hh hu hu1 hu2 hu3
    (fun s hs => hM3 s (sub s hs)) (fun s hs => hM4 s (sub s hs)) (fun s hs => hode s (sub s hs))
  have hfd := second_diff_le f f1 f2 hf hf1 t h MF hh.le (fun s hs => hMF s (sub s hs))
  have hgL : |errForceLast m b k h u f n| ≤ Cg * h ^ 2 := by
    unfold errForceLast
    rw [← ht]
    refine le_trans (abs_sub _ _) ?_
    rw [abs_neg, abs_div, abs_of_pos (by norm_num : (0 : ℝ) < 3)]
    have : |f (t + h) - 2 * f t + f (t - h)| / 3 ≤ MF * h ^ 2 / 3 :=
      div_le_div_of_nonneg_right hfd (by norm_num)
    rw [hCg]
    linarith
  set eL := errLast m b k h u u1 f n with heL
  set e1 := errSeq m b k h u u1 f (n + 1) with he1
  set e0 := errSeq m b k h u u1 f n with he0
  have hrecL := last_error_rec m b k h u u1 f hApos.ne' n
  rw [← heL, ← he1, ← he0] at hrecL
  set R' := R + h * (Cg * h ^ 2) / μ with hR'
  have hR'0 : 0 ≤ R' := by positivity
  have hEL : energy m k h eL e1 ≤ R' ^ 2 := by
    have := energy_step_le m b k h _ eL e1 e0 μ R hμ hmμ hb hk hh hR0 hrecL (hEn n (le_refl _))
    refine le_trans this (pow_le_pow_left₀ (by positivity) ?_ 2)
    rw [hR']
    have : h * |errForceLast m b k h u f n| / μ ≤ h * (Cg * h ^ 2) / μ :=
      div_le_div_of_nonneg_right (mul_le_mul_of_nonneg_left hgL hh.le) hμ.le
    linarith
  have hE1 := hEn n (le_refl _)
  rw [← he1, ← he0] at hE1
  have hce := centered_err_le m k h μ R' R eL e1 e0 hμ hmμ hk hh hR'0 hR0 hEL hE1
  have hdL := diff_le_of_energy m k h μ R' eL e1 hμ hmμ hk hh hR'0 hEL
  have hs1 : |e1| ≤ T / μ * R := hsz (n + 1) (le_refl _)
  have hs0 : |e0| ≤ T / μ * R := hsz n (by omega)
  have hhR' : 0 ≤ h / μ * R' := by positivity
  have hsL : |eL| ≤ T / μ * R + h / μ * R' := by
    have : eL = e1 + (eL - e1) := by ring
    rw [this]
    exact le_trans (abs_add_le _ _) (add_le_add hs1 hdL)
  have hsd := second_diff_err_le m b k h _ eL e1 e0 ((R' + R) / (2 * μ)) (T / μ * R + h / μ * R') hm hb hk hh
    hrecL hce hsL (by linarith) (by linarith)
  have htv := centered_diff_le u u1 u2 u3 hu hu1 hu2 t h M3 hh.le (fun s hs => hM3 s (sub s hs))
  have hta := second_diff_taylor_le u u1 u2 u3 u4 hu hu1 hu2 hu3 t h M4 hh.le (fun s hs => hM4 s (sub s hs))
  have h2 : (0 : ℝ) < 2 * h := by positivity
  have hh2 : (0 : ℝ) < h ^ 2 := by positivity
  have eLd : eL = lastStep (scalarSys m b k h) (fun _ _ => 0)
      (stateAt (scalarSys m b k h) (fun j : ℕ => f (j * h)) (u 0) (u1 0) 0 n) - u (t + h) := by
    rw [tp]; rfl
  have e1d : e1 = dseq (scalarSys m b k h) (fun j : ℕ => f (j * h)) (u 0) (u1 0) 0 (n + 1) - u t := rfl
  have e0d : e0 = dseq (scalarSys m b k h) (fun j : ℕ => f (j * h)) (u 0) (u1 0) 0 n - u (t - h) := by
    rw [tm]; rfl
  refine ⟨?_, ?_⟩
  · have key : ∀ D2 D0 U2 U0 w : ℝ, (D2 - D0) / (2 * h) - w
        = ((D2 - U2) - (D0 - U0)) / (2 * h) + (U2 - U0 - 2 * h * w) / (2 * h) := by
      intros; field_simp; ring
    have hsplit : VecOps.sdiv (lastStep (scalarSys m b k h) (fun _ _ => 0)
          (stateAt (scalarSys m b k h) (fun j : ℕ => f (j * h)) (u 0) (u1 0) 0 n)
          - dseq (scalarSys m b k h) (fun j : ℕ => f (j * h)) (u 0) (u1 0) 0 n)
          ((2 : ℝ) * (scalarSys m b k h).h) - u1 t
        = (eL - e0) / (2 * h) + (u (t + h) - u (t - h) - 2 * h * u1 t) / (2 * h) := by
      rw [eLd, e0d]
      exact key _ _ _ _ _
    rw [hsplit]
    refine le_trans (abs_add_le _ _) (add_le_add hce ?_)
    rw [abs_div, abs_of_pos h2, div_le_iff₀ h2]
    calc _ ≤ M3 / 3 * h ^ 3 := htv
      _ = M3 * h ^ 2 / 6 * (2 * h) := by ring
  · have key : ∀ D2 D1 D0 U2 U1 U0 w : ℝ, (D2 - 2 * D1 + D0) / (h * h) - w
        = ((D2 - U2) - 2 * (D1 - U1) + (D0 - U0)) / h ^ 2 + (U2 - 2 * U1 + U0 - h ^ 2 * w) / h ^ 2 := by
      intros; field_simp; ring
    have hsplit : VecOps.sdiv (lastStep (scalarSys m b k h) (fun _ _ => 0)
          (stateAt (scalarSys m b k h) (fun j : ℕ => f (j * h)) (u 0) (u1 0) 0 n)
          - VecOps.smul (2 : ℝ) (dseq (scalarSys m b k h) (fun j : ℕ => f (j * h)) (u 0) (u1 0) 0 (n + 1))
          + dseq (scalarSys m b k h) (fun j : ℕ => f (j * h)) (u 0) (u1 0) 0 n)
          ((scalarSys m b k h).h * (scalarSys m b k h).h) - u2 t
        = (eL - 2 * e1 + e0) / h ^ 2 + (u (t + h) - 2 * u t + u (t - h) - h ^ 2 * u2 t) / h ^ 2 := by
      rw [eLd, e1d, e0d]
      exact key _ _ _ _ _ _ _
    rw [hsplit]
    refine le_trans (abs_add_le _ _) (add_le_add ?_ ?_)
    · refine le_trans hsd (div_le_div_of_nonneg_right ?_ hm.le)
      linarith
    · rw [abs_div, abs_of_pos hh2, div_le_iff₀ hh2]
      calc _ ≤ M4 / 12 * h ^ 4 := hta
        _ = M4 * h ^ 2 / 12 * h ^ 2 := by ring

/-! ## non-vacuity -/

/-- the hypotheses of the velocity / acceleration theorems are those of `newmark_converges_scalar` (inhabited
there); the force chain of `newmark_last_step_converges_scalar` is inhabited by `f(t) = t` (`u = t`, `m = k = 1`,
`b = 0`): `f' = 1`, `f'' = 0`, `M_F = 0` -/
example : (∀ t : ℝ, HasDerivAt (fun t : ℝ => t) ((fun _ => (1 : ℝ)) t) t) ∧
    (∀ t : ℝ, HasDerivAt (fun _ : ℝ => (1 : ℝ)) ((fun _ => (0 : ℝ)) t) t) ∧
    (∀ t ∈ Icc (0 : ℝ) 1, |(fun _ : ℝ => (0 : ℝ)) t| ≤ 0) :=
  ⟨fun t => hasDerivAt_id t, fun t => hasDerivAt_const t 1, fun t _ => by simp⟩

/-- `newmark_initial_accel_defect`: `m = 1, b = 1/5, k = 4, h = 1/10` has `A ≠ 0`, and with `c₂ = 1` the right-hand
side `−c₂ (4m + b h + k h²)/3` is not zero: the first acceleration really differs from `u''(0)` -/
example : coefA (1 : ℚ) (1 / 5) 4 (1 / 10) ≠ 0 ∧
    -((1 : ℚ) * (4 * 1 + 1 / 5 * (1 / 10) + 4 * (1 / 10) ^ 2) / 3) ≠ 0 := by
  refine ⟨?_, by norm_num⟩
  simp only [coefA]; norm_num

end PyYetiVerif.C17
