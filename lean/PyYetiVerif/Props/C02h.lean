import PyYetiVerif.Props.C02g
import PyYetiVerif.Props.C02i
import PyYetiVerif.Props.C02j
import PyYetiVerif.Lemmas.FreqWitness
/-!
# C02 — non-vacuity of `colSU_solves` / `colFD_solves`

The theorems of `C02f` are instantiated, hypotheses and all, on the concrete systems of
`Lemmas/FreqWitness.lean` over the field `ZMod 5` (`i = 2`): the layout and the constructor state
are what `mkLayout` / `suInit` compute, `colSU` / `colFD` return a column, and that column satisfies
the conclusion.  Both `SolveUnc` paths (real uncoupled; `get_su_eig` with LU solves, `imrb` and
complex modes) and both `FreqDirect` branches are covered.
-/
set_option linter.unusedSimpArgs false
set_option linter.unusedVariables false
namespace PyYetiVerif.C02
open PyYetiVerif.Freq PyYetiVerif.Freq.Witness Matrix

example : mkLayout 3 [2] none (fun j => j == 0) = some lay ∧
    suInit lay (!true) envUnc.mNone = some stUnc ∧ suInit lay (!false) envCoup.mNone = some stCoup := by
  refine ⟨?_, ?_, ?_⟩ <;> decide

/-- `SolveUnc`, real uncoupled path -/
example : ∃ sol, colSU envUnc stUnc true none (fun _ => 1) 1 = .ok sol ∧
    sol.map (fun x => (x.d, x.v, x.a)) = [(4, 3, 1), (2, 4, 3), (2, 4, 3)] ∧
    ∀ r, r < 3 →
      ((List.range 3).map fun c =>
        partStiff envUnc.i 1 envUnc.M envUnc.rbDamping envUnc.B envUnc.K lay.rb lay.el lay.rf r c *
          (rowOf sol c).d).sum = (fun _ => 1) r ∧
      (rowOf sol r).v = envUnc.i * 1 * (rowOf sol r).d ∧
      (rowOf sol r).a = -(1 * 1) * (rowOf sol r).d := by
  have hres : (match colSU envUnc stUnc true none (fun _ => 1) 1 with
      | .ok sol => sol.map fun x => (x.d, x.v, x.a)
      | .error _ => []) = [(4, 3, 1), (2, 4, 3), (2, 4, 3)] := by decide +kernel
  cases h : colSU envUnc stUnc true none (fun _ => 1) 1 with
  | error m => rw [h] at hres; cases hres
  | ok sol =>
    rw [h] at hres
    refine ⟨sol, rfl, hres, ?_⟩
    exact colSU_solves envUnc (fun x => by simp [envUnc]) lay (by decide) (by decide) (by decide) true
      (fun _ => rfl) stUnc (by decide) none (fun _ => 1) 1 one_ne_zero (by decide) rfl rfl
      (fun h => by cases h)
      (fun _ => ⟨fun r c hne => by simp [envUnc, hne], by decide, by decide, by decide, by decide⟩)
      (fun h => by cases h) sol h

/-- `SolveUnc`, uncoupled with a **damped rigid-body mode** (`envUncD`), on the real path
(`b[_rb]`, `invm[_rb]`) and on the complex-coefficient path (`brb`, `imrb` after `get_su_eig`): the
rigid-body row is `d = f / (−Ω² m + iΩ b) = 1`, `v = iΩ d = 2`, `a = −Ω² d = 4` — not the undamped
`(4, 3, 1)` of the previous example — and the column satisfies the full-size equation whose
rigid-body block carries the damping. -/
example : ∀ uncReal : Bool, ∃ sol,
    colSU envUncD (if uncReal then stUnc else stCoup) uncReal none (fun _ => 1) 1 = .ok sol ∧
    sol.map (fun x => (x.d, x.v, x.a)) = [(1, 2, 4), (2, 4, 3), (2, 4, 3)] ∧
    ∀ r, r < 3 →
      ((List.range 3).map fun c =>
        partStiff envUncD.i 1 envUncD.M envUncD.rbDamping envUncD.B envUncD.K lay.rb lay.el lay.rf r c *
          (rowOf sol c).d).sum = (fun _ => 1) r ∧
      (rowOf sol r).v = envUncD.i * 1 * (rowOf sol r).d ∧
      (rowOf sol r).a = -(1 * 1) * (rowOf sol r).d := by
  intro uncReal
  have hz : ∀ x, envUncD.isZero x = true ↔ x = 0 := fun x => by simp [envUncD, envUnc]
  have hunc : envUncD.unc = true → (∀ r c, r ≠ c → envUncD.M r c = 0 ∧ envUncD.B r c = 0 ∧ envUncD.K r c = 0) ∧
      (∀ r ∈ lay.rf, envUncD.K r r ≠ 0) ∧ (∀ r ∈ lay.rb, envUncD.M r r ≠ 0) ∧
      (∀ r ∈ lay.rb, -((1 : ZMod 5) * 1) * envUncD.M r r + envUncD.i * 1 * envUncD.B r r ≠ 0) ∧
      ∀ r ∈ lay.el, envUncD.i * (envUncD.B r r * 1) + envUncD.K r r - envUncD.M r r * (1 * 1) ≠ 0 :=
    fun _ => ⟨fun r c hne => by simp [envUncD, envUnc, hne], by decide, by decide, by decide, by decide⟩
  cases uncReal with
  | true =>
    have hres : (match colSU envUncD stUnc true none (fun _ => 1) 1 with
        | .ok sol => sol.map fun x => (x.d, x.v, x.a)
        | .error _ => []) = [(1, 2, 4), (2, 4, 3), (2, 4, 3)] := by decide +kernel
    cases h : colSU envUncD stUnc true none (fun _ => 1) 1 with
    | error m => rw [h] at hres; cases hres
    | ok sol =>
      rw [h] at hres
      refine ⟨sol, h, hres, ?_⟩
      exact colSU_solves envUncD hz lay (by decide) (by decide) (by decide) true
        (fun _ => rfl) stUnc (by decide) none (fun _ => 1) 1 one_ne_zero (by decide) rfl rfl
        (fun h => by cases h) hunc (fun h => by cases h) sol h
  | false =>
    have hres : (match colSU envUncD stCoup false none (fun _ => 1) 1 with
        | .ok sol => sol.map fun x => (x.d, x.v, x.a)
        | .error _ => []) = [(1, 2, 4), (2, 4, 3), (2, 4, 3)] := by decide +kernel
    cases h : colSU envUncD stCoup false none (fun _ => 1) 1 with
    | error m => rw [h] at hres; cases hres
    | ok sol =>
      rw [h] at hres
      refine ⟨sol, h, hres, ?_⟩
      exact colSU_solves envUncD hz lay (by decide) (by decide) (by decide) false
        (fun h => by cases h) stCoup (by decide) none (fun _ => 1) 1 one_ne_zero (by decide) rfl rfl
        (fun h => by cases h) hunc (fun h => by cases h) sol h

/-- `SolveUnc`, `get_su_eig` path: LU solves for rf and rb (`imrb`), complex modes for el -/
example : ∃ sol, colSU envCoup stCoup false (some eig) (fun _ => 1) 2 = .ok sol ∧
    ∀ r, r < 3 →
      ((List.range 3).map fun c =>
        partStiff envCoup.i 2 envCoup.M envCoup.rbDamping envCoup.B envCoup.K lay.rb lay.el lay.rf r c *
          (rowOf sol c).d).sum = (fun _ => 1) r ∧
      (rowOf sol r).v = envCoup.i * 2 * (rowOf sol r).d ∧
      (rowOf sol r).a = -(2 * 2) * (rowOf sol r).d := by
  have hres : (match colSU envCoup stCoup false (some eig) (fun _ => 1) 2 with
      | .ok sol => sol.length
      | .error _ => 0) = 3 := by decide +kernel
  cases h : colSU envCoup stCoup false (some eig) (fun _ => 1) 2 with
  | error m => rw [h] at hres; cases hres
  | ok sol =>
    refine ⟨sol, rfl, ?_⟩
    exact colSU_solves envCoup (fun x => by simp [envCoup]) lay (by decide) (by decide) (by decide)
      false (fun h => by cases h) stCoup (by decide) (some eig) (fun _ => 1) 2 (by decide) (by decide)
      rfl rfl (fun h => by cases h) (fun h => by cases h)
      (fun _ ed hed => by
        cases hed
        exact ⟨fun _ => ![2, 3], by decide, by decide, by decide, by decide, by decide⟩) sol h

/-- `colSU_zero_freq` on the system with the damped rigid-body mode, both constructor paths: at `Ω = 0`
the rigid-body row holds `d = v = 0`, `a = f/m = 1`, the elastic and residual-flexibility rows the
static solution `3 = 1/2`, `2 = 1/3` with `v = a = 0` -/
example : ∀ uncReal : Bool, ∃ sol,
    colSU envUncD (if uncReal then stUnc else stCoup) uncReal none (fun _ => 1) 0 = .ok sol ∧
    sol.map (fun x => (x.d, x.v, x.a)) = [(0, 0, 1), (3, 0, 0), (2, 0, 0)] ∧
    (∀ r, r < 3 → r ∉ lay.rb →
      ((List.range 3).map fun c =>
        partStiff envUncD.i 0 envUncD.M envUncD.rbDamping envUncD.B envUncD.K lay.rb lay.el lay.rf r c *
          (rowOf sol c).d).sum = (fun _ => 1) r ∧ (rowOf sol r).v = 0 ∧ (rowOf sol r).a = 0) := by
  intro uncReal
  have hz : ∀ x, envUncD.isZero x = true ↔ x = 0 := fun x => by simp [envUncD, envUnc]
  have hunc : envUncD.unc = true → (∀ r c, r ≠ c → envUncD.M r c = 0 ∧ envUncD.B r c = 0 ∧ envUncD.K r c = 0) ∧
      (∀ r ∈ lay.rf, envUncD.K r r ≠ 0) ∧ (∀ r ∈ lay.rb, envUncD.M r r ≠ 0) ∧
      ∀ r ∈ lay.el, envUncD.i * (envUncD.B r r * 0) + envUncD.K r r - envUncD.M r r * (0 * 0) ≠ 0 :=
    fun _ => ⟨fun r c hne => by simp [envUncD, envUnc, hne], by decide, by decide, by decide⟩
  cases uncReal with
  | true =>
    have hres : (match colSU envUncD stUnc true none (fun _ => 1) 0 with
        | .ok sol => sol.map fun x => (x.d, x.v, x.a)
        | .error _ => []) = [(0, 0, 1), (3, 0, 0), (2, 0, 0)] := by decide +kernel
    cases h : colSU envUncD stUnc true none (fun _ => 1) 0 with
    | error m => rw [h] at hres; cases hres
    | ok sol =>
      rw [h] at hres
      refine ⟨sol, h, hres, ?_⟩
      exact (colSU_zero_freq envUncD hz lay (by decide) (by decide) (by decide) true
        (fun _ => rfl) stUnc (by decide) none (fun _ => 1) (by decide) rfl rfl
        (fun h => by cases h) hunc (fun h => by cases h) sol h).1
  | false =>
    have hres : (match colSU envUncD stCoup false none (fun _ => 1) 0 with
        | .ok sol => sol.map fun x => (x.d, x.v, x.a)
        | .error _ => []) = [(0, 0, 1), (3, 0, 0), (2, 0, 0)] := by decide +kernel
    cases h : colSU envUncD stCoup false none (fun _ => 1) 0 with
    | error m => rw [h] at hres; cases hres
    | ok sol =>
      rw [h] at hres
      refine ⟨sol, h, hres, ?_⟩
      exact (colSU_zero_freq envUncD hz lay (by decide) (by decide) (by decide) false
        (fun h => by cases h) stCoup (by decide) none (fun _ => 1) (by decide) rfl rfl
        (fun h => by cases h) hunc (fun h => by cases h) sol h).1

/-- `colSU_eq_colFD_unc` on the system with the damped rigid-body mode: both solvers return a column
and the two columns are equal row by row -/
example : ∃ solSU solFD, colSU envUncD stUnc true none (fun _ => 1) 1 = .ok solSU ∧
    colFD envUncD lay (fun _ => 1) 1 = .ok solFD ∧ ∀ r, r < 3 → rowOf solSU r = rowOf solFD r := by
  have h1 : (match colSU envUncD stUnc true none (fun _ => 1) 1 with
      | .ok sol => sol.length
      | .error _ => 0) = 3 := by decide +kernel
  have h2 : (match colFD envUncD lay (fun _ => 1) 1 with
      | .ok sol => sol.length
      | .error _ => 0) = 3 := by decide +kernel
  cases hs : colSU envUncD stUnc true none (fun _ => 1) 1 with
  | error m => rw [hs] at h1; cases h1
  | ok solSU =>
    cases hf : colFD envUncD lay (fun _ => 1) 1 with
    | error m => rw [hf] at h2; cases h2
    | ok solFD =>
      refine ⟨solSU, solFD, rfl, rfl, ?_⟩
      exact colSU_eq_colFD_unc envUncD (fun x => by simp [envUncD, envUnc]) lay (by decide) (by decide)
        (by decide) (by decide) (fun r => by simp [lay]) true stUnc (by decide) (fun _ => 1) 1
        one_ne_zero (by decide) rfl rfl (fun h => by cases h) rfl
        (fun r c hne => by simp [envUncD, envUnc, hne]) (by decide) (by decide) (by decide) (by decide)
        solSU solFD hs hf

/-- `FreqDirect`, uncoupled branch and coupled branch (`la.solve` = `gaussList`) -/
example : (∃ sol, colFD envUnc lay (fun _ => 1) 1 = .ok sol ∧
      ∀ r, r < 3 →
        ((List.range 3).map fun c =>
          partStiff envUnc.i 1 envUnc.M envUnc.B envUnc.B envUnc.K [] lay.nonrf lay.rf r c *
            (rowOf sol c).d).sum = (fun _ => 1) r ∧
        (rowOf sol r).v = envUnc.i * 1 * (rowOf sol r).d ∧
        (rowOf sol r).a = -(1 * 1) * (rowOf sol r).d) ∧
    (∃ sol, colFD envCoup lay (fun _ => 1) 2 = .ok sol ∧
      ∀ r, r < 3 →
        ((List.range 3).map fun c =>
          partStiff envCoup.i 2 envCoup.M envCoup.B envCoup.B envCoup.K [] lay.nonrf lay.rf r c *
            (rowOf sol c).d).sum = (fun _ => 1) r ∧
        (rowOf sol r).v = envCoup.i * 2 * (rowOf sol r).d ∧
        (rowOf sol r).a = -(2 * 2) * (rowOf sol r).d) := by
  constructor
  · have hres : (match colFD envUnc lay (fun _ => 1) 1 with
        | .ok sol => sol.length
        | .error _ => 0) = 3 := by decide +kernel
    cases h : colFD envUnc lay (fun _ => 1) 1 with
    | error m => rw [h] at hres; cases hres
    | ok sol =>
      exact ⟨sol, rfl, colFD_solves envUnc (fun x => by simp [envUnc]) lay (by decide) (fun _ => 1) 1
        rfl rfl (fun h => by cases h)
        (fun _ => ⟨fun r c hne => by simp [envUnc, hne], by decide, by decide⟩) sol h⟩
  · have hres : (match colFD envCoup lay (fun _ => 1) 2 with
        | .ok sol => sol.length
        | .error _ => 0) = 3 := by decide +kernel
    cases h : colFD envCoup lay (fun _ => 1) 2 with
    | error m => rw [h] at hres; cases hres
    | ok sol =>
      exact ⟨sol, rfl, colFD_solves envCoup (fun x => by simp [envCoup]) lay (by decide) (fun _ => 1) 2
        rfl rfl (fun h => by cases h) (fun h => by cases h) sol h⟩

/-- the option theorems: `incrb = "v"`, `rf_disp_only = True` on the same systems -/
example : (∃ sol, colSU { envUnc with inc := ⟨false, true, false⟩, dispOnly := true } stUnc true none
        (fun _ => 1) 1 = .ok sol ∧ sol.length = 3 ∧
      sol.map (fun x => (x.d, x.v, x.a)) = [(0, 3, 0), (2, 4, 3), (2, 0, 0)]) ∧
    (∃ sol, colFD { envCoup with inc := ⟨false, true, false⟩, dispOnly := true } lay
        (fun _ => 1) 2 = .ok sol ∧ sol.length = 3) := by
  constructor
  · have href : ∃ solRef, colSU (ColEnv.ref { envUnc with inc := ⟨false, true, false⟩, dispOnly := true })
        stUnc true none (fun _ => 1) 1 = .ok solRef ∧
        solRef.map (fun x => (x.d, x.v, x.a)) = [(4, 3, 1), (2, 4, 3), (2, 4, 3)] := by
      have hres : (match colSU (ColEnv.ref { envUnc with inc := ⟨false, true, false⟩, dispOnly := true })
            stUnc true none (fun _ => 1) 1 with
          | .ok sol => sol.map fun x => (x.d, x.v, x.a)
          | .error _ => []) = [(4, 3, 1), (2, 4, 3), (2, 4, 3)] := by decide +kernel
      cases h : colSU (ColEnv.ref { envUnc with inc := ⟨false, true, false⟩, dispOnly := true })
          stUnc true none (fun _ => 1) 1 with
      | error m => rw [h] at hres; cases hres
      | ok sol => rw [h] at hres; exact ⟨sol, rfl, hres⟩
    obtain ⟨solRef, href, hvals⟩ := href
    obtain ⟨sol, hsol, hlen, hrows⟩ := colSU_options
      { envUnc with inc := ⟨false, true, false⟩, dispOnly := true } lay (by decide) (by decide) (by decide)
      true (fun _ => rfl) stUnc (by decide) none (fun _ => 1) 1 solRef href
    refine ⟨sol, hsol, hlen, ?_⟩
    have hres : (match colSU { envUnc with inc := ⟨false, true, false⟩, dispOnly := true } stUnc true none
          (fun _ => 1) 1 with
        | .ok sol => sol.map fun x => (x.d, x.v, x.a)
        | .error _ => []) = [(0, 3, 0), (2, 4, 3), (2, 0, 0)] := by decide +kernel
    rw [hsol] at hres
    exact hres
  · have href : ∃ solRef, colFD (ColEnv.ref { envCoup with inc := ⟨false, true, false⟩, dispOnly := true })
        lay (fun _ => 1) 2 = .ok solRef := by
      have hres : (match colFD (ColEnv.ref { envCoup with inc := ⟨false, true, false⟩, dispOnly := true })
            lay (fun _ => 1) 2 with
          | .ok sol => sol.length
          | .error _ => 0) = 3 := by decide +kernel
      cases h : colFD (ColEnv.ref { envCoup with inc := ⟨false, true, false⟩, dispOnly := true })
          lay (fun _ => 1) 2 with
      | error m => rw [h] at hres; cases hres
      | ok sol => exact ⟨sol, rfl⟩
    obtain ⟨solRef, href⟩ := href
    obtain ⟨sol, hsol, _⟩ := colFD_options
      { envCoup with inc := ⟨false, true, false⟩, dispOnly := true } lay (by decide) (by decide) (by decide)
      (fun _ => 1) 2 solRef href
    have hres : (match colFD { envCoup with inc := ⟨false, true, false⟩, dispOnly := true } lay
          (fun _ => 1) 2 with
        | .ok sol => sol.length
        | .error _ => 0) = 3 := by decide +kernel
    rw [hsol] at hres
    exact ⟨sol, hsol, hres⟩

/-- `colSU_solves_options` on the system with the damped rigid-body mode, `incrb = "v"`,
`rf_disp_only = True`: the column exists, the rigid-body row keeps only `v = 2`, and the full-size
equation holds on the elastic and residual-flexibility rows -/
example : ∃ sol, colSU { envUncD with inc := ⟨false, true, false⟩, dispOnly := true } stUnc true none
      (fun _ => 1) 1 = .ok sol ∧
    sol.map (fun x => (x.d, x.v, x.a)) = [(0, 2, 0), (2, 4, 3), (2, 0, 0)] ∧
    ∀ r, r < 3 → r ∉ lay.rb →
      ((List.range 3).map fun c =>
        partStiff envUncD.i 1 envUncD.M envUncD.rbDamping envUncD.B envUncD.K lay.rb lay.el lay.rf r c *
          (rowOf sol c).d).sum = (fun _ => 1) r := by
  have href : ∃ solRef, colSU (ColEnv.ref { envUncD with inc := ⟨false, true, false⟩, dispOnly := true })
      stUnc true none (fun _ => 1) 1 = .ok solRef := by
    have hres : (match colSU (ColEnv.ref { envUncD with inc := ⟨false, true, false⟩, dispOnly := true })
          stUnc true none (fun _ => 1) 1 with
        | .ok sol => sol.length
        | .error _ => 0) = 3 := by decide +kernel
    cases h : colSU (ColEnv.ref { envUncD with inc := ⟨false, true, false⟩, dispOnly := true })
        stUnc true none (fun _ => 1) 1 with
    | error m => rw [h] at hres; cases hres
    | ok sol => exact ⟨sol, rfl⟩
  obtain ⟨solRef, href⟩ := href
  obtain ⟨sol, hsol, hrows⟩ := colSU_solves_options
    { envUncD with inc := ⟨false, true, false⟩, dispOnly := true } (fun x => by simp [envUncD, envUnc])
    lay (by decide) (by decide) (by decide) true (fun _ => rfl) stUnc (by decide) none (fun _ => 1) 1
    one_ne_zero (by decide) (fun h => by cases h)
    (fun _ => ⟨fun r c hne => by simp [envUncD, envUnc, hne], by decide, by decide, by decide, by decide⟩)
    (fun h => by cases h) solRef href
  have hres : (match colSU { envUncD with inc := ⟨false, true, false⟩, dispOnly := true } stUnc true none
        (fun _ => 1) 1 with
      | .ok sol => sol.map fun x => (x.d, x.v, x.a)
      | .error _ => []) = [(0, 2, 0), (2, 4, 3), (2, 0, 0)] := by decide +kernel
  rw [hsol] at hres
  exact ⟨sol, hsol, hres, fun r hr hnot => (hrows r hr).1 (Or.inl hnot)⟩

end PyYetiVerif.C02
