import PyYetiVerif.Lemmas.GenMachineInit
import PyYetiVerif.Props.C08
import Mathlib.Algebra.Group.Defs
import Mathlib.Tactic.Abel
/-!
# C08 — before the first `send` and after the last one

Property theorems about the initial conditions (`_init_dv`, `_init_dva_part`, `_init_dva`) for
every option combination `d0` None/given × `v0` None/given × `static_ic` False/True, and about
`finalize` / `_calc_acce_kdof` (model: `Model/GenMachineInit.lean`).  The tie is the `ic` and `api`
streams of harness/props/c08.py: the Lean model computes the first column itself from
`(d0, v0, static_ic, F0, partition, k)` — bit for bit for the uncoupled solvers — and the columns
`finalize` returns, for complete and for partial histories.
-/
namespace PyYetiVerif.C08
open PyYetiVerif.GenMachine

section first
variable {R E S : Type} [Zero R] [Zero E] [Zero S]

/-- the first column in closed form, option combination by option combination (what `_init_dv`
followed by the rf statement of `_init_dva_part` leaves in `d[:, 0]`, `v[:, 0]`):
`d0` given → non-rf rows of `d0` (whatever `static_ic` says); `d0` None and `static_ic` with
elastic rows and a non-zero elastic force → rigid-body rows 0, elastic rows the static solution;
otherwise 0.  `v0` given → its non-rf rows, else 0.  rf rows: `ikrf F0[rf]` in `d`, 0 in `v`. -/
theorem first_column_cases (env : IcEnv R E S) (F0 : P3 R E S) :
    (∀ (d0 : P3 R E S) v0 st,
        (initDvaPart env ⟨some d0, v0, st⟩ F0).d 0 = ⟨d0.rb, d0.el, env.ikrf F0.rf⟩) ∧
      (∀ v0, (env.hasEl && env.anyNz F0.el) = true →
        (initDvaPart env ⟨none, v0, true⟩ F0).d 0 = ⟨0, env.solveEl F0.el, env.ikrf F0.rf⟩) ∧
      (∀ v0, (env.hasEl && env.anyNz F0.el) = false →
        (initDvaPart env ⟨none, v0, true⟩ F0).d 0 = ⟨0, 0, env.ikrf F0.rf⟩) ∧
      (∀ v0, (initDvaPart env ⟨none, v0, false⟩ F0).d 0 = ⟨0, 0, env.ikrf F0.rf⟩) ∧
      (∀ d0 (v0 : P3 R E S) st, (initDvaPart env ⟨d0, some v0, st⟩ F0).v 0 = ⟨v0.rb, v0.el, 0⟩) ∧
      (∀ d0 st, (initDvaPart env ⟨d0, none, st⟩ F0).v 0 = 0) ∧
      (∀ o, (initDvaPart env o F0).f 0 = F0 ∧ (initDvaPart env o F0).a 0 = 0) ∧
      (∀ o j, j ≠ 0 → (initDvaPart env o F0).d j = 0 ∧ (initDvaPart env o F0).v j = 0 ∧
        (initDvaPart env o F0).f j = 0) := by
  refine ⟨?_, ?_, ?_, ?_, ?_, ?_, ?_, ?_⟩
  · intro d0 v0 st; simp only [initDvaPart, initDv, upd_same]
  · intro v0 h
    simp only [Bool.and_eq_true] at h
    simp only [initDvaPart, initDv, upd_same, h.1, h.2, Bool.and_self, if_true]
  · intro v0 h
    have h' : (true && env.hasEl && env.anyNz F0.el) = false := by
      rw [Bool.true_and]; exact h
    simp only [initDvaPart, initDv, upd_same, h', Bool.false_eq_true, if_false]
    rfl
  · intro v0
    simp only [initDvaPart, initDv, upd_same, Bool.false_and, Bool.false_eq_true, if_false]
    rfl
  · intro d0 v0 st; simp only [initDvaPart, initDv, upd_same]
  · intro d0 st; simp only [initDvaPart, initDv, upd_same]
  · intro o; exact ⟨by simp only [initDvaPart, upd_same], rfl⟩
  · intro o j hj
    simp only [initDvaPart, upd_ne _ _ hj, and_self]

/-- ★ `generator()` and `tsolve()` start from the same first column, for every option combination:
the model of `_init_dva_part` (generator: rf rows of column 0 only, force array zero beyond
column 0) and the model of `_init_dva` (batch: rf rows of every column) agree on column 0 of
`d`, `v`, `a` whenever the batch force starts with `F0`; the batch rf rows are static in every
column. -/
theorem gen_first_column_eq_batch (env : IcEnv R E S) (o : IcOpts R E S) (F0 : P3 R E S)
    (force : Nat → P3 R E S) (h0 : force 0 = F0) :
    (initDvaPart env o F0).d 0 = (initDva env o force).d 0 ∧
      (initDvaPart env o F0).v 0 = (initDva env o force).v 0 ∧
      (initDvaPart env o F0).a 0 = (initDva env o force).a 0 ∧
      (initDvaPart env o F0).f 0 = (initDva env o force).f 0 ∧
      ∀ j, ((initDva env o force).d j).rf = env.ikrf (force j).rf := by
  subst h0
  refine ⟨?_, ?_, rfl, ?_, fun j => rfl⟩
  · simp only [initDvaPart, initDva, upd_same]
  · simp only [initDvaPart, initDva, upd_same]
  · simp only [initDvaPart, initDva, upd_same]

/-- the same at the level of the one-step machines: the state the generator function sees at its
first `yield` (real paths `genStart`; complex path `cplxGenStart`, which also sets
`a[rb, 0] = imrb F0[rb]`) is `init` on the first column `tsolve` marches from. -/
theorem gen_start_eq_batch_start {X W : Type} [Zero X] [Zero W]
    (env : IcEnv R E S) (L : Lin (P3 R E S) X W) (vw : View (P3 R E S) X W)
    (o : IcOpts R E S) (F0 : P3 R E S) (force : Nat → P3 R E S) (h0 : force 0 = F0)
    (hx0 : vw.x 0 0 = 0) (hr0 : vw.r 0 0 = 0) :
    ((∀ rb el, vw.r ⟨rb, el, env.ikrf F0.rf⟩ 0 = L.S F0) →
        genStart env vw o F0 = init L F0 (batchX0 env vw o force)) ∧
      (∀ imrb : R → R, (∀ rb el, vw.r ⟨rb, el, env.ikrf F0.rf⟩ ⟨imrb F0.rb, 0, 0⟩ = L.S F0) →
        cplxGenStart env imrb vw o F0 = init L F0 (batchX0 env vw o force)) := by
  obtain ⟨hd, hv, _, _, _⟩ := gen_first_column_eq_batch env o F0 force h0
  have hb : batchX0 env vw o force =
      vw.x ((initDvaPart env o F0).d 0) ((initDvaPart env o F0).v 0) := by
    simp only [batchX0, hd, hv]
  constructor
  · intro hS
    have h := viewState_init env L vw o F0 0 hx0 hr0
      (by simp only [initDvaPart, upd_same]; exact hS _ _)
    rw [hb, ← h]
    simp only [genStart]
    congr 1
    have : upd (initDvaPart env o F0).a 0 0 = (initDvaPart env o F0).a := upd_zero_zero
    rw [this]
  · intro imrb hS
    have h := viewState_init env L vw o F0 ⟨imrb F0.rb, 0, 0⟩ hx0 hr0
      (by simp only [initDvaPart, upd_same]; exact hS _ _)
    rw [hb, ← h]
    rfl

/-- ★ `static_ic` (with `d0` None, elastic rows present): the first column is the static
equilibrium of `F0` on the elastic rows — `K_ee d_el = F0_el` — with the rigid-body rows at 0,
given that the elastic solve solves (`k * (f / k) = f`, `np.linalg.solve`) and that
`F0[el].any()` is false only for a zero elastic force. -/
theorem static_ic_is_equilibrium (env : IcEnv R E S) (Kee : E → E) (v0 : Option (P3 R E S))
    (F0 : P3 R E S) (hEl : env.hasEl = true) (hsolve : ∀ f, Kee (env.solveEl f) = f)
    (hany : ∀ f, env.anyNz f = false → f = 0) (hK0 : Kee 0 = 0) :
    let d := (initDvaPart env ⟨none, v0, true⟩ F0).d 0
    Kee d.el = F0.el ∧ d.rb = 0 ∧ d.rf = env.ikrf F0.rf := by
  intro d
  cases hnz : env.anyNz F0.el with
  | true =>
    have : d = ⟨0, env.solveEl F0.el, env.ikrf F0.rf⟩ := by
      simp only [d, initDvaPart, initDv, upd_same, hEl, hnz, Bool.and_self, if_true]
    rw [this]; exact ⟨hsolve _, rfl, rfl⟩
  | false =>
    have : d = ⟨0, 0, env.ikrf F0.rf⟩ := by
      simp only [d, initDvaPart, initDv, upd_same, hEl, hnz, Bool.and_false, Bool.false_eq_true,
        if_false]
      rfl
    rw [this]; exact ⟨by rw [hK0, hany _ hnz], rfl, rfl⟩

end first

/-- consequence: started at rest from `static_ic`, the elastic acceleration `finalize` computes
for the first column is zero (`invm (F − B·0 − K d) = invm 0 = 0`). -/
theorem static_ic_zero_accel {M : Type} [AddGroup M] (invm Bv Kd : M → M) (f d : M)
    (heq : Kd d = f) (hB : Bv 0 = 0) (hm : invm 0 = 0) :
    eomAcc (V := M) ⟨id, Bv, Kd, invm⟩ ⟨d, 0⟩ f = 0 := by
  simp only [eomAcc, id, hB, heq, sub_zero, sub_self, hm]

section whole
variable {R E S X W : Type} [Zero R] [Zero E] [Zero S] [Add R] [Add E] [Add S]
  [AddSemigroup X] [Add W] [Zero X] [Zero W]

/-- ★ generator versus batch with the initial conditions inside the model: for every option
combination and every valid history, after each request the visible `d, v` (state rows) and the
static rows of every completed step are those `tsolve(force in effect, d0, v0, static_ic)`
computes — marching from ITS OWN first column (`batchX0`, the model of `_init_dva`). -/
theorem gen_eq_tsolve_all_options (env : IcEnv R E S) (L : Lin (P3 R E S) X W)
    (hL : AddOnAdditive L) (vw : View (P3 R E S) X W) (o : IcOpts R E S) (F0 : P3 R E S)
    (hx0 : vw.x 0 0 = 0) (hr0 : vw.r 0 0 = 0)
    (hS : ∀ rb el, vw.r ⟨rb, el, env.ikrf F0.rf⟩ 0 = L.S F0)
    (ops : List (Op (P3 R E S))) (hv : Valid L (genStart env vw o F0) ops) :
    let s := run L (genStart env vw o F0) ops
    s.force 0 = F0 ∧
      ∀ j, j ≤ s.cur →
        s.x j = batch L s.force (batchX0 env vw o s.force) j ∧ s.r j = L.S (s.force j) := by
  intro s
  have hst : genStart env vw o F0 = init L F0 (batchX0 env vw o (upd (fun _ => 0) 0 F0)) :=
    (gen_start_eq_batch_start env L vw o F0 _ (upd_same _ _ _) hx0 hr0).1 hS
  rw [hst] at hv
  obtain ⟨hf0, hb⟩ := visible_eq_batch L hL F0 _ ops hv
  have hs : s = run L (init L F0 (batchX0 env vw o (upd (fun _ => 0) 0 F0))) ops := by
    simp only [s, hst]
  have hx : batchX0 env vw o s.force = batchX0 env vw o (upd (fun _ => 0) 0 F0) := by
    have e : s.force 0 = F0 := by rw [hs]; exact hf0
    simp only [batchX0, initDva, upd_same, e]
  rw [hx, hs]
  exact ⟨hf0, hb⟩

/-- ★ the residual-flexibility rows are static at every completed step of every valid history,
column 0 included: `d[rf, j] = ikrf Force[rf, j]`, whatever was re-sent or added on. -/
theorem rf_rows_static_every_step (env : IcEnv R E S) (L : Lin (P3 R E S) X W)
    (hL : AddOnAdditive L) (vw : View (P3 R E S) X W) (o : IcOpts R E S) (F0 : P3 R E S)
    (rfOf : W → S) (hrf : ∀ f, rfOf (L.S f) = env.ikrf f.rf)
    (hx0 : vw.x 0 0 = 0) (hr0 : vw.r 0 0 = 0)
    (hS : ∀ rb el, vw.r ⟨rb, el, env.ikrf F0.rf⟩ 0 = L.S F0)
    (ops : List (Op (P3 R E S))) (hv : Valid L (genStart env vw o F0) ops) :
    ∀ j, j ≤ (run L (genStart env vw o F0) ops).cur →
      rfOf ((run L (genStart env vw o F0) ops).r j) =
        env.ikrf ((run L (genStart env vw o F0) ops).force j).rf := by
  intro j hj
  obtain ⟨_, h⟩ := gen_eq_tsolve_all_options env L hL vw o F0 hx0 hr0 hS ops hv
  rw [(h j hj).2, hrf]

end whole

/-! ### `finalize` -/

/-- ★ the acceleration `finalize` / `tsolve` compute satisfies the equation of motion on the kdof
rows, `M a + B v + K d = F`, in EVERY column of the arrays (completed steps, stale columns after
a jump back, columns never reached), for `m` None (`M = invm = id`), a mass vector or a full
mass, given only that the mass solve inverts the mass. -/
theorem finalize_accel_eom {V M W : Type} [AddCommGroup M] (c : EomCoef V M) (Mm : M → M)
    (hM : ∀ y, Mm (c.invm y) = y) (s : State V (DV M) W) (j : Nat) :
    Mm (finalize (eomAcc c) s j).2.2 + c.Bv (s.x j).v + c.Kd (s.x j).d = c.K (s.force j) := by
  simp only [finalize, column, eomAcc, hM]
  abel

/-- the cd-as-force correction: the equilibrium uses the FULL damping, diagonal plus `bo`. -/
theorem finalize_accel_eom_cdf {V M W : Type} [AddCommGroup M] (c : EomCoef V M)
    (bdiag bo Mm : M → M) (hB : c.Bv = cdfFullDamping bdiag bo) (hM : ∀ y, Mm (c.invm y) = y)
    (s : State V (DV M) W) (j : Nat) :
    Mm (finalize (eomAcc c) s j).2.2 + (bdiag (s.x j).v + bo (s.x j).v) + c.Kd (s.x j).d =
      c.K (s.force j) := by
  have := finalize_accel_eom c Mm hM s j
  rw [hB] at this
  exact this

/-- the rigid-body rows of the complex path (their acceleration is a static row): `M_rb a_rb = F_rb`
at every completed step of a valid history. -/
theorem finalize_accel_rb {V X W R : Type} [Add V] [AddSemigroup X] [Add W] [Zero V] [Zero X]
    [Zero W] (L : Lin V X W) (hL : AddOnAdditive L) (f0 : V) (x0 : X)
    (arb : W → R) (rbOf : V → R) (imrb mrb : R → R) (hS : ∀ f, arb (L.S f) = imrb (rbOf f))
    (hm : ∀ y, mrb (imrb y) = y) (ops : List (Op V)) (hv : Valid L (init L f0 x0) ops) :
    ∀ j, j ≤ (run L (init L f0 x0) ops).cur →
      mrb (arb ((run L (init L f0 x0) ops).r j)) = rbOf ((run L (init L f0 x0) ops).force j) := by
  intro j hj
  obtain ⟨_, h⟩ := visible_eq_batch L hL f0 x0 ops hv
  rw [(h j hj).2, hS, hm]

section partialhist
variable {V X W A : Type} [Add V] [AddSemigroup X] [Add W] [Zero V] [Zero X] [Zero W]

/-- ★ `finalize(get_force)` after a history that stops anywhere (fewer than `nt` steps sent, or a
jump back as last request).  The record always has all `nt` columns (nothing is truncated) and
the force array exactly when asked for; columns up to the step reached are batch `tsolve` of the
force in effect; columns beyond the largest index ever sent are zero (acceleration `acc 0 0`);
a column in between that later requests did not address still holds what it held — the code
leaves stale columns in place and `finalize` computes their acceleration from them. -/
theorem finalize_partial_history (L : Lin V X W) (hL : AddOnAdditive L) (acc : X → V → A)
    (f0 : V) (x0 : X) (nt : Nat) (gf : Bool) (ops : List (Op V))
    (hv : Valid L (init L f0 x0) ops) :
    let s := run L (init L f0 x0) ops
    let fr := finalizeRec acc nt gf s
    fr.nt = nt ∧ fr.force = (if gf then some s.force else none) ∧
      (∀ j, j ≤ s.cur → fr.cols j = tsolve L acc s.force x0 j) ∧
      (∀ j, highWater 0 ops < j → fr.cols j = (0, 0, acc 0 0) ∧ s.force j = 0) ∧
      (∀ j pre post, ops = pre ++ post → Avoids L j (run L (init L f0 x0) pre) post →
        fr.cols j = finalize acc (run L (init L f0 x0) pre) j) := by
  intro s fr
  refine ⟨rfl, rfl, ?_, ?_, ?_⟩
  · intro j hj
    obtain ⟨_, h⟩ := visible_eq_batch L hL f0 x0 ops hv
    obtain ⟨hx, hr⟩ := h j hj
    simp only [fr, finalizeRec, finalize, tsolve, column]
    rw [hx, hr]
  · intro j hj
    have hj0 : j ≠ 0 := by omega
    obtain ⟨a, b, c⟩ := beyond_highWater L ops (init L f0 x0) 0 (Nat.le_refl _) j hj
    have ha : s.x j = 0 := a.trans (by simp only [init, upd_ne _ _ hj0])
    have hb : s.force j = 0 := b.trans (by simp only [init, upd_ne _ _ hj0])
    have hc : s.r j = 0 := c.trans (by simp only [init, upd_ne _ _ hj0])
    refine ⟨?_, hb⟩
    simp only [fr, finalizeRec, finalize, column, ha, hb, hc]
  · intro j pre post hops hav
    obtain ⟨a, b, c⟩ := avoids_frame L j post _ hav
    have hs : s = run L (run L (init L f0 x0) pre) post := by
      simp only [s, hops, run_append]
    simp only [fr, finalizeRec, finalize, column, hs, a, b, c]

end partialhist

/-! ### non-vacuity -/

/-- a scalar solver over `ℤ`: one rigid-body, one elastic (stiffness 1: `solveEl = id`), one rf row -/
def exEnv : IcEnv Int Int Int :=
  { hasEl := true, anyNz := fun f => f != 0, solveEl := id, ikrf := (3 * ·) }

example : ∀ f, (id : Int → Int) (exEnv.solveEl f) = f := fun _ => rfl
example : ∀ f, exEnv.anyNz f = false → f = 0 := by
  intro f h; simpa [exEnv] using h
example : ((initDvaPart exEnv ⟨none, some ⟨5, 6, 7⟩, true⟩ ⟨1, 2, 4⟩).d 0) = ⟨0, 2, 12⟩ := rfl
example : ((initDvaPart exEnv ⟨some ⟨8, 9, 1⟩, none, true⟩ ⟨1, 2, 4⟩).d 0) = ⟨8, 9, 12⟩ := rfl
example : ((initDvaPart exEnv ⟨none, some ⟨5, 6, 7⟩, false⟩ ⟨1, 2, 4⟩).v 0) = ⟨5, 6, 0⟩ := rfl

/-- a partial history with a stale column: send 1, 2, 3 then jump back to 1 on a 6-step horizon -/
example :
    let s := run exL (init exL 1 1) [.send 1 1, .send 2 3, .send 3 4, .send 1 6]
    s.cur = 1 ∧ highWater 0 [Op.send 1 (1 : Int), .send 2 3, .send 3 4, .send 1 6] = 3 ∧
      s.x 3 ≠ 0 ∧ s.x 4 = 0 := by decide

example : Avoids exL 3 (run exL (init exL 1 1) [.send 1 1, .send 2 3, .send 3 4]) [.send 1 6] := by
  simp [Avoids, step, sendAt]

end PyYetiVerif.C08
