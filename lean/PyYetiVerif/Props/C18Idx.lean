import PyYetiVerif.Lemmas.LocateOrder
import PyYetiVerif.Props.C18
/-!
C18, third part: `locate.mat_intersect` for every value of `keep` (which side is looped over, and
that its rows are reported in their original order), `n2p._findse`, `n2p._get_node_ids`.
-/
namespace PyYetiVerif.C18
open PyYetiVerif.Uset PyYetiVerif.Locate

section rows
variable {α : Type} [LinearOrder α]

/-- which matrix `mat_intersect` loops over: `D1` for `keep = 1`, and for `keep = 0` when it has
no more rows than `D2`; `D2` otherwise (`keep = 2`, any other value, `keep = 0` with fewer rows) -/
def loopsD1 (n1 n2 keep : Nat) : Bool := decide ((keep = 0 ∧ n1 ≤ n2) ∨ keep = 1)

/-- **order.**  The index vector of the looped side is strictly ascending: its matching rows are
reported in their original order, whatever their values (never sorted by value), each once. -/
theorem mat_intersect_order (d1 d2 : List α) (c keep : Nat) :
    let r := matIntersect d1 d2 c c keep
    (loopsD1 d1.length d2.length keep = true → r.1.Pairwise (· < ·)) ∧
    (loopsD1 d1.length d2.length keep = false → r.2.Pairwise (· < ·)) := by
  unfold matIntersect lookupAll loopsD1
  simp only [ne_eq, not_true_eq_false, if_false]
  by_cases hc : (keep = 0 ∧ d1.length ≤ d2.length) ∨ keep = 1
  · simp only [hc, decide_true, Bool.not_true, Bool.false_eq_true, if_false]
    exact ⟨fun _ => found_needles_sorted _ 0, fun h => (by cases h)⟩
  · simp only [hc, decide_false, Bool.not_false, if_true]
    exact ⟨fun h => (by cases h), fun _ => found_needles_sorted _ 0⟩

/-- `keep = 1`: `pv1` is exactly the list of the rows of `D1` that occur in `D2`, in the order of
`D1`; `pv2[k]` is a row of `D2` equal to row `pv1[k]` of `D1`. -/
theorem mat_intersect_keep1 (d1 d2 : List α) (c : Nat) :
    let r := matIntersect d1 d2 c c 1
    r.1 = (List.range d1.length).filter (fun i => (d1[i]?).any (fun x => decide (x ∈ d2))) ∧
    List.Forall₂ (fun i j => ∃ x, d1[i]? = some x ∧ d2[j]? = some x) r.1 r.2 := by
  have hs := (mat_intersect_spec d1 d2 c 1)
  have ho := (mat_intersect_order d1 d2 c 1).1 (by simp [loopsD1])
  refine ⟨?_, hs.1⟩
  apply sorted_eq_filter_range _ _ _ ho
  intro i
  rw [hs.2.1 (Or.inr rfl) i]
  constructor
  · rintro ⟨x, hx, hm⟩
    exact ⟨(List.getElem?_eq_some_iff.mp hx).1, by rw [hx]; simpa using hm⟩
  · rintro ⟨_, h⟩
    rw [Option.any_eq_true] at h
    obtain ⟨x, hx, hm⟩ := h
    exact ⟨x, hx, by simpa using hm⟩

/-- `keep = 2`: `pv2` is exactly the list of the rows of `D2` that occur in `D1`, in the order of
`D2` (the order `_formtran_0` relies on to return the rows "as requested"); `pv1[k]` is a row of
`D1` equal to row `pv2[k]` of `D2`. -/
theorem mat_intersect_keep2 (d1 d2 : List α) (c : Nat) :
    let r := matIntersect d1 d2 c c 2
    r.2 = (List.range d2.length).filter (fun j => (d2[j]?).any (fun x => decide (x ∈ d1))) ∧
    List.Forall₂ (fun i j => ∃ x, d1[i]? = some x ∧ d2[j]? = some x) r.1 r.2 := by
  have hs := (mat_intersect_spec d1 d2 c 2)
  have ho := (mat_intersect_order d1 d2 c 2).2 (by simp [loopsD1])
  refine ⟨?_, hs.1⟩
  apply sorted_eq_filter_range _ _ _ ho
  intro j
  rw [hs.2.2 (by simp) j]
  constructor
  · rintro ⟨x, hx, hm⟩
    exact ⟨(List.getElem?_eq_some_iff.mp hx).1, by rw [hx]; simpa using hm⟩
  · rintro ⟨_, h⟩
    rw [Option.any_eq_true] at h
    obtain ⟨x, hx, hm⟩ := h
    exact ⟨x, hx, by simpa using hm⟩

/-- `keep = 0`: the matrix with fewer rows is looped over (`D1` when they have equally many), with
the same contract as `keep = 1` resp. `keep = 2`. -/
theorem mat_intersect_keep0 (d1 d2 : List α) (c : Nat) :
    matIntersect d1 d2 c c 0 =
      if d1.length ≤ d2.length then matIntersect d1 d2 c c 1 else matIntersect d1 d2 c c 2 := by
  unfold matIntersect
  by_cases h : d1.length ≤ d2.length <;> simp [h]

/-- any other value of `keep` behaves as `keep = 2` -/
theorem mat_intersect_keep_other (d1 d2 : List α) (c keep : Nat) (h0 : keep ≠ 0) (h1 : keep ≠ 1) :
    matIntersect d1 d2 c c keep = matIntersect d1 d2 c c 2 := by
  unfold matIntersect
  simp [h0, h1]

end rows

example : matIntersect [7, 3, 9, 3] [3, 9, 5] 1 1 1 = ([1, 2, 3], [0, 1, 0]) ∧
    matIntersect [7, 3, 9] [9, 5, 3, 7] 1 1 2 = ([2, 1, 0], [0, 2, 3]) ∧
    matIntersect [7, 3, 9] [9, 5, 3, 7] 1 1 0 = ([0, 1, 2], [3, 2, 0]) := by
  simp [matIntersect, lookupAll, argsort, lookup, searchsortedLeft, List.mergeSort, List.zipIdx,
    List.MergeSort.Internal.splitInTwo]

/-! ## `_findse`, `_get_node_ids` -/

/-- `_findse(nas, se)`: the index of the first `selist` row whose first column is `se`;
`ValueError` exactly when no row has it. -/
theorem findse_spec (selist : List (Nat × Nat)) (se : Nat) :
    (findse selist se = .error .value ↔ ∀ r ∈ selist, r.1 ≠ se) ∧
    (∀ k, findse selist se = .ok k ↔
      (∃ r, selist[k]? = some r ∧ r.1 = se) ∧ ∀ j < k, ∀ r, selist[j]? = some r → r.1 ≠ se) := by
  unfold findse
  have hmem : ∀ i, i ∈ positions (selist.map fun r => decide (r.1 = se)) ↔
      ∃ r, selist[i]? = some r ∧ r.1 = se := by
    intro i
    rw [mem_positions, List.getElem?_map]
    cases selist[i]? with
    | none => simp
    | some r => simp
  have hsort := positions_sorted (selist.map fun r => decide (r.1 = se))
  cases hp : positions (selist.map fun r => decide (r.1 = se)) with
  | nil =>
      rw [hp] at hmem
      refine ⟨⟨fun _ r hr hrs => ?_, fun _ => rfl⟩, fun k => ⟨fun h => (by cases h), ?_⟩⟩
      · obtain ⟨i, hi⟩ := List.getElem?_of_mem hr
        exact absurd ((hmem i).mpr ⟨r, hi, hrs⟩) (by simp)
      · rintro ⟨⟨r, hr, hrs⟩, _⟩
        exact absurd ((hmem k).mpr ⟨r, hr, hrs⟩) (by simp)
  | cons a t =>
      rw [hp] at hmem hsort
      have hlt : ∀ j ∈ t, a < j := (List.pairwise_cons.mp hsort).1
      refine ⟨⟨fun h => (by cases h), fun h => ?_⟩, fun k => ⟨fun h => ?_, ?_⟩⟩
      · obtain ⟨r, hr, hrs⟩ := (hmem a).mp List.mem_cons_self
        exact absurd hrs (h r (List.mem_of_getElem? hr))
      · simp only [Except.ok.injEq] at h
        subst h
        refine ⟨(hmem a).mp List.mem_cons_self, fun j hj r hr hrs => ?_⟩
        rcases List.mem_cons.mp ((hmem j).mpr ⟨r, hr, hrs⟩) with rfl | hjt
        · omega
        · have := hlt j hjt; omega
      · rintro ⟨hk, hmin⟩
        rcases List.mem_cons.mp ((hmem k).mpr hk) with rfl | hkt
        · rfl
        · obtain ⟨r, hr, hrs⟩ := (hmem a).mp List.mem_cons_self
          exact absurd hrs (hmin a (hlt k hkt) r hr)

theorem find?_of_first {β : Type} (p : β → Bool) : ∀ (l : List β) (k : Nat) (r : β),
    l[k]? = some r → p r = true → (∀ j < k, ∀ r', l[j]? = some r' → p r' = false) → l.find? p = some r
  | [], k, r, hr, _, _ => by simp at hr
  | x :: t, 0, r, hr, hp, _ => by
      simp only [List.getElem?_cons_zero, Option.some.injEq] at hr
      subst hr
      simp [hp]
  | x :: t, k + 1, r, hr, hp, hmin => by
      have hx : p x = false := hmin 0 (by omega) x (by simp)
      rw [List.find?_cons_of_neg (by simp [hx])]
      exact find?_of_first p t k r (by simpa using hr) hp
        (fun j hj r' hr' => hmin (j + 1) (by omega) r' (by simpa using hr'))

/-- `upasetpv` takes its downstream SE from the row `_findse` finds -/
theorem findse_find? (selist : List (Nat × Nat)) (se k : Nat) (h : findse selist se = .ok k) :
    selist.find? (fun r => r.1 = se) = selist[k]? := by
  obtain ⟨⟨r, hr, hrs⟩, hmin⟩ := ((findse_spec selist se).2 k).mp h
  rw [hr]
  exact find?_of_first _ selist k r hr (by simpa using hrs)
    (fun j hj r' hr' => by simpa using hmin j hj r' hr')

/-- `_get_node_ids(uset)`: the ids of the rows with `dof ≤ 1`, in table order - one id per node of
a table whose grids carry DOF 1 … 6 and whose scalar points carry DOF 0 -/
theorem nodeIds_spec (tbl : List Row) :
    nodeIds tbl = (tbl.filter fun r => decide (r.2.1 ≤ 1)).map (·.1) ∧
    (∀ i, i ∈ nodeIds tbl ↔ ∃ r ∈ tbl, r.1 = i ∧ r.2.1 ≤ 1) := by
  refine ⟨rfl, fun i => ?_⟩
  unfold nodeIds
  simp only [List.mem_map, List.mem_filter, decide_eq_true_eq]
  constructor
  · rintro ⟨r, ⟨hr, hd⟩, rfl⟩; exact ⟨r, hr, rfl, hd⟩
  · rintro ⟨r, hr, rfl, hd⟩; exact ⟨r, ⟨hr, hd⟩, rfl⟩

/-- one id per node, in table order, for a table made of whole grids and scalar points -/
theorem nodeIds_make (ids : List (Nat × Bool)) (w : Nat) :
    nodeIds (ids.flatMap fun p => if p.2 then [1, 2, 3, 4, 5, 6].map (fun d => (p.1, d, w)) else [(p.1, 0, w)])
      = ids.map (·.1) := by
  induction ids with
  | nil => rfl
  | cons p t ih =>
      obtain ⟨i, g⟩ := p
      unfold nodeIds at ih ⊢
      rw [List.flatMap_cons, List.filter_append, List.map_append, ih]
      cases g <;> simp

example : findse [(100, 0), (0, 0), (100, 5)] 100 = .ok 0 ∧ findse [(100, 0), (0, 0)] 0 = .ok 1 ∧
    findse [(100, 0), (0, 0)] 7 = .error .value := by decide

example : nodeIds [(5, 0, 4), (7, 1, 2), (7, 2, 2), (7, 3, 2), (7, 4, 2), (7, 5, 2), (7, 6, 2), (11, 0, 2)]
    = [5, 7, 11] := by decide

end PyYetiVerif.C18
