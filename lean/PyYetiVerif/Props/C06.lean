import PyYetiVerif.Lemmas.RigidBody
import Mathlib.Data.Matrix.PEquiv
import Mathlib.Data.Matrix.ColumnRowPartitioned
import Mathlib.LinearAlgebra.Matrix.NonsingularInverse
import Mathlib.LinearAlgebra.Matrix.Determinant.Basic
/-!
# C06 — Craig-Bampton checks are right on valid models and flag invalid ones

Property theorems only.  The executable definitions are those of `Model/RigidBody.lean` (run at
`Float` by the correspondence check); matrices there are functions `Nat → Nat → α`, so entrywise
statements carry the index range as hypotheses.  Statements about permutations, congruences, Schur
complements and block equations of motion are about Mathlib's `Matrix`, with the model's
operations identified as `submatrix` / `diagonal` products in the statements themselves.

Outside these statements (trusted, measured at run time): floating-point round-off, `linalg.solve`,
`eigsh`/`eigh`, `SolveUnc.fsolve` (they enter as hypotheses `koo·X = -kor`, `K·RB = 0`,
the q-set equation of motion).
-/
set_option linter.unusedVariables false
set_option linter.unusedSimpArgs false
namespace PyYetiVerif.C06
open PyYetiVerif.RigidBody Matrix

/-! ## rigid-body geometry: rbgeom / rbmove -/

/-- `rbgeom(p, r₀) · rbgeom(r₀, r₁) = rbgeom(p, r₁)`: moving the reference point composes. -/
theorem rbmove_comp {K : Type} [CommRing K] (p r0 r1 : V3 K) (i j : Nat) (hi : i < 6) (hj : j < 6) :
    mulN 6 (rbBlock p r0) (rbBlock r0 r1) i j = rbBlock p r1 i j := by
  interval_cases i <;> interval_cases j <;> simp [mulN, sumN, rbBlock, pick6] <;> ring

/-- `rbmove(rbgeom(grids, r₀), r₀, r₁) = rbgeom(grids, r₁)` for any number of grids. -/
theorem rbmove_rbgeom {K : Type} [CommRing K] (grids : Nat → V3 K) (r0 r1 : V3 K) (i j : Nat)
    (hj : j < 6) : rbmove (rbgeom grids r0) r0 r1 i j = rbgeom grids r1 i j := by
  unfold rbmove rbgeom
  have hi : i % 6 < 6 := Nat.mod_lt _ (by norm_num)
  have := rbmove_comp (grids (i / 6)) r0 r1 (i % 6) j hi hj
  simpa [mulN] using this

example : rbBlock (⟨1, 2, 3⟩ : V3 ℤ) ⟨0, 0, 0⟩ 0 4 = 3 ∧ rbBlock (⟨1, 2, 3⟩ : V3 ℤ) ⟨0, 0, 0⟩ 1 3 = -3 := by
  simp [rbBlock, pick6]

/-! ## cgmass -/

/-- ★ `cgmass` recovers the mass properties of ANY rigid 6x6 mass of the documented form — also
with three different translational masses: for `mx my mz ≠ 0`, cg offset `d` and 3x3 block `J`
about the cg, `cgmass (genMass mx my mz d J) = (diag(mx,my,mz,J), d)`. -/
theorem cgmass_recovers_general {K : Type} [Field K] [RbOps K] (mx my mz : K) (d : V3 K) (J : NMat K)
    (hx : mx ≠ 0) (hy : my ≠ 0) (hz : mz ≠ 0) :
    (∀ i j, i < 6 → j < 6 →
        (cgmass (genMass mx my mz d J)).1 i j = cgMassMat mx my mz J i j) ∧
      (cgmass (genMass mx my mz d J)).2.x = d.x ∧
      (cgmass (genMass mx my mz d J)).2.y = d.y ∧
      (cgmass (genMass mx my mz d J)).2.z = d.z := by
  refine ⟨?_, ?_, ?_, ?_⟩
  · intro i j hi hj
    interval_cases i <;> interval_cases j <;>
      simp [cgmass, genMass, cgMassMat, pick6, pick3] <;> field_simp <;> ring
  · simp [cgmass, genMass, pick6, pick3]; field_simp
  · simp [cgmass, genMass, pick6, pick3]; field_simp
  · simp [cgmass, genMass, pick6, pick3]; field_simp

/-- the rigid transform `RBᵀ · diag(m I₃, J) · RB` of a cg mass to a reference point `r`
(`RB = rbgeom(cg, r)`) is the documented general matrix with `d = cg - r` -/
theorem rigid_transform_eq_genMass {K : Type} [CommRing K] [Div K] [RbOps K] (m : K) (cg r : V3 K)
    (J : NMat K) (i j : Nat) (hi : i < 6) (hj : j < 6) :
    mass6 6 (rbBlock cg r) (cgMassMat m m m J) i j
      = genMass m m m ⟨cg.x - r.x, cg.y - r.y, cg.z - r.z⟩ J i j := by
  interval_cases i <;> interval_cases j <;>
    simp [mass6, mulN, trN, sumN, rbBlock, cgMassMat, genMass, pick6, pick3] <;> ring

/-- ★ for every `m ≠ 0`, cg location `cg`, reference point `r` and cg inertia block `J`:
`cgmass(RBᵀ · diag(m I₃, J) · RB)` returns `diag(m I₃, J)` and the offset `cg - r`. -/
theorem cgmass_recovers {K : Type} [Field K] [RbOps K] (m : K) (cg r : V3 K) (J : NMat K) (hm : m ≠ 0) :
    let M : NMat K := mass6 6 (rbBlock cg r) (cgMassMat m m m J)
    (∀ i j, i < 6 → j < 6 → (cgmass M).1 i j = cgMassMat m m m J i j) ∧
      (cgmass M).2.x = cg.x - r.x ∧ (cgmass M).2.y = cg.y - r.y ∧ (cgmass M).2.z = cg.z - r.z := by
  intro M
  have hM : ∀ i j, i < 6 → j < 6 →
      M i j = genMass m m m ⟨cg.x - r.x, cg.y - r.y, cg.z - r.z⟩ J i j :=
    fun i j hi hj => rigid_transform_eq_genMass m cg r J i j hi hj
  have hg := cgmass_recovers_general m m m ⟨cg.x - r.x, cg.y - r.y, cg.z - r.z⟩ J hm hm hm
  -- `cgmass` reads only entries with indices < 6
  have hcg : ∀ i j, i < 6 → j < 6 → (cgmass M).1 i j =
      (cgmass (genMass m m m ⟨cg.x - r.x, cg.y - r.y, cg.z - r.z⟩ J)).1 i j := by
    intro i j hi hj
    interval_cases i <;> interval_cases j <;> simp [cgmass, hM]
  refine ⟨fun i j hi hj => (hcg i j hi hj).trans (hg.1 i j hi hj), ?_, ?_, ?_⟩
  · have : (cgmass M).2.x = (cgmass (genMass m m m ⟨cg.x - r.x, cg.y - r.y, cg.z - r.z⟩ J)).2.x := by
      simp [cgmass, hM]
    rw [this]; exact hg.2.1
  · have : (cgmass M).2.y = (cgmass (genMass m m m ⟨cg.x - r.x, cg.y - r.y, cg.z - r.z⟩ J)).2.y := by
      simp [cgmass, hM]
    rw [this]; exact hg.2.2.1
  · have : (cgmass M).2.z = (cgmass (genMass m m m ⟨cg.x - r.x, cg.y - r.y, cg.z - r.z⟩ J)).2.z := by
      simp [cgmass, hM]
    rw [this]; exact hg.2.2.2

/-- non-vacuity / the docstring example of `cgmass`: mass 3, cg 40 along x -/
example : (cgmass (genMass (3 : ℚ) 3 3 ⟨40, 0, 0⟩ (fun _ _ => 0))).2.x = 40 := by
  simp [cgmass, genMass, pick6, pick3]

/-! ## cbreorder -/

/-- the index vector cbreorder applies (`b` first or last, then `flippv`) is a permutation of
`range lt` whenever `b` is duplicate-free and inside the matrix -/
theorem reorder_pv_perm (b : List Nat) (lt : Nat) (last : Bool) (hb : b.Nodup)
    (hlt : ∀ x ∈ b, x < lt) : (pvList b lt last).Perm (List.range lt) :=
  pvList_perm last hb hlt

/-- the hypothesis is needed: a repeated b-set index is not a permutation -/
example : ¬ (pvList [0, 0] 3 false).Perm (List.range 3) := by decide

/-- ★ reordering by a permutation `σ` (`M[ix_(pv, pv)]` = `submatrix σ σ`) is conjugation by the
permutation matrix, is undone by the inverse permutation, and the model's `reorder` composes the
same way on index functions -/
theorem reorder_perm {n R : Type} [Fintype n] [DecidableEq n] [CommRing R]
    (σ : Equiv.Perm n) (M : Matrix n n R) :
    M.submatrix σ σ = σ.toPEquiv.toMatrix * M * (σ⁻¹).toPEquiv.toMatrix ∧
      (M.submatrix σ σ).submatrix σ.symm σ.symm = M ∧
      (∀ (A : NMat R) (pv qv : Nat → Nat) (i j : Nat), pv (qv i) = i → pv (qv j) = j →
        reorder (reorder A pv) qv i j = A i j) := by
  refine ⟨?_, ?_, ?_⟩
  · rw [PEquiv.toMatrix_toPEquiv_mul, PEquiv.mul_toMatrix_toPEquiv]
    ext i j
    simp [Equiv.Perm.inv_def]
  · ext i j
    simp
  · intro A pv qv i j hi hj
    simp [reorder, hi, hj]

/-- reordering leaves the characteristic determinant `det(K - λ M)` (hence all frequencies) unchanged -/
theorem reorder_pencil {n R : Type} [Fintype n] [DecidableEq n] [CommRing R]
    (σ : Equiv.Perm n) (Km Mm : Matrix n n R) (lam : R) :
    (Km.submatrix σ σ - lam • Mm.submatrix σ σ).det = (Km - lam • Mm).det := by
  have : Km.submatrix σ σ - lam • Mm.submatrix σ σ = (Km - lam • Mm).submatrix σ σ := by
    ext i j; simp
  rw [this, Matrix.det_submatrix_equiv_self]

/-- the uset row that cbcheck(reorder=True) moves to position `j` is row `rank(bseto[j])`
(cb.py:2859 after the F26 fix): `rankIn` stays inside the table and is strictly increasing on the
members of `bseto`, i.e. it is the order isomorphism from the b-set positions onto `0..nb-1`
(the uset rows are stored in ascending matrix position) -/
theorem uset_rank_correct (b : List Nat) :
    (∀ x ∈ b, rankIn b x < b.length) ∧
      (∀ x ∈ b, ∀ y, x < y → rankIn b x < rankIn b y) :=
  ⟨fun x hx => rankIn_lt hx, fun x hx y hxy => rankIn_strictMono hx hxy⟩

/-- the cyclic order of three boundary grids (finding F26): the rank is `[1,2,0]`, the old
`argsort` gave `[2,0,1]` -/
example : usetRank [6, 12, 0] = [1, 2, 0] := by decide

/-! ## cbconvert -/

/-- ★ `e2m ∘ m2e = id` entrywise: the factors `(lc, mc)` and `(1/lc, 1/mc)` give mutually inverse
`C` and `D` for every kind of row (translation, rotation, modal) -/
theorem convert_inverse (lc mc : ℝ) (hl : lc ≠ 0) (hm : 0 < mc) (r : Role) :
    convC lc mc r * convC (1 / lc) (1 / mc) r = 1 ∧ convD lc mc r * convD (1 / lc) (1 / mc) r = 1 := by
  have hs : Real.sqrt mc ≠ 0 := (Real.sqrt_pos.2 hm).ne'
  have hsi : Real.sqrt (1 / mc) = 1 / Real.sqrt mc := by
    rw [one_div, Real.sqrt_inv, one_div]
  cases r <;> simp only [convC, convD, RbOps.sqrt, hsi] <;> constructor <;> field_simp

/-- `D = (mc·lc²)·C` on every row: the conversion `D·M·C` is the congruence `C·M·C` scaled by one
constant, which is why frequencies are unchanged -/
theorem convert_congruence (lc mc : ℝ) (hl : lc ≠ 0) (hm : 0 ≤ mc) (r : Role) :
    convD lc mc r = mc * lc ^ 2 * convC lc mc r := by
  have hq : Real.sqrt mc * Real.sqrt mc = mc := Real.mul_self_sqrt hm
  cases r <;> simp only [convC, convD, RbOps.sqrt]
  · field_simp
  · ring
  · by_cases h0 : Real.sqrt mc = 0
    · have : mc = 0 := by rw [← hq, h0]; ring
      simp [h0, this]
    · field_simp
      nlinarith [hq]

/-- the model's `cbconvert` is `diagonal D * M * diagonal C` -/
theorem cbconvert_eq_diagonal (n : Nat) (M : NMat ℝ) (b : List Nat) (lc mc : ℝ) (i j : Fin n) :
    cbconvert M b lc mc false i j =
      (Matrix.diagonal (fun k : Fin n => convD lc mc (role b k)) *
        Matrix.of (fun a c : Fin n => M a c) *
        Matrix.diagonal (fun k : Fin n => convC lc mc (role b k))) i j := by
  simp [cbconvert, Matrix.diagonal_mul, Matrix.mul_diagonal, mul_assoc]

/-- ★ a conversion with `D = s·C` multiplies `det(K - λ M)` by the constant `s^n (∏ C)²`: the
generalized eigenvalues (frequencies) of the converted pair are those of the original pair -/
theorem convert_pencil {n R : Type} [Fintype n] [DecidableEq n] [CommRing R]
    (c d : n → R) (s : R) (hd : ∀ i, d i = s * c i) (Km Mm : Matrix n n R) (lam : R) :
    (Matrix.diagonal d * Km * Matrix.diagonal c - lam • (Matrix.diagonal d * Mm * Matrix.diagonal c)).det
      = s ^ Fintype.card n * (∏ i, c i) ^ 2 * (Km - lam • Mm).det := by
  have h1 : Matrix.diagonal d * Km * Matrix.diagonal c - lam • (Matrix.diagonal d * Mm * Matrix.diagonal c)
      = Matrix.diagonal d * (Km - lam • Mm) * Matrix.diagonal c := by
    simp [Matrix.mul_sub, Matrix.sub_mul, Matrix.mul_smul, Matrix.smul_mul]
  have h2 : (Matrix.diagonal d).det = s ^ Fintype.card n * ∏ i, c i := by
    rw [Matrix.det_diagonal]
    simp [hd, Finset.prod_mul_distrib, Finset.prod_const, Finset.card_univ]
  rw [h1, Matrix.det_mul, Matrix.det_mul, h2, Matrix.det_diagonal]
  ring

/-! ## stiffness-based rigid-body modes, grounding -/

section stiffness
variable {o r R : Type} [Fintype o] [Fintype r] [DecidableEq o] [DecidableEq r] [CommRing R]

/-- ★ if `K·RB = 0` for `RB` with identity on the reference DOF (`RB = [I; Ro]`, K partitioned
`[[Krr, Kro],[Kor, Koo]]`) and `Koo` is invertible, then what `_cbcoordchk` computes,
`-Koo⁻¹·Kor`, IS `Ro`, and the Schur complement `Krr - Kro·Koo⁻¹·Kor` (the `refpoint_chk`
quantity) vanishes -/
theorem stiffness_rb_eq_geometry (Krr : Matrix r r R) (Kro : Matrix r o R) (Kor : Matrix o r R)
    (Koo : Matrix o o R) (Ro : Matrix o r R) (hK : IsUnit Koo.det)
    (h : Matrix.fromBlocks Krr Kro Kor Koo * Matrix.fromRows (1 : Matrix r r R) Ro = 0) :
    -(Koo⁻¹ * Kor) = Ro ∧ Krr - Kro * (Koo⁻¹ * Kor) = 0 := by
  rw [Matrix.fromBlocks_mul_fromRows, ← Matrix.fromRows_zero, Matrix.fromRows_ext_iff] at h
  obtain ⟨h1, h2⟩ := h
  simp only [Matrix.mul_one] at h1 h2
  have hRo : -(Koo⁻¹ * Kor) = Ro := by
    have : Kor = -(Koo * Ro) := eq_neg_of_add_eq_zero_left h2
    rw [this, Matrix.mul_neg, neg_neg, ← Matrix.mul_assoc, Matrix.nonsing_inv_mul _ hK, Matrix.one_mul]
  refine ⟨hRo, ?_⟩
  have : Kro * (Koo⁻¹ * Kor) = -(Kro * Ro) := by rw [← hRo]; simp
  rw [this, sub_neg_eq_add]; exact h1

/-- ★ grounding shows exactly in the quantity `refpoint_chk` tests: with `Koo` invertible, the
Schur complement vanishes iff some `RB` with identity reference rows has `K·RB = 0`; and the
stiffness-based modes `rbs = [I; -Koo⁻¹Kor]` always give `K·rbs = [S; 0]`, so `k @ rbs` (the printed
grounding check) is non-zero exactly when `S` is -/
theorem grounding_iff (Krr : Matrix r r R) (Kro : Matrix r o R) (Kor : Matrix o r R)
    (Koo : Matrix o o R) (hK : IsUnit Koo.det) :
    (Matrix.fromBlocks Krr Kro Kor Koo * Matrix.fromRows (1 : Matrix r r R) (-(Koo⁻¹ * Kor))
        = Matrix.fromRows (Krr - Kro * (Koo⁻¹ * Kor)) 0) ∧
      (Krr - Kro * (Koo⁻¹ * Kor) = 0 ↔
        ∃ Ro : Matrix o r R,
          Matrix.fromBlocks Krr Kro Kor Koo * Matrix.fromRows (1 : Matrix r r R) Ro = 0) := by
  have hrbs : Matrix.fromBlocks Krr Kro Kor Koo * Matrix.fromRows (1 : Matrix r r R) (-(Koo⁻¹ * Kor))
      = Matrix.fromRows (Krr - Kro * (Koo⁻¹ * Kor)) 0 := by
    rw [Matrix.fromBlocks_mul_fromRows, Matrix.fromRows_ext_iff]
    constructor
    · simp [sub_eq_add_neg]
    · rw [Matrix.mul_one, Matrix.mul_neg, ← Matrix.mul_assoc, Matrix.mul_nonsing_inv _ hK, Matrix.one_mul]
      simp
  refine ⟨hrbs, ?_, ?_⟩
  · intro hS
    exact ⟨-(Koo⁻¹ * Kor), by rw [hrbs, hS, Matrix.fromRows_zero]⟩
  · rintro ⟨Ro, hRo⟩
    exact (stiffness_rb_eq_geometry Krr Kro Kor Koo Ro hK hRo).2

/-- a grounded 1+1 DOF example: `K = [[2,-1],[-1,1]]` (unit spring to ground on the reference
DOF) has Schur complement `2 - 1 = 1 ≠ 0` -/
example : (!![(2 : ℚ)] - !![(-1 : ℚ)] * ((!![(1 : ℚ)])⁻¹ * !![(-1 : ℚ)])) ≠ 0 := by
  intro h
  have := congrFun (congrFun h 0) 0
  simp [Matrix.inv_def, Matrix.det_fin_one, Matrix.adjugate_fin_one] at this
  norm_num at this

end stiffness

/-! ## modal effective mass -/

/-- ★ in the Craig-Bampton partition (`Mqq = I`): the rigid-body mass in each direction `j`
(`diag(RBᵀ Mbb RB)`, the denominator of the percent table) is the sum over modes of the
effective mass `(Mqb·RB)²` plus the boundary residual `diag(RBᵀ (Mbb - Mqbᵀ Mqb) RB)` -/
theorem effmass_total {b q : Type} [Fintype b] [Fintype q] {R : Type} [CommRing R]
    (Mbb : Matrix b b R) (Mqb : Matrix q b R) (RB : Matrix b (Fin 6) R) (j : Fin 6) :
    (RBᵀ * Mbb * RB) j j =
      (∑ k, ((Mqb * RB) k j) ^ 2) + (RBᵀ * (Mbb - Mqbᵀ * Mqb) * RB) j j := by
  have h : (∑ k, ((Mqb * RB) k j) ^ 2) = (RBᵀ * (Mqbᵀ * Mqb) * RB) j j := by
    have : RBᵀ * (Mqbᵀ * Mqb) * RB = (Mqb * RB)ᵀ * (Mqb * RB) := by
      rw [Matrix.transpose_mul]; simp [Matrix.mul_assoc]
    rw [this, Matrix.mul_apply]
    simp [Matrix.transpose_apply, sq]
  rw [h, Matrix.mul_sub, Matrix.sub_mul]
  simp

/-- the model's `effmass` entry is the square of the `(Mqb·RB)` entry -/
theorem effmass_eq_sq (nb : Nat) (mqb rbg : NMat ℝ) (k j : Nat) :
    effmass nb mqb rbg k j = (sumN nb fun a => mqb k a * rbg a j) ^ 2 := by
  simp [effmass, sq]

/-! ## cbtf -/

/-- ★ `cbtf` satisfies the full equations of motion.  With `s = iΩ` (any scalar with `s² ≠ 0`),
enforced boundary acceleration `ab`, `d_b = ab / s²`, and a q-set solution `dq` meeting the
specification of `SolveUnc.fsolve` for the right-hand side the code builds
(`f = Bqb·v - Mqb·a` with `v = (i/Ω)·a = -s⁻¹·a`), the returned displacement `d = (d_b, dq)` and
force `frc = M[b,:]·a + B[b,:]·v + Kbb·d_b` (`a = s²d`, `v = s d`) satisfy
`(s²M + sB + K) d = (frc, 0)` for the Craig-Bampton form `K = diag(Kbb, Kqq)`, and the boundary
acceleration of the result is `ab`. -/
theorem cbtf_satisfies_eom {b q F : Type} [Fintype b] [Fintype q] [DecidableEq b] [DecidableEq q]
    [Field F] (Mbb Bbb Kbb : Matrix b b F) (Mbq Bbq : Matrix b q F) (Mqb Bqb : Matrix q b F)
    (Mqq Bqq Kqq : Matrix q q F) (s : F) (hs : s * s ≠ 0) (ab : b → F) (dq : q → F)
    (hq : (s * s) • Mqq *ᵥ dq + s • Bqq *ᵥ dq + Kqq *ᵥ dq = Bqb *ᵥ (-s⁻¹ • ab) - Mqb *ᵥ ab) :
    let db : b → F := (s * s)⁻¹ • ab
    let d : b ⊕ q → F := Sum.elim db dq
    let frc : b → F := Mbb *ᵥ ((s * s) • db) + Mbq *ᵥ ((s * s) • dq) + (Bbb *ᵥ (s • db) + Bbq *ᵥ (s • dq))
      + Kbb *ᵥ db
    ((s * s) • Matrix.fromBlocks Mbb Mbq Mqb Mqq + s • Matrix.fromBlocks Bbb Bbq Bqb Bqq
        + Matrix.fromBlocks Kbb 0 0 Kqq) *ᵥ d = Sum.elim frc 0 ∧ (s * s) • db = ab := by
  intro db d frc
  have hs0 : s ≠ 0 := fun h => hs (by simp [h])
  have hab : (s * s) • db = ab := by
    simp only [db, smul_smul]; rw [mul_inv_cancel₀ hs]; simp
  refine ⟨?_, hab⟩
  have hsdb : s • db = s⁻¹ • ab := by
    simp only [db, smul_smul]
    congr 1
    field_simp
  ext i
  rcases i with i | i
  · simp only [Matrix.add_mulVec, Matrix.smul_mulVec, Matrix.fromBlocks_mulVec, d, frc, Pi.add_apply,
      Pi.smul_apply, Sum.elim_inl, Function.comp_def, Matrix.mulVec_smul, Matrix.zero_mulVec, smul_eq_mul,
      Matrix.mulVec_add]
    simp only [Sum.elim_inl, Sum.elim_inr, Pi.add_apply, Pi.smul_apply, smul_eq_mul, Pi.zero_apply]
    ring
  · have hqi := congrFun hq i
    simp only [Matrix.add_mulVec, Matrix.smul_mulVec, Matrix.fromBlocks_mulVec, d, Pi.add_apply,
      Pi.smul_apply, Sum.elim_inr, Function.comp_def, Matrix.zero_mulVec, smul_eq_mul]
    simp only [Sum.elim_inl, Sum.elim_inr, Pi.add_apply, Pi.smul_apply, smul_eq_mul, Pi.zero_apply,
      Pi.sub_apply, Matrix.mulVec_smul, Matrix.mulVec_neg, Pi.neg_apply] at hqi ⊢
    have e1 : (Mqb *ᵥ db) i = (s * s)⁻¹ * (Mqb *ᵥ ab) i := by
      simp [db, Matrix.mulVec_smul]
    have e2 : (Bqb *ᵥ db) i = (s * s)⁻¹ * (Bqb *ᵥ ab) i := by
      simp [db, Matrix.mulVec_smul]
    have hq' : s * s * (Mqq *ᵥ dq) i + s * (Bqq *ᵥ dq) i + (Kqq *ᵥ dq) i
        = -(s⁻¹ * (Bqb *ᵥ ab) i) - (Mqb *ᵥ ab) i := by
      have := hqi
      simp [Matrix.mulVec_smul, Matrix.mulVec_neg] at this
      exact this
    rw [e1, e2]
    field_simp
    field_simp at hq'
    linear_combination hq'

end PyYetiVerif.C06
