import PyYetiVerif.Props.C04
/-!
C04, ASCII files, the statement at the level of the whole file and of bit patterns.

`file_roundtrip_ascii` says what the ASCII reader returns as exact decimals (`ADecOf`: per element the printed
decimal `aEntry d cplx x`); `read_back_bits_finite` says that `float()` of one printed field is the double that
was printed.  Here the two are composed: `file_roundtrip_ascii_bits` (dense read) and
`sparse_view_ascii_toarray` (the `sparse=True` read and its `.toarray()`), both about `entryBits`, the element
the reader stores (`float(re)` resp. `float(re) + 1j * float(im)`).
-/
namespace PyYetiVerif.C04
open PyYetiVerif.Op4 PyYetiVerif.Op4A PyYetiVerif.Generated.Op4Consts
open List (Forall₂)

/-- one double the bits theorems cover: a finite 64-bit pattern, and — the hypothesis `read_back_bits` carries
since the repair of F3 — not `Wide` (negative with a three-digit exponent, printed with one digit less) unless
`digits ≥ 17` -/
def FinD (d b : Nat) : Prop := b < 2 ^ 64 ∧ isFiniteD b = true ∧ (Wide d b = false ∨ 17 ≤ d)

/-- one element of a matrix: the real part, and for a complex matrix the imaginary part -/
def EntryFin (d : Nat) (cplx : Bool) (x : Entry) : Prop := FinD d x.1 ∧ (cplx = true → FinD d x.2)

/-- every element of every matrix of the file -/
def FileFin (d : Nat) (ms : List (Layout × Mat)) : Prop :=
  ∀ p ∈ ms, ∀ col ∈ p.2.cols, ∀ x ∈ col, EntryFin d p.2.cplx x

instance (d b : Nat) : Decidable (FinD d b) := by unfold FinD; infer_instance
instance (d : Nat) (cplx : Bool) (x : Entry) : Decidable (EntryFin d cplx x) := by unfold EntryFin; infer_instance
instance (d : Nat) (ms : List (Layout × Mat)) : Decidable (FileFin d ms) := by unfold FileFin; infer_instance

/-- `read_back_bits_finite` without the `Option`: the decimal the field denotes rounds to the double printed -/
theorem decBits_decOf_fin (d b : Nat) (hd : 16 ≤ d) (hd' : d ≤ 5000) (h : FinD d b) : decBits (decOf d b) = b := by
  obtain ⟨h64, hfin, hw⟩ := h
  have key := read_back_bits_finite d b hd hd' h64 hfin hw
  rw [field_roundtrip d b (by omega), Option.map_some] at key
  exact Option.some.inj key

/-- `+0.0` needs no hypothesis -/
theorem decBits_decOf_pzero (d : Nat) (hd' : d ≤ 5000) : decBits (decOf d 0) = 0 := by
  cases hwd : Wide d 0 with
  | false => rw [(decOf_cases d 0).1 hwd]; exact decBits_decOf_zero d 0 hd' (by norm_num) (by norm_num)
  | true => rw [(decOf_cases d 0).2 hwd]; exact decBits_decOf_zero (d - 1) 0 (by omega) (by norm_num) (by norm_num)

theorem decBits_zero : decBits Dec10.zero = 0 := by
  decide

theorem finite_not_inf (b : Nat) (h : isFiniteD b = true) :
    ¬ b % 9223372036854775808 = 9218868437227405312 := by
  unfold isFiniteD at h
  have : b / 4503599627370496 % 2048 ≠ 2047 := by simpa using h
  omega

/-- **one element.**  The element the reader stores for the printed decimals of `x` is `x` itself, bit for bit
(a real matrix has no imaginary part: `normE`; a complex element passes through `re + 1j * im`: `cooEntry`, which
changes nothing but the sign of a zero part) -/
theorem entryBits_aEntry (d : Nat) (hd : 16 ≤ d) (hd' : d ≤ 5000) (cplx : Bool) (x : Entry)
    (h : x = (0, 0) ∨ EntryFin d cplx x) :
    entryBits cplx (aEntry d cplx x) = cooEntry cplx (normE cplx x) := by
  have h1 : decBits (decOf d x.1) = x.1 := by
    rcases h with rfl | h
    · exact decBits_decOf_pzero d hd'
    · exact decBits_decOf_fin d x.1 hd hd' h.1
  cases cplx with
  | false =>
    simp only [entryBits, aEntry, normE, cooEntry, Bool.false_eq_true, false_and, if_false, h1]
  | true =>
    have h2 : decBits (decOf d x.2) = x.2 := by
      rcases h with rfl | h
      · exact decBits_decOf_pzero d hd'
      · exact decBits_decOf_fin d x.2 hd hd' (h.2 rfl)
    have hfin : ¬ x.2 % 9223372036854775808 = 9218868437227405312 := by
      rcases h with rfl | h
      · norm_num
      · exact finite_not_inf x.2 (h.2 rfl).2.1
    simp only [entryBits, aEntry, normE, if_true, h1, h2, true_and, hfin, if_false]

theorem entryBits_zero (cplx : Bool) : entryBits cplx (Dec10.zero, Dec10.zero) = cooEntry cplx (0, 0) := by
  cases cplx <;> simp [entryBits, decBits_zero, cooEntry, negZero]

/-- every element of a rebuilt column is `+0.0` or a written element (without the imaginary part of a real one) -/
theorem decCol_mem (lay : Layout) (cplx : Bool) (col : List Entry) (y : Entry) (hy : y ∈ decCol lay cplx col) :
    y = (0, 0) ∨ ∃ x ∈ col, y = normE cplx x := by
  have hcanon : y ∈ canonCol cplx col → y = (0, 0) ∨ ∃ x ∈ col, y = normE cplx x := by
    intro hy
    simp only [canonCol, List.mem_map] at hy
    obtain ⟨x, hx, rfl⟩ := hy
    unfold canonEntry
    by_cases hz : x.isZero cplx = true
    · left; simp [hz]
    · right; exact ⟨x, hx, by cases cplx <;> simp [hz, normE]⟩
  unfold decCol at hy
  split at hy
  · next s tl _ =>
    simp only [List.mem_append] at hy
    rcases hy with (hy | hy) | hy
    · left; exact (List.mem_replicate.1 (List.mem_of_mem_take hy)).2
    · right
      simp only [List.mem_map] at hy
      obtain ⟨x, hx, rfl⟩ := hy
      exact ⟨x, List.mem_of_mem_drop (List.mem_of_mem_take hx), rfl⟩
    · left; exact (List.mem_replicate.1 (List.mem_of_mem_drop hy)).2
  · exact hcanon hy

/-- the stored element of a read decimal pair is the column element it was printed from -/
theorem readOf_bits (d : Nat) (hd : 16 ≤ d) (hd' : d ≤ 5000) (cplx : Bool) (col : List Entry)
    (hcol : ∀ x ∈ col, EntryFin d cplx x) (lay : Layout) (y : Entry) (hy : y ∈ decCol lay cplx col) (a : AEntry)
    (h : ReadOf d cplx y a) : entryBits cplx a = cooEntry cplx y := by
  rcases h with rfl | ⟨rfl, rfl⟩
  · rcases decCol_mem lay cplx col y hy with rfl | ⟨x, hx, rfl⟩
    · have := entryBits_aEntry d hd hd' cplx (0, 0) (Or.inl rfl)
      rw [this]; cases cplx <;> rfl
    · rw [aEntry_normE, entryBits_aEntry d hd hd' cplx x (Or.inr (hcol x hx))]
  · exact entryBits_zero cplx

theorem forall₂_map_eq {α β γ} (R : α → β → Prop) (f : α → γ) (g : β → γ) :
    ∀ (l₁ : List α) (l₂ : List β), Forall₂ R l₁ l₂ → (∀ a ∈ l₁, ∀ b, R a b → g b = f a) → l₂.map g = l₁.map f
  | _, _, Forall₂.nil, _ => rfl
  | _, _, @Forall₂.cons _ _ _ a b l₁ l₂ hab ht, h => by
    rw [List.map_cons, List.map_cons, h a List.mem_cons_self b hab,
      forall₂_map_eq R f g l₁ l₂ ht fun a' ha' => h a' (List.mem_cons_of_mem _ ha')]

/-- what `op4.load` returns for one matrix of a written ASCII file, as bit patterns: `ADecOf` (name field, rows
with the bigmat sign, columns, form, type, the line format) and the matrix the puts build, every element taken
through `entryBits` (`float()`, for complex `re + 1j * im`), is the written matrix `decCol` — bit-identical
values, `-0.0` outside the written strings reads as `+0.0` (`decCol_spec`), `cooEntry` touches zero parts of
complex elements only -/
def ABitsOf (d : Nat) (p : Layout × Mat) (a : ADec) : Prop :=
  ADecOf d p a ∧ ∃ XA, applyPutsA p.2.rows p.2.cols.length a.puts = some XA ∧
    XA.map (fun colA => colA.map (entryBits p.2.cplx)) =
      p.2.cols.map fun col => (decCol p.1 p.2.cplx col).map (cooEntry p.2.cplx)

theorem aBitsOf_of_aDecOf (d : Nat) (hd : 16 ≤ d) (hd' : d ≤ 5000) (p : Layout × Mat) (a : ADec)
    (hfin : ∀ col ∈ p.2.cols, ∀ x ∈ col, EntryFin d p.2.cplx x) (h : ADecOf d p a) : ABitsOf d p a := by
  refine ⟨h, ?_⟩
  obtain ⟨_, _, _, _, _, _, _, XA, hXA, hrel⟩ := h
  refine ⟨XA, hXA, ?_⟩
  have e : (p.2.cols.map fun col => (decCol p.1 p.2.cplx col).map (cooEntry p.2.cplx)) =
      (p.2.cols.map (decCol p.1 p.2.cplx)).map (fun ys => ys.map (cooEntry p.2.cplx)) := by
    rw [List.map_map]; rfl
  rw [e]
  refine forall₂_map_eq _ (fun ys => ys.map (cooEntry p.2.cplx)) _ _ XA hrel ?_
  intro ys hys colA hcolrel
  rw [List.mem_map] at hys
  obtain ⟨col, hcol, rfl⟩ := hys
  exact forall₂_map_eq _ (cooEntry p.2.cplx) _ _ colA hcolrel fun y hy b hb =>
    readOf_bits d hd hd' p.2.cplx col (hfin col hcol) p.1 y hy b hb

/-- **file_roundtrip_ascii_bits.**  `file_roundtrip_ascii` and `read_back_bits_finite` composed into one
statement about `op4.write(..., binary=False, digits=d)` followed by `op4.load(into='list', sparse=False)`, in bit
patterns.  For `16 ≤ d ≤ 73`, every non-empty list of matrices in the hypotheses of `file_roundtrip_ascii`
(`MatOK`; real and complex, dense / bigmat / nonbigmat as resolved by the writer) whose elements are all finite
doubles (`FileFin`; this carries, per value, the hypothesis of `read_back_bits`: `Wide d b = false ∨ 17 ≤ d` —
with the default 16 digits a negative value with a three-digit exponent is printed with 16 significant digits
only and is excluded): the reader returns one `ADec` per matrix, in file order, with the name, shape, form and
type of `ADecOf`, and the matrix it builds holds at every position exactly the bits written (`ABitsOf`). -/
theorem file_roundtrip_ascii_bits (d : Nat) (hd : 16 ≤ d) (hd' : d ≤ 73) (ms : List (Layout × Mat)) (hne : ms ≠ [])
    (hok : ∀ p ∈ ms, MatOK d p) (hfin : FileFin d ms) :
    ∃ ds, loadAscii (encFileAscii d ms) = some ds ∧ Forall₂ (ABitsOf d) ms ds := by
  obtain ⟨ds, hds, hrel⟩ := file_roundtrip_ascii d (by omega) hd' ms hne hok
  refine ⟨ds, hds, ?_⟩
  clear hds hne hok
  induction hrel with
  | nil => exact Forall₂.nil
  | @cons p a ps as hpa _ ih =>
    refine Forall₂.cons (aBitsOf_of_aDecOf d hd (by omega) p a (hfin p List.mem_cons_self) hpa) ?_
    exact ih fun q hq => hfin q (List.mem_cons_of_mem _ hq)

/-- entry by entry: a non-zero element (finite parts) of a written column is read back with exactly its bits -/
theorem ascii_bits_entry (d : Nat) (p : Layout × Mat) (a : ADec) (h : ABitsOf d p a) (c : Nat) (col : List Entry)
    (hc : p.2.cols[c]? = some col) (i : Nat) (x : Entry) (hx : col[i]? = some x) (hnz : x.isZero p.2.cplx = false) :
    ∃ XA colA y, applyPutsA p.2.rows p.2.cols.length a.puts = some XA ∧ XA[c]? = some colA ∧ colA[i]? = some y ∧
      entryBits p.2.cplx y = cooEntry p.2.cplx (normE p.2.cplx x) := by
  obtain ⟨_, XA, hXA, hmap⟩ := h
  have h1 := congrArg (fun L => L[c]?) hmap
  simp only [List.getElem?_map, hc, Option.map_some] at h1
  cases hXc : XA[c]? with
  | none => rw [hXc] at h1; cases h1
  | some colA =>
    rw [hXc, Option.map_some, Option.some.injEq] at h1
    have h2 := congrArg (fun L => L[i]?) h1
    obtain ⟨yb, hyb, hyv, _⟩ := decCol_entry p.1 p.2.cplx col i x hx
    simp only [List.getElem?_map, hyb, Option.map_some] at h2
    cases hyi : colA[i]? with
    | none => rw [hyi] at h2; cases h2
    | some y =>
      rw [hyi, Option.map_some, Option.some.injEq] at h2
      exact ⟨XA, colA, y, hXA, hXc, hyi, by rw [h2, hyv hnz]⟩

/-- the triplets of the bit-level sparse view: `cooListA` through `entryBits` is the binary reader's `cooList` -/
theorem cooListA_bits (d : Nat) (hd : 16 ≤ d) (hd' : d ≤ 5000) (lay : Layout) (cplx : Bool) :
    ∀ (cols : List (List Entry)) (c : Nat), (∀ col ∈ cols, ∀ x ∈ col, EntryFin d cplx x) →
      (cooListA d lay cplx c cols).map (fun t => (t.1, t.2.1, entryBits cplx t.2.2)) = cooList lay cplx c cols
  | [], _, _ => rfl
  | col :: t, c, h => by
    simp only [cooListA, cooList, List.map_append, List.map_map]
    rw [cooListA_bits d hd hd' lay cplx t (c + 1) fun col' hc => h col' (List.mem_cons_of_mem _ hc)]
    congr 1
    apply List.map_congr_left
    intro r _
    simp only [Function.comp]
    have hx : col.getD r (0, 0) = (0, 0) ∨ EntryFin d cplx (col.getD r (0, 0)) := by
      rw [List.getD_eq_getElem?_getD]
      cases hr : col[r]? with
      | none => left; rfl
      | some x => right; exact h col List.mem_cons_self x (List.mem_of_getElem? hr)
    rw [entryBits_aEntry d hd hd' cplx _ hx]

/-- **sparse_view_ascii_toarray.**  `op4.load(sparse=True)` on a written ASCII file (hypotheses of
`file_roundtrip_ascii_bits`): per matrix the triplets returned, values as bit patterns (`entryBits`), are exactly
the triplets `cooList` the binary reader returns for the same matrices (`coo_view_correct`: the stored rows of
`storedIdx_spec`, column by column, the written bits through `re + 1j * im`), the column reader and the
`sparse=None` rule are `layOf` / `autoOf`, and `.toarray()` of it (`cooToDense`, any addition with
`0.0 + v = pz v`) is the dense read `decCol` with `-0.0 ↦ +0.0` — what `file_roundtrip_ascii_bits` gives for
`sparse=False`, up to the sign of zeros. -/
theorem sparse_view_ascii_toarray (d : Nat) (hd : 16 ≤ d) (hd' : d ≤ 73) (ms : List (Layout × Mat)) (hne : ms ≠ [])
    (hok : ∀ p ∈ ms, MatOK d p) (hfin : FileFin d ms) :
    ∃ ds, loadAscii (encFileAscii d ms) = some ds ∧
      Forall₂ (fun (p : Layout × Mat) (a : ADec) => ABitsOf d p a ∧ a.layout = layOf p.1 p.2 ∧
        a.sparseAuto = autoOf p.1 p.2 ∧
        (cooOfPutsA a.puts).map (fun t => (t.1, t.2.1, entryBits p.2.cplx t.2.2)) = cooList p.1 p.2.cplx 0 p.2.cols ∧
        ∀ add : Entry → Entry → Entry, (∀ v, add (0, 0) v = pz v) →
          cooToDense add p.2.rows p.2.cols.length
              ((cooOfPutsA a.puts).map fun t => (t.1, t.2.1, entryBits p.2.cplx t.2.2)) =
            p.2.cols.map fun col => (decCol p.1 p.2.cplx col).map fun y => pz (cooEntry p.2.cplx y)) ms ds := by
  obtain ⟨ds, hds, hrel⟩ := sparse_views_ascii d (by omega) hd' ms hne hok
  refine ⟨ds, hds, ?_⟩
  have hlen : ∀ p ∈ ms, ∀ col ∈ p.2.cols, col.length = p.2.rows := fun p hp => (hok p hp).1.cols_len
  clear hds hne hok
  induction hrel with
  | nil => exact Forall₂.nil
  | @cons p a ps as hpa _ ih =>
    refine Forall₂.cons ?_ (ih (fun q hq => hfin q (List.mem_cons_of_mem _ hq))
      fun q hq => hlen q (List.mem_cons_of_mem _ hq))
    obtain ⟨hdec, hlay, hauto, hcoo⟩ := hpa
    have hf := hfin p List.mem_cons_self
    have hc : (cooOfPutsA a.puts).map (fun t => (t.1, t.2.1, entryBits p.2.cplx t.2.2)) =
        cooList p.1 p.2.cplx 0 p.2.cols := by
      rw [hcoo]; exact cooListA_bits d hd (by omega) p.1 p.2.cplx p.2.cols 0 hf
    refine ⟨aBitsOf_of_aDecOf d hd (by omega) p a hf hdec, hlay, hauto, hc, ?_⟩
    intro add hadd
    rw [hc]
    exact cooToDense_cooList add hadd p.1 p.2.cplx p.2.rows p.2.cols (hlen p List.mem_cons_self)

/-- non-vacuity of `file_roundtrip_ascii_bits` / `sparse_view_ascii_toarray`: a 2x2 complex matrix (with a
`-0.0` imaginary part, a subnormal, `0.30000000000000004`, and `-1e-200`, which is `Wide`, so `digits = 17`)
satisfies the hypotheses, and the conclusion computed: every non-zero part comes back bit-identical, the `-0.0`
imaginary part as `+0.0` (`re + 1j * im`); with `digits = 16` the `Wide` value is excluded by `FileFin` -/
example :
    let m : Mat := { name := [90, 49], form := 1, cplx := true, rows := 2,
                     cols := [[(0x3FF8000000000000, 0xBFD3333333333334), (0, 0)],
                              [(0x3FD3333333333334, 0x8000000000000000), (0x96687E92154EF7AC, 0x0000000000000001)]] }
    MatOK 17 (.dense, m) ∧ FileFin 17 [(.dense, m)] ∧ ¬ FileFin 16 [(.dense, m)] ∧
      (loadAscii (encFileAscii 17 [(.dense, m)])).map (fun ds => ds.map fun a =>
          (applyPutsA 2 2 a.puts).map fun XA => XA.map fun colA => colA.map (entryBits true)) =
        some [some [[(0x3FF8000000000000, 0xBFD3333333333334), (0, 0)],
                    [(0x3FD3333333333334, 0), (0x96687E92154EF7AC, 0x0000000000000001)]]] := by
  refine ⟨⟨⟨by decide, by decide, by decide, by decide, by decide, by decide⟩, by decide⟩, ?_, ?_, ?_⟩ <;>
    decide +kernel

end PyYetiVerif.C04
