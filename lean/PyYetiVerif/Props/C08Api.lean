import PyYetiVerif.Lemmas.GenMachineApi
import PyYetiVerif.Props.C08Init
/-!
# C08 — call sequences on one solver object

`Model/GenMachineApi.lean`: the solver object as an explicit state machine over API calls
(`generator()`, `gen.send` to any generator ever created, `tsolve()`, `finalize()`, `get_f2x()`),
with the state the code really keeps between calls: the slot `_d, _v, _a, _force` (set by
`generator()`, deleted by `finalize()`) and the arrays each generator object holds on to.

`api_sequence_refines`: on every admissible call sequence the object answers exactly like the
specification in which generators are independent pure histories; `spec_finalize_is_tsolve`
says what those answers are in batch terms.  What the shared slot does to interleavings is
NAMED by the three witnesses at the end (`latest_generator_wins`, `second_finalize_fails`,
`resumed_generator_unaffected`).
-/
namespace PyYetiVerif.C08
open PyYetiVerif.GenMachine

section api
variable {V X W A O Q Y : Type} [Add V] [Add X] [Add W]

/-- ★ every interleaving the code permits: `generator()` any number of times on the same object,
sends to any of the generators in any order (each obeying the protocol for ITS OWN history),
`tsolve()`, `get_f2x()` and `finalize()` anywhere.  The object's answers are those of the
specification: a generator's arrays depend only on what was sent to that generator (no state is
shared between generators, nor with `tsolve` / `get_f2x`), `tsolve` and `get_f2x` are pure, and
`finalize()` reports the generator created LAST (the one slot) — `AttributeError` if there is none
or it was already finalized. -/
theorem api_sequence_refines (S : Solver V X W A O Q Y)
    (hstart : ∀ o f0, (S.start o f0).cur = 0) (cs : List (Call V O Q))
    (hadm : AdmissibleAll S Spec.new cs) :
    (objRun S Obj.new cs).2 = (specRun S Spec.new cs).2 :=
  (rel_run S hstart cs Obj.new Spec.new (rel_new S) hadm).1

end api

section batch
variable {V X W A O Q Y : Type} [Add V] [AddSemigroup X] [Add W] [Zero V] [Zero X] [Zero W]

/-- ★ … and the specification's answers are the batch answers: for a solver whose `generator()`
starts on the first column `tsolve()` marches from (`gen_start_eq_batch_start`), the record
`finalize` builds from a generator's history equals, on every step that generator completed,
what `tsolve(force in effect, same options)` returns — whatever else happened on the object in
between. -/
theorem spec_finalize_is_tsolve (S : Solver V X W A O Q Y) (hL : AddOnAdditive S.L)
    (hinit : ∀ o f0 force, force 0 = f0 → S.start o f0 = init S.L f0 (S.x0 o force))
    (sg : SpecGen V O) (gf : Bool) (hv : Valid S.L (S.start sg.o sg.f0) sg.ops) :
    let fr := finalizeRec S.acc sg.nt gf (sg.state S)
    ∀ j, j ≤ (sg.state S).cur →
      fr.cols j = tsolve S.L S.acc (sg.state S).force (S.x0 sg.o (sg.state S).force) j := by
  intro fr j hj
  have h0 := hinit sg.o sg.f0 (upd (fun _ => 0) 0 sg.f0) (upd_same _ _ _)
  have hst : sg.state S = run S.L (init S.L sg.f0 (S.x0 sg.o (upd (fun _ => 0) 0 sg.f0))) sg.ops := by
    simp only [SpecGen.state, h0]
  rw [h0] at hv
  obtain ⟨_, _, h, _, _⟩ := finalize_partial_history S.L hL S.acc sg.f0 _ sg.nt gf sg.ops hv
  have hf0 : (sg.state S).force 0 = sg.f0 := by
    rw [hst]; exact (visible_eq_batch S.L hL sg.f0 _ sg.ops hv).1
  have hx : S.x0 sg.o (sg.state S).force = S.x0 sg.o (upd (fun _ => 0) 0 sg.f0) := by
    have e1 := hinit sg.o sg.f0 (sg.state S).force hf0
    have e2 : init S.L sg.f0 (S.x0 sg.o (sg.state S).force) =
        init S.L sg.f0 (S.x0 sg.o (upd (fun _ => 0) 0 sg.f0)) := e1.symm.trans h0
    have := congrFun (congrArg State.x e2) 0
    simpa only [init, upd_same] using this
  rw [hx]
  simp only [fr, hst]
  exact h j (by rw [hst] at hj; exact hj)

end batch

/-! ### the interleavings in which the shared slot shows, with witnesses

A scalar solver over `ℤ` (`exL` of `Props/C08.lean`): options = the initial state, acceleration
`x + f`. -/

def exSolver : Solver Int Int Int Int Int Unit Int :=
  { L := exL, start := fun o f0 => init exL f0 o, x0 := fun o _ => o, acc := fun x f => x + f,
    f2x := fun _ => 5 }

/-- column `j` of the `k`-th answer if that answer is a solution record -/
def solCol (outs : List (Out Int Int Int Int Int)) (k j : Nat) : Option (Int × Int × Int) :=
  match outs[k]? with
  | some (.sol r) => some (r.cols j)
  | _ => none

def isAttrErr (outs : List (Out Int Int Int Int Int)) (k : Nat) : Bool :=
  match outs[k]? with
  | some (.err .attr) => true
  | _ => false

/-- WITNESS 1 — the latest `generator()` wins: generator A is driven to its last step, then
`generator()` is called again on the same object (B); `finalize()` now returns B's arrays
(zeros beyond column 0), not the solution of A's history — although A's own arrays still hold
the batch values (`resumed_generator_unaffected`). -/
theorem latest_generator_wins :
    let cs : List (Call Int Int Unit) :=
      [.generator 3 1 1, .send 0 (.send 1 4), .send 0 (.send 2 6), .generator 3 2 9,
        .finalize false]
    solCol (objRun exSolver Obj.new cs).2 4 1 = some (0, 0, 0) ∧
      solCol (objRun exSolver Obj.new cs).2 4 0 = some (2, 63, 11) ∧
      (tsolve exL exSolver.acc (fun j => [1, 4, 6].getD j 0) 1 1) = (25, 28, 29) := by
  decide

/-- WITNESS 2 — `finalize()` consumes the slot: a second `finalize()` (or one before any
`generator()`) answers `AttributeError`. -/
theorem second_finalize_fails :
    isAttrErr (objRun exSolver Obj.new [.generator 3 1 1, .send 0 (.send 1 4), .finalize true,
      .finalize true]).2 3 = true ∧
    isAttrErr (objRun exSolver Obj.new [.finalize false]).2 0 = true := by
  decide

/-- WITNESS 3 — a generator resumed after `generator()` and `tsolve()` were called again on its
solver continues from its own arrays: the interleaving is admissible and the first generator's
state is the run of its own three requests. -/
theorem resumed_generator_unaffected :
    let cs : List (Call Int Int Unit) :=
      [.generator 4 1 1, .send 0 (.send 1 4), .generator 4 2 9, .send 1 (.send 1 3),
        .tsolve 4 1 (fun j => [1, 4, 6, 2].getD j 0), .send 0 (.send 2 6), .send 0 (.addon 1)]
    AdmissibleAll exSolver Spec.new cs ∧
      (((objRun exSolver Obj.new cs).1.gens 0).map fun g => (g.a.s.x 2, g.a.s.cur)) =
        some ((run exL (init exL 1 1) [.send 1 4, .send 2 6, .addon 1]).x 2, 2) := by
  refine ⟨?_, by decide⟩
  simp [AdmissibleAll, Admissible, specStep, Spec.new, upd, SpecGen.state, exSolver, run,
    ValidOp, OpInHorizon, init, step, sendAt]

/-- the hypotheses of the two theorems are inhabited by `exSolver` -/
example : ∀ o f0, (exSolver.start o f0).cur = 0 := fun _ _ => rfl
example : ∀ o f0 (force : Nat → Int), force 0 = f0 →
    exSolver.start o f0 = init exSolver.L f0 (exSolver.x0 o force) := fun _ _ _ _ => rfl

end PyYetiVerif.C08
