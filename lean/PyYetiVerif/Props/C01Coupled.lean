import PyYetiVerif.Lemmas.SuCoefCoupledBlocks
/-!
# C01 — the coupled (complex-eigenvalue) path of `SolveUnc`

`decoupled_recovers`: abstract linear algebra.  If `A U = U Λ` and `U V = 1`, one step of the modal
recurrence `y⁺ = Fe y + Ae w₀ + Be w₁` with the code's coefficients (`cplxCoef`, or `cplxSmall`
for a zero eigenvalue), started at `y = V z₀` with `w = V g` and mapped back through `U`, is the
state at `t = h` of THE solution of `z' = A z + g(t)`, `z 0 = z₀`, for `g` linear on the step
(order 1) or held (order 0).  The eigen-decomposition is a hypothesis (`scipy.linalg.eig` is not
modelled); the correspondence check feeds the implementation's own `lam, ur, ur_inv` and measures
how well they satisfy the hypotheses.

`coupled_step_exact`, `coupled_run_exact`: the same for the model of `_solve_complex_unc`
(`Model/SuCoefCoupled.lean`: `modalInit`, `modalForce`, `stepModal`, `runModal`, `recoverCplx`) and
the second-order equation `M d'' + B d' + K d = f(t)`: the `d` and `v` blocks the code extracts
(`ur_d @ y`, `ur_v @ y`) are those of the state `z = [v; d]`.
-/
namespace PyYetiVerif.C01
open PyYetiVerif.SuCoef Matrix

variable {ι κ : Type*} [Fintype ι] [Fintype κ] [DecidableEq ι] [DecidableEq κ]

/-- the modal recurrence mapped back through the eigenvectors gives the exact hold solution of
the first-order state equation -/
theorem decoupled_recovers (A : Matrix ι ι ℂ) (U : Matrix ι κ ℂ) (V : Matrix κ ι ℂ) (lam : κ → ℂ)
    (sm : κ → Bool) (hUV : U * V = 1) (hAU : A * U = U * diagonal lam)
    (hsm : ∀ k, (sm k = true → lam k = 0) ∧ (sm k = false → lam k ≠ 0))
    (h : ℝ) (hh : h ≠ 0) (order1 : Bool) (z0 g0 g1 : ι → ℂ) :
    (∃ z, IsStateSol A g0 (if order1 then ((h : ℂ)⁻¹) • (g1 - g0) else 0) z0 z) ∧
    ∀ z, IsStateSol A g0 (if order1 then ((h : ℂ)⁻¹) • (g1 - g0) else 0) z0 z →
      z h = U *ᵥ fun k => stepCplx order1 (if sm k then cplxSmall (h : ℂ) else cplxCoef (lam k) h)
        ((V *ᵥ z0) k) ((V *ᵥ g0) k) ((V *ᵥ g1) k) := by
  have hs := zModal_isStateSol A U V lam sm hUV hAU hsm g0
    (if order1 then ((h : ℂ)⁻¹) • (g1 - g0) else 0) z0
  refine ⟨⟨_, hs⟩, fun z hz => ?_⟩
  rw [hz.unique hs]
  simp only [zModal]
  congr 1
  funext k
  have hc : (h : ℂ) ≠ 0 := by exact_mod_cast hh
  cases order1 with
  | true =>
    simp only [if_true]
    rw [yMode_step (sm k) (lam k) h _ _ _ (hsm k).2 hc]
    congr 1
    simp only [Matrix.mulVec_smul, Matrix.mulVec_sub, Pi.smul_apply, Pi.sub_apply, smul_eq_mul]
    field_simp
  | false =>
    simp only [Bool.false_eq_true, if_false]
    rw [yMode_step0 (sm k) (lam k) h _ _ _ (hsm k).2 hc]
    simp

/-- one step of the model of `_solve_complex_unc` (complex `systype`: `d = ur_d @ y`,
`v = ur_v @ y`) is the state at `t = h` of THE solution of `M d'' + B d' + K d = f(t)` started at
`(d₀, v₀)`, with `f` linear between the two force samples (order 1) or held (order 0).
Hypotheses: `Mi = M⁻¹`; `ur ur_inv = 1`; `A ur = ur diag(lam)` for `A = [[-M⁻¹B, -M⁻¹K], [I, 0]]`;
the small-eigenvalue branch is taken exactly for the zero eigenvalues. -/
theorem coupled_step_exact {n N : ℕ} (e : Eig ℂ n N) (M Mi B K : Matrix (Fin n) (Fin n) ℂ)
    (isSmall : ℂ → Bool) (hMi : Mi * M = 1) (hUV : e.U * e.V = 1)
    (hAU : stateA Mi B K * e.U = e.U * diagonal e.lam)
    (hsm : ∀ k, (isSmall (e.lam k) = true → e.lam k = 0) ∧ (isSmall (e.lam k) = false → e.lam k ≠ 0))
    (h : ℝ) (hh : h ≠ 0) (order1 : Bool) (d0 v0 f0 f1 : Fin n → ℂ) :
    (∃ d v, IsSol2 M B K f0 (if order1 then ((h : ℂ)⁻¹) • (f1 - f0) else 0) d0 v0 d v) ∧
    ∀ d v, IsSol2 M B K f0 (if order1 then ((h : ℂ)⁻¹) • (f1 - f0) else 0) d0 v0 d v →
      d h = recoverCplx e.urD (stepModal order1 (fun k => coefSel isSmall (e.lam k) h)
          (modalInit e d0 v0) (modalForce e (Mi *ᵥ f0)) (modalForce e (Mi *ᵥ f1))) ∧
      v h = recoverCplx e.urV (stepModal order1 (fun k => coefSel isSmall (e.lam k) h)
          (modalInit e d0 v0) (modalForce e (Mi *ᵥ f0)) (modalForce e (Mi *ᵥ f1))) := by
  have hMi' : M * Mi = 1 := mul_eq_one_comm.1 hMi
  have key := decoupled_recovers (stateA Mi B K) e.U e.V e.lam (fun k => isSmall (e.lam k)) hUV hAU hsm
    h hh order1 (Sum.elim v0 d0) (Sum.elim (Mi *ᵥ f0) 0) (Sum.elim (Mi *ᵥ f1) 0)
  have hslope : (if order1 then ((h : ℂ)⁻¹) • (Sum.elim (Mi *ᵥ f1) 0 - Sum.elim (Mi *ᵥ f0) 0) else 0 :
      Fin n ⊕ Fin n → ℂ) = Sum.elim (Mi *ᵥ (if order1 then ((h : ℂ)⁻¹) • (f1 - f0) else 0)) 0 := by
    cases order1 with
    | true =>
      funext i
      cases i <;> simp [Matrix.mulVec_smul, Matrix.mulVec_sub]
    | false =>
      funext i
      cases i <;> simp
  rw [hslope] at key
  obtain ⟨⟨z, hz⟩, huniq⟩ := key
  refine ⟨⟨_, _, hz.toSol2 hMi'⟩, fun d v hdv => ?_⟩
  have := huniq _ (hdv.toState hMi)
  simp only [coefSel, modalInit_eq, modalForce_eq]
  constructor
  · funext j
    rw [recoverCplx_urD]
    exact congrFun this (Sum.inr j)
  · funext j
    rw [recoverCplx_urV]
    exact congrFun this (Sum.inl j)

/-- the whole modal loop: if moreover `ur_inv ur = 1`, then for every `j` the pair
`(ur_d @ y_{j+1}, ur_v @ y_{j+1})` is the state at `t = h` of THE solution of the equation of motion
with the hold forcing of step `j`, started from `(ur_d @ y_j, ur_v @ y_j)` — whatever modal state
`y` the loop was started from (`_solve_complex_unc` starts it from `modalInit`, and
`ur_d @ modalInit = d₀`, `ur_v @ modalInit = v₀` by `ur ur_inv = 1`) -/
theorem coupled_run_exact {n N : ℕ} (e : Eig ℂ n N) (M Mi B K : Matrix (Fin n) (Fin n) ℂ)
    (isSmall : ℂ → Bool) (hMi : Mi * M = 1) (hUV : e.U * e.V = 1) (hVU : e.V * e.U = 1)
    (hAU : stateA Mi B K * e.U = e.U * diagonal e.lam)
    (hsm : ∀ k, (isSmall (e.lam k) = true → e.lam k = 0) ∧ (isSmall (e.lam k) = false → e.lam k ≠ 0))
    (h : ℝ) (hh : h ≠ 0) (order1 : Bool) :
    ∀ (fs : List (Fin n → ℂ)) (y : Fin N → ℂ) (j : ℕ) (yj yj1 : Fin N → ℂ) (f0 f1 : Fin n → ℂ),
      (runModal order1 (fun k => coefSel isSmall (e.lam k) h) y
        (fs.map fun f => modalForce e (Mi *ᵥ f)))[j]? = some yj →
      (runModal order1 (fun k => coefSel isSmall (e.lam k) h) y
        (fs.map fun f => modalForce e (Mi *ᵥ f)))[j + 1]? = some yj1 →
      fs[j]? = some f0 → fs[j + 1]? = some f1 →
      ∀ d v, IsSol2 M B K f0 (if order1 then ((h : ℂ)⁻¹) • (f1 - f0) else 0)
          (recoverCplx e.urD yj) (recoverCplx e.urV yj) d v →
        d h = recoverCplx e.urD yj1 ∧ v h = recoverCplx e.urV yj1 := by
  intro fs
  induction fs with
  | nil => intro y j yj yj1 f0 f1 _ _ h3 _; simp at h3
  | cons g0 tl ih =>
    intro y j yj yj1 f0 f1 h1 h2 h3 h4
    cases tl with
    | nil => simp at h4
    | cons g1 rest =>
      simp only [List.map_cons] at h1 h2
      rw [runModal_cons_cons] at h1 h2
      cases j with
      | zero =>
        simp only [List.getElem?_cons_zero, Option.some.injEq] at h1 h3
        simp only [zero_add, List.getElem?_cons_succ, List.getElem?_cons_zero,
          Option.some.injEq] at h2 h4
        subst h1 h3 h4
        have hd : ∀ (y' : Fin N → ℂ) (ws : List (Fin N → ℂ)) (w : Fin N → ℂ),
            (runModal order1 (fun k => coefSel isSmall (e.lam k) h) y' (w :: ws))[0]? = some y' := by
          intro y' ws w
          cases ws <;> simp [runModal]
        rw [hd] at h2
        simp only [Option.some.injEq] at h2
        intro d v hdv
        have hy : modalInit e (recoverCplx e.urD y) (recoverCplx e.urV y) = y := by
          rw [modalInit_eq]
          have : Sum.elim (recoverCplx e.urV y) (recoverCplx e.urD y) = e.U *ᵥ y := by
            funext i
            cases i with
            | inl j => simp [recoverCplx_urV]
            | inr j => simp [recoverCplx_urD]
          rw [this, Matrix.mulVec_mulVec, hVU, Matrix.one_mulVec]
        have := (coupled_step_exact e M Mi B K isSmall hMi hUV hAU hsm h hh order1
          (recoverCplx e.urD y) (recoverCplx e.urV y) g0 g1).2 d v hdv
        rw [hy, h2] at this
        exact this
      | succ j =>
        simp only [List.getElem?_cons_succ] at h1 h2 h3 h4
        exact ih _ j yj yj1 f0 f1 h1 h2 h3 h4

/-! ### non-vacuity: a 1-DOF undamped oscillator `d'' + d = f`, `A = [[0, -1], [1, 0]]`,
eigenvalues `± i`, eigenvectors `[i, 1]`, `[-i, 1]` -/

/-- the eigen-decomposition of the oscillator as the record `pc` -/
noncomputable def oscEig : Eig ℂ 1 2 where
  lam := ![Complex.I, -Complex.I]
  urV := fun _ => ![Complex.I, -Complex.I]
  urD := fun _ => ![1, 1]
  invV := ![fun _ => -Complex.I / 2, fun _ => Complex.I / 2]
  invD := ![fun _ => 1 / 2, fun _ => 1 / 2]

example : oscEig.U * oscEig.V = 1 ∧ oscEig.V * oscEig.U = 1 ∧
    stateA (1 : Matrix (Fin 1) (Fin 1) ℂ) 0 1 * oscEig.U = oscEig.U * diagonal oscEig.lam := by
  refine ⟨?_, ?_, ?_⟩
  · ext i j
    rcases i with i | i <;> rcases j with j | j <;>
      simp [Matrix.mul_apply, Eig.U, Eig.V, oscEig, Fin.sum_univ_two, Matrix.one_apply,
        Subsingleton.elim i j] <;> ring_nf <;> simp [Complex.I_sq]
  · ext i j
    fin_cases i <;> fin_cases j <;>
      simp [Matrix.mul_apply, Eig.U, Eig.V, oscEig, Fintype.sum_sum_type] <;>
      ring_nf <;> simp [Complex.I_sq] <;> ring
  · ext i j
    rcases i with i | i <;> fin_cases j <;>
      simp [Matrix.mul_apply, Eig.U, oscEig, stateA, Fintype.sum_sum_type, Matrix.diagonal_apply,
        Matrix.one_apply, Subsingleton.elim i 0]

end PyYetiVerif.C01
