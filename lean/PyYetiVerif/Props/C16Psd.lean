import PyYetiVerif.Lemmas.ExtremaPsd
import PyYetiVerif.Props.C16
import Mathlib.Algebra.Order.Field.Rat
import Mathlib.Algebra.Order.Ring.Int
/-!
# C16 — PSD data recovery

Property theorems only.  Model `Model/ExtremaPsd.lean`, specification of the trapezoid rule
`Spec/ExtremaPsd.lean`; tied to `DR_Results.solvepsd / psd_data_recovery` by the `psd*` streams of
`harness/props/c16.py`.
-/
namespace PyYetiVerif.C16
open PyYetiVerif.Extrema PyYetiVerif.ExtremaPsd

section acc
variable {α : Type} [CommRing α]

/-- ★ the response PSD accumulated by `solvepsd` at one (row, frequency) is the SUM OVER THE FORCES
of `forcepsd_i · |resp_i|²`: the order of the forces is irrelevant and the result is linear in the
force PSDs (`c·F + F'` gives `c·PSD + PSD'` for the same unit responses). -/
theorem psd_recovery_is_sum_over_forces :
    (∀ fs : List (α × α × α), psdAcc fs = (fs.map fun p => p.1 * (p.2.1 * p.2.1 + p.2.2 * p.2.2)).sum) ∧
    (∀ fs fs' : List (α × α × α), fs.Perm fs' → psdAcc fs = psdAcc fs') ∧
    (∀ (c : α) (l : List (α × α × α × α)),
      psdAcc (l.map fun t => (c * t.1 + t.2.1, t.2.2)) =
        c * psdAcc (l.map fun t => (t.1, t.2.2)) + psdAcc (l.map fun t => (t.2.1, t.2.2))) := by
  refine ⟨fun fs => ?_, fun fs fs' hp => ?_, fun c l => ?_⟩
  · rw [psdAcc_eq_sum]
    rfl
  · rw [psdAcc_eq_sum, psdAcc_eq_sum]
    exact (hp.map term).sum_eq
  · simp only [psdAcc_eq_sum, List.map_map]
    induction l with
    | nil => simp
    | cons t l ih =>
      simp only [List.map_cons, List.sum_cons, Function.comp_apply, ih, term]
      ring

/-- … and the whole row of `_psd[case]` (all frequencies at once, as the code computes it) is that
sum at every frequency -/
theorem psd_row_is_sum_over_forces {nf : Nat} (forces : List ((Fin nf → α) × (Fin nf → α × α))) :
    psdRowAcc nf (forces.map fun p => (List.ofFn p.1, List.ofFn p.2))
      = List.ofFn fun k => psdAcc (forces.map fun p => (p.1 k, (p.2 k).1, (p.2 k).2)) := by
  have h0 : List.replicate nf (0 : α) = List.ofFn fun _ : Fin nf => (0 : α) := by
    apply List.ext_getElem <;> simp
  rw [psdRowAcc, h0, psdRowAcc_foldl]
  congr 1
  funext k
  rw [psdAcc_eq_sum, zero_add]

end acc

section rms
variable {α : Type} [Field α]

/-- ★ `_calc_rms` is the square root of the TRAPEZOID AREA under the PSD polygon (whatever the
square-root function; no hypothesis on lengths: both sides stop at the shorter list) … -/
theorem rms_is_trapz_sqrt (sqrt : α → α) (f p : List α) :
    calcRms sqrt f p = sqrt (trapz f p) := by
  rw [calcRms, area2_half]

/-- … so the peak is `peak_factor · sqrt(area)` and the apparent frequency
`sqrt(area of f²·PSD) / sqrt(area of PSD)` -/
theorem peak_is_factor_times_rms (sqrt : α → α) (pf : α) (f p : List α) :
    (peakOf sqrt pf f p).rms = sqrt (trapz f p) ∧
    (peakOf sqrt pf f p).pk = pf * sqrt (trapz f p) ∧
    (peakOf sqrt pf f p).pkFreq = sqrt (trapz f (velPsd f p)) / sqrt (trapz f p) := by
  simp only [peakOf, rms_is_trapz_sqrt, and_self]

/-- ★ the mean square (the area) is additive and homogeneous in the PSD: with
`psd_row_is_sum_over_forces`, the mean-square response to several uncorrelated forces is the sum
of the mean squares of the single-force responses. -/
theorem meansquare_is_linear (f p q : List α) (c : α) (h : p.length = q.length) :
    trapz f (List.zipWith (· + ·) p q) = trapz f p + trapz f q ∧
    trapz f (p.map (c * ·)) = c * trapz f p :=
  ⟨trapz_add f p q h, trapz_smul c f p⟩

end rms

section pipe
variable {α X L : Type} [AddCommGroup α] [LinearOrder α] [IsOrderedAddMonoid α]

/-- ★ `psd_data_recovery` of one row over ANY non-empty list of cases: the stored maximum is the
first-best of the cases' peaks (label = case, abscissa = its apparent frequency), the minimum is
the negated maximum with the same abscissa and label, and the per-case records are
`(pk, −pk)` in call order. -/
theorem psd_recovery_is_peak_extreme (c : L × Option α × X) (cs : List (L × Option α × X)) :
    ∃ r, (psdRow (c :: cs)).1 = some r ∧
      FirstBest id ((c :: cs).map fun c => (⟨c.2.1, c.2.2, c.1⟩ : Tr α X L)) r.hi ∧
      r.lo = negTr r.hi ∧
      (psdRow (c :: cs)).2 = (c :: cs).map fun c =>
        ((⟨c.2.1, c.2.2, c.1⟩ : Tr α X L), negTr (⟨c.2.1, c.2.2, c.1⟩ : Tr α X L)) := by
  have h := psdRow_foldl (c :: cs) (none : Option (Cur α X L)) []
  have hrun := run2_cons ((⟨c.2.1, c.2.2, c.1⟩ : Tr α X L), negTr (⟨c.2.1, c.2.2, c.1⟩ : Tr α X L))
    (cs.map fun c => ((⟨c.2.1, c.2.2, c.1⟩ : Tr α X L), negTr (⟨c.2.1, c.2.2, c.1⟩ : Tr α X L)))
  unfold run2 at hrun
  refine ⟨⟨runTr gtB ⟨c.2.1, c.2.2, c.1⟩ (cs.map fun c => (⟨c.2.1, c.2.2, c.1⟩ : Tr α X L)),
    negTr (runTr gtB ⟨c.2.1, c.2.2, c.1⟩ (cs.map fun c => (⟨c.2.1, c.2.2, c.1⟩ : Tr α X L)))⟩,
    ?_, ?_, rfl, ?_⟩
  · unfold psdRow
    rw [h]
    simp only [List.map_cons]
    rw [hrun]
    simp only [List.map_map, Function.comp_def]
    rw [← runTr_negTr]
    simp only [List.map_map, Function.comp_def]
  · simp only [List.map_cons]
    exact runTr_firstBest keyOrder_gt _ _
  · unfold psdRow
    rw [h]
    simp

end pipe

section srs
variable {α P : Type} [LinearOrder α]

/-- ★ SRS of PSD responses (`dosrs=True` in `psd_data_recovery`): after ANY non-empty list of cases the
envelope `srs.ext[q]` is, element by element, the NaN-ignoring MAXIMUM over the cases of the per-case
spectra `fact · vrs` (never a minimum, never only the cases recovered last), and it does not depend
on the order of the cases. -/
theorem psd_srs_env_is_max_over_cases (spec : P → Option α) (c : P) (cs : List P) :
    ∃ m, psdSrsEnv spec (c :: cs) = some m ∧ IsNanMax ((c :: cs).map spec) m ∧
      ∀ c' cs', (c :: cs).Perm (c' :: cs') → psdSrsEnv spec (c' :: cs') = some m := by
  refine ⟨_, rfl, srs_env_is_max _ _, fun c' cs' hp => ?_⟩
  simp only [psdSrsEnv, Option.some.injEq]
  exact (srs_env_order_independent _ _ _ _ (by simpa using hp.map spec)).symm

end srs

section srsscale
variable {α : Type} [Field α]

/-- the per-case spectrum is linear in the peak factor and in the vibration response spectrum, and
the `eqsine` option divides it by `Q` -/
theorem psd_srs_case_scaling (conv pf q vrs a : α) :
    psdSrsCase conv (a * pf) q false vrs = a * psdSrsCase conv pf q false vrs ∧
    psdSrsCase conv pf q false (a * vrs) = a * psdSrsCase conv pf q false vrs ∧
    psdSrsCase conv pf q true vrs = psdSrsCase conv pf q false vrs / q := by
  simp only [psdSrsCase, if_true, Bool.false_eq_true, if_false]
  refine ⟨by ring, by ring, by ring⟩

end srsscale

/-! ### non-vacuity -/

/-- `psd_recovery_is_sum_over_forces`: a genuine permutation of two different forces -/
example : ([(2, 1, 0), (3, 0, 2)] : List (Int × Int × Int)).Perm [(3, 0, 2), (2, 1, 0)] ∧
    psdAcc ([(2, 1, 0), (3, 0, 2)] : List (Int × Int × Int)) = 14 :=
  ⟨List.Perm.swap _ _ _, by decide⟩

/-- `rms_is_trapz_sqrt`: a three-point PSD with non-uniform spacing has area 1·(2+4)/2 + 2·(4+0)/2 = 7 -/
example : trapz ([1, 2, 4] : List ℚ) [2, 4, 0] = 7 ∧ area2 ([1, 2, 4] : List ℚ) [2, 4, 0] = 14 := by
  constructor <;> norm_num [trapz, area2, diffs, List.dropLast]

/-- `psd_recovery_is_peak_extreme`: three cases with a tie, fed out of order -/
example : (psdRow [("B", some (3 : Int), (7 : Nat)), ("A", some 5, 2), ("C", some 5, 9)]).1
    = some ⟨⟨some 5, 2, "A"⟩, ⟨some (-5), 2, "A"⟩⟩ := by decide

/-- `psd_srs_env_is_max_over_cases`: three cases with a NaN and a tie -/
example : psdSrsEnv (fun c : Option Int => c) [some 2, none, some 5, some 5] = some (some 5) := by decide

end PyYetiVerif.C16
