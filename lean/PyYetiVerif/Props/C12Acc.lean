import PyYetiVerif.Props.C12
import PyYetiVerif.Lemmas.NasFloatPickNeg
/-!
# C12, extension — the accuracy of `format_float8/16` over the whole dispatch; the mixed branch

Property theorems only.  `formatBound W c pos neg x` (Lemmas/NasFloatAcc) is the explicit piecewise
bound, defined by the same tests as the if-chains (the rows of the regenerated tables):

* zero: `0`;
* a fixed-notation row with `p` decimals: `halfUnit p = ½·10^-p`;
* a scientific branch: `sciBound c x = (½·10^-P + ½·10^-q)·10^E`, `E = sciExp c x` the exponent of
  `'%.{q}e' % x`, `P` the decimals the width leaves for the sign and the digits of `E`;
* a mixed branch: the bound of the alternative that is emitted;
* the final branches: `½` for the integers `dddddddd.` / `-ddddddd.`, `sciBound` beyond.
-/
namespace PyYetiVerif.C12
open PyYetiVerif.PyFloat PyYetiVerif.NasFloat PyYetiVerif.Generated.NasFloat

/-- **`format_float_accuracy`: one statement over the dispatch.**  For every fraction `x` that is
zero or has `10^-999 ≤ |x| < 10^999` (every finite double), `format_float8(x)` and
`format_float16(x)` are well-formed fields of exactly 8 / 16 characters, read back by `nas_sscanf`
as the real nearest to the decimal they denote, and that decimal is within the explicit piecewise
bound `formatBound` of `x`. -/
theorem format_float_accuracy (x : Dbl) (hd : 0 < x.den)
    (hr : x.num = 0 ∨ (x.den ≤ 10 ^ 999 * x.num ∧ x.num < 10 ^ 999 * x.den)) (k : Bool) :
    (∃ f : Fld, f.wf = true ∧ formatFloat8 x = rjust 8 f.text ∧ (formatFloat8 x).length = 8 ∧
        nasSscanf (formatFloat8 x) k = .flt (toBits f.dec.1 f.dec.2.1 f.dec.2.2) ∧
        |decRat f.dec - dblRat x| ≤ formatBound 8 sci8 pos8 neg8 x) ∧
    (∃ f : Fld, f.wf = true ∧ formatFloat16 x = rjust 16 f.text ∧ (formatFloat16 x).length = 16 ∧
        nasSscanf (formatFloat16 x) k = .flt (toBits f.dec.1 f.dec.2.1 f.dec.2.2) ∧
        |decRat f.dec - dblRat x| ≤ formatBound 16 sci16 pos16 neg16 x) := by
  obtain ⟨h8, h16⟩ := tables_format_ok
  obtain ⟨s8, s16, _⟩ := sci_consts_ok
  constructor
  · obtain ⟨f, hwf, hlen, hshape, hacc⟩ :=
      formatFloat_acc 8 sci8 pos8 neg8 posLast8 negLast8 s8 (by norm_num) h8 x hd hr
    have e : formatFloat8 x = rjust 8 f.text := hshape
    refine ⟨f, hwf, e, by rw [e]; exact rjust_length_of_le _ _ hlen, ?_, hacc⟩
    rw [e, rjust]; exact nasSscanf_field f hwf _ k
  · obtain ⟨f, hwf, hlen, hshape, hacc⟩ :=
      formatFloat_acc 16 sci16 pos16 neg16 posLast16 negLast16 s16 (by norm_num) h16 x hd hr
    have e : formatFloat16 x = rjust 16 f.text := hshape
    refine ⟨f, hwf, e, by rw [e]; exact rjust_length_of_le _ _ hlen, ?_, hacc⟩
    rw [e, rjust]; exact nasSscanf_field f hwf _ k

/-- the pieces of the bound, as equations: what `formatBound` is in each regime of the 8-wide
formatter (the 16-wide one is the same function of its own tables). -/
theorem format_bound_pieces :
    -- zero
    (∀ x : Dbl, x.num = 0 → formatBound 8 sci8 pos8 neg8 x = 0) ∧
    -- a branch is chosen by the first test of the chain that passes
    (∀ (W : Nat) (c : Sci) (neg : Bool) (lastB : Dbl → ℚ) (r : Row) (rs : List Row) (x : Dbl),
      chainBound W c neg lastB (r :: rs) x =
        if rowTest neg r x then rowBound W c neg r x else chainBound W c neg lastB rs x) ∧
    -- fixed-notation rows: half a unit of the last decimal
    (∀ (W : Nat) (c : Sci) (neg : Bool) (r : Row) (x : Dbl), (r.kind = 2 ∨ r.kind = 3) →
      rowBound W c neg r x = 1 / 2 * (10 : ℚ) ^ (-(r.prec : Int))) ∧
    -- scientific rows
    (∀ (W : Nat) (c : Sci) (neg : Bool) (r : Row) (x : Dbl), r.kind = 0 →
      rowBound W c neg r x = (1 / 2 * (10 : ℚ) ^ (-(sciPrec c x.neg (natDigits (sciExp c x).natAbs).length : Int)) +
        1 / 2 * (10 : ℚ) ^ (-(c.ePrec : Int))) * (10 : ℚ) ^ (sciExp c x)) ∧
    -- mixed rows: the bound of the alternative emitted
    (∀ (W : Nat) (c : Sci) (neg : Bool) (r : Row) (x : Dbl), r.kind = 1 →
      rowBound W c neg r x = if rowBody W c neg r x = formatScientific W c x then sciBound c x
        else 1 / 2 * (10 : ℚ) ^ (-(r.prec : Int))) := by
  refine ⟨fun x h => by simp [formatBound, h], fun _ _ _ _ _ _ _ => rfl, ?_, ?_, ?_⟩
  · intro W c neg r x h
    rcases h with h | h <;> simp [rowBound, h, halfUnit]
  · intro W c neg r x h
    simp [rowBound, h, sciBound]
  · intro W c neg r x h
    simp [rowBound, h, halfUnit]

/-- non-vacuity and a reading of the bound: for `x = 1.5` the 8-wide bound is `½·10^-6` (row
`[1, 10)`, six decimals), for `x = -123.456` it is `½·10^-3`. -/
example : formatBound 8 sci8 pos8 neg8 ⟨false, 3, 2⟩ = 1 / 2 * (10 : ℚ) ^ (-(6 : Int)) ∧
    formatBound 8 sci8 pos8 neg8 ⟨true, 123456, 1000⟩ = 1 / 2 * (10 : ℚ) ^ (-(3 : Int)) := by
  constructor <;> decide +kernel

/-! ## the mixed branch -/

/-- **which alternative the positive mixed branch picks** (`value < 0.001`; the test
`len(field2) <= W and float(field1) == float(field2)` in terms of the decimals of the two fields).
With `fs` the scientific field of `x` and `fx = .000ddd` the fixed-notation field with `p` decimals
(`N` = `x·10^p` rounded half-even): the branch returns `fx` **iff** `N > 0`, `fx` is at most `W`
characters wide and `fs`, `fx` read as the same double; otherwise it returns `fs`.  (`fs` carries the
scientific bound; `fx` is within `½·10^-p` of `x` by `fixed_branch_accuracy`.) -/
theorem mixed_branch_picks (W p : Nat) (c : Sci) (hc : SciOK W c 0) (hp : 1 ≤ p) (x : Dbl)
    (hneg : x.neg = false) (hn : 0 < x.num) (hd : 0 < x.den) (hlt1 : x.num < x.den)
    (hlo : x.den ≤ 10 ^ 999 * x.num) (hhi : x.num < 10 ^ 999 * x.den)
    (h8 : W = 8 → x.den ≤ 10 ^ 9 * x.num ∧ x.num * 10 ^ 1 < x.den) :
    ∃ fs : Fld, fs.wf = true ∧ fs.text.length ≤ W ∧ formatScientific W c x = rjust W fs.text ∧
      |decRat fs.dec - dblRat x| ≤ sciBound c x ∧
      smallPos W p c x =
        if 0 < rheDiv (x.num * 10 ^ p) x.den ∧
            (fixedFld false true p (rheDiv (x.num * 10 ^ p) x.den)).text.length ≤ W ∧
            dblEq fs.bits (fixedFld false true p (rheDiv (x.num * 10 ^ p) x.den)).bits = true
        then rjust W (fixedFld false true p (rheDiv (x.num * 10 ^ p) x.den)).text
        else rjust W fs.text :=
  smallPos_choice W p c hc hp x hneg hn hd hlt1 hlo hhi h8

/-- **the mixed branch never loses precision against the scientific field**: whichever alternative
is emitted, `nas_sscanf` reads it back as the same number as the scientific field — the identical
bit pattern, or (when the fixed-notation alternative is emitted) a double that compares equal to
it (`float(field1) == float(field2)`). -/
theorem mixed_branch_reads_as_sci (W p : Nat) (c : Sci) (hc : SciOK W c 0) (hp : 1 ≤ p) (x : Dbl)
    (hneg : x.neg = false) (hn : 0 < x.num) (hd : 0 < x.den) (hlt1 : x.num < x.den)
    (hlo : x.den ≤ 10 ^ 999 * x.num) (hhi : x.num < 10 ^ 999 * x.den)
    (h8 : W = 8 → x.den ≤ 10 ^ 9 * x.num ∧ x.num * 10 ^ 1 < x.den) (k : Bool) :
    ∃ b₁ b₂, nasSscanf (smallPos W p c x) k = .flt b₁ ∧ nasSscanf (formatScientific W c x) k = .flt b₂ ∧
      (b₁ = b₂ ∨ dblEq b₂ b₁ = true) := by
  obtain ⟨fs, hwf, hlen, hS, _, hpick⟩ := smallPos_choice W p c hc hp x hneg hn hd hlt1 hlo hhi h8
  have hsS : nasSscanf (formatScientific W c x) k = .flt fs.bits := by
    rw [hS, rjust]; exact nasSscanf_field fs hwf _ k
  by_cases hcond : 0 < rheDiv (x.num * 10 ^ p) x.den ∧
      (fixedFld false true p (rheDiv (x.num * 10 ^ p) x.den)).text.length ≤ W ∧
      dblEq fs.bits (fixedFld false true p (rheDiv (x.num * 10 ^ p) x.den)).bits = true
  · rw [if_pos hcond] at hpick
    refine ⟨_, _, ?_, hsS, Or.inr hcond.2.2⟩
    rw [hpick, rjust]
    exact nasSscanf_field _ (fixedFld_wf false true p _ hcond.1) _ k
  · rw [if_neg hcond] at hpick
    exact ⟨_, _, by rw [hpick, ← hS]; exact hsS, hsS, Or.inl rfl⟩

/-- non-vacuity: `x = 0.0005` satisfies the hypotheses (8-wide: `10^-9 ≤ x < 10^-1`), and there
the fixed-notation alternative `.0005` is emitted. -/
example : (∃ x : Dbl, x.neg = false ∧ 0 < x.num ∧ 0 < x.den ∧ x.num < x.den ∧ x.den ≤ 10 ^ 999 * x.num ∧
      x.num < 10 ^ 999 * x.den ∧ x.den ≤ 10 ^ 9 * x.num ∧ x.num * 10 ^ 1 < x.den) ∧
    smallPos 8 7 sci8 ⟨false, 5, 10000⟩ = "   .0005".toList ∧
    formatScientific 8 sci8 ⟨false, 5, 10000⟩ = "    5.-4".toList :=
  ⟨⟨⟨false, 5, 10000⟩, rfl, by decide, by decide, by decide, by decide +kernel, by decide +kernel, by decide,
    by decide⟩, by decide +kernel, by decide +kernel⟩

/-- **which alternative the negative mixed branch picks** (`value > -0.01`), for printed exponents
whose last digit is not `0`.  `fx0 = -0.000ddd` is the `%W.pf` rendering stripped of its zeros (what
the length test and the comparison see), `fx = -.000ddd` what is emitted: the branch returns `fx`
**iff** `N > 0`, `fx0` is at most `W` characters wide and the scientific field `fs` and `fx0` read as
the same double; otherwise `fs`.  (For an exponent like `-10` the code's `field.strip(" 0-")` also
strips the exponent's last zero and compares with a different number: that decade — `1e-10 ≤ |x| <
1e-9` of the 16-wide formatter — is covered by `format_float_accuracy` and the exact correspondence
only.) -/
theorem mixed_branch_picks_neg (W p : Nat) (c : Sci) (hc : SciOK W c 0) (hp : 1 ≤ p) (hp2 : p + 1 ≤ 250)
    (hpd : p % 10 ≠ 0 ∧ (p + 1) % 10 ≠ 0) (x : Dbl)
    (hneg : x.neg = true) (hn : 0 < x.num) (hd : 0 < x.den) (hlt1 : x.num < x.den)
    (hlo : x.den ≤ 10 ^ 999 * x.num) (hhi : x.num < 10 ^ 999 * x.den)
    (hlow : x.den ≤ 10 ^ (p + 1) * x.num)
    (h8 : W = 8 → x.den ≤ 10 ^ 9 * x.num ∧ x.num * 10 ^ 1 < x.den)
    (he0 : (sciExp c x).natAbs % 10 ≠ 0) :
    ∃ fs : Fld, fs.wf = true ∧ fs.text.length ≤ W ∧ formatScientific W c x = rjust W fs.text ∧
      |decRat fs.dec - dblRat x| ≤ sciBound c x ∧
      smallNeg W p c x =
        if 0 < rheDiv (x.num * 10 ^ p) x.den ∧
            (fixedFld true false p (rheDiv (x.num * 10 ^ p) x.den)).text.length ≤ W ∧
            dblEq fs.bits (fixedFld true false p (rheDiv (x.num * 10 ^ p) x.den)).bits = true
        then rjust W (fixedFld true true p (rheDiv (x.num * 10 ^ p) x.den)).text
        else rjust W fs.text :=
  smallNeg_choice W p c hc hp hp2 hpd x hneg hn hd hlt1 hlo hhi hlow h8 he0

/-- non-vacuity: `x = -0.0005` in the 8-wide negative mixed branch (`p = 6`, exponent `-4`); the
fixed alternative `-.0005` is emitted. -/
example : (∃ x : Dbl, x.neg = true ∧ 0 < x.num ∧ 0 < x.den ∧ x.num < x.den ∧ x.den ≤ 10 ^ 999 * x.num ∧
      x.num < 10 ^ 999 * x.den ∧ x.den ≤ 10 ^ (6 + 1) * x.num ∧ x.den ≤ 10 ^ 9 * x.num ∧ x.num * 10 ^ 1 < x.den ∧
      (sciExp sci8 x).natAbs % 10 ≠ 0) ∧
    smallNeg 8 6 sci8 ⟨true, 5, 10000⟩ = "  -.0005".toList :=
  ⟨⟨⟨true, 5, 10000⟩, rfl, by decide, by decide, by decide, by decide +kernel, by decide +kernel, by decide,
    by decide, by decide, by decide +kernel⟩, by decide +kernel⟩

end PyYetiVerif.C12
