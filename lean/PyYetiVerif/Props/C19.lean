import PyYetiVerif.Lemmas.Fixtime
import PyYetiVerif.Lemmas.Resample
import PyYetiVerif.Lemmas.Psd
import PyYetiVerif.Lemmas.PsdArea
import PyYetiVerif.Lemmas.PsdAreaGlue
import PyYetiVerif.Lemmas.PsdEdges
import PyYetiVerif.Lemmas.PsdOct
import PyYetiVerif.Lemmas.ResampleConv
import PyYetiVerif.Lemmas.FixtimeTnew
import PyYetiVerif.Lemmas.FixtimeDrops
/-!
# C19 — PSD and signal utilities conserve what they claim to conserve

Property theorems only (helper lemmas live in `Lemmas/{Fixtime,Resample,Psd,PsdArea}.lean`).  The
models (`Model/{Fixtime,Psd,Resample}.lean`) are tied to `pyyeti/dsp.py` and `pyyeti/psd.py` by the
correspondence check of `harness/props/c19.py` (exact on dyadic times for the index rules, lengths
and `fixtime` end to end; numeric, 1e-9, for `area`/`interp`/`rescale`/`resample`).

Reading of the property:
* `fixtime` "every sample is the input sample nearest (or previous) in time": the index rules
  `closest` / `prevIdx` on a sorted (not necessarily strictly) time vector; "leaves
  already-uniform data unchanged": a new time equal to one of the strictly increasing old times
  selects that very sample, for any `previous_value_tol` shift smaller than the smallest gap.
* `resample` returns `⌈n·p/q⌉` samples: the length of the whole modelled pipeline.
* `rescale` preserves the mean-square of every output band: `ms[k]` is the integral of the
  piecewise-constant input PSD over band `k` (`bandArea`, a sum of `level × overlap`), sums
  telescope, `psd·width = ms`; with `extendends` the density is taken over the covered part.
* `area` equals the integral of the constant-dB/octave law on every segment — exactly for slope
  `-1` and for slopes at least `1e-8` away from `-1` (the code's tolerance branch, `1e-5` before
  commit 9dcf3cb: finding F31); inside the remaining band the value is not the integral but within
  a relative `|s+1|·ln(f2/f1) ≤ 1e-8·ln(f2/f1)` of it (`area_segment_tolerance_band_inexact`).
-/
namespace PyYetiVerif.C19
open PyYetiVerif.Fixtime PyYetiVerif.Resample PyYetiVerif.Psd PyYetiVerif.PsdOct

/-! ## fixtime: nearest / previous sample -/
section order
variable {α : Type} [LinearOrder α]

/-- `np.searchsorted(a, v)` on a sorted array: everything before the returned position is `< v`,
everything from it on is `≥ v`. -/
theorem searchsorted_left_spec (a : List α) (v : α) (hs : a.Pairwise (· ≤ ·)) :
    ssLeft a v ≤ a.length ∧ ∀ (j : Nat) (hj : j < a.length),
      (j < ssLeft a v → a[j] < v) ∧ (ssLeft a v ≤ j → v ≤ a[j]) :=
  ⟨ssLeft_le_length a v, fun j hj => ⟨lt_of_lt_ssLeft a v j hj, le_of_ssLeft_le a v hs j hj⟩⟩

/-- `np.searchsorted(a, v, side="right")`: `≤ v` before, `> v` from the position on. -/
theorem searchsorted_right_spec (a : List α) (v : α) (hs : a.Pairwise (· ≤ ·)) :
    ssRight a v ≤ a.length ∧ ∀ (j : Nat) (hj : j < a.length),
      (j < ssRight a v → a[j] ≤ v) ∧ (ssRight a v ≤ j → v < a[j]) :=
  ⟨ssRight_le_length a v, fun j hj => ⟨le_of_lt_ssRight a v j hj, lt_of_ssRight_le a v hs j hj⟩⟩

/-- `hold_previous_value=True`: when some old time is `≤ t`, the returned index is the LAST one
with `told[i] ≤ t` (the documented rule, and what the code does since commit fdedaff). -/
theorem previous_is_last_le (told : List α) (t : α) (hs : told.Pairwise (· ≤ ·))
    (hn : 0 < told.length) (h0 : told[0] ≤ t) :
    ∃ (hi : prevIdx told t < told.length), told[prevIdx told t] ≤ t ∧
      ∀ (j : Nat) (hj : j < told.length), prevIdx told t < j → t < told[j] :=
  prev_spec told t hs hn h0

/-- … and index `0` when every old time is later than `t`. -/
theorem previous_zero_if_none (told : List α) (t : α) (h : ∀ x ∈ told, t < x) :
    prevIdx told t = 0 := prev_zero told t h

end order

/-- the left-sided search the code used before commit fdedaff (finding F11) violates
`previous_is_last_le` at a tie: for `told = [0, 1, 2]`, `t = 1` it returns index `0` although
`told[1] = 1 ≤ t`; the current code returns `1`. -/
theorem previous_left_sided_counterexample :
    prevIdxLeft ([0, 1, 2] : List Int) 1 = 0 ∧ prevIdx ([0, 1, 2] : List Int) 1 = 1 := by decide

section field
variable {α : Type} [Field α] [LinearOrder α] [IsStrictOrderedRing α]

/-- `_find_closest_times` on a sorted, non-constant `told`: the result is a valid non-negative
index that minimises `|told[i] - t|`. -/
theorem closest_is_nearest (told : List α) (t : α) (hs : told.Pairwise (· ≤ ·))
    (hn : 0 < told.length) (hne : told[0] < told[told.length - 1]) :
    ∃ (i : Nat) (hi : i < told.length), closest told t = some (i : Int) ∧
      ∀ (j : Nat) (hj : j < told.length), |told[i] - t| ≤ |told[j] - t| := by
  obtain ⟨i, hi, hc, hmin, _⟩ := closest_spec told t hs hn hne
  exact ⟨i, hi, hc, hmin⟩

/-- ties go to the earlier sample: every other minimiser has a time that is not earlier; for
strictly increasing times the returned index is therefore the smallest minimising index. -/
theorem closest_is_earliest (told : List α) (t : α) (hs : told.Pairwise (· ≤ ·))
    (hn : 0 < told.length) (hne : told[0] < told[told.length - 1]) :
    ∃ (i : Nat) (hi : i < told.length), closest told t = some (i : Int) ∧
      (∀ (j : Nat) (hj : j < told.length), |told[j] - t| = |told[i] - t| → told[i] ≤ told[j]) ∧
      (told.Pairwise (· < ·) →
        ∀ (j : Nat) (hj : j < told.length), |told[j] - t| = |told[i] - t| → i ≤ j) := by
  obtain ⟨i, hi, hc, _, htie⟩ := closest_spec told t hs hn hne
  refine ⟨i, hi, hc, htie, ?_⟩
  intro hst j hj h
  by_contra hlt
  have h1 := List.pairwise_iff_getElem.mp hst j i hj hi (not_le.mp hlt)
  exact absurd (htie j hj h) (not_le.mpr h1)

/-- the hypothesis `told[0] < told[-1]` is necessary: on a constant time vector the code's
`told[index - 1]` with `index = 0` wraps to the last sample and the returned index is `-1`.
(`fixtime` cannot reach this: it raises on a time vector without a non-zero step.) -/
theorem closest_wraps_when_all_equal : closest ([1, 1] : List Int) 1 = some (-1) := by decide

/-- already-uniform (indeed: any strictly increasing) data is unchanged: a new time equal to the
old time `told[k]` selects sample `k`, under the nearest rule and under the previous-value rule
with the old times shifted back by any tolerance `0 ≤ δ` smaller than every gap. -/
theorem uniform_unchanged (told : List α) (hs : told.Pairwise (· < ·)) (hn : 2 ≤ told.length)
    (δ : α) (hδ : 0 ≤ δ)
    (hgap : ∀ (j : Nat) (hj : j + 1 < told.length), δ < told[j + 1] - told[j])
    (k : Nat) (hk : k < told.length) :
    closest told told[k] = some (k : Int) ∧ prevIdx (told.map (· - δ)) told[k] = k :=
  ⟨closest_self told hs hn k hk, prev_self_shift told hs δ hδ hgap k hk⟩

end field

/-- the bound on the tolerance is necessary (and documented: `previous_value_tol = 1` makes the
next sample "equal" in time): with `δ` equal to the gap the previous-value rule moves on. -/
theorem uniform_unchanged_needs_tol_lt_gap :
    prevIdx (([0, 1, 2] : List Int).map (· - 1)) 0 = 1 := by decide

/-! ## resample: output length -/

/-- the number of returned samples is `⌈n·p/q⌉` -/
theorem resample_length (n p q : Nat) (hq : 1 ≤ q) :
    (resampleLen n p q : Int) = ⌈((n * p : Nat) : ℚ) / (q : ℚ)⌉ := by
  obtain ⟨h1, h2⟩ := resampleLen_bounds n p q hq
  symm
  rw [Int.ceil_eq_iff]
  have hq0 : (0 : ℚ) < (q : ℚ) := by exact_mod_cast hq
  constructor
  · rw [lt_div_iff₀ hq0]
    have : ((resampleLen n p q * q : Nat) : ℚ) < ((n * p + q : Nat) : ℚ) := by exact_mod_cast h2
    push_cast at this ⊢
    linarith
  · rw [div_le_iff₀ hq0]
    have : ((n * p : Nat) : ℚ) ≤ ((resampleLen n p q * q : Nat) : ℚ) := by exact_mod_cast h1
    push_cast at this ⊢
    linarith

/-- … and this is the length of what the modelled pipeline (gcd reduction, zero stuffing,
padding, FIR filter, lag removal, decimation, mean added back) returns, over any arithmetic. -/
theorem resample_length_pipeline {α : Type} [Add α] [Sub α] [Mul α] [Div α] [LT α] [DecidableLT α]
    [OfNat α 0] [OfNat α 1] [OfNat α 2] [NatCast α] [SincOps α]
    (data : List α) (p q pts : Nat) (w : List α) (hp : 1 ≤ p) (hq : 1 ≤ q) :
    (resample data p q pts w).length = resampleLen data.length p q :=
  length_resample data p q pts w hp hq

/-- the positions returned with `t=` are the true sample positions `t0 + k·dt·q/p` (the code
uses the gcd-reduced `p`, `q`; the ratio is the same). -/
theorem resample_tnew (t0 t1 : ℚ) (p q k : Nat) (hp : 1 ≤ p) (hq : 1 ≤ q) :
    tnewAt t0 t1 p q k = t0 + (k : ℚ) * (t1 - t0) * (q : ℚ) / (p : ℚ) := by
  unfold tnewAt
  have hg : 0 < Nat.gcd p q := Nat.gcd_pos_of_pos_right p (by omega)
  obtain ⟨p', hp'⟩ := Nat.gcd_dvd_left p q
  obtain ⟨q', hq'⟩ := Nat.gcd_dvd_right p q
  have hpd : p / Nat.gcd p q = p' := Nat.div_eq_of_eq_mul_right hg hp'
  have hqd : q / Nat.gcd p q = q' := Nat.div_eq_of_eq_mul_right hg hq'
  simp only [hpd, hqd]
  have hp'0 : (p' : ℚ) ≠ 0 := by
    have : p' ≠ 0 := by rintro rfl; rw [Nat.mul_zero] at hp'; omega
    exact_mod_cast this
  have hg0 : ((Nat.gcd p q : Nat) : ℚ) ≠ 0 := by exact_mod_cast (by omega : Nat.gcd p q ≠ 0)
  have e1 : (p : ℚ) = (Nat.gcd p q : ℚ) * p' := by exact_mod_cast hp'
  have e2 : (q : ℚ) = (Nat.gcd p q : ℚ) * q' := by exact_mod_cast hq'
  rw [e1, e2]
  field_simp
  ring

/-- documentation of the former defect (finding F32, repaired by commit 89f5087): the old formula
`k·dt·n/⌈n·p/q⌉` gave, for 3 samples at `t = 0, 1, 2` resampled by `p/q = 1/2`, the positions
`[0, 3/2]`; the true positions, returned now, are `[0, 2]`. -/
theorem resample_tnew_old_counterexample :
    resampleLen 3 1 2 = 2 ∧ tnewAtOld (0 : ℚ) 1 3 2 1 = 3 / 2 ∧ tnewAt (0 : ℚ) 1 1 2 1 = 2 := by
  refine ⟨?_, ?_, ?_⟩
  · rw [resampleLen_eq 3 1 2 (by norm_num)]; decide
  · norm_num [tnewAtOld]
  · rw [resample_tnew _ _ _ _ _ (by norm_num) (by norm_num)]; norm_num

/-- when upsampling (`q ≤ p` after the gcd reduction, `M = 2·pts·p`) the FIR taps vanish at every
non-zero multiple of `p` away from the centre (`sin(kπ) = 0`) and the centre tap is the window's
centre value (`1` for the Kaiser window): each original sample is retained as is.  (`_taps`: the
convolution step itself is tied numerically, not formalised.) -/
theorem upsample_taps (p q pts : Nat) (hq : 1 ≤ q) (hqp : q ≤ p) (wn : ℝ) :
    (∀ k : Nat, 1 ≤ k → tap p q (2 * pts * p) wn (pts * p + k * p) = 0) ∧
    (∀ k : Nat, 1 ≤ k → k ≤ pts → tap p q (2 * pts * p) wn (pts * p - k * p) = 0) ∧
    tap p q (2 * pts * p) wn (pts * p) = wn :=
  taps_upsample p q pts hq hqp wn

/-! ## rescale: conservation of mean-square -/
section rescale
variable {α : Type} [Field α] [LinearOrder α] [IsStrictOrderedRing α]

/-- with contiguous input bands (strictly increasing edges `E`, levels `P`), the interpolated
cumulative area `np.interp(x, Fa, ca)` is the integral of the piecewise-constant input PSD up to
`x`, for every `x` — zero before the first edge, the total after the last. -/
theorem cum_area_is_integral (E P : List α) (x : α) (hs : E.Pairwise (· < ·)) (hE : 2 ≤ E.length)
    (hP : P.length + 1 = E.length) :
    npInterp (cumGrid E.dropLast E.tail) (cumVals E.dropLast E.tail P) x = areaUpTo E P x ∧
      ((∀ e ∈ E, x ≤ e) → areaUpTo E P x = 0) ∧
      ((∀ e ∈ E, e ≤ x) → areaUpTo E P x = totalArea E P) :=
  ⟨npInterp_cum E P x hs hE hP, areaUpTo_of_le E P x,
    fun h => areaUpTo_of_ge E P x h (hs.imp le_of_lt)⟩

/-- **conservation**: for ANY output bands `[FL[k], FU[k]]` (inside, straddling or outside the
input range) the band mean-square returned by `rescale(extendends=False)` is the integral of the
piecewise-constant input PSD over the band. -/
theorem rescale_conserves (E P FL FU : List α) (hs : E.Pairwise (· < ·)) (hE : 2 ≤ E.length)
    (hP : P.length + 1 = E.length) (hb : List.Forall₂ (· ≤ ·) FL FU) :
    (rescaleCore E.dropLast E.tail P FL FU false).ms = List.zipWith (bandArea E P) FL FU :=
  rescale_ms E P FL FU hs hE hP hb

/-- with `extendends=True` the density is the same computation on the clipped end bands (the part
covered by the input) and the mean-square is that density times the full band width; when no band
sticks out of the input range nothing changes and `ms` is again the band integral. -/
theorem rescale_conserves_extendends (E P FL FU : List α) (hs : E.Pairwise (· < ·))
    (hE : 2 ≤ E.length) (hP : P.length + 1 = E.length) :
    (rescaleCore E.dropLast E.tail P FL FU true).psd =
        (rescaleCore E.dropLast E.tail P (clipEnds E.dropLast E.tail FL FU).1
          (clipEnds E.dropLast E.tail FL FU).2 false).psd ∧
      (rescaleCore E.dropLast E.tail P FL FU true).ms =
        List.zipWith (· * ·) (rescaleCore E.dropLast E.tail P FL FU true).psd
          (List.zipWith (· - ·) FU FL) ∧
      ((∀ a b, FL.head? = some a → E.dropLast.head? = some b → b ≤ a) →
        (∀ a b, FU.getLast? = some a → E.tail.getLast? = some b → a ≤ b) →
        List.Forall₂ (· < ·) FL FU →
        (rescaleCore E.dropLast E.tail P FL FU true).ms = List.zipWith (bandArea E P) FL FU) := by
  refine ⟨rfl, rfl, ?_⟩
  intro h1 h2 hb
  have hb' : List.Forall₂ (· ≤ ·) FL FU := hb.imp fun _ _ h => le_of_lt h
  have hms := rescale_ms E P FL FU hs hE hP hb'
  show List.zipWith (· * ·)
      (rescaleCore E.dropLast E.tail P (clipEnds E.dropLast E.tail FL FU).1
        (clipEnds E.dropLast E.tail FL FU).2 false).psd (List.zipWith (· - ·) FU FL) = _
  rw [clipEnds_inside _ _ FL FU h1 h2, ← hms]
  show List.zipWith (· * ·) (List.zipWith (fun m d => m * (1 / d))
      (rescaleCore E.dropLast E.tail P FL FU false).ms (List.zipWith (· - ·) FU FL))
      (List.zipWith (· - ·) FU FL) = _
  apply psd_times_width
  · intro d hd
    rw [List.mem_iff_getElem] at hd
    obtain ⟨i, hi, rfl⟩ := hd
    simp only [List.length_zipWith] at hi
    rw [List.getElem_zipWith]
    have := List.Forall₂.get hb (show i < FL.length by omega) (show i < FU.length by omega)
    simp only [List.get_eq_getElem] at this
    intro h; linarith
  · rw [hms]
    simp [List.length_zipWith, Nat.min_comm]

/-- the band sums telescope: for contiguous output bands (edges `G`) the total `msv` is the
integral from the first to the last output edge; it is the whole input mean-square
`Σ P[i]·(E[i+1]-E[i])` as soon as the output bands cover the input range. -/
theorem rescale_telescopes (E P : List α) (g0 : α) (rest : List α) (hs : E.Pairwise (· < ·))
    (hE : 2 ≤ E.length) (hP : P.length + 1 = E.length) :
    (rescaleCore E.dropLast E.tail P (g0 :: rest).dropLast rest false).msv =
        areaUpTo E P ((g0 :: rest).getLast (by simp)) - areaUpTo E P g0 ∧
      ((∀ e ∈ E, g0 ≤ e) → (∀ e ∈ E, e ≤ (g0 :: rest).getLast (by simp)) →
        (rescaleCore E.dropLast E.tail P (g0 :: rest).dropLast rest false).msv = totalArea E P) := by
  have hf : npInterp (cumGrid E.dropLast E.tail) (cumVals E.dropLast E.tail P) = areaUpTo E P :=
    funext fun x => npInterp_cum E P x hs hE hP
  have key : (rescaleCore E.dropLast E.tail P (g0 :: rest).dropLast rest false).msv =
      areaUpTo E P ((g0 :: rest).getLast (by simp)) - areaUpTo E P g0 := by
    show Psd.sumL (List.zipWith (· - ·) (rest.map (npInterp _ _)) ((g0 :: rest).dropLast.map (npInterp _ _))) = _
    rw [hf, Psd.sumL_eq_sum, sum_diff_telescope]
  refine ⟨key, ?_⟩
  intro h1 h2
  rw [key, areaUpTo_of_le E P g0 h1, areaUpTo_of_ge E P _ h2 (hs.imp le_of_lt)]
  ring

/-- the returned density times the band width is the band mean-square -/
theorem rescale_density (FLin FUin P FL FU : List α) (hb : List.Forall₂ (· < ·) FL FU) :
    List.zipWith (· * ·) (rescaleCore FLin FUin P FL FU false).psd (List.zipWith (· - ·) FU FL) =
      (rescaleCore FLin FUin P FL FU false).ms := by
  show List.zipWith (· * ·) (List.zipWith (fun m d => m * (1 / d))
      (rescaleCore FLin FUin P FL FU false).ms (List.zipWith (· - ·) FU FL))
      (List.zipWith (· - ·) FU FL) = _
  apply psd_times_width
  · intro d hd
    rw [List.mem_iff_getElem] at hd
    obtain ⟨i, hi, rfl⟩ := hd
    simp only [List.length_zipWith] at hi
    rw [List.getElem_zipWith]
    have := List.Forall₂.get hb (show i < FL.length by omega) (show i < FU.length by omega)
    simp only [List.get_eq_getElem] at this
    intro h; linarith
  · show (List.zipWith (· - ·) (FU.map _) (FL.map _)).length = _
    simp [List.length_zipWith, Nat.min_comm]

end rescale

/-! ## area and interp -/

/-- `psd.area`'s segment value is the integral of the constant-dB/octave law
`p(x) = p1 (x/f1)^s` between its break points — for slope exactly `-1` (the `-3 dB/octave` case,
`p1 f1 ln(f2/f1)`) and for every slope with `|s+1| ≥ 1e-8` (`(f2 p2 - f1 p1)/(s+1)`); the slope the
code computes from the end points is `s`. -/
theorem area_segment (f1 f2 p1 s : ℝ) (hf1 : 0 < f1) (hf : f1 < f2) (hp1 : 0 < p1)
    (hs : s = -1 ∨ 1e-8 ≤ |s + 1|) :
    areaSeg f1 p1 f2 (segLaw f1 p1 s f2) = ∫ x in f1..f2, segLaw f1 p1 s x ∧
      (∫ x in f1..f2, segLaw f1 p1 s x) =
        (if s = -1 then p1 * f1 * Real.log (f2 / f1)
         else (f2 * segLaw f1 p1 s f2 - f1 * p1) / (s + 1)) ∧
      Real.log (segLaw f1 p1 s f2 / p1) / Real.log (f2 / f1) = s :=
  ⟨areaSeg_eq_integral f1 f2 p1 s hf1 hf hp1 hs, integral_segLaw f1 f2 p1 s hf1 (by linarith),
    slope_recovered f1 f2 p1 s hf1 hf hp1⟩

/-- the hypothesis on the slope is necessary: for `0 < |s+1| < 1e-8` the code takes the `s = -1`
formula and its value differs from the integral — but by no more than the relative amount
`|s+1|·ln(f2/f1)` (below `1e-8·ln(f2/f1)`; with the former `1e-5` threshold this was `3e-5` over
three decades, finding F31). -/
theorem area_segment_tolerance_band_inexact (f1 f2 p1 s : ℝ) (hf1 : 0 < f1) (hf : f1 < f2)
    (hp1 : 0 < p1) (hs0 : s ≠ -1) (hs : |s + 1| < 1e-8) :
    areaSeg f1 p1 f2 (segLaw f1 p1 s f2) ≠ ∫ x in f1..f2, segLaw f1 p1 s x ∧
      (|(s + 1) * Real.log (f2 / f1)| ≤ 1 →
        |areaSeg f1 p1 f2 (segLaw f1 p1 s f2) - ∫ x in f1..f2, segLaw f1 p1 s x| ≤
          |s + 1| * Real.log (f2 / f1) * areaSeg f1 p1 f2 (segLaw f1 p1 s f2)) := by
  refine ⟨areaSeg_band_ne_integral f1 f2 p1 s hf1 hf hp1 hs0 hs, fun hy => ?_⟩
  have hb := areaSeg_band_bound f1 f2 p1 s hf1 hf hp1 hs0 hs hy
  have hval : areaSeg f1 p1 f2 (segLaw f1 p1 s f2) = p1 * f1 * Real.log (f2 / f1) := by
    unfold areaSeg
    show (if absv (Real.log (segLaw f1 p1 s f2 / p1) / Real.log (f2 / f1) + 1) < 1e-8
      then p1 * f1 * Real.log (f2 / f1)
      else (f2 * segLaw f1 p1 s f2 - f1 * p1) /
        (Real.log (segLaw f1 p1 s f2 / p1) / Real.log (f2 / f1) + 1)) = _
    rw [slope_recovered f1 f2 p1 s hf1 hf hp1, absv_eq_abs, if_pos hs]
  rw [hval] at hb ⊢
  exact hb

/-- additivity over segments: splitting a specification at a break point splits the area -/
theorem area_additive (l1 : List (ℝ × ℝ)) (m : ℝ × ℝ) (l2 : List (ℝ × ℝ)) :
    area (l1 ++ m :: l2) = area (l1 ++ [m]) + area (m :: l2) := area_append l1 m l2

/-- `psd.interp(spec, f, linear=False)` reproduces the specification at its own frequencies
(strictly increasing positive frequencies, positive PSD values) -/
theorem interp_log_at_breakpoints (spec : List (ℝ × ℝ)) (hf : (spec.map (·.1)).Pairwise (· < ·))
    (hpos : ∀ r ∈ spec, 0 < r.1 ∧ 0 < r.2) (hn : 2 ≤ spec.length) (k : Nat) (hk : k < spec.length) :
    interpLog spec spec[k].1 = spec[k].2 := interpLog_at spec hf hpos hn k hk

section interp
variable {α : Type} [Field α] [LinearOrder α] [IsStrictOrderedRing α]

/-- linear interpolation (`interp1d`, used by `psd.interp` on the values or on their logs)
reproduces the table at its own abscissae -/
theorem interp_at_breakpoints (xs ys : List α) (hs : xs.Pairwise (· < ·)) (hn : 2 ≤ xs.length)
    (hl : ys.length = xs.length) (k : Nat) (hk : k < xs.length) :
    interp1dLin xs ys xs[k] = ys[k]'(by omega) :=
  interp1dLin_at xs ys hs hn hl k hk

end interp

/-! ## area = integral of the whole interpolant -/

/-- on every segment `[f_k, f_{k+1}]` of a specification, `psd.interp(spec, x, linear=False)` IS the
constant-dB/octave law `p_k (x/f_k)^{s_k}` with the slope `s_k = log(p_{k+1}/p_k)/log(f_{k+1}/f_k)`
the code of `psd.area` computes: the interpolant is a piecewise power law -/
theorem interpolant_is_piecewise_power_law (spec : List (ℝ × ℝ))
    (hf : (spec.map (·.1)).Pairwise (· < ·)) (hpos : ∀ r ∈ spec, 0 < r.1 ∧ 0 < r.2)
    (k : Nat) (hk : k + 1 < spec.length) (x : ℝ) (h1 : spec[k].1 ≤ x) (h2 : x ≤ spec[k + 1].1) :
    interpLog spec x = spec[k].2 * (x / spec[k].1) ^ segSlope spec[k] spec[k + 1] :=
  interpLog_seg spec hf hpos k hk x h1 h2

/-- **area_is_integral**: `psd.area(spec)` (the left-to-right sum of the closed-form segment
areas) equals the interval integral of the log-log interpolant `psd.interp(spec, ·)` over the whole
range `[f_0, f_n]` — for any number of break points, strictly increasing positive frequencies,
positive PSD values and segment slopes that are exactly `-1` or at least `1e-8` away from it (inside
that band the code's value is not the integral: `area_segment_tolerance_band_inexact`) -/
theorem area_is_integral_of_interpolant (spec : List (ℝ × ℝ))
    (hf : (spec.map (·.1)).Pairwise (· < ·)) (hpos : ∀ r ∈ spec, 0 < r.1 ∧ 0 < r.2)
    (hn : 0 < spec.length)
    (hs : ∀ (k : Nat) (hk : k + 1 < spec.length),
      segSlope spec[k] spec[k + 1] = -1 ∨ 1e-8 ≤ |segSlope spec[k] spec[k + 1] + 1|) :
    ∫ x in spec[0].1..spec[spec.length - 1].1, interpLog spec x = area spec :=
  area_eq_integral_interpLog spec hf hpos hn hs

/-! ## resample: retained samples, constants, sample times -/

/-- **upsample_keeps_samples**, through the whole modelled pipeline (gcd reduction, mean removal,
zero stuffing, padding, `lfilter`, lag removal, decimation, mean added back): when `q ≤ p` and the
window's centre value is `1` (true of the Kaiser window), output sample `i·p'` is input sample
`i·q'` (`p' = p/gcd`, `q' = q/gcd`; for an integer factor `q = 1`: output `i·p` is input `i`) -/
theorem upsample_keeps_samples_full (data : List ℝ) (p q pts : Nat) (w : List ℝ) (hq : 1 ≤ q)
    (hqp : q ≤ p) (hw : w.length = 2 * pts * (p / Nat.gcd p q) + 1)
    (hc : w.getD (pts * (p / Nat.gcd p q)) 0 = 1)
    (i : Nat) (hi : i * (q / Nat.gcd p q) < data.length) :
    (resample data p q pts w)[i * (p / Nat.gcd p q)]? = data[i * (q / Nat.gcd p q)]? :=
  resample_keeps data p q pts w hq hqp hw hc i hi

/-- **constants_reproduced**: a constant signal goes through unchanged, for every `p/q`, window
and `pts` — the routine filters `data - mean(data)`, identically zero here, and adds the mean back;
no property of the taps is used -/
theorem constants_reproduced (c : ℝ) (n p q pts : Nat) (w : List ℝ) (hn : 1 ≤ n) (hp : 1 ≤ p)
    (hq : 1 ≤ q) :
    resample (List.replicate n c) p q pts w = List.replicate (resampleLen n p q) c :=
  resample_const c n p q pts w hn hp hq

/-- output sample `j` sits at input time `t0 + j·dt·q/p` (`resample_tnew`); in particular the
retained sample `i·p'` sits at the time of input sample `i·q'`, `t0 + (i·q')·dt` -/
theorem resample_kept_sample_times (t0 t1 : ℚ) (p q i : Nat) (hp : 1 ≤ p) (hq : 1 ≤ q) :
    tnewAt t0 t1 p q (i * (p / Nat.gcd p q)) = t0 + ((i * (q / Nat.gcd p q) : Nat) : ℚ) * (t1 - t0) := by
  rw [resample_tnew t0 t1 p q _ hp hq]
  have hg : 0 < Nat.gcd p q := Nat.gcd_pos_of_pos_right p (by omega)
  obtain ⟨p', hp'⟩ := Nat.gcd_dvd_left p q
  obtain ⟨q', hq'⟩ := Nat.gcd_dvd_right p q
  have hpd : p / Nat.gcd p q = p' := Nat.div_eq_of_eq_mul_right hg hp'
  have hqd : q / Nat.gcd p q = q' := Nat.div_eq_of_eq_mul_right hg hq'
  rw [hpd, hqd]
  have hp'0 : (p' : ℚ) ≠ 0 := by
    have : p' ≠ 0 := by rintro rfl; rw [Nat.mul_zero] at hp'; omega
    exact_mod_cast this
  have hg0 : ((Nat.gcd p q : Nat) : ℚ) ≠ 0 := by exact_mod_cast (by omega : Nat.gcd p q ≠ 0)
  have e1 : (p : ℚ) = (Nat.gcd p q : ℚ) * p' := by exact_mod_cast hp'
  have e2 : (q : ℚ) = (Nat.gcd p q : ℚ) * q' := by exact_mod_cast hq'
  rw [e1, e2]
  push_cast
  field_simp

/-! ## fixtime: the uniform time base -/

/-- Python's `round` as modelled (`L = int(round(span·sr)) + 1`): an integer within `1/2` of the
argument, the even one at a tie -/
theorem tnew_round_half_even (x : ℚ) :
    |((roundHalfEven x : ℤ) : ℚ) - x| ≤ 1 / 2 ∧
      (x - ((x.floor : ℤ) : ℚ) = 1 / 2 → roundHalfEven x % 2 = 0) :=
  ⟨roundHalfEven_spec x, roundHalfEven_tie x⟩

/-- **tnew_uniform**: whatever `_mk_initial_tnew` returns (numeric `sr > 0`, any alignment branch)
is an exact arithmetic progression with step `1/sr`: `tnew[k] = told[0] + delt + k/sr`, of length
`L = round((told[-1] - told[0])·sr) + 1 ≥ 1`; before the alignment shift `delt` it starts at
`told[0]` and ends within half a step of `told[-1]` (the documented "spans the range of time"
rule); without alignment (too many turning points) `delt = 0` -/
theorem tnew_uniform (told : List ℚ) (sr : ℚ) (hsr : 0 < sr) (r : Tnew)
    (h : mkInitialTnew told sr = some r) :
    ∃ t0 tl, told.head? = some t0 ∧ told.getLast? = some tl ∧
      r.tnew.length = gridLen t0 tl sr ∧
      (∀ (k : Nat) (hk : k < r.tnew.length), r.tnew[k] = t0 + r.delt + (k : ℚ) / sr) ∧
      (t0 ≤ tl → 1 ≤ gridLen t0 tl sr ∧
        |t0 + ((gridLen t0 tl sr - 1 : Nat) : ℚ) / sr - tl| ≤ 1 / (2 * sr)) ∧
      (r.align = false → r.delt = 0) := by
  obtain ⟨t0, tl, h0, hl, ht, _, hd⟩ := mkInitialTnew_eq told sr r h
  refine ⟨t0, tl, h0, hl, ?_, ?_, fun hle => grid_end_rule t0 tl sr hsr hle, hd⟩
  · rw [ht, List.length_map, length_grid0]
  · intro k hk
    simp only [ht, List.getElem_map]
    rw [getElem_grid0]
    ring

/-! ## fixtime: which samples survive the cleaning -/

/-- **index maps compose** (`_del_drops` → `_del_outtimes` → `_get_alldrops`, `deldrops` and
`delouttimes` on): the outlier times are found in the drop-out-FILTERED time vector but reported as
positions in the FULL record (`outtimes = keep[pv]`): each is in range and is not a drop-out; and
the samples `_get_alldrops` keeps by its full-record mask (`~alldrops`) are exactly the filtered
samples with the flagged ones removed (`keep[~pv]`) -/
theorem alldrops_indices_are_full_record_positions (told : List ℚ) (drop : List Bool)
    (hlen : drop.length = told.length) :
    (∀ i ∈ (delOuttimes told (nonzeroIdx (drop.map not)) true).2,
        i < told.length ∧ drop[i]? = some false) ∧
      nonzeroIdx ((alldropsMask told.length (some (nonzeroIdx drop))
          (delOuttimes told (nonzeroIdx (drop.map not)) true).2 true).map not) =
        (delOuttimes told (nonzeroIdx (drop.map not)) true).1 :=
  drops_compose told drop hlen

/-! ## rescale: band edges -/

/-- **edges_partition**, linear scale with exactly equal steps `d` (the input-scale test
`np.all(Df == Df[0])`): consecutive bands share an edge, each centre is the middle of its band,
each band has width `d` -/
theorem edges_partition_linear {α : Type} [Field α] [LinearOrder α] [IsStrictOrderedRing α]
    (c : List α) (d : α) (hd : ∀ x ∈ diffs c, x = d) :
    (edgesLin c d).1.length = c.length ∧ (edgesLin c d).2.length = c.length ∧
    (∀ (i : Nat) (h : i + 1 < c.length),
      (edgesLin c d).2[i]'(by simp [edgesLin]; omega) = (edgesLin c d).1[i + 1]'(by simp [edgesLin]; omega)) ∧
    (∀ (i : Nat) (h : i < c.length),
      ((edgesLin c d).1[i]'(by simp [edgesLin]; omega) + (edgesLin c d).2[i]'(by simp [edgesLin]; omega)) / 2 = c[i] ∧
      (edgesLin c d).2[i]'(by simp [edgesLin]; omega) - (edgesLin c d).1[i]'(by simp [edgesLin]; omega) = d) :=
  edgesLin_partition c d hd

/-- … linear only within `_get_fl_fu`'s tolerance `|Df/Df[0] - 1| < 1e-12`: the bands
`c ∓ Df[0]/2` do NOT share edges exactly; the gap/overlap between bands `i` and `i+1` is
`Df[0] - Df[i]`, below `1e-12·|Df[0]|` -/
theorem edges_partition_linear_tolerance (c : List ℝ) (d0 : ℝ) (r : List ℝ)
    (hd : diffs c = d0 :: r) (ht : isLinTol c = true) (i : Nat) (h : i + 1 < c.length) :
    (edgesLin c d0).2[i]'(by simp [edgesLin]; omega) - (edgesLin c d0).1[i + 1]'(by simp [edgesLin]; omega)
        = d0 - (c[i + 1] - c[i]) ∧
      |(edgesLin c d0).2[i]'(by simp [edgesLin]; omega) - (edgesLin c d0).1[i + 1]'(by simp [edgesLin]; omega)|
        < 1e-12 * |d0| :=
  edgesLin_tol c d0 r hd ht i h

/-- … logarithmic scale (every scale that fails the linear test): consecutive bands share an
edge, the geometric mean of the two centres; each END centre is the geometric mean of its own band
edges (end bands mirrored in log space) -/
theorem edges_partition_log (c : List ℝ) (hn : 2 ≤ c.length) (hpos : ∀ x ∈ c, 0 < x) :
    ∃ (h1 : (edgesLog c).1.length = c.length) (h2 : (edgesLog c).2.length = c.length),
      (∀ (i : Nat) (h : i + 1 < c.length),
        (edgesLog c).2[i] = (edgesLog c).1[i + 1] ∧ (edgesLog c).2[i] = Real.sqrt (c[i] * c[i + 1])) ∧
      (edgesLog c).1[0] * (edgesLog c).2[0] = c[0] ^ 2 ∧
      (edgesLog c).1[c.length - 1] * (edgesLog c).2[c.length - 1] = c[c.length - 1] ^ 2 :=
  edgesLog_partition c hn hpos

/-- which rule applies: output centres (`_get_fl_fu`) are linear iff all steps are within `1e-12`
(relative) of the first; input centres are linear if all steps are EXACTLY equal, else go through
the same `_get_fl_fu` -/
theorem edges_dispatch (c : List ℝ) (d0 : ℝ) (r : List ℝ) (hd : diffs c = d0 :: r) :
    getFlFu c = (if isLinTol c then edgesLin c d0 else edgesLog c) ∧
      inEdges c = (if isLinExact c then edgesLin c d0 else getFlFu c) ∧
      (isLinExact c = true ↔ ∀ d ∈ diffs c, d = d0) :=
  ⟨getFlFu_eq c d0 r hd, inEdges_eq c d0 r hd, isLinExact_iff c d0 r hd⟩

/-- `extendends=True`: the first output band's lower edge is raised to the lower EDGE of the first
input band (not its centre) when it lies below it, the last output band's upper edge is lowered to
the upper edge of the last input band when it lies above it; no other edge moves -/
theorem edges_extendends_rule {α : Type} [Field α] [LinearOrder α] [IsStrictOrderedRing α]
    (FLin FUin FL FU : List α) (a b u v : α) (h1 : FL.head? = some a)
    (h2 : FLin.head? = some b) (h3 : FU.getLast? = some u) (h4 : FUin.getLast? = some v) :
    (clipEnds FLin FUin FL FU).1 = max a b :: FL.tail ∧
      (clipEnds FLin FUin FL FU).2 = FU.dropLast ++ [min u v] :=
  clipEnds_spec FLin FUin FL FU a b u v h1 h2 h3 h4

/-! ## get_freq_oct: octave bands -/

/-- whatever `get_freq_oct` returns (any `trim`, `exact` or not, any positive anchor, `n > 0`):
positive centres, `FL = F/factor`, `FU = F·factor`, `FU/FL = 2^(1/n)` (`10^(3/(10n))` for the
approximate scale), each centre the geometric mean of its band edges, consecutive bands share an
edge -/
theorem freq_oct_bands (n fr0 e : ℝ) (hn : 0 < n) (exact : Bool) (trim : Trim)
    (anchor : Option ℝ) (ha : ∀ a, anchor = some a → 0 < a)
    (F FL FU : List ℝ) (h : getFreqOct n fr0 e exact trim anchor = some (F, FL, FU)) :
    ∃ (h1 : FL.length = F.length) (h2 : FU.length = F.length),
      (∀ (i : Nat) (hi : i < F.length),
        0 < F[i] ∧ FL[i] = F[i] / octFactor n exact ∧ FU[i] = F[i] * octFactor n exact ∧
        FU[i] / FL[i] = octRatio n exact ∧ F[i] ^ 2 = FL[i] * FU[i]) ∧
      (∀ (i : Nat) (hi : i + 1 < F.length), FU[i] = FL[i + 1]) :=
  getFreqOct_bands n fr0 e hn exact trim anchor ha F FL FU h

/-- the two ratios, spelled out -/
theorem freq_oct_ratio (n : ℝ) :
    octRatio n true = (2 : ℝ) ^ (1 / n) ∧ octFactor n true = (2 : ℝ) ^ (1 / (2 * n)) ∧
      octRatio n false = (10 : ℝ) ^ (3 / (10 * n)) ∧ octFactor n false = (10 : ℝ) ^ (3 / (20 * n)) :=
  ⟨rfl, rfl, rfl, rfl⟩

/-! ## non-vacuity -/

example : closest ([0, 1, 5, 6] : List ℚ) (5 / 2) = some 1 ∧
    closest ([0, 1, 5, 6] : List ℚ) 3 = some 1 ∧ closest ([0, 1, 5, 6] : List ℚ) 4 = some 2 := by
  decide +kernel
example : prevIdx ([0, 1, 5, 6] : List ℚ) 4 = 1 ∧ prevIdx ([0, 1, 5, 6] : List ℚ) 5 = 2 := by
  decide +kernel
example : resampleLen 7 4 6 = 5 ∧ resampleLen 530 1 5 = 106 := by
  rw [resampleLen_eq 7 4 6 (by norm_num), resampleLen_eq 530 1 5 (by norm_num)]; decide
/-- the documentation example of `rescale`: `0.525 = 1·(2.5 − (−0.125))/5` -/
example : bandArea ([-1/8, 1/8, 3/8] : List ℚ) [1, 1] (-5/2) (1/4) = 3/8 := by
  norm_num [bandArea]

/-- `area_is_integral_of_interpolant`: a three-point specification (slopes `1` and `-1`) meets
all hypotheses -/
example : ∃ spec : List (ℝ × ℝ), (spec.map (·.1)).Pairwise (· < ·) ∧
    (∀ r ∈ spec, 0 < r.1 ∧ 0 < r.2) ∧ 0 < spec.length ∧
    ∀ (k : Nat) (hk : k + 1 < spec.length),
      segSlope spec[k] spec[k + 1] = -1 ∨ 1e-8 ≤ |segSlope spec[k] spec[k + 1] + 1| := by
  refine ⟨[(1, 1), (2, 2), (4, 1)], by norm_num, by simp, by simp, ?_⟩
  intro k hk
  have hl : Real.log 2 ≠ 0 := ne_of_gt (Real.log_pos (by norm_num))
  match k, hk with
  | 0, _ =>
      right
      have : segSlope ((1, 1) : ℝ × ℝ) (2, 2) = 1 := by
        simp [segSlope, hl]
      simp only [List.getElem_cons_zero, List.getElem_cons_succ, this]
      norm_num
  | 1, _ =>
      left
      show segSlope ((2, 2) : ℝ × ℝ) (4, 1) = -1
      unfold segSlope
      have e1 : ((1 : ℝ) / 2) = 2⁻¹ := by norm_num
      have e2 : ((4 : ℝ) / 2) = 2 := by norm_num
      simp only [e1, e2, Real.log_inv]
      field_simp

/-- `upsample_keeps_samples_full`: a window of the required length with centre value `1` -/
example : ([0, 0, 1, 0, 0] : List ℝ).length = 2 * 1 * (2 / Nat.gcd 2 1) + 1 ∧
    ([0, 0, 1, 0, 0] : List ℝ).getD (1 * (2 / Nat.gcd 2 1)) 0 = 1 := by
  constructor <;> simp

/-- `tnew_uniform`: the documentation example `t = [0, 1, 5, 6]`, `sr = 1` -/
example : (mkInitialTnew [0, 1, 5, 6] 1).map (fun r => (r.tnew, r.tp, r.align, r.delt, r.mismatch)) =
    some ([0, 1, 2, 3, 4, 5, 6], [0, 1, 2, 3], true, 0, false) := by decide +kernel

/-- `alldrops_indices_are_full_record_positions`: a drop-out at position 2 and a stray time at
position 12: the stray time is reported as full-record position 12 (it is entry 11 of the filtered
vector) and positions 2 and 12 are removed -/
example :
    (fun r : Drops => (r.dropouts, r.outtimes, r.alldrops, r.keep))
      (fixtimeDrops [0, 1, 2, 3, 4, 5, 6, 7, 8, 9, 10, 11, 1000]
        [false, false, true, false, false, false, false, false, false, false, false, false, false]
        true true none) =
      (some [2], [12], [2, 12], [0, 1, 3, 4, 5, 6, 7, 8, 9, 10, 11]) := by decide +kernel

/-- `edges_partition_linear_tolerance` / `edges_partition_log`: inhabited hypotheses -/
example : isLinTol ([1, 2, 3] : List ℝ) = true ∧ diffs ([1, 2, 3] : List ℝ) = [1, 1] := by
  constructor
  · norm_num [isLinTol, diffs, absv]
  · norm_num [diffs]

/-- `freq_oct_bands`: the exact full-octave scale asked for `[1000, 1000]` is the one band around
`1000` -/
example : getFreqOct (1 : ℝ) 1000 1000 true Trim.outside none =
    some ([1000], [1000 / (2 : ℝ) ^ ((1 : ℝ) / (2 * 1))], [1000 * (2 : ℝ) ^ ((1 : ℝ) / (2 * 1))]) := by
  have hf : (1 : ℝ) ≤ (2 : ℝ) ^ (2⁻¹ : ℝ) := Real.one_le_rpow (by norm_num) (by norm_num)
  have h1 : (1000 : ℝ) / (2 : ℝ) ^ (2⁻¹ : ℝ) ≤ 1000 := by
    rw [div_le_iff₀ (by linarith)]; nlinarith
  unfold getFreqOct octScale arange trimIdx
  simp [OctOps.log2, OctOps.floor, OctOps.ceilNat, OctOps.pow]
  rw [if_pos h1, if_pos hf]
  simp

end PyYetiVerif.C19
