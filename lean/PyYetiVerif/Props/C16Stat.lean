import PyYetiVerif.Model.ExtremaMerge
import Mathlib.Algebra.BigOperators.Fin
import Mathlib.Algebra.BigOperators.Group.List.Basic
import Mathlib.Algebra.Order.Field.Basic
import Mathlib.Algebra.Order.Field.Rat
import Mathlib.Algebra.Order.Ring.Abs
import Mathlib.Data.List.Perm.Basic
import Mathlib.Tactic.Ring
import Mathlib.Tactic.Linarith
/-!
# C16 — statistical extremes (`DR_Results.calc_stat_ext`)

Property theorems only.  Model: `Model/ExtremaMerge.lean` (`mean`, `std1`, `statExtRow`), one row of
one category over the per-case columns `res.mx[i, :]`, `res.mn[i, :]`; tied by the `stat-ext` stream
(numeric, the same definitions at `Float`).  The specification side is written with `Finset` sums
over the case index and does not mention the model's list folds.
-/
namespace PyYetiVerif.C16
open PyYetiVerif.Extrema

section def_
variable {α : Type} [Field α]

/-- sample variance with `ddof = 1` over the cases `0 … n-1`, written out -/
def sampleVar {n : Nat} (x : Fin n → α) : α :=
  (∑ i, (x i - (∑ j, x j) / (n : α)) * (x i - (∑ j, x j) / (n : α))) / ((n - 1 : Nat) : α)

/-- ★ `calc_stat_ext(k)`, one row: the returned pair is `mean(mx) + k·std(mx)` and
`mean(mn) − k·std(mn)` with `mean = (Σ x_j)/n` over the `n` cases in the order given and
`std = sqrt(Σ (x_j − mean)² / (n − 1))` — the divisor the code uses is `n − 1` (`ddof=1`). -/
theorem stat_ext_def (sqrt : α → α) (k : α) {n : Nat} (mx mn : Fin n → α) :
    statExtRow sqrt k (List.ofFn mx) (List.ofFn mn)
      = ((∑ j, mx j) / (n : α) + k * sqrt (sampleVar mx),
         (∑ j, mn j) / (n : α) - k * sqrt (sampleVar mn)) := by
  have hm : ∀ x : Fin n → α, mean (List.ofFn x) = (∑ j, x j) / (n : α) := by
    intro x
    simp [mean, List.sum_ofFn]
  have hs : ∀ x : Fin n → α, std1 sqrt (List.ofFn x) = sqrt (sampleVar x) := by
    intro x
    simp only [std1, hm, sampleVar, List.map_ofFn, List.sum_ofFn, List.length_ofFn,
      Function.comp_def]
  simp only [statExtRow, hm, hs]

/-- ★ the statistical extreme does not depend on the order of the cases -/
theorem stat_ext_order_independent (sqrt : α → α) (k : α) (mx mx' mn mn' : List α)
    (hx : mx.Perm mx') (hn : mn.Perm mn') :
    statExtRow sqrt k mx mn = statExtRow sqrt k mx' mn' := by
  have hm : ∀ a b : List α, a.Perm b → mean a = mean b := by
    intro a b h
    simp [mean, h.sum_eq, h.length_eq]
  have hs : ∀ a b : List α, a.Perm b → std1 sqrt a = std1 sqrt b := by
    intro a b h
    simp only [std1, hm a b h, h.length_eq]
    rw [(h.map _).sum_eq]
  simp only [statExtRow, hm mx mx' hx, hm mn mn' hn, hs mx mx' hx, hs mn mn' hn]

end def_

section mono
variable {α : Type} [Field α] [LinearOrder α] [IsStrictOrderedRing α]

/-- ★ monotone in `k`: with a square root that is never negative, a larger `k` moves the statistical
maximum up (or leaves it) and the statistical minimum down (or leaves it). -/
theorem stat_ext_monotone_in_k (sqrt : α → α) (hsq : ∀ x, 0 ≤ sqrt x) (k k' : α) (hk : k ≤ k')
    (mx mn : List α) :
    (statExtRow sqrt k mx mn).1 ≤ (statExtRow sqrt k' mx mn).1 ∧
    (statExtRow sqrt k' mx mn).2 ≤ (statExtRow sqrt k mx mn).2 := by
  have h1 : 0 ≤ std1 sqrt mx := hsq _
  have h2 : 0 ≤ std1 sqrt mn := hsq _
  simp only [statExtRow]
  constructor
  · have := mul_le_mul_of_nonneg_right hk h1
    linarith
  · have := mul_le_mul_of_nonneg_right hk h2
    linarith

end mono

/-! ### non-vacuity -/

/-- three cases `1, 2, 6`: mean 3, sample variance `(4 + 1 + 9)/2 = 7` (with `ddof = 0` it would
be `14/3`) -/
example : sampleVar (![1, 2, 6] : Fin 3 → ℚ) = 7 := by
  simp [sampleVar, Fin.sum_univ_three]
  norm_num

/-- `stat_ext_monotone_in_k`: `|·|` is a never-negative stand-in for the square root -/
example : ∀ x : ℚ, 0 ≤ |x| := abs_nonneg

end PyYetiVerif.C16
