import PyYetiVerif.Lemmas.FreqSolve
import PyYetiVerif.Lemmas.FreqGauss
import PyYetiVerif.Props.C02b
/-!
# C02 (continued) — partition bookkeeping, constructor state and the scatter of the blocks

The definitions are those of `Model/FreqSolve.lean`, which the driver executes.

* `layout_correct`   `_make_rb_el`: for every rf index vector (any order) and every rigid-body
  specification (automatic mask, or a user index vector in any order) the derived vectors are what
  their names say — `nonrf[_rb] = rb` (ascending), `nonrf[_el] = el`, and `rb ++ el ++ rf` is a
  permutation of `0 … n−1`;
* `imrb_correct`     the `SolveUnc` constructor as explicit state: after `get_su_eig` shrank
  `m, b, k, kdof` to the elastic set and emptied `_rb`, the mass rows that `_solve_freq_rb` pairs
  with `force[rb]` are the rigid-body equations' own, in the same order, on every path (real
  uncoupled: `invm[_rb]`; complex uncoupled and coupled: `imrb`), for every layout including rf
  indices below rb indices; `b[_el]`, `k[_el]`, `m[_el]` are the elastic equations' own;
* `findings_instances`   the recorded inputs of F8, F27, F28, F36 as evaluated instances;
* `scatter_covers`   every row of the zero-initialised `d, v, a` is written exactly once, by its
  own block, whatever the order of the index vectors.
-/
set_option linter.unusedSimpArgs false
set_option linter.unusedSectionVars false
set_option linter.unusedVariables false
namespace PyYetiVerif.C02
open PyYetiVerif.Freq

/-- `_make_rb_el` (repaired code, rigid-body index vector sorted): the partition vectors. -/
theorem layout_correct (n : Nat) (rf : List Nat) (rbUser : Option (List Nat)) (autoRb : Nat → Bool)
    (hnd : rf.Nodup) (hlt : ∀ r ∈ rf, r < n)
    (hu : ∀ u, rbUser = some u → u.Nodup ∧ ∀ r ∈ u, r < n ∧ r ∉ rf) :
    ∃ L, mkLayout n rf rbUser autoRb = some L ∧ L.n = n ∧ L.rf = rf ∧ L.nonrf = nonrfOf n rf ∧
      L.rb = (match rbUser with
        | some u => sortAsc u
        | none => (nonrfOf n rf).filter autoRb) ∧
      L.el = (nonrfOf n rf).filter (fun j => !L.rb.contains j) ∧
      gather L.nonrf L.rb_ = some L.rb ∧ gather L.nonrf L.el_ = some L.el ∧
      L.rb.Pairwise (· < ·) ∧ L.el.Pairwise (· < ·) ∧
      (L.rb ++ L.el ++ L.rf).Perm (List.range n) := by
  cases rbUser with
  | none =>
    obtain ⟨h1, h2, h3, h4, h5⟩ := layout_core n rf autoRb hnd hlt
    have hnr : ((List.range n).filter fun j => !rf.contains j) = nonrfOf n rf := rfl
    refine ⟨⟨n, rf, nonrfOf n rf, (nonrfOf n rf).filter autoRb,
      (nonrfOf n rf).filter (fun x => !autoRb x), positionsFrom autoRb 0 (nonrfOf n rf),
      (List.range (nonrfOf n rf).length).filter fun p =>
        !(positionsFrom autoRb 0 (nonrfOf n rf)).contains p⟩, ?_, rfl, rfl, rfl, rfl, ?_, h1, h2,
      (nonrf_strict n rf).filter _, (nonrf_strict n rf).filter _, h5⟩
    · simp only [mkLayout, hnr, h1, h2, h3, h4, Option.map_some]
    · apply List.filter_congr
      intro j hj
      simp only [List.contains_eq_mem, List.mem_filter, hj, true_and, decide_eq_true_eq]
      cases autoRb j <;> simp
  | some u =>
    obtain ⟨hund, hul⟩ := hu u rfl
    obtain ⟨h1, h2, h3, h4, h5⟩ := layout_core n rf (fun j => (sortAsc u).contains j) hnd hlt
    have hnr : ((List.range n).filter fun j => !rf.contains j) = nonrfOf n rf := rfl
    have hstrict := sortAsc_strict u hund
    have hmem : ∀ a, a ∈ sortAsc u ↔ a ∈ u := fun a => (sortAsc_perm u).mem_iff
    have hrb : (nonrfOf n rf).filter (fun j => (sortAsc u).contains j) = sortAsc u := by
      apply eq_of_strict_of_mem_iff ((nonrf_strict n rf).filter _) hstrict
      intro a
      simp only [List.mem_filter, mem_nonrfOf, List.contains_eq_mem, decide_eq_true_eq]
      constructor
      · exact fun h => h.2
      · intro h
        have := hul a ((hmem a).1 h)
        exact ⟨this, h⟩
    rw [hrb] at h1 h3 h5
    refine ⟨⟨n, rf, nonrfOf n rf, sortAsc u,
      (nonrfOf n rf).filter (fun x => !(sortAsc u).contains x),
      positionsFrom (fun j => (sortAsc u).contains j) 0 (nonrfOf n rf),
      (List.range (nonrfOf n rf).length).filter fun p =>
        !(positionsFrom (fun j => (sortAsc u).contains j) 0 (nonrfOf n rf)).contains p⟩,
      ?_, rfl, rfl, rfl, rfl, rfl, h1, h2, hstrict, (nonrf_strict n rf).filter _, h5⟩
    simp only [mkLayout, hnr, h2, h4, Option.map_some]

/-- **the stateful constructor bookkeeping**: for a layout whose `_rb`, `_el` address `rb`, `el`
inside `nonrf` (every layout `mkLayout` produces, by `layout_correct`), on both constructor paths
and with the mass given or not:
* the rows of `b`, `k`, `m` that `_solve_freq_unc` pairs with `force[el]` are `el`;
* on the `get_su_eig` path `m, b, k` and `kdof` are shrunk to `el` and `_rb` is emptied;
* the mass rows that `_solve_freq_rb` pairs with `force[rb]` are `rb` — through `invm[_rb]` on the
  real uncoupled path and through `imrb` (built *before* `_rb` was emptied) otherwise. -/
theorem imrb_correct (L : Layout) (hrb : gather L.nonrf L.rb_ = some L.rb)
    (hel : gather L.nonrf L.el_ = some L.el) (eigPath mNone : Bool) :
    ∃ st, suInit L eigPath mNone = some st ∧ st.lay = L ∧
      elRows st = some L.el ∧
      (eigPath = true → L.nonrf ≠ [] → st.kdof = L.el ∧ st.mRows = L.el ∧ st.rb_ = []) ∧
      (eigPath = false → st.kdof = L.nonrf ∧ st.mRows = L.nonrf) ∧
      (mNone = false → L.rb ≠ [] → rbMassRows st (!eigPath) = some L.rb) := by
  have hrblen := gather_length _ _ _ hrb
  have hellen := gather_length _ _ _ hel
  by_cases hne : L.nonrf = []
  · -- no dynamic equations at all
    have hrb_ : L.rb_ = [] := by
      cases h : L.rb_ with
      | nil => rfl
      | cons p ps => rw [h, hne, gather_cons] at hrb; simp at hrb
    have hrb0 : L.rb = [] := by
      rw [hrb_] at hrblen; exact List.eq_nil_of_length_eq_zero (by simpa using hrblen)
    refine ⟨⟨L, L.nonrf, L.nonrf, L.rb_, L.el_, none, none⟩, ?_, rfl, ?_, ?_, ?_, ?_⟩
    · simp [suInit, hne]
    · simpa [elRows] using hel
    · intro _ h; exact absurd hne h
    · intro _; exact ⟨rfl, rfl⟩
    · intro _ h; exact absurd hrb0 h
  · have hne' : L.nonrf.isEmpty = false := by
      cases h : L.nonrf with
      | nil => exact absurd h hne
      | cons _ _ => rfl
    cases eigPath with
    | false =>
      refine ⟨⟨L, L.nonrf, L.nonrf, L.rb_, L.el_, none, if mNone then none else some L.nonrf⟩,
        ?_, rfl, ?_, ?_, ?_, ?_⟩
      · simp [suInit, hne']
      · simpa [elRows] using hel
      · intro h; cases h
      · intro _; exact ⟨rfl, rfl⟩
      · intro hm _
        subst hm
        simp [rbMassRows, hrb]
    | true =>
      have hrbE : ∀ (h : L.rb ≠ []), L.rb_.isEmpty = false := by
        intro h
        cases h' : L.rb_ with
        | nil =>
          rw [h'] at hrblen
          exact absurd (List.eq_nil_of_length_eq_zero (by simpa using hrblen)) h
        | cons _ _ => rfl
      by_cases hcond : (!mNone && !L.rb.isEmpty && !L.rb_.isEmpty) = true
      · refine ⟨⟨L, L.el, L.el, [], List.range L.el.length, some L.rb,
          if !L.el.isEmpty && !mNone then some L.el else none⟩, ?_, rfl, ?_, ?_, ?_, ?_⟩
        · simp only [suInit, hne', hcond, hrb, hel, Bool.not_true, Bool.false_eq_true, if_false,
            if_true, Option.map_some]
        · exact gather_range _
        · intro _ _; exact ⟨rfl, rfl, rfl⟩
        · intro h; cases h
        · intro _ _; simp [rbMassRows]
      · refine ⟨⟨L, L.el, L.el, [], List.range L.el.length, none,
          if !L.el.isEmpty && !mNone then some L.el else none⟩, ?_, rfl, ?_, ?_, ?_, ?_⟩
        · simp only [suInit, hne', hcond, hrb, hel, Bool.not_true, Bool.false_eq_true, if_false,
            if_true, Option.map_some]
        · exact gather_range _
        · intro _ _; exact ⟨rfl, rfl, rfl⟩
        · intro h; cases h
        · intro hm hr
          exfalso
          apply hcond
          subst hm
          have : L.rb.isEmpty = false := by
            cases h : L.rb with
            | nil => exact absurd h hr
            | cons _ _ => rfl
          simp [this, hrbE hr]

/-- **the damping of the rigid-body modes** (uncoupled path, repaired code): the rows of `b` that
`_solve_freq_rb` reads are the rigid-body equations' own, in the order of `force[rb]`, on both
constructor paths — `self.b[self._rb]` with real coefficients, and `self.brb` with complex
coefficients, which `get_su_eig` keeps *before* it reduces `b` to the elastic modes and empties
`_rb` (taken afterwards it would address nothing: `damped_rb_instances`). -/
theorem rbDampRows_correct (L : Layout) (hrb : gather L.nonrf L.rb_ = some L.rb)
    (hel : gather L.nonrf L.el_ = some L.el) (eigPath mNone : Bool) (st : SuState)
    (hst : suInit L eigPath mNone = some st) : rbDampRows st (!eigPath) = some L.rb := by
  obtain ⟨st', hst', hlay, _, _, hN, _⟩ := imrb_correct L hrb hel eigPath mNone
  have : st' = st := Option.some.inj (hst'.symm.trans hst)
  subst this
  cases eigPath with
  | true => simp [rbDampRows, hlay, hrb]
  | false =>
    have hm := (hN rfl).2
    have hr : st'.rb_ = L.rb_ := by
      unfold suInit at hst'
      by_cases hne : L.nonrf.isEmpty = true
      · simp only [hne, if_true, Option.some.injEq] at hst'
        rw [← hst']
      · simp only [hne, Bool.false_eq_true, if_false, Bool.not_false, if_true, Option.some.injEq] at hst'
        rw [← hst']
    simp [rbDampRows, hm, hr, hrb]

/-- the recorded inputs of F51 / F52 (`m=[2,3]`, `b=[0.8,0.3]`, `k=[0,50]`, the second with
`k·(1+0.02j)`), evaluated: the damping rows of the rigid-body block are `[0]` on both paths, whereas
on the complex path `b[_rb]` taken *after* `get_su_eig` reduced `b` (rows `[1]`, `_rb = []`) addresses
nothing; and with the rigid-body mode last (`k=[50,0]`, rf absent) the rows are `[1]`. -/
theorem damped_rb_instances :
    ((mkLayout 2 [] none (fun j => j == 0)).bind fun L => (suInit L false false).map fun st =>
      (L.rb, rbDampRows st true, rbMassRows st true)) = some ([0], some [0], some [0]) ∧
    ((mkLayout 2 [] none (fun j => j == 0)).bind fun L => (suInit L true false).map fun st =>
      (L.rb, rbDampRows st false, rbMassRows st false)) = some ([0], some [0], some [0]) ∧
    ((mkLayout 2 [] none (fun j => j == 0)).bind fun L => (suInit L true false).map fun st =>
      (st.mRows, st.rb_, gather st.mRows st.rb_)) = some ([1], [], some []) ∧
    ((mkLayout 2 [] none (fun j => j == 1)).bind fun L => (suInit L true true).map fun st =>
      (L.rb, rbDampRows st false, rbMassRows st false)) = some ([1], some [1], none) := by
  refine ⟨?_, ?_, ?_, ?_⟩ <;> decide

/-- the rows the constructor state addresses for `imrb` are the `imrbPick` of `Props/C02.lean`
(`imrbPick_correct`): `self.m[self._rb]` with `_rb = np.nonzero(vec[nonrf])[0]` -/
theorem imrbPick_is_state_rows (nonrf rb : List Nat) :
    gather nonrf (positionsFrom (fun j => rb.contains j) 0 nonrf) = some (imrbPick nonrf rb) :=
  gather_positions _ nonrf

/-- the recorded inputs of the four findings that lived in this bookkeeping, evaluated:
* F8  (`m=[2,3,4]`, `k=[0,50,90](1+.02j)`, rb detected `[0]`, complex uncoupled): after
  `get_su_eig` the state has `_rb = []`, so `invm[_rb]` (the pre-fix expression, `uncReal = true`)
  addresses *nothing* while `force[rb]` has one row — the `ValueError`; `imrb` holds equation 0;
* F27 (`n=4`, `rf=[0]`, rb detected `[1]`; and `n=3`, `rf=[0]`, rb `[2]`): `imrb` is built from
  `nonrf[_rb]` = the rigid-body equation itself (pre-fix: `imrbPickPrefix_counterexample`);
* F28 (`k=[0,100,0,400]`, rb `[0,2]`, an index array): both rows are written, each once;
* F36 (`rb=[2,0]` given unsorted, `m=[2,1,5]`): `rb` is `[0,2]` and the mass rows are `[0,2]`. -/
theorem findings_instances :
    -- F8
    ((mkLayout 3 [] none (fun j => j == 0)).bind fun L => (suInit L true false).map fun st =>
      (L.rb, st.rb_, st.mRows)) = some ([0], [], [1, 2]) ∧
    ((mkLayout 3 [] none (fun j => j == 0)).bind fun L => (suInit L true false).map fun st =>
      (st.imrb, rbMassRows st true, rbMassRows st false)) = some (some [0], some [], some [0]) ∧
    -- F27
    ((mkLayout 4 [0] none (fun j => j == 1)).bind fun L => (suInit L true false).map fun st =>
      (L.rb, L.rb_, st.kdof, rbMassRows st false)) = some ([1], [0], [2, 3], some [1]) ∧
    ((mkLayout 3 [0] none (fun j => j == 2)).bind fun L => (suInit L true false).map fun st =>
      (L.rb, L.rb_, st.kdof, rbMassRows st false)) = some ([2], [1], [1], some [2]) ∧
    -- F28
    ((mkLayout 4 [] none (fun j => j == 0 || j == 2)).bind fun L => (suInit L false false).map fun st =>
      (L.rb, L.el, rbMassRows st true, elRows st)) = some ([0, 2], [1, 3], some [0, 2], some [1, 3]) ∧
    ((mkLayout 4 [] none (fun j => j == 0 || j == 2)).map fun L =>
      (assemble (α := Int) 4 L.rf [] L.rb [⟨1, 1, 1⟩, ⟨2, 2, 2⟩] L.el [⟨3, 3, 3⟩, ⟨4, 4, 4⟩]).map
        fun x => (x.d, x.v, x.a)) = some [(1, 1, 1), (3, 3, 3), (2, 2, 2), (4, 4, 4)] ∧
    -- F36
    ((mkLayout 3 [] (some [2, 0]) (fun _ => false)).bind fun L => (suInit L false false).map fun st =>
      (L.rb, L.el, rbMassRows st true, elRows st)) = some ([0, 2], [1], some [0, 2], some [1]) := by
  refine ⟨?_, ?_, ?_, ?_, ?_, ?_, ?_⟩ <;> decide

/-- **`scatter_covers`**: with `rb ++ el ++ rf` a permutation of `0 … n−1` (any order inside the
vectors, `layout_correct`), every row is addressed exactly once, and the assembled column holds at
row `rb[q]` / `el[q]` / `rf[q]` the `q`-th value of that block — nothing is overwritten and nothing
is left at its initial zero. -/
theorem scatter_covers {α : Type} [Zero α] (n : Nat) (rb el rf : List Nat)
    (hperm : (rb ++ el ++ rf).Perm (List.range n))
    (vrb vel vrf : List (Dva α))
    (hlrb : rb.length = vrb.length) (hlel : el.length = vel.length) (hlrf : rf.length = vrf.length) :
    (assemble n rf vrf rb vrb el vel).length = n ∧
    (∀ r, r < n → (rb ++ el ++ rf).count r = 1) ∧
    (∀ q (hq : q < rb.length), (assemble n rf vrf rb vrb el vel)[rb[q]]? = some (vrb[q]'(hlrb ▸ hq))) ∧
    (∀ q (hq : q < el.length), (assemble n rf vrf rb vrb el vel)[el[q]]? = some (vel[q]'(hlel ▸ hq))) ∧
    (∀ q (hq : q < rf.length), (assemble n rf vrf rb vrb el vel)[rf[q]]? = some (vrf[q]'(hlrf ▸ hq))) := by
  have hnd : (rb ++ el ++ rf).Nodup := hperm.nodup_iff.2 List.nodup_range
  have hnd1 := List.nodup_append.1 hnd
  have hnd2 := List.nodup_append.1 hnd1.1
  have hlt : ∀ r ∈ rb ++ el ++ rf, r < n := fun r hr => List.mem_range.1 (hperm.mem_iff.1 hr)
  have hdis_rb_el : ∀ r ∈ rb, r ∉ el := fun r h1 h2 => hnd2.2.2 r h1 r h2 rfl
  have hdis_rbel_rf : ∀ r ∈ rb ++ el, r ∉ rf := fun r h1 h2 => hnd1.2.2 r h1 r h2 rfl
  unfold assemble
  refine ⟨by simp [scatter_length], ?_, ?_, ?_, ?_⟩
  · intro r hr
    rw [hperm.count_eq]
    exact List.count_eq_one_of_mem List.nodup_range (List.mem_range.2 hr)
  · intro q hq
    rw [scatter_getElem?_of_not_mem _ _ _ _ (hdis_rb_el _ (List.getElem_mem hq))]
    exact scatter_getElem? _ _ _ hnd2.1 hlrb
      (fun r hr => by
        simp only [scatter_length, List.length_replicate]
        exact hlt r (by simp [hr])) q hq
  · intro q hq
    exact scatter_getElem? _ _ _ hnd2.2.1 hlel
      (fun r hr => by
        simp only [scatter_length, List.length_replicate]
        exact hlt r (by simp [hr])) q hq
  · intro q hq
    have hmem : rf[q] ∈ rf := List.getElem_mem hq
    rw [scatter_getElem?_of_not_mem _ _ _ _
        (fun h => hdis_rbel_rf _ (List.mem_append_right _ h) hmem),
      scatter_getElem?_of_not_mem _ _ _ _
        (fun h => hdis_rbel_rf _ (List.mem_append_left _ h) hmem)]
    exact scatter_getElem? _ _ _ hnd1.2.1 hlrf
      (fun r hr => by
        simp only [List.length_replicate]
        exact hlt r (by simp [hr])) q hq

/-! ### the hypotheses are inhabited -/

/-- an rf index below an rb index, rf given in descending order, rb given unsorted -/
example : ([5, 0] : List Nat).Nodup ∧ (∀ r ∈ ([5, 0] : List Nat), r < 6) ∧
    (∀ u, some [3, 1] = some u → u.Nodup ∧ ∀ r ∈ u, r < 6 ∧ r ∉ ([5, 0] : List Nat)) := by
  refine ⟨by decide, by decide, ?_⟩
  intro u hu
  cases hu
  exact ⟨by decide, by decide⟩

example : (mkLayout 6 [5, 0] (some [3, 1]) (fun _ => false)).map
    (fun L => (L.rb, L.el, L.rf, L.rb_, L.el_)) = some ([1, 3], [2, 4], [5, 0], [0, 2], [1, 3]) := by
  decide

end PyYetiVerif.C02
