import PyYetiVerif.Lemmas.SuCoefDelconjReal
/-!
# C01 — the coupled path of `SolveUnc` for real systems (`delconj`, real recovery)

For a real system `_solve_complex_unc` keeps one mode of each complex-conjugate pair (`delconj`:
the kept eigenvector is doubled), runs the modal recurrence on the kept modes only and recovers
`d = rur_d @ ry - iur_d @ iy`, `v = rur_v @ ry - iur_v @ iy` (`coupledRun` of
`Model/SuCoefCoupled.lean`).

Specification of the kept eigen-data `e` (`DelconjSpec`, `Lemmas/SuCoefDelconjRun.lean`), with
`cpx k` = "mode `k` is the kept member of a conjugate pair": rebuild the full decomposition
(`fullU`: kept columns, halved where `cpx`, and the conjugates of the `cpx` columns, halved;
`fullV`: kept rows and the conjugates of the `cpx` rows; `fullLam` likewise); then
`fullU fullV = 1`, `fullV fullU = 1`, `A fullU = fullU diag(fullLam)` for
`A = [[-M⁻¹B, -M⁻¹K], [I, 0]]`, the data of the non-`cpx` modes are real, and the small-eigenvalue
branch is taken exactly for zero eigenvalues.  The correspondence check measures these five
conditions on the implementation's own `pc.lam, pc.ur, pc.ur_inv` on every run.

`delconj_recovers`   : one step from a real initial state is the state at `t = h` of THE solution
                       of `M d'' + B d' + K d = f(t)` (existence, and every solution);
`coupled_run_exact_real` : every sample `j+1` of `coupledRun` is the state at `t = h` of THE real
                       solution started from sample `j` with the hold forcing of step `j`.
-/
namespace PyYetiVerif.C01
open PyYetiVerif.SuCoef Matrix

variable {n N : ℕ}

/-- the slope of the hold forcing on a step: `(f₁ - f₀)/h` for order 1, `0` for order 0 -/
noncomputable def holdSlope (order1 : Bool) (h : ℝ) (f0 f1 : Fin n → ℝ) : Fin n → ℝ :=
  if order1 then h⁻¹ • (f1 - f0) else 0

/-- under the specification the real equation of motion has a solution for every real initial state
and every force `f₀ + t fs` (the rebuilt modal solution, real part) -/
theorem sol2R_exists (e : Eig ℂ n N) (cpx : Fin N → Bool) (isSmall : ℂ → Bool)
    (M Mi B K : Matrix (Fin n) (Fin n) ℝ) (hMi : Mi * M = 1)
    (sp : DelconjSpec e cpx isSmall (stateA (cMat Mi) (cMat B) (cMat K)))
    (f0 fs d0 v0 : Fin n → ℝ) : ∃ d v, IsSol2R M B K f0 fs d0 v0 d v := by
  have hMi' : M * Mi = 1 := mul_eq_one_comm.1 hMi
  have hsm : ∀ k, (Sum.elim (fun k => isSmall (e.lam k)) (fun k : {k : Fin N // cpx k = true} =>
      isSmall (e.lam k.1)) k = true → fullLam e cpx k = 0) ∧
      (Sum.elim (fun k => isSmall (e.lam k)) (fun k : {k : Fin N // cpx k = true} =>
      isSmall (e.lam k.1)) k = false → fullLam e cpx k ≠ 0) := by
    intro k
    cases k with
    | inl k => exact sp.small k
    | inr k =>
      simp only [Sum.elim_inr, fullLam]
      exact ⟨fun hs => by rw [(sp.small k.1).1 hs]; simp,
        fun hs hc => (sp.small k.1).2 hs ((map_eq_zero _).1 hc)⟩
  have hz := zModal_isStateSol _ (fullU e cpx) (fullV e cpx) (fullLam e cpx) _ sp.hUV sp.hAU hsm
    (Sum.elim (cMat Mi *ᵥ cVec f0) 0) (Sum.elim (cMat Mi *ᵥ cVec fs) 0)
    (Sum.elim (cVec v0) (cVec d0))
  exact ⟨_, _, (hz.toSol2 (cMat_mul_eq_one hMi')).re⟩

/-- one step of the real recovery.  `(d₁, v₁)` = second sample of
`coupledRun order1 isSmall h e d₀ v₀ [M⁻¹ f₀, M⁻¹ f₁]`. -/
theorem delconj_recovers (e : Eig ℂ n N) (cpx : Fin N → Bool) (isSmall : ℂ → Bool)
    (M Mi B K : Matrix (Fin n) (Fin n) ℝ) (hMi : Mi * M = 1)
    (sp : DelconjSpec e cpx isSmall (stateA (cMat Mi) (cMat B) (cMat K)))
    (h : ℝ) (hh : h ≠ 0) (order1 : Bool) (d0 v0 f0 f1 d1 v1 : Fin n → ℝ)
    (hrun : (coupledRun order1 isSmall (h : ℂ) e d0 v0 [Mi *ᵥ f0, Mi *ᵥ f1])[1]? = some (d1, v1)) :
    (∃ d v, IsSol2R M B K f0 (holdSlope order1 h f0 f1) d0 v0 d v) ∧
    ∀ d v, IsSol2R M B K f0 (holdSlope order1 h f0 f1) d0 v0 d v → d h = d1 ∧ v h = v1 := by
  have hMi' : M * Mi = 1 := mul_eq_one_comm.1 hMi
  -- the kept modal state of the initial conditions and its two invariants
  have hy0 : RealAt cpx (modalInit e (cVec d0) (cVec v0)) := by
    rw [modalInit_eq]; exact V_mulVec_realAt e cpx sp.real _ (zOf_real d0 v0)
  have hz0 : fullU e cpx *ᵥ extend cpx (modalInit e (cVec d0) (cVec v0)) = zOf d0 v0 := by
    rw [modalInit_eq]
    show fullU e cpx *ᵥ extend cpx (e.V *ᵥ zOf d0 v0) = zOf d0 v0
    rw [← fullV_mulVec_real e cpx _ (zOf_real d0 v0), Matrix.mulVec_mulVec, sp.hUV, Matrix.one_mulVec]
  -- the second sample
  rw [coupledRun_getElem?] at hrun
  simp only [List.map_cons, List.map_nil, runModal, Memo.get_ofFn, List.getElem?_cons_succ, List.getElem?_cons_zero,
    Option.map_some, one_ne_zero, if_false, Option.some.injEq, Prod.mk.injEq] at hrun
  obtain ⟨hd1, hv1⟩ := hrun
  have hy1 := step_realAt e cpx sp.real isSmall h order1 _ _ _ hy0
    (show RealAt cpx (modalForce e (cVec (Mi *ᵥ f0))) by
      rw [show modalForce e (cVec (Mi *ᵥ f0)) = e.V *ᵥ gOf (Mi *ᵥ f0) from modalForce_gOf e _]
      exact V_mulVec_realAt e cpx sp.real _ (gOf_real _))
    (show RealAt cpx (modalForce e (cVec (Mi *ᵥ f1))) by
      rw [show modalForce e (cVec (Mi *ᵥ f1)) = e.V *ᵥ gOf (Mi *ᵥ f1) from modalForce_gOf e _]
      exact V_mulVec_realAt e cpx sp.real _ (gOf_real _))
  -- every complex solution of the complexified system ends in the recovered state
  have main : ∀ d v, IsSol2 (cMat M) (cMat B) (cMat K) (cVec f0) (cVec (holdSlope order1 h f0 f1))
      (cVec d0) (cVec v0) d v → d h = cVec d1 ∧ v h = cVec v1 := by
    intro d v hs
    have hst := hs.toState (cMat_mul_eq_one hMi)
    rw [gOf_eq, holdSlope, slope_eq] at hst
    have hz : (Sum.elim (cVec v0) (cVec d0) : Fin n ⊕ Fin n → ℂ) = zOf d0 v0 := rfl
    rw [hz, ← hz0] at hst
    have key : (Sum.elim (v h) (d h) : Fin n ⊕ Fin n → ℂ) = fullU e cpx *ᵥ extend cpx
        (stepModal order1 (fun k => coefSel isSmall (e.lam k) h) (modalInit e (cVec d0) (cVec v0))
          (modalForce e (cVec (Mi *ᵥ f0))) (modalForce e (cVec (Mi *ᵥ f1)))) :=
      delconj_step sp h hh order1 _ _ _ _ hst
    rw [fullU_extend e cpx sp.real _ hy1] at key
    constructor
    · funext j
      have := congrFun key (Sum.inr j)
      simp only [Sum.elim_inr] at this
      rw [this, ← hd1]; rfl
    · funext j
      have := congrFun key (Sum.inl j)
      simp only [Sum.elim_inl] at this
      rw [this, ← hv1]; rfl
  refine ⟨sol2R_exists e cpx isSmall M Mi B K hMi sp f0 _ d0 v0, fun d v hs => ?_⟩
  obtain ⟨e1, e2⟩ := main _ _ hs.complexify
  exact ⟨cVec_injective e1, cVec_injective e2⟩

/-- the whole loop of the real recovery: for every `j`, sample `j+1` of `coupledRun` is the state
at `t = h` of THE solution of `M d'' + B d' + K d = f(t)` with the hold forcing of step `j`
started from sample `j` (a real solution exists, and every real solution ends in sample `j+1`) -/
theorem coupled_run_exact_real (e : Eig ℂ n N) (cpx : Fin N → Bool) (isSmall : ℂ → Bool)
    (M Mi B K : Matrix (Fin n) (Fin n) ℝ) (hMi : Mi * M = 1)
    (sp : DelconjSpec e cpx isSmall (stateA (cMat Mi) (cMat B) (cMat K)))
    (h : ℝ) (hh : h ≠ 0) (order1 : Bool) (d0 v0 : Fin n → ℝ) (fs : List (Fin n → ℝ))
    (j : ℕ) (dj vj dj1 vj1 f0 f1 : Fin n → ℝ)
    (h1 : (coupledRun order1 isSmall (h : ℂ) e d0 v0 (fs.map fun f => Mi *ᵥ f))[j]? = some (dj, vj))
    (h2 : (coupledRun order1 isSmall (h : ℂ) e d0 v0 (fs.map fun f => Mi *ᵥ f))[j + 1]? = some (dj1, vj1))
    (h3 : fs[j]? = some f0) (h4 : fs[j + 1]? = some f1) :
    (∃ d v, IsSol2R M B K f0 (holdSlope order1 h f0 f1) dj vj d v) ∧
    ∀ d v, IsSol2R M B K f0 (holdSlope order1 h f0 f1) dj vj d v → d h = dj1 ∧ v h = vj1 := by
  refine ⟨sol2R_exists e cpx isSmall M Mi B K hMi sp f0 _ dj vj, ?_⟩
  have hy0 : RealAt cpx (modalInit e (cVec d0) (cVec v0)) := by
    rw [modalInit_eq]; exact V_mulVec_realAt e cpx sp.real _ (zOf_real d0 v0)
  have hz0 : fullU e cpx *ᵥ extend cpx (modalInit e (cVec d0) (cVec v0)) = zOf d0 v0 := by
    rw [modalInit_eq]
    show fullU e cpx *ᵥ extend cpx (e.V *ᵥ zOf d0 v0) = zOf d0 v0
    rw [← fullV_mulVec_real e cpx _ (zOf_real d0 v0), Matrix.mulVec_mulVec, sp.hUV, Matrix.one_mulVec]
  rw [coupledRun_getElem?] at h1 h2
  rw [List.map_map] at h1 h2
  obtain ⟨yj, hyj, hs1⟩ := Option.map_eq_some_iff.1 h1
  obtain ⟨yj1, hyj1, hs2⟩ := Option.map_eq_some_iff.1 h2
  have hrun := delconj_run sp h hh order1 (fs.map fun f => Mi *ᵥ f) _ hy0
  rw [List.map_map] at hrun
  obtain ⟨hrj, hstepj⟩ := hrun j yj hyj
  obtain ⟨hrj1, _⟩ := hrun (j + 1) yj1 hyj1
  -- samples as mapped-back modal states
  have ezj : zOf dj vj = fullU e cpx *ᵥ extend cpx yj := by
    cases j with
    | zero =>
      simp only [if_true, Prod.mk.injEq] at hs1
      obtain ⟨rfl, rfl⟩ := hs1
      have hd : ∀ (y' : Fin N → ℂ) (ws : List (Fin N → ℂ)),
          (runModal order1 (fun k => coefSel isSmall (e.lam k) h) y' ws)[0]? = some yj → y' = yj := by
        intro y' ws hw
        match ws, hw with
        | [], hw => simp [runModal] at hw
        | [_], hw => simpa [runModal] using hw
        | _ :: _ :: _, hw => simpa [runModal_cons_cons] using hw
      rw [← hd _ _ hyj, hz0]
    | succ j =>
      simp only [Nat.succ_ne_zero, if_false, Prod.mk.injEq] at hs1
      obtain ⟨rfl, rfl⟩ := hs1
      rw [fullU_extend e cpx sp.real _ hrj]; rfl
  have ezj1 : zOf dj1 vj1 = fullU e cpx *ᵥ extend cpx yj1 := by
    simp only [Nat.succ_ne_zero, if_false, Prod.mk.injEq] at hs2
    obtain ⟨rfl, rfl⟩ := hs2
    rw [fullU_extend e cpx sp.real _ hrj1]; rfl
  intro d v hs
  have hst := hs.complexify.toState (cMat_mul_eq_one hMi)
  rw [gOf_eq, holdSlope, slope_eq] at hst
  have hz : (Sum.elim (cVec vj) (cVec dj) : Fin n ⊕ Fin n → ℂ) = zOf dj vj := rfl
  rw [hz, ezj] at hst
  have key := hstepj yj1 (Mi *ᵥ f0) (Mi *ᵥ f1) hyj1 (by simp [h3]) (by simp [h4]) _ hst
  rw [← ezj1] at key
  constructor
  · refine cVec_injective ?_
    funext i
    exact congrFun key (Sum.inr i)
  · refine cVec_injective ?_
    funext i
    exact congrFun key (Sum.inl i)

/-! ### non-vacuity: the 1-DOF oscillator `d'' + d = f` after `delconj` (kept eigenvalue `i`,
eigenvector `[i, 1]` doubled, row `[-i/2, 1/2]` of the inverse) satisfies `DelconjSpec` -/

open ComplexConjugate in
noncomputable def oscKept : Eig ℂ 1 1 where
  lam := ![Complex.I]
  urV := fun _ => ![2 * Complex.I]
  urD := fun _ => ![2]
  invV := ![fun _ => -Complex.I / 2]
  invD := ![fun _ => 1 / 2]


/-- the kept data of the oscillator satisfy the specification -/
theorem oscKept_spec : DelconjSpec oscKept (fun _ => true) (fun _ => false)
    (stateA (cMat (1 : Matrix (Fin 1) (Fin 1) ℝ)) (cMat 0) (cMat 1)) := by
  refine ⟨?_, ?_, ?_, ?_, ?_⟩
  · ext i j
    rcases i with i | i <;> rcases j with j | j <;>
      simp [Matrix.mul_apply, fullU, fullV, Eig.U, Eig.V, oscKept, Fintype.sum_sum_type,
        Matrix.one_apply, Subsingleton.elim i j, map_ofNat]
    all_goals (try ring_nf)
    all_goals (try simp [Complex.I_sq])
  · ext i j
    rcases i with i | ⟨i, hi⟩ <;> rcases j with j | ⟨j, hj⟩ <;>
      simp [Matrix.mul_apply, fullU, fullV, Eig.U, Eig.V, oscKept, Fintype.sum_sum_type,
        Matrix.one_apply, Subsingleton.elim i j, map_ofNat]
    all_goals (try ring_nf)
    all_goals (try simp [Complex.I_sq])
    all_goals (try norm_num)
  · ext i j
    rcases i with i | i <;> rcases j with j | ⟨j, hj⟩ <;>
      simp [Matrix.mul_apply, fullU, fullLam, Eig.U, oscKept, stateA, cMat, Fintype.sum_sum_type,
        Matrix.diagonal_apply, Matrix.one_apply, Subsingleton.elim i 0, map_ofNat]
    all_goals (try ring_nf)
    all_goals (try simp [Complex.I_sq])
  · intro k hk; simp at hk
  · intro k; simp [oscKept]

end PyYetiVerif.C01

