import PyYetiVerif.Lemmas.SSModel
/-!
# C07 — `SSModel.c2d` / `SSModel.d2c` as whole routines (attributes `h`, `method`, `prewarp` included)

Theorems about `Sys.c2d` / `Sys.d2c` of `Model/SSModel.lean` over an arbitrary (non-commutative) ring,
the numerical kernels (`getEPQ`, `eig`-based logarithm, `lu_solve`) being data with the stated laws.
-/
namespace PyYetiVerif.C07
open PyYetiVerif.SSModel

variable {R τ : Type} [Ring R] [BEq τ] [OfNat τ 0]

/-- what the kernels must satisfy for the round trip of one method: `log(exp(A h))/h = A` for the
exponential methods and that the matrix handed to `la.solve` / `lu_solve` is inverted by `inv`;
for tustin that `k·I` is central and the two LU solves are two-sided inverses -/
def RoundtripHyp (K : Kernels R τ) (s : SS R) (h : τ) : Method → Option τ → Prop
  | .zoh, _ => K.logm (K.expm s.A h) h = s.A ∧ K.inv (K.int1 s.A h) * K.int1 s.A h = 1
  | .zoha, _ =>
    K.logm (K.expm s.A h) h = s.A ∧
      K.inv (K.half * K.int1 s.A h + K.expm s.A h * (K.half * K.int1 s.A h))
        * (K.half * K.int1 s.A h + K.expm s.A h * (K.half * K.int1 s.A h)) = 1
  | .foh, _ =>
    K.logm (K.expm s.A h) h = s.A ∧
      K.inv (K.fohP s.A h + K.expm s.A h * K.fohQ s.A h)
        * (K.fohP s.A h + K.expm s.A h * K.fohQ s.A h) = 1
  | .tustin, pw =>
    (∀ x, K.kI h pw * x = x * K.kI h pw) ∧
    K.inv (K.kI h pw - s.A) * (K.kI h pw - s.A) = 1 ∧ (K.kI h pw - s.A) * K.inv (K.kI h pw - s.A) = 1 ∧
    K.inv (1 + K.inv (K.kI h pw - s.A) * (K.kI h pw + s.A))
        * (1 + K.inv (K.kI h pw - s.A) * (K.kI h pw + s.A)) = 1 ∧
    (1 + K.inv (K.kI h pw - s.A) * (K.kI h pw + s.A))
        * K.inv (1 + K.inv (K.kI h pw - s.A) * (K.kI h pw + s.A)) = 1

omit [BEq τ] [OfNat τ 0] in
/-- `d2c` never returns a model with a sample time: either the object itself (already continuous)
or a new object built without `h` — for every method (a seeded change returned `h` from
`d2c('zoha')`); and it records the method -/
theorem d2c_result_is_continuous (K : Kernels R τ) (z : Sys R τ) (m : Method) (pw : Option τ) :
    (z.d2c K m pw).h = none ∧ (z.h ≠ none → (z.d2c K m pw).method = some m) ∧
    (z.h = none → z.d2c K m pw = z) := by
  unfold Sys.d2c
  cases hz : z.h with
  | none => simp [hz]
  | some h => cases m <;> simp

/-- `c2d` on a model that already has a (truthy) sample time quietly returns the object itself;
otherwise the result carries exactly the requested `h` and `method` (and `prewarp` only for tustin) -/
theorem c2d_attributes (K : Kernels R τ) (s : Sys R τ) (h : τ) (m : Method) (pw : Option τ) :
    (truthy s.h = true → s.c2d K h m pw = s) ∧
    (truthy s.h = false → (s.c2d K h m pw).h = some h ∧ (s.c2d K h m pw).method = some m ∧
      (s.c2d K h m pw).prewarp = (if m = .tustin then pw else none)) := by
  unfold Sys.c2d
  constructor
  · intro ht; simp [ht]
  · intro ht; cases m <;> simp [ht]

/-- **round trip of the whole routines, every method**: for a continuous model (`s.h = None`; a model
whose `h` is `0` is also converted by `c2d` but then `d2c(c2d(s))` has `h = None ≠ 0`, which is the
exact domain) and any step `h`, `s.c2d(h, m, pw).d2c(m, pw)` has the matrices of `s`, no sample
time and the method recorded; the discrete model in between has sample time `h`, and converting it
again with `c2d` (for a truthy `h`) or the continuous result again with `d2c` changes nothing. -/
theorem c2d_d2c_roundtrip_all_methods (K : Kernels R τ) (s : Sys R τ) (h : τ) (m : Method)
    (pw : Option τ) (hs : s.h = none) (hyp : RoundtripHyp K s.ss h m pw) :
    let z := s.c2d K h m pw
    let c := z.d2c K m pw
    z.h = some h ∧ z.method = some m ∧ c.ss = s.ss ∧ c.h = none ∧ c.method = some m ∧
    (truthy (some h) = true → z.c2d K h m pw = z) ∧ c.d2c K m pw = c := by
  intro z c
  have hz : z.h = some h := ((c2d_attributes K s h m pw).2 (by simp [hs, truthy])).1
  have hzm : z.method = some m := ((c2d_attributes K s h m pw).2 (by simp [hs, truthy])).2.1
  have hc := d2c_result_is_continuous K z m pw
  refine ⟨hz, hzm, ?_, hc.1, hc.2.1 (by simp [hz]), ?_, ?_⟩
  · -- the matrices
    have hzdef : z = s.c2d K h m pw := rfl
    have hcdef : c = z.d2c K m pw := rfl
    cases m with
    | zoh =>
      obtain ⟨hlog, hinv⟩ := hyp
      have key := zoh_d2c_c2d (fun a => K.expm a h) (fun a => K.int1 a h) (fun zz => K.logm zz h) s.ss
        (K.inv (K.int1 s.ss.A h)) hlog hinv
      rw [hcdef, hzdef]
      simp only [Sys.c2d, Sys.d2c, hs, truthy, Bool.false_eq_true, ↓reduceIte]
      simpa only [zohC2D, hlog] using key
    | zoha =>
      obtain ⟨hlog, hinv⟩ := hyp
      have key := zoha_d2c_c2d (fun a => K.expm a h) (fun a => K.int1 a h) (fun zz => K.logm zz h) s.ss
        K.half (K.inv (K.half * K.int1 s.ss.A h + K.expm s.ss.A h * (K.half * K.int1 s.ss.A h))) hlog hinv
      rw [hcdef, hzdef]
      simp only [Sys.c2d, Sys.d2c, hs, truthy, Bool.false_eq_true, ↓reduceIte]
      simpa only [zohaC2D, hlog] using key
    | foh =>
      obtain ⟨hlog, hinv⟩ := hyp
      have key := foh_d2c_c2d (fun a => K.expm a h) (fun a => K.fohP a h) (fun a => K.fohQ a h)
        (fun zz => K.logm zz h) s.ss
        (K.inv (K.fohP s.ss.A h + K.expm s.ss.A h * K.fohQ s.ss.A h)) hlog hinv
      rw [hcdef, hzdef]
      simp only [Sys.c2d, Sys.d2c, hs, truthy, Bool.false_eq_true, ↓reduceIte]
      simpa only [fohC2D, hlog] using key
    | tustin =>
      obtain ⟨hk, hQ1, hQ2, hq1, hq2⟩ := hyp
      have key := tustin_d2c_c2d (K.kI h pw) (K.inv (K.kI h pw - s.ss.A))
        (K.inv (1 + K.inv (K.kI h pw - s.ss.A) * (K.kI h pw + s.ss.A))) s.ss hk hQ1 hQ2
        (by simpa [tustinC2D] using hq1) (by simpa [tustinC2D] using hq2)
      rw [hcdef, hzdef]
      simp only [Sys.c2d, Sys.d2c, hs, truthy, Bool.false_eq_true, ↓reduceIte]
      simpa only [tustinC2D] using key
  · intro ht
    exact (c2d_attributes K z h m pw).1 (by rw [hz]; exact ht)
  · exact (d2c_result_is_continuous K c m pw).2.2 hc.1

/-! ## non-vacuity -/

/-- the hypotheses of the round trip are satisfiable for all four methods: 1×1 systems over ℚ with
`exp(a h) := 1 + a h`, `log(z)/h := (z − 1)/h`, `A = −1`, `h = 1/2`, `k = 2/h = 4` -/
example :
    let K : Kernels ℚ ℚ :=
      { expm := fun a h => 1 + a * h, int1 := fun _ h => h, fohP := fun _ h => h / 2, fohQ := fun _ h => h / 2,
        logm := fun z h => (z - 1) / h, inv := fun x => 1 / x, kI := fun h _ => 2 / h, half := 1 / 2 }
    let s : SS ℚ := ⟨-1, 1, 1, 0⟩
    RoundtripHyp K s (1 / 2) .zoh none ∧ RoundtripHyp K s (1 / 2) .zoha none ∧
    RoundtripHyp K s (1 / 2) .foh none ∧ RoundtripHyp K s (1 / 2) .tustin (some 3) ∧
    truthy (some (1 / 2 : ℚ)) = true ∧ truthy (some (0 : ℚ)) = false ∧ truthy (none : Option ℚ) = false := by
  refine ⟨?_, ?_, ?_, ?_, ?_, ?_, ?_⟩ <;> simp [RoundtripHyp, truthy] <;> norm_num <;>
    (intro x; ring)

end PyYetiVerif.C07
