import PyYetiVerif.Lemmas.PsdOctTrim
/-!
# C19 — `psd.get_freq_oct`: trimming rules, band count, exact vs preferred scale

Property theorems about `Model/PsdOct.lean` at `ℝ`, tied to `pyyeti/psd.py` by the numeric stream
`get-freq-oct` of `harness/props/c19.py` (near ties of a trimming decision are skipped there; the
decisions themselves are stated here).
-/
namespace PyYetiVerif.C19
open PyYetiVerif.PsdOct

/-- **freq_oct_trim_rules** — what `get_freq_oct` returns is the contiguous run of the untrimmed scale
`S` (`F = S[lo:hi]`, edges `F/f`, `F·f`) holding EXACTLY the bands that pass the trimming test:
* `'outside'`/`'band'`: the band reaches `frange[0]` from above and `frange[-1]` from below
  (`FU ≥ s` and `FL ≤ e`: the first band includes `s`, the last includes `e`);
* `'center'`: the centre lies in `[s, e]`;
* `'inside'`: the whole band lies in `[s, e]` (`FL ≥ s` and `FU ≤ e`) —
a band whose centre is outside `[s, e]` is never kept by `'center'`, one that sticks out never by
`'inside'`. -/
theorem freq_oct_trim_rules (n fr0 e : ℝ) (hn : 0 < n) (exact : Bool) (trim : Trim)
    (anchor : Option ℝ) (ha : ∀ a, anchor = some a → 0 < a) (F FL FU : List ℝ)
    (h : getFreqOct n fr0 e exact trim anchor = some (F, FL, FU)) :
    ∃ lo hi : Nat,
      F = (((octScale n (if 0 < fr0 then fr0 else 1) e exact anchor).1).take hi).drop lo ∧
      FL = F.map (· / octFactor n exact) ∧ FU = F.map (· * octFactor n exact) ∧
      hi ≤ (octScale n (if 0 < fr0 then fr0 else 1) e exact anchor).1.length ∧
      ∀ (i : Nat) (hi' : i < (octScale n (if 0 < fr0 then fr0 else 1) e exact anchor).1.length),
        (lo ≤ i ∧ i < hi) ↔
          keepBand trim (octFactor n exact) (if 0 < fr0 then fr0 else 1) e
            ((octScale n (if 0 < fr0 then fr0 else 1) e exact anchor).1[i]) := by
  have hf := octFactor_pos n exact
  generalize hs : (if 0 < fr0 then fr0 else 1 : ℝ) = s at *
  have hmono := octScale_mono n s e hn exact anchor ha
  unfold getFreqOct at h
  simp only at h
  rw [hs, octScale_factor] at h
  generalize hS : (octScale n s e exact anchor).1 = S at *
  have hmU : (S.map (· * octFactor n exact)).Pairwise (· ≤ ·) := by
    rw [List.pairwise_map]
    exact hmono.imp fun hab => mul_le_mul_of_nonneg_right hab hf.le
  have hmL : (S.map (· / octFactor n exact)).Pairwise (· ≤ ·) := by
    rw [List.pairwise_map]
    exact hmono.imp fun hab => div_le_div_of_nonneg_right hab hf.le
  split at h
  · rename_i lo hi hr
    refine ⟨lo, hi, ?_⟩
    simp only [Option.some.injEq, Prod.mk.injEq] at h
    obtain ⟨h1, h2, h3⟩ := h
    subst h1
    refine ⟨rfl, by rw [← h2, take_drop_map], by rw [← h3, take_drop_map], ?_⟩
    cases trim with
    | outside =>
        simp only at hr
        obtain ⟨k1, k2, k3, _⟩ := trimIdx_spec _ _ s e hmU hmL lo hi hr
        refine ⟨by simpa using k3, ?_⟩
        intro i hi'
        have a1 := k1 i (by simpa using hi')
        have a2 := k2 i (by simpa using hi')
        simp only [List.getElem_map] at a1 a2
        unfold keepBand
        simp only
        rw [a1, a2]
    | center =>
        simp only at hr
        obtain ⟨k1, k2, k3, _⟩ := trimIdx_spec _ _ s e hmono hmono lo hi hr
        refine ⟨k3, ?_⟩
        intro i hi'
        unfold keepBand
        simp only
        rw [k1 i hi', k2 i hi']
    | inside =>
        simp only at hr
        obtain ⟨k1, k2, k3, _⟩ := trimIdx_spec _ _ s e hmL hmU lo hi hr
        refine ⟨by simpa using k3, ?_⟩
        intro i hi'
        have a1 := k1 i (by simpa using hi')
        have a2 := k2 i (by simpa using hi')
        simp only [List.getElem_map] at a1 a2
        unfold keepBand
        simp only
        rw [a1, a2]
  · exact absurd h (by simp)

/-- **freq_oct_count** — the number of returned bands is the number of untrimmed bands that pass the
trimming test; the untrimmed scale has `⌈var2 − var1⌉` bands (`np.arange(var1, var2)`) numbered
`var1 + i` with `var1 = ⌊log2(s/anchor)·n⌋`, `var2 = log2(e/anchor)·n + 1` (exact) or
`var1 = ⌊log10(s/anchor)·10n/3⌋`, `var2 = log10(e/anchor)·10n/3 + 1` (preferred), and band `i` has
the centre `anchor·2^((var1+i)/n)`, resp. `anchor·10^(3(var1+i)/(10n))` -/
theorem freq_oct_count (n fr0 e : ℝ) (hn : 0 < n) (exact : Bool) (trim : Trim)
    (anchor : Option ℝ) (ha : ∀ a, anchor = some a → 0 < a) (F FL FU : List ℝ)
    (h : getFreqOct n fr0 e exact trim anchor = some (F, FL, FU)) :
    ∃ lo hi : Nat, F.length = hi - lo ∧ FL.length = F.length ∧ FU.length = F.length ∧
      hi ≤ (octScale n (if 0 < fr0 then fr0 else 1) e exact anchor).1.length ∧
      (∀ (i : Nat) (hi' : i < (octScale n (if 0 < fr0 then fr0 else 1) e exact anchor).1.length),
        (lo ≤ i ∧ i < hi) ↔
          keepBand trim (octFactor n exact) (if 0 < fr0 then fr0 else 1) e
            ((octScale n (if 0 < fr0 then fr0 else 1) e exact anchor).1[i])) := by
  obtain ⟨lo, hi, h1, h2, h3, hle, h4⟩ := freq_oct_trim_rules n fr0 e hn exact trim anchor ha F FL FU h
  refine ⟨lo, hi, ?_, by rw [h2]; simp, by rw [h3]; simp, hle, h4⟩
  rw [h1, List.length_drop, List.length_take]
  omega

/-- the untrimmed scale, spelled out: `⌈var2 − var1⌉` bands, band `i` centred at
`anchor·2^((var1+i)/n)` (exact, default anchor 1000) resp. `anchor·10^(3(var1+i)/(10n))` (preferred,
default anchor 1) -/
theorem freq_oct_untrimmed_scale (n s e : ℝ) (anchor : Option ℝ) :
    (octScale n s e true anchor).1.length =
        ⌈Real.logb 2 (e / anchor.getD 1000) * n + 1 - (⌊Real.logb 2 (s / anchor.getD 1000) * n⌋ : ℝ)⌉₊ ∧
      (octScale n s e false anchor).1.length =
        ⌈Real.logb 10 (e / anchor.getD 1) * 10 * n / 3 + 1 - (⌊Real.logb 10 (s / anchor.getD 1) * 10 * n / 3⌋ : ℝ)⌉₊ ∧
      (∀ (i : Nat) (h : i < (octScale n s e true anchor).1.length), (octScale n s e true anchor).1[i] =
        anchor.getD 1000 * (2 : ℝ) ^ (((⌊Real.logb 2 (s / anchor.getD 1000) * n⌋ : ℝ) + (i : ℝ)) / n)) ∧
      (∀ (i : Nat) (h : i < (octScale n s e false anchor).1.length), (octScale n s e false anchor).1[i] =
        anchor.getD 1 * (10 : ℝ) ^ (3 * ((⌊Real.logb 10 (s / anchor.getD 1) * 10 * n / 3⌋ : ℝ) + (i : ℝ)) / (10 * n))) := by
  refine ⟨?_, ?_, ?_, ?_⟩
  · simp [octScale, arange, OctOps.ceilNat, OctOps.log2, OctOps.floor]
  · simp [octScale, arange, OctOps.ceilNat, OctOps.log10, OctOps.floor]
  · intro i h
    simp [octScale, arange, OctOps.log2, OctOps.floor, OctOps.pow]
  · intro i h
    simp [octScale, arange, OctOps.log10, OctOps.floor, OctOps.pow]

/-- **freq_oct_exact_vs_preferred** — the two scales: `exact=True` has `n` bands per octave exactly
(`ratio^n = 2`, so `10n` bands span a factor `1024`), the default "preferred" scale has `10n` bands
per three decades exactly (`ratio^(10n) = 1000`: it hits the powers of ten) and its bands are slightly
narrower (`10^(3/(10n)) < 2^(1/n)` because `1000 < 1024`); default anchors `1000` resp. `1` -/
theorem freq_oct_exact_vs_preferred (n : ℝ) (hn : 0 < n) :
    octRatio n true ^ n = 2 ∧ octRatio n true ^ (10 * n) = 1024 ∧
      octRatio n false ^ (10 * n) = 1000 ∧ octRatio n false < octRatio n true := by
  have hn0 : n ≠ 0 := ne_of_gt hn
  have h2 : (0 : ℝ) ≤ 2 := by norm_num
  have h10 : (0 : ℝ) ≤ 10 := by norm_num
  have e1 : octRatio n true ^ n = 2 := by
    unfold octRatio
    simp only [if_true]
    rw [← Real.rpow_mul h2, one_div, inv_mul_cancel₀ hn0, Real.rpow_one]
  have e2 : octRatio n true ^ (10 * n) = 1024 := by
    unfold octRatio
    simp only [if_true]
    rw [← Real.rpow_mul h2]
    have : 1 / n * (10 * n) = ((10 : ℕ) : ℝ) := by field_simp; norm_num
    rw [this, Real.rpow_natCast]
    norm_num
  have e3 : octRatio n false ^ (10 * n) = 1000 := by
    unfold octRatio
    simp only [Bool.false_eq_true, if_false]
    rw [← Real.rpow_mul h10]
    have : 3 / (10 * n) * (10 * n) = ((3 : ℕ) : ℝ) := by field_simp; norm_num
    rw [this, Real.rpow_natCast]
    norm_num
  refine ⟨e1, e2, e3, ?_⟩
  have hp1 : 0 ≤ octRatio n false := le_trans zero_le_one (octRatio_ge_one n hn false)
  have hp2 : 0 ≤ octRatio n true := le_trans zero_le_one (octRatio_ge_one n hn true)
  rw [← Real.rpow_lt_rpow_iff hp1 hp2 (show (0 : ℝ) < 10 * n by positivity), e2, e3]
  norm_num

/-! ## non-vacuity -/

/-- a tie at a band centre: `trim='center'`, exact octaves, `frange = [1000, 1000]` keeps the band
centred EXACTLY at 1000 (both tests are inclusive) -/
example : keepBand Trim.center (octFactor 1 true) 1000 1000 (1000 * (2 : ℝ) ^ ((0 : ℝ) / 1)) := by
  unfold keepBand
  simp

/-- `freq_oct_trim_rules`: the hypotheses are inhabited (the example of `freq_oct_bands`) -/
example : ∃ F FL FU, getFreqOct (1 : ℝ) 1000 1000 true Trim.outside none = some (F, FL, FU) := by
  have hf : (1 : ℝ) ≤ (2 : ℝ) ^ (2⁻¹ : ℝ) := Real.one_le_rpow (by norm_num) (by norm_num)
  have h1 : (1000 : ℝ) / (2 : ℝ) ^ (2⁻¹ : ℝ) ≤ 1000 := by
    rw [div_le_iff₀ (by linarith)]; nlinarith
  refine ⟨[1000], [1000 / (2 : ℝ) ^ ((1 : ℝ) / (2 * 1))], [1000 * (2 : ℝ) ^ ((1 : ℝ) / (2 * 1))], ?_⟩
  unfold getFreqOct octScale arange trimIdx
  simp [OctOps.log2, OctOps.floor, OctOps.ceilNat, OctOps.pow]
  rw [if_pos h1, if_pos hf]
  simp

end PyYetiVerif.C19
