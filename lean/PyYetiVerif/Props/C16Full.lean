import PyYetiVerif.Lemmas.ApplyUfFull
import Mathlib.LinearAlgebra.Matrix.Notation
import Mathlib.Data.Rat.Defs
import Mathlib.Algebra.Order.Field.Rat
import Mathlib.Tactic.FinCases
import Mathlib.Tactic.NormNum
import Mathlib.Tactic.Module
/-!
# C16 — uncertainty factors with full (2-D) modal matrices

Property theorems only.  The model `Model/ApplyUfFull.lean` is tied to
`pyyeti/cla/dr_event.py:_pre_calcs/apply_uf` by the `uf-full` streams of `harness/props/c16.py`.

The theorems are about the block core (`preBlock`, `applyBlock`, `applyBlocks`) on WELL-SHAPED
partition data — `blocksM … / colM …` enumerate exactly the rectangular list inputs — and, for the
cache, about the whole routine (`applyFullSeq`, partition layer included).  The factorisation
`lu_factor(k[ee])` enters as the matrix `KeeInv` with `Kee * KeeInv = 1` (likewise `Krr`).
-/
namespace PyYetiVerif.C16
open PyYetiVerif.ApplyUf PyYetiVerif.ApplyUfFull

section full
variable {α : Type} [Field α] {ne nr : Nat}

/-- ★ `d = d_static + d_dynamic` on the elastic partition, for every factor tuple, every saved
state and every factorisation (no hypothesis: it is how the routine forms `d`) -/
theorem uf_split_full (uf : Uf α) (kinvE kinvR : List (List α)) (c : Col α) (p : PreCol α) :
    (applyBlock uf kinvE kinvR c p).dE
      = vadd (applyBlock uf kinvE kinvR c p).dsE (applyBlock uf kinvE kinvR c p).ddE := rfl

/-- ★ each part scales by the documented product, for vector / matrix / absent modal mass and
vector / matrix damping: elastic `a, v` by `euf·duf`; the static elastic displacement is `euf·suf`
times the solution of `Kee x = F`, `F = m a + b v + k d`; the dynamic part is `−euf·duf` times the
solution of `Kee x = m a + b v`; together `d_el = euf·inv(k_el)·(suf·F − duf·(m a + b v))` as
documented; the residual-flexibility displacement scales by `euf·suf`. -/
theorem uf_scaling_full (uf : Uf α) (m : Option (CoefM ne α)) (b : CoefM ne α)
    (Kee KeeInv : Matrix (Fin ne) (Fin ne) α) (Krr KrrInv : Matrix (Fin nr) (Fin nr) α)
    (a v d : Fin ne → α) (dr : Fin nr → α) (hE : Kee * KeeInv = 1) (hR : Krr * KrrInv = 1) :
    let B := blocksM m b Kee KeeInv Krr KrrInv
    let c := colM a v d dr
    let o := applyBlock uf B.kinvE B.kinvR c (preBlock B c)
    let av := (mMat m).mulVec a + b.mat.mulVec v
    let F := av + Kee.mulVec d
    o.aE = toL ((uf.euf * uf.duf) • a) ∧ o.vE = toL ((uf.euf * uf.duf) • v) ∧
    (∃ ds : Fin ne → α, o.dsE = toL ds ∧ Kee.mulVec ds = (uf.euf * uf.suf) • F ∧
      ds = (uf.euf * uf.suf) • KeeInv.mulVec F) ∧
    (∃ dd : Fin ne → α, o.ddE = toL dd ∧ Kee.mulVec dd = -((uf.euf * uf.duf) • av) ∧
      dd = -((uf.euf * uf.duf) • KeeInv.mulVec av)) ∧
    o.dE = toL (uf.euf • KeeInv.mulVec (uf.suf • F - uf.duf • av)) ∧
    o.dsR = toL ((uf.euf * uf.suf) • dr) := by
  intro B c o av F
  have hR' : KrrInv * Krr = 1 := mul_eq_one_comm.1 hR
  have hav : (preBlock B c).av = toL av := by
    simp only [preBlock, B, c, blocksM, colM, mApply_toModel, apply_toModel, vadd_toL, av]
  have hgf : (preBlock B c).gfE = toL F := by
    simp only [preBlock, B, c, blocksM, colM, mApply_toModel, apply_toModel, vadd_toL, mulVec_toLL,
      F, av]
  have hgr : (preBlock B c).gfR = toL (Krr.mulVec dr) := by
    simp only [preBlock, B, c, blocksM, colM, mulVec_toLL]
  have hds : o.dsE = toL (KeeInv.mulVec ((uf.euf * uf.suf) • F)) := by
    show mulVec B.kinvE (vsmul (uf.euf * uf.suf) (preBlock B c).gfE) = _
    rw [hgf, vsmul_toL]
    exact mulVec_toLL KeeInv _
  have hdd : o.ddE = toL (KeeInv.mulVec (-((uf.euf * uf.duf) • av))) := by
    show mulVec B.kinvE (vneg (vsmul (uf.euf * uf.duf) (preBlock B c).av)) = _
    rw [hav, vsmul_toL, vneg_toL]
    exact mulVec_toLL KeeInv _
  refine ⟨?_, ?_, ⟨_, hds, ?_, ?_⟩, ⟨_, hdd, ?_, ?_⟩, ?_, ?_⟩
  · simp only [o, applyBlock, c, colM, map_toL]
    congr 1
    funext i
    simp [mul_comm]
  · simp only [o, applyBlock, c, colM, map_toL]
    congr 1
    funext i
    simp [mul_comm]
  · rw [Matrix.mulVec_mulVec, hE, Matrix.one_mulVec]
  · rw [Matrix.mulVec_smul]
  · rw [Matrix.mulVec_mulVec, hE, Matrix.one_mulVec]
  · rw [Matrix.mulVec_neg, Matrix.mulVec_smul]
  · show vadd o.dsE o.ddE = _
    rw [hds, hdd, vadd_toL]
    congr 1
    simp only [Matrix.mulVec_neg, Matrix.mulVec_smul, Matrix.mulVec_sub]
    module
  · show mulVec B.kinvR (vsmul (uf.euf * uf.suf) (preBlock B c).gfR) = _
    rw [hgr, vsmul_toL]
    refine (mulVec_toLL KrrInv _).trans ?_
    congr 1
    rw [Matrix.mulVec_smul, Matrix.mulVec_mulVec, hR', Matrix.one_mulVec]

/-- ★ unit factors leave the solution unchanged — up to what the routine documents
(residual-flexibility accelerations / velocities are zeroed by the partition layer): elastic
`a, v, d` and the residual-flexibility `d` come back as they went in. -/
theorem uf_unit_full (m : Option (CoefM ne α)) (b : CoefM ne α)
    (Kee KeeInv : Matrix (Fin ne) (Fin ne) α) (Krr KrrInv : Matrix (Fin nr) (Fin nr) α)
    (a v d : Fin ne → α) (dr : Fin nr → α) (hE : Kee * KeeInv = 1) (hR : Krr * KrrInv = 1) :
    let B := blocksM m b Kee KeeInv Krr KrrInv
    let c := colM a v d dr
    let o := applyBlock ⟨1, 1, 1, 1⟩ B.kinvE B.kinvR c (preBlock B c)
    o.aE = toL a ∧ o.vE = toL v ∧ o.dE = toL d ∧ o.dsR = toL dr := by
  intro B c o
  obtain ⟨ha, hv, -, -, hd, hr⟩ := uf_scaling_full ⟨1, 1, 1, 1⟩ m b Kee KeeInv Krr KrrInv a v d dr hE hR
  have hE' : KeeInv * Kee = 1 := mul_eq_one_comm.1 hE
  refine ⟨by simpa using ha, by simpa using hv, ?_, by simpa using hr⟩
  rw [show o.dE = _ from hd]
  congr 1
  simp only [one_smul, add_sub_cancel_left, Matrix.mulVec_mulVec, hE', Matrix.one_mulVec]

end full

section cachefull
variable {α : Type} [Add α] [Mul α] [Neg α] [Zero α]

/-- ★ the caller-owned `save` cache is transparent for full matrices as well: it holds `genforce`,
`avterm` and the factorisations of THAT `k`, so for ANY sequence of factor tuples applied to the same
modal data while sharing one cache (started empty, as `DR_Event.apply_uf` does, or filled by earlier
calls on that data) every result equals the uncached one.  Stated for the whole routine (partition
layer included) and for the block core. -/
theorem cache_transparent_full (D : FullData α) (cols : List (FullCol α)) (ufs : List (Uf α))
    (save : Option (SaveBlock α))
    (h : save = none ∨ save = some ⟨(cols.map (colOf D)).map (preBlock (blocksOf D)),
      (blocksOf D).kinvE, (blocksOf D).kinvR⟩) :
    applyFullSeq save D cols ufs = ufs.map fun uf => (applyFull none D cols uf).1 :=
  applyFullSeq_eq D cols ufs save h

/-- ★ `d = d_static + d_dynamic` for EVERY row of EVERY column the whole routine returns (partition
layer and early return included), whatever the cache holds -/
theorem uf_split_full_routine (save : Option (SaveBlock α)) (D : FullData α) (cols : List (FullCol α))
    (uf : Uf α) : ∀ o ∈ (applyFull save D cols uf).1, o.d = vadd o.ds o.dd := by
  intro o ho
  unfold applyFull at ho
  split_ifs at ho
  · simp only [List.mem_map] at ho
    obtain ⟨c, -, rfl⟩ := ho
    rfl
  · simp only [List.mem_iff_getElem, List.length_zipWith, List.getElem_zipWith] at ho
    obtain ⟨i, hi, rfl⟩ := ho
    rfl

theorem cache_transparent_blocks (B : Blocks α) (cols : List (Col α)) (ufs : List (Uf α))
    (save : Option (SaveBlock α))
    (h : save = none ∨ save = some ⟨cols.map (preBlock B), B.kinvE, B.kinvR⟩) :
    applyBlocksSeq save B cols ufs = ufs.map fun uf => (applyBlocks none B cols uf).1 :=
  applyBlocksSeq_eq B cols ufs save h

end cachefull

/-! ### non-vacuity -/

/-- `uf_scaling_full` / `uf_unit_full`: a non-diagonal invertible stiffness with its inverse -/
example : (!![2, 1; 1, 1] : Matrix (Fin 2) (Fin 2) ℚ) * !![1, -1; -1, 2] = 1 := by
  ext i j
  fin_cases i <;> fin_cases j <;> simp [Matrix.mul_apply, Fin.sum_univ_two] <;> norm_num

/-- `cache_transparent_full`: the second admissible cache state is what one call leaves behind, and
the routine is not trivially in its early return -/
example :
    let D : FullData ℚ := ⟨2, 0, [], none, .vec [1, 2], [[2, 1], [1, 1]], [[1, -1], [-1, 2]], []⟩
    let cols : List (FullCol ℚ) := [⟨[1, 2], [3, 4], [5, 6]⟩]
    (applyFull none D cols ⟨1, 1, 1, 1⟩).2
        = some ⟨(cols.map (colOf D)).map (preBlock (blocksOf D)), (blocksOf D).kinvE, (blocksOf D).kinvR⟩
      ∧ ((applyFull none D cols ⟨1, 1, 1, 1⟩).1.map (·.d)) = [[5, 6]] := by
  intro D cols
  decide +kernel

end PyYetiVerif.C16
