import PyYetiVerif.Lemmas.ResampleDecim
import PyYetiVerif.Lemmas.Resample
/-!
# C19 — `dsp.resample`: gcd reduction, decimation, DC gain, storage types

Property theorems only; models `Model/Resample.lean`, `Model/ResampleDtype.lean`.
-/
namespace PyYetiVerif.C19
open PyYetiVerif.Resample

section generic
variable {α : Type} [Add α] [Sub α] [Mul α] [Div α] [LT α] [DecidableLT α]
  [OfNat α 0] [OfNat α 1] [OfNat α 2] [NatCast α] [SincOps α]

/-- **resample_gcd_reduction** — `p` and `q` enter only through `p/gcd` and `q/gcd`: a common factor
changes nothing (taps, length and values alike), over any arithmetic -/
theorem resample_gcd_reduction (data : List α) (p q pts k : Nat) (w : List α) (hk : 1 ≤ k) :
    resample data (k * p) (k * q) pts w = resample data p q pts w :=
  resample_common_factor data p q pts k w hk

/-- **resample_integer_factor_keeps_samples**, decimation side — the output is the low-pass filtered,
lag-compensated signal at the high rate sampled at every `q'`-th point, plus the mean: output sample
`j` is filtered sample `j·q'` (`q' = q/gcd(p, q)`; for `p = 1`: every `q`-th filtered sample) — no
other sample of the filtered signal is used, none is skipped (`x[::q]`) -/
theorem resample_decimation_every_qth (data : List α) (p q pts : Nat) (w : List α) (hq : 1 ≤ q) (j : Nat) :
    (resample data p q pts w)[j]? =
      ((filtered data p q pts w)[j * (q / Nat.gcd p q)]?).map (· + meanOf data) :=
  resample_getElem? data p q pts w hq j

end generic

/-- **resample_dc_gain** — the gain at zero frequency is exactly `1` for every `p/q`, `pts` and window:
a constant goes through as itself (the routine filters `data − mean`); and on the branch through the
original samples (`q ≤ p`) the taps that meet original samples sum to the window's centre value —
the centre tap — because all the others vanish: `Σ_k fir[M/2 + k·p'] = w[M/2]` (`= 1` for the Kaiser
window).  The sums of the other polyphase branches are only approximately `1` (measured). -/
theorem resample_dc_gain (c : ℝ) (n p q pts : Nat) (w : List ℝ) (hn : 1 ≤ n) (hp : 1 ≤ p) (hq : 1 ≤ q)
    (wn : ℝ) (hqp : q ≤ p) :
    resample (List.replicate n c) p q pts w = List.replicate (resampleLen n p q) c ∧
      tap p q (2 * pts * p) wn (pts * p) +
        ((List.range pts).map fun k => tap p q (2 * pts * p) wn (pts * p + (k + 1) * p) +
          tap p q (2 * pts * p) wn (pts * p - (k + 1) * p)).sum = wn := by
  refine ⟨resample_const c n p q pts w hn hp hq, ?_⟩
  obtain ⟨h1, h2, h3⟩ := taps_upsample p q pts hq hqp wn
  have hz : ((List.range pts).map fun k => tap p q (2 * pts * p) wn (pts * p + (k + 1) * p) +
      tap p q (2 * pts * p) wn (pts * p - (k + 1) * p)) = (List.range pts).map fun _ => (0 : ℝ) := by
    apply List.map_congr_left
    intro k hk
    rw [List.mem_range] at hk
    rw [h1 (k + 1) (by omega), h2 (k + 1) (by omega) (by omega)]
    ring
  rw [hz, h3]
  simp

/-! ## storage types -/

/-- **resample_storage_types** — whatever the storage type of `data` (integer counts, bool, Python
ints, float32, float64): the zero-stuffed buffer, the filter output and the result are float64, and a
store into the buffer keeps `data − mean` as it is — so zero stuffing acts on the numbers
(`stuffStored = stuff`), and the result is that of the same numbers held as float64 -/
theorem resample_storage_types (d : DType) (p : Nat) (x : List ℚ) :
    bufferType d = DType.float64 ∧ outType d = DType.float64 ∧
      (meanType d = DType.float64 ∨ d = DType.float32) ∧
      stuffStored (bufferType d) p x = stuff 0 p x := by
  refine ⟨rfl, rfl, ?_, ?_⟩
  · cases d <;> simp [meanType]
  · unfold stuffStored bufferType store
    simp

/-- a buffer that inherits an integer dtype from the data destroys the signal: counts `[0, 1]` have
mean `1/2`; `data − mean = [−1/2, 1/2]` is truncated to `[0, 0]` on the store (seeded change C19-3) -/
theorem resample_integer_buffer_counterexample :
    stuffStored DType.int 2 [-1 / 2, 1 / 2] = [0, 0, 0, 0] ∧
      stuffStored DType.float64 2 [-1 / 2, 1 / 2] = [-1 / 2, 0, 1 / 2, 0] := by decide +kernel

/-! ## non-vacuity -/

/-- `resample_dc_gain`, `resample_decimation_every_qth`: parameters exist (`p = 3, q = 2, pts = 1`) -/
example : (1 : Nat) ≤ 3 ∧ (2 : Nat) ≤ 3 ∧ 3 / Nat.gcd 3 2 = 3 := by decide

end PyYetiVerif.C19
