import PyYetiVerif.Lemmas.Psd
import PyYetiVerif.Lemmas.PsdAreaGlue
import PyYetiVerif.Lemmas.PsdConst
/-!
# C19 — `psd.rescale` conservation at full strength, `psd.interp` in log-log, `psd.psdmod`

Property theorems only; models `Model/Psd.lean`, `Model/PsdMod.lean`.
-/
namespace PyYetiVerif.C19
open PyYetiVerif.Psd PyYetiVerif.PsdMod

section rescale
variable {α : Type} [Field α] [LinearOrder α] [IsStrictOrderedRing α]

/-- **rescale_conserves_area** — `Σ_k psd[k]·(FU[k] − FL[k])` over contiguous output bands (edges
`g0 < g1 < …`) equals the area of the input PSD over the covered range `[g0, g_last]` (the input is
the piecewise-constant PSD with levels `P` on the contiguous bands with edges `E`; it is zero outside
`[E_0, E_last]`, so this is the input area over the intersection), and the whole input mean-square
`Σ P[i]·(E[i+1] − E[i])` as soon as the output bands cover the input range.  `E` is ANY strictly
increasing edge vector: the exactly-linear rule and the logarithmic rule both produce shared edges
(`edges_partition_linear`, `edges_partition_log`) whether the centre grid is uniform, log-spaced or
arbitrary; `extendends=False` — with `extendends=True` the same holds for the clipped end bands
(`rescale_conserves_extendends`). -/
theorem rescale_conserves_area (E P : List α) (g0 : α) (rest : List α) (hs : E.Pairwise (· < ·))
    (hE : 2 ≤ E.length) (hP : P.length + 1 = E.length) (hG : (g0 :: rest).Pairwise (· < ·)) :
    Psd.sumL (List.zipWith (· * ·) (rescaleCore E.dropLast E.tail P (g0 :: rest).dropLast rest false).psd
        (List.zipWith (· - ·) rest (g0 :: rest).dropLast)) =
      areaUpTo E P ((g0 :: rest).getLast (by simp)) - areaUpTo E P g0 ∧
    ((∀ e ∈ E, g0 ≤ e) → (∀ e ∈ E, e ≤ (g0 :: rest).getLast (by simp)) →
      Psd.sumL (List.zipWith (· * ·) (rescaleCore E.dropLast E.tail P (g0 :: rest).dropLast rest false).psd
        (List.zipWith (· - ·) rest (g0 :: rest).dropLast)) = totalArea E P) := by
  have hb : List.Forall₂ (· < ·) (g0 :: rest).dropLast rest := by
    clear hs hE hP
    induction rest generalizing g0 with
    | nil => simp
    | cons g1 r ih =>
        have h01 : g0 < g1 := (List.pairwise_cons.mp hG).1 g1 (by simp)
        have := ih g1 (List.pairwise_cons.mp hG).2
        rw [List.dropLast_cons₂]
        exact List.Forall₂.cons h01 this
  have hd : List.zipWith (· * ·) (rescaleCore E.dropLast E.tail P (g0 :: rest).dropLast rest false).psd
      (List.zipWith (· - ·) rest (g0 :: rest).dropLast) =
      (rescaleCore E.dropLast E.tail P (g0 :: rest).dropLast rest false).ms := by
    show List.zipWith (· * ·) (List.zipWith (fun m d => m * (1 / d))
        (rescaleCore E.dropLast E.tail P (g0 :: rest).dropLast rest false).ms
        (List.zipWith (· - ·) rest (g0 :: rest).dropLast))
        (List.zipWith (· - ·) rest (g0 :: rest).dropLast) = _
    apply psd_times_width
    · intro d hd
      rw [List.mem_iff_getElem] at hd
      obtain ⟨i, hi, rfl⟩ := hd
      simp only [List.length_zipWith] at hi
      rw [List.getElem_zipWith]
      have := List.Forall₂.get hb (show i < ((g0 :: rest).dropLast).length by omega) (show i < rest.length by omega)
      simp only [List.get_eq_getElem] at this
      intro h; linarith
    · show (List.zipWith (· - ·) (rest.map _) (((g0 :: rest).dropLast).map _)).length = _
      simp [List.length_zipWith]
  have hmsv : Psd.sumL (rescaleCore E.dropLast E.tail P (g0 :: rest).dropLast rest false).ms =
      (rescaleCore E.dropLast E.tail P (g0 :: rest).dropLast rest false).msv := rfl
  have hf : npInterp (cumGrid E.dropLast E.tail) (cumVals E.dropLast E.tail P) = areaUpTo E P :=
    funext fun x => npInterp_cum E P x hs hE hP
  have key : (rescaleCore E.dropLast E.tail P (g0 :: rest).dropLast rest false).msv =
      areaUpTo E P ((g0 :: rest).getLast (by simp)) - areaUpTo E P g0 := by
    show Psd.sumL (List.zipWith (· - ·) (rest.map (npInterp _ _)) ((g0 :: rest).dropLast.map (npInterp _ _))) = _
    rw [hf, Psd.sumL_eq_sum, sum_diff_telescope]
  rw [hd, hmsv]
  refine ⟨key, fun h1 h2 => ?_⟩
  rw [key, areaUpTo_of_le E P g0 h1, areaUpTo_of_ge E P _ h2 (hs.imp le_of_lt)]
  ring

/-- **rescale_constant_psd_unchanged** — a constant input PSD `c` comes out as `c` in every output
band that lies inside the input range (any band layout, any input edges), and its band mean-square is
`c·width` -/
theorem rescale_constant_psd_unchanged (c : α) (e0 : α) (es P FL FU : List α)
    (hs : (e0 :: es).Pairwise (· < ·)) (hE : 1 ≤ es.length) (hP : P.length = es.length)
    (hc : ∀ p ∈ P, p = c) (hb : List.Forall₂ (· < ·) FL FU)
    (hin : ∀ (k : Nat) (h1 : k < FL.length) (h2 : k < FU.length),
      e0 ≤ FL[k] ∧ FU[k] ≤ (e0 :: es).getLast (by simp)) :
    (rescaleCore (e0 :: es).dropLast (e0 :: es).tail P FL FU false).ms =
        List.zipWith (fun a b => c * (b - a)) FL FU ∧
      ∀ x ∈ (rescaleCore (e0 :: es).dropLast (e0 :: es).tail P FL FU false).psd, x = c := by
  have hlen := hb.length_eq
  have hms := rescale_ms (e0 :: es) P FL FU hs (by simp; omega) (by simp [hP])
    (hb.imp fun _ _ h => le_of_lt h)
  have hms' : (rescaleCore (e0 :: es).dropLast (e0 :: es).tail P FL FU false).ms =
      List.zipWith (fun a b => c * (b - a)) FL FU := by
    rw [hms]
    apply List.ext_getElem (by simp)
    intro k h1 h2
    simp only [List.length_zipWith] at h1
    rw [List.getElem_zipWith, List.getElem_zipWith]
    have hk := List.Forall₂.get hb (show k < FL.length by omega) (show k < FU.length by omega)
    simp only [List.get_eq_getElem] at hk
    obtain ⟨i0, i1⟩ := hin k (by omega) (by omega)
    exact bandArea_const c _ _ es e0 P (hs.imp le_of_lt) hP hc (le_of_lt hk) i0 i1
  refine ⟨hms', ?_⟩
  intro x hx
  have hpsd : (rescaleCore (e0 :: es).dropLast (e0 :: es).tail P FL FU false).psd =
      List.zipWith (fun m d => m * (1 / d))
        (rescaleCore (e0 :: es).dropLast (e0 :: es).tail P FL FU false).ms (List.zipWith (· - ·) FU FL) := rfl
  rw [hpsd, hms'] at hx
  rw [List.mem_iff_getElem] at hx
  obtain ⟨k, hk, rfl⟩ := hx
  simp only [List.length_zipWith] at hk
  rw [List.getElem_zipWith, List.getElem_zipWith, List.getElem_zipWith]
  have hlt := List.Forall₂.get hb (show k < FL.length by omega) (show k < FU.length by omega)
  simp only [List.get_eq_getElem] at hlt
  have : FU[k] - FL[k] ≠ 0 := by intro h; linarith
  field_simp

end rescale

/-- **interp_log_is_loglog_line** — between two break points `psd.interp(spec, x, linear=False)` is a
straight line in log-log coordinates: `log y = log p_k + s_k·(log x − log f_k)` with the slope
`s_k = log(p_{k+1}/p_k)/log(f_{k+1}/f_k)` (constant dB/octave: `10·log10(2)·s_k` dB per octave) -/
theorem interp_log_is_loglog_line (spec : List (ℝ × ℝ))
    (hf : (spec.map (·.1)).Pairwise (· < ·)) (hpos : ∀ r ∈ spec, 0 < r.1 ∧ 0 < r.2)
    (k : Nat) (hk : k + 1 < spec.length) (x : ℝ) (h1 : spec[k].1 ≤ x) (h2 : x ≤ spec[k + 1].1) :
    Real.log (interpLog spec x) =
      Real.log spec[k].2 + segSlope spec[k] spec[k + 1] * (Real.log x - Real.log spec[k].1) := by
  have hpk := hpos spec[k] (List.getElem_mem _)
  have hx : 0 < x := lt_of_lt_of_le hpk.1 h1
  rw [interpLog_seg spec hf hpos k hk x h1 h2]
  unfold segLaw
  rw [Real.log_mul (ne_of_gt hpk.2) (ne_of_gt (Real.rpow_pos_of_pos (div_pos hx hpk.1) _)),
    Real.log_rpow (div_pos hx hpk.1), Real.log_div (ne_of_gt hx) (ne_of_gt hpk.1)]

/-- **psdmod_ge_psd_average** — at every frequency line `psdmod` is the maximum over the time slices
of the map of Welch PSDs: it is one of the slice values, no slice exceeds it, and it is at least the
average over the slices (the ordinary, slice-averaged PSD of the same map) -/
theorem psdmod_ge_psd_average {α : Type} [Field α] [LinearOrder α] [IsStrictOrderedRing α]
    (pmap : List (List α)) (p : List α) (h : psdmodOf pmap = some p) :
    p.length = pmap.length ∧
      ∀ (k : Nat) (h1 : k < pmap.length) (h2 : k < p.length),
        p[k] ∈ pmap[k] ∧ (∀ x ∈ pmap[k], x ≤ p[k]) ∧ (pmap[k]).sum ≤ ((pmap[k]).length : α) * p[k] := by
  unfold psdmodOf at h
  obtain ⟨hl, hk⟩ := mapM_some_spec rowMax pmap p h
  refine ⟨hl, fun k h1 h2 => ?_⟩
  have hr := hk k h1 h2
  obtain ⟨m1, m2⟩ := rowMax_spec _ _ hr
  exact ⟨m1, m2, rowMax_ge_average _ _ hr⟩

/-! ## non-vacuity -/

/-- `rescale_conserves_area`: the documentation example of `rescale` (`extendends=False`): input bands
`[-1/8, 1/8, 3/8]`, output edges `[-5/2, 1/4, 3]` -/
example : ([-1/8, 1/8, 3/8] : List ℚ).Pairwise (· < ·) ∧ ([-5/2, 1/4, 3] : List ℚ).Pairwise (· < ·) := by
  constructor <;> simp <;> norm_num

/-- `psdmod_ge_psd_average`: two frequency lines, three time slices -/
example : psdmodOf ([[1, 3, 2], [5, 4, 4]] : List (List ℚ)) = some [3, 5] := by decide +kernel

end PyYetiVerif.C19
