import PyYetiVerif.Lemmas.SuCoefPreEig
/-!
# C01 — the modal pre-transformation `pre_eig=True`

Model: `Model/SuCoefPreEig.lean` (`massMat`, `fullOf`, `preEigB`, `peForce`, `peIC`, `peRecover`,
`preEigProblem`, `preEigSolution`, `modalFirstSampleUnc`), transcribing `_do_pre_eig`, the `pre_eig`
lines of `_init_dva` and `_solution`.  `la.eigh(k, m)` is not modelled: its result `(w, u)` is an input
with the specification

    uᵀ M u = 1,   uᵀ K u = diag w        (`M = massMat m`: `1`, `diag m` or `m`;  `K = fullOf k`)

(mass-normalised mode shapes), measured on the implementation's own `phi`, `k` on every run.

* `pre_eig_solution_is_solution`  if `(q, q')` solves the modal system `q'' + (uᵀBu) q' + diag(w) q = uᵀ f(t)`
  exactly, then `(u q, u q')` solves the physical system `M x'' + B x' + K x = f(t)` exactly, started
  at `(u q₀, u q'₀)` — for every form of the mass (`None`, 1-D, 2-D) and of the damping (1-D, 2-D);
* `pre_eig_mass_forms_agree`, `pre_eig_damping_forms_agree`  a 1-D mass / damping is the same
  problem as the 2-D diagonal one (`m = None` as the unit vector);
* `pre_eig_ic_consistent`  the modal initial state `la.solve(phi, d0)` recovers `d0`: `d[:, 0] = d0`,
  `v[:, 0] = v0` (the content of finding F1); `pre_eig_first_sample` states it for the model's whole
  pipeline; `pre_eig_ic_is_phiT_M`: under the specification it is `uᵀ M d0`.
-/
namespace PyYetiVerif.C01
open PyYetiVerif.SuCoef Matrix

variable {n : ℕ}

/-- a 1-D mass is the 2-D diagonal one, `m = None` is the unit mass vector -/
theorem pre_eig_mass_forms_agree (m : Fin n → ℝ) :
    massMat (1 : ℝ) (.vec m) = massMat 1 (.mat (diagMat m)) ∧
    massMat (1 : ℝ) (.none : MassArg ℝ n) = massMat 1 (.vec fun _ => 1) ∧
    of (massMat (1 : ℝ) (.none : MassArg ℝ n)) = 1 := by
  refine ⟨rfl, rfl, ?_⟩
  show of (diagMat fun _ => (1 : ℝ)) = 1
  rw [diagMat_eq]
  exact diagonal_one

/-- `(u.T * b) @ u` for a 1-D damping is `u.T @ np.diag(b) @ u` -/
theorem pre_eig_damping_forms_agree (u : Fin n → Fin n → ℝ) (b : Fin n → ℝ) :
    preEigB u (.vec b) = preEigB u (.mat (diagMat b)) := by
  have h1 := preEigB_eq u (.vec b)
  have h2 := preEigB_eq u (.mat (diagMat b))
  have : of (preEigB u (.vec b)) = of (preEigB u (.mat (diagMat b))) := by
    rw [h1, h2]; rfl
  exact of.injective this

/-- **the recovered modal solution solves the physical system**, for every mass form -/
theorem pre_eig_solution_is_solution (e : PreEig ℝ n) (m : MassArg ℝ n) (b k : DiagOrFull ℝ n)
    (hM : (of e.phi)ᵀ * of (massMat 1 m) * of e.phi = 1)
    (hK : (of e.phi)ᵀ * of (fullOf k) * of e.phi = diagonal e.w)
    (f0 fs q0 qv0 : Fin n → ℝ) (q qv : ℝ → Fin n → ℝ)
    (hq : IsSol2R 1 (of (preEigB e.phi b)) (diagonal e.w) (peForce e.phi f0) (peForce e.phi fs)
      q0 qv0 q qv) :
    IsSol2R (of (massMat 1 m)) (of (fullOf b)) (of (fullOf k)) f0 fs
      (peRecover e.phi q0) (peRecover e.phi qv0)
      (fun t => peRecover e.phi (q t)) (fun t => peRecover e.phi (qv t)) := by
  set Φ := of e.phi with hΦ
  set M := of (massMat (1 : ℝ) m) with hMdef
  set B := of (fullOf b) with hBdef
  set K := of (fullOf k) with hKdef
  -- `Φᵀ` is invertible: `Φᵀ (M Φ) = 1`, hence `(M Φ) Φᵀ = 1`
  have hR : (M * Φ) * Φᵀ = 1 := by
    have : Φᵀ * (M * Φ) = 1 := by rw [← Matrix.mul_assoc]; exact hM
    exact mul_eq_one_comm.1 this
  have hinj : ∀ r : Fin n → ℝ, Φᵀ *ᵥ r = 0 → r = 0 := by
    intro r hr
    have : ((M * Φ) * Φᵀ) *ᵥ r = r := by rw [hR, Matrix.one_mulVec]
    rw [← this, ← Matrix.mulVec_mulVec, hr, Matrix.mulVec_zero]
  simp only [peRecover_eq]
  refine ⟨fun t => hasDerivAt_const_mulVec Φ q (qv t) t (hq.dd t), fun t => ?_, ?_, ?_⟩
  · obtain ⟨a, ha, he⟩ := hq.dv t
    refine ⟨Φ *ᵥ a, hasDerivAt_const_mulVec Φ qv a t ha, ?_⟩
    have hzero : M *ᵥ (Φ *ᵥ a) + B *ᵥ (Φ *ᵥ qv t) + K *ᵥ (Φ *ᵥ q t) - (f0 + t • fs) = 0 := by
      apply hinj
      rw [Matrix.mulVec_sub, Matrix.mulVec_add, Matrix.mulVec_add, Matrix.mulVec_add,
        Matrix.mulVec_smul]
      simp only [Matrix.mulVec_mulVec]
      rw [← Matrix.mul_assoc, ← Matrix.mul_assoc, ← Matrix.mul_assoc, hM, hK, ← preEigB_eq e.phi b]
      rw [peForce_eq, peForce_eq] at he
      rw [he]
      abel
    exact sub_eq_zero.1 hzero
  · simp only [hq.d0]
  · simp only [hq.v0]

/-- the modal initial state computed by `la.solve(self.phi, d0)` is mapped back to `d0` by
`_solution` (the same for `v0`): with `pre_eig` the first sample is the initial state that was passed -/
theorem pre_eig_ic_consistent {α : Type} [Field α] (isZero : α → Bool)
    (hz : ∀ x, isZero x = true ↔ x = 0) (absLt : α → α → Bool) (u : Fin n → Fin n → α)
    (d0 q0 : Fin n → α) (h : peIC isZero absLt u d0 = some q0) : peRecover u q0 = d0 := by
  rw [peRecover_eq]
  exact linSolve_solves isZero hz absLt u d0 q0 h

/-- under the `eigh` specification the modal initial state is `uᵀ M d0` (`phi⁻¹ = phiᵀ M`) -/
theorem pre_eig_ic_is_phiT_M (e : PreEig ℝ n) (m : MassArg ℝ n)
    (hM : (of e.phi)ᵀ * of (massMat 1 m) * of e.phi = 1) (d0 q0 : Fin n → ℝ)
    (h : peRecover e.phi q0 = d0) : q0 = ((of e.phi)ᵀ * of (massMat 1 m)) *ᵥ d0 := by
  rw [← h, peRecover_eq, Matrix.mulVec_mulVec, hM, Matrix.one_mulVec]

/-- the whole pipeline of the model on the first sample (modal system uncoupled after the
transformation): with `d0`, `v0` given, the returned `d[:, 0]`, `v[:, 0]` are `d0`, `v0` whatever
`static_ic` says -/
theorem pre_eig_first_sample {α : Type} [Field α] [BEq α] (isZero : α → Bool)
    (hz : ∀ x, isZero x = true ↔ x = 0) (absLt : α → α → Bool) (e : PreEig α n) (b : DiagOrFull α n)
    (force : List (Fin n → α)) (d0 v0 : Fin n → α) (static : Bool) (isEl : Fin n → Bool)
    (p : ModalProblem α n) (d v a : Fin n → α)
    (hp : preEigProblem isZero absLt e b force (some d0) (some v0) = some p)
    (hs : modalFirstSampleUnc p static isEl = some (d, v, a)) :
    peRecover e.phi d = d0 ∧ peRecover e.phi v = v0 := by
  unfold preEigProblem at hp
  simp only at hp
  cases hq : peIC isZero absLt e.phi d0 with
  | none => simp [hq] at hp
  | some q0 =>
    cases hqv : peIC isZero absLt e.phi v0 with
    | none => simp [hq, hqv] at hp
    | some qv0 =>
      simp only [hq, hqv, Option.map_some, Option.some.injEq] at hp
      subst hp
      unfold modalFirstSampleUnc at hs
      cases hF : force with
      | nil => simp [hF] at hs
      | cons f0 rest =>
        simp only [hF, List.map_cons, Option.map_some, Option.some.injEq, Prod.mk.injEq] at hs
        obtain ⟨hd, hv, _⟩ := hs
        have ed : d = q0 := by rw [← hd]; funext i; simp [initD]
        have ev : v = qv0 := by rw [← hv]; funext i; simp [initV]
        rw [ed, ev]
        exact ⟨pre_eig_ic_consistent isZero hz absLt e.phi d0 q0 hq,
          pre_eig_ic_consistent isZero hz absLt e.phi v0 qv0 hqv⟩

/-! ### non-vacuity: `M = diag(4, 1)` given as a vector, `K = diag(8, 3)`: `u = diag(1/2, 1)`,
`w = (2, 3)` satisfy the specification; the free modal motion `q = (cos(√2 t), 0)`-type solutions
exist by `Props/C01`; here the static check of the two hypotheses and of the damping congruence -/

example : (of (![![1 / 2, 0], ![0, 1]] : Fin 2 → Fin 2 → ℝ))ᵀ * of (massMat (1 : ℝ) (.vec ![4, 1]))
      * of (![![1 / 2, 0], ![0, 1]] : Fin 2 → Fin 2 → ℝ) = 1 := by
  ext i j
  fin_cases i <;> fin_cases j <;> simp [massMat, diagMat, Matrix.mul_apply, Fin.sum_univ_two] <;> norm_num

example : (of (![![1 / 2, 0], ![0, 1]] : Fin 2 → Fin 2 → ℝ))ᵀ * of (fullOf (.vec ![8, 3] : DiagOrFull ℝ 2))
      * of (![![1 / 2, 0], ![0, 1]] : Fin 2 → Fin 2 → ℝ) = diagonal ![2, 3] := by
  ext i j
  fin_cases i <;> fin_cases j <;>
    simp [fullOf, diagMat, Matrix.mul_apply, Fin.sum_univ_two, diagonal_apply] <;> norm_num

/-- a modal solution exists for that system (rest, no force), so the main theorem's hypothesis `hq`
is inhabited -/
example : IsSol2R (1 : Matrix (Fin 2) (Fin 2) ℝ)
    (of (preEigB (![![1 / 2, 0], ![0, 1]] : Fin 2 → Fin 2 → ℝ) (.vec ![0, 0]))) (diagonal ![2, 3])
    (peForce (![![1 / 2, 0], ![0, 1]] : Fin 2 → Fin 2 → ℝ) 0) (peForce ![![1 / 2, 0], ![0, 1]] 0) 0 0
    (fun _ => 0) (fun _ => 0) := by
  refine ⟨fun t => hasDerivAt_const t (0 : Fin 2 → ℝ), fun t => ⟨0, hasDerivAt_const t (0 : Fin 2 → ℝ), ?_⟩,
    rfl, rfl⟩
  rw [peForce_eq]
  simp

end PyYetiVerif.C01
