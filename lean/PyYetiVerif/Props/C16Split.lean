import PyYetiVerif.Lemmas.Extrema
import PyYetiVerif.Model.ExtremaSplit
import PyYetiVerif.Model.ApplyUfDef
import Mathlib.Algebra.Order.Ring.Int
/-!
# C16 — the case labels name the per-case columns (`_store_maxmin`, `split`); `uf_reds` defaults

Property theorems only.  Models: `record` / `storeCases` of `Model/Extrema.lean`,
`Model/ExtremaSplit.lean`, `Model/ApplyUfDef.lean`; tied by the `time` / `frf` / `psd` streams (the
`store` request), the `split` stream and the `ufdef` stream of `harness/props/c16.py` (exact).
-/
namespace PyYetiVerif.C16
open PyYetiVerif.Extrema PyYetiVerif.ExtremaSplit PyYetiVerif.ApplyUfDef

section store
variable {L β : Type} [DecidableEq L]

/-- a run of `_store_maxmin` that goes through has written `cases[j] = case` for every call -/
theorem storeCases_eq_record (ws : List (Nat × L)) (cs0 cs : List (Option L))
    (h : ws.foldl (fun st w => st.bind fun cs => storeCase cs w.1 w.2) (some cs0) = some cs) :
    cs = (ws.map fun w => (w.1, some w.2)).foldl (fun arr w => arr.set w.1 w.2) cs0 := by
  induction ws generalizing cs0 with
  | nil => simpa using h.symm
  | cons w ws ih =>
    rw [List.foldl_cons] at h
    simp only [Option.bind_some] at h
    by_cases hc : cs0.contains (some w.2) = true
    · have hs : storeCase cs0 w.1 w.2 = none := by simp only [storeCase, if_pos hc]
      rw [hs] at h
      have : ∀ (ws : List (Nat × L)), ws.foldl (fun st w => st.bind fun cs => storeCase cs w.1 w.2)
          (none : Option (List (Option L))) = none := by
        intro ws
        induction ws with
        | nil => rfl
        | cons _ _ ih => simpa using ih
      rw [this] at h
      cases h
    · have hs : storeCase cs0 w.1 w.2 = some (cs0.set w.1 (some w.2)) := by
        simp only [storeCase, if_neg hc]
      rw [hs] at h
      simpa using ih _ h

/-- ★ the label list names the columns: after data recovery of any number of load cases with
distinct case numbers `j < n` IN ANY ORDER OF THE CALLS (`j = 2, 0, 3, 1` …), `cases[j]` is the label
of the case whose data column `j` of `mx` (`mn`, `mx_x`, `mn_x`, `hist[j]`, `srs.srs[q][j]`) holds —
the list is indexed by case number, not by call order. -/
theorem cases_label_matches_column (n : Nat) (fill : β) (ws : List (Nat × L × β)) (cs : List (Option L))
    (hjs : (ws.map (·.1)).Nodup) (hlt : ∀ w ∈ ws, w.1 < n)
    (h : storeCases n (ws.map fun w => (w.1, w.2.1)) = some cs) :
    cs.length = n ∧ ∀ w ∈ ws, cs[w.1]? = some (some w.2.1) ∧
      (record n fill (ws.map fun w => (w.1, w.2.2)))[w.1]? = some w.2.2 := by
  have hcs := storeCases_eq_record _ _ _ h
  simp only [List.map_map] at hcs
  refine ⟨by rw [hcs, foldl_set_length]; simp, fun w hw => ⟨?_, ?_⟩⟩
  · rw [hcs]
    apply foldl_set_get
    · simpa [List.map_map, Function.comp_def] using hjs
    · exact List.mem_map.2 ⟨w, hw, rfl⟩
    · simpa using hlt w hw
  · apply foldl_set_get
    · simpa [List.map_map, Function.comp_def] using hjs
    · exact List.mem_map.2 ⟨w, hw, rfl⟩
    · simpa using hlt w hw

end store

section split
variable {α X L : Type}

theorem mapM_option_getElem {A B : Type} (f : A → Option B) : ∀ (l : List A) (r : List B),
    l.mapM f = some r → ∀ i : Nat, r[i]? = (l[i]?).bind f
  | [], r, h, i => by
      simp only [List.mapM_nil] at h
      cases h
      simp
  | a :: l, r, h, i => by
      rw [List.mapM_cons] at h
      cases hfa : f a with
      | none => simp [hfa] at h
      | some b =>
        cases hl : l.mapM f with
        | none => simp [hfa, hl] at h
        | some bs =>
          simp only [hfa, hl, Option.bind_eq_bind, Option.bind_some, Option.pure_def, Option.some.injEq] at h
          subst h
          cases i with
          | zero => simp [hfa]
          | succ i => simpa using mapM_option_getElem f l bs hl i

theorem mapM_option_isSome {A B : Type} (f : A → Option B) : ∀ (l : List A),
    (∀ a ∈ l, (f a).isSome) → ∃ r, l.mapM f = some r
  | [], _ => ⟨[], rfl⟩
  | a :: l, h => by
      obtain ⟨bs, hbs⟩ := mapM_option_isSome f l fun a' ha' => h a' (List.mem_cons_of_mem _ ha')
      obtain ⟨b, hb⟩ := Option.isSome_iff_exists.1 (h a List.mem_cons_self)
      exact ⟨b :: bs, by simp [List.mapM_cons, hb, hbs]⟩

variable [DecidableEq L]

/-- ★ `split()` hands every case ITS OWN columns: when all `n` case numbers were filled (in any order
of the calls), `split()` succeeds and the event it makes for column `j` is named with the label of
the case recovered with case number `j` and holds that case's `mx, mn, mx_x, mn_x`. -/
theorem split_pairs_cases_with_columns (n : Nat) (f : Part α X) (ws : List (Nat × L × Part α X))
    (cs : List (Option L)) (hjs : (ws.map (·.1)).Nodup) (hlt : ∀ w ∈ ws, w.1 < n)
    (hall : ∀ j, j < n → j ∈ ws.map (·.1))
    (h : storeCases n (ws.map fun w => (w.1, w.2.1)) = some cs) :
    ∃ parts, splitRow cs (record n f.mx (ws.map fun w => (w.1, w.2.2.mx)))
        (record n f.mn (ws.map fun w => (w.1, w.2.2.mn)))
        (record n f.mxx (ws.map fun w => (w.1, w.2.2.mxx)))
        (record n f.mnx (ws.map fun w => (w.1, w.2.2.mnx))) = some parts ∧
      ∀ w ∈ ws, parts[w.1]? = some (w.2.1, w.2.2) := by
  obtain ⟨hlen, hcs⟩ := cases_label_matches_column n f.mx (ws.map fun w => (w.1, w.2.1, w.2.2.mx)) cs
    (by simpa [List.map_map, Function.comp_def] using hjs)
    (by intro w hw; obtain ⟨w', hw', rfl⟩ := List.mem_map.1 hw; exact hlt w' hw')
    (by simpa [List.map_map, Function.comp_def] using h)
  have hget : ∀ {γ : Type} (fill : γ) (sel : Part α X → γ) (w : Nat × L × Part α X), w ∈ ws →
      (record n fill (ws.map fun w => (w.1, sel w.2.2)))[w.1]? = some (sel w.2.2) := by
    intro γ fill sel w hw
    apply foldl_set_get
    · simpa [List.map_map, Function.comp_def] using hjs
    · exact List.mem_map.2 ⟨w, hw, rfl⟩
    · simpa using hlt w hw
  have hcase : ∀ w ∈ ws, cs[w.1]? = some (some w.2.1) := by
    intro w hw
    exact (hcs (w.1, w.2.1, w.2.2.mx) (List.mem_map.2 ⟨w, hw, rfl⟩)).1
  have hsome : ∀ c ∈ cs, c.isSome := by
    intro c hc
    obtain ⟨j, hj⟩ := List.mem_iff_getElem?.1 hc
    have hjn : j < n := by
      rw [← hlen]
      exact (List.getElem?_eq_some_iff.1 hj).1
    obtain ⟨w, hw, hwj⟩ := List.mem_map.1 (hall j hjn)
    have := hcase w hw
    rw [hwj, hj] at this
    cases this
    rfl
  unfold splitRow
  obtain ⟨parts, hparts⟩ := mapM_option_isSome
    (fun p : Option L × (α × α) × (X × X) => p.1.map fun c => (c, (⟨p.2.1.1, p.2.1.2, p.2.2.1, p.2.2.2⟩ : Part α X)))
    (cs.zip (((record n f.mx (ws.map fun w => (w.1, w.2.2.mx))).zip
      (record n f.mn (ws.map fun w => (w.1, w.2.2.mn)))).zip
      ((record n f.mxx (ws.map fun w => (w.1, w.2.2.mxx))).zip
      (record n f.mnx (ws.map fun w => (w.1, w.2.2.mnx))))))
    (by
      intro p hp
      have := hsome p.1 (List.of_mem_zip hp).1
      cases h1 : p.1 <;> simp_all)
  refine ⟨parts, hparts, fun w hw => ?_⟩
  rw [mapM_option_getElem _ _ _ hparts w.1]
  have hz : (cs.zip (((record n f.mx (ws.map fun w => (w.1, w.2.2.mx))).zip
      (record n f.mn (ws.map fun w => (w.1, w.2.2.mn)))).zip
      ((record n f.mxx (ws.map fun w => (w.1, w.2.2.mxx))).zip
      (record n f.mnx (ws.map fun w => (w.1, w.2.2.mnx))))))[w.1]?
      = some (some w.2.1, (w.2.2.mx, w.2.2.mn), (w.2.2.mxx, w.2.2.mnx)) := by
    rw [List.getElem?_zip_eq_some]
    refine ⟨hcase w hw, ?_⟩
    rw [List.getElem?_zip_eq_some]
    constructor
    · rw [List.getElem?_zip_eq_some]
      exact ⟨hget f.mx (·.mx) w hw, hget f.mn (·.mn) w hw⟩
    · rw [List.getElem?_zip_eq_some]
      exact ⟨hget f.mxx (·.mxx) w hw, hget f.mnx (·.mnx) w hw⟩
  rw [hz]
  rfl

end split

section ufdef
variable {α : Type} [OfNat α 1]

/-- ★ `DR_Def.add` stores the documented factors for EVERY combination: `uf_reds` absent or given with
`None` entries anywhere, `defaults['uf_reds']` absent, present, or with `None` entries of its own — an
entry given wins, else the corresponding entry of the defaults, else 1 (the code after fix 8b1ec50,
finding F56; before it a `None` entry became 1 and e.g. `(0, None, None, None)` lost the dynamic
factor of the defaults). -/
theorem uf_reds_none_entries_documented (defaults given : Option (List (Option α)))
    (hd : ∀ dl, defaults = some dl → dl.length = 4) :
    addUfReds defaults given = addUfRedsDoc defaults given := by
  have len4 : ∀ (l : List (Option α)), l.length = 4 → ∃ a b c d, l = [a, b, c, d] := by
    intro l hl
    match l, hl with
    | [a, b, c, d], _ => exact ⟨a, b, c, d, rfl⟩
  cases given with
  | some g => rfl
  | none =>
    cases defaults with
    | none => rfl
    | some dl =>
      obtain ⟨a, b, c, d, rfl⟩ := len4 dl (hd dl rfl)
      cases a <;> cases b <;> cases c <;> cases d <;> rfl

/-- the finding's input, evaluated: the dynamic factor of the defaults is kept -/
example : addUfReds (some [some (1 : Int), some 1, some 2, some 1]) (some [some 0, none, none, none])
    = [0, 1, 2, 1] := by decide

end ufdef

/-! ### non-vacuity -/

/-- cases recovered with the case numbers 2, 0, 3, 1: the label list is by column, and `split` pairs
each label with its own column -/
example :
    storeCases 4 [(2, "c"), (0, "a"), (3, "d"), (1, "b")] = some [some "a", some "b", some "c", some "d"] ∧
    record 4 (0 : Int) [(2, 30), (0, 10), (3, 40), (1, 20)] = [10, 20, 30, 40] ∧
    (splitRow [some "a", some "b", some "c", some "d"] [10, 20, 30, 40] [(-1 : Int), -2, -3, -4]
        [(0 : Nat), 0, 0, 0] [1, 1, 1, 1]).map (fun ps => ps.map fun p => (p.1, p.2.mx, p.2.mn))
      = some [("a", 10, -1), ("b", 20, -2), ("c", 30, -3), ("d", 40, -4)] ∧
    splitRow [some "a", none] [(1 : Int), 2] [1, 2] [(0 : Nat), 0] [0, 0] = none := by
  decide

end PyYetiVerif.C16
