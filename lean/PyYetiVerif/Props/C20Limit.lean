import PyYetiVerif.Lemmas.KFactor
import Mathlib.Analysis.Real.Sqrt
import Mathlib.Topology.Algebra.Order.Field
import Mathlib.Order.Filter.AtTopBot.Archimedean
import Mathlib.Topology.Order.Basic
import Mathlib.Topology.Algebra.Ring.Real
import Mathlib.Tactic.NormNum
import Mathlib.Tactic.Positivity
/-!
# C20 — the one-sided factor for large samples: `ksingle(p, c, n) → z_p`, from above for `c ≥ 1/2`

Relative to the specification of the library kernels, extended by two clauses about the non-central t
distribution (`NctAsym`; both are measured by the oracle on every run):

* `nct_near`     for every level `c ∈ (0, 1)` the `c`-quantile of `nct(df, nc)` stays within
                 `B_c · (1 + |nc|/√df)` of the non-centrality, uniformly in `df ≥ 1` and `nc`
                 (`T = (Z + nc)/√(V/df)`: the spread is `≈ √(1 + nc²/(2 df))`);
* `nct_median`   the median of `nct(df, nc)` is at least `nc` when `nc ≥ 0`: `P(T ≤ nc) ≤ 1/2`.

`ksingle_tendsto`: `ksingle(p, c, n) → Φ⁻¹(p)` as `n → ∞` (`Filter.Tendsto`), with the explicit rate
`|k − z_p| ≤ B_c (1/√n + |z_p|/√(n−1))`;  `ksingle_ge_normal`: `k ≥ z_p` when `c ≥ 1/2` and `z_p ≥ 0`.
The two-sided factor's limit needs continuity of `Φ⁻¹` and the asymptotics of the chi-square quantile: not
proved (oracle only).
-/
set_option linter.unusedSectionVars false
namespace PyYetiVerif.C20
open PyYetiVerif.KFactor Filter Topology

/-- the two extra clauses about the non-central t distribution (over `ℝ`) -/
structure NctAsym (o : Ops ℝ) (nctCdf : ℝ → ℝ → ℝ → ℝ) : Prop where
  nct_near : ∀ c, 0 < c → c < 1 → ∃ B, 0 ≤ B ∧ ∀ df nc, 1 ≤ df →
    |o.nctPpf c df nc - nc| ≤ B * (1 + |nc| / o.sqrt df)
  nct_median : ∀ df nc, 1 ≤ df → 0 ≤ nc → nctCdf df nc nc ≤ 1 / 2

variable {o : Ops ℝ} {nctCdf : ℝ → ℝ → ℝ → ℝ} {chi2Cdf : ℝ → ℝ → ℝ}

/-- the specification pins the square root down -/
private theorem spec_sqrt_eq (S : Spec o nctCdf chi2Cdf) {x : ℝ} (hx : 0 < x) : o.sqrt x = Real.sqrt x := by
  have h1 := S.sqrt_pos x hx
  have h2 := S.sqrt_mul_self x hx.le
  calc o.sqrt x = Real.sqrt (o.sqrt x * o.sqrt x) := (Real.sqrt_mul_self h1.le).symm
    _ = Real.sqrt x := by rw [h2]

/-- explicit rate: `|ksingle(p, c, n) − z_p| ≤ B (1/√n + |z_p|/√(n−1))` for `n ≥ 2` -/
theorem ksingle_rate (S : Spec o nctCdf chi2Cdf) (A : NctAsym o nctCdf) {p c : ℝ} (hc0 : 0 < c)
    (hc1 : c < 1) : ∃ B, 0 ≤ B ∧ ∀ n : ℝ, 2 ≤ n →
      |ksingle o p c n - o.normPpf p| ≤ B * (1 / Real.sqrt n + |o.normPpf p| / Real.sqrt (n - 1)) := by
  obtain ⟨B, hB0, hB⟩ := A.nct_near c hc0 hc1
  refine ⟨B, hB0, fun n hn => ?_⟩
  have hn0 : 0 < n := by linarith
  have hn1 : 0 < n - 1 := by linarith
  have hs := S.sqrt_pos n hn0
  have e1 : o.sqrt n = Real.sqrt n := spec_sqrt_eq S hn0
  have e2 : o.sqrt (n - 1) = Real.sqrt (n - 1) := spec_sqrt_eq S hn1
  have hb := hB (n - 1) (o.sqrt n * o.normPpf p) (by linarith)
  have hk : ksingle o p c n - o.normPpf p =
      (o.nctPpf c (n - 1) (o.sqrt n * o.normPpf p) - o.sqrt n * o.normPpf p) / o.sqrt n := by
    unfold ksingle pnonc; field_simp
  rw [hk, abs_div, abs_of_pos hs, div_le_iff₀ hs]
  refine hb.trans ?_
  rw [abs_mul, abs_of_pos hs, e1, e2]
  have hsn : 0 < Real.sqrt n := Real.sqrt_pos.2 hn0
  have hsn1 : 0 < Real.sqrt (n - 1) := Real.sqrt_pos.2 hn1
  have : B * (1 / Real.sqrt n + |o.normPpf p| / Real.sqrt (n - 1)) * Real.sqrt n =
      B * (1 + Real.sqrt n * |o.normPpf p| / Real.sqrt (n - 1)) := by
    field_simp
  rw [this]

/-- **`ksingle(p, c, n) → z_p` as `n → ∞`** (relative to `Spec` and `NctAsym`) -/
theorem ksingle_tendsto (S : Spec o nctCdf chi2Cdf) (A : NctAsym o nctCdf) {p c : ℝ} (hc0 : 0 < c)
    (hc1 : c < 1) :
    Tendsto (fun n : ℕ => ksingle o p c (n : ℝ)) atTop (𝓝 (o.normPpf p)) := by
  obtain ⟨B, hB0, hB⟩ := ksingle_rate (p := p) S A hc0 hc1
  set z := o.normPpf p with hz
  set ε : ℕ → ℝ := fun n => B * (1 / Real.sqrt n + |z| / Real.sqrt ((n : ℝ) - 1)) with hε
  have hcast : Tendsto (fun n : ℕ => (n : ℝ)) atTop atTop := tendsto_natCast_atTop_atTop
  have h1 : Tendsto (fun n : ℕ => 1 / Real.sqrt (n : ℝ)) atTop (𝓝 0) := by
    simp only [one_div]
    exact tendsto_inv_atTop_zero.comp (Real.tendsto_sqrt_atTop.comp hcast)
  have h2 : Tendsto (fun n : ℕ => |z| / Real.sqrt ((n : ℝ) - 1)) atTop (𝓝 0) := by
    have hm : Tendsto (fun n : ℕ => (n : ℝ) - 1) atTop atTop :=
      tendsto_atTop_add_const_right atTop (-1) hcast
    have := (tendsto_inv_atTop_zero.comp (Real.tendsto_sqrt_atTop.comp hm)).const_mul |z|
    simpa [div_eq_mul_inv] using this
  have hε0 : Tendsto ε atTop (𝓝 0) := by
    have := (h1.add h2).const_mul B
    simpa [hε] using this
  have hlo : Tendsto (fun n => z - ε n) atTop (𝓝 z) := by simpa using (tendsto_const_nhds (x := z)).sub hε0
  have hhi : Tendsto (fun n => z + ε n) atTop (𝓝 z) := by simpa using (tendsto_const_nhds (x := z)).add hε0
  have hev : ∀ᶠ n : ℕ in atTop, |ksingle o p c (n : ℝ) - z| ≤ ε n := by
    refine eventually_atTop.2 ⟨2, fun n hn => ?_⟩
    exact hB n (by exact_mod_cast hn)
  refine tendsto_of_tendsto_of_tendsto_of_le_of_le' hlo hhi ?_ ?_
  · filter_upwards [hev] with n hn
    have := (abs_le.1 hn).1
    linarith
  · filter_upwards [hev] with n hn
    have := (abs_le.1 hn).2
    linarith

/-- **from above when the confidence is at least 50 %**: for `c ≥ 1/2`, `z_p ≥ 0` (`p ≥ 1/2`) and `n ≥ 2`
the one-sided factor is at least the normal quantile. -/
theorem ksingle_ge_normal (S : Spec o nctCdf chi2Cdf) (A : NctAsym o nctCdf) {p c n : ℝ}
    (hc : 1 / 2 ≤ c) (hc1 : c < 1) (hz : 0 ≤ o.normPpf p) (hn : 2 ≤ n) :
    o.normPpf p ≤ ksingle o p c n := by
  have hn0 : 0 < n := by linarith
  have hs := S.sqrt_pos n hn0
  have hnc : 0 ≤ o.sqrt n * o.normPpf p := mul_nonneg hs.le hz
  have hmed := A.nct_median (n - 1) _ (by linarith) hnc
  have hq := S.nctCdf_ppf c (n - 1) (o.sqrt n * o.normPpf p) (by linarith) hc1
  have hge : o.sqrt n * o.normPpf p ≤ o.nctPpf c (n - 1) (o.sqrt n * o.normPpf p) := by
    by_contra hlt
    have := S.nctCdf_strictMono (n - 1) (o.sqrt n * o.normPpf p) (not_le.1 hlt)
    rw [hq] at this
    linarith
  unfold ksingle pnonc
  rw [le_div_iff₀ hs]
  linarith

/-- non-vacuity: the extended specification is satisfiable (the toy location family of the `Spec` example:
quantile `nc + c - 1/2`, cdf `x - nc + 1/2`). -/
example : ∃ (o : Ops ℝ) (nct : ℝ → ℝ → ℝ → ℝ) (chi : ℝ → ℝ → ℝ), Spec o nct chi ∧ NctAsym o nct :=
  ⟨⟨Real.sqrt, fun _ => 1, id, id, fun c _ nc => nc + c - 1 / 2, fun pr _ => pr, 1⟩,
    fun _ nc x => x - nc + 1 / 2, fun _ x => x,
    { sqrt_pos := fun _ h => Real.sqrt_pos.2 h
      sqrt_mul_self := fun _ h => Real.mul_self_sqrt h
      exp_pos := fun _ => one_pos
      spi_pos := one_pos
      normCdf_strictMono := strictMono_id
      normCdf_ppf := fun _ _ _ => rfl
      nctCdf_strictMono := fun _ nc a b h => by simp only; linarith
      nctCdf_ppf := fun c _ nc _ _ => by simp only; ring
      nctCdf_anti_nc := fun _ x a b h => by simp only; linarith
      chi2Cdf_strictMono := fun _ a _ b _ h => h
      chi2Cdf_ppf := fun _ _ _ _ => rfl
      chi2Ppf_pos := fun _ _ h _ => h },
    { nct_near := fun c h0 h1 => ⟨1, zero_le_one, fun df nc hdf => by
        simp only
        have h3 : |nc + c - 1 / 2 - nc| ≤ 1 := by
          rw [abs_le]; constructor <;> linarith
        have h4 : 0 ≤ |nc| / Real.sqrt df := div_nonneg (abs_nonneg _) (Real.sqrt_nonneg _)
        linarith⟩
      nct_median := fun df nc _ _ => by simp }⟩

end PyYetiVerif.C20
