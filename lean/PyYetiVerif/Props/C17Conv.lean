import PyYetiVerif.Lemmas.NewmarkConv
/-!
# C17 (continued) — global convergence of the scalar Newmark-beta scheme

Property theorems only.  For the scalar test equation `m u'' + b u' + k u = f(t)`, `m > 0`, `b, k ≥ 0`, on
`[0, T]`, with an exact solution `u` that has four derivatives (what `f ∈ C²` gives) bounded by `M₃`
(third) and `M₄` (fourth) on `[0, T]`:

* `newmark_run_is_sequence` — the history `Newmark.run` returns for a linear system is the sequence
  `dseq` (documented start-up, then the three-point recurrence with the replaced `F₀`); loop invariant.
* `newmark_error_recursion` — the global error `e_n = d_n − u(n h)` satisfies the scheme's own recurrence
  `A e_{n+2} = A1 e_{n+1} + A0 e_n + g_n`, `g_n = −τ_{n+1} − [n = 0] (F(0) − K u₀ − B v₀)/3`.
* `newmark_truncation_bound` — `|τ| ≤ (5 m M₄/12 + b M₃/2) h²` (Taylor, second-order consistency made
  quantitative; `newmark_consistent` is the case `M₃ = M₄ = 0`).
* `newmark_startup_error_bound` — the documented start-up on a general solution:
  `|d₁ − u(h)| ≤ (h²/m)(|u''(0)| |b h/12 − m/6| + m M₃ h/2 + b M₃ h²/4)`: `O(h³)` iff `u''(0) = 0`.
* `newmark_converges_scalar` — stability (energy method, `Props/C17Stab`) + the two bounds above:
  `max_n |d_n − u(n h)| ≤ K₁ |F(0) − K u₀ − B v₀| h + K₂ h²` for EVERY `h > 0` and every number of steps with
  `(nt − 1) h ≤ T`, with explicit `K₁(m, b, k, T)`, `K₂(m, b, k, T, M₃, M₄)` — first order in general.
* `newmark_converges_scalar_second_order` — when the initial force balances the initial state the first
  term vanishes: second order.  (`newmark_startup_defect` / `newmark_startup_exact_iff` show the `h`-term
  is really there otherwise.)
-/
namespace PyYetiVerif.C17
open PyYetiVerif.Newmark Set

/-- For a linear system (`nl = 0`, here any constant `z`) and the force columns `Fn 0, …, Fn (n+1)` the
model returns exactly the first `n + 2` members of the sequence `dseq` — over ANY vector type. -/
theorem newmark_run_is_sequence {α V : Type} [Add V] [Sub V] [VecOps α V] [Mul α] [OfNat α 2] [OfNat α 3]
    (S : Sys V α) (Fn : Nat → V) (d0 v0 z : V) (n : Nat) :
    ∃ hh, run S (fun _ _ => z) ((List.range (n + 2)).map Fn) d0 v0 = some hh ∧
      hh.d = (List.range (n + 2)).map (dseq S Fn d0 v0 z) ∧
      hh.de = lastStep S (fun _ _ => z) (stateAt S Fn d0 v0 z n) :=
  run_eq_dseq S Fn d0 v0 z n

/-- error recursion `A e_{n+2} = g_n + A1 e_{n+1} + A0 e_n` (`e_{n+1} = G e_n + τ_n` in companion form) -/
theorem newmark_error_recursion (m b k h : ℝ) (u u1 f : ℝ → ℝ) (hA : coefA m b k h ≠ 0) (n : ℕ) :
    coefA m b k h *
        (dseq (scalarSys m b k h) (fun j => f (j * h)) (u 0) (u1 0) 0 (n + 2) - u (((n + 2 : ℕ) : ℝ) * h))
      = errForce m b k h u u1 f n
        + coefA1 m k h *
          (dseq (scalarSys m b k h) (fun j => f (j * h)) (u 0) (u1 0) 0 (n + 1) - u (((n + 1 : ℕ) : ℝ) * h))
        + coefA0 m b k h *
          (dseq (scalarSys m b k h) (fun j => f (j * h)) (u 0) (u1 0) 0 n - u ((n : ℝ) * h)) :=
  error_rec m b k h u u1 f hA n

/-- local truncation error of the three-point recurrence centred at `t` -/
theorem newmark_truncation_bound (m b k h M3 M4 : ℝ) (u u1 u2 u3 u4 f : ℝ → ℝ) (t : ℝ) (hm : 0 ≤ m)
    (hb : 0 ≤ b) (hh : 0 < h)
    (hu : ∀ t, HasDerivAt u (u1 t) t) (hu1 : ∀ t, HasDerivAt u1 (u2 t) t)
    (hu2 : ∀ t, HasDerivAt u2 (u3 t) t) (hu3 : ∀ t, HasDerivAt u3 (u4 t) t)
    (hM3 : ∀ s ∈ Icc (t - h) (t + h), |u3 s| ≤ M3) (hM4 : ∀ s ∈ Icc (t - h) (t + h), |u4 s| ≤ M4)
    (hode : ∀ s ∈ Icc (t - h) (t + h), m * u2 s + b * u1 s + k * u s = f s) :
    |coefA m b k h * u (t + h) - coefA1 m k h * u t - coefA0 m b k h * u (t - h)
        - (f (t + h) + f t + f (t - h)) / 3| ≤ (5 * m * M4 / 12 + b * M3 / 2) * h ^ 2 :=
  trunc_abs_le m b k h M3 M4 u u1 u2 u3 u4 f t hm hb hh hu hu1 hu2 hu3 hM3 hM4 hode

/-- error of the documented start-up step on a general smooth solution -/
theorem newmark_startup_error_bound (m b k h M3 : ℝ) (u u1 u2 u3 f : ℝ → ℝ) (hm : 0 < m) (hb : 0 ≤ b)
    (hk : 0 ≤ k) (hh : 0 < h)
    (hu : ∀ t, HasDerivAt u (u1 t) t) (hu1 : ∀ t, HasDerivAt u1 (u2 t) t)
    (hu2 : ∀ t, HasDerivAt u2 (u3 t) t) (hM3 : ∀ s ∈ Icc 0 h, |u3 s| ≤ M3)
    (hode : m * u2 h + b * u1 h + k * u h = f h) :
    |dseq (scalarSys m b k h) (fun j => f (j * h)) (u 0) (u1 0) 0 1 - u h|
      ≤ h ^ 2 / m * (|u2 0| * |b * h / 12 - m / 6| + m * M3 * h / 2 + b * M3 * h ^ 2 / 4) :=
  startup_error_abs_le m b k h M3 u u1 u2 u3 f hm hb hk hh hu hu1 hu2 hM3 hode

/-- coefficient of the first-order term (multiplies the start-up imbalance `|F(0) − K u₀ − B v₀|`) -/
noncomputable def convK1 (m b k T : ℝ) : ℝ :=
  T / √m * ((b * T / 12 + m / 6) * √(m + k * T ^ 2 / 3) / m ^ 2 + 1 / (3 * √m))

/-- coefficient of the second-order term -/
noncomputable def convK2 (m b k T M3 M4 : ℝ) : ℝ :=
  T / √m * ((m * M3 / 2 + b * M3 * T / 4) * √(m + k * T ^ 2 / 3) / m
    + T * (5 * m * M4 / 12 + b * M3 / 2) / √m)

/-- **Global convergence of SolveNewmark on the scalar test equation.**  Every displacement the model
returns is within `K₁ |F(0) − K u₀ − B v₀| h + K₂ h²` of the exact solution, for every step `h > 0` and every
`nt = n + 2` with `(nt − 1) h ≤ T`. -/
theorem newmark_converges_scalar (m b k T M3 M4 : ℝ) (hm : 0 < m) (hb : 0 ≤ b) (hk : 0 ≤ k)
    (u u1 u2 u3 u4 f : ℝ → ℝ)
    (hu : ∀ t, HasDerivAt u (u1 t) t) (hu1 : ∀ t, HasDerivAt u1 (u2 t) t)
    (hu2 : ∀ t, HasDerivAt u2 (u3 t) t) (hu3 : ∀ t, HasDerivAt u3 (u4 t) t)
    (hM3 : ∀ t ∈ Icc 0 T, |u3 t| ≤ M3) (hM4 : ∀ t ∈ Icc 0 T, |u4 t| ≤ M4)
    (hode : ∀ t ∈ Icc 0 T, m * u2 t + b * u1 t + k * u t = f t)
    (h : ℝ) (n : ℕ) (hh : 0 < h) (hnT : ((n : ℝ) + 1) * h ≤ T) :
    ∃ hist, run (scalarSys m b k h) (fun _ _ => 0) ((List.range (n + 2)).map fun j : ℕ => f ((j : ℝ) * h))
        (u 0) (u1 0) = some hist ∧ hist.d.length = n + 2 ∧
      ∀ j (hj : j < hist.d.length), |hist.d[j] - u ((j : ℝ) * h)|
        ≤ convK1 m b k T * |f 0 - (k * u 0 + b * u1 0)| * h + convK2 m b k T M3 M4 * h ^ 2 := by
  obtain ⟨hist, hrun, hd, -⟩ :=
    run_eq_dseq (scalarSys m b k h) (fun j : ℕ => f (j * h)) (u 0) (u1 0) 0 n
  refine ⟨hist, hrun, by rw [hd]; simp, ?_⟩
  intro j hj
  have hjn : j < n + 2 := by rw [hd] at hj; simpa using hj
  have hget : hist.d[j] = dseq (scalarSys m b k h) (fun j : ℕ => f (j * h)) (u 0) (u1 0) 0 j := by
    simp [hd]
  rw [hget]
  -- ingredients
  have hn0 : (0 : ℝ) ≤ n := Nat.cast_nonneg n
  have hhT : h ≤ T := by nlinarith
  have hT : 0 < T := lt_of_lt_of_le hh hhT
  have h0T : (0 : ℝ) ∈ Icc 0 T := ⟨le_refl _, hT.le⟩
  have hM3n : 0 ≤ M3 := le_trans (abs_nonneg _) (hM3 0 h0T)
  have hM4n : 0 ≤ M4 := le_trans (abs_nonneg _) (hM4 0 h0T)
  set μ := √m with hμd
  have hμ : 0 < μ := Real.sqrt_pos.mpr hm
  have hmμ : m = μ ^ 2 := (Real.sq_sqrt hm.le).symm
  have hρarg : 0 ≤ m + k * T ^ 2 / 3 := by positivity
  set ρ := √(m + k * T ^ 2 / 3) with hρd
  have hρ : 0 ≤ ρ := Real.sqrt_nonneg _
  have hρ2 : m + k * T ^ 2 / 3 ≤ ρ ^ 2 := (Real.sq_sqrt hρarg).ge
  have hApos : 0 < coefA m b k h := by
    simp only [coefA]
    have : 0 < m / (h * h) := by positivity
    have : 0 ≤ b / (2 * h) := by positivity
    have : 0 ≤ k / 3 := by positivity
    linarith
  set δ0 := f 0 - (k * u 0 + b * u1 0) with hδ0
  have ha0 : u2 0 = δ0 / m := by
    have := hode 0 h0T
    rw [hδ0, ← this]; field_simp; ring
  set Cτ := 5 * m * M4 / 12 + b * M3 / 2 with hCτ
  have hCτ0 : 0 ≤ Cτ := by positivity
  set P := |u2 0| * |b * h / 12 - m / 6| + m * M3 * h / 2 + b * M3 * h ^ 2 / 4 with hP
  have hP0 : 0 ≤ P := by positivity
  set e : ℕ → ℝ := fun i =>
    dseq (scalarSys m b k h) (fun j : ℕ => f (j * h)) (u 0) (u1 0) 0 i - u ((i : ℝ) * h) with he
  have hrec : ∀ i, coefA m b k h * e (i + 2)
      = errForce m b k h u u1 f i + coefA1 m k h * e (i + 1) + coefA0 m b k h * e i :=
    fun i => error_rec m b k h u u1 f hApos.ne' i
  have he0 : e 0 = 0 := by simp [he, dseq]
  have he1 : |e 1| ≤ h ^ 2 * (P / m) := by
    have := startup_error_abs_le m b k h M3 u u1 u2 u3 f hm hb hk hh hu hu1 hu2
      (fun s hs => hM3 s ⟨hs.1, le_trans hs.2 hhT⟩) (hode h ⟨hh.le, hhT⟩)
    have e1 : e 1 = dseq (scalarSys m b k h) (fun j : ℕ => f (j * h)) (u 0) (u1 0) 0 1 - u h := by
      simp [he]
    rw [e1]
    calc _ ≤ h ^ 2 / m * P := this
      _ = h ^ 2 * (P / m) := by ring
  -- truncation bound at the grid points used by the first `n` passes
  have htr : ∀ i, i < n → |trunc m b k h u f (((i + 1 : ℕ) : ℝ) * h)| ≤ Cτ * h ^ 2 := by
    intro i hi
    have hi' : (i : ℝ) + 2 ≤ n + 1 := by
      have : i + 2 ≤ n + 1 := by omega
      exact_mod_cast this
    have hlo : (0 : ℝ) ≤ ((i + 1 : ℕ) : ℝ) * h - h := by
      push_cast; nlinarith [Nat.cast_nonneg (α := ℝ) i]
    have hhi : ((i + 1 : ℕ) : ℝ) * h + h ≤ T := by
      push_cast; nlinarith
    have sub : ∀ s ∈ Icc (((i + 1 : ℕ) : ℝ) * h - h) (((i + 1 : ℕ) : ℝ) * h + h), s ∈ Icc 0 T :=
      fun s hs => ⟨le_trans hlo hs.1, le_trans hs.2 hhi⟩
    exact trunc_abs_le m b k h M3 M4 u u1 u2 u3 u4 f _ hm.le hb hh hu hu1 hu2 hu3
      (fun s hs => hM3 s (sub s hs)) (fun s hs => hM4 s (sub s hs)) (fun s hs => hode s (sub s hs))
  have hg0 : 1 ≤ n → |errForce m b k h u u1 f 0| ≤ Cτ * h ^ 2 + |δ0| / 3 := by
    intro h1
    have h2 := htr 0 (by omega)
    have key : errForce m b k h u u1 f 0 = -trunc m b k h u f (((0 + 1 : ℕ) : ℝ) * h) - δ0 / 3 := by
      unfold errForce; rw [if_pos rfl]
    rw [key]
    refine le_trans (abs_sub _ _) ?_
    rw [abs_neg, abs_div, abs_of_pos (by norm_num : (0 : ℝ) < 3)]
    exact add_le_add h2 (le_refl _)
  have hgj : ∀ i, 1 ≤ i → i < n → |errForce m b k h u u1 f i| ≤ Cτ * h ^ 2 := by
    intro i h1 hi
    have hne : i ≠ 0 := by omega
    simp only [errForce, hne, if_false, sub_zero, abs_neg]
    exact htr i hi
  have core := conv_core m b k h T μ ρ (P / m) (Cτ * h ^ 2) (|δ0| / 3) e (errForce m b k h u u1 f) n
    hμ hmμ hb hk hh hρ hρ2 (div_nonneg hP0 hm.le) (mul_nonneg hCτ0 (sq_nonneg h))
    (div_nonneg (abs_nonneg _) (by norm_num)) hnT hrec he0 he1 hg0 hgj
    j (by omega)
  refine le_trans core ?_
  -- bound `P` by its value at `h = T` in the places where `h` is not wanted
  have hP' : P ≤ |δ0| / m * (b * T / 12 + m / 6) + h * (m * M3 / 2 + b * M3 * T / 4) := by
    have h1 : |b * h / 12 - m / 6| ≤ b * T / 12 + m / 6 := by
      have : |b * h / 12 - m / 6| ≤ |b * h / 12| + |m / 6| := abs_sub _ _
      rw [abs_of_nonneg (by positivity : 0 ≤ b * h / 12), abs_of_pos (by positivity : 0 < m / 6)] at this
      have := mul_le_mul_of_nonneg_left hhT hb
      linarith
    have h2 : |u2 0| = |δ0| / m := by rw [ha0, abs_div, abs_of_pos hm]
    have h3 : b * M3 * h ^ 2 / 4 ≤ h * (b * M3 * T / 4) := by
      have h4 : h ^ 2 ≤ h * T := by rw [sq]; exact mul_le_mul_of_nonneg_left hhT hh.le
      have := mul_le_mul_of_nonneg_left h4 (by positivity : 0 ≤ b * M3 / 4)
      linarith
    rw [hP, h2]
    have := mul_le_mul_of_nonneg_left h1 (by positivity : 0 ≤ |δ0| / m)
    linarith
  have hstep : h * (P / m) * ρ
      ≤ h * ((|δ0| / m * (b * T / 12 + m / 6) + h * (m * M3 / 2 + b * M3 * T / 4)) / m) * ρ := by
    apply mul_le_mul_of_nonneg_right _ hρ
    apply mul_le_mul_of_nonneg_left _ hh.le
    exact div_le_div_of_nonneg_right hP' hm.le
  have hTμ : 0 ≤ T / μ := by positivity
  calc T / μ * (h * (P / m) * ρ + (T * (Cτ * h ^ 2) + h * (|δ0| / 3)) / μ)
      ≤ T / μ * (h * ((|δ0| / m * (b * T / 12 + m / 6) + h * (m * M3 / 2 + b * M3 * T / 4)) / m) * ρ
          + (T * (Cτ * h ^ 2) + h * (|δ0| / 3)) / μ) :=
        mul_le_mul_of_nonneg_left (by linarith) hTμ
    _ = convK1 m b k T * |δ0| * h + convK2 m b k T M3 M4 * h ^ 2 := by
        simp only [convK1, convK2, ← hμd, ← hρd, ← hCτ]
        field_simp
        ring

/-- **Second order when the documented start-up is consistent**: if the initial force balances the initial
state, `F(0) = K u₀ + B v₀`, the error is `≤ K₂ h²`. -/
theorem newmark_converges_scalar_second_order (m b k T M3 M4 : ℝ) (hm : 0 < m) (hb : 0 ≤ b) (hk : 0 ≤ k)
    (u u1 u2 u3 u4 f : ℝ → ℝ)
    (hu : ∀ t, HasDerivAt u (u1 t) t) (hu1 : ∀ t, HasDerivAt u1 (u2 t) t)
    (hu2 : ∀ t, HasDerivAt u2 (u3 t) t) (hu3 : ∀ t, HasDerivAt u3 (u4 t) t)
    (hM3 : ∀ t ∈ Icc 0 T, |u3 t| ≤ M3) (hM4 : ∀ t ∈ Icc 0 T, |u4 t| ≤ M4)
    (hode : ∀ t ∈ Icc 0 T, m * u2 t + b * u1 t + k * u t = f t)
    (hbal : f 0 = k * u 0 + b * u1 0)
    (h : ℝ) (n : ℕ) (hh : 0 < h) (hnT : ((n : ℝ) + 1) * h ≤ T) :
    ∃ hist, run (scalarSys m b k h) (fun _ _ => 0) ((List.range (n + 2)).map fun j : ℕ => f ((j : ℝ) * h))
        (u 0) (u1 0) = some hist ∧ hist.d.length = n + 2 ∧
      ∀ j (hj : j < hist.d.length), |hist.d[j] - u ((j : ℝ) * h)| ≤ convK2 m b k T M3 M4 * h ^ 2 := by
  obtain ⟨hist, h1, h2, h3⟩ := newmark_converges_scalar m b k T M3 M4 hm hb hk u u1 u2 u3 u4 f
    hu hu1 hu2 hu3 hM3 hM4 hode h n hh hnT
  refine ⟨hist, h1, h2, fun j hj => ?_⟩
  have := h3 j hj
  rw [hbal, sub_self, abs_zero, mul_zero, zero_mul, zero_add] at this
  exact this

/-! ## non-vacuity -/

/-- the hypotheses of `newmark_converges_scalar_second_order` are inhabited: `u(t) = t` solves
`u'' + u = t` (`m = 1, b = 0, k = 1`), balanced start (`F(0) = 0 = k u(0) + b u'(0)`), `M₃ = M₄ = 0` -/
example : (∀ t : ℝ, HasDerivAt (fun t : ℝ => t) ((fun _ => (1 : ℝ)) t) t) ∧
    (∀ t : ℝ, HasDerivAt (fun _ : ℝ => (1 : ℝ)) ((fun _ => (0 : ℝ)) t) t) ∧
    (∀ t : ℝ, HasDerivAt (fun _ : ℝ => (0 : ℝ)) ((fun _ => (0 : ℝ)) t) t) ∧
    (∀ t ∈ Icc (0 : ℝ) 1, (1 : ℝ) * (fun _ => (0 : ℝ)) t + 0 * (fun _ => (1 : ℝ)) t + 1 * (fun t => t) t
      = (fun t => t) t) ∧
    ((fun t : ℝ => t) 0 = 1 * (fun t : ℝ => t) 0 + 0 * (fun _ : ℝ => (1 : ℝ)) 0) :=
  ⟨fun t => hasDerivAt_id t, fun t => hasDerivAt_const t 1, fun t => hasDerivAt_const t 0,
    fun t _ => by simp, by simp⟩

/-- and of the unbalanced case: `u(t) = t²` solves `u'' + u = 2 + t²` with `F(0) = 2 ≠ 0 = k u(0) + b u'(0)` -/
example : (∀ t : ℝ, HasDerivAt (fun t : ℝ => t ^ 2) ((fun t => 2 * t) t) t) ∧
    (∀ t : ℝ, HasDerivAt (fun t : ℝ => 2 * t) ((fun _ => (2 : ℝ)) t) t) ∧
    ((fun t : ℝ => 2 + t ^ 2) 0 ≠ 1 * (fun t : ℝ => t ^ 2) 0 + 0 * (fun t : ℝ => 2 * t) 0) := by
  refine ⟨fun t => ?_, fun t => ?_, by norm_num⟩
  · simpa using hasDerivAt_pow 2 t
  · simpa using (hasDerivAt_id t).const_mul (2 : ℝ)

end PyYetiVerif.C17
