import PyYetiVerif.Model.FindapLocate
import PyYetiVerif.Model.FindapFix
import PyYetiVerif.Props.C10
/-!
# C10 (continued) — `locate.find_unique`, the helper the default `findap` is built on

`find_duplicates` is modelled (`Findap.findDuplicates`, the sorted-neighbour code, and
`Findap.dupSpec`, the documented meaning) and tied by the exact `fu` / `fdup` streams; that the
two agree is proved in `Props/C10Dups.lean` (`find_duplicates_eq_spec`) and still compared on every run.
-/
set_option linter.unusedVariables false
namespace PyYetiVerif.C10
open PyYetiVerif.Findap

section
variable {α : Type} [Field α] [LinearOrder α] [IsStrictOrderedRing α]

theorem uniqMask_zip (st p : α) (r : List α) :
    uniqMask st p r = (r.zip (p :: r)).map fun q => decide (st < |q.1 - q.2|) := by
  induction r generalizing p with
  | nil => rfl
  | cons x r ih => simp only [uniqMask, List.zip_cons_cons, List.map_cons, absd_eq_abs, ih]

/-- **`find_unique`**: one flag per sample; the first is `True`; sample `k ≥ 1` is flagged iff it
differs from the PREVIOUS sample by STRICTLY more than `stol = |tol · max|diff||` (a step of exactly
`stol` is "the same"; with `tol = 0` exactly the repeated samples are unflagged); fewer than two
samples: `ValueError`. -/
theorem find_unique_spec (tol a b : α) (r : List α) :
    findUnique tol (a :: b :: r) = some (true :: ((b :: r).zip (a :: b :: r)).map fun q =>
      decide (stol tol (a :: b :: r) < |q.1 - q.2|)) ∧
      findUnique tol [a] = none ∧ findUnique tol ([] : List α) = none := by
  refine ⟨?_, rfl, rfl⟩
  simp only [findUnique, uniqMask_zip]

theorem find_unique_length (tol : α) (y : List α) (u : List Bool) (h : findUnique tol y = some u) :
    u.length = y.length ∧ u.head? = some true := by
  match y, h with
  | [], h => simp [findUnique] at h
  | [_], h => simp [findUnique] at h
  | a :: b :: r, h =>
      simp only [findUnique, Option.some.injEq] at h; subst h
      simp [uniqMask_length]

/-- the default `findap` is `find_unique`, replaced by the mask of the sequential scan
(`_unique_kept`) where the vectorised test fails, followed by the slope-sign test on the kept
samples -/
theorem findap_uses_find_unique (tol a b : α) (r : List α) :
    findapDefFix tol (a :: b :: r) =
      (findUnique tol (a :: b :: r)).map fun u =>
        let u' := if fastOK (stol tol (a :: b :: r)) a (b :: r) then u
                  else true :: hystMask (stol tol (a :: b :: r)) a (b :: r)
        expand u' (pvOf (select u' (a :: b :: r))) := by
  simp only [findapDefFix, findapDefFixSt, findUnique, fixMask, Option.map_some]
  split <;> rfl

end

/-- strictness (a seeded change turned `>` into `>=`): `[0, 1, 3]`, `tol = 1/2`: `stol = 1`, the step
`0 → 1` is exactly `stol` and is NOT unique; with `tol = 0` a repeated sample is not unique. -/
theorem find_unique_boundary_example :
    findUnique (1 / 2 : Rat) [0, 1, 3] = some [true, false, true] ∧
      findUnique (0 : Rat) [2, 2, 5, 5] = some [true, false, true, false] ∧
      findUnique (1 : Rat) [3, 4] = some [true, false] := by
  refine ⟨by decide +kernel, by decide +kernel, by decide +kernel⟩

example : dupSpec (0 : Rat) [0, 10, 2, 2, 6, 10, 10] = [false, true, true, true, false, true, true] := by
  decide +kernel

end PyYetiVerif.C10
