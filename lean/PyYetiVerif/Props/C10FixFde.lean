import PyYetiVerif.Model.FdePsdFix
import PyYetiVerif.Props.C10Fde
/-!
# C10 — repair candidate for finding F25 (`fdepsd`, `resp='pvelo'`)

Theorems about the *patched* tail of `fdepsd` (`corpus/c10_F25_candidate_fix.diff`, model
`Fde.psdRowFix`): with `var_test` halved for `pvelo`, the returned tables satisfy the documented
relation `var_test ** (b/2) = di_sig / di_test` for BOTH `resp` settings, `var_test` is the
documented variance `σ² = Q·PSD/(8πf)` (`pvelo`) / `(π/2)·f·Q·PSD` (`absacce`) of the SDOF response
to the damage-based PSD, and nothing else changes.
-/
set_option linter.unusedVariables false
namespace PyYetiVerif.C10
open PyYetiVerif.Fde

/-- **both `resp` settings** (F25 closed): `di_test · var_test ^ (b/2) = di_sig` for the returned
tables of the patched function. -/
theorem test_variance_reproduces_fixed (resp : Resp) (Q f T0 am g2m df4 df8 df12 : ℝ)
    (h : InDomain resp f T0) (h4 : 0 ≤ df4) (h8 : 0 ≤ df8) (h12 : 0 ≤ df12) :
    let p := psdRowFix resp Q f T0 am g2m df4 df8 df12
    p.dto4 * p.v4 ^ 2 = df4 ∧ p.dto8 * p.v8 ^ 4 = df8 ∧ p.dto12 * p.v12 ^ 6 = df12 := by
  intro p
  cases resp with
  | absacce =>
      have hd : 1 < f * T0 := h
      exact test_variance_reproduces Q f T0 am g2m df4 df8 df12 hd h4 h8 h12
  | pvelo =>
      obtain ⟨a, b, c⟩ := test_variance_pvelo_factor Q f T0 am g2m df4 df8 df12 h h4 h8 h12
      have e4 : p.v4 = (psdRow .pvelo Q f T0 am g2m df4 df8 df12).v4 / 2 := by
        show (psdRowFix .pvelo Q f T0 am g2m df4 df8 df12).v4 = _
        simp [psdRowFix]
      have e8 : p.v8 = (psdRow .pvelo Q f T0 am g2m df4 df8 df12).v8 / 2 := by
        show (psdRowFix .pvelo Q f T0 am g2m df4 df8 df12).v8 = _
        simp [psdRowFix]
      have e12 : p.v12 = (psdRow .pvelo Q f T0 am g2m df4 df8 df12).v12 / 2 := by
        show (psdRowFix .pvelo Q f T0 am g2m df4 df8 df12).v12 = _
        simp [psdRowFix]
      have d4 : p.dto4 = (psdRow .pvelo Q f T0 am g2m df4 df8 df12).dto4 := rfl
      have d8 : p.dto8 = (psdRow .pvelo Q f T0 am g2m df4 df8 df12).dto8 := rfl
      have d12 : p.dto12 = (psdRow .pvelo Q f T0 am g2m df4 df8 df12).dto12 := rfl
      rw [e4, e8, e12, d4, d8, d12]
      refine ⟨?_, ?_, ?_⟩
      · have : ∀ x y : ℝ, x * (y / 2) ^ 2 = (x * y ^ 2) / 4 := by intro x y; ring
        rw [this, a]; ring
      · have : ∀ x y : ℝ, x * (y / 2) ^ 4 = (x * y ^ 4) / 16 := by intro x y; ring
        rw [this, b]; ring
      · have : ∀ x y : ℝ, x * (y / 2) ^ 6 = (x * y ^ 6) / 64 := by intro x y; ring
        rw [this, c]; ring

/-- the patched `var_test` is the documented variance of the SDOF response to the damage-based
PSD: `σ²_absacce = (π/2)·f·Q·G_b`, `σ²_pvelo = Q·G_b/(8πf)`. -/
theorem var_test_is_documented_variance (resp : Resp) (Q f T0 am g2m df4 df8 df12 : ℝ)
    (hQ : 0 < Q) (hf : 0 < f) :
    let p := psdRowFix resp Q f T0 am g2m df4 df8 df12
    let k : ℝ := match resp with
      | .absacce => (Real.pi / 2) * f * Q
      | .pvelo => Q / (8 * Real.pi * f)
    p.v4 = k * p.g4 ∧ p.v8 = k * p.g8 ∧ p.v12 = k * p.g12 := by
  intro p k
  have hpi := Real.pi_pos
  cases resp with
  | absacce =>
      simp only [p, k, psdRowFix, psdRow, pi_def]
      push_cast
      refine ⟨?_, ?_, ?_⟩ <;> field_simp
  | pvelo =>
      simp only [p, k, psdRowFix, psdRow, pi_def]
      push_cast
      refine ⟨?_, ?_, ?_⟩ <;> field_simp <;> ring

/-- the patch changes `var_test` for `pvelo` only: every other returned column is the present one -/
theorem fix_F25_changes_var_test_only (resp : Resp) (Q f T0 am g2m df4 df8 df12 : ℝ) :
    let p := psdRowFix resp Q f T0 am g2m df4 df8 df12
    let q := psdRow resp Q f T0 am g2m df4 df8 df12
    p.g1 = q.g1 ∧ p.g2 = q.g2 ∧ p.g4 = q.g4 ∧ p.g8 = q.g8 ∧ p.g12 = q.g12 ∧ p.pk2 = q.pk2 ∧
      p.pk4 = q.pk4 ∧ p.pk8 = q.pk8 ∧ p.pk12 = q.pk12 ∧ p.dto4 = q.dto4 ∧ p.dto8 = q.dto8 ∧
      p.dto12 = q.dto12 ∧ (resp = .absacce → p = q) := by
  cases resp <;> simp [psdRowFix]

example : InDomain .pvelo 10 60 := by simp only [InDomain]; norm_num

end PyYetiVerif.C10
