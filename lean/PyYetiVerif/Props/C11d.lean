import PyYetiVerif.Lemmas.Op2ReadForms
import PyYetiVerif.Lemmas.Op2ReadTabShort
/-!
# C11 (continued) — OUTPUT2 `rdop2record(form, N)`: every form decodes the same bytes

Property theorems only.  `Model/Op2ReadForms.lean` transcribes `rdop2record` for every `form`
(None/'int', 'uint', 'single', 'double', 'bytes'), `N = 0` and `N > 0`, with both value-reading paths on either
side of `_rowsCutoff` (parameter `cut`).  A table record is encoded by the independent encoder of
`Model/Op2.lean` as any number of pieces (logical records) of keys; its payload bytes are
`payload v pieces` = the bytes of all keys, in order.
-/
namespace PyYetiVerif.C11
open PyYetiVerif.Op4 (Endian)
open PyYetiVerif.Op2 PyYetiVerif.Op2R PyYetiVerif.Op2RF

/-- **rdRecord_form_consistent.**  On an encoded table record — any split into pieces, either key width, either
byte order, any cut-off — every numeric form `f` whose item width divides the byte length of every piece
(always true for 'int' / 'uint'; 'single' needs nothing more with 64-bit keys; 'double' in a 32-bit file needs
an even number of keys per piece: otherwise `reclen // bytes_per` drops the odd word and the reader is
misaligned) returns the payload bytes cut into items of `bytes_per` bytes (`reinterp`), the `bytes` form returns
the payload bytes themselves, all leave exactly `rest`; and the integer reading of the key-wide items is the
list of keys the default form returns (`Op2R.rdRecord`, theorem `op2_skip_record`).  So all forms decode the
same byte string, reinterpreted.  (Form 'uint' with 64-bit keys is included at full strength since the repair of
finding F50, pyYeti b194dbc: before it the struct path unpacked signed and raised on a key with its top bit set.) -/
theorem rdRecord_form_consistent (v : V2) (cut : Int) (f : Form) (neg : Int) (hneg : neg < 0) (hnk : InKey v neg)
    (rest : List Nat) (pieces : List (List Int)) (hok : ∀ p ∈ pieces, PieceOk v p)
    (hw : ∀ p ∈ pieces, f.width v ∣ p.length * kb v) :
    rdRecordF v cut f 0 (pieces.flatMap (encPiece v) ++ (K v neg ++ (K v 1 ++ (K v 0 ++ rest))))
        = .ok (some (if f = .bytes then payload v pieces else reinterp v.e (f.width v) (payload v pieces)), rest) ∧
      rdRecord v (pieces.flatMap (encPiece v) ++ (K v neg ++ (K v 1 ++ (K v 0 ++ rest))))
        = .ok (some ((reinterp v.e (kb v) (payload v pieces)).map (asInt (kb v))), rest) := by
  obtain ⟨key, s1, hg, _, hl, hk⟩ := firstKey_pieces v neg hneg hnk (K v 1 ++ (K v 0 ++ rest)) pieces hok
  have hwpos : 0 < f.width v := by
    have := kb_pos v
    cases f <;> simp [Form.width] <;> omega
  constructor
  · unfold rdRecordF
    rw [hg]
    simp only [hk, if_false]
    by_cases hb : f = .bytes
    · subst hb
      have := rdBytesFrom_enc v neg hneg hnk (K v 1 ++ (K v 0 ++ rest)) pieces [] (s1.length + 1) hok (by omega)
      unfold rdBytesFrom at this
      rw [hg] at this
      simp only at this
      simp only [this, List.nil_append, skipKey_K2r, if_true]
    · have := rdPiecesFrom_enc v cut (f.width v) hwpos neg hneg hnk (K v 1 ++ (K v 0 ++ rest)) pieces []
        (s1.length + 1) (fun p hp => ⟨hok p hp, hw p hp⟩) (by omega)
      unfold rdPiecesFrom at this
      rw [hg] at this
      simp only at this
      rw [flatMap_reinterp v (f.width v) hwpos pieces hw] at this
      cases f <;> first | exact absurd rfl hb | simp only [this, List.nil_append, skipKey_K2r, if_true, reduceCtorEq, if_false]
  · rw [rdRecord_enc v neg hneg hnk rest pieces hok]
    congr 3
    have := payload_eq v pieces
    rw [this]
    exact (asInt_reinterp_keys v pieces.flatten (by
      intro x hx
      obtain ⟨p, hp, hxp⟩ := List.mem_flatten.1 hx
      exact (hok p hp).keys x hxp)).symm

/-- **N is only a size hint**: with `N` equal to the number of items of the record, `rdop2record(form, N)`
returns exactly what `rdop2record(form)` returns (the items are written into `np.empty(N)` piece by piece and
fill it).  (With a smaller `N` numpy raises ValueError, or silently drops a final one-item piece; with a larger
`N` the tail of the array is uninitialised memory — `Err.exotic` in the model.) -/
theorem rdRecord_N_irrelevant (v : V2) (cut : Int) (f : Form) (hf : f ≠ .bytes) (neg : Int) (hneg : neg < 0)
    (hnk : InKey v neg) (rest : List Nat) (pieces : List (List Int)) (hok : ∀ p ∈ pieces, PieceOk v p)
    (hw : ∀ p ∈ pieces, f.width v ∣ p.length * kb v) (N : Nat)
    (hN : N = (reinterp v.e (f.width v) (payload v pieces)).length) (hpos : 0 < N) :
    rdRecordF v cut f N (pieces.flatMap (encPiece v) ++ (K v neg ++ (K v 1 ++ (K v 0 ++ rest))))
      = rdRecordF v cut f 0 (pieces.flatMap (encPiece v) ++ (K v neg ++ (K v 1 ++ (K v 0 ++ rest)))) := by
  rw [(rdRecord_form_consistent v cut f neg hneg hnk rest pieces hok hw).1, if_neg hf]
  obtain ⟨key, s1, hg, _, hl, hk⟩ := firstKey_pieces v neg hneg hnk (K v 1 ++ (K v 0 ++ rest)) pieces hok
  have hwpos : 0 < f.width v := by
    have := kb_pos v
    cases f <;> simp [Form.width] <;> omega
  have hfl := flatMap_reinterp v (f.width v) hwpos pieces hw
  have := rdPiecesNFrom_enc v cut (f.width v) hwpos neg hneg hnk (K v 1 ++ (K v 0 ++ rest)) pieces [] N
    (s1.length + 1) (fun p hp => ⟨hok p hp, hw p hp⟩) (by omega) (by rw [hfl]; exact hN)
  unfold rdPiecesNFrom at this
  rw [hg] at this
  simp only [List.nil_append, List.length_nil, Int.natCast_zero, Nat.zero_add] at this
  rw [hfl] at this
  have hN0 : ¬ (N = 0) := by omega
  unfold rdRecordF
  rw [hg]
  cases f <;> first
    | exact absurd rfl hf
    | simp only [hk, if_false, hN0, this, Int.lt_irrefl, skipKey_K2r]

/-- **`rdop2tabheaders` with pieces shorter than three keys: what the code does.**  For every table whose pieces
are non-empty (any lengths, 1 and 2 included), the header scan succeeds, ends exactly behind the table (the
`seek((key - 3) * ibytes, 1)` goes backwards by the bytes read too many) and reports one entry per piece
(`headersGen`); each entry carries the piece's byte length and three integers: the piece's own keys as far as
there are any (`op2_tabheader_prefix`), then the key-sized words that follow in the file — the closing record
marker and the next key record (so a 2-key piece in a 32-bit file reports its byte length 8 as third "key") -/
theorem op2_tabheaders_any_pieces (v : V2) (rest : List Nat) (recs : List (List (List Int))) (hok : TabOk v 0 recs) :
    rdTabHeaders v (encTabRecs v 0 recs ++ (K v 0 ++ rest)) = .ok (headersGen v rest 0 recs, rest) :=
  rdTabHeaders_gen v rest recs hok

theorem op2_tabheader_prefix (v : V2) (p : List Int) (after : List Nat) (hk : ∀ x ∈ p, InKey v x)
    (hav : 3 * kb v ≤ (keys v p ++ after).length) :
    (headGen v p after).1.length = 3 ∧ (headGen v p after).2 = ((p.length * kb v : Nat) : Int) ∧
      (headGen v p after).1.take (min 3 p.length) = p.take 3 :=
  headGen_prefix v p after hk hav

/-! ### non-vacuity: a record of three pieces (3, 2 and 1 keys: the last two shorter than a table header) in a
little-endian 32-bit file read with every form; with `double` only the even pieces would be admissible -/

def exV32 : V2 := ⟨.little, false⟩
def exPieces : List (List Int) := [[1, -2, 3], [4, 5], [-6]]
def exRec : List Nat := exPieces.flatMap (encPiece exV32) ++ (K exV32 (-4) ++ (K exV32 1 ++ (K exV32 0 ++ [7, 7])))

example : (∀ p ∈ exPieces, PieceOk exV32 p) ∧ (∀ p ∈ exPieces, Form.single.width exV32 ∣ p.length * kb exV32) ∧
    ¬ (∀ p ∈ exPieces, Form.double.width exV32 ∣ p.length * kb exV32) := by decide

def okOf {α} : M α → Option α
  | .ok a => some a
  | .error _ => none

def errOf {α} : M α → Option Err
  | .ok _ => none
  | .error e => some e

example : okOf (rdRecordF exV32 3000 .uint 0 exRec) = some (some [1, 4294967294, 3, 4, 5, 4294967290], [7, 7]) ∧
    okOf (rdRecordF exV32 0 .int 6 exRec) = some (some [1, 4294967294, 3, 4, 5, 4294967290], [7, 7]) ∧
    okOf (rdRecord exV32 exRec) = some (some [1, -2, 3, 4, 5, -6], [7, 7]) ∧
    (okOf (rdRecordF exV32 3000 .bytes 0 exRec)).map (fun r => r.1.map List.length) = some (some 24) := by decide +kernel

/-- what `N` does when it is NOT the item count: too small raises (shape mismatch), except that a final
one-item piece is dropped silently (numpy broadcasts one value into the empty slice) -/
example : errOf (rdRecordF exV32 3000 .int 4 exRec) = some .value ∧
    okOf (rdRecordF exV32 3000 .int 5 exRec) = some (some [1, 4294967294, 3, 4, 5], [7, 7]) ∧
    errOf (rdRecordF exV32 3000 .int 7 exRec) = some .exotic := by decide +kernel

/-- the header scan of a table whose single record is `exPieces` (3, 2 and 1 keys): the 2-key piece reports its
closing marker (8) as third key, the 1-key piece its closing marker and the opening marker of the next key record -/
example : okOf (rdTabHeaders exV32 (encTabRecs exV32 0 [exPieces] ++ (K exV32 0 ++ [7, 7])))
    = some ([([1, -2, 3], 12), ([4, 5, 8], 8), ([-6, 4, 4], 4)], [7, 7]) ∧ TabOk exV32 0 [exPieces] := by
  decide +kernel

/-- the input of the repaired finding F50: a 64-bit record holding 5, −1, 7 read with form 'uint' gives
5, 2⁶⁴−1, 7 on BOTH sides of the cut-off -/
example :
    let v : V2 := ⟨.little, true⟩
    let s := [[5, -1, 7]].flatMap (encPiece v) ++ (K v (-4) ++ (K v 1 ++ (K v 0 ++ [])))
    okOf (rdRecordF v 3000 .uint 0 s) = some (some [5, 18446744073709551615, 7], []) ∧
      okOf (rdRecordF v 0 .uint 0 s) = some (some [5, 18446744073709551615, 7], []) := by
  decide +kernel

end PyYetiVerif.C11
