import PyYetiVerif.Props.C18Assoc
/-!
C18: the matrices `n2p.formtran` returns are rectangular arrays (`Uset.Rect`), hence so are the levels of
`n2p.formulvs`, and `formulvs_path_composes` holds for well-formed dictionaries (`WF`: the stored `phg` / `pha`
matrices are rectangular - a decidable predicate on the INPUT) without a hypothesis on formtran's output.
-/
set_option linter.constructorNameAsVariable false
set_option linter.unusedSectionVars false
set_option linter.unusedVariables false
namespace PyYetiVerif.C18
open PyYetiVerif.Uset PyYetiVerif.Locate

section shapes
variable {κ : Type} [DecidableEq κ] [LT κ] [DecidableLT κ] [LE κ] [DecidableLE κ] (mkKey : Nat → Nat → κ)
variable {α : Type} [Semiring α] [DecidableEq α]

/-- well-formedness of the dictionary, as far as the shapes of `formtran` need it: the stored residual matrices
`phg` / `pha` are rectangular arrays (the matrices of the upstream SEs - got, goq, gm - need no hypothesis: their
rows are scattered into zero rows of the declared width, a row of another length is a `ValueError`) -/
def WF (d : NasT α) : Prop := (∀ p ∈ d.phg, Rect p.2) ∧ (∀ p ∈ d.pha, Rect p.2)

instance (d : NasT α) : Decidable (WF d) := by unfold WF; infer_instance

/-- `WF` is the test `wfB` the driver runs on every generated dictionary -/
theorem WF_iff_wfB (d : NasT α) : WF d ↔ wfB d = true := by
  simp only [WF, wfB, Bool.and_eq_true, List.all_eq_true, rectB_iff]

theorem takeIdx_mem {β : Type} {x : List β} {idx : List Nat} {l : List β} (h : takeIdx x idx = .ok l) :
    ∀ y ∈ l, y ∈ x := by
  intro y hy
  obtain ⟨k, hk⟩ := List.getElem?_of_mem hy
  obtain ⟨i, _, hx⟩ := forall₂_getElem?' (takeIdx_ok h) k y hk
  exact List.mem_of_getElem? hx

theorem scatterRows_rowlen {w : Nat} {cols : List Nat} {block out : List (List α)}
    (h : scatterRows w cols block = .ok out) : ∀ r ∈ out, r.length = w := by
  intro r hr
  obtain ⟨k, hk⟩ := List.getElem?_of_mem hr
  obtain ⟨v, _, hset⟩ := forall₂_getElem?' (scatterRows_ok h) k r hk
  rw [setCols_length hset, zeroRow_length]

theorem eyeBlock_rowlen {w n : Nat} {cols pv : List Nat} {rows : List (List α)}
    (h : eyeBlock (α := α) w n cols pv = .ok rows) : ∀ r ∈ rows, r.length = w := by
  unfold eyeBlock at h
  obtain ⟨e, _, h⟩ := bind_ok h
  exact scatterRows_rowlen h

theorem oBlock_rowlen {w : Nat} {gotM goqM : M α} {t_a q_a pvdofo : List Nat} {rows : List (List α)}
    (h : oBlock w gotM goqM t_a q_a pvdofo = .ok rows) : ∀ r ∈ rows, r.length = w := by
  unfold oBlock at h
  obtain ⟨gotO, _, h⟩ := bind_ok h
  obtain ⟨rows0, hr0, h⟩ := bind_ok h
  have h0 := scatterRows_rowlen hr0
  split at h
  · obtain ⟨goqO, _, h⟩ := bind_ok h
    split at h
    · cases h
    · exact mapM_setCols_zip_rowlen h h0
  · simp only [pure, Except.pure, Except.ok.injEq] at h
    subst h; exact h0

theorem upBlocks_rowlen {x : UpSel α} {t_a q_a : List Nat} {rows : List (List α)}
    (h : upBlocks x t_a q_a = .ok rows) : ∀ r ∈ rows, r.length = x.gotM.c + x.goqM.c := by
  unfold upBlocks at h
  obtain ⟨tRows, ht, h⟩ := bind_ok h
  obtain ⟨oRows, ho, h⟩ := bind_ok h
  obtain ⟨mRows, hm, h⟩ := bind_ok h
  obtain ⟨qRows, hq, h⟩ := bind_ok h
  simp only [Except.ok.injEq] at h
  subst h
  intro r hr
  simp only [List.mem_append, List.mem_map] at hr
  rcases hr with (((hr | hr) | hr) | hr) | ⟨_, _, rfl⟩
  · exact eyeBlock_rowlen ht r hr
  · exact oBlock_rowlen ho r hr
  · cases hpm : x.pm with
    | none =>
        rw [hpm] at hm
        simp only [pure, Except.pure, Except.ok.injEq] at hm
        subst hm; cases hr
    | some y => rw [hpm] at hm; exact mBlock_row_length hm r hr
  · exact eyeBlock_rowlen hq r hr
  · exact zeroRow_length _

theorem reorder_rect {iddof : List κ} {sets : List Nat} {dof : List κ} {npv : Nat} {rows : List (List α)}
    {w : Nat} {out : M α} (h : reorder iddof sets dof npv rows w = .ok out) (hr : ∀ r ∈ rows, r.length = w) :
    Rect out := by
  unfold reorder at h
  obtain ⟨fulldof, _, h⟩ := bind_ok h
  simp only at h
  split at h
  · cases h
  · obtain ⟨o, ho, h⟩ := bind_ok h
    simp only [Except.ok.injEq] at h
    subst h
    intro r hrm
    rcases List.mem_append.mp (takeIdx_mem ho r hrm) with h1 | h1
    · exact hr r h1
    · rw [List.eq_of_mem_replicate h1]; exact zeroRow_length _

/-- `formtran` for `se != 0` returns a rectangular array - whatever got / goq / gm hold -/
theorem formtranUpWith_rect {idd : Except TErr (List κ)} {mk : Masks} {tbl : List Row} {got goq gm : Option (M α)}
    {req : Request} {t : M α} {od : List (Nat × Nat)}
    (h : formtranUpWith mkKey idd mk tbl got goq gm req = .ok (t, od)) : Rect t := by
  unfold formtranUpWith at h
  obtain ⟨pd, _, h⟩ := bind_ok h
  obtain ⟨pvdof, dof⟩ := pd
  simp only at h
  obtain ⟨t_a, _, h⟩ := bind_ok h
  obtain ⟨q_a, _, h⟩ := bind_ok h
  obtain ⟨a, _, h⟩ := bind_ok h
  split at h
  · obtain ⟨pa, _, h⟩ := bind_ok h
    obtain ⟨pvdofa, _⟩ := pa
    simp only at h
    obtain ⟨rows, hrows, h⟩ := bind_ok h
    simp only [Except.ok.injEq, Prod.mk.injEq] at h
    obtain ⟨rfl, _⟩ := h
    intro r hr
    obtain ⟨k, _, rfl⟩ := List.mem_map.mp (takeIdx_mem hrows r hr)
    exact unitRow_length _ _
  · obtain ⟨x, _, h⟩ := bind_ok h
    obtain ⟨iddof, _, h⟩ := bind_ok h
    obtain ⟨rows, hrows, h⟩ := bind_ok h
    obtain ⟨out, hout, h⟩ := bind_ok h
    simp only [Except.ok.injEq, Prod.mk.injEq] at h
    obtain ⟨rfl, _⟩ := h
    exact reorder_rect hout (upBlocks_rowlen hrows)

theorem rowsAt_rect {A B : M α} {idx : List Nat} (hA : Rect A) (h : rowsAt A idx = .ok B) : Rect B := by
  unfold rowsAt at h
  obtain ⟨l, hl, h⟩ := bind_ok h
  simp only [Except.ok.injEq] at h
  subst h
  intro r hr
  exact hA r (takeIdx_mem hl r hr)

/-- `_formtran_0` returns a rectangular array when the stored `phg` / `pha` is one -/
theorem formtran0With_rect {idd : Except TErr (List κ)} {mk : Masks} {tbl : List Row} {phg pha gm : Option (M α)}
    {req : Request} {gset : Bool} {t : M α} {od : List (Nat × Nat)}
    (hphg : ∀ ph, phg = some ph → Rect ph) (hpha : ∀ pa, pha = some pa → Rect pa)
    (h : formtran0With mkKey idd mk tbl phg pha gm req gset = .ok (t, od)) : Rect t := by
  unfold formtran0With at h
  obtain ⟨pd, _, h⟩ := bind_ok h
  obtain ⟨pvdof, dof⟩ := pd
  simp only at h
  split at h
  · obtain ⟨ng, _, h⟩ := bind_ok h
    split at h
    · cases h
    · simp only [Except.ok.injEq, Prod.mk.injEq] at h
      obtain ⟨rfl, _⟩ := h
      intro r hr
      obtain ⟨c, _, rfl⟩ := List.mem_map.mp hr
      exact unitRow_length _ _
  · cases phg with
    | some ph =>
        simp only at h
        obtain ⟨r, hr, h⟩ := bind_ok h
        simp only [Except.ok.injEq, Prod.mk.injEq] at h
        obtain ⟨rfl, _⟩ := h
        exact rowsAt_rect (hphg ph rfl) hr
    | none =>
        cases pha with
        | none => cases h
        | some pa =>
            have hpa := hpha pa rfl
            simp only at h
            obtain ⟨o, _, h⟩ := bind_ok h
            obtain ⟨iddof, _, h⟩ := bind_ok h
            obtain ⟨vo, _, h⟩ := bind_ok h
            split at h
            · cases h
            · obtain ⟨a, _, h⟩ := bind_ok h
              obtain ⟨pvdofa, _, h⟩ := bind_ok h
              obtain ⟨a', _, h⟩ := bind_ok h
              obtain ⟨pm, _, h⟩ := bind_ok h
              obtain ⟨u, _, h⟩ := bind_ok h
              obtain ⟨s, _, h⟩ := bind_ok h
              obtain ⟨pvdofs, _, h⟩ := bind_ok h
              obtain ⟨s', _, h⟩ := bind_ok h
              obtain ⟨aRows, haRows, h⟩ := bind_ok h
              obtain ⟨mRows, hmRows, h⟩ := bind_ok h
              obtain ⟨out, hout, h⟩ := bind_ok h
              simp only [Except.ok.injEq, Prod.mk.injEq] at h
              obtain ⟨rfl, _⟩ := h
              refine reorder_rect hout ?_
              intro r hr
              simp only [List.mem_append, List.mem_map] at hr
              rcases hr with (hr | hr) | ⟨_, _, rfl⟩
              · have := rowsAt_rect hpa haRows r hr
                rw [this, (rowsAt_ok haRows).1]
              · cases pm with
                | none =>
                    simp only [pure, Except.pure, Except.ok.injEq] at hmRows
                    subst hmRows; cases hr
                | some x =>
                    simp only at hmRows
                    obtain ⟨a_n, _, hmRows⟩ := bind_ok hmRows
                    obtain ⟨gma, _, hmRows⟩ := bind_ok hmRows
                    obtain ⟨p, hp, hmRows⟩ := bind_ok hmRows
                    simp only [pure, Except.pure, Except.ok.injEq] at hmRows
                    subst hmRows
                    rw [dot_rect hpa hp r hr, (dot_eq hp).2]
              · exact zeroRow_length _

/-- **`formtran` returns a rectangular array**: every row of the matrix has the declared number of columns, for a
dictionary whose stored `phg` / `pha` are rectangular (`WF`) -/
theorem formtran_rect (mk : Masks) (d : NasT α) (hd : WF d) (se : Nat) (req : Request) (gset : Bool) (t : M α)
    (od : List (Nat × Nat)) (h : formtran mkKey mk d se req gset = .ok (t, od)) : Rect t := by
  unfold formtran at h
  obtain ⟨tbl, _, h⟩ := bind_ok h
  simp only at h
  have opt : ∀ (l : List (Nat × M α)), (∀ p ∈ l, Rect p.2) →
      ∀ m, (l.find? (fun p => p.1 = se)).map (·.2) = some m → Rect m := by
    intro l hl m hm
    obtain ⟨p, hp, rfl⟩ := Option.map_eq_some_iff.mp hm
    exact hl p (List.mem_of_find?_eq_some hp)
  split at h
  · exact formtran0With_rect mkKey (opt d.phg hd.1) (opt d.pha hd.2) h
  · exact formtranUpWith_rect mkKey h

theorem maskSel_mem {β : Type} {x : List β} {mask : List Bool} {l : List β} (h : maskSel x mask = .ok l) :
    ∀ y ∈ l, y ∈ x := by
  unfold maskSel at h
  split at h
  · cases h
  · simp only [Except.ok.injEq] at h
    subst h
    intro y hy
    obtain ⟨p, hp, rfl⟩ := List.mem_map.mp hy
    exact (List.of_mem_zip (List.mem_filter.mp hp).1).1

/-- **every level of `formulvs` is a rectangular array** (for any keepcset / gset) -/
theorem ulvsLevel_rect (mk : Masks) (d : NasT α) (hd : WF d) (seup sedown : Nat) (kc gset : Bool) (L : M α)
    (h : ulvsLevel mkKey mk d seup sedown kc gset = .ok L) : Rect L := by
  unfold ulvsLevel at h
  obtain ⟨usetup, _, h⟩ := bind_ok h
  obtain ⟨usetdn, _, h⟩ := bind_ok h
  obtain ⟨tqup, _, h⟩ := bind_ok h
  obtain ⟨rows, _, h⟩ := bind_ok h
  simp only at h
  obtain ⟨tp, htp, h⟩ := bind_ok h
  obtain ⟨u1, od⟩ := tp
  have hu1 := formtran_rect mkKey mk d hd _ _ _ _ _ htp
  simp only at h
  split at h
  · simp only [Except.ok.injEq] at h
    subst h; exact hu1
  · obtain ⟨cup, _, h⟩ := bind_ok h
    split at h
    · obtain ⟨cdn, _, h⟩ := bind_ok h
      obtain ⟨r1, _, h⟩ := bind_ok h
      split at h
      · cases h
      · obtain ⟨r2, hr2, h⟩ := bind_ok h
        simp only [Except.ok.injEq] at h
        subst h
        intro r hr
        obtain ⟨k, hk⟩ := List.getElem?_of_mem hr
        obtain ⟨row, _, hrow⟩ := forall₂_getElem?' (mapM_except _ _ _ hr2) k r hk
        exact (takeIdx_ok hrow).length_eq.symm
    · obtain ⟨r1, hr1, h⟩ := bind_ok h
      simp only [Except.ok.injEq] at h
      subst h
      intro r hr
      exact hu1 r (maskSel_mem (liftE_ok' hr1) r hr)

/-- **`formulvs_path_composes` for well-formed dictionaries**: no hypothesis on the matrices `formtran` returns -
`ULVS(a → c) = ULVS(a → b) · ULVS(b → c)` for an SE `b` strictly between on the tree path, when the stored
`phg` / `pha` are rectangular arrays (`WF`, decidable, about the input) -/
theorem formulvs_path_composes_wf (mk : Masks) (d : NasT α) (hd : WF d) (a b c : Nat) (kc gset : Bool)
    (uab ubc uac : Ulvs α)
    (hab : formulvs mkKey mk d none a b kc false gset = .ok uab)
    (hbc : formulvs mkKey mk d none b c kc false gset = .ok ubc)
    (hac : formulvs mkKey mk d none a c kc false gset = .ok uac)
    (hab_ne : a ≠ b) (hbc_ne : b ≠ c) (hac_ne : a ≠ c)
    (ha : ¬ Downstream d.nas.selist a a) (hb : ¬ Downstream d.nas.selist b b)
    (hpath : ∀ sd p₁, Downstream d.nas.selist a sd →
      ulvsPath d.nas.selist b (d.nas.selist.length + 1) a sd = some p₁ → ∀ e ∈ p₁, e.2 ≠ c) :
    mulU uab ubc = .ok uac := by
  refine formulvs_path_composes_rect mkKey mk d a b c kc gset uab ubc uac hab hbc hac hab_ne hbc_ne hac_ne ha hb
    hpath ?_
  intro sd p levels _ _ hl L hL
  obtain ⟨k, hk⟩ := List.getElem?_of_mem hL
  obtain ⟨e, _, he⟩ := forall₂_getElem?' hl k L hk
  exact ulvsLevel_rect mkKey mk d hd e.1 e.2 kc gset L he

end shapes

/-! ## non-vacuity: the tree SE 20 → SE 10 → residual of `Props/C18Assoc.lean` -/
section examples

example : WF exNasT3 := by decide

/-- `formulvs_path_composes_wf` on that tree, every hypothesis discharged -/
example : mulU (.mat (⟨[[0, 1]], 2⟩ : M Int)) (.mat ⟨[[2], [5]], 1⟩) = .ok (.mat ⟨[[5]], 1⟩) :=
  formulvs_path_composes_wf exKey2 exMasks2 exNasT3 (by decide) 20 10 0 true false _ _ _ ex3_ab ex3_bc ex3_ac
    (by decide) (by decide) (by decide)
    (by
      rintro ⟨r, row, hf, hr, h⟩
      simp [findse, positions, exNasT3] at hf
      subst hf
      simp [exNasT3] at hr
      subst hr
      simp at h)
    (by
      rintro ⟨r, row, hf, hr, h⟩
      simp [findse, positions, exNasT3] at hf
      subst hf
      simp [exNasT3] at hr
      subst hr
      simp at h)
    (by
      intro sd p₁ hsd hp e he
      have := Downstream_unique hsd ex3_down
      subst this
      simp [ulvsPath, exNasT3] at hp
      subst hp
      simp at he
      subst he
      decide)

/-- the levels of that tree are rectangular (`ulvsLevel_rect`), and `formtran` of the residual returns a 2 x 1 array -/
example : Rect (⟨[[0, 1]], 2⟩ : M Int) ∧ Rect (⟨[[2], [5]], 1⟩ : M Int) :=
  ⟨ulvsLevel_rect exKey2 exMasks2 exNasT3 (by decide) 20 10 true false _ ex3_l1,
   ulvsLevel_rect exKey2 exMasks2 exNasT3 (by decide) 10 0 true false _ ex3_l2⟩

end examples
end PyYetiVerif.C18
