import PyYetiVerif.Props.C16
import PyYetiVerif.Lemmas.ExtremaPipe
/-!
# C16 — frequency-response recovery, merging of results, recomputed extremes

Property theorems only; continues `Props/C16.lean`.  Models: `Model/Extrema.lean` (`frfRow`,
`timeRow`, `storeCases`), `Model/ExtremaMerge.lean` (`mergeEvents`, `calcExtRow`).
-/
namespace PyYetiVerif.C16
open PyYetiVerif.Extrema

section frf
variable {α X L : Type} [AddCommGroup α] [LinearOrder α] [IsOrderedAddMonoid α]

/-- ★ `frf_data_recovery` of one row over ANY non-empty list of load cases, fed with the magnitudes
`|resp|`: the maximum column IS the time pipeline's maximum column on `|resp|` — hence the first-best
over all frequencies of all cases, with the case as label and the frequency as abscissa —, the
minimum column is the negated maximum with the same abscissa and the same label, and so is every
per-case record. -/
theorem frf_recovery_is_abs_extreme (c : L × List (Option α) × List X)
    (cs : List (L × List (Option α) × List X)) (cur : Option (Cur α X L))
    (per : List (Tr α X Nat × Tr α X Nat)) (h : frfRow (c :: cs) = some (cur, per)) :
    ∃ r, cur = some r ∧ FirstBest id ((c :: cs).flatMap samples) r.hi ∧ r.lo = negTr r.hi ∧
      ∃ curT perT, timeRow (c :: cs) = some (curT, perT) ∧ curT.map (·.hi) = some r.hi ∧
        per = perT.map fun p => (p.1, negTr p.1) := by
  rw [frfRow_eq_mirror] at h
  rcases ht : timeRow (c :: cs) with _ | ⟨curT, perT⟩
  · simp [ht] at h
  · simp only [ht, Option.map_some, mirror, Option.some.injEq, Prod.mk.injEq] at h
    obtain ⟨hc, hp⟩ := h
    obtain ⟨r, hr, hbest, -⟩ := time_recovery_is_global_extreme c cs curT perT ht
    subst hr
    exact ⟨⟨r.hi, negTr r.hi⟩, by simpa using hc.symm, hbest, rfl, _, _, rfl, rfl, hp.symm⟩

end frf

section onepass
variable {α X L : Type} [LinearOrder α]

/-- ★ merging results of DISJOINT CASE SETS and forming the envelope equals ONE PASS: if the cases
are split into consecutive non-empty groups, each group is recovered on its own (`timeRow`, giving
`parts`) and `extrema` is then run over the groups' extreme tables (what `merge` + `form_extreme`
do, labels passed through), the result — value, abscissa AND label — is the running extreme of
recovering all the cases in one event. -/
theorem merge_of_disjoint_case_sets_is_one_pass
    (g : (L × List (Option α) × List X) × List (L × List (Option α) × List X))
    (gs : List ((L × List (Option α) × List X) × List (L × List (Option α) × List X)))
    (parts : List (Cur α X L))
    (hparts : ((g :: gs).map fun g => (timeRow (g.1 :: g.2)).map (·.1)) = parts.map fun p => some (some p)) :
    ∃ p ps, parts = p :: ps ∧
      (timeRow (g.1 :: (g.2 ++ gs.flatMap fun g => g.1 :: g.2))).map (·.1)
        = some (run2 ((p.hi, p.lo) :: ps.map fun c => (c.hi, c.lo))) := by
  -- every group's per-case `mm`s exist and are non-empty
  have hgrp : ∀ g' ∈ g :: gs, ∀ p, (timeRow (g'.1 :: g'.2)).map (·.1) = some (some p) →
      ∃ m ms, mmsOf (g'.1 :: g'.2) = some (m :: ms) ∧ run2 (m :: ms) = some p := by
    intro g' _ p hp
    rw [timeRow_fst] at hp
    rcases hm : mmsOf (g'.1 :: g'.2) with _ | ms
    · simp [hm] at hp
    · have hl := mmsOf_length _ _ hm
      rcases ms with _ | ⟨m, ms⟩
      · simp at hl
      · exact ⟨m, ms, rfl, by simpa [hm] using hp⟩
  -- collect them
  have hall : ∀ (gl : List ((L × List (Option α) × List X) × List (L × List (Option α) × List X)))
      (pl : List (Cur α X L)), (∀ g' ∈ gl, g' ∈ g :: gs) →
      (gl.map fun g => (timeRow (g.1 :: g.2)).map (·.1)) = pl.map (fun p => some (some p)) →
      ∃ mg : List ((Tr α X L × Tr α X L) × List (Tr α X L × Tr α X L)),
        mmsOf (gl.flatMap fun g => g.1 :: g.2) = some (mg.flatMap fun m => m.1 :: m.2) ∧
        (mg.map fun m => run2 (m.1 :: m.2)) = pl.map some ∧ mg.length = gl.length := by
    intro gl
    induction gl with
    | nil =>
      intro pl _ h
      rcases pl with _ | _
      · exact ⟨[], rfl, rfl, rfl⟩
      · simp at h
    | cons g' gl ih =>
      intro pl hsub h
      rcases pl with _ | ⟨p, pl⟩
      · simp at h
      · simp only [List.map_cons, List.cons.injEq] at h
        obtain ⟨m, ms, hm, hr⟩ := hgrp g' (hsub g' (List.mem_cons_self ..)) p h.1
        obtain ⟨mg, hmg, hrs, hlen⟩ := ih pl (fun x hx => hsub x (List.mem_cons_of_mem _ hx)) h.2
        refine ⟨(m, ms) :: mg, ?_, by simp [hr, hrs], by simp [hlen]⟩
        rw [List.flatMap_cons, mmsOf_append, hm, hmg]
        simp
  obtain ⟨mg, hmg, hrs, hlen⟩ := hall (g :: gs) parts (fun _ h => h) hparts
  rcases mg with _ | ⟨m0, mg⟩
  · simp at hlen
  · obtain ⟨p, ps, hpp, henv⟩ := envelope_of_parts m0 mg parts hrs
    refine ⟨p, ps, hpp, ?_⟩
    rw [timeRow_fst]
    have : g.1 :: (g.2 ++ gs.flatMap fun g => g.1 :: g.2) = (g :: gs).flatMap fun g => g.1 :: g.2 := by
      simp
    rw [this, hmg, henv]
    simp

end onepass

section dup
variable {L : Type} [DecidableEq L]

/-- ★ `DR_Results.merge` refuses duplicate event names and nothing else: starting from distinct
keys it succeeds exactly when all names (after `rename_dict`) are distinct from the keys and from
each other, and then the keys are the old ones followed by the new ones in iteration order. -/
theorem merge_refuses_duplicates (rename : L → L) (existing incoming r : List L)
    (hex : existing.Nodup) :
    mergeEvents rename existing incoming = some r ↔
      (existing ++ incoming.map rename).Nodup ∧ r = existing ++ incoming.map rename :=
  mergeEvents_iff rename existing incoming r hex

/-- ★ `_store_maxmin` refuses duplicate case names: if a sequence of stores with distinct case
numbers below `n` went through, the case names were distinct. -/
theorem store_refuses_duplicates (n : Nat) (ws : List (Nat × L)) (cs : List (Option L))
    (hjs : (ws.map (·.1)).Nodup) (hlt : ∀ w ∈ ws, w.1 < n) (h : storeCases n ws = some cs) :
    (ws.map (·.2)).Nodup := by
  have := storeCases_labels ws (List.replicate n none) cs [] hjs (by simpa using hlt)
    (fun w hw => by simp [hlt w hw]) (fun l => by simp) List.nodup_nil h
  simpa using this

end dup

section calcext
variable {α L : Type} [LinearOrder α]

/-- ★ `calc_ext` agrees with the tracked extremes: on NaN-free per-case columns (what the recovery
routines store) the recomputed maximum / minimum is the first-best over the cases in case-number
order, labelled with that case. -/
theorem calc_ext_is_fold_max (mx mn : List α) (cases : List L) (c : Cur α Unit L)
    (h : calcExtRow (mx.map some) (mn.map some) cases = some c) :
    FirstBest id (((mx.map some).zip cases).map fun p => ⟨p.1, (), p.2⟩) c.hi ∧
    FirstBest OrderDual.toDual (((mn.map some).zip cases).map fun p => ⟨p.1, (), p.2⟩) c.lo := by
  unfold calcExtRow at h
  have hsome : ∀ (l : List α) (u : Tr α Unit L),
      u ∈ ((l.map some).zip cases).map (fun p => (⟨p.1, (), p.2⟩ : Tr α Unit L)) → u.v.isSome := by
    intro l u hu
    simp only [List.mem_map] at hu
    obtain ⟨p, hp, rfl⟩ := hu
    have := (List.of_mem_zip hp).1
    simp only [List.mem_map] at this
    obtain ⟨a, -, ha⟩ := this
    simp [← ha]
  rcases hh : ((mx.map some).zip cases).map (fun p => (⟨p.1, (), p.2⟩ : Tr α Unit L)) with _ | ⟨t, ts⟩
  · simp [hh, calcBest] at h
  rcases hl : ((mn.map some).zip cases).map (fun p => (⟨p.1, (), p.2⟩ : Tr α Unit L)) with _ | ⟨t', ts'⟩
  · simp [hl, calcBest] at h
  rw [hh, hl, calcBest_eq_runTr gtB t ts (by rw [← hh]; exact hsome mx),
    calcBest_eq_runTr ltB t' ts' (by rw [← hl]; exact hsome mn)] at h
  cases h
  constructor
  · rw [hh]
    exact runTr_firstBest keyOrder_gt _ _
  · rw [hl]
    exact runTr_firstBest keyOrder_lt _ _

end calcext

section stat
variable {α : Type} [Field α] [CharZero α]

/-- `calc_stat_ext` sanity (the definition `mean ± k·std(ddof=1)` is the model itself): with `k = 0`
the statistical extreme is the mean of the per-case columns, and when every case has the same
maximum `c` and the same minimum `d` it is `(c, d)` for every `k` (zero spread). -/
theorem stat_ext_sanity (sqrt : α → α) (h0 : sqrt 0 = 0) (k : α) (mx mn : List α) (n : Nat)
    (hn : n ≠ 0) (c d : α) :
    statExtRow sqrt 0 mx mn = (mean mx, mean mn) ∧
    statExtRow sqrt k (List.replicate n c) (List.replicate n d) = (c, d) := by
  constructor
  · simp [statExtRow]
  · have hz : ∀ e : α, std1 sqrt (List.replicate n e) = 0 := by
      intro e
      simp [std1, mean_replicate n hn, List.sum_replicate, h0]
    simp [statExtRow, mean_replicate n hn, hz]

end stat

/-! ### non-vacuity -/

/-- `frf_recovery_is_abs_extreme`: two cases with a tie accepted by the pipeline -/
example : ∃ cur per, frfRow [("A", [some (1 : Int), some 3], [(0 : Nat), 1]),
    ("B", [some 3, some 2], [0, 1])] = some (cur, per) := ⟨_, _, rfl⟩

/-- `merge_of_disjoint_case_sets_is_one_pass`: two groups (two cases and one) whose recoveries
succeed -/
example : ∃ parts : List (Cur Int Nat String),
    ([((("A", [some (1 : Int), none], [(0 : Nat), 1]), [("B", [some 3, some 0], [0, 1])]) :
        (String × List (Option Int) × List Nat) × List (String × List (Option Int) × List Nat)),
      (("C", [some 3, some (-1)], [0, 1]), [])].map fun g => (timeRow (g.1 :: g.2)).map (·.1))
      = parts.map fun p => some (some p) :=
  ⟨[⟨⟨some 3, 0, "B"⟩, ⟨some 0, 1, "B"⟩⟩, ⟨⟨some 3, 0, "C"⟩, ⟨some (-1), 1, "C"⟩⟩], by decide⟩

/-- `merge_refuses_duplicates`: both outcomes occur -/
example : mergeEvents id ["LO"] ["MECO", "SEP"] = some ["LO", "MECO", "SEP"] ∧
    mergeEvents id ["LO"] ["MECO", "LO"] = none := by decide

/-- `store_refuses_duplicates`: a permuted store that goes through, and a refused one -/
example : storeCases 3 [(2, "c"), (0, "a"), (1, "b")] = some [some "a", some "b", some "c"] ∧
    storeCases 3 [(2, "c"), (0, "c")] = none := by decide

/-- `calc_ext_is_fold_max`: a row with a tie -/
example : calcExtRow ([3, 1, 3].map some) ([0, -2, -2].map some) ["a", "b", "c"]
    = some (⟨⟨some (3 : Int), (), "a"⟩, ⟨some (-2), (), "b"⟩⟩ : Cur Int Unit String) := by decide

end PyYetiVerif.C16
