import PyYetiVerif.Lemmas.BulkDmigText
/-!
# C13 — `rddmig (wtdmig X) = X` on the model

Property theorems only (helper lemmas: `Lemmas/BulkDmig.lean`).  `Dmig` is the writer's input (name,
row / column (id, dof) labels, integer-valued real or complex terms), `Dmig.written enc` the card
values `rdcards` returns for the written cards — header card, one `DMIG*` card per non-null column
with its `*` lines, padded line by line exactly as `_rdfixed` pads them — where `enc v` stands for
what `nas_sscanf` makes of the written `{:16.9E}` field of `v` (single-field codec: C12).
`dmigOne` is the model of `rddmig._cards_to_df`, `DmigRead.cell` / `DmigRead.frame` the values of
the DataFrame it returns.  The exact-text stream `wtdmig` and the reader stream `rddmig` (frames
compared cell by cell) tie both to pyyeti/nastran/bulk.py.
-/
namespace PyYetiVerif.C13
open PyYetiVerif.Bulk

/-- converse of `dmig_roundtrip`: the reader performs no assignment other than a true non-zero
term of the frame (the mirror assignments of form 6 are the true terms of the upper triangle). -/
theorem dmig_roundtrip_converse (d : Dmig) (hshape : d.m.length = d.rowids.length) (rl cl v : Int × Int)
    (h : (rl, cl, v) ∈ d.readBack) :
    v ≠ (0, 0) ∧ ∃ i j, j < d.colids.length ∧ d.rowids[i]? = some rl ∧ d.colLabel j = cl ∧ d.At i j v :=
  readBack_true_term d hshape rl cl v h

/-- both directions: the assignments are exactly the non-zero terms, forms 1/2/6/9 -/
theorem dmig_assignments_iff (d : Dmig) (hshape : d.m.length = d.rowids.length) (rl cl v : Int × Int) :
    (rl, cl, v) ∈ d.readBack ↔
      v ≠ (0, 0) ∧ ∃ i j, j < d.colids.length ∧ d.rowids[i]? = some rl ∧ d.colLabel j = cl ∧ d.At i j v := by
  refine ⟨readBack_true_term d hshape rl cl v, ?_⟩
  rintro ⟨hv, i, j, hj, hr, rfl, hat⟩
  exact readBack_complete d hshape i j rl v hj hr hat hv

/-- the reader applied to the written cards (`c[4::4]`, `c[5::4]`, `c[6::4]`, `c[7::4]` over the
line-padded card, real types with three fields per line and complex types with four): it finds the
column labels and row entries of `wtdmig`, and its assignment list is `Dmig.readBack` value by value. -/
theorem dmig_reader_on_written (enc : Int → Val) (d : Dmig) (nm : Txt) :
    dmigOne d.headerVals nm (d.written enc) = some (d.readFrame enc nm) ∧
      (d.readFrame enc nm).assign = d.readBack.map (d.encE enc) :=
  ⟨dmigOne_written enc d nm, readFrame_assign enc d nm⟩

/-- `rddmig (wtdmig X) = X`, one statement: for a well-shaped frame with duplicate-free row labels
and duplicate-free column labels, any form (1/2/6/9) and type (1–4), the reader returns a frame whose
 * row / column index is sorted by `10·id + dof`, duplicate-free, and consists exactly of the labels
   of the rows / columns that hold a non-zero term (null rows and columns are not written; form 6:
   the common union index),
 * cell at (label of row `i`, label of column `j`) is the term `m[i][j]` — `(enc re, enc im)` with
   the imaginary part 0 for the real types, `(0, 0)` for a zero term — including the upper triangle
   of a form-6 matrix, which is only present through the reader's mirror assignment;
and no non-zero term is lost (its labels are in the index). -/
theorem dmig_frame_roundtrip (enc : Int → Val) (d : Dmig) (hshape : d.m.length = d.rowids.length)
    (hrn : d.rowids.Nodup) (hcn : d.ColsNodup) :
    ∃ r, dmigOne d.headerVals (lower d.name) (d.written enc) = some r ∧
      (KeySorted r.rows ∧ r.rows.Nodup ∧ KeySorted r.cols ∧ r.cols.Nodup) ∧
      (∀ rl, rl ∈ r.rows ↔ ∃ i j v, d.rowids[i]? = some rl ∧ j < d.colids.length ∧ d.At i j v ∧ v ≠ (0, 0)) ∧
      (∀ cl, cl ∈ r.cols ↔ ∃ i j v, j < d.colids.length ∧ d.colLabel j = cl ∧ d.At i j v ∧ v ≠ (0, 0)) ∧
      (∀ i j rl v, d.rowids[i]? = some rl → j < d.colids.length → d.At i j v →
        r.cell rl (d.colLabel j) =
          if v = (0, 0) then (Val.int 0, Val.int 0) else (enc v.1, if d.mtype < 3 then Val.int 0 else enc v.2)) ∧
      (∀ i j rl v, d.rowids[i]? = some rl → j < d.colids.length → d.At i j v → v ≠ (0, 0) →
        rl ∈ r.rows ∧ d.colLabel j ∈ r.cols) ∧
      r.frame = r.rows.map fun rl => r.cols.map fun cl => r.cell rl cl := by
  refine ⟨_, dmigOne_written enc d _, readFrame_sorted enc d _, mem_readFrame_rows enc d _ hshape,
    mem_readFrame_cols enc d _ hshape, ?_, ?_, rfl⟩
  · intro i j rl v hi hj hat
    exact cell_written enc d _ hshape hrn hcn i j rl v hi hj hat
  · intro i j rl v hi hj hat hv
    exact ⟨(mem_readFrame_rows enc d _ hshape rl).mpr ⟨i, j, v, hi, hj, hat, hv⟩,
      (mem_readFrame_cols enc d _ hshape _).mpr ⟨i, j, v, hj, rfl, hat, hv⟩⟩

/-- the written value field: `f"{v:16.9E}"` of an integer value with at most 10 digits (and the same
with `D`) is exactly 16 columns, has no `$` or comma and ends in a digit -/
theorem dmig_value_field (v : Int) (ec : Char) (hec : ec = 'E' ∨ ec = 'D') (hv : v.natAbs < 10 ^ 10) :
    (fmtE9 v ec).length = 16 ∧ '$' ∉ fmtE9 v ec ∧ ',' ∉ fmtE9 v ec ∧ LastSolid (fmtE9 v ec) := by
  obtain ⟨⟨h1, h2, h3⟩, h4⟩ := fmtE9_clean v ec hec hv
  exact ⟨h1, h2, h3, h4⟩

/-- `rdcards(f, "dmig", return_var="list")` on the physical lines of `wtdmig`: the header card and
the column cards are found, sliced in 8- resp. 16-column fields and padded line by line into exactly
the card values the reader theorems start from (`enc` = `nas_sscanf` of the written value field). -/
theorem dmig_lines_cards (d : Dmig) (hc : d.Clean) :
    rdcards (txt "dmig") d.lines = d.headerVals :: d.written d.encT :=
  rdcards_dmig_lines d hc

/-- `rddmig (wtdmig X) = X` on physical lines, one statement: for a clean, well-shaped frame with
duplicate-free row and column labels, `rddmig` of the text of `wtdmig` returns exactly one frame,
under the lower-cased name, with the sorted duplicate-free index of the non-null rows / columns and
every cell equal to the term (`nas_sscanf` of its written field; 0 for a zero term; imaginary part 0
for real types), nothing lost — forms 1/2/6/9, types 1–4. -/
theorem dmig_text_roundtrip (d : Dmig) (hc : d.Clean) (hshape : d.m.length = d.rowids.length)
    (hrn : d.rowids.Nodup) (hcn : d.ColsNodup) :
    ∃ r, rdDmig d.lines = some [r] ∧ r.name = lower d.name ∧
      (KeySorted r.rows ∧ r.rows.Nodup ∧ KeySorted r.cols ∧ r.cols.Nodup) ∧
      (∀ rl, rl ∈ r.rows ↔ ∃ i j v, d.rowids[i]? = some rl ∧ j < d.colids.length ∧ d.At i j v ∧ v ≠ (0, 0)) ∧
      (∀ cl, cl ∈ r.cols ↔ ∃ i j v, j < d.colids.length ∧ d.colLabel j = cl ∧ d.At i j v ∧ v ≠ (0, 0)) ∧
      (∀ i j rl v, d.rowids[i]? = some rl → j < d.colids.length → d.At i j v →
        r.cell rl (d.colLabel j) =
          if v = (0, 0) then (Val.int 0, Val.int 0)
          else (d.encT v.1, if d.mtype < 3 then Val.int 0 else d.encT v.2)) ∧
      r.frame = r.rows.map fun rl => r.cols.map fun cl => r.cell rl cl := by
  refine ⟨_, rdDmig_lines d hc, rfl, readFrame_sorted d.encT d _, mem_readFrame_rows d.encT d _ hshape,
    mem_readFrame_cols d.encT d _ hshape, ?_, rfl⟩
  intro i j rl v hi hj hat
  exact cell_written d.encT d _ hshape hrn hcn i j rl v hi hj hat

/-- duplicate labels are what the hypothesis excludes: two rows with the same label are written as
two terms of one position and the reader keeps the last (necessity of `Nodup`) -/
example :
    let d : Dmig := { name := ['K'], single := false, mtype := 2, rowids := [(1, 1), (1, 1)], colids := [(2, 1)],
                      m := [[(3, 0)], [(5, 0)]] }
    (d.readFrame (fun v => Val.int v) ['k']).frame = [[(Val.int 5, Val.int 0)]] := by decide

/-! ### non-vacuity -/

/-- symmetric 2×2 with a null off-diagonal pair removed … form 6, the upper triangle comes back -/
example :
    let d : Dmig := { name := ['K'], single := false, mtype := 2, rowids := [(1, 1), (1, 2)],
                      colids := [(1, 1), (1, 2)], m := [[(3, 0), (5, 0)], [(5, 0), (0, 0)]] }
    d.form = 6 ∧ (d.readFrame (fun v => Val.int v) ['k']).frame =
      [[(Val.int 3, Val.int 0), (Val.int 5, Val.int 0)], [(Val.int 5, Val.int 0), (Val.int 0, Val.int 0)]] := by decide

/-- complex rectangular, a null row dropped, unsorted row labels sorted by the reader -/
example :
    let d : Dmig := { name := ['P'], single := false, mtype := 4, rowids := [(2, 0), (1, 3), (7, 1)],
                      colids := [(9, 1)], m := [[(1, -2)], [(0, 4)], [(0, 0)]] }
    (d.readFrame (fun v => Val.int v) ['p']).rows = [(1, 3), (2, 0)] ∧
    (d.readFrame (fun v => Val.int v) ['p']).frame = [[(Val.int 0, Val.int 4)], [(Val.int 1, Val.int (-2))]] := by decide

example : ({ name := ['K'], single := false, mtype := 2, rowids := [(1, 1), (1, 2)],
             colids := [(1, 1), (1, 2)], m := [[(3, 0), (5, 0)], [(5, 0), (0, 0)]] } : Dmig).ColsNodup := by
  unfold Dmig.ColsNodup; decide

def exK : Dmig :=
  { name := txt "KAA", single := false, mtype := 2, rowids := [(1, 1), (1, 2)],
    colids := [(1, 1), (1, 2)], m := [[(3, 0), (-5, 0)], [(-5, 0), (0, 0)]] }

example : exK.Clean where
  name_len := by decide
  name_d := by decide
  name_c := by decide
  name8 := by decide
  name16 := by decide
  mtype_len := by decide
  ncol_len := by decide
  labels := by decide

example : exK.lines = [txt "DMIG    KAA            0       6       2       0       0               2",
    txt "DMIG*   KAA                            1               1",
    txt "*                      1               1 3.000000000D+00",
    txt "*                      1               2-5.000000000D+00",
    txt "DMIG*   KAA                            1               2"] := by decide

end PyYetiVerif.C13
