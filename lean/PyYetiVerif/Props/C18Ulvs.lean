import PyYetiVerif.Lemmas.UsetTranAux
/-!
C18, matrix routines on the set vectors, second part: `n2p.formulvs` (the chain of per-level transformations),
`n2p.formdrm`, `n2p.addulvs` (models in `Model/UsetTran.lean`).
-/
set_option linter.constructorNameAsVariable false
set_option linter.unusedSectionVars false
namespace PyYetiVerif.C18
open PyYetiVerif.Uset PyYetiVerif.Locate

section ulvs
variable {κ : Type} [DecidableEq κ] [LT κ] [DecidableLT κ] [LE κ] [DecidableLE κ] (mkKey : Nat → Nat → κ)
variable {α : Type} [Add α] [Mul α] [OfNat α 0] [OfNat α 1] [DecidableEq α]

/-- `dn` is the downstream SE of `s`: the second column of the first `selist` row of `s` (`_findse`) -/
def Downstream (selist : List (Nat × Nat)) (s dn : Nat) : Prop :=
  ∃ r row, findse selist s = .ok r ∧ selist[r]? = some row ∧ row.2 = dn

/-- the levels `formulvs` walks: `(seup, sedown)`, then `(sedown, its downstream SE)`, … until the second
component is `sedn` -/
def ulvsPath (selist : List (Nat × Nat)) (sedn : Nat) : Nat → Nat → Nat → Option (List (Nat × Nat))
  | 0, _, _ => none
  | fuel + 1, seup, sedown =>
      if sedown = sedn then some [(seup, sedown)]
      else match findse selist sedown with
        | .error _ => none
        | .ok r => match selist[r]? with
          | none => none
          | some row => (ulvsPath selist sedn fuel sedown row.2).map ((seup, sedown) :: ·)

/-- `ulvs = np.dot(ulvs, ulvs1)` level after level, starting from `acc` (`1.0` at first) -/
def dotChain (acc : Ulvs α) : List (M α) → Except TErr (Ulvs α)
  | [] => .ok acc
  | L :: rest => do
      let a ← dotU acc L
      dotChain (.mat a) rest

/-- more fuel does not change a path that was found -/
theorem ulvsPath_mono (selist : List (Nat × Nat)) (sedn : Nat) :
    ∀ (fuel fuel' : Nat), fuel ≤ fuel' → ∀ (seup sedown : Nat) (p : List (Nat × Nat)),
      ulvsPath selist sedn fuel seup sedown = some p → ulvsPath selist sedn fuel' seup sedown = some p
  | 0, _, _, _, _, _, h => by simp [ulvsPath] at h
  | fuel + 1, 0, hle, _, _, _, _ => by omega
  | fuel + 1, fuel' + 1, hle, seup, sedown, p, h => by
      unfold ulvsPath at h ⊢
      split
      · rename_i he; rw [if_pos he] at h; exact h
      · rename_i hne
        rw [if_neg hne] at h
        cases hfs : findse selist sedown with
        | error e => rw [hfs] at h; cases h
        | ok r =>
            rw [hfs] at h
            simp only at h ⊢
            cases hr : selist[r]? with
            | none => rw [hr] at h; cases h
            | some row =>
                rw [hr] at h
                simp only [Option.map_eq_some_iff] at h ⊢
                obtain ⟨p', hp', rfl⟩ := h
                exact ⟨p', ulvsPath_mono selist sedn fuel fuel' (by omega) sedown row.2 p' hp', rfl⟩

/-- the path is a walk down the superelement tree from `seup` to `sedn` -/
theorem ulvsPath_spec (selist : List (Nat × Nat)) (sedn : Nat) :
    ∀ (fuel seup sedown : Nat) (path : List (Nat × Nat)), ulvsPath selist sedn fuel seup sedown = some path →
      path.head? = some (seup, sedown) ∧ (path.getLast?.map (·.2)) = some sedn ∧
      (∀ (k : Nat) e e', path[k]? = some e → path[k + 1]? = some e' →
        e.2 ≠ sedn ∧ e'.1 = e.2 ∧ Downstream selist e'.1 e'.2)
  | 0, _, _, _, h => by simp [ulvsPath] at h
  | fuel + 1, seup, sedown, path, h => by
      unfold ulvsPath at h
      split at h
      · rename_i he
        simp only [Option.some.injEq] at h
        subst h
        refine ⟨rfl, by simp [he], ?_⟩
        intro k e e' _ h2
        simp at h2
      · rename_i hne
        cases hf : findse selist sedown with
        | error e => rw [hf] at h; cases h
        | ok r =>
            rw [hf] at h
            simp only at h
            cases hr : selist[r]? with
            | none => rw [hr] at h; cases h
            | some row =>
                rw [hr] at h
                simp only [Option.map_eq_some_iff] at h
                obtain ⟨p', hp', rfl⟩ := h
                obtain ⟨h1, h2, h3⟩ := ulvsPath_spec selist sedn fuel sedown row.2 p' hp'
                refine ⟨rfl, ?_, ?_⟩
                · cases p' with
                  | nil => simp at h1
                  | cons a t => simpa using h2
                · intro k e e' hk hk'
                  cases k with
                  | zero =>
                      simp only [List.getElem?_cons_zero, Option.some.injEq] at hk
                      subst hk
                      simp only [Nat.zero_add, List.getElem?_cons_succ] at hk'
                      have : p'.head? = some e' := by
                        cases p' with
                        | nil => simp at hk'
                        | cons a t => simpa using hk'
                      rw [h1] at this
                      simp only [Option.some.injEq] at this
                      subst this
                      exact ⟨hne, rfl, r, row, hf, hr, rfl⟩
                  | succ k =>
                      exact h3 k e e' (by simpa using hk) (by simpa using hk')

/-- **the loop of `formulvs`**: when it returns, it has walked the path from `seup` down to `sedn`, formed the
per-level transformation (`ulvsLevel`: `formtran` of the downstream SE at the boundary DOF that `upasetpv`
lists, c-set rows / columns removed on request) at every level, and multiplied them in that order. -/
theorem ulvsLoop_chain (mk : Masks) (d : NasT α) (sedn : Nat) (kc gset : Bool) :
    ∀ (fuel : Nat) (acc : Ulvs α) (seup sedown : Nat) (out : M α),
      ulvsLoop mkKey mk d sedn kc gset fuel acc seup sedown = .ok out →
      ∃ (path : List (Nat × Nat)) (levels : List (M α)),
        ulvsPath d.nas.selist sedn fuel seup sedown = some path ∧
        List.Forall₂ (fun e L => ulvsLevel mkKey mk d e.1 e.2 kc gset = .ok L) path levels ∧
        dotChain acc levels = .ok (.mat out)
  | 0, _, _, _, _, h => by simp [ulvsLoop] at h
  | fuel + 1, acc, seup, sedown, out, h => by
      unfold ulvsLoop at h
      obtain ⟨u1, hu1, h⟩ := bind_ok h
      obtain ⟨acc', hacc, h⟩ := bind_ok h
      split at h
      · rename_i he
        simp only [Except.ok.injEq] at h
        subst h
        refine ⟨[(seup, sedown)], [u1], by simp [ulvsPath, he], .cons hu1 .nil, ?_⟩
        simp only [dotChain, hacc, bind, Except.bind]
      · rename_i hne
        obtain ⟨r, hr, h⟩ := bind_ok h
        have hf := liftE_ok' hr
        cases hrow : d.nas.selist[r]? with
        | none => rw [hrow] at h; cases h
        | some row =>
            rw [hrow] at h
            simp only at h
            obtain ⟨path, levels, hp, hl, hc⟩ := ulvsLoop_chain mk d sedn kc gset fuel (.mat acc') sedown row.2 out h
            refine ⟨(seup, sedown) :: path, u1 :: levels, ?_, .cons hu1 hl, ?_⟩
            · simp [ulvsPath, hne, hf, hrow, hp]
            · simp only [dotChain, hacc, bind, Except.bind]
              exact hc

/-- the condition under which `formulvs` answers from `nas["ulvs"]` -/
def Stored (ulvs : Option (List (Nat × Ulvs α))) (seup sedn : Nat) (shortcut gset : Bool) (p : Nat × Ulvs α) : Prop :=
  shortcut = true ∧ sedn = 0 ∧ gset = false ∧ ∃ l, ulvs = some l ∧ l.find? (fun p => p.1 = seup) = some p

/-- **`formulvs` is the product of the per-level transformations along the tree path**, for any depth and any
values of `keepcset` / `shortcut` / `gset`: it answers `1.0` when `seup` is its own downstream SE or `seup == sedn`;
else the stored matrix when the shortcut applies; else `((1.0 · L₁) · L₂) · … · L_k` with `L_i` the level of the
`i`-th step of the walk from `seup` down to `sedn` (`ulvsPath_spec`). -/
theorem formulvs_chain_is_product (mk : Masks) (d : NasT α) (ulvs : Option (List (Nat × Ulvs α)))
    (seup sedn : Nat) (kc sc gset : Bool) (u : Ulvs α)
    (h : formulvs mkKey mk d ulvs seup sedn kc sc gset = .ok u) :
    ∃ sedown, Downstream d.nas.selist seup sedown ∧
      (((sedown = seup ∨ sedn = seup) ∧ u = .one) ∨
       (¬(sedown = seup ∨ sedn = seup) ∧ ∃ p, Stored ulvs seup sedn sc gset p ∧ u = p.2) ∨
       (¬(sedown = seup ∨ sedn = seup) ∧ (¬ ∃ p, Stored ulvs seup sedn sc gset p) ∧
        ∃ (path : List (Nat × Nat)) (levels : List (M α)),
          ulvsPath d.nas.selist sedn (d.nas.selist.length + 1) seup sedown = some path ∧
          List.Forall₂ (fun e L => ulvsLevel mkKey mk d e.1 e.2 kc gset = .ok L) path levels ∧
          dotChain .one levels = .ok u)) := by
  unfold formulvs at h
  obtain ⟨r, hr, h⟩ := bind_ok h
  have hf := liftE_ok' hr
  cases hrow : d.nas.selist[r]? with
  | none => rw [hrow] at h; cases h
  | some row =>
      rw [hrow] at h
      simp only at h
      refine ⟨row.2, ⟨r, row, hf, hrow, rfl⟩, ?_⟩
      split at h
      · rename_i he
        simp only [Except.ok.injEq] at h
        exact Or.inl ⟨he, h.symm⟩
      · rename_i hne
        split at h
        · rename_i p hp
          simp only [Except.ok.injEq] at h
          refine Or.inr (Or.inl ⟨hne, p, ?_, h.symm⟩)
          split at hp
          · rename_i hcond
            obtain ⟨l, hl, hfind⟩ := Option.bind_eq_some_iff.mp hp
            exact ⟨hcond.1, hcond.2.1, hcond.2.2, l, hl, hfind⟩
          · cases hp
        · rename_i hnone
          obtain ⟨m, hm, h⟩ := bind_ok h
          simp only [Except.ok.injEq] at h
          subst h
          obtain ⟨path, levels, hp, hl, hc⟩ := ulvsLoop_chain mkKey mk d sedn kc gset _ _ _ _ _ hm
          refine Or.inr (Or.inr ⟨hne, ?_, path, levels, hp, hl, hc⟩)
          rintro ⟨p, h1, h2, h3, l, hl', hfind⟩
          rw [if_pos ⟨h1, h2, h3⟩, hl'] at hnone
          simp only [Option.bind_some] at hnone
          rw [hfind] at hnone
          cases hnone

/-- without the shortcut `formulvs` does not read `nas["ulvs"]` -/
theorem formulvs_noshortcut (mk : Masks) (d : NasT α) (ulvs : Option (List (Nat × Ulvs α)))
    (seup sedn : Nat) (kc gset : Bool) :
    formulvs mkKey mk d ulvs seup sedn kc false gset = formulvs mkKey mk d none seup sedn kc false gset := by
  unfold formulvs
  simp

/-- … and with it, it either answers what it would compute, or the stored entry -/
theorem formulvs_cases (mk : Masks) (d : NasT α) (ulvs : Option (List (Nat × Ulvs α)))
    (seup sedn : Nat) (kc sc gset : Bool) :
    formulvs mkKey mk d ulvs seup sedn kc sc gset = formulvs mkKey mk d none seup sedn kc false gset ∨
    ∃ p, Stored ulvs seup sedn sc gset p ∧ formulvs mkKey mk d ulvs seup sedn kc sc gset = .ok p.2 := by
  unfold formulvs
  cases hr : liftE (findse d.nas.selist seup) with
  | error e => left; simp [bind, Except.bind]
  | ok r =>
      simp only [bind, Except.bind]
      cases hrow : d.nas.selist[r]? with
      | none => left; rfl
      | some row =>
          simp only
          by_cases he : row.2 = seup ∨ sedn = seup
          · left; simp [he]
          · simp only [he, if_false]
            by_cases hc : sc = true ∧ sedn = 0 ∧ gset = false
            · cases hu : ulvs with
              | none => left; simp
              | some l =>
                  cases hfind : l.find? (fun p => p.1 = seup) with
                  | none => left; simp [hc, hfind]
                  | some p =>
                      right
                      refine ⟨p, ⟨hc.1, hc.2.1, hc.2.2, l, rfl, hfind⟩, ?_⟩
                      simp [hc, hfind]
            · left
              simp only [hc, if_false]
              simp

/-! ## formdrm -/

/-- **`formdrm` is `formtran` of the upstream SE times `formulvs`**: the output DOF are those of `formtran`; for
`seup == sedn` (`formulvs` answers `1.0`) the DRM *is* the `formtran` matrix; otherwise every row of the DRM is the
same row of the `formtran` matrix (columns beyond the rows of ULVS cut off when they are all zero: a null c-set)
combined with the rows of ULVS. -/
theorem formdrm_is_rows_of_formtran (mk : Masks) (d : NasT α) (ulvs : Option (List (Nat × Ulvs α)))
    (seup sedn : Nat) (req : Request) (gset : Bool) (drm : M α) (outdof : List (Nat × Nat))
    (h : formdrm mkKey mk d ulvs seup req sedn gset = .ok (drm, outdof)) :
    ∃ t u, formtran mkKey mk d seup req gset = .ok (t, outdof) ∧
      formulvs mkKey mk d ulvs seup sedn true true gset = .ok u ∧
      (u = .one → drm = t) ∧
      (∀ um, u = .mat um → ∃ t' : M α,
        (t' = t ∨ (um.r.length < t.c ∧ anyFrom t um.r.length = false ∧
                   t' = ⟨t.r.map (·.take um.r.length), um.r.length⟩)) ∧
        t'.c = um.r.length ∧ drm.c = um.c ∧ drm.r = t'.r.map (fun row => rowComb um.c row um.r)) := by
  unfold formdrm at h
  obtain ⟨tp, ht, h⟩ := bind_ok h
  obtain ⟨t, od⟩ := tp
  simp only at h
  obtain ⟨u, hu, h⟩ := bind_ok h
  cases u with
  | one =>
      simp only [Except.ok.injEq, Prod.mk.injEq] at h
      obtain ⟨rfl, rfl⟩ := h
      exact ⟨t, .one, ht, hu, fun _ => rfl, fun um hum => (by cases hum)⟩
  | mat um =>
      simp only at h
      obtain ⟨p, hp, h⟩ := bind_ok h
      simp only [Except.ok.injEq, Prod.mk.injEq] at h
      obtain ⟨rfl, rfl⟩ := h
      refine ⟨t, .mat um, ht, hu, fun hone => (by cases hone), ?_⟩
      intro um' hum
      cases hum
      have key : ∀ t' : M α, dot t' um = .ok p →
          t'.c = um.r.length ∧ p.c = um.c ∧ p.r = t'.r.map (fun row => rowComb um.c row um.r) := by
        intro t' hp
        unfold dot at hp
        split at hp
        · cases hp
        · rename_i hc
          simp only [Except.ok.injEq] at hp
          subst hp
          exact ⟨not_not.mp hc, rfl, rfl⟩
      by_cases hcond : um.r.length * um.c > 1 ∧ um.r.length < t.c ∧ anyFrom t um.r.length = false
      · rw [if_pos hcond] at hp
        exact ⟨_, Or.inr ⟨hcond.2.1, hcond.2.2, rfl⟩, key _ hp⟩
      · rw [if_neg hcond] at hp
        exact ⟨t, Or.inl rfl, key _ hp⟩

/-- `formdrm(nas, se, dof, sedn=se)` is `formtran(nas, se, dof)` -/
theorem formdrm_same_se (mk : Masks) (d : NasT α) (ulvs : Option (List (Nat × Ulvs α)))
    (se : Nat) (req : Request) (gset : Bool) (r : Nat) (row : Nat × Nat)
    (hf : findse d.nas.selist se = .ok r) (hrow : d.nas.selist[r]? = some row) :
    formdrm mkKey mk d ulvs se req se gset = formtran mkKey mk d se req gset := by
  unfold formdrm formulvs
  cases ht : formtran mkKey mk d se req gset with
  | error e => rfl
  | ok tp =>
      obtain ⟨t, od⟩ := tp
      simp [bind, Except.bind, hf, liftE, hrow]

/-! ## addulvs -/

/-- **`addulvs` is consistent with `formulvs`**: after `addulvs(nas, *ses, **kwargs)` every listed SE has an entry
in `nas["ulvs"]`, and the entry is what `formulvs(nas, se, **kwargs)` computes without the shortcut - or, with
`shortcut=True` (and `sedn == 0`, `gset=False`), the entry that was already stored for that SE before the call. -/
theorem addulvs_consistent (mk : Masks) (d : NasT α) (ulvs : Option (List (Nat × Ulvs α))) (ses : List Nat)
    (sedn : Nat) (kc sc gset : Bool) (l : List (Nat × Ulvs α))
    (h : addulvs mkKey mk d ulvs ses sedn kc sc gset = .ok l) :
    ∀ se ∈ ses, ∃ u, l.find? (fun p => p.1 = se) = some (se, u) ∧
      (formulvs mkKey mk d none se sedn kc false gset = .ok u ∨
       (sc = true ∧ sedn = 0 ∧ gset = false ∧ (ulvs.getD []).find? (fun p => p.1 = se) = some (se, u))) := by
  unfold addulvs at h
  generalize hinit : ulvs.getD [] = init at h ⊢
  let Good' : Nat → Ulvs α → Prop := fun se u =>
    formulvs mkKey mk d none se sedn kc false gset = .ok u ∨
      (sc = true ∧ sedn = 0 ∧ gset = false ∧ init.find? (fun p => p.1 = se) = some (se, u))
  let Inv : List (Nat × Ulvs α) → Prop := fun acc => ∀ se p, acc.find? (fun p => p.1 = se) = some p →
    formulvs mkKey mk d none se sedn kc false gset = .ok p.2 ∨ init.find? (fun p => p.1 = se) = some p
  let Q : List (Nat × Ulvs α) → Nat → Prop := fun acc se =>
    ∃ u, acc.find? (fun p => p.1 = se) = some (se, u) ∧ Good' se u
  have step : ∀ acc se u, Inv acc → formulvs mkKey mk d (some acc) se sedn kc sc gset = .ok u →
      Inv (setD acc se u) ∧ Q (setD acc se u) se ∧ ∀ se', Q acc se' → Q (setD acc se u) se' := by
    intro acc se u hinv hu
    have hgood : Good' se u := by
      rcases formulvs_cases mkKey mk d (some acc) se sedn kc sc gset with he | ⟨p, hst, he⟩
      · left; rw [← he]; exact hu
      · rw [hu] at he
        simp only [Except.ok.injEq] at he
        obtain ⟨h1, h2, h3, l', hl', hfind⟩ := hst
        simp only [Option.some.injEq] at hl'
        subst hl'
        have hp1 : p.1 = se := by simpa using List.find?_some hfind
        rcases hinv se p hfind with hg | hi
        · left; rw [he]; exact hg
        · right
          refine ⟨h1, h2, h3, ?_⟩
          rw [hi, he]
          congr 1
          exact Prod.ext hp1 rfl
    refine ⟨?_, ⟨u, find?_setD_self acc se u, hgood⟩, ?_⟩
    · intro se' p hp
      by_cases hse : se' = se
      · subst hse
        rw [find?_setD_self] at hp
        simp only [Option.some.injEq] at hp
        subst hp
        rcases hgood with hg | ⟨_, _, _, hi⟩
        · exact Or.inl hg
        · exact Or.inr hi
      · rw [find?_setD_other _ _ _ _ hse] at hp
        exact hinv se' p hp
    · intro se' ⟨u', hf, hg⟩
      by_cases hse : se' = se
      · subst hse; exact ⟨u, find?_setD_self acc se' u, hgood⟩
      · exact ⟨u', by rw [find?_setD_other _ _ _ _ hse]; exact hf, hg⟩
  have fold : ∀ (ses : List Nat) (acc l : List (Nat × Ulvs α)), Inv acc →
      ses.foldlM (fun acc se => do
        let u ← formulvs mkKey mk d (some acc) se sedn kc sc gset
        pure (setD acc se u)) acc = .ok l →
      (∀ se', Q acc se' → Q l se') ∧ ∀ se ∈ ses, Q l se := by
    intro ses
    induction ses with
    | nil =>
        intro acc l _ hl
        simp only [List.foldlM_nil, pure, Except.pure, Except.ok.injEq] at hl
        subst hl
        exact ⟨fun _ h => h, fun se hse => by cases hse⟩
    | cons se t ih =>
        intro acc l hinv hl
        rw [List.foldlM_cons] at hl
        obtain ⟨acc', hacc', hl⟩ := bind_ok hl
        obtain ⟨u, hu, hacc'⟩ := bind_ok hacc'
        simp only [pure, Except.pure, Except.ok.injEq] at hacc'
        subst hacc'
        obtain ⟨hinv', hq, hkeep⟩ := step acc se u hinv hu
        obtain ⟨hkeep', hall⟩ := ih _ l hinv' hl
        refine ⟨fun se' h => hkeep' se' (hkeep se' h), ?_⟩
        intro se' hse'
        rcases List.mem_cons.mp hse' with rfl | hmem
        · exact hkeep' _ hq
        · exact hall se' hmem
  have hinv0 : Inv init := fun se p hp => Or.inr hp
  exact (fold ses init l hinv0 h).2

/-- the chain can be cut anywhere: multiplying through `l₁ ++ l₂` is multiplying through `l₁` and continuing from
that product through `l₂` - with `formulvs_chain_is_product` and the walk of `ulvsPath_spec` this is
`ULVS(seup → sedn) = (ULVS(seup → b) · L₁) · L₂ …` for an SE `b` on the path, `L_i` the levels below `b` -/
theorem dotChain_append (acc : Ulvs α) (l₁ l₂ : List (M α)) :
    dotChain acc (l₁ ++ l₂) = (dotChain acc l₁ >>= fun a => dotChain a l₂) := by
  induction l₁ generalizing acc with
  | nil => rfl
  | cons L t ih =>
      simp only [List.cons_append, dotChain]
      cases dotU acc L with
      | error e => rfl
      | ok a => simp only [bind, Except.bind]; exact ih (.mat a)

/-- a path through an intermediate SE is the concatenation of the two partial paths -/
theorem ulvsPath_split (selist : List (Nat × Nat)) (sedn b : Nat) :
    ∀ (fuel seup sedown : Nat) (p₁ : List (Nat × Nat)), b ≠ sedn →
      ulvsPath selist b fuel seup sedown = some p₁ → (∀ e ∈ p₁, e.2 = sedn → e.2 = b) →
      ∀ (r : Nat) (row : Nat × Nat), findse selist b = .ok r → selist[r]? = some row →
      ∀ (fuel₂ : Nat) (p₂ : List (Nat × Nat)), ulvsPath selist sedn fuel₂ b row.2 = some p₂ →
      ulvsPath selist sedn (fuel + fuel₂) seup sedown = some (p₁ ++ p₂)
  | 0, _, _, _, _, h, _, _, _, _, _, _, _, _ => by simp [ulvsPath] at h
  | fuel + 1, seup, sedown, p₁, hb, h, hno, r, row, hf, hrow, fuel₂, p₂, h₂ => by
      unfold ulvsPath at h
      have hfuel : fuel + 1 + fuel₂ = (fuel + fuel₂) + 1 := by omega
      rw [hfuel]
      split at h
      · rename_i he
        simp only [Option.some.injEq] at h
        subst h
        subst he
        unfold ulvsPath
        rw [if_neg hb, hf]
        simp only [hrow]
        have := ulvsPath_mono selist sedn fuel₂ (fuel + fuel₂) (by omega) sedown row.2 p₂ h₂
        rw [this]
        rfl
      · rename_i hne
        cases hfs : findse selist sedown with
        | error e => rw [hfs] at h; cases h
        | ok r' =>
            rw [hfs] at h
            simp only at h
            cases hr' : selist[r']? with
            | none => rw [hr'] at h; cases h
            | some row' =>
                rw [hr'] at h
                simp only [Option.map_eq_some_iff] at h
                obtain ⟨p', hp', rfl⟩ := h
                have hsd : sedown ≠ sedn := by
                  intro he
                  exact hne (hno (seup, sedown) List.mem_cons_self he)
                unfold ulvsPath
                rw [if_neg hsd, hfs]
                simp only [hr']
                rw [ulvsPath_split selist sedn b fuel sedown row'.2 p' hb hp'
                  (fun e he => hno e (List.mem_cons_of_mem _ he)) r row hf hrow fuel₂ p₂ h₂]
                rfl

end ulvs
/-! ## non-vacuity: SE 10 (a-set: scalar points 1, 2) upstream of the residual (rows 5, 6, 7; `phg` given) -/

section examples
open PyYetiVerif.Generated.UsetMask
set_option linter.unusedSimpArgs false

def exKey2 (i d : Nat) : Nat := i * 10 + d
def exMasks2 : Masks := Masks.ofTable mask
def exNasT : NasT Int where
  nas := { selist := [(10, 0), (0, 0)],
           uset := [(10, [(1, 0, 2097154), (2, 0, 4194304)]), (0, [(5, 0, 2097154), (6, 0, 4), (7, 0, 2097154)])],
           dnids := [(10, [7, 5])], maps := [(10, [])], upids := [] }
  got := []
  goq := []
  gm := []
  pha := []
  phg := [(0, ⟨[[2], [3], [5]], 1⟩)]

theorem exNasT_ulvs : formulvs exKey2 exMasks2 exNasT none 10 0 true true false = .ok (.mat ⟨[[2], [5]], 1⟩) := by
  simp [formulvs, ulvsLoop, ulvsLevel, formtran, formtran0, formtran0With, procMsetWith, iddofG, rowsOfMask, upasetpv, upMask, idMask, applyMaps, findse, lookupD, exNasT,
    dotU, mkdofpv, mksetpv, expanddof, expanddof2, expandRow, digits, digitsRev, mkdofpvKeys, argsort,
    lookup, searchsortedLeft, key, List.mergeSort, List.zipIdx, List.MergeSort.Internal.splitInTwo,
    exMasks2, Masks.ofTable, mask, v_p, v_g, v_n, v_f, v_a, v_q, v_r, v_b, v_c, v_o, v_s, v_m, v_e, v_l, v_t,
    inSet, liftE, positions, takeIdx, rowsAt, bind, Except.bind, pure, List.mapM_cons, List.mapM_nil]

/-- `formulvs` returns a matrix (third case of `formulvs_chain_is_product`), `1.0` for `seup == sedn`, and the stored
matrix with the shortcut -/
example : formulvs exKey2 exMasks2 exNasT none 10 0 true true false = .ok (.mat ⟨[[2], [5]], 1⟩) ∧
    formulvs exKey2 exMasks2 exNasT none 10 10 true true false = .ok .one ∧
    formulvs exKey2 exMasks2 exNasT (some [(10, .mat ⟨[[7]], 1⟩)]) 10 0 true true false = .ok (.mat ⟨[[7]], 1⟩) :=
  ⟨exNasT_ulvs, by simp [formulvs, findse, positions, exNasT, liftE, bind, Except.bind],
    by simp [formulvs, findse, positions, exNasT, liftE, bind, Except.bind]⟩

/-- `addulvs(nas, 10)` stores that matrix -/
example : addulvs exKey2 exMasks2 exNasT none [10] 0 true true false = .ok [(10, .mat ⟨[[2], [5]], 1⟩)] := by
  have h : formulvs exKey2 exMasks2 exNasT (some []) 10 0 true true false = .ok (.mat ⟨[[2], [5]], 1⟩) := by
    rcases formulvs_cases exKey2 exMasks2 exNasT (some []) 10 0 true true false with h | ⟨p, ⟨_, _, _, l, hl, hf⟩, _⟩
    · rw [h, ← formulvs_noshortcut exKey2 exMasks2 exNasT none]
      have := formulvs_cases exKey2 exMasks2 exNasT none 10 0 true true false
      rcases this with h' | ⟨p, ⟨_, _, _, l, hl, _⟩, _⟩
      · rw [← formulvs_noshortcut exKey2 exMasks2 exNasT none, ← h']; exact exNasT_ulvs
      · cases hl
    · simp only [Option.some.injEq] at hl
      subst hl
      cases hf
  simp [addulvs, h, setD, bind, Except.bind, pure, Except.pure]

/-- `formdrm` for the a-set DOF `(2, 0)` of SE 10: its `formtran` row `[0, 1]` times ULVS -/
example : ∃ drm, formdrm exKey2 exMasks2 exNasT none 10 (.rows [(2, 0)]) 0 false = .ok (drm, [(2, 0)]) := by
  refine ⟨⟨[[5]], 1⟩, ?_⟩
  unfold formdrm
  rw [exNasT_ulvs]
  simp [formtran, formtranUp, formtranUpWith, upSelectWith, procMsetWith, iddofG, rowsOfMask, lookupD, exNasT, mkdofpv, mksetpv, expanddof, expanddof2, expandRow, digits, digitsRev,
    mkdofpvKeys, argsort, lookup, searchsortedLeft, key, List.mergeSort, List.zipIdx, List.MergeSort.Internal.splitInTwo,
    exMasks2, Masks.ofTable, mask, v_p, v_g, v_n, v_f, v_a, v_q, v_r, v_b, v_c, v_o, v_s, v_m, v_e, v_l, v_t,
    inSet, liftE, setPos, positions, takeIdx, unitRow, dot, rowComb, addRow, smulRow, zeroRow, anyFrom,
    bind, Except.bind, pure, Except.pure, Except.map, List.mapM_cons, List.mapM_nil]
  decide

end examples

end PyYetiVerif.C18
