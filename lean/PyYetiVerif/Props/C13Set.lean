import PyYetiVerif.Lemmas.BulkSetSplit
/-!
# C13 — `wtset` → `rdsets` for ANY `max_length`: exactly when the round trip holds

Property theorems only (helper lemmas: `Lemmas/BulkSetSplit.lean`).  `_wrap_text_lines` cuts a token that is longer
than `max_length` into pieces of `max_length − 1` characters.  The full statement is

    rdsets (wtset setid ids max_length) = {setid: ids}   ⟺   no token of the statement is longer than max_length

(tokens: `SET n = `, then one per maximal run, `a THRU b` for two or more ids, all but the last followed by `", "`; the
condition is decidable).  Proved here: `⟸` for every input (`set_roundtrip`), and `⟹` whenever the token that does not
fit is the HEAD token with at least two columns missing — then `rdsets` returns the EMPTY dictionary
(`set_header_split_fails`).  The remaining cases of `⟹` — a cut item token and the boundary
`len(head) = max_length + 1` — and the full `set_roundtrip_iff` are in `Props/C13SetIff.lean`; the equivalence is also
checked on the real code for every `max_length` 2 … 26 (oracle) and the cut lines are tied character for character
(stream `wtset`).
Ids may be unsorted and repeated (`thru_roundtrip` holds for every list); `EXCEPT` is never written by `wtset` and is
not supported by `rdsets` (after a THRU it is silently ignored — tied by the reader stream, reported).
-/
namespace PyYetiVerif.C13
open PyYetiVerif.Bulk

/-- **a `max_length` at least two columns shorter than `SET n = `**: every line is at most `max_length` long, the
lines still concatenate to the statement, but none of them is a SET header — `rdsets` returns `{}` -/
theorem set_header_split_fails (setid : Int) (ids : List Int) (maxLen : Nat) (hs : 0 ≤ setid) (hn : ∀ x ∈ ids, 0 ≤ x)
    (h2 : 2 ≤ maxLen) (hlong : maxLen + 2 ≤ (Bulk.txt "SET " ++ dec setid ++ Bulk.txt " = ").length) :
    rdSets (setLines setid ids maxLen) = some [] ∧
      (∀ l ∈ setLines setid ids maxLen, l.length ≤ maxLen) ∧
      (setLines setid ids maxLen).flatten = (setTokens setid ids).flatten :=
  ⟨rdSets_header_split setid ids maxLen hs hn h2 hlong, wrapLines_fits_any maxLen h2 _, wrapLines_flatten maxLen _⟩

/-- **`set_roundtrip_iff`, restricted** (full statement: the equivalence for every `max_length ≥ 2`): when the item
tokens fit and the head token is not exactly one column too long, the round trip holds IF AND ONLY IF every token
fits `max_length`.  Missing here for the full statement: a cut item token, and `len("SET n = ") = max_length + 1` —
both proved in `Props/C13SetIff.lean` (`set_roundtrip_iff`, no such hypothesis). -/
theorem set_roundtrip_iff_partial (setid : Int) (ids : List Int) (maxLen : Nat) (hs : 0 ≤ setid) (hne : ids ≠ [])
    (hn : ∀ x ∈ ids, 0 ≤ x) (h2 : 2 ≤ maxLen) (hbody : ∀ t ∈ setBody (compress ids), t.length ≤ maxLen)
    (hgap : (Bulk.txt "SET " ++ dec setid ++ Bulk.txt " = ").length ≠ maxLen + 1) :
    rdSets (setLines setid ids maxLen) = some [(Val.int setid, ids)] ↔ ∀ t ∈ setTokens setid ids, t.length ≤ maxLen := by
  constructor
  · intro hrt t ht
    by_cases hlt : t.length ≤ maxLen
    · exact hlt
    exfalso
    simp only [setTokens, List.mem_cons] at ht
    rcases ht with rfl | ht
    · have hlong : maxLen + 2 ≤ (Bulk.txt "SET " ++ dec setid ++ Bulk.txt " = ").length := by omega
      rw [rdSets_header_split setid ids maxLen hs hn h2 hlong] at hrt
      simp at hrt
    · exact hlt (hbody t ht)
  · exact rdSets_setLines setid ids maxLen hs hne hn

/-! ### non-vacuity -/

/-- `wtset(f, 100, [1, 2, 3], max_length=5)`: the head `SET 100 = ` (10 characters) is cut into `SET `, `100 `, `= `
(the text is tied by the stream `wtset`); nothing is read back -/
example : rdSets (setLines 100 [1, 2, 3] 5) = some [] :=
  (set_header_split_fails 100 [1, 2, 3] 5 (by decide) (by decide) (by decide) (by decide)).1

example : ∀ t ∈ setTokens 7 [1, 2, 3, 5], t.length ≤ 12 := by decide

end PyYetiVerif.C13
