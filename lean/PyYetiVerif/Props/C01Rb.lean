import PyYetiVerif.Props.C01
/-!
# C01 — the rigid-body recurrence of the coupled path of `SolveUnc`

`_solve_complex_unc` integrates the rigid-body rows itself (`pc.G = h`, `pc.A = h*h/3`,
`pc.Ap = h/2`, forces already divided by the rigid-body mass):

    order 1:  d' = d + G v + A (f0 + f1/2) ;  v' = v + Ap (f0 + f1)
    order 0:  d' = d + G v + (1.5 A) f0    ;  v' = v + (2 Ap) f0

(`rbStep` of `Model/SuCoef.lean`).  `rb_step_is_rigid_regime`: this is one step of the uncoupled
recurrence with `get_su_coef`'s rigid-regime coefficients at unit mass, hence
(`rb_step_exact`) the state at `t = h` of THE solution of `x'' = f(t)` with the hold forcing of the
step; `rb_run_exact` carries that through the loop.
-/
namespace PyYetiVerif.C01
open PyYetiVerif.SuCoef

/-- the rigid-body recurrence of the coupled path is the `su` recurrence in the rigid regime
(unit mass: the force was divided by the mass; the mode's own `b`, `k` play no role) -/
theorem rb_step_is_rigid_regime (order1 : Bool) (h b k : ℝ) (dv : ℝ × ℝ) (f0 f1 : ℝ) :
    rbStep order1 h dv f0 f1 = stepUnc order1 (suCoef .rigid 1 b k h) dv f0 f1 := by
  cases order1 with
  | true =>
    simp only [rbStep, stepUnc, stepUnc1, suCoef, rigidCoef, if_true]
    refine Prod.ext ?_ ?_ <;> simp only <;> ring
  | false =>
    simp only [rbStep, stepUnc, stepUnc0, suCoef, rigidCoef, Bool.false_eq_true, if_false]
    refine Prod.ext ?_ ?_ <;> simp only <;> ring

/-- hence one step is the state at `t = h` of the solution of `x'' = p + s t` (`p = f0`,
`s = (f1 - f0)/h` for order 1, `s = 0` for order 0) started at `dv`, and that solution is the only one -/
theorem rb_step_exact (order1 : Bool) (h : ℝ) (hh : h ≠ 0) (dv : ℝ × ℝ) (f0 f1 : ℝ) :
    IsSol 1 0 0 f0 (if order1 then (f1 - f0) / h else 0) dv.1 dv.2
      (xSol .rigid 1 0 0 f0 (if order1 then (f1 - f0) / h else 0) dv.1 dv.2)
      (vSol .rigid 1 0 0 f0 (if order1 then (f1 - f0) / h else 0) dv.1 dv.2) ∧
    rbStep order1 h dv f0 f1 =
      (xSol .rigid 1 0 0 f0 (if order1 then (f1 - f0) / h else 0) dv.1 dv.2 h,
       vSol .rigid 1 0 0 f0 (if order1 then (f1 - f0) / h else 0) dv.1 dv.2 h) := by
  refine ⟨su_solves_ode_rb 1 0 0 f0 _ dv.1 dv.2 one_ne_zero, ?_⟩
  rw [rb_step_is_rigid_regime order1 h 0 0 dv f0 f1]
  have hr : RegimeOK .rigid 1 0 0 := one_ne_zero
  cases order1 with
  | true => simpa [stepUnc] using su_coef_eq .rigid 1 0 0 h dv.1 dv.2 f0 f1 hr hh
  | false => simpa [stepUnc] using order0_exact .rigid 1 0 0 h dv.1 dv.2 f0 hr hh

/-- the loop is `runUnc` with the rigid-regime coefficients, so `run_exact` applies to it -/
theorem rb_run_is_runUnc (order1 : Bool) (h b k : ℝ) :
    ∀ (fs : List ℝ) (dv : ℝ × ℝ), rbRun order1 h dv fs = runUnc order1 (suCoef .rigid 1 b k h) dv fs := by
  intro fs
  induction fs with
  | nil => intro dv; rfl
  | cons g0 tl ih =>
    intro dv
    cases tl with
    | nil => rfl
    | cons g1 rest =>
      rw [rbRun, runUnc, rb_step_is_rigid_regime order1 h b k dv g0 g1, ih]

/-- every sample of the rigid-body loop is the end state of a solution of `x'' = f(t)` (hold forcing
of that step) started from the previous sample -/
theorem rb_run_exact (h : ℝ) (hh : h ≠ 0) (order1 : Bool) (fs : List ℝ) (dv : ℝ × ℝ) (j : ℕ)
    (dj dj1 : ℝ × ℝ) (f0 f1 : ℝ)
    (h1 : (rbRun order1 h dv fs)[j]? = some dj) (h2 : (rbRun order1 h dv fs)[j + 1]? = some dj1)
    (h3 : fs[j]? = some f0) (h4 : fs[j + 1]? = some f1) :
    ∃ x v : ℝ → ℝ, IsSol 1 0 0 f0 (if order1 then (f1 - f0) / h else 0) dj.1 dj.2 x v ∧
      dj1 = (x h, v h) := by
  rw [rb_run_is_runUnc order1 h 0 0] at h1 h2
  exact run_exact .rigid 1 0 0 h one_ne_zero hh order1 fs dv j dj dj1 f0 f1 h1 h2 h3 h4

/-! ### non-vacuity: `h = 1`, from rest, force `1 → 3`: `d = 1/3·(1 + 3/2) = 5/6`, `v = 1/2·4 = 2` -/

example : rbStep true (1 : ℝ) (0, 0) 1 3 = (5 / 6, 2) := by
  simp only [rbStep, if_true]
  refine Prod.ext ?_ ?_ <;> norm_num

example : rbRun true (1 : ℝ) (0, 0) [1, 3] = [(0, 0), (5 / 6, 2)] := by
  simp only [rbRun, rbStep, if_true]
  norm_num

end PyYetiVerif.C01
