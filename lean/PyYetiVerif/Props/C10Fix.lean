import PyYetiVerif.Lemmas.FindapFix
import PyYetiVerif.Props.C10
/-!
# C10 — repair candidates for the open `findap` findings (F4, F14, F22, F23)

Theorems about the *patched* functions of `corpus/c10_F4_candidate_fix.diff`,
`corpus/c10_F14_F22_candidate_fix.diff` (both together: `corpus/c10_F23_candidate_fix.diff`),
modelled in `Model/FindapFix.lean`.  They say nothing about the code in /repo (which is the
unpatched one: `Props/C10.lean`); they show that the proposed repair is right for EVERY signal and
EVERY tolerance, not only on the sampled ones:

* the first sample is selected, the selected samples strictly alternate, every sample — in
  particular the global maximum and minimum — is within `stol` of a selected sample: no
  `NoSubTolDrift` hypothesis, no `2·stol`;
* the patched numba variant never fails on a non-empty signal and selects exactly the samples the
  patched default variant selects;
* wherever the vectorised test of the patch passes, the patched default variant returns what the
  present one returns (no change of behaviour outside the drift / return families).
-/
namespace PyYetiVerif.C10
open PyYetiVerif.Findap

section fixed
variable {α : Type} [Field α] [LinearOrder α] [IsStrictOrderedRing α]

/-- patched default variant: the first sample is always selected -/
theorem findap_fixed_first_selected (tol : α) (y : List α) (m : List Bool)
    (h : findapDefFix tol y = some m) : m.head? = some true :=
  (defFixSt_spec _ (stol_nonneg tol y) y m h).1

/-- patched default variant: the selected samples strictly alternate between maxima and minima —
for every signal and every tolerance (finding F4 closed). -/
theorem findap_fixed_alternates (tol : α) (y : List α) (m : List Bool)
    (h : findapDefFix tol y = some m) : Alt ((selOf m y 0).map (·.2)) :=
  (defFixSt_spec _ (stol_nonneg tol y) y m h).2.1

/-- patched default variant: every sample — in particular the global maximum and minimum — is
within `stol` of a selected sample, from above and from below (finding F4 closed). -/
theorem findap_fixed_extremes_within_stol (tol : α) (y : List α) (m : List Bool)
    (h : findapDefFix tol y = some m) :
    ∀ v ∈ y, (∃ s ∈ (selOf m y 0).map (·.2), v ≤ s + stol tol y) ∧
      (∃ s ∈ (selOf m y 0).map (·.2), s ≤ v + stol tol y) :=
  (defFixSt_spec _ (stol_nonneg tol y) y m h).2.2

/-- both patched variants select the same samples, for every signal and every tolerance
(finding F23 closed; sizes 1 and 2 and `tol ≥ 1` included). -/
theorem findap_fixed_variants_agree (tol : α) (y : List α) :
    findapSeqFix tol y = (findapDefFix tol y).map (fun m => selOf m y 0) :=
  fixSt_agree _ (stol_nonneg tol y) y

/-- the patched numba variant returns a selection for every non-empty signal (finding F14 closed:
no unbound `nxt`), and that selection has the three properties (F22 closed: within `stol`). -/
theorem findap_fixed_numba_variant (tol : α) (a : α) (r : List α) :
    ∃ l, findapSeqFix tol (a :: r) = some l ∧ l.head? = some (0, a) ∧ Alt (l.map (·.2)) ∧
      ∀ v ∈ a :: r, (∃ s ∈ l.map (·.2), v ≤ s + stol tol (a :: r)) ∧
        (∃ s ∈ l.map (·.2), s ≤ v + stol tol (a :: r)) := by
  have hag := findap_fixed_variants_agree tol (a :: r)
  cases hd : findapDefFix tol (a :: r) with
  | none =>
      unfold findapDefFix at hd
      cases r <;> simp [findapDefFixSt] at hd
  | some m =>
      rw [hd] at hag
      refine ⟨selOf m (a :: r) 0, hag, ?_, findap_fixed_alternates tol _ m hd,
        findap_fixed_extremes_within_stol tol _ m hd⟩
      have h1 := findap_fixed_first_selected tol _ m hd
      cases m with
      | nil => simp at h1
      | cons b m' =>
          simp only [List.head?_cons, Option.some.injEq] at h1
          subst h1
          rfl

/-- no change of behaviour where the vectorised test of the patch passes: the patched default
variant returns exactly what the present one returns. -/
theorem findap_fixed_unchanged_on_fast_path (tol : α) (a : α) (r : List α)
    (hf : fastOK (stol tol (a :: r)) a r = true) :
    findapDefFix tol (a :: r) = findapDef tol (a :: r) :=
  defFixSt_fast _ a r hf

end fixed

/-! ### the recorded counterexamples, re-run on the patched functions -/

/-- F4's signal `[0, 1, 2, 0]`, `tol = 0.51`: the patched default variant keeps `0, 2, 0`. -/
theorem findap_fixed_F4_example :
    findapDefFix (51 / 100 : Rat) [0, 1, 2, 0] = some [true, false, true, true] ∧
      findapSeqFix (51 / 100 : Rat) [0, 1, 2, 0] = some [(0, 0), (2, 2), (3, 0)] := by
  refine ⟨by decide +kernel, by decide +kernel⟩

/-- F14's `[1, 1, 4]`, F22's `[-100, 0, 4, -4]` (`tol = 0.05`, `stol = 5`: the held candidate `0`
is selected, the maximum `4` is missed by `4 ≤ stol`), F23's `[0, 80, 83, 78, 160]`. -/
theorem findap_fixed_F14_F22_F23_examples :
    findapSeqFix (1 / 1000000 : Rat) [1, 1, 4] = some [(0, 1), (2, 4)] ∧
      findapDefFix (1 / 1000000 : Rat) [1, 1, 4] = some [true, false, true] ∧
      findapSeqFix (1 / 20 : Rat) [-100, 0, 4, -4] = some [(0, -100), (1, 0)] ∧
      findapDefFix (1 / 20 : Rat) [-100, 0, 4, -4] = some [true, true, false, false] ∧
      findapSeqFix (1 / 20 : Rat) [0, 80, 83, 78, 160] = some [(0, 0), (4, 160)] ∧
      findapDefFix (1 / 20 : Rat) [0, 80, 83, 78, 160] = some [true, false, false, false, true] := by
  refine ⟨by decide +kernel, by decide +kernel, by decide +kernel, by decide +kernel,
    by decide +kernel, by decide +kernel⟩

/-! ### non-vacuity -/

example : fastOK (stol (1 / 1000000 : Rat) [1, 2, 3, 4, 4, -2, -2, 0]) 1 [2, 3, 4, 4, -2, -2, 0] = true := by
  decide +kernel
example : fastOK (stol (51 / 100 : Rat) [0, 1, 2, 0]) 0 [1, 2, 0] = false := by decide +kernel
example : findapDefFix (1 / 1000000 : Rat) [1, 2, 3, 4, 4, -2, -2, 0]
    = some [true, false, false, true, false, true, false, true] := by decide +kernel

end PyYetiVerif.C10
