import PyYetiVerif.Lemmas.SuCoef
import PyYetiVerif.Model.SuCoefCuts
import Mathlib.Analysis.SpecialFunctions.Pow.Real
import Mathlib.Tactic.NormNum
/-!
# C01 — the regime cut-offs, as the source spells them

`Generated/SuCoefCuts.lean` is regenerated from `pyyeti/ode/_utilities.py`, `solveunc.py`,
`_base_ode_class.py` on every run (`harness/translate/c01_sucoefcuts.py`); the driver's regime dispatch
(`classify` with `cutsGenF`) uses those literals.  The theorems below are about the same literals:

* `cuts_as_documented`        their values are the ones the property and the docstrings name
                              (`0.005`, `1e-8`, `1e-5/√h`, `10 (1e-10/h)^(1/3)`, `5e-5`);
* `crit_regimes_partition`    the three elastic tests `rat ≥ c₁`, `|rat| < c₂`, `rat ≤ −c₃` carry three
                              separate literals in the source; with the generated values exactly one of
                              them holds for every real ratio — no "Partitioning problem", no overlap;
* `classify_elastic_spec`, `classify_rb_spec`   the dispatch of `get_su_coef` (`classify`) written
                              out with the documented numbers.

An edit of any one literal makes `lake build` fail here (the runner then reports the broken tie and
searches a failing input at the boundary).
-/
namespace PyYetiVerif.C01
open PyYetiVerif.SuCoef PyYetiVerif.Generated

/-- the value of a source literal `mantissa · 10^exponent` -/
noncomputable def decVal (d : Nat × Int) : ℝ := (d.1 : ℝ) * (10 : ℝ) ^ d.2

/-- `get_su_coef`'s cut-offs over the reals, from the generated literals -/
noncomputable def cutsGenR (h : ℝ) : Cuts ℝ :=
  { rbTol := decVal SuCoefCuts.rbTolCoef
    underTol := decVal SuCoefCuts.underTol
    critTol := decVal SuCoefCuts.critTol
    overTol := decVal SuCoefCuts.overTol
    veloCut := decVal SuCoefCuts.veloNum / Real.sqrt h
    dispCut := decVal SuCoefCuts.dispFactor *
      (decVal SuCoefCuts.dispBase / h) ^ (decVal SuCoefCuts.dispRootNum / decVal SuCoefCuts.dispRootDen) }

theorem cuts_as_documented :
    decVal SuCoefCuts.rbTolCoef = 5 / 1000 ∧ decVal SuCoefCuts.rbTolPart = 5 / 1000 ∧
    decVal SuCoefCuts.underTol = 1 / 10 ^ 8 ∧ decVal SuCoefCuts.critTol = 1 / 10 ^ 8 ∧
    decVal SuCoefCuts.overTol = 1 / 10 ^ 8 ∧
    decVal SuCoefCuts.veloNum = 1 / 10 ^ 5 ∧ decVal SuCoefCuts.dispFactor = 10 ∧
    decVal SuCoefCuts.dispBase = 1 / 10 ^ 10 ∧
    decVal SuCoefCuts.dispRootNum / decVal SuCoefCuts.dispRootDen = 1 / 3 ∧
    decVal SuCoefCuts.cplxSmallTol = 5 / 10 ^ 5 := by
  simp only [decVal, SuCoefCuts.rbTolCoef, SuCoefCuts.rbTolPart, SuCoefCuts.underTol,
    SuCoefCuts.critTol, SuCoefCuts.overTol, SuCoefCuts.veloNum, SuCoefCuts.dispFactor,
    SuCoefCuts.dispBase, SuCoefCuts.dispRootNum, SuCoefCuts.dispRootDen, SuCoefCuts.cplxSmallTol]
  norm_num

/-- for every real ratio `rat = w2/wo2` exactly one of the three tests of `get_su_coef` holds -/
theorem crit_regimes_partition (rat : ℝ) :
    (decVal SuCoefCuts.underTol ≤ rat ∧ ¬ |rat| < decVal SuCoefCuts.critTol ∧
        ¬ rat ≤ -decVal SuCoefCuts.overTol) ∨
    (¬ decVal SuCoefCuts.underTol ≤ rat ∧ |rat| < decVal SuCoefCuts.critTol ∧
        ¬ rat ≤ -decVal SuCoefCuts.overTol) ∨
    (¬ decVal SuCoefCuts.underTol ≤ rat ∧ ¬ |rat| < decVal SuCoefCuts.critTol ∧
        rat ≤ -decVal SuCoefCuts.overTol) := by
  obtain ⟨-, -, hu, hc, ho, -⟩ := cuts_as_documented
  rw [hu, hc, ho]
  have hpos : (0 : ℝ) < 1 / 10 ^ 8 := by positivity
  by_cases h1 : (1 : ℝ) / 10 ^ 8 ≤ rat
  · left
    refine ⟨h1, ?_, ?_⟩
    · rw [abs_lt]; intro h; linarith [h.2]
    · intro h; linarith
  · right
    push_neg at h1
    by_cases h2 : rat ≤ -(1 / 10 ^ 8 : ℝ)
    · right
      refine ⟨not_le.2 h1, ?_, h2⟩
      rw [abs_lt]; intro h; linarith [h.1]
    · left
      push_neg at h2
      exact ⟨not_le.2 h1, abs_lt.2 ⟨h2, h1⟩, not_le.2 h2⟩

/-- the dispatch of an elastic mode (`pvel`): never the "Partitioning problem" error over the reals,
and the regime is decided by the documented `1e-8` -/
theorem classify_elastic_spec (h m b k : ℝ) :
    classify (cutsGenR h) m b k (some false) false =
      some (if 1 / 10 ^ 8 ≤ (k / m - (b / m / 2) * (b / m / 2)) / (k / m) then Regime.under
        else if -(1 / 10 ^ 8) < (k / m - (b / m / 2) * (b / m / 2)) / (k / m) then Regime.crit
        else Regime.over) := by
  obtain ⟨-, -, hu, hc, ho, -⟩ := cuts_as_documented
  set rat := (k / m - (b / m / 2) * (b / m / 2)) / (k / m) with hrat
  have hp := crit_regimes_partition rat
  rw [hu, hc, ho] at hp
  simp only [classify, cutsGenR, hu, hc, ho, TransOps.abs, Bool.false_eq_true, if_false, ← hrat]
  rcases hp with ⟨h1, h2, h3⟩ | ⟨h1, h2, h3⟩ | ⟨h1, h2, h3⟩
  · rw [decide_eq_true h1, decide_eq_false h2, decide_eq_false h3, if_pos h1]
  · have : -(1 / 10 ^ 8 : ℝ) < rat := (abs_lt.1 h2).1
    rw [decide_eq_false h1, decide_eq_true h2, decide_eq_false h3, if_neg h1, if_pos this]
  · have : ¬ -(1 / 10 ^ 8 : ℝ) < rat := not_lt.2 h3
    rw [decide_eq_false h1, decide_eq_false h2, decide_eq_true h3, if_neg h1, if_neg this]

/-- the dispatch of a rigid-body mode (`pvrb`): undamped formulas up to `|C| = 1e-5/√h`, the damped
velocity formulas above it, all damped formulas above `|C| = 10 (1e-10/h)^(1/3)` -/
theorem classify_rb_spec (h m b k : ℝ) :
    classify (cutsGenR h) m b k (some true) false =
      some (if 1 / 10 ^ 5 / Real.sqrt h < |b / m / 2| then
          (if 10 * (1 / 10 ^ 10 / h) ^ ((1 : ℝ) / 3) < |b / m / 2| then Regime.rigidFull
            else Regime.rigidVelo)
        else Regime.rigid) := by
  obtain ⟨-, -, -, -, -, hv, hf, hb, hr, -⟩ := cuts_as_documented
  simp only [classify, cutsGenR, hv, hf, hb, hr, TransOps.abs, if_true, Bool.false_eq_true, if_false]
  split_ifs <;> rfl

/-- auto-detection inside `get_su_coef` (`rbmodes is None`): rigid-body iff `k/m < 0.005` -/
theorem classify_auto_rb_iff (h m b k : ℝ) :
    (∃ r, classify (cutsGenR h) m b k none false = some r ∧
      (r = .rigid ∨ r = .rigidVelo ∨ r = .rigidFull)) ↔ k / m < 5 / 1000 := by
  obtain ⟨hrb, -⟩ := cuts_as_documented
  have e1 : classify (cutsGenR h) m b k none false =
      if k / m < 5 / 1000 then classify (cutsGenR h) m b k (some true) false
      else classify (cutsGenR h) m b k (some false) false := by
    simp only [classify, cutsGenR, hrb]
    split_ifs <;> simp_all
  rw [e1]
  constructor
  · rintro ⟨r, hr, hreg⟩
    by_contra hn
    rw [if_neg hn, classify_elastic_spec] at hr
    simp only [Option.some.injEq] at hr
    subst hr
    split_ifs at hreg <;> simp at hreg
  · intro hlt
    rw [if_pos hlt, classify_rb_spec]
    refine ⟨_, rfl, ?_⟩
    split_ifs <;> simp

/-! ### non-vacuity -/

example : classify (cutsGenR 1) 1 0 4 (some false) false = some .under := by
  rw [classify_elastic_spec]; norm_num

example : classify (cutsGenR 1) 1 4 4 (some false) false = some .crit := by
  rw [classify_elastic_spec]; norm_num

example : classify (cutsGenR 1) 1 10 4 (some false) false = some .over := by
  rw [classify_elastic_spec]; norm_num

example : classify (cutsGenR 1) 1 0 0 (some true) false = some .rigid := by
  rw [classify_rb_spec]; simp

end PyYetiVerif.C01
