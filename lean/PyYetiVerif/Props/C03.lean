import PyYetiVerif.Lemmas.SrsPipe
import PyYetiVerif.Generated.SrsCoef
/-!
# C03 — shock response spectrum equals the exact single-DOF response peaks

Property theorems only (helper lemmas live in `Lemmas/Srs.lean`).

* `gen_<stype>`: the coefficient functions translated from pyyeti/srs.py by
  harness/translate/c03_srscoef.py (`Generated/SrsCoef.lean`, regenerated on every run) are the
  hand-written model functions the theorems below are about — for every carrier type, hence
  also for the `Float` instance the correspondence check executes.
* the remaining theorems are over `ℝ`: `Q > 1/2`, `dT > 0`, `wn > 0`.  `Osc.uAt / Osc.vAt` are the
  closed-form solution of `u'' + 2ζωu' + ω²u = -x(t)` for an input that is linear over one
  sample interval (`exact_solves_ode`), `exactResp` steps it through the record starting at rest
  one sample before the record with the input ramping up from zero — the precise content of
  `ic = 'zero'` (srs.py docstring note) — and `ramp_invariant` says that
  `scipy.signal.lfilter(b, a, sig)` with the code's coefficients returns exactly that response.
  Floating-point round-off of the recursion is outside these statements (conditioning domain
  `sr/fn <= 2000`, measured by the correspondence check and the oracle).
-/
namespace PyYetiVerif.C03
open PyYetiVerif.Srs

/-! ## translated source = model (one obligation per coefficient function) -/
section translated
set_option linter.unusedSectionVars false
variable {α : Type} [Add α] [Sub α] [Mul α] [Div α] [Neg α] [BEq α]
  [OfNat α 0] [OfNat α 1] [OfNat α 2] [OfNat α 4] [OfNat α 6] [TransOps α]

theorem gen_absacce (Q dT wn : α) : Generated.SrsCoef.absacce Q dT wn = Srs.absacce Q dT wn := rfl
theorem gen_relacce (Q dT wn : α) : Generated.SrsCoef.relacce Q dT wn = Srs.relacce Q dT wn := rfl
theorem gen_reldisp (Q dT wn : α) : Generated.SrsCoef.reldisp Q dT wn = Srs.reldisp Q dT wn := rfl
theorem gen_pvelo (Q dT wn : α) : Generated.SrsCoef.pvelo Q dT wn = Srs.pvelo Q dT wn := rfl
theorem gen_pacce (Q dT wn : α) : Generated.SrsCoef.pacce Q dT wn = Srs.pacce Q dT wn := rfl
theorem gen_relvelo (Q dT wn : α) : Generated.SrsCoef.relvelo Q dT wn = Srs.relvelo Q dT wn := rfl
end translated

/-! ## the exact one-step solution -/

/-- `uAt`, `vAt` solve the oscillator equation with the linearly interpolated input and the
initial state `(u0, v0)`; `wd² = wn²(1 - ζ²)` is the under-damped relation. -/
theorem exact_solves_ode (o : Osc ℝ) (hw : o.wn ≠ 0) (hh : o.dT ≠ 0) (hd : o.wd ≠ 0)
    (hwd : o.wd * o.wd = o.wn * o.wn * (1 - o.zeta * o.zeta)) (u0 v0 x0 x1 t : ℝ) :
    HasDerivAt (fun τ => o.uAt u0 v0 x0 x1 τ) (o.vAt u0 v0 x0 x1 t) t ∧
    (∃ a, HasDerivAt (fun τ => o.vAt u0 v0 x0 x1 τ) a t ∧
      a + 2 * (o.zeta * o.wn) * o.vAt u0 v0 x0 x1 t + o.wn * o.wn * o.uAt u0 v0 x0 x1 t
        = -(x0 + (x1 - x0) * t / o.dT)) ∧
    o.uAt u0 v0 x0 x1 0 = u0 ∧ o.vAt u0 v0 x0 x1 0 = v0 :=
  exact_solves_ode' o hw hh hd hwd u0 v0 x0 x1 t

/-- the one-step map of the exact solution is affine in `(u, v, x_n, x_{n+1})`; its matrix is
`[[A11, A12], [A21, A22]]` (the unit responses). -/
theorem exact_step_affine (Q h w : ℝ) (hQ : 1 / 2 < Q) (hh : 0 < h) (hw : 0 < w) (u v x x' : ℝ) :
    (Osc.ofQ Q h w).uAt u v x x' h
        = A11 (Osc.ofQ Q h w) * u + A12 (Osc.ofQ Q h w) * v + P1 (Osc.ofQ Q h w) * x
          + R1 (Osc.ofQ Q h w) * x' ∧
    (Osc.ofQ Q h w).vAt u v x x' h
        = A21 (Osc.ofQ Q h w) * u + A22 (Osc.ofQ Q h w) * v + P2 (Osc.ofQ Q h w) * x
          + R2 (Osc.ofQ Q h w) * x' :=
  ⟨uAt_affine _ hw.ne' hh.ne' (ofQ_wd_ne hQ hw) u v x x',
   vAt_affine _ hw.ne' hh.ne' (ofQ_wd_ne hQ hw) u v x x'⟩

/-- `a = [1, -2C, E²]` is the characteristic polynomial `[1, -tr A, det A]` of the exact
one-step matrix, for every response type. -/
theorem a_coeffs_are_charpoly (st : SType) (Q h w : ℝ) (hQ : 1 / 2 < Q) (hh : 0 < h) (hw : 0 < w) :
    (st.coef Q h w).a =
      [1, -(A11 (Osc.ofQ Q h w) + A22 (Osc.ofQ Q h w)),
        A11 (Osc.ofQ Q h w) * A22 (Osc.ofQ Q h w) - A12 (Osc.ofQ Q h w) * A21 (Osc.ofQ Q h w)] :=
  coef_a_eq st Q h w hQ hh hw

/-! ## ramp invariance -/

/-- for every response type and every input record the filter output equals the exact
oscillator response to the linearly interpolated input (at rest one sample before the record). -/
theorem ramp_invariant (st : SType) (Q h w : ℝ) (hQ : 1 / 2 < Q) (hh : 0 < h) (hw : 0 < w)
    (xs : List ℝ) : lfilter (st.coef Q h w) xs = exactResp st Q h w xs :=
  lfilter_eq_exact st Q h w hQ hh hw xs

theorem ramp_invariant_absacce (Q h w : ℝ) (hQ : 1 / 2 < Q) (hh : 0 < h) (hw : 0 < w)
    (xs : List ℝ) : lfilter (absacce Q h w) xs = exactResp .absacce Q h w xs :=
  ramp_invariant .absacce Q h w hQ hh hw xs

theorem ramp_invariant_reldisp (Q h w : ℝ) (hQ : 1 / 2 < Q) (hh : 0 < h) (hw : 0 < w)
    (xs : List ℝ) : lfilter (reldisp Q h w) xs = exactResp .reldisp Q h w xs :=
  ramp_invariant .reldisp Q h w hQ hh hw xs

/-! ## relations between the coefficient sets -/

/-- `b_pvelo = wn · b_reldisp` -/
theorem pvelo_eq (Q h w : ℝ) (hh : h ≠ 0) (hw : w ≠ 0) :
    (pvelo Q h w).b = (reldisp Q h w).b.map (w * ·) ∧ (pvelo Q h w).a = (reldisp Q h w).a :=
  pvelo_eq' Q h w hh hw

/-- `b_pacce = wn² · b_reldisp` -/
theorem pacce_eq (Q h w : ℝ) (hh : h ≠ 0) (hw : w ≠ 0) :
    (pacce Q h w).b = (reldisp Q h w).b.map (w * w * ·) ∧ (pacce Q h w).a = (reldisp Q h w).a :=
  pacce_eq' Q h w hh hw

/-- `Σb = gain · Σa` for every response type; `dcGain` (Lemmas/Srs.lean) is `1` for absacce, `0` for
relacce and relvelo, `-1/wn²` for reldisp, `-1/wn` for pvelo, `-1` for pacce -/
theorem dc_gain (st : SType) (Q h w : ℝ) (hQ : 1 / 2 < Q) (hh : 0 < h) (hw : 0 < w) :
    coefAt (st.coef Q h w).b 0 + coefAt (st.coef Q h w).b 1 + coefAt (st.coef Q h w).b 2
      = dcGain w st *
        (coefAt (st.coef Q h w).a 0 + coefAt (st.coef Q h w).a 1 + coefAt (st.coef Q h w).a 2) :=
  dc_gain' st Q h w hQ hh hw

/-- `Σa = 1 - 2C + E² > 0`: the static gain `Σb/Σa` is well defined -/
theorem suma_pos (st : SType) (Q h w : ℝ) (hQ : 1 / 2 < Q) (hh : 0 < h) (hw : 0 < w) :
    0 < coefAt (st.coef Q h w).a 0 + coefAt (st.coef Q h w).a 1 + coefAt (st.coef Q h w).a 2 :=
  suma_pos' st Q h w hQ hh hw

/-- the `ic='steady'` add-back is exactly `gain · s1` on every sample -/
theorem steady_addback_is_dc_gain (st : SType) (w s1 : ℝ) (hw : w ≠ 0) (sig resp : List ℝ) :
    addBack st w (processIc .steady st s1 sig).2 resp = resp.map (· + dcGain w st * s1) := by
  cases st <;> simp [addBack, processIc, dcGain] <;> intros <;> field_simp

/-! ## lfilter is linear and causal; peaks -/

/-- scaling the record scales the response (hence the spectrum) -/
theorem lfilter_scale (c : Coef ℝ) (k : ℝ) (xs : List ℝ) :
    lfilter c (xs.map (k * ·)) = (lfilter c xs).map (k * ·) := lfilter_scale' c k xs

/-- the response to a sum is the sum of the responses -/
theorem lfilter_add (c : Coef ℝ) (xs ys : List ℝ) (hl : xs.length = ys.length) :
    lfilter c (List.zipWith (· + ·) xs ys) = List.zipWith (· + ·) (lfilter c xs) (lfilter c ys) :=
  lfilter_add' c xs ys hl

/-- causality: the primary-window history is the first `N` samples of the total-window history -/
theorem lfilter_append_take (c : Coef ℝ) (xs ys : List ℝ) :
    (lfilter c (xs ++ ys)).take xs.length = lfilter c xs := lfilter_append_take' c xs ys

/-- `abs = max(pos, neg)` on every window -/
theorem peak_abs_eq_max_pos_neg (x : ℝ) (xs : List ℝ) :
    Peak.abs.sel x xs = max (Peak.pos.sel x xs) (Peak.neg.sel x xs) := abs_sel_eq x xs

/-- the total-window `abs` peak dominates the primary- and the residual-window peaks
(whenever those windows are non-empty), for any split of a history. -/
theorem peak_total_ge (l1 l2 : List ℝ) (y : ℝ) (ys : List ℝ) (h : l1 ++ l2 = y :: ys) :
    (∀ a as, l1 = a :: as → Peak.abs.sel a as ≤ Peak.abs.sel y ys) ∧
    (∀ a as, l2 = a :: as → Peak.abs.sel a as ≤ Peak.abs.sel y ys) := peak_total_ge' l1 l2 y ys h

/-- `eqsine=True` divides history and spectrum value by `Q` -/
theorem eqsine_eq (o : Opts) (Q sr f s1 : ℝ) (freqs : List ℝ) (icv : Option ℝ) (sg : List ℝ) :
    srsTail { o with eqsine := true } Q sr freqs f s1 icv sg
      = (srsTail { o with eqsine := false } Q sr freqs f s1 icv sg).map
          fun r => (r.1.map (· / Q), r.2 / Q) := by
  simp only [srsTail]
  split <;> simp

/-- column order does not matter: permuting the signal columns permutes each spectrum row -/
theorem column_permutation (o : Opts) (Q sr : ℝ) (freqs : List ℝ) (cols cols' : List (List ℝ))
    (hp : cols.Perm cols') :
    List.Forall₂ List.Perm (srsAll o Q sr freqs cols) (srsAll o Q sr freqs cols') := by
  have key : ∀ fl : List ℝ, List.Forall₂ List.Perm
      (fl.map fun f => cols.map fun sig => srsCol o Q sr freqs f sig)
      (fl.map fun f => cols'.map fun sig => srsCol o Q sr freqs f sig) := by
    intro fl
    induction fl with
    | nil => exact List.Forall₂.nil
    | cons f fs ih => exact List.Forall₂.cons (hp.map _) ih
  exact key freqs

/-! ## window indices -/

/-- lengths of the returned histories: primary `N`, total `N + nzeros`, residual `nzeros`, with
`nzeros = ⌈sr / minf⌉` for the smallest positive frequency (0 if there is none). -/
theorem window_lengths (o : Opts) (Q sr f s1 : ℝ) (freqs : List ℝ) (icv : Option ℝ) (sg : List ℝ)
    (r : List ℝ × ℝ) (h : srsTail o Q sr freqs f s1 icv sg = some r) :
    r.1.length = match o.time with
      | .primary => sg.length
      | .total => sg.length + nzeros sr freqs
      | .residual => nzeros sr freqs := window_lengths' o Q sr f s1 freqs icv sg r h

theorem nzeros_eq (sr : ℝ) (freqs : List ℝ) (minf : ℝ) (h : minPos freqs = some minf) :
    nzeros sr freqs = ⌈sr / minf⌉₊ := by
  simp [nzeros, h]

/-! ## vrs quadrature -/

/-- the area weights of `srs.vrs` (cell-centred `(f_{i+1} - f_{i-1})/2`, one-sided full end cells)
integrate exactly like the trapezoid rule on the (possibly non-uniform) grid plus half of the first
cell times the first ordinate plus half of the last cell times the last ordinate. -/
theorem vrs_quadrature_is_trapezoid_plus_half_end_cells (f0 g0 f1 g1 : ℝ) (rest : List (ℝ × ℝ)) :
    vrsSum ((f0, g0) :: (f1, g1) :: rest)
      = some (trapz ((f0, g0) :: (f1, g1) :: rest) + (f1 - f0) / 2 * g0 + endHalf f0 f1 g1 rest) :=
  vrsSum_eq f0 g0 f1 g1 rest

/-- on three points: weights `f1 - f0`, `(f2 - f0)/2`, `f2 - f1` (non-vacuity / reading aid) -/
example (f0 f1 f2 g0 g1 g2 : ℝ) :
    vrsSum [(f0, g0), (f1, g1), (f2, g2)]
      = some ((f1 - f0) * g0 + ((f2 - f0) / 2 * g1 + (f2 - f1) * g2)) := rfl

/-! ## non-vacuity: the hypotheses are inhabited and the statements are not empty -/
example : ∃ Q h w : ℝ, 1 / 2 < Q ∧ 0 < h ∧ 0 < w := ⟨10, 1 / 1000, 300, by norm_num, by norm_num, by norm_num⟩
example : lfilter (⟨[1, 2, 3], [1, 0, 0]⟩ : Coef ℝ) [1, 1] = [1, 3] := by
  norm_num [lfilter, lfilterAux, coefAt]
example : Peak.abs.sel (1 : ℝ) [-3, 2] = 3 ∧ Peak.pos.sel (1 : ℝ) [-3, 2] = 2
    ∧ Peak.neg.sel (1 : ℝ) [-3, 2] = 3 := by
  norm_num [Peak.sel, maxOf, minOf, absv]
example : (exactResp .reldisp (10 : ℝ) 1 1 [1, 2, 3]).length = 3 := by
  simp [exactResp, Osc.states, Osc.statesAux]

end PyYetiVerif.C03
