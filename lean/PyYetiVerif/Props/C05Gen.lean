import PyYetiVerif.Lemmas.RainflowEntry
import PyYetiVerif.Lemmas.RainflowGenC1
import PyYetiVerif.Lemmas.RainflowGenC2
import PyYetiVerif.Props.C05
/-!
# C05, second part — the source as translated, and the public entry points

`Generated/PyRain.lean` is what `harness/translate/c05_pyrain.py` makes of
`pyyeti/rainflow/py_rain.py` (a shallow embedding: arrays indexed by `j`/`n`, in-place writes, loops
with `break`; partial: any index out of range, any unwritten cell read or returned, any exhausted
fuel is a failure).  `Generated/RainflowWrap.lean` is what it makes of the import block and the
wrapper of `pyyeti/cyclecount.py`.  The theorems below say that these programs never fail and are
the hand-written model, so the twelve theorems of `Props/C05.lean` and the structure theorems of
`Props/C05Struct.lean` hold of what the source says now.

`Ops α` + `habs` is every element type in which `abs(a - b)` is the model's `absd a b`; every
linearly ordered field is one (`fieldOps`, `fieldOps_abs`).
-/
namespace PyYetiVerif.C05
open PyYetiVerif.Rainflow PyYetiVerif.RainflowImp PyYetiVerif.RainflowEntry PyYetiVerif.RainflowGen

section generated
variable {α : Type} [Ops α]

/-- `_rainflow1` as translated computes the model's table, row by row `[rng/2, sum/2, 1.0|0.5]`;
in particular it never fails: no index out of range, no unwritten cell read or returned, the
slice `rf[: L - fullcyclesp1]` is exactly the written rows, and fuel `L` suffices for `while`. -/
theorem generated_rainflow1_eq_model (habs : ∀ a b : α, Ops.abs (a - b) = absd a b)
    (pts : List α) (h1 : 1 ≤ pts.length) (fuel : Nat) (hf : pts.length ≤ fuel) :
    (PyYetiVerif.Generated.PyRain.rainflow1 fuel (Arr.ofList pts) (pts.length : Int)).bind Arr2.toRows
      = some ((rainflow1 pts).map rfRow) :=
  RainflowGen.generated_rainflow1_eq_model habs pts h1 fuel hf

/-- `_rainflow2` as translated computes the model's table and offsets. -/
theorem generated_rainflow2_eq_model (habs : ∀ a b : α, Ops.abs (a - b) = absd a b)
    (pts : List α) (h1 : 1 ≤ pts.length) (fuel : Nat) (hf : pts.length ≤ fuel) :
    (PyYetiVerif.Generated.PyRain.rainflow2 fuel (Arr.ofList pts) (pts.length : Int)).bind tables
      = some ((rainflow pts).map rfRowC, (rainflow pts).map osRow) :=
  RainflowGen.generated_rainflow2_eq_model habs pts h1 fuel hf

/-- `py_rain.rainflow(peaks, getoffsets)` as translated is the entry model `pyEntry`: `ValueError`
in the same cases, the same table otherwise, never an internal failure. -/
theorem generated_entry_eq_model (habs : ∀ a b : α, Ops.abs (a - b) = absd a b)
    (nd : Nd α) (g : Bool) (fuel : Nat) (hf : nd.data.length ≤ fuel) :
    observe (PyYetiVerif.Generated.PyRain.rainflow fuel nd g) = pyEntry nd (some g) :=
  RainflowGen.generated_entry_eq_model habs nd g fuel hf

/-- `cyclecount.rainflow` as translated, on top of any `rain.rainflow` that behaves like the entry
model of the imported implementation, is the wrapper model; and the import block binds `rain` as
the model says. -/
theorem generated_wrapper_eq_model (available : Impl → Bool)
    (rain : Nd α → Bool → Except PyErr (PyResult α))
    (hrain : ∀ nd g, observe (rain nd g) = implEntry (imported available) nd (some g))
    (nd : Nd α) (g up : Bool) :
    observeW (PyYetiVerif.Generated.RainflowWrap.rainflow rain nd g up)
        = wrapper available nd (some g) (some up) ∧
      PyYetiVerif.Generated.RainflowWrap.imported available = imported available :=
  ⟨RainflowGen.generated_wrapper_eq_model available rain hrain nd g up,
   RainflowGen.generated_imported_eq_model available⟩

/-- the C `rainflow1` (c_rain.c as translated by harness/translate/c05_crain.py, with
USE_FASTER_RAINFLOW_ROUTINE defined — which is what the file itself selects: `shippedFast`) computes the
model's table: no index out of range, no unwritten cell read or returned, the pointer bumps
`*rf++ = …` fill exactly the rows that the final slice returns -/
theorem generated_c_rainflow1_eq_model (habs : ∀ a b : α, Ops.abs (a - b) = absd a b)
    (pts : List α) (h1 : 1 ≤ pts.length) (fuel : Nat) (hf : pts.length ≤ fuel) :
    (PyYetiVerif.Generated.CRain.rainflow1_fast fuel (Arr.ofList pts) (pts.length : Int)).bind Arr2.toRows
        = some ((rainflow1 pts).map rfRow) ∧ PyYetiVerif.Generated.CRain.shippedFast = true :=
  ⟨RainflowGen.generated_c_rainflow1_fast_eq_model habs pts h1 fuel hf, rfl⟩

/-- the C `rainflow2` as translated (macro defined) computes the model's table and offsets -/
theorem generated_c_rainflow2_eq_model (habs : ∀ a b : α, Ops.abs (a - b) = absd a b)
    (pts : List α) (h1 : 1 ≤ pts.length) (fuel : Nat) (hf : pts.length ≤ fuel) :
    (PyYetiVerif.Generated.CRain.rainflow2_fast fuel (Arr.ofList pts) (pts.length : Int)).bind tables
        = some ((rainflow pts).map rfRowC, (rainflow pts).map osRow) ∧
      PyYetiVerif.Generated.CRain.shippedFast = true :=
  ⟨RainflowGen.generated_c_rainflow2_fast_eq_model habs pts h1 fuel hf, rfl⟩

/-- hence the C and the Python counting routines, as translated, return the same tables -/
theorem generated_c_eq_generated_py (habs : ∀ a b : α, Ops.abs (a - b) = absd a b)
    (pts : List α) (h1 : 1 ≤ pts.length) (fuel : Nat) (hf : pts.length ≤ fuel) :
    (PyYetiVerif.Generated.CRain.rainflow2_fast fuel (Arr.ofList pts) (pts.length : Int)).bind tables
        = (PyYetiVerif.Generated.PyRain.rainflow2 fuel (Arr.ofList pts) (pts.length : Int)).bind tables ∧
      (PyYetiVerif.Generated.CRain.rainflow1_fast fuel (Arr.ofList pts) (pts.length : Int)).bind Arr2.toRows
        = (PyYetiVerif.Generated.PyRain.rainflow1 fuel (Arr.ofList pts) (pts.length : Int)).bind Arr2.toRows := by
  rw [(generated_c_rainflow2_eq_model habs pts h1 fuel hf).1, (generated_c_rainflow1_eq_model habs pts h1 fuel hf).1,
    generated_rainflow2_eq_model habs pts h1 fuel hf, generated_rainflow1_eq_model habs pts h1 fuel hf]
  exact ⟨rfl, rfl⟩

end generated

/-! ### the entry points -/
section entry
variable {α : Type} [Ops α]

/-- every implementation refuses with `ValueError` exactly the inputs that are not a vector of at
least two points — 0-d, 2-d (also 1×n and n×1), empty, one point — whatever `getoffsets` is (the C
wrapper only gets that far for a dtype that casts safely to float64); -/
theorem entry_refuses_iff (i : Impl) (nd : Nd α) (hw : NdWF nd) (g : Option Bool) :
    implEntry i nd g = .error .valueError ↔
      (i = .c_rain → nd.safe = true) ∧ ¬ (nd.ndim = 1 ∧ 2 ≤ nd.data.length) := by
  have hpy := atleast_1d_wf nd hw
  cases i with
  | c_rain =>
      simp only [implEntry, cEntry]
      cases hs : nd.safe with
      | false => simp
      | true =>
          by_cases h1 : nd.ndim = 1
          · by_cases h2 : nd.data.length < 2
            · simp [h1, h2]
            · simp [h1, h2]
          · simp [h1]
  | py_rain =>
      simp only [implEntry, pyEntry]
      rw [← hpy]
      by_cases h1 : nd.atleast_1d.ndim = 1
      · by_cases h2 : nd.atleast_1d.data.length < 2
        · simp [h1, h2]
        · simp [h1, h2]
      · simp [h1]

/-- … the only other refusal is the C wrapper's `TypeError` for a dtype that does not cast safely
(longdouble, complex, object), and no entry point ever fails internally. -/
theorem entry_other_errors (i : Impl) (nd : Nd α) (g : Option Bool) :
    implEntry i nd g ≠ .error .internal ∧
      (implEntry i nd g = .error .typeError ↔ i = .c_rain ∧ nd.safe = false) := by
  cases i with
  | c_rain =>
      simp only [implEntry, cEntry]
      cases hs : nd.safe
      · simp
      · simp only [Bool.not_true, Bool.false_eq_true, if_false]
        split <;> (try split) <;> simp
  | py_rain =>
      simp only [implEntry, pyEntry]
      split <;> (try split) <;> simp

/-- FULL STATEMENT (false as it stands, see `entry_impls_agree_needs_safe`): the two implementations
are the same function of `(peaks, getoffsets)`:
`∀ nd g, NdWF nd → implEntry .py_rain nd g = implEntry .c_rain nd g`.
Proved here for arrays whose dtype casts safely to float64 (`nd.safe`). -/
theorem entry_impls_agree_partial (nd : Nd α) (hw : NdWF nd) (hs : nd.safe = true) (g : Option Bool) :
    implEntry .py_rain nd g = implEntry .c_rain nd g := by
  have hpy := atleast_1d_wf nd hw
  simp only [implEntry, cEntry, pyEntry, atleast_1d_data, hs]
  by_cases h1 : nd.ndim = 1 ∧ 2 ≤ nd.data.length
  · have h2 := hpy.mpr h1
    rw [atleast_1d_data] at h2
    have a1 : ¬ nd.data.length < 2 := by omega
    simp [h1.1, h2.1, a1]
  · have h2 : ¬ (nd.atleast_1d.ndim = 1 ∧ 2 ≤ nd.data.length) := by
      rw [← atleast_1d_data nd]; exact fun h => h1 (hpy.mp h)
    have e1 : (if nd.ndim = 1 then nd.data.length else 0) < 2 := by
      by_cases h : nd.ndim = 1
      · simp only [h, if_true]; have := fun h' => h1 ⟨h, h'⟩; omega
      · simp [h]
    have e2 : (if nd.atleast_1d.ndim = 1 then nd.data.length else 0) < 2 := by
      by_cases h : nd.atleast_1d.ndim = 1
      · simp only [h, if_true]; have := fun h' => h2 ⟨h, h'⟩; omega
      · simp [h]
    simp [e1, e2]

/-- the hypothesis is necessary: for a vector of a dtype that does not cast safely (`np.longdouble`)
py_rain returns a table and c_rain raises `TypeError` -/
theorem entry_impls_agree_needs_safe :
    ∃ nd : Nd α, NdWF nd ∧ ∀ g, implEntry .py_rain nd g ≠ implEntry .c_rain nd g := by
  refine ⟨⟨[2], [Ops.c1, Ops.c05], false⟩, by simp [NdWF], ?_⟩
  intro g
  simp [implEntry, cEntry, pyEntry, Nd.atleast_1d, Nd.ndim]

/-- shape of an accepted call's result: `L - 1 - fullcycles` rows of three numbers; with
`getoffsets` also as many rows of two integers, without it no offsets at all -/
theorem entry_result_shape (i : Impl) (nd : Nd α) (g : Option Bool) (o : Out α)
    (h : implEntry i nd g = .ok o) :
    o.values.1.length + ((rainflow nd.data).filter (·.full)).length = nd.data.length - 1 ∧
      (∀ r ∈ o.values.1, r.length = 3) ∧
      (g.getD false = true → ∃ os, o.values.2 = some os ∧ os.length = o.values.1.length ∧
        ∀ r ∈ os, r.length = 2) ∧
      (g.getD false = false → o.values.2 = none) := by
  have := implEntry_ok i nd g o h
  subst this
  have hr := rows_total nd.data
  cases hg : g.getD false with
  | true =>
      simp only [count, if_true, Out.values, List.length_map]
      refine ⟨hr, ?_, fun _ => ⟨_, rfl, by simp, ?_⟩, by simp⟩
      · intro r hr; obtain ⟨c, _, rfl⟩ := List.mem_map.mp hr; simp [rfRowC]
      · intro r hr; obtain ⟨c, _, rfl⟩ := List.mem_map.mp hr; simp [osRow]
  | false =>
      simp only [count, Out.values, offsets_variant_agrees, Bool.false_eq_true, if_false]
      refine ⟨by simpa using hr, ?_, by simp, by simp⟩
      intro r hr; obtain ⟨c, _, rfl⟩ := List.mem_map.mp hr; simp [rfRow]

omit [Ops α] in
theorem relabel_values (o : Out α) : (relabel o).values = o.values := by
  cases o <;> rfl

/-- the wrapper returns exactly the numbers of the implementation it imported (of either
implementation when the dtype casts safely), for both `use_pandas` settings; with `use_pandas` the packaging is DataFrames with columns
amp/mean/count and start/stop, without it the implementation's own arrays -/
theorem wrapper_is_relabel (available : Impl → Bool) (i : Impl) (nd : Nd α) (hw : NdWF nd)
    (hs : i = imported available ∨ nd.safe = true) (g up : Option Bool) :
    wrapper available nd g up =
        (implEntry i nd (some (g.getD false))).map (fun o => if up.getD true then relabel o else o) ∧
      (wrapper available nd g up).map Out.values = (implEntry i nd g).map Out.values := by
  have hi : ∀ g', implEntry (imported available) nd g' = implEntry i nd g' := by
    intro g'
    rcases hs with rfl | hs
    · rfl
    · have := entry_impls_agree_partial nd hw hs g'
      cases imported available <;> cases i <;> simp [this]
  have hg : implEntry i nd g = implEntry i nd (some (g.getD false)) := by
    cases g <;> cases i <;> rfl
  unfold wrapper
  rw [hi, hg]
  cases implEntry i nd (some (g.getD false)) with
  | error e => exact ⟨rfl, rfl⟩
  | ok o =>
      refine ⟨rfl, ?_⟩
      simp only [Except.map]
      split <;> simp [relabel_values]

/-- the result of a call depends on its arguments only: in any session (any calls made before,
on any of the three entry points, with any options) each call returns what it returns on its own;
in particular an omitted `getoffsets` is `False` on every call. -/
theorem call_history_irrelevant (available : Impl → Bool) (st : ModState) (cs : List (Call α)) :
    session available st cs = cs.map (Call.result available) := by
  induction cs generalizing st with
  | nil => rfl
  | cons c cs ih => simp [session, call, ih]

end entry

/-! ### ordered fields are lawful element types -/
section field
variable {α : Type} [Field α] [LinearOrder α] [IsStrictOrderedRing α]

/-- the operations of the source in an ordered field -/
@[reducible] def fieldOps : Ops α where
  decLt := inferInstance
  abs := fun x => |x|
  half := fun x => x / 2
  c05 := 1 / 2
  c1 := 1

theorem fieldOps_abs (a b : α) : (fieldOps (α := α)).abs (a - b) = absd a b := (absd_eq_abs a b).symm

/-- `generated_rainflow2_eq_model` in every linearly ordered field (ℚ, ℝ, …): no hypothesis left -/
theorem generated_rainflow2_eq_model_field (pts : List α) (h1 : 1 ≤ pts.length) :
    letI := fieldOps (α := α)
    (PyYetiVerif.Generated.PyRain.rainflow2 pts.length (Arr.ofList pts) (pts.length : Int)).bind tables
      = some ((rainflow pts).map rfRowC, (rainflow pts).map osRow) :=
  letI := fieldOps (α := α)
  generated_rainflow2_eq_model fieldOps_abs pts h1 pts.length (Nat.le_refl _)

end field

/-! ### non-vacuity -/

/-- integers (doubled values: `half` is exact on the even numbers that occur) -/
@[reducible] def intOps : Ops Int where
  decLt := inferInstance
  abs := fun x => (x.natAbs : Int)
  half := fun x => x / 2
  c05 := 5
  c1 := 10

theorem intOps_abs (a b : Int) : intOps.abs (a - b) = absd a b := by
  show ((a - b).natAbs : Int) = if a < b then b - a else a - b
  split <;> omega

-- the translated `_rainflow2` on (twice) the ASTM E1049 example: table and offsets of the standard
example : letI := intOps
    (PyYetiVerif.Generated.PyRain.rainflow2 9 (Arr.ofList [-4, 2, -6, 10, -2, 6, -8, 8, -4]) 9).bind tables
    = some ([[3, -1, 5], [4, -2, 5], [4, 2, 10], [8, 2, 5], [9, 1, 5], [8, 0, 5], [6, 2, 5]],
            [[0, 1], [1, 2], [4, 5], [2, 3], [3, 6], [6, 7], [7, 8]]) := by decide +kernel

-- the translated C `rainflow2` on the same input
example : letI := intOps
    (PyYetiVerif.Generated.CRain.rainflow2_fast 9 (Arr.ofList [-4, 2, -6, 10, -2, 6, -8, 8, -4]) 9).bind tables
    = some ([[3, -1, 5], [4, -2, 5], [4, 2, 10], [8, 2, 5], [9, 1, 5], [8, 0, 5], [6, 2, 5]],
            [[0, 1], [1, 2], [4, 5], [2, 3], [3, 6], [6, 7], [7, 8]]) := by decide +kernel

-- the translated entry point refuses a 1×3 matrix and a scalar, accepts a vector
example : letI := intOps
    observe (PyYetiVerif.Generated.PyRain.rainflow 3 ({ shape := [1, 3], data := [1, 2, 0] } : Nd Int) true) = .error .valueError := by
  rfl
example : ({ shape := [], data := [7] } : Nd Int).atleast_1d.shape = [1] := by decide
example : NdWF ({ shape := [1, 3], data := [1, 2, 0] } : Nd Int) := by simp [NdWF]

end PyYetiVerif.C05
