import PyYetiVerif.Lemmas.ParSched
import PyYetiVerif.Generated.ParFootprint
/-!
# C09 — parallel execution returns bit-identical results to serial execution

Property theorems only.  What is proved:

* `schedule_independent` — for any system of deterministic tasks in which (H1) every write of
  task `j` goes to a cell owned by `j`, (H2) a step of task `j` depends only on read-only cells and
  on `j`'s own cells, (H3) finished tasks do nothing: EVERY complete schedule (any interleaving of
  the tasks' atomic steps, any number of workers, any completion order) ends in the same shared
  memory — in particular the same as running the tasks one after the other.
* `footprint_gives_hyp` — H1 and H2 follow from a *well-formed footprint* (`wellFormed`, an
  executable test on access patterns).
* `generated_footprints_ok` — the footprints regenerated from `srs._dosrs*` and `fdepsd._dofde`
  on every run are well-formed, and each worker body is the serial loop body up to the renaming
  of the shared arrays (`by decide` on the GENERATED table: an edit that makes a worker write
  `SRSmax_[0]`, read another task's row, or differ from the serial body breaks this obligation).

Not carried by the theorem (DESIGN.md C09, residual): OS scheduling, `RawArray` memory semantics,
floating-point library code paths inside a worker process; sampled by the run-time bit comparison.
-/
namespace PyYetiVerif.C09
open PyYetiVerif.ParSched

variable {L V : Type}

/-- Every complete schedule ends in the same shared memory. -/
theorem schedule_independent (S : System L V) (owner : Cell → Option Nat) (m0 : Mem V)
    (H : Hyp S owner) (σ τ : List Nat)
    (hσ : S.allHalted (S.run m0 σ)) (hτ : S.allHalted (S.run m0 τ)) :
    (S.run m0 σ).mem = (S.run m0 τ).mem := by
  obtain ⟨k, hk⟩ := inv_run S owner m0 H σ _ _ (inv_init S owner m0)
  obtain ⟨k', hk'⟩ := inv_run S owner m0 H τ _ _ (inv_init S owner m0)
  funext c
  show (S.run m0 σ).mem c = (S.run m0 τ).mem c
  unfold System.run
  by_cases hact : ∃ j, owner c = some j ∧ j < S.n
  · obtain ⟨j, hj, hjn⟩ := hact
    rw [hk.mem j c (Or.inr hj), hk'.mem j c (Or.inr hj)]
    have h1 : S.halted j (S.solo m0 j (k j)).1 = true := by
      rw [← hk.loc j]; exact hσ j hjn
    have h2 : S.halted j (S.solo m0 j (k' j)).1 = true := by
      rw [← hk'.loc j]; exact hτ j hjn
    rw [solo_halted_eq S owner m0 H j (k j) (k' j) h1 h2]
  · have hidle : ∀ j, owner c = some j → ¬ j < S.n := fun j hj hjn => hact ⟨j, hj, hjn⟩
    rw [hk.idle c hidle, hk'.idle c hidle]

/-- The serial order: task 0 for `fuel` steps, then task 1, … -/
def serial (n fuel : Nat) : List Nat := (List.range n).flatMap (fun j => List.replicate fuel j)

/-- Parallel (any complete schedule) equals serial. -/
theorem parallel_eq_serial (S : System L V) (owner : Cell → Option Nat) (m0 : Mem V)
    (H : Hyp S owner) (σ : List Nat) (fuel : Nat)
    (hσ : S.allHalted (S.run m0 σ)) (hs : S.allHalted (S.run m0 (serial S.n fuel))) :
    (S.run m0 σ).mem = (S.run m0 (serial S.n fuel)).mem :=
  schedule_independent S owner m0 H σ _ hσ hs

/-- a task also owns what it ends up with: the final value of each cell is the one its owner
computes when running ALONE from the initial memory -/
theorem final_is_solo (S : System L V) (owner : Cell → Option Nat) (m0 : Mem V)
    (H : Hyp S owner) (σ : List Nat) (j : Nat) (c : Cell) (hc : owner c = some j) :
    ∃ k, (S.run m0 σ).mem c = (S.solo m0 j k).2 c := by
  obtain ⟨k, hk⟩ := inv_run S owner m0 H σ _ _ (inv_init S owner m0)
  exact ⟨k j, hk.mem j c (Or.inr hc)⟩

/-- A system whose shared accesses are described by a well-formed footprint satisfies the
hypotheses of `schedule_independent` with the footprint's ownership map. -/
theorem footprint_gives_hyp (S : System L V) (fp : Footprint) (hwf : wellFormed fp = true)
    (hW : ∀ j l m, ∀ w ∈ (S.step j l m).2, ∃ a ∈ fp.writes, covers a j w.1 = true)
    (hR : ∀ j l m m', (∀ c, (∃ a ∈ fp.reads ++ fp.writes, covers a j c = true) → m c = m' c) →
            S.step j l m = S.step j l m')
    (hH : ∀ j l m, S.halted j l = true → S.step j l m = (l, [])) :
    Hyp S (ownerOf fp) := by
  refine ⟨?_, ?_, hH⟩
  · intro j l m w hw
    obtain ⟨a, ha, hc⟩ := hW j l m w hw
    exact write_owned fp hwf a ha j w.1 hc
  · intro j l m m' hv
    apply hR
    intro c ⟨a, ha, hc⟩
    apply hv
    rcases List.mem_append.mp ha with h | h
    · exact read_visible fp hwf a h j c hc
    · exact Or.inr (write_owned fp hwf a h j c hc)

/-- The footprints regenerated from the source on this run are well-formed and every worker body
is its serial loop body up to renaming. -/
theorem generated_footprints_ok :
    ∀ fp ∈ Generated.ParFootprint.workers, wellFormed fp = true ∧ fp.serialSame = true := by
  decide

/-- all five workers are present -/
theorem generated_workers_complete :
    Generated.ParFootprint.workers.map (·.name) =
      ["srs._dosrs_nohist", "srs._dosrs", "srs._dosrs_nohist_ic", "srs._dosrs_ic",
       "fdepsd._dofde"] := by
  decide

/-! ### non-vacuity -/

/-- the executable test rejects a worker that writes row 0 instead of its own row … -/
def badWriter : Footprint :=
  { name := "bad"
    shared := ["SRSmax_"]
    writes := [⟨"SRSmax_", [(.const 0)]⟩]
    reads := []
    serialSame := true }
example : wellFormed badWriter = false := by decide

/-- … and one that reads the whole output array -/
def badReader : Footprint :=
  { name := "bad"
    shared := ["SRSmax_"]
    writes := [⟨"SRSmax_", [.task]⟩]
    reads := [⟨"SRSmax_", [.whole]⟩]
    serialSame := true }
example : wellFormed badReader = false := by decide

/-- a two-task system meeting `Hyp`: task `j` writes `W[j] + 1` to `X[j]`, then halts -/
def toy : System Bool Nat :=
  { n := 2, init := fun _ => false,
    step := fun j l m => if l then (l, []) else (true, [(("X", [j]), m ("W", [j]) + 1)]),
    halted := fun _ l => l }

def toyOwner : Cell → Option Nat := fun c => if c.1 = "X" then c.2[0]? else none

example : Hyp toy toyOwner := by
  refine ⟨?_, ?_, ?_⟩
  · intro j l m w hw
    cases l <;> simp [toy, toyOwner] at hw ⊢
    subst hw; simp
  · intro j l m m' hv
    cases l <;> simp [toy]
    exact hv ("W", [j]) (Or.inl (by simp [toyOwner]))
  · intro j l m hl
    simp only [toy] at hl ⊢
    simp [hl]

example : (toy.run (fun _ => 5) [0, 1]).mem ("X", [1]) = 6 ∧
    (toy.run (fun _ => 5) [1, 1, 0]).mem ("X", [1]) = 6 := by decide

end PyYetiVerif.C09
