import PyYetiVerif.Lemmas.UsetUpFuel
import PyYetiVerif.Lemmas.UsetUpSpec
/-!
C18, second part: `n2p.upqsetpv` up the whole superelement tree (several upstream SEs per SE, any
depth, re-ordering `maps`), the recursion fuel of its model, and `n2p.upasetpv` with `maps`.

What `upqsetpv(nas, sedn)` has to compute is written down as the inductive relation `QConn`:
row `i` of the table of `sedn` is *connected to an upstream q-set DOF* when, for some row
`[seup, sedn]` of `selist`, it is the place (`linkIdx`: the boundary rows found through `dnids` or
`upids`, re-ordered by `maps`) of the `k`-th a-set DOF of `seup`, and that DOF is flagged by `seup`
itself (`qupOwn`: a q-set DOF; an a-set scalar point when `seup` has no q-set DOF) or is, in the
table of `seup`, a row that is connected to an upstream q-set DOF in turn.
-/
namespace PyYetiVerif.C18
open PyYetiVerif.Uset PyYetiVerif.Generated.UsetMask

/-! ## the recursion terminates on a tree and only there -/

/-- an answer that did not use up the recursion fuel is the answer at every larger fuel -/
theorem upqsetpv_fuel_stable (am qm pm : Nat) (nas : Nas) (fuel fuel' sedn : Nat) (hle : fuel ≤ fuel')
    (h : upqsetpv am qm pm nas fuel sedn ≠ .error .recursion) :
    upqsetpv am qm pm nas fuel' sedn = upqsetpv am qm pm nas fuel sedn :=
  upqsetpv_fuel_le hle sedn h

/-- `selist` without a cycle (`Acyclic`: the SEs can be ranked so that every row goes from a lower
to a higher rank): `selist.length + 1` levels of recursion are never used up - the model does not
answer `.recursion` - and every larger fuel gives the same answer.  So on a tree the model with
the fuel the driver gives it is the unbounded recursion of the real code. -/
theorem upqsetpv_fuel_suffices (am qm pm : Nat) (nas : Nas) (hac : Acyclic nas.selist)
    (fuel sedn : Nat) (hf : nas.selist.length + 1 ≤ fuel) :
    upqsetpv am qm pm nas fuel sedn ≠ .error .recursion ∧
    upqsetpv am qm pm nas fuel sedn = upqsetpv am qm pm nas (nas.selist.length + 1) sedn :=
  upqsetpv_fuel_enough hac fuel sedn hf

/-- two SEs that name each other as (first) upstream SE, with every dictionary entry present: the
real code recurses for ever (Python ends it with `RecursionError`), the model answers
`.recursion` at every fuel - such a `selist` is outside the domain. -/
theorem upqsetpv_cycle_diverges (am qm pm : Nat) (nas : Nas) (s c : Nat) (us uc : List Row)
    (ds dc : List Nat) (ms mc : List (Int × Int)) (rs rc : List Nat) (qs qc : List Bool)
    (hs : ((nas.selist.filter fun r => r.2 = s).map (·.1)).filter (fun x => decide (x ≠ s)) = c :: rs)
    (hc : ((nas.selist.filter fun r => r.2 = c).map (·.1)).filter (fun x => decide (x ≠ c)) = s :: rc)
    (h1 : lookupD nas.uset s = .ok us) (h2 : lookupD nas.uset c = .ok uc)
    (h3 : lookupD nas.dnids s = .ok ds) (h4 : lookupD nas.dnids c = .ok dc)
    (h5 : lookupD nas.maps s = .ok ms) (h6 : lookupD nas.maps c = .ok mc)
    (h7 : qupOwn am qm pm us = .ok qs) (h8 : qupOwn am qm pm uc = .ok qc) (fuel : Nat) :
    upqsetpv am qm pm nas fuel s = .error .recursion ∧
    upqsetpv am qm pm nas fuel c = .error .recursion :=
  upqsetpv_cycle hs hc h1 h2 h3 h4 h5 h6 h7 h8 fuel

/-- a cyclic `selist` has no ranking -/
theorem cyclic_not_acyclic (selist : List (Nat × Nat)) (s c : Nat) (hne : s ≠ c)
    (h1 : (c, s) ∈ selist) (h2 : (s, c) ∈ selist) : ¬ Acyclic selist := by
  rintro ⟨rank, hr⟩
  have a := hr (c, s) h1 (Ne.symm hne)
  have b := hr (s, c) h2 hne
  simp only at a b
  omega

/-! ## what `upqsetpv` computes -/

/-- row `i` of the table of `sedn` is connected, through `dnids` / `upids` / `maps` at every level,
to a q-set DOF (an a-set scalar point for an SE without q-set DOF) of an upstream SE at any depth -/
inductive QConn (am qm pm : Nat) (nas : Nas) : Nat → Nat → Prop
  /-- the `k`-th a-set DOF of `seup` sits at row `i` downstream and `seup` flags it itself -/
  | own {sedn seup i k : Nat} {idx : List Nat} {usetup : List Row} {qup0 : List Bool} :
      (seup, sedn) ∈ nas.selist → linkIdx nas (seup, sedn) = some idx → idx[k]? = some i →
      lookupD nas.uset seup = .ok usetup → qupOwn am qm pm usetup = .ok qup0 →
      qup0[k]? = some true → QConn am qm pm nas sedn i
  /-- the `k`-th a-set DOF of `seup` sits at row `i` downstream, is row `j` of the table of `seup`,
  and that row is connected to a q-set DOF further upstream -/
  | via {sedn seup i k j : Nat} {idx : List Nat} {usetup : List Row} :
      (seup, sedn) ∈ nas.selist → linkIdx nas (seup, sedn) = some idx → idx[k]? = some i →
      lookupD nas.uset seup = .ok usetup → (aRows am usetup)[k]? = some j →
      QConn am qm pm nas seup j → QConn am qm pm nas sedn i

theorem QConn.has_up {am qm pm : Nat} {nas : Nas} {s i : Nat} (h : QConn am qm pm nas s i) :
    nas.selist.any (fun x => x.2 = s) = true := by
  cases h with
  | own hm _ _ _ _ _ => exact List.any_eq_true.mpr ⟨_, hm, by simp⟩
  | via hm _ _ _ _ _ => exact List.any_eq_true.mpr ⟨_, hm, by simp⟩

/-- the `k`-th a-set DOF of SE `seup` carries a flag: `seup` flags it itself (a q-set DOF; an a-set
scalar point when `seup` has no q-set DOF), or its row in the table of `seup` is connected to a
q-set DOF further upstream -/
def Flagged (am qm pm : Nat) (nas : Nas) (seup k : Nat) : Prop :=
  ∃ usetup, lookupD nas.uset seup = .ok usetup ∧
    ((∃ qup0, qupOwn am qm pm usetup = .ok qup0 ∧ qup0[k]? = some true) ∨
     (∃ j, (aRows am usetup)[k]? = some j ∧ QConn am qm pm nas seup j))

/-- `QConn`, one level unfolded: row `i` is the place of a flagged a-set DOF of an upstream SE -/
theorem QConn_iff (am qm pm : Nat) (nas : Nas) (sedn i : Nat) :
    QConn am qm pm nas sedn i ↔ ∃ (seup : Nat) (idx : List Nat) (k : Nat), (seup, sedn) ∈ nas.selist ∧
      linkIdx nas (seup, sedn) = some idx ∧ idx[k]? = some i ∧ Flagged am qm pm nas seup k := by
  constructor
  · intro h
    cases h with
    | own hm hli hk h1 hq0 hv => exact ⟨_, _, _, hm, hli, hk, _, h1, Or.inl ⟨_, hq0, hv⟩⟩
    | via hm hli hk h1 hj hq => exact ⟨_, _, _, hm, hli, hk, _, h1, Or.inr ⟨_, hj, hq⟩⟩
  · rintro ⟨seup, idx, k, hm, hli, hk, usetup, h1, (⟨qup0, hq0, hv⟩ | ⟨j, hj, hq⟩)⟩
    · exact QConn.own hm hli hk h1 hq0 hv
    · exact QConn.via hm hli hk h1 hj hq

/-- The connections of `nas` are *separate*: the places of one connection are distinct and as
many as the upstream SE has a-set DOF, and where two different upstream SEs of one SE have a place
in common (a boundary grid that both are attached to) they flag it alike.  (`separateB` is a
decidable sufficient test: common places that cannot carry a flag on either side.) -/
structure Separate (am qm pm : Nat) (nas : Nas) : Prop where
  nodup : ∀ r ∈ nas.selist, ∀ idx, linkIdx nas r = some idx → idx.Nodup
  shape : ∀ r ∈ nas.selist, ∀ idx u, linkIdx nas r = some idx → lookupD nas.uset r.1 = .ok u →
    idx.length = (aRows am u).length
  agree : ∀ r ∈ nas.selist, ∀ r' ∈ nas.selist, r.2 = r'.2 → r.1 ≠ r'.1 →
    ∀ (idx idx' : List Nat) (k k' i : Nat), linkIdx nas r = some idx → linkIdx nas r' = some idx' →
      idx[k]? = some i → idx'[k']? = some i →
      (Flagged am qm pm nas r.1 k ↔ Flagged am qm pm nas r'.1 k')

/-- **`upqsetpv` at full depth.**  Whenever the call returns (any fuel; any number of upstream SEs
per SE; any depth; `maps` of every accepted form; CSUPER and SECONCT type connections) on a
dictionary with separate connections, the flag of row `i` is `True` iff row `i` is connected to
an upstream q-set DOF (`QConn`).  Proved by induction on the recursion, i.e. on the SE tree. -/
theorem upqsetpv_spec (am qm pm : Nat) (nas : Nas) (hsep : Separate am qm pm nas) :
    ∀ (fuel sedn : Nat) (out : List Bool), upqsetpv am qm pm nas fuel sedn = .ok out →
      ∀ i, out[i]? = some true ↔ QConn am qm pm nas sedn i
  | 0, _, _, h => by cases h
  | fuel + 1, sedn, out, h => by
    have ih := upqsetpv_spec am qm pm nas hsep fuel
    rw [upqsetpv] at h
    split at h
    · cases h
    · cases hu : lookupD nas.uset sedn with
      | error e => rw [hu] at h; cases h
      | ok usetdn =>
        rw [hu] at h
        simp only [bind, Except.bind] at h
        obtain ⟨ws, hws, hout⟩ := foldlM_upqStep_links _ _ _ h
        -- every upstream SE in the loop is a row of `selist`
        have hrow : ∀ c ∈ (nas.selist.filter fun r => r.2 = sedn).map (·.1), (c, sedn) ∈ nas.selist := by
          intro c hc
          obtain ⟨row, hrow, rfl⟩ := List.mem_map.mp hc
          obtain ⟨hm, hr⟩ := List.mem_filter.mp hrow
          have : row.2 = sedn := by simpa using hr
          rw [← this]; exact hm
        -- the recursive answers have one flag per row
        have hlen : ∀ c (u : List Row), lookupD nas.uset c = .ok u →
            ∀ x, upqsetpv am qm pm nas fuel c = .ok x → x.length = u.length := by
          intro c u hcu x hx
          obtain ⟨u', hu', hl⟩ := upqsetpv_length' hx
          rw [lookupD_inj hcu hu']; exact hl
        -- the flags of an upstream SE, as computed, are the flags of the specification
        have hflag : ∀ c usetup qup, lookupD nas.uset c = .ok usetup →
            upqQup am qm pm nas (upqsetpv am qm pm nas fuel) c usetup = .ok qup →
            ∀ k : Nat, qup[k]? = some true ↔ Flagged am qm pm nas c k := by
          intro c usetup qup h1 h4 k
          obtain ⟨qup0, hq0, _, hcase⟩ := upqQup_ok (hlen c usetup h1) h4
          rcases hcase with ⟨hno, heq⟩ | ⟨_, qup2, hr2, hiff⟩
          · rw [heq]
            constructor
            · intro hv; exact ⟨usetup, h1, Or.inl ⟨qup0, hq0, hv⟩⟩
            · rintro ⟨u', h1', (⟨q0', hq0', hv⟩ | ⟨j, _, hq⟩)⟩
              · rw [← lookupD_inj h1 h1', hq0] at hq0'
                cases hq0'
                exact hv
              · rw [hq.has_up] at hno; cases hno
          · rw [hiff k]
            constructor
            · rintro (hv | ⟨j, hj, hv2⟩)
              · exact ⟨usetup, h1, Or.inl ⟨qup0, hq0, hv⟩⟩
              · exact ⟨usetup, h1, Or.inr ⟨j, hj, (ih c qup2 hr2 j).mp hv2⟩⟩
            · rintro ⟨u', h1', (⟨q0', hq0', hv⟩ | ⟨j, hj, hq⟩)⟩
              · rw [← lookupD_inj h1 h1', hq0] at hq0'
                cases hq0'
                exact Or.inl hv
              · rw [← lookupD_inj h1 h1'] at hj
                exact Or.inr ⟨j, hj, (ih c qup2 hr2 j).mpr hq⟩
        -- an assignment `some (idx, v)` of the loop: `v` are the flags of the upstream SE
        have hsome : ∀ c ∈ (nas.selist.filter fun r => r.2 = sedn).map (·.1), ∀ idx v,
            upqLink am qm pm nas (upqsetpv am qm pm nas fuel) sedn usetdn c = .ok (some (idx, v)) →
            c ≠ sedn ∧ linkIdx nas (c, sedn) = some idx ∧ idx.length = v.length ∧
            ∀ k : Nat, v[k]? = some true ↔ Flagged am qm pm nas c k := by
          intro c hc idx v hl
          rcases upqLink_ok hl with ⟨_, hn⟩ | ⟨hne, usetup, dnids, maps, qup, h1, h2, h3, h4, hcase⟩
          · cases hn
          · rcases hcase with ⟨_, hn⟩ | ⟨_, idx', v', h5, h6, he⟩
            · cases hn
            · simp only [Option.some.injEq, Prod.mk.injEq] at he
              obtain ⟨rfl, rfl⟩ := he
              have hli := linkIdx_of hne hu h2 h3 h5
              have hsh := hsep.shape (c, sedn) (hrow c hc) idx usetup hli h1
              obtain ⟨qup0, hq0, hql, _⟩ := upqQup_ok (hlen c usetup h1) h4
              have hqlen : qup.length = idx.length := by rw [hql, qupOwn_length hq0, hsh]
              have := bcast_same h6 hqlen
              subst this
              exact ⟨hne, hli, hqlen.symm, hflag c usetup _ h1 h4⟩
        have hn0 : (List.replicate usetdn.length false).length = usetdn.length := List.length_replicate
        -- the assignments are well shaped
        have hgood : ∀ w ∈ ws, GoodWrite usetdn.length w := by
          intro w hw idx v he
          subst he
          obtain ⟨c, hc, hl⟩ := forall₂_mem_right hws hw
          obtain ⟨hne, hli, hl2, _⟩ := hsome c hc idx v hl
          obtain ⟨_, ud, dn, mp, hud, _, _, hidx⟩ := linkIdx_some hli
          rw [lookupD_inj hu hud]
          exact ⟨hsep.nodup _ (hrow c hc) idx hli, hl2, upqIdx_lt hidx⟩
        -- and agree wherever two of them write at the same place
        have hagree : ∀ w ∈ ws, ∀ w' ∈ ws, ∀ (idx : List Nat) (v : List Bool) (idx' : List Nat)
            (v' : List Bool) (k k' i : Nat), w = some (idx, v) → w' = some (idx', v') →
            idx[k]? = some i → idx'[k']? = some i → v[k]? = v'[k']? := by
          intro w hw w' hw' idx v idx' v' k k' i he he' hk hk'
          subst he; subst he'
          obtain ⟨c, hc, hl⟩ := forall₂_mem_right hws hw
          obtain ⟨c', hc', hl'⟩ := forall₂_mem_right hws hw'
          obtain ⟨_, hli, hlv, hfl⟩ := hsome c hc idx v hl
          obtain ⟨_, hli', hlv', hfl'⟩ := hsome c' hc' idx' v' hl'
          by_cases hcc : c = c'
          · subst hcc
            rw [hl] at hl'
            simp only [Except.ok.injEq, Option.some.injEq, Prod.mk.injEq] at hl'
            obtain ⟨rfl, rfl⟩ := hl'
            have hnd := hsep.nodup _ (hrow c hc) idx hli
            obtain ⟨l1, e1⟩ := List.getElem?_eq_some_iff.mp hk
            obtain ⟨l2, e2⟩ := List.getElem?_eq_some_iff.mp hk'
            have : k = k' := (List.Nodup.getElem_inj_iff hnd).mp (e1.trans e2.symm)
            rw [this]
          · have hag := hsep.agree _ (hrow c hc) _ (hrow c' hc') rfl hcc idx idx' k k' i hli hli' hk hk'
            have hk1 : k < v.length := by rw [← hlv]; exact (List.getElem?_eq_some_iff.mp hk).1
            have hk2 : k' < v'.length := by rw [← hlv']; exact (List.getElem?_eq_some_iff.mp hk').1
            rw [List.getElem?_eq_getElem hk1, List.getElem?_eq_getElem hk2]
            have e1 := hfl k
            have e2 := hfl' k'
            rw [List.getElem?_eq_getElem hk1] at e1
            rw [List.getElem?_eq_getElem hk2] at e2
            simp only [Option.some.injEq] at e1 e2
            have hiff : v[k] = true ↔ v'[k'] = true := e1.trans (hag.trans e2.symm)
            exact congrArg some (Bool.eq_iff_iff.mpr hiff)
        intro i
        rw [hout, foldl_applyLink_true ws _ hn0 hgood hagree i, QConn_iff]
        have hfalse : ¬ ((List.replicate usetdn.length false)[i]? = some true) := by
          rw [List.getElem?_replicate]; split <;> simp
        constructor
        · rintro (⟨w, hw, idx, v, k, he, hk, hv⟩ | ⟨_, hf⟩)
          · subst he
            obtain ⟨c, hc, hl⟩ := forall₂_mem_right hws hw
            obtain ⟨_, hli, _, hfl⟩ := hsome c hc idx v hl
            exact ⟨c, idx, k, hrow c hc, hli, hk, (hfl k).mp hv⟩
          · exact absurd hf hfalse
        · rintro ⟨seup, idx, k, hm, hli, hk, hfl⟩
          left
          have hc : seup ∈ (nas.selist.filter fun r => r.2 = sedn).map (·.1) :=
            List.mem_map.mpr ⟨(seup, sedn), List.mem_filter.mpr ⟨hm, by simp⟩, rfl⟩
          obtain ⟨w, hw, hl⟩ := forall₂_mem_left hws hc
          obtain ⟨hne, ud, dn, mp, hud, hdn, hmp, hidx⟩ := linkIdx_some hli
          rcases upqLink_ok hl with ⟨he, _⟩ | ⟨_, usetup, dnids, maps, qup, h1, h2, h3, h4, hcase⟩
          · exact absurd he hne
          · have hkq := (hflag seup usetup qup h1 h4 k).mpr hfl
            rcases hcase with ⟨hf, _⟩ | ⟨_, idx', v', h5, h6, he⟩
            · rw [any_of_get hkq] at hf; cases hf
            · subst he
              obtain ⟨_, hli', _, hfl'⟩ := hsome seup hc idx' v' hl
              rw [hli] at hli'
              cases hli'
              exact ⟨_, hw, idx, v', k, rfl, hk, (hfl' k).mpr hfl⟩

/-! ## the connection used by `upqsetpv` is the vector of `upasetpv` -/

/-- for the first `selist` row of `seup`, with `maps` empty or with one entry per boundary row (a
CSUPER re-ordering), the places `upqsetpv` assigns to are exactly the vector `upasetpv(nas, seup)` -/
theorem upqIdx_eq_upasetpv (nas : Nas) (seup sedn : Nat) (usetdn : List Row) (dnids : List Nat)
    (maps : List (Int × Int)) (m : List Bool)
    (hf : nas.selist.find? (fun r => r.1 = seup) = some (seup, sedn))
    (h1 : lookupD nas.uset sedn = .ok usetdn) (h2 : lookupD nas.dnids seup = .ok dnids)
    (h3 : lookupD nas.maps seup = .ok maps) (hm : upMask nas sedn usetdn dnids = .ok m)
    (hmaps : maps = [] ∨ (maps.length = (positions m).length ∧ ∀ r ∈ maps, r.2 = 1)) :
    upqIdx nas sedn usetdn dnids maps = upasetpv nas seup := by
  unfold upqIdx upasetpv
  rw [hf]
  simp only
  rw [h1, h2, h3]
  simp only [bind, Except.bind, hm]
  unfold applyMaps
  rcases hmaps with rfl | ⟨hl, hone⟩
  · simp
  · by_cases he : maps = []
    · subst he; simp
    · have hany : maps.any (fun r => r.2 ≠ 1) = false := by
        rw [List.any_eq_false]
        intro r hr
        simp [hone r hr]
      simp only [he, if_false, hany, Bool.false_eq_true, List.length_map, hl, if_true]

/-- numpy index normalisation is the remainder modulo the length -/
theorem forall₂_normIndex_filterMap {base : List Nat} : ∀ {maps : List (Int × Int)} {pv : List Nat},
    List.Forall₂ (fun m p => ∃ j, Locate.normIndex base.length m.1 = some j ∧ base[j]? = some p) maps pv →
    pv = (maps.map fun r => (r.1 % (base.length : Int)).toNat).filterMap (fun j => base[j]?)
  | _, _, .nil => rfl
  | r :: _, x :: _, .cons hr ht => by
      obtain ⟨j, hj, hx⟩ := hr
      simp only [List.map_cons, List.filterMap_cons]
      have : (r.1 % (base.length : Int)).toNat = j := by
        unfold Locate.normIndex at hj
        have hlt := (List.getElem?_eq_some_iff.mp hx).1
        split at hj
        · rename_i hc
          cases hj
          rw [Int.emod_eq_of_lt hc.1 hc.2]
        · split at hj
          · rename_i hc
            cases hj
            have : r.1 % (base.length : Int) = r.1 + base.length := by
              rw [← Int.add_emod_right]
              exact Int.emod_eq_of_lt (by omega) (by omega)
            rw [this]
          · cases hj
      rw [this, hx, ← forall₂_normIndex_filterMap ht]

/-- `upasetpv` with a re-ordering map: when the first column of `maps` lists every boundary row
once (a permutation of `0 … n-1`, negative entries counted from the end), the vector is a
permutation of the boundary rows - every boundary row of the downstream table exactly once. -/
theorem upasetpv_perm (nas : Nas) (seup sedn : Nat) (usetdn : List Row) (dnids : List Nat)
    (maps : List (Int × Int)) (m : List Bool) (pv : List Nat)
    (hf : nas.selist.find? (fun r => r.1 = seup) = some (seup, sedn))
    (h1 : lookupD nas.uset sedn = .ok usetdn) (h2 : lookupD nas.dnids seup = .ok dnids)
    (h3 : lookupD nas.maps seup = .ok maps) (hm : upMask nas sedn usetdn dnids = .ok m)
    (hne : maps ≠ [])
    (hperm : (maps.map fun r => (r.1 % ((positions m).length : Int)).toNat).Perm
      (List.range (positions m).length))
    (h : upasetpv nas seup = .ok pv) : pv.Perm (positions m) ∧ pv.Nodup := by
  unfold upasetpv at h
  rw [hf] at h
  simp only at h
  rw [h1, h2, h3] at h
  simp only [bind, Except.bind, hm] at h
  obtain ⟨_, hb⟩ := applyMaps_spec h
  obtain ⟨_, hfa⟩ := hb hne
  have hpv := forall₂_normIndex_filterMap hfa
  have hrange : (List.range (positions m).length).filterMap (fun j => (positions m)[j]?) = positions m := by
    apply List.ext_getElem?
    intro k
    by_cases hk : k < (positions m).length
    · have h1 : (List.filterMap (fun j => (positions m)[j]?) (List.range (positions m).length)) =
          (List.range (positions m).length).map (fun j => (positions m).getD j 0) := by
        rw [← List.filterMap_eq_map']
        apply List.filterMap_congr
        intro j hj
        have := List.mem_range.mp hj
        simp [List.getD, List.getElem?_eq_getElem this]
      rw [h1]
      simp [hk, List.getD]
    · have hl : (List.filterMap (fun j => (positions m)[j]?) (List.range (positions m).length)).length
          ≤ (positions m).length := by
        refine (List.length_filterMap_le _ _).trans ?_
        simp
      rw [List.getElem?_eq_none (by omega), List.getElem?_eq_none (by omega)]
  have hp : pv.Perm (positions m) := by
    rw [hpv]
    exact (hperm.filterMap _).trans (by rw [hrange])
  exact ⟨hp, hp.nodup_iff.mpr ((positions_sorted m).imp (fun h => Nat.ne_of_lt h))⟩

/-! ## a decidable test for `Separate`, and a three-level example -/

/-- a DOF that carries a flag can carry one (`canFlag`) -/
theorem canFlag_of_flagged {am qm pm : Nat} {nas : Nas} {c k : Nat} (h : Flagged am qm pm nas c k) :
    canFlag am qm pm nas c k = true := by
  obtain ⟨u, hu, hcase⟩ := h
  unfold canFlag
  rw [hu]
  simp only [Bool.or_eq_true]
  rcases hcase with ⟨q0, hq0, hv⟩ | ⟨j, hj, hq⟩
  · left
    simp [hq0, hv]
  · right
    rw [hj]
    simp only
    obtain ⟨seup, idx, k', hm, hli, hk, _⟩ := (QConn_iff _ _ _ _ _ _).mp hq
    refine List.any_eq_true.mpr ⟨(seup, c), hm, ?_⟩
    rw [hli]
    simp [List.mem_of_getElem? hk]

theorem separate_of_check (am qm pm : Nat) (nas : Nas) (h : separateB am qm pm nas = true) :
    Separate am qm pm nas := by
  unfold separateB at h
  rw [Bool.and_eq_true, List.all_eq_true, List.all_eq_true] at h
  obtain ⟨ha, hb⟩ := h
  refine ⟨?_, ?_, ?_⟩
  · intro r hr idx hl
    have := ha r hr
    rw [hl] at this
    simp only [Bool.and_eq_true, decide_eq_true_eq] at this
    exact this.1
  · intro r hr idx u hl hu
    have := ha r hr
    rw [hl] at this
    simp only [Bool.and_eq_true, hu, beq_iff_eq] at this
    exact this.2
  · intro r hr r' hr' h2 h1 idx idx' k k' i hl hl' hk hk'
    have := hb r hr
    rw [List.all_eq_true] at this
    have := this r' hr'
    rw [hl, hl'] at this
    simp only [Bool.or_eq_true, bne_iff_ne, ne_eq, beq_iff_eq] at this
    rcases this with (h | h) | h
    · exact absurd h2 h
    · exact absurd h h1
    · rw [List.all_eq_true] at h
      have := h k (List.mem_range.mpr (List.getElem?_eq_some_iff.mp hk).1)
      rw [List.all_eq_true] at this
      have := this k' (List.mem_range.mpr (List.getElem?_eq_some_iff.mp hk').1)
      rw [hk, hk'] at this
      simp only [bne_self_eq_false, Bool.false_or, Bool.and_eq_true, Bool.not_eq_true'] at this
      constructor
      · intro hf; rw [canFlag_of_flagged hf] at this; cases this.1
      · intro hf; rw [canFlag_of_flagged hf] at this; cases this.2

/-- three levels and two branches: SE 30 (a boundary grid and a q-set scalar point 91) is upstream
of SE 10, where its scalar point comes first in the table (`maps` re-orders); SE 10 (own q-set
scalar point 92, an interior o-set grid) and SE 20 (no q-set: its a-set scalar point 93 counts)
are upstream of the residual 0, whose table mixes the two boundaries. -/
def t30 : List Row := [(1, 1, 2), (1, 2, 2), (1, 3, 2), (1, 4, 2), (1, 5, 2), (1, 6, 2), (91, 0, 4194304)]
def t10 : List Row := [(91, 0, 2), (5, 1, 2), (5, 2, 2), (5, 3, 2), (5, 4, 2), (5, 5, 2), (5, 6, 2),
  (2, 1, 4), (2, 2, 4), (2, 3, 4), (2, 4, 4), (2, 5, 4), (2, 6, 4), (92, 0, 4194304)]
def t20 : List Row := [(7, 1, 2), (7, 2, 2), (7, 3, 2), (7, 4, 2), (7, 5, 2), (7, 6, 2), (93, 0, 2)]
def t0 : List Row := [(7, 1, 2), (7, 2, 2), (7, 3, 2), (7, 4, 2), (7, 5, 2), (7, 6, 2), (91, 0, 2),
  (5, 1, 2), (5, 2, 2), (5, 3, 2), (5, 4, 2), (5, 5, 2), (5, 6, 2), (93, 0, 2), (92, 0, 2), (50, 0, 4)]
def treeOut : List Bool := [false, false, false, false, false, false, true, false, false, false,
  false, false, false, true, true, false]

def treeNas : Nas where
  selist := [(30, 10), (10, 0), (20, 0), (0, 0)]
  uset := [(30, t30), (10, t10), (20, t20), (0, t0)]
  dnids := [(30, [5, 91]), (10, [91, 5, 92]), (20, [7, 93])]
  maps := [(30, [(1, 1), (2, 1), (3, 1), (4, 1), (5, 1), (6, 1), (0, 1)]), (10, []), (20, []), (0, [])]
  upids := []

theorem treeNas_run : upqsetpv (mask .a) (mask .q) (mask .p) treeNas 5 0 = .ok treeOut := by decide

example : Separate (mask .a) (mask .q) (mask .p) treeNas := separate_of_check _ _ _ _ (by decide)

example : Acyclic treeNas.selist :=
  ⟨fun s => if s = 30 then 0 else if s = 0 then 2 else 1, by decide⟩

/-- non-vacuity of `upqsetpv_spec` / `QConn`: row 6 of the residual's table (scalar point 91) is
connected through two levels (`via` SE 10, then `own` in SE 30, across the re-ordering `maps`) -/
example : QConn (mask .a) (mask .q) (mask .p) treeNas 0 6 :=
  (upqsetpv_spec _ _ _ treeNas (separate_of_check _ _ _ _ (by decide)) 5 0 treeOut treeNas_run 6).mp (by decide)

example : ¬ QConn (mask .a) (mask .q) (mask .p) treeNas 0 7 := fun h =>
  absurd ((upqsetpv_spec _ _ _ treeNas (separate_of_check _ _ _ _ (by decide)) 5 0 treeOut treeNas_run 7).mpr h)
    (by decide)

/-- the places of the connection 30 -> 10 are the vector `upasetpv(nas, 30)`: the scalar point, last
upstream, is row 0 downstream -/
example : upasetpv treeNas 30 = .ok [1, 2, 3, 4, 5, 6, 0] ∧ linkIdx treeNas (30, 10) = some [1, 2, 3, 4, 5, 6, 0] := by
  decide

/-- a cyclic `selist`: the model answers `.recursion` (here at the driver's fuel), and no ranking exists -/
def cycleNas : Nas :=
  { treeNas with selist := [(30, 10), (10, 30), (0, 0)],
                 dnids := [(30, [5, 91]), (10, [1])], }

example : upqsetpv (mask .a) (mask .q) (mask .p) cycleNas 4 10 = .error .recursion ∧
    ¬ Acyclic cycleNas.selist :=
  ⟨by decide, cyclic_not_acyclic _ 10 30 (by decide) (by decide) (by decide)⟩

example : ∀ fuel, upqsetpv (mask .a) (mask .q) (mask .p) cycleNas fuel 10 = .error .recursion := fun fuel =>
  (upqsetpv_cycle_diverges (mask .a) (mask .q) (mask .p) cycleNas 10 30 t10 t30 [1] [5, 91] []
    [(1, 1), (2, 1), (3, 1), (4, 1), (5, 1), (6, 1), (0, 1)] [] []
    [false, false, false, false, false, false, false, true] [false, false, false, false, false, false, true]
    (by decide) (by decide) (by decide) (by decide) (by decide) (by decide) (by decide) (by decide)
    (by decide) (by decide) fuel).1

/-- `Separate` is needed: SE 10 flags its q-set scalar point 91; SE 20, later in `selist`, has a
b-set scalar point with the same downstream id 91 and writes `False` over it (index assignment:
the later entry wins).  Row 0 is connected to a q-set DOF but not flagged. -/
def overlapNas : Nas where
  selist := [(10, 0), (20, 0), (0, 0)]
  uset := [(10, [(91, 0, 4194304)]), (20, [(91, 0, 2), (92, 0, 4194304)]), (0, [(91, 0, 2), (92, 0, 2)])]
  dnids := [(10, [91]), (20, [91, 92])]
  maps := [(10, []), (20, []), (0, [])]
  upids := []

example : upqsetpv (mask .a) (mask .q) (mask .p) overlapNas 4 0 = .ok [false, true] ∧
    QConn (mask .a) (mask .q) (mask .p) overlapNas 0 0 ∧
    separateB (mask .a) (mask .q) (mask .p) overlapNas = false :=
  ⟨by decide,
   QConn.own (seup := 10) (k := 0) (idx := [0]) (usetup := [(91, 0, 4194304)]) (qup0 := [true])
     (by decide) (by decide) (by decide) (by decide) (by decide) (by decide),
   by decide⟩

end PyYetiVerif.C18
