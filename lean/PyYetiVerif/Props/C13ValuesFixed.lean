import PyYetiVerif.Lemmas.BulkTabFixed
/-!
# C13 — the CANDIDATE FIX of finding F65 (`wttabled1`, default pair format): VALUES without a fit hypothesis

Property theorems only; /repo is not patched, the current model (`tabled1Lines … pyE 16 9 'E'`) and
`tabled1_roundtrip_values` / `tabled1_field_overflow_counterexample` of `Props/C13Values.lean` stay as they are.  The
model of the patched routine is `Model/BulkTabFixed.tabled1LinesFixed`; it is tied to the patched text by
`corpus/c13_f65_candidate_check.py` (exact text, driver command `tabled1fx`).
-/
namespace PyYetiVerif.C13
open PyYetiVerif.Bulk PyYetiVerif.PyFloat PyYetiVerif.NasFloat

/-- **`rdtabled1 (wttabled1 (tid, t, d))`, default format, PATCHED writer, on physical lines, as VALUES — for EVERY finite
value**: the hypothesis `hfit` of `tabled1_roundtrip_values` is gone.  The table comes back pair by pair; every abscissa /
ordinate is the decimal its field shows, within half a unit of its tenth significant digit (of the ninth for a negative
value with a three-digit exponent). -/
theorem tabled1_roundtrip_values_fixed (name : Txt) (tid : Int) (tab : List (Dbl × Dbl))
    (hname : name ≠ [] ∧ name.length + 1 ≤ 8 ∧ '$' ∉ name ∧ ',' ∉ name ∧ '*' ∉ name) (htid : (dec tid).length ≤ 16)
    (hden : ∀ p ∈ tab, 0 < p.1.den ∧ 0 < p.2.den) (hr : ∀ p ∈ tab, InRange p.1 ∧ InRange p.2) :
    rdTabled1 name (tabled1LinesFixed name tid tab) =
        some [(Val.int tid, tab.map fun p => (dmigRead p.1, dmigRead p.2))] ∧
      ∀ p ∈ tab, Near (dmigRead p.1) (dblRat p.1) (dmigBound p.1) ∧ Near (dmigRead p.2) (dblRat p.2) (dmigBound p.2) := by
  have hE : ('E' : Char) = 'e' ∨ 'E' = 'E' ∨ 'E' = 'D' := Or.inr (Or.inl rfl)
  have hin : TabIn true name tid (tabFixedPairs tab) := by
    refine ⟨hname.1, by simpa using hname.2.1, hname.2.2.1, hname.2.2.2.1, hname.2.2.2.2, by simpa using htid, ?_⟩
    intro q hq
    obtain ⟨p, hp, rfl⟩ := List.mem_map.mp hq
    have c1 := dmigFld_clean 'E' hE p.1 (hden p hp).1 (hr p hp).1
    have c2 := dmigFld_clean 'E' hE p.2 (hden p hp).2 (hr p hp).2
    exact ⟨c1.1.1, c2.1.1, c1.1.2.1, c2.1.2.1, c2.2⟩
  refine ⟨?_, fun p hp => ⟨dmigRead_near p.1 (hden p hp).1, dmigRead_near p.2 (hden p hp).2⟩⟩
  unfold tabled1LinesFixed
  rw [rdTabled1_written true name tid _ hin]
  unfold tabFixedPairs
  rw [List.map_map]
  congr 3
  apply List.map_congr_left
  intro p _
  simp [Function.comp, nasScan_dmigFld 'E' hE, arr_dmigRead]

/-- every double (every 64-bit pattern that is not inf / nan; `dblOf` maps those to 0) satisfies the hypotheses on the
values: the patched round trip asks nothing of the numbers -/
theorem tabled1_fixed_all_doubles (name : Txt) (tid : Int) (bits : List (Nat × Nat))
    (hname : name ≠ [] ∧ name.length + 1 ≤ 8 ∧ '$' ∉ name ∧ ',' ∉ name ∧ '*' ∉ name) (htid : (dec tid).length ≤ 16) :
    rdTabled1 name (tabled1LinesFixed name tid (bits.map fun b => (termVal b.1, termVal b.2))) =
      some [(Val.int tid, bits.map fun b => (dmigRead (termVal b.1), dmigRead (termVal b.2)))] := by
  have h := (tabled1_roundtrip_values_fixed name tid (bits.map fun b => (termVal (b.1 : Int), termVal (b.2 : Int))) hname htid
    (by intro p hp; obtain ⟨b, _, rfl⟩ := List.mem_map.mp hp; exact ⟨termVal_den_pos _, termVal_den_pos _⟩)
    (by intro p hp; obtain ⟨b, _, rfl⟩ := List.mem_map.mp hp; exact ⟨termVal_inRange _, termVal_inRange _⟩)).1
  rw [h, List.map_map]
  rfl

/-- **no behaviour change where the current writer is right**: when every value fits its field in `'{:16.9E}'` (the
hypothesis `hfit` of `tabled1_roundtrip_values`), the patched writer produces the same text as the current one -/
theorem tabled1_fixed_eq_current (name : Txt) (tid : Int) (tab : List (Dbl × Dbl))
    (hfit : ∀ p ∈ tab, (fmtE 9 p.1).length ≤ 16 ∧ (fmtE 9 p.2).length ≤ 16) :
    tabled1LinesFixed name tid tab = tabled1Lines true name tid (tabDefaultPairs tab) := by
  unfold tabled1LinesFixed tabFixedPairs tabDefaultPairs
  congr 1
  apply List.map_congr_left
  intro p hp
  simp [dmigFld, (hfit p hp).1, (hfit p hp).2]

/-- the fields differ exactly for a negative value with a three-digit exponent (finite `x`) -/
theorem tabled1_fixed_differs_iff (x : Dbl) (hd : 0 < x.den) (hr : InRange x) :
    dmigFld 'E' x ≠ pyE 16 9 'E' x ↔ x.neg = true ∧ (expDigits (eExp 9 x)).length = 3 := by
  rw [← dmig_fallback_iff x hd hr]
  constructor
  · intro h hfit
    exact h (by simp [dmigFld, hfit])
  · intro hfit heq
    have h16 := dmigFld_length 'E' x hd hr
    rw [heq] at h16
    have : 16 < (pyE 16 9 'E' x).length := by
      have : (fmtE 9 x).length ≤ (pyE 16 9 'E' x).length := by
        simp [pyE, padL]
      omega
    omega

/-! ### non-vacuity: the input of finding F65 -/

/-- `wttabled1(f, 1, [0., 1.], [-1e100, 1.])`, patched: the ordinate is `-1.00000000E+100`, sixteen characters, and
`rdtabled1` returns `−1·10^100` (the current text reads back as `−1e10`: `tabled1_field_overflow_counterexample`) -/
example : tabled1LinesFixed (txt "TABLED1") 1 [(⟨false, 0, 1⟩, ⟨true, 10 ^ 100, 1⟩), (⟨false, 1, 1⟩, ⟨false, 1, 1⟩)] =
      [txt "TABLED1*               1", txt "*",
       txt "*        0.000000000E+00-1.00000000E+100 1.000000000E+00 1.000000000E+00", txt "*       ENDT"] ∧
    dmigRead ⟨true, 10 ^ 100, 1⟩ = .num (-100000000) 92 := by
  have h0 : dmigFld 'E' ⟨false, 0, 1⟩ = txt " 0.000000000E+00" := by decide +kernel
  have h1 : dmigFld 'E' ⟨true, 10 ^ 100, 1⟩ = txt "-1.00000000E+100" := by decide +kernel
  have h2 : dmigFld 'E' ⟨false, 1, 1⟩ = txt " 1.000000000E+00" := by decide +kernel
  refine ⟨?_, by decide +kernel⟩
  simp only [tabled1LinesFixed, tabFixedPairs, List.map_cons, List.map_nil, h0, h1, h2]
  simp [tabled1Lines, tabled1Rows, fullChunks]
  decide

end PyYetiVerif.C13
