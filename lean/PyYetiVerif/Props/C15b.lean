import Mathlib.LinearAlgebra.Matrix.NonsingularInverse
import Mathlib.Tactic.LinearCombination
import Mathlib.Tactic.Ring
import Mathlib.Tactic.FinCases
import PyYetiVerif.Lemmas.NTCbtf
import PyYetiVerif.Lemmas.NT
/-!
# C15 (part b) — `cb.cbtf` in full

Property theorems about `Model/NTCbtf.lean` (the routine's own steps: partition by `bset`, q-set
solve, assembly of `frc a d v`, `save`, `Ω = 0`).  `K` is any commutative ring (`ℂ` in the
application), the partition of the model DOF into b-set and q-set positions is ARBITRARY
(`IsPartition`: `bset` in any order, anywhere), the q-q solver is any function that solves the q-set
equations (`SolvesQ`; for `ode.SolveUnc` that is property C02, measured here on every run).

Outside: IEEE rounding; `SolveUnc` as a solver (hypothesis `SolvesQ`).
-/
namespace PyYetiVerif.C15
open PyYetiVerif.NT Matrix

section cbtf
variable {K : Type} [CommRing K] {n r nq : Nat}

/-- the block `X[np.ix_(p, q)]` as a Mathlib matrix -/
def blk (X : Fin n → Fin n → K) {a b : Nat} (p : Fin a → Fin n) (q : Fin b → Fin n) :
    Matrix (Fin a) (Fin b) K := Matrix.of fun i j => X (p i) (q j)

/-- dynamic stiffness of the q-set, `-Ω² m[qq] + iΩ b[qq] + k[qq]`, in the routine's scalars -/
def zqq (M B Kk : Fin n → Fin n → K) (qpos : Fin nq → Fin n) (sc : FreqSc K) :
    Matrix (Fin nq) (Fin nq) K :=
  sc.s2 • blk M qpos qpos + sc.s • blk B qpos qpos + blk Kk qpos qpos

/-- the stiffness the routine works with: `k` with the b-q and q-b blocks ignored (Craig-Bampton
form is assumed, `k[bq]`, `k[qb]` are never read) -/
def kcb (Kk : Fin n → Fin n → K) (loc : Fin n → Fin r ⊕ Fin nq) : Matrix (Fin n) (Fin n) K :=
  Matrix.of fun i j => if (loc i).isLeft = (loc j).isLeft then Kk i j else 0

variable (M B Kk : Fin n → Fin n → K) (bpos : Fin r → Fin n) (qpos : Fin nq → Fin n)
  (loc : Fin n → Fin r ⊕ Fin nq) (solveQ : QSolver K nq) (sc : FreqSc K) (a : Fin r → K)

theorem cbtfCol_a_bpos (hp : IsPartition bpos qpos loc) (l : Fin r) :
    (cbtfCol M B Kk bpos qpos loc solveQ sc a).a (bpos l) = a l := by
  simp [cbtfCol, look_tab, hp.loc_bpos]

theorem cbtfCol_d_bpos (hp : IsPartition bpos qpos loc) (l : Fin r) :
    (cbtfCol M B Kk bpos qpos loc solveQ sc a).d (bpos l) = sc.c2 * a l := by
  simp [cbtfCol, look_tab, hp.loc_bpos]

theorem cbtfCol_d_qpos (hp : IsPartition bpos qpos loc) (k : Fin nq) :
    (cbtfCol M B Kk bpos qpos loc solveQ sc a).d (qpos k)
      = solveQ sc (cbtfRhs M B bpos qpos sc a) k := by
  simp [cbtfCol, look_tab, hp.loc_qpos]

theorem cbtfCol_a_qpos (hp : IsPartition bpos qpos loc) (k : Fin nq) :
    (cbtfCol M B Kk bpos qpos loc solveQ sc a).a (qpos k)
      = sc.s2 * solveQ sc (cbtfRhs M B bpos qpos sc a) k := by
  simp [cbtfCol, look_tab, hp.loc_qpos]

theorem cbtfCol_v (i : Fin n) :
    (cbtfCol M B Kk bpos qpos loc solveQ sc a).v i
      = sc.s * (cbtfCol M B Kk bpos qpos loc solveQ sc a).d i := by
  simp [cbtfCol, look_tab]


/-- solver specification: `tf.fsolve(f, freq).d` solves the q-set equations at this frequency -/
def SolvesQ (M B Kk : Fin n → Fin n → K) (qpos : Fin nq → Fin n) (solveQ : QSolver K nq)
    (sc : FreqSc K) : Prop :=
  ∀ f : Fin nq → K, (zqq M B Kk qpos sc).mulVec (solveQ sc f) = f

theorem cbtf_eom (hp : IsPartition bpos qpos loc) (hsc : sc.s * sc.c2 = -sc.c1)
    (hsol : SolvesQ M B Kk qpos solveQ sc) :
    let o := cbtfCol M B Kk bpos qpos loc solveQ sc a
    ∀ i, ((Matrix.of M).mulVec o.a + (Matrix.of B).mulVec o.v + (kcb Kk loc).mulVec o.d) i
      = match loc i with
        | .inl l => o.frc l
        | .inr _ => 0 := by
  intro o i
  have hv : ∀ j, o.v j = sc.s * o.d j := cbtfCol_v M B Kk bpos qpos loc solveQ sc a
  have hab : ∀ l, o.a (bpos l) = a l := cbtfCol_a_bpos M B Kk bpos qpos loc solveQ sc a hp
  have hdb : ∀ l, o.d (bpos l) = sc.c2 * a l := cbtfCol_d_bpos M B Kk bpos qpos loc solveQ sc a hp
  have haq : ∀ k, o.a (qpos k) = sc.s2 * o.d (qpos k) := by
    intro k
    rw [cbtfCol_a_qpos M B Kk bpos qpos loc solveQ sc a hp, cbtfCol_d_qpos M B Kk bpos qpos loc solveQ sc a hp]
  have hi := hp.left i
  rcases hloc : loc i with l | k
  · -- a b-set row: the definition of `frc`
    rw [hloc] at hi
    simp only [Sum.elim_inl] at hi
    subst hi
    have hK : (kcb Kk loc).mulVec o.d (bpos l) = ∑ l', Kk (bpos l) (bpos l') * o.d (bpos l') := by
      simp only [Matrix.mulVec, dotProduct, kcb, Matrix.of_apply]
      rw [hp.sum_split]
      simp [hp.loc_bpos, hp.loc_qpos]
    simp only [Pi.add_apply, hK]
    simp [o, cbtfCol, fsum_eq_sum, look_tab, Matrix.mulVec, dotProduct]
  · -- a q-set row: the q-set equations solved by `tf.fsolve`
    rw [hloc] at hi
    simp only [Sum.elim_inr] at hi
    subst hi
    have hs := congrFun (hsol (cbtfRhs M B bpos qpos sc a)) k
    have hdq : ∀ k', solveQ sc (cbtfRhs M B bpos qpos sc a) k' = o.d (qpos k') := fun k' =>
      (cbtfCol_d_qpos M B Kk bpos qpos loc solveQ sc a hp k').symm
    simp only [Matrix.mulVec, dotProduct, zqq, blk, Matrix.add_apply, Matrix.smul_apply,
      Matrix.of_apply, smul_eq_mul, hdq, cbtfRhs, fsum_eq_sum] at hs
    simp only [Pi.add_apply, Matrix.mulVec, dotProduct, kcb, Matrix.of_apply]
    rw [hp.sum_split, hp.sum_split (fun j => B (qpos k) j * o.v j),
      hp.sum_split (fun j => (if (loc (qpos k)).isLeft = (loc j).isLeft then Kk (qpos k) j else 0) * o.d j)]
    simp only [hab, haq, hv, hdb, hp.loc_bpos, hp.loc_qpos, Sum.isLeft_inl, Sum.isLeft_inr]
    have e1 : ∑ x, B (qpos k) (bpos x) * (sc.s * (sc.c2 * a x))
        = sc.s * sc.c2 * ∑ x, B (qpos k) (bpos x) * a x := by
      rw [Finset.mul_sum]; exact Finset.sum_congr rfl fun _ _ => by ring
    have e2 : ∑ x, B (qpos k) (bpos x) * (sc.c1 * a x)
        = sc.c1 * ∑ x, B (qpos k) (bpos x) * a x := by
      rw [Finset.mul_sum]; exact Finset.sum_congr rfl fun _ _ => by ring
    have e3 : ∑ x, (sc.s2 * M (qpos k) (qpos x) + sc.s * B (qpos k) (qpos x) + Kk (qpos k) (qpos x)) * o.d (qpos x)
        = ∑ x, M (qpos k) (qpos x) * (sc.s2 * o.d (qpos x)) + ∑ x, B (qpos k) (qpos x) * (sc.s * o.d (qpos x))
          + ∑ x, Kk (qpos k) (qpos x) * o.d (qpos x) := by
      rw [← Finset.sum_add_distrib, ← Finset.sum_add_distrib]
      exact Finset.sum_congr rfl fun _ _ => by ring
    rw [e2, e3] at hs
    rw [e1]
    simp only [Bool.false_eq_true, if_false, if_true, zero_mul, Finset.sum_const_zero, zero_add]
    linear_combination hs + (∑ x, B (qpos k) (bpos x) * a x) * hsc


theorem cbtfCol_frc (l : Fin r) :
    let o := cbtfCol M B Kk bpos qpos loc solveQ sc a
    o.frc l = ∑ j, M (bpos l) j * o.a j + ∑ j, B (bpos l) j * o.v j
      + ∑ l', Kk (bpos l) (bpos l') * o.d (bpos l') := by
  simp [cbtfCol, fsum_eq_sum, look_tab]

/-- `frc` in blocks: `m[bb] a + m[bq] a_q + b[bb] v_b + b[bq] v_q + k[bb] d_b` -/
theorem cbtf_frc_blocks (hp : IsPartition bpos qpos loc) :
    (cbtfCol M B Kk bpos qpos loc solveQ sc a).frc
      = (blk M bpos bpos).mulVec a
        + (blk M bpos qpos).mulVec (sc.s2 • solveQ sc (cbtfRhs M B bpos qpos sc a))
        + (blk B bpos bpos).mulVec ((sc.s * sc.c2) • a)
        + (blk B bpos qpos).mulVec (sc.s • solveQ sc (cbtfRhs M B bpos qpos sc a))
        + (blk Kk bpos bpos).mulVec (sc.c2 • a) := by
  funext l
  have hv := cbtfCol_v M B Kk bpos qpos loc solveQ sc a
  have hab := cbtfCol_a_bpos M B Kk bpos qpos loc solveQ sc a hp
  have hdb := cbtfCol_d_bpos M B Kk bpos qpos loc solveQ sc a hp
  have haq := cbtfCol_a_qpos M B Kk bpos qpos loc solveQ sc a hp
  have hdq := cbtfCol_d_qpos M B Kk bpos qpos loc solveQ sc a hp
  rw [cbtfCol_frc, hp.sum_split, hp.sum_split (fun j => B (bpos l) j * _)]
  simp only [hv, hab, hdb, haq, hdq, Pi.add_apply, Matrix.mulVec, dotProduct, blk, Matrix.of_apply,
    Pi.smul_apply, smul_eq_mul, mul_assoc]
  ring


/-- the apparent mass of the partition-vector route as `Model/NT.lean` writes it (`cbtfAM`), on the
`np.ix_` blocks of the model, with `cv = 1/(iΩ) = -c1`, `cd = -1/Ω² = c2` -/
noncomputable def amBlocks (M B Kk : Fin n → Fin n → K) (bpos : Fin r → Fin n) (qpos : Fin nq → Fin n)
    (sc : FreqSc K) : Matrix (Fin r) (Fin r) K :=
  cbtfAM (blk M bpos bpos) (blk B bpos bpos) (blk Kk bpos bpos) (blk M bpos qpos) (blk B bpos qpos)
    (blk M qpos bpos) (blk B qpos bpos) (blk M qpos qpos) (blk B qpos qpos) (blk Kk qpos qpos)
    (-sc.c1) sc.c2

/-- ★ `cbtf_force_eq_am_times_accel`, `Ω ≠ 0`: `frc = AM(Ω) · a`, `AM` the Schur complement `cbtfAM`
of `Model/NT.lean`.  `h1 h2 h3` say that the four scalars belong to one non-zero frequency
(`iΩ · i/Ω = -1`, `-Ω² · -1/Ω² = 1`, `-Ω² = (iΩ)²`). -/
theorem cbtf_force_eq_am_times_accel (hp : IsPartition bpos qpos loc)
    (h1 : sc.s * sc.c1 = -1) (h2 : sc.s2 * sc.c2 = 1) (h3 : sc.s2 = sc.s * sc.s)
    (hD : IsUnit (accImp (blk M qpos qpos) (blk B qpos qpos) (blk Kk qpos qpos) (-sc.c1) sc.c2).det)
    (hsol : SolvesQ M B Kk qpos solveQ sc) :
    (cbtfCol M B Kk bpos qpos loc solveQ sc a).frc = (amBlocks M B Kk bpos qpos sc).mulVec a := by
  set dq := solveQ sc (cbtfRhs M B bpos qpos sc a) with hdq
  set D := accImp (blk M qpos qpos) (blk B qpos qpos) (blk Kk qpos qpos) (-sc.c1) sc.c2 with hDdef
  have hsc : sc.s * sc.c2 = -sc.c1 := by linear_combination (-sc.c1) * h2 + (sc.c1 * sc.c2) * h3 + (sc.s*sc.c2) * h1
  have hDz : D = sc.c2 • zqq M B Kk qpos sc := by
    ext i j
    simp only [hDdef, accImp, zqq, Matrix.add_apply, Matrix.smul_apply, smul_eq_mul]
    linear_combination (-(blk M qpos qpos i j)) * h2 - (blk B qpos qpos i j) * hsc
  have hf : cbtfRhs M B bpos qpos sc a
      = -((blk M qpos bpos + (-sc.c1) • blk B qpos bpos).mulVec a) := by
    funext k
    simp only [cbtfRhs, fsum_eq_sum, Pi.neg_apply, Matrix.mulVec, dotProduct, Matrix.add_apply,
      Matrix.smul_apply, blk, Matrix.of_apply, smul_eq_mul]
    rw [← Finset.sum_sub_distrib, ← Finset.sum_neg_distrib]
    exact Finset.sum_congr rfl fun _ _ => by ring
  have hDd : D.mulVec (sc.s2 • dq) = cbtfRhs M B bpos qpos sc a := by
    rw [hDz, Matrix.smul_mulVec, Matrix.mulVec_smul, hsol _, smul_smul, mul_comm, h2, one_smul]
  have hinv : D⁻¹.mulVec (cbtfRhs M B bpos qpos sc a) = sc.s2 • dq := by
    rw [← hDd, Matrix.mulVec_mulVec, Matrix.nonsing_inv_mul _ hD, Matrix.one_mulVec]
  rw [cbtf_frc_blocks M B Kk bpos qpos loc solveQ sc a hp]
  have hAM : amBlocks M B Kk bpos qpos sc
      = schurAM (accImp (blk M bpos bpos) (blk B bpos bpos) (blk Kk bpos bpos) (-sc.c1) sc.c2)
          (blk M bpos qpos + (-sc.c1) • blk B bpos qpos) (blk M qpos bpos + (-sc.c1) • blk B qpos bpos) D := rfl
  rw [hAM]
  rw [schurAM_matrix, Matrix.sub_mulVec, ← Matrix.mulVec_mulVec, ← Matrix.mulVec_mulVec]
  have : (blk M qpos bpos + (-sc.c1) • blk B qpos bpos).mulVec a = -cbtfRhs M B bpos qpos sc a := by
    rw [hf, neg_neg]
  rw [this, Matrix.mulVec_neg, hinv, Matrix.mulVec_neg, sub_neg_eq_add]
  simp only [accImp, Matrix.add_mulVec, Matrix.smul_mulVec, Matrix.mulVec_smul, ← hdq]
  have e : sc.s • (blk B bpos qpos).mulVec dq = sc.s2 • (-sc.c1) • (blk B bpos qpos).mulVec dq := by
    rw [smul_smul]; congr 1; linear_combination sc.s * h1 + sc.c1 * h3
  rw [e, hsc, smul_add]
  abel


/-- ★ `cbtf_force_eq_am_times_accel`, `Ω = 0`: `frc = m[bb] · a` — whatever the solver returns -/
theorem cbtf_force_zero_freq (hp : IsPartition bpos qpos loc) :
    (cbtfCol M B Kk bpos qpos loc solveQ FreqSc.zero a).frc
      = (cbtfAM0 (blk M bpos bpos)).mulVec a := by
  rw [cbtf_frc_blocks M B Kk bpos qpos loc solveQ FreqSc.zero a hp]
  simp [FreqSc.zero, cbtfAM0]

/-- ★ `cbtf_zero_freq`: everything the routine returns in a column with `Ω = 0`: the enforced
acceleration on the b-set and NO acceleration on the q-set, no velocity, no b-set displacement, the
q-set displacement is the static deflection under the inertia load `k[qq] d_q = -m[qb] a`, and the
force is `m[bb] a`. -/
theorem cbtf_zero_freq (hp : IsPartition bpos qpos loc)
    (hsol : SolvesQ M B Kk qpos solveQ FreqSc.zero) :
    let o := cbtfCol M B Kk bpos qpos loc solveQ FreqSc.zero a
    (∀ l, o.a (bpos l) = a l) ∧ (∀ k, o.a (qpos k) = 0) ∧ (∀ i, o.v i = 0) ∧
    (∀ l, o.d (bpos l) = 0) ∧
    (blk Kk qpos qpos).mulVec (fun k => o.d (qpos k)) = -((blk M qpos bpos).mulVec a) ∧
    o.frc = (blk M bpos bpos).mulVec a := by
  intro o
  refine ⟨cbtfCol_a_bpos M B Kk bpos qpos loc solveQ _ a hp, ?_, ?_, ?_, ?_, ?_⟩
  · intro k
    rw [cbtfCol_a_qpos M B Kk bpos qpos loc solveQ _ a hp]
    simp [FreqSc.zero]
  · intro i
    rw [cbtfCol_v]
    simp [FreqSc.zero]
  · intro l
    rw [cbtfCol_d_bpos M B Kk bpos qpos loc solveQ _ a hp]
    simp [FreqSc.zero]
  · have h := hsol (cbtfRhs M B bpos qpos FreqSc.zero a)
    have hz : zqq M B Kk qpos FreqSc.zero = blk Kk qpos qpos := by
      simp [zqq, FreqSc.zero]
    rw [hz] at h
    have hd : (fun k => o.d (qpos k)) = solveQ FreqSc.zero (cbtfRhs M B bpos qpos FreqSc.zero a) :=
      funext fun k => cbtfCol_d_qpos M B Kk bpos qpos loc solveQ _ a hp k
    rw [hd, h]
    funext k
    simp [cbtfRhs, fsum_eq_sum, FreqSc.zero, Matrix.mulVec, dotProduct, blk]
  · exact cbtf_force_zero_freq M B Kk bpos qpos loc solveQ a hp

/-- ★ `cbtf_outputs_def`: each returned array is the stated transfer function of the Craig-Bampton
equations, for ANY partition (`bset` in any order, anywhere in the model).  With `o` the output for
one frequency: the b-set acceleration is the enforced one; `v = iΩ d` on every DOF; `a = -Ω² d` on
the q-set (on the b-set `d = -a/Ω²`, or `0` at `Ω = 0`); and in MODEL order
`m a + b v + k_cb d = (frc on the b-set rows, 0 on the q-set rows)` with `k_cb` = `k` without its
b-q / q-b blocks.  `hsc` holds at every frequency (`iΩ · (-1/Ω²) = -(i/Ω)` and `0 · 0 = -0`). -/
theorem cbtf_outputs_def (hp : IsPartition bpos qpos loc) (hsc : sc.s * sc.c2 = -sc.c1)
    (hsol : SolvesQ M B Kk qpos solveQ sc) :
    let o := cbtfCol M B Kk bpos qpos loc solveQ sc a
    (∀ l, o.a (bpos l) = a l) ∧ (∀ l, o.d (bpos l) = sc.c2 * a l) ∧ (∀ i, o.v i = sc.s * o.d i) ∧
    (∀ k, o.a (qpos k) = sc.s2 * o.d (qpos k)) ∧
    (∀ i, ((Matrix.of M).mulVec o.a + (Matrix.of B).mulVec o.v + (kcb Kk loc).mulVec o.d) i
      = match loc i with
        | .inl l => o.frc l
        | .inr _ => 0) := by
  intro o
  refine ⟨cbtfCol_a_bpos M B Kk bpos qpos loc solveQ sc a hp,
    cbtfCol_d_bpos M B Kk bpos qpos loc solveQ sc a hp, cbtfCol_v M B Kk bpos qpos loc solveQ sc a, ?_,
    cbtf_eom M B Kk bpos qpos loc solveQ sc a hp hsc hsol⟩
  intro k
  rw [cbtfCol_a_qpos M B Kk bpos qpos loc solveQ sc a hp, cbtfCol_d_qpos M B Kk bpos qpos loc solveQ sc a hp]

/-- at a non-zero frequency `a = -Ω² d` on EVERY DOF -/
theorem cbtf_accel_eq (hp : IsPartition bpos qpos loc) (h2 : sc.s2 * sc.c2 = 1) (i : Fin n) :
    let o := cbtfCol M B Kk bpos qpos loc solveQ sc a
    o.a i = sc.s2 * o.d i := by
  intro o
  have hi := hp.left i
  rcases hloc : loc i with l | k
  · rw [hloc] at hi; simp only [Sum.elim_inl] at hi; subst hi
    rw [cbtfCol_a_bpos M B Kk bpos qpos loc solveQ sc a hp, cbtfCol_d_bpos M B Kk bpos qpos loc solveQ sc a hp,
      ← mul_assoc, h2, one_mul]
  · rw [hloc] at hi; simp only [Sum.elim_inr] at hi; subst hi
    rw [cbtfCol_a_qpos M B Kk bpos qpos loc solveQ sc a hp, cbtfCol_d_qpos M B Kk bpos qpos loc solveQ sc a hp]

/-- ★ `calcAM`, partition-vector route: the matrix assembled column by column from `cbtf` calls with
unit accelerations IS `cbtfAM` (the Schur complement) — entry `(l, direc)`, b-set order -/
theorem calcAM_pv_eq_cbtfAM (hp : IsPartition bpos qpos loc)
    (h1 : sc.s * sc.c1 = -1) (h2 : sc.s2 * sc.c2 = 1) (h3 : sc.s2 = sc.s * sc.s)
    (hD : IsUnit (accImp (blk M qpos qpos) (blk B qpos qpos) (blk Kk qpos qpos) (-sc.c1) sc.c2).det)
    (hsol : SolvesQ M B Kk qpos solveQ sc) :
    Matrix.of (calcAMpvCol M B Kk bpos qpos loc solveQ sc) = amBlocks M B Kk bpos qpos sc := by
  ext l d
  simp only [Matrix.of_apply, calcAMpvCol]
  rw [cbtf_force_eq_am_times_accel M B Kk bpos qpos loc solveQ sc _ hp h1 h2 h3 hD hsol]
  simp [Matrix.mulVec, dotProduct]

/-- the same at `Ω = 0`: `AM = m[bb]` -/
theorem calcAM_pv_zero_freq (hp : IsPartition bpos qpos loc) :
    Matrix.of (calcAMpvCol M B Kk bpos qpos loc solveQ FreqSc.zero) = blk M bpos bpos := by
  ext l d
  simp only [Matrix.of_apply, calcAMpvCol]
  rw [cbtf_force_zero_freq M B Kk bpos qpos loc solveQ _ hp]
  simp [Matrix.mulVec, dotProduct, cbtfAM0]


/-! ### the `save` dictionary -/

/-- ★ `cbtf_save_transparent`.  A call that finds in `save` what an EARLIER call on the same
`m, b, k, bset` left there — with any other enforced acceleration `a'`, any other frequency vector
`scs'` (even of another length) — returns what a cold call returns, and leaves the same entry.
(What is cached is the q-q solver; it is built from `m, b, k, bset` only.) -/
theorem cbtf_save_transparent {nf nf' : Nat}
    (mk : (Fin nq → Fin nq → K) → (Fin nq → Fin nq → K) → (Fin nq → Fin nq → K) → QSolver K nq)
    (scs : Fin nf → FreqSc K) (A : Fin r → Fin nf → K)
    (scs' : Fin nf' → FreqSc K) (A' : Fin r → Fin nf' → K) :
    cbtfCall mk (cbtfCall mk none M B Kk bpos qpos loc scs' A').2 M B Kk bpos qpos loc scs A
      = cbtfCall mk none M B Kk bpos qpos loc scs A := rfl

/-- the entry is NOT keyed by the model: a dictionary left by a call on ANOTHER model is used
without a check.  `k' = diag(0, 2)` instead of `k = diag(0, 1)`, one b-set and one q-set DOF,
`mk` the exact 1 × 1 solve: the warm call returns `frc = 2/3`, the cold call `1/2`. -/
theorem cbtf_save_not_keyed :
    let mk : (Fin 1 → Fin 1 → ℚ) → (Fin 1 → Fin 1 → ℚ) → (Fin 1 → Fin 1 → ℚ) → QSolver ℚ 1 :=
      fun m b k sc f i => f i / (sc.s2 * m 0 0 + sc.s * b 0 0 + k 0 0)
    let M : Fin 2 → Fin 2 → ℚ := fun _ _ => 1
    let Z : Fin 2 → Fin 2 → ℚ := fun _ _ => 0
    let K1 : Fin 2 → Fin 2 → ℚ := fun i j => if i = 1 ∧ j = 1 then 1 else 0
    let K2 : Fin 2 → Fin 2 → ℚ := fun i j => if i = 1 ∧ j = 1 then 2 else 0
    let bp : Fin 1 → Fin 2 := fun _ => 0
    let qp : Fin 1 → Fin 2 := fun _ => 1
    let lc : Fin 2 → Fin 1 ⊕ Fin 1 := fun i => if i = 0 then .inl 0 else .inr 0
    let scs : Fin 1 → FreqSc ℚ := fun _ => ⟨1, 1, -1, 1⟩
    let A : Fin 1 → Fin 1 → ℚ := fun _ _ => 1
    let stale := (cbtfCall mk none M Z K2 bp qp lc scs A).2
    ((cbtfCall mk stale M Z K1 bp qp lc scs A).1 0).frc 0 = 2 / 3 ∧
    ((cbtfCall mk none M Z K1 bp qp lc scs A).1 0).frc 0 = 1 / 2 := by
  constructor <;>
  · simp [cbtfCall, cbtfCol, cbtfRhs, fsum, look_tab]
    norm_num

/-! ### empty q-set -/

/-- ★ `cbtfE_vs_general` (after the fix F59): with an empty q-set the dedicated branch of the routine
IS the general branch — the same `frc`, and the same `a d v` in MODEL order — so `cbtf_outputs_def`,
`cbtf_eom`, `cbtf_accel_eq` hold uniformly for `nq ≥ 0` (`cbtfE_outputs_def`). -/
theorem cbtfE_vs_general (qpos0 : Fin 0 → Fin n) (loc0 : Fin n → Fin r ⊕ Fin 0)
    (solve0 : QSolver K 0) (hp : IsPartition bpos qpos0 loc0) :
    let o := cbtfCol M B Kk bpos qpos0 loc0 solve0 sc a
    let e := cbtfColE M B Kk bpos loc0 sc a
    e.frc = o.frc ∧ e.a = o.a ∧ e.d = o.d ∧ e.v = o.v := by
  intro o e
  have ha : e.a = o.a := by
    funext i
    simp only [e, o, cbtfColE, cbtfCol, look_tab]
    rcases loc0 i with l | k
    · rfl
    · exact k.elim0
  have hd : e.d = o.d := by
    funext i
    simp only [e, o, cbtfColE, cbtfCol, look_tab]
    rcases loc0 i with l | k
    · rfl
    · exact k.elim0
  have hv : e.v = o.v := by
    funext i
    have h1 : e.v i = sc.s * e.d i := by simp [e, cbtfColE, look_tab]
    rw [h1, hd, ← cbtfCol_v]
  refine ⟨?_, ha, hd, hv⟩
  funext l
  have he : e.frc l = ∑ j, M (bpos l) j * e.a j + ∑ j, B (bpos l) j * e.v j
      + ∑ j, Kk (bpos l) j * e.d j := by
    simp [e, cbtfColE, fsum_eq_sum, look_tab]
  rw [he, ha, hd, hv, cbtfCol_frc, hp.sum_split (fun j => Kk (bpos l) j * _)]
  simp
  rfl

/-- ★ the statement of `cbtf_outputs_def` for the empty-q-set branch: b-set accelerations are the
enforced ones IN MODEL ORDER (`o.a (bset[l]) = a[l]` — the regression rule of finding F59), `v = iΩ d`,
and `m a + b v + k d = frc` on row `bset[l]` (every row is one). -/
theorem cbtfE_outputs_def (qpos0 : Fin 0 → Fin n) (loc0 : Fin n → Fin r ⊕ Fin 0)
    (hp : IsPartition bpos qpos0 loc0) (hsc : sc.s * sc.c2 = -sc.c1) :
    let e := cbtfColE M B Kk bpos loc0 sc a
    (∀ l, e.a (bpos l) = a l) ∧ (∀ l, e.d (bpos l) = sc.c2 * a l) ∧ (∀ i, e.v i = sc.s * e.d i) ∧
    (∀ l, ((Matrix.of M).mulVec e.a + (Matrix.of B).mulVec e.v + (kcb Kk loc0).mulVec e.d) (bpos l)
      = e.frc l) := by
  intro e
  have hsol : SolvesQ M B Kk qpos0 (fun _ f => f) sc := fun f => by
    funext k; exact k.elim0
  obtain ⟨h1, h2, h3, h4⟩ := cbtfE_vs_general M B Kk bpos sc a qpos0 loc0 (fun _ f => f) hp
  have h := cbtf_outputs_def M B Kk bpos qpos0 loc0 (fun _ f => f) sc a hp hsc hsol
  simp only at h
  rw [← h1, ← h2, ← h3, ← h4] at h
  refine ⟨h.1, h.2.1, h.2.2.1, fun l => ?_⟩
  have := h.2.2.2.2 (bpos l)
  rw [hp.loc_bpos] at this
  exact this

/-- `cbtf` with an empty q-set: `frc = (m[bb] + (1/(iΩ)) b[bb] + (-1/Ω²) k[bb]) a`, the
`cbtfEmptyAM` of `Model/NT.lean` on the `np.ix_(bset, bset)` blocks -/
theorem cbtfE_force_eq_am_times_accel (qpos0 : Fin 0 → Fin n) (loc0 : Fin n → Fin r ⊕ Fin 0)
    (hp : IsPartition bpos qpos0 loc0) :
    (cbtfColE M B Kk bpos loc0 sc a).frc
      = (cbtfEmptyAM (blk M bpos bpos) (blk B bpos bpos) (blk Kk bpos bpos) (sc.s * sc.c2) sc.c2).mulVec a := by
  rw [(cbtfE_vs_general M B Kk bpos sc a qpos0 loc0 (fun _ f => f) hp).1,
    cbtf_frc_blocks M B Kk bpos qpos0 loc0 (fun _ f => f) sc a hp]
  funext l
  simp only [cbtfEmptyAM, accImp, Matrix.mulVec, dotProduct, Pi.add_apply, Matrix.add_apply,
    Matrix.smul_apply, blk, Matrix.of_apply, smul_eq_mul, Pi.smul_apply, Finset.univ_eq_empty,
    Finset.sum_empty, add_zero]
  rw [← Finset.sum_add_distrib, ← Finset.sum_add_distrib]
  exact Finset.sum_congr rfl fun _ _ => by ring

/-! ### non-vacuity: the hypotheses of the `cbtf` theorems are inhabited -/

/-- three DOF, `bset = [2, 0]` (unordered, scattered), `qset = [1]`; `m = 1` everywhere plus
`diag(1, 1, 1)`, `b = 0`, `k = diag(0, 3, 0)`; scalars `s = 1, s2 = 1, c1 = -1, c2 = 1`; the q-q
"solver" is the exact 1 × 1 division.  All hypotheses of `cbtf_outputs_def`,
`cbtf_force_eq_am_times_accel`, `calcAM_pv_eq_cbtfAM` hold. -/
example :
    let bp : Fin 2 → Fin 3 := ![2, 0]
    let qp : Fin 1 → Fin 3 := ![1]
    let lc : Fin 3 → Fin 2 ⊕ Fin 1 := ![.inl 1, .inr 0, .inl 0]
    let M : Fin 3 → Fin 3 → ℚ := fun i j => if i = j then 2 else 1
    let B : Fin 3 → Fin 3 → ℚ := fun _ _ => 0
    let Kk : Fin 3 → Fin 3 → ℚ := fun i j => if i = 1 ∧ j = 1 then 3 else 0
    let sc : FreqSc ℚ := ⟨1, 1, -1, 1⟩
    let slv : QSolver ℚ 1 := fun _ f _ => f 0 / 5
    IsPartition bp qp lc ∧ sc.s * sc.c1 = -1 ∧ sc.s2 * sc.c2 = 1 ∧ sc.s2 = sc.s * sc.s ∧
      sc.s * sc.c2 = -sc.c1 ∧
      IsUnit (accImp (blk M qp qp) (blk B qp qp) (blk Kk qp qp) (-sc.c1) sc.c2).det ∧
      SolvesQ M B Kk qp slv sc := by
  intro bp qp lc M B Kk sc slv
  refine ⟨⟨?_, ?_⟩, by norm_num [sc], by norm_num [sc], by norm_num [sc], by norm_num [sc], ?_, ?_⟩
  · intro i; fin_cases i <;> rfl
  · rintro (l | k)
    · fin_cases l <;> rfl
    · fin_cases k; rfl
  · have : (accImp (blk M qp qp) (blk B qp qp) (blk Kk qp qp) (-sc.c1) sc.c2).det = 5 := by
      simp [accImp, blk, Matrix.det_unique, M, B, Kk, sc, qp]
      norm_num
    rw [this]; norm_num
  · intro f
    funext k
    fin_cases k
    simp [zqq, blk, Matrix.mulVec, dotProduct, M, B, Kk, sc, qp, slv]
    norm_num
    ring

end cbtf
/-! ### the partition vector -/

/-- ★ `bset` may come in ANY order: as long as it has no repetition and lies inside the model,
`bset ++ locate.flippv(bset, n)` lists every model DOF exactly once, and the q-set is ascending —
so `(bset, qset)` is a partition in the sense of `IsPartition`. -/
theorem flippv_partitions (bset : List Nat) (n : Nat) (hnd : bset.Nodup) (hlt : ∀ i ∈ bset, i < n) :
    (bset ++ flippv bset n).Perm (List.range n) ∧ (flippv bset n).Pairwise (· < ·) :=
  ⟨flippv_perm bset n hnd hlt, flippv_sorted bset n⟩

/-- ★ `bset_isPartition`.  The index functions the model builds from the partition VECTOR — `bset` as a
list in ANY order, the q-set `locate.flippv(bset, n)`, positions looked up with `posOf` — satisfy
`IsPartition`: every theorem above applies to `cb.cbtf` called with that vector. -/
theorem bset_isPartition (n r nq : Nat) [NeZero n] [NeZero r] [NeZero nq] (bset : List Nat)
    (hnd : bset.Nodup) (hlt : ∀ i ∈ bset, i < n) (hr : bset.length = r)
    (hq : (flippv bset n).length = nq) :
    IsPartition (posFn n bset r) (posFn n (flippv bset n) nq)
      (locFn (n := n) bset (flippv bset n) r nq) := by
  have hqnd := flippv_nodup bset n
  constructor
  · intro i
    unfold locFn
    rcases hp : posOf i.1 bset with _ | l
    · have hmem : i.1 ∈ flippv bset n := (mem_flippv _ _ _).2 ⟨i.2, posOf_none.1 hp⟩
      obtain ⟨k, hk⟩ := List.mem_iff_getElem?.1 hmem
      have hk' := posOf_of_getElem? hqnd hk
      have hklt : k < nq := by
        rw [← hq]; exact (List.getElem?_eq_some_iff.1 hk).1
      simp only [hk', Option.getD_some, Sum.elim_inr, posFn]
      rw [ofNat_val hklt, List.getD_eq_getElem?_getD, hk, Option.getD_some, ofNat_fin]
    · have hl := posOf_some hp
      have hllt : l < r := by
        rw [← hr]; exact (List.getElem?_eq_some_iff.1 hl).1
      simp only [Sum.elim_inl, posFn]
      rw [ofNat_val hllt, List.getD_eq_getElem?_getD, hl, Option.getD_some, ofNat_fin]
  · rintro (l | k)
    · have hl : l.1 < bset.length := by rw [hr]; exact l.2
      have hget : bset[l.1]? = some bset[l.1] := List.getElem?_eq_getElem hl
      have hv : bset[l.1] < n := hlt _ (List.getElem_mem hl)
      simp only [Sum.elim_inl, locFn, posFn]
      rw [List.getD_eq_getElem?_getD, hget, Option.getD_some, ofNat_val hv,
        posOf_of_getElem? hnd hget]
      simp only [ofNat_fin]
    · have hk : k.1 < (flippv bset n).length := by rw [hq]; exact k.2
      have hget : (flippv bset n)[k.1]? = some (flippv bset n)[k.1] := List.getElem?_eq_getElem hk
      have hmem := (mem_flippv bset n _).1 (List.getElem_mem hk)
      simp only [Sum.elim_inr, locFn, posFn]
      rw [List.getD_eq_getElem?_getD, hget, Option.getD_some, ofNat_val hmem.1, posOf_none.2 hmem.2,
        posOf_of_getElem? hqnd hget]
      simp only [Option.getD_some, ofNat_fin]


/-- the same for a partition vector that covers EVERY DOF (empty q-set): `posFn`, `locFnE` -/
theorem bset_isPartition_E (n r : Nat) [NeZero n] [NeZero r] (bset : List Nat)
    (hnd : bset.Nodup) (hlt : ∀ i ∈ bset, i < n) (hr : bset.length = r) (hq : flippv bset n = []) :
    IsPartition (posFn n bset r) (fun k : Fin 0 => k.elim0) (locFnE (n := n) bset r) := by
  constructor
  · intro i
    have hmem : i.1 ∈ bset := by
      by_contra h
      have : i.1 ∈ flippv bset n := (mem_flippv _ _ _).2 ⟨i.2, h⟩
      rw [hq] at this
      exact List.not_mem_nil this
    obtain ⟨k, hk⟩ := List.mem_iff_getElem?.1 hmem
    have hk' := posOf_of_getElem? hnd hk
    have hklt : k < r := by
      rw [← hr]; exact (List.getElem?_eq_some_iff.1 hk).1
    simp only [locFnE, hk', Option.getD_some, Sum.elim_inl, posFn]
    rw [ofNat_val hklt, List.getD_eq_getElem?_getD, hk, Option.getD_some, ofNat_fin]
  · rintro (l | k)
    · have hl : l.1 < bset.length := by rw [hr]; exact l.2
      have hget : bset[l.1]? = some bset[l.1] := List.getElem?_eq_getElem hl
      have hv : bset[l.1] < n := hlt _ (List.getElem_mem hl)
      simp only [Sum.elim_inl, locFnE, posFn]
      rw [List.getD_eq_getElem?_getD, hget, Option.getD_some, ofNat_val hv, posOf_of_getElem? hnd hget]
      simp only [Option.getD_some, ofNat_fin]
    · exact k.elim0

/-- `bset = [3, 1]` in a 5-DOF model: `qset = [0, 2, 4]` -/
example : flippv [3, 1] 5 = [0, 2, 4] := by decide

end PyYetiVerif.C15
