import PyYetiVerif.Props.C04
import PyYetiVerif.Props.C04Fix
import PyYetiVerif.Lemmas.Op4FixedInput
/-!
C04: the sparse views of the reader on files of the writer WITH `_split_strings` (F2 repaired, 27f7d6b:
`encMatWordsFx` / `writeFileWordsFx`, Model/Op4Fixed.lean).  The theorems of Props/C04.lean about `sparse=True` and
`sparse=None` (`coo_view_correct`, `sparse_auto_rule`) restated for the splitting writer, with no hypothesis on the
length of the strings: a split string is read as consecutive puts whose triplets concatenate to those of the
unsplit string.
-/
namespace PyYetiVerif.C04
open PyYetiVerif.Op4 PyYetiVerif.Generated.Op4Consts

theorem flatMap_expand_map {β} (g : Nat → β) (runs : List (Nat × Nat)) :
    runs.flatMap (fun p => (List.range' p.1 p.2).map g) = (expand runs).map g := by
  unfold expand
  rw [List.map_flatMap]

/-- the triplets of one column record of the splitting writer are those of the unsplit record -/
theorem recOfFx_coo (e : Endian) (lay : Layout) (cplx : Bool) (c : Nat) (col : List Entry) (s : Nat) (tl : List Nat)
    (h : nzIdx cplx col = s :: tl) :
    cooOfPuts cplx (recOfFx e lay cplx c col s tl).outPuts =
      (storedIdx lay cplx col).map fun r => (r, c, cooEntry cplx (normE cplx (col.getD r (0, 0)))) := by
  cases lay
  · exact recOf_coo e .dense cplx c col s tl h
  · exact recOf_coo e .bigmat cplx c col s tl h
  · have hexp : expand (runsFx cplx col) = nzIdx cplx col := by
      rw [expand_splitStrings _ (maxStrRows_pos cplx), expand_colStats]
    have hsparse : cooOfPuts cplx (((stringsFx cplx col).map fun s => (s.1, s.2.map (normE cplx))).map
          fun s => ((s.1, c, s.2) : Put)) =
        (expand (runsFx cplx col)).map fun r => (r, c, cooEntry cplx (normE cplx (col.getD r (0, 0)))) := by
      rw [← flatMap_expand_map]
      simp only [stringsFx_eq, List.map_map, cooOfPuts]
      rw [List.flatMap_map]
      apply flatMap_congr'
      intro q hq
      have hr := runFx_in_range cplx col q hq
      have := putTrips_slice cplx c col q.1 q.2 hr
      simpa [putTrips, Function.comp_def] using this
    rw [hexp] at hsparse
    simp only [recOfFx, Rec.outPuts, storedIdx]
    exact hsparse

theorem recsOfFx_coo (e : Endian) (lay : Layout) (cplx : Bool) : ∀ (cols : List (List Entry)) (c : Nat),
    cooOfPuts cplx ((recsOfFx e lay cplx c cols).flatMap Rec.outPuts) = cooList lay cplx c cols := by
  intro cols
  induction cols with
  | nil => intro c; rfl
  | cons col t ih =>
    intro c
    unfold recsOfFx cooList
    split
    · next hz => rw [ih (c + 1), storedIdx_zero lay cplx col hz]; rfl
    · next s tl hnz =>
      rw [List.flatMap_cons, cooOfPuts_append, ih (c + 1), recOfFx_coo e lay cplx c col s tl hnz]

/-- **coo_view_correct for the splitting writer.**  For a file written by the repaired writer on its true domain
(`DecOfXFx`: what `file_roundtrip_binary_domain_fixed` gives), `op4.load(sparse=True)` returns per matrix exactly
the COO triplets `cooList` of `coo_view_correct` — the same triplets, in the same order, as for the unsplit
encoder: a string of more than `16383 // multiplier` rows is stored as several strings, read as consecutive puts —
and `.toarray()` of it is the dense read `decCol` with `-0.0 ↦ +0.0`.  No hypothesis on string lengths. -/
theorem coo_view_correct_fixed (e : Endian) (ms : List (Layout × Mat)) (ds : List Dec)
    (h : List.Forall₂ (DecOfXFx e) ms ds) :
    List.Forall₂ (fun (p : Layout × Mat) (d : Dec) =>
      cooOfPuts p.2.cplx d.puts = cooList p.1 p.2.cplx 0 p.2.cols ∧
      ((∀ col ∈ p.2.cols, col.length = p.2.rows) →
        ∀ add : Entry → Entry → Entry, (∀ v, add (0, 0) v = pz v) →
        cooToDense add p.2.rows p.2.cols.length (cooOfPuts p.2.cplx d.puts) =
          p.2.cols.map fun col => (decCol p.1 p.2.cplx col).map fun y => pz (cooEntry p.2.cplx y))) ms ds := by
  induction h with
  | nil => exact List.Forall₂.nil
  | @cons p d ps ds hd _ ih =>
    refine List.Forall₂.cons ?_ ih
    obtain ⟨_, _, _, hputs⟩ := hd
    have h1 : cooOfPuts p.2.cplx d.puts = cooList p.1 p.2.cplx 0 p.2.cols := by
      rw [hputs]; exact recsOfFx_coo e p.1 p.2.cplx p.2.cols 0
    refine ⟨h1, ?_⟩
    intro hlen add hadd
    rw [h1]
    exact cooToDense_cooList add hadd p.1 p.2.cplx p.2.rows p.2.cols hlen

/-- **sparse_auto_rule for the splitting writer**: the same rule for `sparse=None`, and where it answers "dense"
the words of the repaired writer are those of its dense-layout file -/
theorem sparse_auto_rule_fixed (e : Endian) (lay : Layout) (m : Mat) (hlen : ∀ col ∈ m.cols, col.length = m.rows) :
    (autoOf lay m = true ↔ (lay = .bigmat ∧ 0 < m.rows) ∨
        (lay = .nonbigmat ∧ ∃ col ∈ m.cols, nzIdx m.cplx col ≠ [])) ∧
      (autoOf lay m = false → encMatWordsFx e lay m = encMatWordsFx e .dense m) := by
  obtain ⟨h1, h2⟩ := sparse_auto_rule e lay m hlen
  refine ⟨h1, fun h => ?_⟩
  have hd : encMatWordsFx e .dense m = encMatWords e .dense m := rfl
  rw [hd, ← h2 h]
  cases lay
  · rfl
  · rfl
  · apply writer_eq_unsplit
    intro col hcol p hp
    have hz := (autoOf_nonbigmat_false m).1 h col hcol
    rw [hz] at hp
    simp [colStats] at hp

/-- **the views of a whole file of the repaired writer**: whenever the checked writer `writeFileWordsFx` succeeds
(hypotheses of `file_roundtrip_binary_domain_fixed`), the reader returns one matrix per matrix written whose
column reader is `layOf`, whose `sparse=None` decision is `autoOf` (`sparse_auto_rule_fixed`), whose `sparse=True`
triplets are `cooList` and whose `.toarray()` is the dense read up to the sign of zeros -/
theorem file_views_fixed (e : Endian) (ms : List (Layout × Mat)) (ws : List Nat)
    (hcols : ∀ p ∈ ms, (∀ col ∈ p.2.cols, col.length = p.2.rows) ∧ (∀ b ∈ p.2.name, b < 256) ∧
      (p.1 = .nonbigmat → p.2.rows < rows4bigmat))
    (hwr : writeFileWordsFx e ms = .ok ws) :
    ∃ ds, rdFile e (ws.length + 1) ws = some ds ∧
      List.Forall₂ (fun (p : Layout × Mat) (d : Dec) =>
        d.layout = layOf p.1 p.2 ∧ d.sparseAuto = autoOf p.1 p.2 ∧
        cooOfPuts p.2.cplx d.puts = cooList p.1 p.2.cplx 0 p.2.cols ∧
        ∀ add : Entry → Entry → Entry, (∀ v, add (0, 0) v = pz v) →
          cooToDense add p.2.rows p.2.cols.length (cooOfPuts p.2.cplx d.puts) =
            p.2.cols.map fun col => (decCol p.1 p.2.cplx col).map fun y => pz (cooEntry p.2.cplx y)) ms ds := by
  obtain ⟨ds, hds, hrel⟩ := file_roundtrip_binary_domain_fixed e ms ws hcols hwr
  refine ⟨ds, hds, ?_⟩
  have hcoo := coo_view_correct_fixed e ms ds hrel
  clear hds hwr
  induction hrel with
  | nil => exact List.Forall₂.nil
  | @cons p d ps ds hd _ ih =>
    cases hcoo with
    | cons hc hct =>
      refine List.Forall₂.cons ?_ (ih (fun q hq => hcols q (List.mem_cons_of_mem _ hq)) hct)
      obtain ⟨_, hlay, hauto, _⟩ := hd
      exact ⟨hlay, hauto, hc.1, hc.2 (hcols p List.mem_cons_self).1⟩

/-- **write_sparse_eq_write_dense for the splitting writer.**  For every scipy.sparse input, every layout and byte
order: the checked repaired writer on the sparse input (`writeOneWordsFx … (.sp …)`: the `else  # sparse matrix`
branch of `_write_binary_sparse`, `ind` passed through `_split_strings` and `coldata` sliced by the split `ind`)
does exactly what the checked repaired ndarray writer `writeMatWordsFx` does on the ndarray `denseMat`: the same
words or the same refusal; in particular the words of the two branches agree.  No size hypothesis, no hypothesis
on string lengths. -/
theorem write_sparse_eq_write_dense_fixed (add : Nat → Nat → Nat) (e : Endian) (lay : Layout) (name : List Nat)
    (form : Nat) (A : SpIn) :
    writeOneWordsFx add e lay (.sp name form A) = writeMatWordsFx e lay (denseMat add name form A) ∧
      encMatWordsSpFx add e lay name form A = encMatWordsFx e lay (denseMat add name form A) :=
  ⟨writeOneWordsFx_dense add e lay (.sp name form A), encMatWordsSpFx_eq add e lay name form A⟩

/-- **write_input_normalised for the splitting writer**: whatever `write` is given, if `prepare` succeeds the
binary file is the file the checked repaired ndarray writer `writeFileWordsFx` produces for the normalised list
`(layout, w.dense)` — the same words or the same refusal (the statements of `write_input_normalised` about the
ASCII text, the number of matrices and the k-th name / matrix / form do not mention the binary encoder and hold
unchanged) -/
theorem write_input_normalised_fixed (close : Entry → Entry → Bool) (add : Nat → Nat → Nat) (e : Endian)
    (opt : Option Layout) (names : NamesArg) (mats : MatsArg) (forms : FormsArg) (ws : List (Layout × WMat))
    (_hprep : prepare close add opt names mats forms = some ws) :
    writeAllWordsFx add e ws = writeFileWordsFx e (ws.map fun p => (p.1, p.2.dense add)) :=
  writeAllWordsFx_dense add e ws

/-- the sparse-branch strings of the repaired writer are the strings of the ndarray branch: a small instance with
`maxlen = 2` of the splitting itself, and a sparse input written in all three layouts -/
example :
    splitStrings 2 [(1, 5), (9, 1)] = [(1, 2), (3, 2), (5, 1), (9, 1)] ∧
      sliceRuns (splitStrings 2 [(1, 5)]) [(1, 0), (2, 0), (3, 0), (4, 0), (5, 0)] =
        [(1, [(1, 0), (2, 0)]), (3, [(3, 0), (4, 0)]), (5, [(5, 0)])] := by
  decide

/-- non-vacuity of `write_sparse_eq_write_dense_fixed` and `file_views_fixed`: the checked repaired writer accepts a
scipy.sparse input with a duplicate in the nonbigmat layout, and a two-matrix file of ndarrays -/
example :
    let A : SpIn := { rows := 4, ncols := 2, cplx := false,
                      trip := [(1, 0, (5, 0)), (2, 0, (6, 0)), (0, 1, (7, 0)), (1, 0, (1, 0))] }
    let m2 : Mat := { name := [98, 50], form := 1, cplx := true, rows := 1, cols := [[(5, 6)]] }
    (match writeOneWordsFx (fun a b => a + b) .little .nonbigmat (.sp [97] 2 A) with
      | .ok ws => decide (0 < ws.length) | .error _ => false) = true ∧
    (match writeFileWordsFx .big [(.nonbigmat, denseMat (fun a b => a + b) [97] 2 A), (.bigmat, m2)] with
      | .ok ws => decide (0 < ws.length) | .error _ => false) = true := by
  decide

end PyYetiVerif.C04
