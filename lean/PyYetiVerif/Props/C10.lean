import PyYetiVerif.Lemmas.Findap
import PyYetiVerif.Lemmas.Binify
import PyYetiVerif.Lemmas.BinifyAuto
import PyYetiVerif.Lemmas.Fde
/-!
# C10 — cycle-counting pipeline and fatigue-damage PSD invariants

Property theorems only (helper lemmas live in `Lemmas/`).  The models are tied to
`cyclecount.py`, `locate.py`, `fdepsd.py` by the exact correspondence check
(harness/props/c10.py); `findapSeq` models the numba-only variant, which is source text in this
sandbox (compared through a translator-made transcription).

Intended full-strength statement for **both** variants of `findap`: the first sample is selected,
the selected samples strictly alternate (`Alt`), every sample is within `stol` of a selected
sample from above and from below (global extremes within the tolerance), and the two variants
select the same set.  What is true of the faithful models:

* numba variant: first sample, alternation — proved in full; extremes — proved within `2·stol`
  (`seq_extremes_within_two_stol`); within `stol` it is false (`seq_end_rule_counterexample`,
  finding F22) and the variant can fail outright (`seq_unbound_counterexample`, finding F14);
* default variant: first sample — in full; alternation and extremes within `stol` —
  `…_partial` under `NoSubTolDrift`; the hypothesis is necessary
  (`default_drift_counterexample`, finding F4);
* the variants differ even without drift (`variants_differ_counterexample`, finding F23).
-/
namespace PyYetiVerif.C10
open PyYetiVerif.Findap PyYetiVerif.Binify PyYetiVerif.Fde

section findap
variable {α : Type} [Field α] [LinearOrder α] [IsStrictOrderedRing α]

/-! ### numba (sequential) variant -/

theorem seqSt_cases (st : α) (h0 : 0 ≤ st) (y : List α) (l : List (Nat × α))
    (h : findapSeqSt st y = .sel l) :
    (∃ a r, y = a :: r ∧ l.head? = some (0, a)) ∧ Alt (l.map (·.2)) ∧
      ∀ v ∈ y, (∃ s ∈ l.map (·.2), v ≤ s + 2 * st) ∧ (∃ s ∈ l.map (·.2), s ≤ v + 2 * st) := by
  match y, h with
  | [], h => simp [findapSeqSt] at h
  | [a], h =>
      simp only [findapSeqSt, SeqRes.sel.injEq] at h; subst h
      refine ⟨⟨a, [], rfl, rfl⟩, by simp [Alt, AltFrom], ?_⟩
      intro v hv; simp at hv; subst hv
      exact ⟨⟨v, by simp, by linarith⟩, ⟨v, by simp, by linarith⟩⟩
  | [a, b], h =>
      simp only [findapSeqSt] at h
      split at h
      · simp only [SeqRes.sel.injEq] at h; subst h
        rename_i hab
        refine ⟨⟨a, [b], rfl, rfl⟩, ?_, ?_⟩
        · rcases hab with hab | hab
          · left; simp [AltFrom, hab]
          · right; simp [AltFrom, hab]
        · intro v hv
          exact ⟨⟨v, by simpa using hv, by linarith⟩, ⟨v, by simpa using hv, by linarith⟩⟩
      · simp only [SeqRes.sel.injEq] at h; subst h
        rename_i hab
        have hab' : a = b := le_antisymm (not_lt.mp fun h => hab (Or.inr h)) (not_lt.mp fun h => hab (Or.inl h))
        refine ⟨⟨a, [b], rfl, rfl⟩, by simp [Alt, AltFrom], ?_⟩
        intro v hv
        have : v = a := by rcases List.mem_cons.mp hv with h | h <;> simp_all
        subst this
        exact ⟨⟨v, by simp, by linarith⟩, ⟨v, by simp, by linarith⟩⟩
  | a :: b :: c :: r, h =>
      simp only [findapSeqSt] at h
      split at h
      · rename_i hs
        simp only [SeqRes.sel.injEq] at h; subst h
        refine ⟨⟨a, _, rfl, rfl⟩, by simp [Alt, AltFrom], ?_⟩
        intro v hv
        have hva : |v - a| ≤ st := by
          rcases List.mem_cons.mp hv with rfl | hv
          · simpa using h0
          · exact skipInit_none st a _ 1 hs v hv
        have := abs_le.mp hva
        exact ⟨⟨a, by simp, by linarith⟩, ⟨a, by simp, by linarith⟩⟩
      · cases h
      · rename_i cur j x r' hs
        simp only [SeqRes.sel.injEq] at h; subst h
        obtain ⟨pre, hpre, hclose, hsig⟩ := skipInit_some st a _ 1 cur j (x :: r') hs
        have hm : (decide (a < cur) = true → a + st < cur) := by
          intro hd
          have : a < cur := by simpa using hd
          rw [abs_of_pos (by linarith)] at hsig; linarith
        have hv' : (decide (a < cur) = false → cur + st < a) := by
          intro hd
          have hle : cur ≤ a := not_lt.mp (by simpa using hd)
          have hne : cur ≠ a := by
            rintro rfl; simp at hsig; linarith
          rw [abs_of_neg (by have := lt_of_le_of_ne hle hne; linarith)] at hsig; linarith
        have hnn : |cur - cur| ≤ st := by simpa using h0
        refine ⟨⟨a, _, rfl, rfl⟩, ?_, ?_⟩
        · have := loop_alt st h0 (x :: r') (decide (a < cur)) cur j cur cur (j + 1) a hm hv' hnn
          simp only [List.map_cons]
          by_cases hd : a < cur
          · left; simpa [hd] using this
          · right; simpa [hd] using this
        · obtain ⟨⟨su, hsu, hbu⟩, hau⟩ :=
            loop_upper st h0 (x :: r') (decide (a < cur)) cur j cur cur (j + 1) a hm hv' hnn
          obtain ⟨⟨sl, hsl, hbl⟩, hal⟩ :=
            loop_lower st h0 (x :: r') (decide (a < cur)) cur j cur cur (j + 1) a hm hv' hnn
          simp only [List.map_cons]
          intro v hv
          rcases List.mem_cons.mp hv with rfl | hv
          · exact ⟨⟨v, by simp, by linarith⟩, ⟨v, by simp, by linarith⟩⟩
          · rw [hpre] at hv
            rcases List.mem_append.mp hv with hv | hv
            · have := abs_le.mp (hclose v hv)
              exact ⟨⟨a, by simp, by linarith⟩, ⟨a, by simp, by linarith⟩⟩
            · rcases List.mem_cons.mp hv with rfl | hv
              · exact ⟨⟨su, hsu, by linarith⟩, ⟨sl, hsl, by linarith⟩⟩
              · exact ⟨hau v hv, hal v hv⟩

/-- the first sample is always selected (numba variant) -/
theorem seq_first_selected (tol : α) (y : List α) (l : List (Nat × α))
    (h : findapSeq tol y = .sel l) : ∃ a r, y = a :: r ∧ l.head? = some (0, a) :=
  (seqSt_cases _ (stol_nonneg tol y) y l h).1

/-- the selected samples strictly alternate between maxima and minima (numba variant) -/
theorem seq_alternates (tol : α) (y : List α) (l : List (Nat × α))
    (h : findapSeq tol y = .sel l) : Alt (l.map (·.2)) :=
  (seqSt_cases _ (stol_nonneg tol y) y l h).2.1

/-- every sample — in particular the global maximum and minimum — is within `2·stol` of a
selected sample, from above and from below (numba variant).  With `stol` in place of `2·stol`
the statement is false: `seq_end_rule_counterexample`. -/
theorem seq_extremes_within_two_stol (tol : α) (y : List α) (l : List (Nat × α))
    (h : findapSeq tol y = .sel l) :
    ∀ v ∈ y, (∃ s ∈ l.map (·.2), v ≤ s + 2 * stol tol y) ∧ (∃ s ∈ l.map (·.2), s ≤ v + 2 * stol tol y) :=
  (seqSt_cases _ (stol_nonneg tol y) y l h).2.2

/-! ### default (vectorised) variant -/

/-- the first sample is always selected (default variant) -/
theorem default_first_selected (tol : α) (y : List α) (m : List Bool)
    (h : findapDef tol y = some m) : m.head? = some true := by
  unfold findapDef at h
  match y, h with
  | [], h => simp [findapDefSt] at h
  | [a], h => simp only [findapDefSt, Option.some.injEq] at h; subst h; rfl
  | a :: b :: r, h =>
      simp only [findapDefSt, Option.some.injEq] at h; subst h
      have : ∀ l : List α, l ≠ [] → (pvOf l).head? = some true := by
        intro l hl
        match l, hl with
        | [_], _ => rfl
        | [_, _], _ => rfl
        | _ :: _ :: _ :: _, _ => rfl
      generalize hp : pvOf (select (true :: uniqMask (stol tol (a :: b :: r)) a (b :: r)) (a :: b :: r)) = pv
      have := this (select (true :: uniqMask (stol tol (a :: b :: r)) a (b :: r)) (a :: b :: r)) (by simp [select])
      rw [hp] at this
      cases pv with
      | nil => simp at this
      | cons p pv' => simp only [List.head?_cons, Option.some.injEq] at this; subst this; simp [expand]

theorem defaultSt_partial (st : α) (h0 : 0 ≤ st) (y : List α) (m : List Bool)
    (h : findapDefSt st y = some m) (hd : NoSubTolDrift st y) :
    Alt ((selOf m y 0).map (·.2)) ∧
      ∀ v ∈ y, (∃ s ∈ (selOf m y 0).map (·.2), v ≤ s + st) ∧ (∃ s ∈ (selOf m y 0).map (·.2), s ≤ v + st) := by
  match y, h with
  | [], h => simp [findapDefSt] at h
  | [a], h =>
      simp only [findapDefSt, Option.some.injEq] at h; subst h
      refine ⟨by simp [selOf, Alt, AltFrom], ?_⟩
      intro v hv; simp at hv; subst hv
      exact ⟨⟨v, by simp [selOf], by linarith⟩, ⟨v, by simp [selOf], by linarith⟩⟩
  | a :: b :: r, h =>
      simp only [findapDefSt, Option.some.injEq] at h; subst h
      have hlen : (true :: uniqMask st a (b :: r)).length = (a :: b :: r).length := by
        simp [uniqMask_length]
      rw [selOf_expand _ _ _ 0 hlen (pvOf_length _)]
      obtain ⟨hdist, hclose⟩ := heads_spec st (b :: r) a a (by simpa using h0) hd
      have hsel : select (true :: uniqMask st a (b :: r)) (a :: b :: r)
          = a :: select (uniqMask st a (b :: r)) (b :: r) := rfl
      rw [hsel]
      obtain ⟨h1, h2, h3⟩ := pvOf_spec _ hdist
      refine ⟨h1, ?_⟩
      intro v hv
      have : ∃ w ∈ a :: select (uniqMask st a (b :: r)) (b :: r), |v - w| ≤ st := by
        rcases List.mem_cons.mp hv with rfl | hv
        · exact ⟨v, by simp, by simpa using h0⟩
        · exact hclose v hv
      obtain ⟨w, hw, hvw⟩ := this
      have := abs_le.mp hvw
      obtain ⟨s, hs, hws⟩ := h2 w hw
      obtain ⟨s', hs', hws'⟩ := h3 w hw
      exact ⟨⟨s, hs, by linarith⟩, ⟨s', hs', by linarith⟩⟩

/-- PARTIAL (finding F4): without sub-tolerance drift the samples selected by the default
variant strictly alternate.  Full strength (no hypothesis) is false:
`default_drift_counterexample`. -/
theorem default_alternates_partial (tol : α) (y : List α) (m : List Bool)
    (h : findapDef tol y = some m) (hd : NoSubTolDrift (stol tol y) y) :
    Alt ((selOf m y 0).map (·.2)) :=
  (defaultSt_partial _ (stol_nonneg tol y) y m h hd).1

/-- PARTIAL (finding F4): without sub-tolerance drift every sample — in particular the global
maximum and minimum — is within `stol` of a sample selected by the default variant. -/
theorem default_extremes_partial (tol : α) (y : List α) (m : List Bool)
    (h : findapDef tol y = some m) (hd : NoSubTolDrift (stol tol y) y) :
    ∀ v ∈ y, (∃ s ∈ (selOf m y 0).map (·.2), v ≤ s + stol tol y) ∧
      (∃ s ∈ (selOf m y 0).map (·.2), s ≤ v + stol tol y) :=
  (defaultSt_partial _ (stol_nonneg tol y) y m h hd).2

end findap

/-! ### counterexamples (concrete rational signals) -/

/-- F4: `[0, 1, 2, 0]`, `tol = 0.51` (`stol = 1.02`): the run `0, 1, 2` drifts by `2 > stol`;
the default variant selects the values `[0, 0]` — no alternation, and the maximum `2` is missed
by more than `stol`.  So `NoSubTolDrift` cannot be dropped from the `…_partial` theorems. -/
theorem default_drift_counterexample :
    let y : List Rat := [0, 1, 2, 0]
    let tol : Rat := 51 / 100
    findapDef tol y = some [true, false, false, true] ∧ stol tol y = 51 / 50 ∧
      ¬ NoSubTolDrift (stol tol y) y ∧ ¬ Alt ([0, 0] : List Rat) ∧ (0 : Rat) + 51 / 50 < 2 := by
  refine ⟨by decide +kernel, by decide +kernel, by decide +kernel, ?_, by decide +kernel⟩
  simp [Alt, AltFrom]

/-- F22: numba variant on `[-100, 0, 4, -4]`, `tol = 0.05` (`stol = 5`, no drift): the end rule
marks the last sample instead of the held one; the selected values are `-100, -4` and the
maximum `4` is missed by `8 > stol`. -/
theorem seq_end_rule_counterexample :
    let y : List Rat := [-100, 0, 4, -4]
    let tol : Rat := 1 / 20
    findapSeq tol y = .sel [(0, -100), (3, -4)] ∧ stol tol y = 5 ∧
      NoSubTolDrift (stol tol y) y ∧ (-4 : Rat) + 5 < 4 := by
  refine ⟨by decide +kernel, by decide +kernel, by decide +kernel, by decide +kernel⟩

/-- F14: numba variant on `[1, 1, 4]`: the first significant change is the last sample, the
`for` loop does not run and `nxt` is read unbound. -/
theorem seq_unbound_counterexample :
    findapSeq (1 / 1000000 : Rat) [1, 1, 4] = .unbound ∧
      findapDef (1 / 1000000 : Rat) [1, 1, 4] = some [true, false, true] := by
  refine ⟨by decide +kernel, by decide +kernel⟩

/-- F23: `[0, 80, 83, 78, 160]`, `tol = 0.05` (`stol = 4.1`, no drift): the step `83 → 78`
exceeds `stol` but lands within `stol` of the run head `80`; the default variant selects
indices `0, 1, 3, 4`, the numba variant `0, 4`. -/
theorem variants_differ_counterexample :
    let y : List Rat := [0, 80, 83, 78, 160]
    let tol : Rat := 1 / 20
    NoSubTolDrift (stol tol y) y ∧ findapDef tol y = some [true, true, false, true, true] ∧
      findapSeq tol y = .sel [(0, 0), (4, 160)] := by
  refine ⟨by decide +kernel, by decide +kernel, by decide +kernel⟩

/-! ### binning -/

section binning
variable {α : Type} [LinearOrder α]

/-- `np.digitize` puts `x` in the bin whose documented half-open interval contains it:
`bins[k] < x ≤ bins[k+1]` (`right`) or `bins[k] ≤ x < bins[k+1]` gives index `k + 1`. -/
theorem digitize_spec (right : Bool) (x : α) (bins : List α) (k : Nat) (lo hi : α)
    (hs : List.Pairwise (· < ·) bins) (hlo : bins[k]? = some lo) (hhi : bins[k + 1]? = some hi)
    (hx : inBin right lo hi x) : digitize right x bins = k + 1 := by
  obtain ⟨h1, h2⟩ := inBin_below right lo hi x hx
  exact digitize_index right x bins k lo hi hs hlo hhi h1 h2

variable {β : Type} [AddCommMonoid β]

/- `Covered right bins x` (Lemmas/BinifyAuto.lean): some bin's documented half-open interval
contains `x`, i.e. `∃ k lo hi, bins[k]? = some lo ∧ bins[k + 1]? = some hi ∧ inBin right lo hi x`. -/

/-- one step of `_binify` (either setting of `ensure_boundaries`): a cycle whose mean lies in
mean-bin `i` and whose amplitude lies in amplitude-bin `j` adds its count to `table[i, j]`. -/
theorem binify_places (right ensure : Bool) (br bm : List α) (hr : List.Pairwise (· < ·) br)
    (hm : List.Pairwise (· < ·) bm) (amp mean : α) (cnt : β) (cs : List (α × α × β))
    (T : List (List β)) (i j : Nat) (lom him loa hia : α)
    (h1 : bm[i]? = some lom) (h2 : bm[i + 1]? = some him) (h3 : inBin right lom him mean)
    (h4 : br[j]? = some loa) (h5 : br[j + 1]? = some hia) (h6 : inBin right loa hia amp) :
    binifyLoop right ensure br bm ((amp, mean, cnt) :: cs) T
      = binifyLoop right ensure br bm cs (bump2 cnt i j T) := by
  have dm := digitize_spec right mean bm i lom him hm h1 h2 h3
  have dr := digitize_spec right amp br j loa hia hr h4 h5 h6
  have hi : i + 1 < bm.length := (List.getElem?_eq_some_iff.mp h2).1
  have hj : j + 1 < br.length := (List.getElem?_eq_some_iff.mp h5).1
  conv_lhs => unfold binifyLoop
  simp only [dm, dr]
  cases ensure
  · have e1 : pyIndex (i + 1) (bm.length - 1) = some i := by
      unfold pyIndex; simp; omega
    have e2 : pyIndex (j + 1) (br.length - 1) = some j := by
      unfold pyIndex; simp; omega
    simp [e1, e2]
  · have a1 : i < bm.length - 1 := by omega
    have a2 : j < br.length - 1 := by omega
    simp [a1, a2]

theorem binifyLoop_conserves (right ensure : Bool) (br bm : List α) (hr : List.Pairwise (· < ·) br)
    (hm : List.Pairwise (· < ·) bm) (cycles : List (α × α × β)) :
    ∀ (T : List (List β)), T.length = bm.length - 1 → (∀ row ∈ T, row.length = br.length - 1) →
      (∀ c ∈ cycles, Covered right br c.1 ∧ Covered right bm c.2.1) →
      ∃ T', binifyLoop right ensure br bm cycles T = some T' ∧
        tableSum T' = tableSum T + (cycles.map (·.2.2)).sum := by
  induction cycles with
  | nil => intro T _ _ _; exact ⟨T, rfl, by simp⟩
  | cons c cs ih =>
      intro T hT hrow hc
      obtain ⟨amp, mean, cnt⟩ := c
      obtain ⟨⟨j, loa, hia, h4, h5, h6⟩, ⟨i, lom, him, h1, h2, h3⟩⟩ := hc (amp, mean, cnt) (by simp)
      rw [binify_places right ensure br bm hr hm amp mean cnt cs T i j lom him loa hia h1 h2 h3 h4 h5 h6]
      have hi : i + 1 < bm.length := (List.getElem?_eq_some_iff.mp h2).1
      have hj : j + 1 < br.length := (List.getElem?_eq_some_iff.mp h5).1
      obtain ⟨s1, s2⟩ := bump2_shape cnt (br.length - 1) i j T hrow
      obtain ⟨T', e, hs⟩ := ih (bump2 cnt i j T) (by rw [s1, hT]) s2
        (fun d hd => hc d (by simp [hd]))
      refine ⟨T', e, ?_⟩
      rw [hs, tableSum_bump2 cnt (br.length - 1) i j T hrow (by omega) (by omega)]
      simp only [List.map_cons, List.sum_cons]
      rw [add_assoc]

/-- `_binify` conserves the total cycle count when the bins cover the data (both `right`
conventions, both settings of `ensure_boundaries`; in particular no `IndexError`). -/
theorem binify_conserves (right ensure : Bool) (br bm : List α) (hr : List.Pairwise (· < ·) br)
    (hm : List.Pairwise (· < ·) bm) (cycles : List (α × α × β))
    (hc : ∀ c ∈ cycles, Covered right br c.1 ∧ Covered right bm c.2.1) :
    ∃ T, binifyCore right ensure br bm cycles = some T ∧ tableSum T = (cycles.map (·.2.2)).sum := by
  obtain ⟨T, e, hs⟩ := binifyLoop_conserves right ensure br bm hr hm cycles
    (zeros (bm.length - 1) (br.length - 1)) (by simp [zeros])
    (by intro row h; simp only [zeros, List.mem_replicate] at h; rw [h.2]; simp) hc
  exact ⟨T, e, by rw [hs, tableSum_zeros, zero_add]⟩

end binning

/-! ### automatically generated bins (`getbins` with an integer count) -/

section autobins
variable {α : Type} [Field α] [LinearOrder α] [IsStrictOrderedRing α]

/-- the edges `getbins` builds for an integer count `n ≥ 1` (`np.linspace(mn, mx, n + 1)` after the
swap / `± 0.5` fix-up of `mx`, `mn`, then `bb[0] -= p` for `right`, `bb[-1] += p` otherwise, with
`p = 0.001·(mx − mn)`) are strictly increasing, there are `n + 1` of them, and **every value between
`mn` and `mx` lies in the documented half-open interval of some bin** — under either `right`
convention (this is what the end-point nudge is for).  Exact arithmetic; see finding
`getbins-auto-nudge-absorbed` for what doubles do when `p` is below half an ulp of the end point. -/
theorem auto_bins_cover (n : Nat) (hn : 0 < n) (mx mn : α) (right : Bool) :
    (getbinsScalar n mx mn right).Pairwise (· < ·) ∧ (getbinsScalar n mx mn right).length = n + 1 ∧
      ∀ x, min mx mn ≤ x → x ≤ max mx mn → Covered right (getbinsScalar n mx mn right) x := by
  refine ⟨getbinsScalar_pairwise n hn mx mn right, getbinsScalar_length n mx mn right, ?_⟩
  intro x h1 h2
  obtain ⟨a, b⟩ := fixRange_contains mx mn x h1 h2
  exact getbinsScalar_covers n hn mx mn right x a b

/-- `binify` with integer bin counts for amplitude and mean (the "automatically generated bins" of
the property) always returns a table, never an `IndexError`/`ValueError`; the table total is the
total cycle count, and every cycle lies in a bin of both axes: the coverage hypothesis of
`binify_conserves` is discharged by `auto_bins_cover`. -/
theorem binify_auto_conserves (right check : Bool) (na nm : Nat) (hna : 0 < na) (hnm : 0 < nm)
    (c : α × α × α) (cs : List (α × α × α)) :
    ∃ T ampb aveb, binifyApi right check (.scalar na) (.scalar nm) (c :: cs) = .table T ampb aveb ∧
      tableSum T = ((c :: cs).map (·.2.2)).sum ∧
      ∀ d ∈ c :: cs, Covered right ampb d.1 ∧ Covered right aveb d.2.1 := by
  obtain ⟨amx, e1, h1⟩ := maxOf_spec c.1 (cs.map (·.1))
  obtain ⟨amn, e2, h2⟩ := minOf_spec c.1 (cs.map (·.1))
  obtain ⟨mmx, e3, h3⟩ := maxOf_spec c.2.1 (cs.map (·.2.1))
  obtain ⟨mmn, e4, h4⟩ := minOf_spec c.2.1 (cs.map (·.2.1))
  have cov : ∀ d ∈ c :: cs, Covered right (getbinsScalar na amx amn right) d.1 ∧
      Covered right (getbinsScalar nm mmx mmn right) d.2.1 := by
    intro d hd
    have m1 : d.1 ∈ c.1 :: cs.map (·.1) := by
      rcases List.mem_cons.mp hd with rfl | hd
      · simp
      · exact List.mem_cons_of_mem _ (List.mem_map.mpr ⟨d, hd, rfl⟩)
    have m2 : d.2.1 ∈ c.2.1 :: cs.map (·.2.1) := by
      rcases List.mem_cons.mp hd with rfl | hd
      · simp
      · exact List.mem_cons_of_mem _ (List.mem_map.mpr ⟨d, hd, rfl⟩)
    exact ⟨(auto_bins_cover na hna amx amn right).2.2 d.1 (le_trans (min_le_right _ _) (h2 _ m1))
        (le_trans (h1 _ m1) (le_max_left _ _)),
      (auto_bins_cover nm hnm mmx mmn right).2.2 d.2.1 (le_trans (min_le_right _ _) (h4 _ m2))
        (le_trans (h3 _ m2) (le_max_left _ _))⟩
  obtain ⟨T, eT, hT⟩ := binify_conserves right false (getbinsScalar na amx amn right)
    (getbinsScalar nm mmx mmn right) (auto_bins_cover na hna amx amn right).1
    (auto_bins_cover nm hnm mmx mmn right).1 (c :: cs) cov
  refine ⟨T, _, _, ?_, hT, cov⟩
  simp only [binifyApi, List.map_cons] at e1 e2 e3 e4 ⊢
  rw [e1, e2, e3, e4]
  simp only [binsFor, Bool.or_self, eT]

end autobins


/-! ### fdepsd bookkeeping -/

section fde
variable {α : Type} [Field α] [LinearOrder α] [IsStrictOrderedRing α]

/-- cumulative counts are non-increasing in amplitude (cycle counts are non-negative) -/
theorem cum_count_antitone (cycles : List (α × α)) (hc : ∀ c ∈ cycles, 0 ≤ c.2) (l1 l2 : α)
    (h : l1 ≤ l2) : cumCount cycles l2 ≤ cumCount cycles l1 :=
  cumCount_antitone cycles hc l1 l2 h

/-- the first count column (`BinAmps[:, 0] = 0`) is the total cycle count -/
theorem count_col0_total (nbins : Nat) (am : α) (cycles : List (α × α)) (ha : ∀ c ∈ cycles, 0 ≤ c.1) :
    (counts cycles (binAmps (nbins + 1) am)).head? = some ((cycles.map (·.2)).sum) := by
  unfold counts binAmps
  simp only [List.range_succ_eq_map, List.map_cons, List.head?_cons, Option.some.injEq]
  have : ((Nat.cast 0 : α) / (Nat.cast (nbins + 1) : α)) * am = 0 := by simp
  rw [this]
  exact cumCount_zero cycles ha

/-- the non-cumulative counts sum to the first cumulative count (telescoping) -/
theorem bincount_sum_total (c : α) (r : List α) : (binCount (c :: r)).sum = c := binCount_sum c r

/-- the `G2max` update never lowers the value: when the `tantheta` test fires (`> 0`) for a level
`0 < x_k`, with `0 < x2 = Amax²` and `log Count_k < log Count_0`, the new `G2max` exceeds
`Amax²`, hence `G2 ≥ G1`. -/
theorem G2_ge_G1 (xk x2 yk y1 : α) (hxk : 0 < xk) (hx2 : 0 < x2) (hy : yk < y1)
    (ht : 0 < tantheta xk x2 yk y1) : x2 < g2update xk y1 yk := by
  unfold tantheta at ht
  unfold g2update
  have h1 : 0 < yk - (y1 - y1 * xk / x2) := by
    by_contra hneg
    have := div_nonpos_of_nonpos_of_nonneg (not_lt.mp hneg) (le_of_lt hxk)
    linarith
  have h2 : (y1 - yk) * x2 < y1 * xk := by
    have : y1 * xk / x2 * x2 = y1 * xk := by field_simp
    nlinarith [mul_pos hx2 h1]
  rw [lt_div_iff₀ (by linarith)]
  linarith

end fde

/-! ### non-vacuity -/

example : findapDef (1 / 1000000 : Rat) [1, 2, 3, 4, 4, -2, -2, 0]
    = some [true, false, false, true, false, true, false, true] := by decide +kernel
example : NoSubTolDrift (stol (1 / 1000000 : Rat) [1, 2, 3, 4, 4, -2, -2, 0]) [1, 2, 3, 4, 4, -2, -2, 0] := by
  decide +kernel
example : findapSeq (1 / 1000000 : Rat) [1, 2, 3, 4, 4, -2, -2, 0]
    = .sel [(0, 1), (3, 4), (5, -2), (7, 0)] := by decide +kernel
example : binifyCore true true ([1, 2, 3, 4] : List Rat) [0, 1, 2] [(2, 1, (1 : Rat) / 2), (3 / 2, 2, 1)]
    = some [[1 / 2, 0, 0], [1, 0, 0]] := by decide +kernel
example : Covered true ([1, 2, 3, 4] : List Rat) 2 := ⟨0, 1, 2, rfl, rfl, by decide⟩
example : getbinsScalar 4 (12 : Rat) 4 true = [499 / 125, 6, 8, 10, 12] := by decide +kernel
example : (0 : Rat) < tantheta 1 4 2 (5 / 2) ∧ (4 : Rat) < g2update 1 (5 / 2) 2 := by decide +kernel

end PyYetiVerif.C10
