import PyYetiVerif.Lemmas.Findap
import PyYetiVerif.Lemmas.FindapFix
import PyYetiVerif.Lemmas.Binify
import PyYetiVerif.Lemmas.BinifyAuto
import PyYetiVerif.Lemmas.Fde
/-!
# C10 — cycle-counting pipeline and fatigue-damage PSD invariants

Property theorems only (helper lemmas live in `Lemmas/`).  The models are tied to
`cyclecount.py`, `locate.py`, `fdepsd.py` by the exact correspondence check
(harness/props/c10.py); `findapSeqFix` models the numba-only variant, which is source text in this
sandbox (compared through a translator-made transcription).

`findap` (both variants, the code as repaired by f8f6e40 and 4b29dcf; models
`Findap.findapDefFix`, `Findap.findapSeqFix`), FULL STRENGTH, every signal and every tolerance:
the first sample is selected, the selected samples strictly alternate (`Alt`), every sample — in
particular the global maximum and minimum — is within `stol` of a selected sample from above and
from below, the numba variant never fails on a non-empty signal, and the two variants select the
same set.  What was true of the text before the repairs (findings F4, F14, F22, F23) is recorded
in `Props/C10PreFix.lean`, outside the property claims.
-/
namespace PyYetiVerif.C10
open PyYetiVerif.Findap PyYetiVerif.Binify PyYetiVerif.Fde

section findap
variable {α : Type} [Field α] [LinearOrder α] [IsStrictOrderedRing α]

/-! ### default (vectorised) variant -/

/-- the first sample is always selected (default variant) -/
theorem default_first_selected (tol : α) (y : List α) (m : List Bool)
    (h : findapDefFix tol y = some m) : m.head? = some true :=
  (defFixSt_spec _ (stol_nonneg tol y) y m h).1

/-- the samples selected by the default variant strictly alternate between maxima and minima —
every signal, every tolerance. -/
theorem default_alternates (tol : α) (y : List α) (m : List Bool)
    (h : findapDefFix tol y = some m) : Alt ((selOf m y 0).map (·.2)) :=
  (defFixSt_spec _ (stol_nonneg tol y) y m h).2.1

/-- every sample — in particular the global maximum and minimum — is within `stol` of a sample
selected by the default variant, from above and from below. -/
theorem default_extremes (tol : α) (y : List α) (m : List Bool)
    (h : findapDefFix tol y = some m) :
    ∀ v ∈ y, (∃ s ∈ (selOf m y 0).map (·.2), v ≤ s + stol tol y) ∧
      (∃ s ∈ (selOf m y 0).map (·.2), s ≤ v + stol tol y) :=
  (defFixSt_spec _ (stol_nonneg tol y) y m h).2.2

/-- the default variant returns a mask for every non-empty signal (an empty one: `ValueError`) -/
theorem default_total (tol : α) (a : α) (r : List α) : ∃ m, findapDefFix tol (a :: r) = some m := by
  unfold findapDefFix
  cases r with
  | nil => exact ⟨_, rfl⟩
  | cons b r' => exact ⟨_, rfl⟩

/-- where `_unique_kept`'s vectorised test passes, the kept samples are exactly those of
`locate.find_unique` (comparison with the previous sample): the sequential scan changes the mask
only on the drift and return families. -/
theorem default_fast_path_is_find_unique (st a : α) (r : List α) (hf : fastOK st a r = true) :
    fixMask st a r = uniqMask st a r ∧ hystMask st a r = uniqMask st a r := by
  have := fixMask_eq st a r
  unfold fixMask at this ⊢
  rw [if_pos hf] at this ⊢
  exact ⟨rfl, this.symm⟩

/-! ### both variants -/

/-- **the two variants select the same samples**, for every signal and every tolerance (sizes 1
and 2 and `tol ≥ 1` included). -/
theorem variants_agree (tol : α) (y : List α) :
    findapSeqFix tol y = (findapDefFix tol y).map (fun m => selOf m y 0) :=
  fixSt_agree _ (stol_nonneg tol y) y

/-! ### numba (sequential) variant -/

/-- the numba variant returns a selection for every non-empty signal: `nxt` is never read
unbound -/
theorem seq_total (tol : α) (a : α) (r : List α) : ∃ l, findapSeqFix tol (a :: r) = some l := by
  obtain ⟨m, hm⟩ := default_total tol a r
  exact ⟨_, by rw [variants_agree, hm]; rfl⟩

theorem seq_cases (tol : α) (y : List α) (l : List (Nat × α)) (h : findapSeqFix tol y = some l) :
    ∃ m, findapDefFix tol y = some m ∧ l = selOf m y 0 := by
  rw [variants_agree] at h
  cases hd : findapDefFix tol y with
  | none => rw [hd] at h; cases h
  | some m => rw [hd] at h; simp only [Option.map_some, Option.some.injEq] at h; exact ⟨m, rfl, h.symm⟩

/-- the first sample is always selected (numba variant) -/
theorem seq_first_selected (tol : α) (y : List α) (l : List (Nat × α))
    (h : findapSeqFix tol y = some l) : ∃ a r, y = a :: r ∧ l.head? = some (0, a) := by
  obtain ⟨m, hm, rfl⟩ := seq_cases tol y l h
  have h1 := default_first_selected tol y m hm
  cases y with
  | nil => simp [findapDefFix, findapDefFixSt] at hm
  | cons a r =>
      refine ⟨a, r, rfl, ?_⟩
      cases m with
      | nil => simp at h1
      | cons b m' =>
          simp only [List.head?_cons, Option.some.injEq] at h1
          subst h1
          rfl

/-- the selected samples strictly alternate between maxima and minima (numba variant) -/
theorem seq_alternates (tol : α) (y : List α) (l : List (Nat × α))
    (h : findapSeqFix tol y = some l) : Alt (l.map (·.2)) := by
  obtain ⟨m, hm, rfl⟩ := seq_cases tol y l h
  exact default_alternates tol y m hm

/-- every sample — in particular the global maximum and minimum — is within `stol` of a selected
sample, from above and from below (numba variant). -/
theorem seq_extremes (tol : α) (y : List α) (l : List (Nat × α))
    (h : findapSeqFix tol y = some l) :
    ∀ v ∈ y, (∃ s ∈ l.map (·.2), v ≤ s + stol tol y) ∧ (∃ s ∈ l.map (·.2), s ≤ v + stol tol y) := by
  obtain ⟨m, hm, rfl⟩ := seq_cases tol y l h
  exact default_extremes tol y m hm

end findap

/-! ### regression: the inputs of the repaired findings F4, F14, F22, F23 -/

/-- F4's `[0, 1, 2, 0]`, `tol = 0.51` (`stol = 1.02`; before f8f6e40 the values `[0, 0]` were
selected): both variants keep `0, 2, 0`. -/
theorem fixed_F4_example :
    findapDefFix (51 / 100 : Rat) [0, 1, 2, 0] = some [true, false, true, true] ∧
      findapSeqFix (51 / 100 : Rat) [0, 1, 2, 0] = some [(0, 0), (2, 2), (3, 0)] := by
  refine ⟨by decide +kernel, by decide +kernel⟩

/-- F14's `[1, 1, 4]` (before 4b29dcf: `nxt` unbound), F22's `[-100, 0, 4, -4]` (`tol = 0.05`,
`stol = 5`: the held candidate `0` is selected, the maximum `4` is missed by `4 ≤ stol`; before:
missed by `8`), F23's `[0, 80, 83, 78, 160]` (before: the variants differed). -/
theorem fixed_F14_F22_F23_examples :
    findapSeqFix (1 / 1000000 : Rat) [1, 1, 4] = some [(0, 1), (2, 4)] ∧
      findapDefFix (1 / 1000000 : Rat) [1, 1, 4] = some [true, false, true] ∧
      findapSeqFix (1 / 20 : Rat) [-100, 0, 4, -4] = some [(0, -100), (1, 0)] ∧
      findapDefFix (1 / 20 : Rat) [-100, 0, 4, -4] = some [true, true, false, false] ∧
      findapSeqFix (1 / 20 : Rat) [0, 80, 83, 78, 160] = some [(0, 0), (4, 160)] ∧
      findapDefFix (1 / 20 : Rat) [0, 80, 83, 78, 160] = some [true, false, false, false, true] := by
  refine ⟨by decide +kernel, by decide +kernel, by decide +kernel, by decide +kernel,
    by decide +kernel, by decide +kernel⟩

/-! ### binning -/

section binning
variable {α : Type} [LinearOrder α]

/-- `np.digitize` puts `x` in the bin whose documented half-open interval contains it:
`bins[k] < x ≤ bins[k+1]` (`right`) or `bins[k] ≤ x < bins[k+1]` gives index `k + 1`. -/
theorem digitize_spec (right : Bool) (x : α) (bins : List α) (k : Nat) (lo hi : α)
    (hs : List.Pairwise (· < ·) bins) (hlo : bins[k]? = some lo) (hhi : bins[k + 1]? = some hi)
    (hx : inBin right lo hi x) : digitize right x bins = k + 1 := by
  obtain ⟨h1, h2⟩ := inBin_below right lo hi x hx
  exact digitize_index right x bins k lo hi hs hlo hhi h1 h2

variable {β : Type} [AddCommMonoid β]

/- `Covered right bins x` (Lemmas/BinifyAuto.lean): some bin's documented half-open interval
contains `x`, i.e. `∃ k lo hi, bins[k]? = some lo ∧ bins[k + 1]? = some hi ∧ inBin right lo hi x`. -/

/-- one step of `_binify` (either setting of `ensure_boundaries`): a cycle whose mean lies in
mean-bin `i` and whose amplitude lies in amplitude-bin `j` adds its count to `table[i, j]`. -/
theorem binify_places (right ensure : Bool) (br bm : List α) (hr : List.Pairwise (· < ·) br)
    (hm : List.Pairwise (· < ·) bm) (amp mean : α) (cnt : β) (cs : List (α × α × β))
    (T : List (List β)) (i j : Nat) (lom him loa hia : α)
    (h1 : bm[i]? = some lom) (h2 : bm[i + 1]? = some him) (h3 : inBin right lom him mean)
    (h4 : br[j]? = some loa) (h5 : br[j + 1]? = some hia) (h6 : inBin right loa hia amp) :
    binifyLoop right ensure br bm ((amp, mean, cnt) :: cs) T
      = binifyLoop right ensure br bm cs (bump2 cnt i j T) := by
  have dm := digitize_spec right mean bm i lom him hm h1 h2 h3
  have dr := digitize_spec right amp br j loa hia hr h4 h5 h6
  have hi : i + 1 < bm.length := (List.getElem?_eq_some_iff.mp h2).1
  have hj : j + 1 < br.length := (List.getElem?_eq_some_iff.mp h5).1
  conv_lhs => unfold binifyLoop
  simp only [dm, dr]
  cases ensure
  · have e1 : pyIndex (i + 1) (bm.length - 1) = some i := by
      unfold pyIndex; simp; omega
    have e2 : pyIndex (j + 1) (br.length - 1) = some j := by
      unfold pyIndex; simp; omega
    simp [e1, e2]
  · have a1 : i < bm.length - 1 := by omega
    have a2 : j < br.length - 1 := by omega
    simp [a1, a2]

theorem binifyLoop_conserves (right ensure : Bool) (br bm : List α) (hr : List.Pairwise (· < ·) br)
    (hm : List.Pairwise (· < ·) bm) (cycles : List (α × α × β)) :
    ∀ (T : List (List β)), T.length = bm.length - 1 → (∀ row ∈ T, row.length = br.length - 1) →
      (∀ c ∈ cycles, Covered right br c.1 ∧ Covered right bm c.2.1) →
      ∃ T', binifyLoop right ensure br bm cycles T = some T' ∧
        tableSum T' = tableSum T + (cycles.map (·.2.2)).sum := by
  induction cycles with
  | nil => intro T _ _ _; exact ⟨T, rfl, by simp⟩
  | cons c cs ih =>
      intro T hT hrow hc
      obtain ⟨amp, mean, cnt⟩ := c
      obtain ⟨⟨j, loa, hia, h4, h5, h6⟩, ⟨i, lom, him, h1, h2, h3⟩⟩ := hc (amp, mean, cnt) (by simp)
      rw [binify_places right ensure br bm hr hm amp mean cnt cs T i j lom him loa hia h1 h2 h3 h4 h5 h6]
      have hi : i + 1 < bm.length := (List.getElem?_eq_some_iff.mp h2).1
      have hj : j + 1 < br.length := (List.getElem?_eq_some_iff.mp h5).1
      obtain ⟨s1, s2⟩ := bump2_shape cnt (br.length - 1) i j T hrow
      obtain ⟨T', e, hs⟩ := ih (bump2 cnt i j T) (by rw [s1, hT]) s2
        (fun d hd => hc d (by simp [hd]))
      refine ⟨T', e, ?_⟩
      rw [hs, tableSum_bump2 cnt (br.length - 1) i j T hrow (by omega) (by omega)]
      simp only [List.map_cons, List.sum_cons]
      rw [add_assoc]

/-- `_binify` conserves the total cycle count when the bins cover the data (both `right`
conventions, both settings of `ensure_boundaries`; in particular no `IndexError`). -/
theorem binify_conserves (right ensure : Bool) (br bm : List α) (hr : List.Pairwise (· < ·) br)
    (hm : List.Pairwise (· < ·) bm) (cycles : List (α × α × β))
    (hc : ∀ c ∈ cycles, Covered right br c.1 ∧ Covered right bm c.2.1) :
    ∃ T, binifyCore right ensure br bm cycles = some T ∧ tableSum T = (cycles.map (·.2.2)).sum := by
  obtain ⟨T, e, hs⟩ := binifyLoop_conserves right ensure br bm hr hm cycles
    (zeros (bm.length - 1) (br.length - 1)) (by simp [zeros])
    (by intro row h; simp only [zeros, List.mem_replicate] at h; rw [h.2]; simp) hc
  exact ⟨T, e, by rw [hs, tableSum_zeros, zero_add]⟩

end binning

/-! ### automatically generated bins (`getbins` with an integer count) -/

section autobins
variable {α : Type} [Field α] [LinearOrder α] [IsStrictOrderedRing α]

/-- the edges `getbins` builds for an integer count `n ≥ 1` (`np.linspace(mn, mx, n + 1)` after the
swap / `± 0.5` fix-up of `mx`, `mn`, then `bb[0] -= p` for `right`, `bb[-1] += p` otherwise, with
`p = 0.001·(mx − mn)`) are strictly increasing, there are `n + 1` of them, and **every value between
`mn` and `mx` lies in the documented half-open interval of some bin** — under either `right`
convention (this is what the end-point nudge is for).  Exact arithmetic; see finding
`getbins-auto-nudge-absorbed` for what doubles do when `p` is below half an ulp of the end point. -/
theorem auto_bins_cover (n : Nat) (hn : 0 < n) (mx mn : α) (right : Bool) :
    (getbinsScalar n mx mn right).Pairwise (· < ·) ∧ (getbinsScalar n mx mn right).length = n + 1 ∧
      ∀ x, min mx mn ≤ x → x ≤ max mx mn → Covered right (getbinsScalar n mx mn right) x := by
  refine ⟨getbinsScalar_pairwise n hn mx mn right, getbinsScalar_length n mx mn right, ?_⟩
  intro x h1 h2
  obtain ⟨a, b⟩ := fixRange_contains mx mn x h1 h2
  exact getbinsScalar_covers n hn mx mn right x a b

/-- `binify` with integer bin counts for amplitude and mean (the "automatically generated bins" of
the property) always returns a table, never an `IndexError`/`ValueError`; the table total is the
total cycle count, and every cycle lies in a bin of both axes: the coverage hypothesis of
`binify_conserves` is discharged by `auto_bins_cover`. -/
theorem binify_auto_conserves (right check : Bool) (na nm : Nat) (hna : 0 < na) (hnm : 0 < nm)
    (c : α × α × α) (cs : List (α × α × α)) :
    ∃ T ampb aveb, binifyApi right check (.scalar na) (.scalar nm) (c :: cs) = .table T ampb aveb ∧
      tableSum T = ((c :: cs).map (·.2.2)).sum ∧
      ∀ d ∈ c :: cs, Covered right ampb d.1 ∧ Covered right aveb d.2.1 := by
  obtain ⟨amx, e1, h1⟩ := maxOf_spec c.1 (cs.map (·.1))
  obtain ⟨amn, e2, h2⟩ := minOf_spec c.1 (cs.map (·.1))
  obtain ⟨mmx, e3, h3⟩ := maxOf_spec c.2.1 (cs.map (·.2.1))
  obtain ⟨mmn, e4, h4⟩ := minOf_spec c.2.1 (cs.map (·.2.1))
  have cov : ∀ d ∈ c :: cs, Covered right (getbinsScalar na amx amn right) d.1 ∧
      Covered right (getbinsScalar nm mmx mmn right) d.2.1 := by
    intro d hd
    have m1 : d.1 ∈ c.1 :: cs.map (·.1) := by
      rcases List.mem_cons.mp hd with rfl | hd
      · simp
      · exact List.mem_cons_of_mem _ (List.mem_map.mpr ⟨d, hd, rfl⟩)
    have m2 : d.2.1 ∈ c.2.1 :: cs.map (·.2.1) := by
      rcases List.mem_cons.mp hd with rfl | hd
      · simp
      · exact List.mem_cons_of_mem _ (List.mem_map.mpr ⟨d, hd, rfl⟩)
    exact ⟨(auto_bins_cover na hna amx amn right).2.2 d.1 (le_trans (min_le_right _ _) (h2 _ m1))
        (le_trans (h1 _ m1) (le_max_left _ _)),
      (auto_bins_cover nm hnm mmx mmn right).2.2 d.2.1 (le_trans (min_le_right _ _) (h4 _ m2))
        (le_trans (h3 _ m2) (le_max_left _ _))⟩
  obtain ⟨T, eT, hT⟩ := binify_conserves right false (getbinsScalar na amx amn right)
    (getbinsScalar nm mmx mmn right) (auto_bins_cover na hna amx amn right).1
    (auto_bins_cover nm hnm mmx mmn right).1 (c :: cs) cov
  refine ⟨T, _, _, ?_, hT, cov⟩
  simp only [binifyApi, List.map_cons] at e1 e2 e3 e4 ⊢
  rw [e1, e2, e3, e4]
  simp only [binsFor, Bool.or_self, eT]

end autobins


/-! ### fdepsd bookkeeping -/

section fde
variable {α : Type} [Field α] [LinearOrder α] [IsStrictOrderedRing α]

/-- cumulative counts are non-increasing in amplitude (cycle counts are non-negative) -/
theorem cum_count_antitone (cycles : List (α × α)) (hc : ∀ c ∈ cycles, 0 ≤ c.2) (l1 l2 : α)
    (h : l1 ≤ l2) : cumCount cycles l2 ≤ cumCount cycles l1 :=
  cumCount_antitone cycles hc l1 l2 h

/-- the first count column (`BinAmps[:, 0] = 0`) is the total cycle count -/
theorem count_col0_total (nbins : Nat) (am : α) (cycles : List (α × α)) (ha : ∀ c ∈ cycles, 0 ≤ c.1) :
    (counts cycles (binAmps (nbins + 1) am)).head? = some ((cycles.map (·.2)).sum) := by
  unfold counts binAmps
  simp only [List.range_succ_eq_map, List.map_cons, List.head?_cons, Option.some.injEq]
  have : ((Nat.cast 0 : α) / (Nat.cast (nbins + 1) : α)) * am = 0 := by simp
  rw [this]
  exact cumCount_zero cycles ha

/-- the non-cumulative counts sum to the first cumulative count (telescoping) -/
theorem bincount_sum_total (c : α) (r : List α) : (binCount (c :: r)).sum = c := binCount_sum c r

/-- the `G2max` update never lowers the value: when the `tantheta` test fires (`> 0`) for a level
`0 < x_k`, with `0 < x2 = Amax²` and `log Count_k < log Count_0`, the new `G2max` exceeds
`Amax²`, hence `G2 ≥ G1`. -/
theorem G2_ge_G1 (xk x2 yk y1 : α) (hxk : 0 < xk) (hx2 : 0 < x2) (hy : yk < y1)
    (ht : 0 < tantheta xk x2 yk y1) : x2 < g2update xk y1 yk := by
  unfold tantheta at ht
  unfold g2update
  have h1 : 0 < yk - (y1 - y1 * xk / x2) := by
    by_contra hneg
    have := div_nonpos_of_nonpos_of_nonneg (not_lt.mp hneg) (le_of_lt hxk)
    linarith
  have h2 : (y1 - yk) * x2 < y1 * xk := by
    have : y1 * xk / x2 * x2 = y1 * xk := by field_simp
    nlinarith [mul_pos hx2 h1]
  rw [lt_div_iff₀ (by linarith)]
  linarith

end fde

/-! ### non-vacuity -/

example : findapDefFix (1 / 1000000 : Rat) [1, 2, 3, 4, 4, -2, -2, 0]
    = some [true, false, false, true, false, true, false, true] := by decide +kernel
example : findapSeqFix (1 / 1000000 : Rat) [1, 2, 3, 4, 4, -2, -2, 0]
    = some [(0, 1), (3, 4), (5, -2), (7, 0)] := by decide +kernel
example : fastOK (stol (1 / 1000000 : Rat) [1, 2, 3, 4, 4, -2, -2, 0]) 1 [2, 3, 4, 4, -2, -2, 0] = true := by
  decide +kernel
example : fastOK (stol (51 / 100 : Rat) [0, 1, 2, 0]) 0 [1, 2, 0] = false := by decide +kernel
example : binifyCore true true ([1, 2, 3, 4] : List Rat) [0, 1, 2] [(2, 1, (1 : Rat) / 2), (3 / 2, 2, 1)]
    = some [[1 / 2, 0, 0], [1, 0, 0]] := by decide +kernel
example : Covered true ([1, 2, 3, 4] : List Rat) 2 := ⟨0, 1, 2, rfl, rfl, by decide⟩
example : getbinsScalar 4 (12 : Rat) 4 true = [499 / 125, 6, 8, 10, 12] := by decide +kernel
example : (0 : Rat) < tantheta 1 4 2 (5 / 2) ∧ (4 : Rat) < g2update 1 (5 / 2) 2 := by decide +kernel

end PyYetiVerif.C10
