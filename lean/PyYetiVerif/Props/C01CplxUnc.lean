import PyYetiVerif.Props.C01Rb
import PyYetiVerif.Props.C01Unique
import PyYetiVerif.Props.C01Delconj
import PyYetiVerif.Model.SuCoefCplxUnc
/-!
# C01 — uncoupled equations with complex-dtype coefficients: the rigid-body rows (finding F61)

`SolveUnc` sends uncoupled systems whose `m`, `b` or `k` have a complex dtype through the
complex-eigenvalue path.  Its rigid-body rows are integrated by the undamped recurrence
(`Model/SuCoefCplxUnc.lean`: `cplxUncRbDV`, `cplxUncRbAcc`), whatever the damping of the row is.

Full-strength statement (what the property asks of every rigid-body row `m x'' + b x' = f(t)`):

    every sample of `cplxUncRbDV order1 h (some m) b k dv fs` is the end state of THE solution of
    `m x'' + b x' = f(t)` started from the previous sample, and `m a + b v = f` at every sample.

That statement is FALSE for `b ≠ 0` (`complex_unc_damped_rb_counterexample`): open finding F61,
family `tsolve-unc-complex-dtype-damped-rigid-body-mode-damping-ignored`.  Proved instead:

* `complex_unc_rb_row_is_undamped`   the rows do not depend on `b`, `k`: they are the rigid-regime
                                     recurrence of `get_su_coef` at unit mass on `f/m`;
* `complex_unc_rb_exact_partial`     the full statement under the hypothesis `b = 0` (the missing part is exactly
                                     the damped rigid-body row);
* `complex_recovery_real_part`, `complex_dtype_real_system_response_is_real`   elastic rows (finding F62, repaired);
* `complex_unc_damped_rb_counterexample`   `m = b = 1`, `h = 1`, held force `1` from rest: the code's sample
                                     `(d, v, a) = (1/2, 1, 1)` violates `m a + b v = f` (`2 ≠ 1`) and is not the end
                                     state of the solution (`v(1) = 1 − e⁻¹ ≠ 1`): the hypothesis is necessary.
-/
namespace PyYetiVerif.C01
open PyYetiVerif.SuCoef

/-- the rigid-body rows of the complex uncoupled path ignore the row's damping and stiffness: they
are the undamped rigid-body recurrence on `f/m` -/
theorem complex_unc_rb_row_is_undamped (order1 : Bool) (h m b k : ℝ) (dv : ℝ × ℝ) (fs : List ℝ) :
    cplxUncRbDV order1 h (some m) b k dv fs = cplxUncRbDV order1 h (some m) 0 0 dv fs ∧
    cplxUncRbAcc (some m) b k fs = cplxUncRbAcc (some m) 0 0 fs ∧
    cplxUncRbDV order1 h (some m) b k dv fs
      = runUnc order1 (suCoef .rigid 1 0 0 h) dv (fs.map fun f => (1 / m) * f) := by
  refine ⟨rfl, rfl, ?_⟩
  simp only [cplxUncRbDV, cplxUncRbForce]
  exact rb_run_is_runUnc order1 h 0 0 _ dv

/-- scaling the force by the mass: a solution of `x'' = p/m + (s/m) t` solves `m x'' = p + s t` -/
theorem isSol_unit_mass_scale (m p s x₀ v₀ : ℝ) (hm : m ≠ 0) (x v : ℝ → ℝ)
    (h : IsSol 1 0 0 ((1 / m) * p) ((1 / m) * s) x₀ v₀ x v) : IsSol m 0 0 p s x₀ v₀ x v := by
  refine ⟨h.dx, fun t => ?_, h.x0, h.v0⟩
  obtain ⟨a, ha, he⟩ := h.dv t
  refine ⟨a, ha, ?_⟩
  have : a = (1 / m) * p + (1 / m) * s * t := by linarith
  rw [this]
  field_simp
  ring

/-- exactness of a rigid-body row of the complex uncoupled path — PARTIAL: under the hypothesis
`b = 0` (an undamped row).  Sample `j+1` is the end state of a solution of `m x'' + b x' = f(t)` (hold
forcing of step `j`) started at sample `j`, every such solution ends there, and the returned
acceleration satisfies `m a + b v = f` at sample `j`. -/
theorem complex_unc_rb_exact_partial (m b k h : ℝ) (hm : m ≠ 0) (hh : h ≠ 0) (hb : b = 0)
    (order1 : Bool) (fs : List ℝ) (dv : ℝ × ℝ) (j : ℕ) (dj dj1 : ℝ × ℝ) (f0 f1 aj : ℝ)
    (h1 : (cplxUncRbDV order1 h (some m) b k dv fs)[j]? = some dj)
    (h2 : (cplxUncRbDV order1 h (some m) b k dv fs)[j + 1]? = some dj1)
    (h3 : fs[j]? = some f0) (h4 : fs[j + 1]? = some f1)
    (h5 : (cplxUncRbAcc (some m) b k fs)[j]? = some aj) :
    (∃ x v : ℝ → ℝ, IsSol m b 0 f0 (if order1 then (f1 - f0) / h else 0) dj.1 dj.2 x v ∧
      dj1 = (x h, v h)) ∧
    (∀ x v : ℝ → ℝ, IsSol m b 0 f0 (if order1 then (f1 - f0) / h else 0) dj.1 dj.2 x v →
      dj1 = (x h, v h)) ∧
    m * aj + b * dj.2 = f0 := by
  subst hb
  have hacc : m * aj + 0 * dj.2 = f0 := by
    simp only [cplxUncRbAcc, cplxUncRbForce, List.getElem?_map, h3, Option.map_some,
      Option.some.injEq] at h5
    rw [← h5]
    field_simp
    ring
  simp only [cplxUncRbDV] at h1 h2
  have g3 : (fs.map (cplxUncRbForce (some m)))[j]? = some ((1 / m) * f0) := by
    simp [cplxUncRbForce, h3]
  have g4 : (fs.map (cplxUncRbForce (some m)))[j + 1]? = some ((1 / m) * f1) := by
    simp [cplxUncRbForce, h4]
  obtain ⟨x, v, hs, he⟩ := rb_run_exact h hh order1 _ dv j dj dj1 _ _ h1 h2 g3 g4
  have hslope : (if order1 then ((1 / m) * f1 - (1 / m) * f0) / h else 0)
      = (1 / m) * (if order1 then (f1 - f0) / h else 0) := by
    cases order1 <;> simp
    ring
  rw [hslope] at hs
  have hsol := isSol_unit_mass_scale m f0 _ dj.1 dj.2 hm x v hs
  refine ⟨⟨x, v, hsol, he⟩, fun x' v' hs' => ?_, hacc⟩
  obtain ⟨rfl, rfl⟩ := hs'.unique hm hsol
  exact he

/-- **counterexample (finding F61)**: a damped rigid-body row, `m = 1`, `b = 1`, `k = 0`, `h = 1`, order 0,
force held at `1`, from rest.  The complex uncoupled path returns `(d, v) = (1/2, 1)` and `a = 1` at the
second sample; the equation of motion `m a + b v = f` fails there (`1·1 + 1·1 ≠ 1`), and no solution of
`x'' + x' = 1`, `x(0) = x'(0) = 0` ends in that state (`x'(1) = 1 − e⁻¹`). -/
theorem complex_unc_damped_rb_counterexample :
    cplxUncRbDV false (1 : ℝ) (some 1) 1 0 (0, 0) [1, 1] = [(0, 0), (1 / 2, 1)] ∧
    cplxUncRbAcc (some (1 : ℝ)) 1 0 [1, 1] = [1, 1] ∧
    (1 : ℝ) * 1 + 1 * 1 ≠ 1 ∧
    ¬ ∃ x v : ℝ → ℝ, IsSol 1 1 0 1 0 0 0 x v ∧ ((1 / 2 : ℝ), (1 : ℝ)) = (x 1, v 1) := by
  refine ⟨?_, ?_, by norm_num, ?_⟩
  · simp only [cplxUncRbDV, cplxUncRbForce, List.map_cons, List.map_nil, rbRun, rbStep,
      Bool.false_eq_true, if_false]
    norm_num
  · simp [cplxUncRbAcc, cplxUncRbForce]
  · rintro ⟨x, v, hs, he⟩
    have hr : RegimeOK .rigidFull 1 1 0 := ⟨one_ne_zero, one_ne_zero⟩
    obtain ⟨-, hv⟩ := su_solves_ode_unique .rigidFull 1 1 0 1 0 0 0 hr x v hs
    have h1 : v 1 = 1 := (congrArg Prod.snd he).symm
    rw [hv] at h1
    have h2 : vSol .rigidFull 1 1 0 1 0 0 0 1 = 1 - Real.exp (-1) := by
      simp only [vSol, Gph, suCoef, rigidFullCoef, TransOps.exp]
      norm_num
      ring
    rw [h2] at h1
    have := Real.exp_pos (-1)
    linarith


/-! ### the elastic rows: no conjugate deletion for a complex `systype` (finding F62, repaired in 4a72d85)

For a complex `systype` the elastic rows are recovered as `d = ur_d @ y` (`recoverCplx`), for a real one as
`rur_d @ ry − iur_d @ iy` (`recoverReal`) from the kept half of the conjugate pairs.  Before the repair
`delconj` could also delete conjugate pairs of a complex-dtype system with zero imaginary parts (when `la.eig`
returned exactly conjugate eigenvalues); the complex recovery of the kept, doubled eigenvectors then has the right
real part (`complex_recovery_real_part`) and a spurious imaginary part.  The repaired code deletes conjugates only
when `systype is float`, so a complex-dtype system always runs the full modal recurrence, to which
`coupled_run_exact` applies; and the exact solution of a system with real coefficients, real force and real initial
state is real-valued (`complex_dtype_real_system_response_is_real`): no imaginary part may come back. -/

/-- the real part of the complex recovery is the real recovery -/
theorem complex_recovery_real_part {n N : ℕ} (U : Fin n → Fin N → ℂ) (y : Fin N → ℂ) (j : Fin n) :
    (recoverCplx U y j).re = recoverReal (R := ℝ) U y j := by
  simp only [recoverCplx, matVec, recoverReal, dotFin_eq, dotFin_eq_real, CplxOps.re, CplxOps.im,
    Complex.re_sum, Complex.mul_re, Finset.sum_sub_distrib]

/-- a system with real coefficients handed over in a complex dtype: THE complex solution (the one the
complex path computes, `coupled_run_exact`) is the real solution with zero imaginary part -/
theorem complex_dtype_real_system_response_is_real {n : ℕ} (M Mi B K : Matrix (Fin n) (Fin n) ℝ)
    (hMi : Mi * M = 1) (f0 fs d0 v0 : Fin n → ℝ) (dR vR : ℝ → Fin n → ℝ)
    (hR : IsSol2R M B K f0 fs d0 v0 dR vR) (d v : ℝ → Fin n → ℂ)
    (hC : IsSol2 (cMat M) (cMat B) (cMat K) (cVec f0) (cVec fs) (cVec d0) (cVec v0) d v) :
    (∀ t j, (d t j).im = 0 ∧ (d t j).re = dR t j) ∧ (∀ t j, (v t j).im = 0 ∧ (v t j).re = vR t j) := by
  have hcm := cMat_mul_eq_one hMi
  have h1 := hC.toState hcm
  have h2 := hR.complexify.toState hcm
  have he := h1.unique h2
  constructor
  · intro t j
    have := congrFun (congrFun he t) (Sum.inr j)
    simp only [Sum.elim_inr] at this
    rw [this]
    simp [cVec]
  · intro t j
    have := congrFun (congrFun he t) (Sum.inl j)
    simp only [Sum.elim_inl] at this
    rw [this]
    simp [cVec]

/-- the set-up that the repair removed: one kept eigenvector `u = 2i` (already doubled), modal state `y = 1`:
the real recovery gives the real displacement `0`, the complex recovery would return `2i` -/
example : recoverReal (R := ℝ) (fun (_ : Fin 1) (_ : Fin 1) => (2 * Complex.I : ℂ)) (fun _ => 1) 0 = 0 ∧
    (recoverCplx (fun (_ : Fin 1) (_ : Fin 1) => (2 * Complex.I : ℂ)) (fun _ => 1) 0).im = 2 := by
  constructor
  · simp [recoverReal, dotFin_eq_real, CplxOps.re, CplxOps.im]
  · simp [recoverCplx, matVec, dotFin_eq]

/-- non-vacuity of `complex_dtype_real_system_response_is_real`: the unit mass at rest -/
example : IsSol2R (1 : Matrix (Fin 1) (Fin 1) ℝ) 0 0 0 0 0 0 (fun _ => 0) (fun _ => 0) := by
  refine ⟨fun t => hasDerivAt_const t (0 : Fin 1 → ℝ), fun t => ⟨0, hasDerivAt_const t (0 : Fin 1 → ℝ), ?_⟩,
    rfl, rfl⟩
  simp

/-! ### non-vacuity of the partial theorem: an undamped row, `m = 2`, `h = 1`, force `2 → 6`, order 1 -/

example : cplxUncRbDV true (1 : ℝ) (some 2) 0 0 (0, 0) [2, 6] = [(0, 0), (5 / 6, 2)] ∧
    cplxUncRbAcc (some (2 : ℝ)) 0 0 [2, 6] = [1, 3] := by
  constructor
  · simp only [cplxUncRbDV, cplxUncRbForce, List.map_cons, List.map_nil, rbRun, rbStep, if_true]
    norm_num
  · simp only [cplxUncRbAcc, cplxUncRbForce, List.map_cons, List.map_nil]
    norm_num

end PyYetiVerif.C01
