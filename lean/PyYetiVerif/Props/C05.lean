import PyYetiVerif.Lemmas.Rainflow
import PyYetiVerif.Lemmas.Astm
import PyYetiVerif.Lemmas.RainflowMax
import Mathlib.Algebra.Order.Ring.Abs
import Mathlib.Algebra.Order.Field.Basic
import Mathlib.Tactic.Ring
import Mathlib.Tactic.Linarith
/-!
# C05 — rainflow counting: C and Python agree with ASTM E1049

Property theorems only (helper lemmas live in `Lemmas/`).  The model
`PyYetiVerif.Rainflow.rainflow` is tied to `py_rain.py` and `c_rain.c` by the exact
correspondence check (harness/props/c05.py).  A row of the code's table is
`[rng/2, sum/2, if full then 1.0 else 0.5]` with offsets `[s, e]`.

Scope note (stated in DESIGN.md §6/C05): theorems are over exact arithmetic; for doubles whose
differences round, C and Python still perform identical IEEE operations.
-/
namespace PyYetiVerif.C05
open PyYetiVerif.Rainflow PyYetiVerif.Astm

section generic
variable {α : Type} [Sub α] [Add α] [LT α] [DecidableLT α]

/-- twice the sum of the count column equals the number of reversals minus one:
every range is accounted for exactly once. -/
theorem count_total (pts : List α) :
    ((rainflow pts).map fun c => if c.full then 2 else 1).sum = pts.length - 1 :=
  weight_rainflow pts

/-- the table has `L - 1 - (number of full cycles)` rows (`rf[: L - fullcyclesp1]`). -/
theorem rows_total (pts : List α) :
    (rainflow pts).length + ((rainflow pts).filter (·.full)).length = pts.length - 1 := by
  rw [← weight_eq_length_add_full]; exact weight_rainflow pts

/-- each row's offsets name two input points, `start < stop < L`, and the row carries
exactly their range and sum (amplitude = range/2, mean = sum/2). -/
theorem cycle_values (pts : List α) (c : Cyc α) (hc : c ∈ rainflow pts) :
    c.s < c.e ∧ c.e < pts.length ∧
      ∃ a b, pts[c.s]? = some a ∧ pts[c.e]? = some b ∧ c.rng = absd a b ∧ c.sum = a + b :=
  rainflow_ok pts c hc

/-- dropping the offsets from the offsets variant gives the plain variant. -/
theorem offsets_variant_agrees (pts : List α) :
    rainflow1 pts = (rainflow pts).map fun c => (c.rng, c.sum, c.full) :=
  rainflow1_eq pts

/-- the inner loop (defined by well-founded recursion: termination is checked by Lean, there
is no fuel) stops exactly where the code's `j > 1` / `X < Y` tests say. -/
theorem loop_exit (st : List (α × Nat)) : Done (reduce st).1 := reduce_done st

/-- the code's `j == 2` test is the standard's "range Y contains the starting point S":
the transcription of ASTM E1049-85 §5.4.4 with an explicit `S` produces the same table. -/
theorem refines_astm (pts : List α) : astm pts = rainflow pts := astm_eq_rainflow pts

end generic

section field
variable {α : Type} [Field α] [LinearOrder α] [IsStrictOrderedRing α]

theorem absd_eq_abs (a b : α) : absd a b = |a - b| := by
  unfold absd
  split
  · rw [abs_sub_comm, abs_of_pos]; linarith
  · rw [abs_of_nonneg]; linarith

/-- `cycle_values` with the range written as an absolute value. -/
theorem cycle_values_abs (pts : List α) (c : Cyc α) (hc : c ∈ rainflow pts) :
    c.s < c.e ∧ c.e < pts.length ∧
      ∃ a b, pts[c.s]? = some a ∧ pts[c.e]? = some b ∧ c.rng = |a - b| ∧ c.sum = a + b := by
  obtain ⟨h1, h2, a, b, ha, hb, hr, hs⟩ := cycle_values pts c hc
  exact ⟨h1, h2, a, b, ha, hb, by rw [hr, absd_eq_abs], hs⟩

/-- negating the input keeps ranges, counts and offsets and negates the sums (means). -/
theorem negate (pts : List α) :
    rainflow (pts.map fun x => -x) = (rainflow pts).map (mapCyc id fun s => -s) := by
  apply rainflow_map (fun x => -x) id (fun s => -s)
  · intro a b; simp only [absd_eq_abs, id]; rw [← abs_neg]; congr 1; ring
  · intro a b c d; simp
  · intro a b; ring

/-- shifting by `k` keeps ranges, counts, offsets; sums move by `2k` (means by `k`). -/
theorem shift (k : α) (pts : List α) :
    rainflow (pts.map fun x => x + k) = (rainflow pts).map (mapCyc id fun s => s + 2 * k) := by
  apply rainflow_map (fun x => x + k) id (fun s => s + 2 * k)
  · intro a b; simp only [absd_eq_abs, id]; congr 1; ring
  · intro a b c d; simp
  · intro a b; ring

/-- scaling by `k > 0` scales ranges and sums by `k`, counts and offsets unchanged. -/
theorem scale (k : α) (hk : 0 < k) (pts : List α) :
    rainflow (pts.map fun x => k * x) = (rainflow pts).map (mapCyc (k * ·) (k * ·)) := by
  apply rainflow_map (fun x => k * x) (k * ·) (k * ·)
  · intro a b; simp only [absd_eq_abs]; rw [← mul_sub, abs_mul, abs_of_pos hk]
  · intro a b c d; exact mul_lt_mul_iff_right₀ hk
  · intro a b; ring

/-- "The largest range is always counted": for true reversal points (length ≥ 2, every interior
point a strict local extremum, `Alt`) some row of the table has the overall range of the input —
it is at least every |x − y|, and by `cycle_values_abs` it is itself such a difference. -/
theorem largest_range_counted (pts : List α) (hl : 2 ≤ pts.length) (hA : Alt pts) :
    ∃ c ∈ rainflow pts, ∀ x ∈ pts, ∀ y ∈ pts, |x - y| ≤ c.rng := by
  obtain ⟨row, hrow, hmax⟩ := largest_range1 pts hl hA
  rw [rainflow1_eq] at hrow
  obtain ⟨c, hc, rfl⟩ := List.mem_map.mp hrow
  exact ⟨c, hc, hmax⟩

end field

/-- the reversal hypothesis is necessary: `[0, 1, 2]` has overall range 2 and two rows of range 1 -/
theorem largest_range_needs_reversals :
    ¬ ∃ c ∈ rainflow ([0, 1, 2] : List Int), c.rng = 2 := by decide +kernel

example : Alt ([-2, 1, -3, 5, -1, 3, -4, 4, -2] : List ℚ) := by
  simp only [Alt, Turn]; norm_num

/-! ### non-vacuity: the ASTM E1049 example -/

example : rainflow ([-2, 1, -3, 5, -1, 3, -4, 4, -2] : List Int) =
    [⟨3, -1, false, 0, 1⟩, ⟨4, -2, false, 1, 2⟩, ⟨4, 2, true, 4, 5⟩, ⟨8, 2, false, 2, 3⟩,
     ⟨9, 1, false, 3, 6⟩, ⟨8, 0, false, 6, 7⟩, ⟨6, 2, false, 7, 8⟩] := by decide +kernel

end PyYetiVerif.C05
