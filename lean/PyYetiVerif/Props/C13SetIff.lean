import PyYetiVerif.Lemmas.BulkSetCutMain
/-!
# C13 — `wtset` → `rdsets` for ANY `max_length ≥ 2`: the round trip holds EXACTLY when every token fits

Property theorems only (helper lemmas: `Lemmas/BulkSetSplit.lean`, `Lemmas/BulkSetCut*.lean`).  The full statement

    rdsets (wtset setid ids max_length) = {setid: ids}   ⟺   no token of the statement is longer than max_length

(tokens: `SET n = `, then one per maximal run, `a THRU b` for two or more ids, all but the last followed by `", "`) is
`set_roundtrip_iff`.  `⟸` is `set_roundtrip`.  `⟹` has three cases, each with what `rdsets` returns instead:

* the head token is at least two columns too long — `{}` (`set_header_split_fails`, `Props/C13Set.lean`);
* the head token is exactly one column too long: it is cut into `SET n ` and `= `, the second piece does not fit
  behind the first, the first line has no `=` — `{}` (`set_header_split1_fails`);
* the head token fits and an item token does not: the FIRST such token is cut, its first `max_length − 1` characters
  stand alone on a line that does not end in a comma, so `_rdset` closes the set there — the ids of the items before
  it followed by what `_rd_set_line` makes of that piece (a shorter integer, `a`, `range(a, b')` for a prefix `b'` of
  `b`, or the `ValueError` of `int("a THRU")`), and no later line is a SET header (`set_item_cut_reads`); this is
  never `{setid: ids}` (`set_item_cut_fails`).

There is no input for which the round trip succeeds although a token does not fit.
-/
namespace PyYetiVerif.C13
open PyYetiVerif.Bulk

/-- **`max_length` exactly one column shorter than `SET n = `**: `rdsets` returns `{}`; every line fits and the
lines still concatenate to the statement -/
theorem set_header_split1_fails (setid : Int) (ids : List Int) (maxLen : Nat) (hs : 0 ≤ setid)
    (hn : ∀ x ∈ ids, 0 ≤ x) (hlong : (Bulk.txt "SET " ++ dec setid ++ Bulk.txt " = ").length = maxLen + 1) :
    rdSets (setLines setid ids maxLen) = some [] ∧
      (setLines setid ids maxLen).flatten = (setTokens setid ids).flatten :=
  ⟨rdSets_header_split1 setid ids maxLen hs hn hlong, wrapLines_flatten maxLen _⟩

/-- **what is read back when an item token is cut**: `compress ids = J1 ++ it :: J2`, the head token and the tokens
of `J1` fit `max_length`, the token of `it` (`it.txt`, with `", "` when items follow) does not.  Result: the ids of
`J1` followed by `_rd_set_line` of the first `max_length − 1` characters of the item text; `none` = `ValueError`. -/
theorem set_item_cut_reads (setid : Int) (ids : List Int) (maxLen : Nat) (hs : 0 ≤ setid) (hn : ∀ x ∈ ids, 0 ≤ x)
    (hH : (Bulk.txt "SET " ++ dec setid ++ Bulk.txt " = ").length ≤ maxLen)
    (J1 : List Item) (it : Item) (J2 : List Item) (hJ : compress ids = J1 ++ it :: J2)
    (h1 : ∀ x ∈ J1, (ctok x).length ≤ maxLen) (h2 : maxLen < (tokOf it J2).length) :
    rdSets (setLines setid ids maxLen) =
      (rdSetLine (strip (it.txt.take (maxLen - 1)))).map fun v => [(Val.int setid, expand J1 ++ v)] :=
  rdSets_setLines_cut setid ids maxLen hs hn hH J1 it J2 hJ h1 h2

/-- **a cut item token breaks the round trip**: head token fits, some item token does not -/
theorem set_item_cut_fails (setid : Int) (ids : List Int) (maxLen : Nat) (hs : 0 ≤ setid) (hn : ∀ x ∈ ids, 0 ≤ x)
    (hH : (Bulk.txt "SET " ++ dec setid ++ Bulk.txt " = ").length ≤ maxLen)
    (hcut : ∃ t ∈ setBody (compress ids), maxLen < t.length) :
    rdSets (setLines setid ids maxLen) ≠ some [(Val.int setid, ids)] :=
  rdSets_setLines_cut_ne setid ids maxLen hs hn hH hcut

/-- **`set_roundtrip_iff`** (full): for every set id ≥ 0, every non-empty list of ids ≥ 0 and every
`max_length ≥ 2`, `rdsets (wtset …)` is `{setid: ids}` IF AND ONLY IF every token fits `max_length` -/
theorem set_roundtrip_iff (setid : Int) (ids : List Int) (maxLen : Nat) (hs : 0 ≤ setid) (hne : ids ≠ [])
    (hn : ∀ x ∈ ids, 0 ≤ x) (h2 : 2 ≤ maxLen) :
    rdSets (setLines setid ids maxLen) = some [(Val.int setid, ids)] ↔ ∀ t ∈ setTokens setid ids, t.length ≤ maxLen := by
  constructor
  · intro hrt
    by_cases hH : (Bulk.txt "SET " ++ dec setid ++ Bulk.txt " = ").length ≤ maxLen
    · intro t ht
      by_cases hlt : t.length ≤ maxLen
      · exact hlt
      exfalso
      simp only [setTokens, List.mem_cons] at ht
      rcases ht with rfl | ht
      · exact hlt hH
      · exact set_item_cut_fails setid ids maxLen hs hn hH ⟨t, ht, by omega⟩ hrt
    · exfalso
      by_cases hgap : (Bulk.txt "SET " ++ dec setid ++ Bulk.txt " = ").length = maxLen + 1
      · rw [(set_header_split1_fails setid ids maxLen hs hn hgap).1] at hrt
        simp at hrt
      · rw [rdSets_header_split setid ids maxLen hs hn h2 (by omega)] at hrt
        simp at hrt
  · exact rdSets_setLines setid ids maxLen hs hne hn

/-! ### non-vacuity -/

/-- `wtset(f, 100, [1, 2, 3], max_length=9)`: the head `SET 100 = ` has 10 characters; lines `SET 100 `, `= 1 THRU 3` -/
example : rdSets (setLines 100 [1, 2, 3] 9) = some [] :=
  (set_header_split1_fails 100 [1, 2, 3] 9 (by decide) (by decide) (by decide)).1

/-- `wtset(f, 1, [1234567890, 5], max_length=9)`: the token `1234567890, ` is cut after 8 characters -/
example : rdSets (setLines 1 [1234567890, 5] 9) ≠ some [(Val.int 1, [1234567890, 5])] :=
  set_item_cut_fails 1 [1234567890, 5] 9 (by decide) (by decide) (by decide) (by decide)

/-- `wtset(f, 1, [3, 1001, 1002, 1003, 9], max_length=12)`: lines `SET 1 = 3, `, `1001 THRU 1`, `003, 9`; the set is
closed by the second line, `range(1001, 2)` is empty: pyyeti returns `{1: [3]}` (replayed) -/
example : rdSets (setLines 1 [3, 1001, 1002, 1003, 9] 12) =
    (rdSetLine (strip (Bulk.txt "1001 THRU 1"))).map fun v => [(Val.int 1, [3] ++ v)] :=
  set_item_cut_reads 1 [3, 1001, 1002, 1003, 9] 12 (by decide) (by decide) (by decide)
    [.one 3] (.thru 1001 1003) [.one 9] (by decide) (by decide) (by decide)

/-- both sides of the equivalence are met -/
example : rdSets (setLines 7 [1, 2, 3, 5] 12) = some [(Val.int 7, [1, 2, 3, 5])] :=
  (set_roundtrip_iff 7 [1, 2, 3, 5] 12 (by decide) (by decide) (by decide) (by decide)).mpr (by decide)

example : ¬ (rdSets (setLines 7 [1, 2, 3, 5] 9) = some [(Val.int 7, [1, 2, 3, 5])]) := fun h =>
  absurd ((set_roundtrip_iff 7 [1, 2, 3, 5] 9 (by decide) (by decide) (by decide) (by decide)).mp h) (by decide)

end PyYetiVerif.C13
