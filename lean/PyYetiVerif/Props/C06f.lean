import PyYetiVerif.Lemmas.RigidBodyXyz
import PyYetiVerif.Model.RigidBodyMult
/-!
# C06 (second extension) — `cb.rbmultchk`: the reported rigid-body scale, coordinates and unit scales

Property theorems only.  Executable definitions: `Model/RigidBodyMult.lean` (`rbmultchkQ`, `rbScale2`) and C18's
model of `n2p.find_xyz_triples` (`Model/UsetXyz.lean`, read-only; its one-triple algebra is reused through
`Lemmas/RigidBodyXyz.lean`).  Exact rational arithmetic; the floating-point routine is tied to it on dyadic inputs
by the correspondence (`borderline` comparisons are skipped and counted).
-/
set_option linter.unusedVariables false
set_option linter.unusedSimpArgs false
namespace PyYetiVerif.C06
open PyYetiVerif.RigidBody PyYetiVerif.Xyz

/-- ★ every node is found, in any row order and among any rows without a translation part.  For a response matrix
`drm @ rb` that consists of the three rows `(A | A·S(p))` of any number of nodes (`AᵀA = s²·1`: any orthogonal local
system times any output scale, any location `p`) mixed in any order with rows whose translation columns vanish
(rotation rows, NULL rows, modal rows, …), `find_xyz_triples` marks exactly the node rows, reports the location
`p` and the scale (squared `s²`) of each node on its three rows, and nothing on the other rows. -/
theorem find_xyz_triples_segs (tol : ℚ) (ht : 0 ≤ tol) (segs : List Seg) (hex : ∀ s ∈ segs, s.Exact) :
    ∃ res, findXyzTriples tol (rowsOfSegs segs) = some res ∧
      res.coords = segs.flatMap segCoords ∧ res.scale2 = segs.flatMap segScales ∧
      res.pv = segs.flatMap (fun s => match s with | .node _ => [true, true, true] | .flat _ => [false]) := by
  unfold findXyzTriples
  simp only
  have hscan := scan_segs tol ht segs [] (rowsOfSegs segs).length [] (-1) hex
    (by
      rw [rowsOfSegs_length]
      clear hex
      induction segs with
      | nil => simp [segsLen]
      | cons s t ih => cases s <;> simp [segsLen, segLen] <;> omega)
  simp only [List.nil_append, segsLen, List.reverse_nil] at hscan
  rw [hscan]
  simp only
  set ms := (if msFromSegs (-1) segs = -1 then (1 : ℚ) else msFromSegs (-1) segs) with hms
  have hms0 : 0 ≤ ms := by
    rw [hms]
    split
    · norm_num
    · rename_i hne
      rcases msFromSegs_cases segs (-1) with h | ⟨h0, _⟩
      · exact absurd h hne
      · exact h0
  have hfill := fill_segs tol ht ms hms0 segs [] [] [] hex rfl rfl
  simp only [List.nil_append, segsLen] at hfill
  rw [rowsOfSegs_length, hfill]
  refine ⟨_, rfl, rfl, rfl, ?_⟩
  exact replicate_segsLen_pv segs

/-! ## the scale of the rigid-body modes -/

/-- ★ `rbscale`: for rigid-body modes with six rows per grid - translation rows `A` (`AᵀA = s²·1`, any local
coordinate system, one common scale `s` = the unit of the modes), rotation rows with zero translation columns, which is
what `rbgeom` / `rbgeom_uset` produce and what `rb = eye(6)` is - the scale `_rbmultchk` extracts from the first
column is exactly `s` (squared: `s²`), in particular it is not zero (no `ValueError`).  `cols` lists the first column of
the translation block of every grid. -/
theorem rbScale2_grids (σ : ℚ) (hσ : 0 < σ) (b : ℚ × ℚ × ℚ) (blocks : List (ℚ × ℚ × ℚ))
    (hb : ∀ c ∈ b :: blocks, c.1 * c.1 + c.2.1 * c.2.1 + c.2.2 * c.2.2 = σ) :
    rbScale2 ((b :: blocks).flatMap gridCol0) = some σ := by
  have hbσ := hb b List.mem_cons_self
  have hrest := colSq3_blocks_le σ hσ.le blocks (fun c hc => hb c (List.mem_cons_of_mem _ hc))
  have h1 := mul_self_nonneg b.1
  have h2 := mul_self_nonneg b.2.1
  have h3 := mul_self_nonneg b.2.2
  have hcs : colSq3 ((b :: blocks).flatMap gridCol0) =
      (b.1 * b.1 + b.2.1 * b.2.1 + b.2.2 * b.2.2) :: (b.2.1 * b.2.1 + b.2.2 * b.2.2 + 0 * 0) ::
        (b.2.2 * b.2.2 + 0 * 0 + 0 * 0) :: (0 * 0 + 0 * 0 + 0 * 0) :: colSq3 (0 :: 0 :: blocks.flatMap gridCol0) := by
    simp [List.flatMap_cons, gridCol0, colSq3]
  unfold rbScale2
  rw [hcs]
  simp only
  have hle : ((b.1 * b.1 + b.2.1 * b.2.1 + b.2.2 * b.2.2) :: (b.2.1 * b.2.1 + b.2.2 * b.2.2 + 0 * 0) ::
      (b.2.2 * b.2.2 + 0 * 0 + 0 * 0) :: (0 * 0 + 0 * 0 + 0 * 0) :: colSq3 (0 :: 0 :: blocks.flatMap gridCol0)).foldl maxR 0
      ≤ σ := by
    apply foldl_maxR_le σ _ 0 hσ.le
    intro x hx
    simp only [List.mem_cons] at hx
    rcases hx with rfl | rfl | rfl | rfl | hx
    · exact hbσ.le
    · nlinarith
    · nlinarith
    · nlinarith
    · exact hrest x hx
  have hge : σ ≤ ((b.1 * b.1 + b.2.1 * b.2.1 + b.2.2 * b.2.2) :: (b.2.1 * b.2.1 + b.2.2 * b.2.2 + 0 * 0) ::
      (b.2.2 * b.2.2 + 0 * 0 + 0 * 0) :: (0 * 0 + 0 * 0 + 0 * 0) :: colSq3 (0 :: 0 :: blocks.flatMap gridCol0)).foldl maxR 0 := by
    apply mem_le_foldl_maxR
    rw [hbσ]
    exact List.mem_cons_self
  have heq := le_antisymm hle hge
  rw [heq, if_neg hσ.ne']

/-- ★ `rbmultchk`: rigid-body scale, coordinates and unit scales together.  If the rigid-body modes are those of
grids with six rows each and unit scale `s` (`rbScale2_grids`) and the product `drm @ rb` consists of node triples
`(A | A·S(p))` and rows without translation part (`find_xyz_triples_segs`), the report lists for every node row the
location `p` relative to the reference of the rigid-body modes and the "Unit Scale" `(s_node / s)` (squared here),
blanks on the other rows, and the extreme coordinates over the nodes. -/
theorem rbmultchk_scale_and_coords (drm rb : List (List ℚ)) (spec : BsetSpec) (cols : List Nat)
    (segs : List Seg) (σ : ℚ) (hσ : 0 < σ) (b : ℚ × ℚ × ℚ) (blocks : List (ℚ × ℚ × ℚ))
    (hrb6 : ∀ r ∈ rb, r.length = 6) (hcols : rbmultCols (drm.headD []).length rb.length spec = some cols)
    (hb : ∀ c ∈ b :: blocks, c.1 * c.1 + c.2.1 * c.2.1 + c.2.2 * c.2.2 = σ)
    (hcol0 : rb.map (fun r => r.getD 0 0) = (b :: blocks).flatMap gridCol0)
    (hex : ∀ s ∈ segs, s.Exact) (hprod : (matMulQ drm rb cols).map toRow = rowsOfSegs segs) :
    ∃ out res, rbmultchkQ drm rb spec = .ok out ∧ out.rbscale2 = σ ∧ out.trips = some res ∧
      res.coords = segs.flatMap segCoords ∧
      out.unitScale2 = (segs.flatMap segScales).map (fun o => o.map (· / σ)) ∧
      out.extremes = extremesOf (segs.flatMap segCoords) := by
  obtain ⟨res, hres, hc, hs, _⟩ := find_xyz_triples_segs xyzTol (by unfold xyzTol; norm_num [Generated.RigidBodyConsts.xyzTolNum, Generated.RigidBodyConsts.xyzTolDen]) segs hex
  have h6 : (rb.any fun r => r.length != 6) = false := by
    rw [List.any_eq_false]
    intro r hr
    simp [hrb6 r hr]
  unfold rbmultchkQ
  rw [h6]
  simp only [Bool.false_eq_true, if_false, hcols, hcol0, rbScale2_grids σ hσ b blocks hb, hprod, hres]
  exact ⟨_, res, rfl, rfl, rfl, hc, by rw [hs], by rw [hc]⟩

/-! ## rows that are not a rigid combination -/

/-- ★ the tolerance rule.  A candidate triple - translation block `A` with `AᵀA = s²·1`, rotation block `A·B` - whose
`B` is NOT antisymmetric is left unmarked (blank coordinates in the report) exactly according to the two `allclose`
tests of the routine: it does not contribute to the model scale when some entry has
`|B_ij + B_ji| > tol·max|B| + rtol·|B_ji|` (first loop, the candidate's own size as scale), and it is not reported when
`|B_ij + B_ji| > tol·model_scale + rtol·|B_ji|` (final loop; `model_scale` = the largest coordinate among the accepted
triples, `1` when there is none) - stated here for a matrix that consists of this one candidate (`model_scale = 1`):
all three rows stay unmarked.  (`tol` = 0.01 by default, `rtol` = numpy's 1e-5.) -/
theorem rbmultchk_flags_nonrigid (tol : ℚ) (ht : 0 ≤ tol) (n : Node) (B : M3) (hn : n.Exact)
    (h1 : patternOK (tol * absMax B) B = .no) (h2 : patternOK (tol * 1) B = .no) :
    ∃ res, findXyzTriples tol [(n.A 0, mul n.A B 0), (n.A 1, mul n.A B 1), (n.A 2, mul n.A B 2)] = some res ∧
      res.coords = [none, none, none] ∧ res.pv = [false, false, false] ∧ res.modelScale = 1 := by
  obtain ⟨ho, hs⟩ := hn
  have hw : window #[(n.A 0, mul n.A B 0), (n.A 1, mul n.A B 1), (n.A 2, mul n.A B 2)] 0 = some (n.A, mul n.A B) := by
    unfold window
    simp only [List.getElem?_toArray, List.getElem?_cons_zero, List.getElem?_cons_succ, Nat.zero_add]
    congr 1
    refine Prod.ext ?_ ?_ <;> (funext i; fin_cases i <;> rfl)
  have hw1 : window #[(n.A 0, mul n.A B 0), (n.A 1, mul n.A B 1), (n.A 2, mul n.A B 2)] 1 = none := by
    rw [window_none_iff]; simp
  unfold findXyzTriples
  simp only [List.length_cons, List.length_nil]
  rw [scan, hw]
  simp only
  rw [stage1_exact ho hs ht]
  simp only
  rw [rbrot_eq ho hs, h1]
  simp only
  rw [scan, hw1]
  simp only [List.reverse_cons, List.reverse_nil, List.nil_append, if_true]
  rw [fill, hw]
  simp only
  rw [rbrot_eq ho hs, h2]
  simp only [fill]
  exact ⟨_, rfl, rfl, rfl, rfl⟩

/-- non-vacuity of the tolerance rule: `B` with the symmetric entry pair `B₀₁ = B₁₀ = 1`
(`|1 + 1| = 2 > 0.01·1 + 1e-5`): the (0, 1) comparison is a definite `no` -/
example : leT (absR ((1 : ℚ) + 1)) ((1 / 100 : ℚ) * 1 + rtol * absR 1) = .no := by
  norm_num [leT, absR, maxR, margin, rtol]

/-- non-vacuity of the segment theorem: the identity block at unit scale is an exact node, and a rotation row may
stand between two nodes -/
def unitNode : Node := { A := one3, s2 := 1, p := (1, 2, 3) }

example : unitNode.Exact ∧ (∀ s ∈ [Seg.node unitNode, Seg.flat (fun _ => 1), Seg.node unitNode], s.Exact) := by
  have h : unitNode.Exact := by
    refine ⟨?_, by norm_num [unitNode]⟩
    unfold OrthScaled
    funext i j
    fin_cases i <;> fin_cases j <;> simp [unitNode, mul, tr, smul, one3, sum3]
  refine ⟨h, ?_⟩
  intro s hs
  simp only [List.mem_cons, List.not_mem_nil, or_false] at hs
  rcases hs with rfl | rfl | rfl
  · exact h
  · trivial
  · exact h

end PyYetiVerif.C06
