import PyYetiVerif.Lemmas.BulkUset
/-!
# C13 — `uset2bulk` ↔ `bulk2uset` at the table level: ids, DOF, `nasset`, output coordinate system

Property theorems only (helper lemmas: `Lemmas/BulkUset.lean`).  `UEnt` is one entry of a USET table (a grid with its
six rows, or a scalar point with its single row), `uset2bulkLines` the file `uset2bulk` writes for a table,
`bulk2usetGrids` what `bulk2uset` hands to / gets back from `n2p.addgrid` per grid: `(id, cd id, type of cd)`, and
`labelsOf` the `(id, dof, nasset)` index of the table it returns.  Tied to pyyeti/nastran/bulk.py by the streams
`uset-table-write` (exact text, tables with scalar points, unsorted grids, cd ≠ cp) and `uset-table-read`
(`bulk2uset` of that text: grids, index, nasset).  Coordinates: `grid_roundtrip_values`; geometry: C14.
-/
namespace PyYetiVerif.C13
open PyYetiVerif.Bulk

/-- what `addgrid` makes of one `(id, cp, cd)`: both systems must be known; the label is `(id, cd, type of cd)` -/
def resolve (ts : List (Int × Int)) (g : Int × Int × Int) : Option (Int × Int × Int) :=
  match typeOf ts g.2.1, typeOf ts g.2.2 with
  | some _, some t => some (g.1, g.2.2, t)
  | _, _ => none

/-- **`bulk2uset (uset2bulk uset)` at the label level**, for every table (grids in any order, scalar points anywhere,
output systems different from the input system — `uset2bulk` always writes `cp = 0` and the basic location): the file
is written, and `bulk2uset` returns, per GRID of the table **sorted by id**, `(id, cd, type of cd)` — the scalar points
are not in the file at all (`uset2bulk` selects the rows with DOF 1 and DOF 2), and every coordinate system id is looked
up among the CORD2x cards of the same file. -/
theorem uset_bulk_roundtrip_labels (cs : List CordIn) (hc : ∀ c ∈ cs, c.Clean)
    (hn : ∀ c ∈ cs, ∀ f ∈ c.abc, (nasScan f).isNumber = true) (u : List UEnt)
    (hg : (gridOf (usetTriples u)).Compat) (hclean : ∀ r ∈ (usetTriples u).map rowOf, r.Clean 16) :
    ∃ L, uset2bulkLines cs u = .ok L ∧
      bulk2usetGrids L =
        (sortById ((usetTriples u).map fun t => (t.1, 0, t.2.1))).mapM (resolve (cs.map fun c => (c.cid, c.ctype))) := by
  have hG : gridOf (usetTriples u) =
      GridIn.mk (usetIds u) (.scalar 0) (usetXyz u) (.vec (usetCd u)) (.scalar none) (.scalar none) true := by
    simp [gridOf, usetIds_eq, usetCd_eq, usetXyz_eq]
  have hrows := gridLines_rows _ hg
  have hcl : ∀ r ∈ (gridOf (usetTriples u)).rows, r.Clean 16 := by rw [rows_gridOf]; exact hclean
  obtain ⟨h1, h2⟩ := uset_read cs hc hn _ rfl hg hcl _ hrows
  refine ⟨?L, ?a, ?b⟩
  case a =>
    simp only [uset2bulkLines, usetLines, ← hG, hrows]
    rfl
  case b =>
    unfold bulk2usetGrids
    rw [h1, h2]
    simp only [cordTypes_rows, rows_gridOf]
    rw [gridTriple_vals]
    simp only [List.map_map]
    rfl

/-- the `(id, dof, nasset)` labels of a table -/
def tableLabels (u : List UEnt) : List (Int × Nat × Nat) := u.flatMap UEnt.labels

/-- **full strength**: a table of grids only, ids strictly increasing, every DOF in the b-set, every output system
either basic or defined by one of the cards with the type the table records — comes back with identical
`(id, dof, nasset)` rows, and every grid with its own `(cd id, cd type)` (also when cd ≠ cp). -/
theorem uset_bulk_roundtrip_labels_full (ts : List (Int × Int)) (u : List UEnt)
    (hgrids : ∀ e ∈ u, ∃ id cd t p, e = UEnt.grid id (List.replicate 6 bMask) cd t p ∧ typeOf ts cd = some t)
    (hsorted : ((usetTriples u).map fun t => ((t.1, (0 : Int), t.2.1) : Int × Int × Int)).Pairwise fun a b => a.1 < b.1) :
    ∃ gs, (sortById ((usetTriples u).map fun t => (t.1, 0, t.2.1))).mapM (resolve ts) = some gs ∧
      labelsOf gs = tableLabels u ∧
      gs = u.filterMap fun | .grid id _ cd t _ => some (id, cd, t) | .spoint .. => none := by
  rw [sortById_sorted _ hsorted]
  induction u with
  | nil => exact ⟨[], rfl, rfl, rfl⟩
  | cons e r ih =>
      obtain ⟨id, cd, t, p, rfl, ht⟩ := hgrids e (by simp)
      have hs' : ((usetTriples r).map fun t => ((t.1, (0 : Int), t.2.1) : Int × Int × Int)).Pairwise fun a b => a.1 < b.1 := by
        simp only [usetTriples, List.filterMap_cons, List.map_cons] at hsorted
        exact (List.pairwise_cons.mp hsorted).2
      obtain ⟨gs, h1, h2, h3⟩ := ih (fun e he => hgrids e (by simp [he])) hs'
      refine ⟨(id, cd, t) :: gs, ?_, ?_, ?_⟩
      · simp only [usetTriples, List.filterMap_cons, List.map_cons, List.mapM_cons]
        have h0 : typeOf ts 0 = some 1 := rfl
        have : resolve ts (id, 0, cd) = some (id, cd, t) := by simp only [resolve, h0, ht]
        rw [this]
        simp only [usetTriples] at h1
        rw [h1]
        rfl
      · simp only [labelsOf, List.flatMap_cons, tableLabels, UEnt.labels] at h2 ⊢
        rw [h2]
        rfl
      · simp only [List.filterMap_cons, h3]

/-- **what the full-strength statement needs**: a scalar point is dropped by `uset2bulk`, grids come back sorted —
so a table with a scalar point, or with ids out of order, is NOT recovered label for label (documented:
`uset2bulk` "writes CORD2* and GRID cards", `bulk2uset` puts everything in the b-set) -/
example :
    let u : List UEnt := [.spoint 5 bMask, .grid 20 (List.replicate 6 bMask) 0 1 ([], [], []),
                          .grid 10 (List.replicate 6 bMask) 0 1 ([], [], [])]
    usetIds u = [20, 10] ∧
    (sortById ((usetTriples u).map fun t => (t.1, 0, t.2.1))).mapM (resolve []) = some [(10, 0, 1), (20, 0, 1)] ∧
    labelsOf [(10, 0, 1), (20, 0, 1)] ≠ tableLabels u := by decide

/-! ### non-vacuity -/

example : sortById [(30, 0, 7), (10, 0, 0), (20, 0, 7)] = [(10, 0, 0), (20, 0, 7), (30, 0, 7)] := by decide
example : typeOf [(7, 2)] 7 = some 2 ∧ typeOf [(7, 2)] 0 = some 1 ∧ typeOf [(7, 2)] 9 = none := by decide
example : (labelsOf [(10, 7, 2)]).length = 6 ∧ bMask = 2097154 := by decide

end PyYetiVerif.C13
