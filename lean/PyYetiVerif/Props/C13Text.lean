import PyYetiVerif.Lemmas.BulkSet
import PyYetiVerif.Lemmas.BulkTab
import PyYetiVerif.Lemmas.BulkInts
/-!
# C13 — SET and TABLED1 on physical lines; the integer field codec

Property theorems only (helper lemmas: `Lemmas/BulkText.lean`, `Lemmas/BulkSet.lean`,
`Lemmas/BulkTab.lean`).  `rdSets` is the character-level model of `rdsets` / `_rdset` /
`_rd_set_line` — the regular expressions `^[ ]*set[ ]*([0-9]+)[ ]*=[ ]*` and
`(\d+)[ ]*THRU[ ]*(\d+)` written out as explicit scanners, `str.split(",")`, `strip`,
`rstrip(",")`, the continuation loop — and `rdTabled1` the model of `rdtabled1` on top of the
`rdcards` model (comment stripping, `rstrip`, column slicing, line padding).  Both are tied to
pyyeti/nastran/bulk.py by the reader streams on written and independently rendered texts.
-/
namespace PyYetiVerif.C13
open PyYetiVerif.Bulk

/-- the integer field codec: a written integer, right- or left-padded with blanks to any width, is
read back exactly by `nas_sscanf` (`int(s)`), for every integer including negative ones -/
theorem int_field_roundtrip (a b : Nat) (n : Int) : nasScan (blanks a ++ dec n ++ blanks b) = .int n :=
  nasScan_pad a b n

/-- `{:8d}` / `{:16d}` / `{:>8}` fields in particular, and an all-blank field is read as blank -/
theorem int_field_padL (w : Nat) (n : Int) : nasScan (padL w (dec n)) = .int n ∧ nasScan (blanks w) = .blank :=
  ⟨nasScan_padL w n, nasScan_blanks w⟩

/-- `rdsets (wtset setid ids max_length) = {setid: ids}` on physical lines, for every non-empty list
of non-negative ids (sorted or not, with runs and repeats) and every `max_length` that is at least the
longest token — whatever way the greedy wrap breaks the tokens into lines (a line holding only
`SET n = `, lines ending in `, `, THRU items never split). -/
theorem set_roundtrip (setid : Int) (ids : List Int) (maxLen : Nat) (hs : 0 ≤ setid) (hne : ids ≠ [])
    (hn : ∀ x ∈ ids, 0 ≤ x) (h : ∀ t ∈ setTokens setid ids, t.length ≤ maxLen) :
    rdSets (setLines setid ids maxLen) = some [(Val.int setid, ids)] :=
  rdSets_setLines setid ids maxLen hs hne hn h

/-- the reader does not depend on where the lines are broken: any grouping of the tokens of
`wtset` into non-empty lines (the first beginning with `SET n = `) reads back to the ids -/
theorem set_any_wrap (setid : Int) (ids : List Int) (hs : 0 ≤ setid) (hne : ids ≠ []) (hn : ∀ x ∈ ids, 0 ≤ x)
    (T1 : List Txt) (Gs : List (List Txt)) (hGs : ∀ x ∈ Gs, x ≠ [])
    (hfl : T1 ++ Gs.flatten = setBody (compress ids)) :
    rdSets (((txt "SET " ++ dec setid ++ txt " = ") :: T1).flatten :: Gs.map List.flatten) =
      some [(Val.int setid, ids)] := by
  have := rdSets_groups setid hs (compress ids) (compress_ne_nil ids hne) (compress_nonneg ids hn) T1 Gs hGs hfl
  rwa [compress_expand] at this

/-- `rdtabled1 (wttabled1 …)` on physical lines, every number of points (0, fewer than a line,
exactly filling lines, with remainder) and both widths: the header line (two lines, the second just
`*`, for the 16-wide form), the data lines of 4 (2) pairs and the closing `ENDT` are found as one
card, sliced by columns after comment stripping and `rstrip`, and give the table id and, pair by
pair, what `nas_sscanf` makes of each written field. -/
theorem tabled1_roundtrip (wide : Bool) (name : Txt) (tid : Int) (pairs : List (Txt × Txt))
    (h : TabIn wide name tid pairs) :
    rdTabled1 name (tabled1Lines wide name tid pairs) =
      some [(Val.int tid, pairs.map fun p => ((nasScan p.1).arr, (nasScan p.2).arr))] :=
  rdTabled1_written wide name tid pairs h

/-- `rdspoints (wtspoints ids) = ids` on physical lines: every card of `_wt_with_thru` (up to 8 single
ids, or `a THRU b` alone on its card) is one 8-column-field line that the reader slices, scans
(`THRU` as a word, ids exactly) and expands, for every id list whose ids fit an 8-column field. -/
theorem spoint_lines_roundtrip (ids : List Int) (hw : ∀ x ∈ ids, (dec x).length ≤ 8) :
    rdSpoints (spointLines ids) = some ids :=
  rdSpoints_spointLines ids hw

/-- `rdcsupers (wtcsuper id grids) = {id: [id, 0, grids…]}` on physical lines, any number of grids
(first line 6 ids, 8 per continuation line, no padding blanks in between) -/
theorem csuper_lines_roundtrip (sid : Int) (grids : List Int) (hs : (dec sid).length ≤ 8)
    (hw : ∀ x ∈ grids, (dec x).length ≤ 8) :
    rdCsupers (csuperLines sid grids) = [(Val.int sid, Val.int sid :: Val.int 0 :: grids.map Val.int)] :=
  rdCsupers_csuperLines sid grids hs hw

/-- `rdextrn (wtextrn ids dof, expand=False)` = the id / dof pairs in order, on physical lines -/
theorem extrn_lines_roundtrip (pairs : List (Int × Int)) (hne : pairs ≠ [])
    (hw : ∀ p ∈ pairs, (dec p.1).length ≤ 8 ∧ (dec p.2).length ≤ 8) :
    rdExtrn (extrnLines pairs) = some (pairs.map fun p => (Val.int p.1, Val.int p.2)) :=
  rdExtrn_extrnLines pairs hne hw

/-! ### non-vacuity -/

example : rdSpoints (spointLines [1001, 1002, 1003, 7]) = some [1001, 1002, 1003, 7] :=
  spoint_lines_roundtrip _ (by decide)
example : rdCsupers (csuperLines 100 [1, 2, 3, 4, 5, 6, 7]) =
    [(.int 100, [.int 100, .int 0, .int 1, .int 2, .int 3, .int 4, .int 5, .int 6, .int 7])] :=
  csuper_lines_roundtrip 100 _ (by decide) (by decide)
example : rdExtrn (extrnLines [(999, 123456), (10001, 0)]) = some [(.int 999, .int 123456), (.int 10001, .int 0)] :=
  extrn_lines_roundtrip _ (by decide) (by decide)


example : setLines 7 [1, 2, 3, 5] 72 = [txt "SET 7 = 1 THRU 3, 5"] := by decide
example : rdSets [txt "SET 7 = 1 THRU 3, 5"] = some [(.int 7, [1, 2, 3, 5])] := by decide
example : rdSets [txt "SET 7 = 1 THRU 3, ", txt "5"] = some [(.int 7, [1, 2, 3, 5])] := by decide

example : TabIn false (txt "TABLED1") 4000 [(txt "    0.00", txt " 1.00000")] where
  name_ne := by decide
  name_len := by decide
  name_d := by decide
  name_c := by decide
  name_s := by decide
  tid_len := by decide
  fields := by
    intro p hp; simp at hp; subst hp
    exact ⟨by decide, by decide, by decide, by decide, by intro c hc; simp [txt] at hc; subst hc; decide⟩

example : tabled1Lines false (txt "TABLED1") 4000 [(txt "    0.00", txt " 1.00000")] =
    [txt "TABLED1     4000", txt "            0.00 1.00000ENDT"] := by
  simp [tabled1Lines, tabled1Rows, fullChunks]; decide

end PyYetiVerif.C13
