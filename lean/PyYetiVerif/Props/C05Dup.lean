import PyYetiVerif.Lemmas.RainflowDup
import PyYetiVerif.Props.C05
/-!
# C05 — `duplicate_insertion` in its true form for interior points

"Inserting a copy of a point next to itself changes the table only by a zero-range entry" is true for the first
point (`duplicate_first`, Props/C05Struct.lean) and for the LAST point, and false for every point in between
that is followed by another point: there the pair of copies is counted as one zero-range FULL cycle and both
are discarded, so the machine continues from the stack WITHOUT `x`.
-/
namespace PyYetiVerif.C05
open PyYetiVerif.Rainflow

section field
variable {α : Type} [Field α] [LinearOrder α] [IsStrictOrderedRing α]

/-- **duplicate_insertion, interior points, exact condition.**  Let `pre ++ [x]` (`pre` not empty) have been read,
leaving the stack `x :: w :: rest` with `w ≠ x` (the point under `x` is not already a copy of it) and the rows `rows`.
* KEPT — the copy is the last point of the input: the table of `pre ++ [x, x]` is the table of `pre ++ [x]` plus
  the zero-range HALF cycle `[0, x + x, half, n, n + 1]` at its end;
* ERASED — at least one point `y` follows: the table of `pre ++ x :: x :: y :: post` is
  `rows`, then the zero-range FULL cycle `[0, x + x, full, n, n + 1]`, then whatever the machine does with
  `y :: post` started from the stack `w :: rest` — `x` is gone;
* for comparison, without the copy the machine does `y :: post` from the stack `x :: w :: rest`.
(`n = pre.length` is the offset of `x`.)  So the copy is harmless iff nothing follows it. -/
theorem duplicate_insertion_interior (pre : List α) (x : α) (w : α × Nat) (rest : List (α × Nat))
    (rows : List (Cyc α))
    (hrun : run (index (pre ++ [x]) 0) = ((x, pre.length) :: w :: rest, rows)) (hw : w.1 ≠ x) :
    rainflow (pre ++ [x, x])
        = rainflow (pre ++ [x]) ++ [(⟨0, x + x, false, pre.length, pre.length + 1⟩ : Cyc α)] ∧
    ∀ (y : α) (post : List α),
      rainflow (pre ++ x :: x :: y :: post) =
        ((index (y :: post) (pre.length + 2)).foldl step
            (w :: rest, rows ++ [(⟨0, x + x, true, pre.length, pre.length + 1⟩ : Cyc α)])).2 ++
          finish ((index (y :: post) (pre.length + 2)).foldl step
            (w :: rest, rows ++ [(⟨0, x + x, true, pre.length, pre.length + 1⟩ : Cyc α)])).1.reverse ∧
      rainflow (pre ++ x :: y :: post) =
        ((index (y :: post) (pre.length + 1)).foldl step ((x, pre.length) :: w :: rest, rows)).2 ++
          finish ((index (y :: post) (pre.length + 1)).foldl step ((x, pre.length) :: w :: rest, rows)).1.reverse := by
  have h := duplicate_interior_aux pre x w rest rows hrun
    (by rw [absd_eq_abs, absd_eq_abs, sub_self, abs_zero]; exact abs_pos.mpr (sub_ne_zero.mpr hw))
    (by intro y; rw [absd_eq_abs, absd_eq_abs, sub_self, abs_zero]; exact not_lt.mpr (abs_nonneg _))
  have e1 : mkCyc false (x, pre.length) (x, pre.length + 1)
      = (⟨0, x + x, false, pre.length, pre.length + 1⟩ : Cyc α) := by simp [mkCyc, absd_eq_abs]
  have e2 : mkCyc true (x, pre.length) (x, pre.length + 1)
      = (⟨0, x + x, true, pre.length, pre.length + 1⟩ : Cyc α) := by simp [mkCyc, absd_eq_abs]
  rw [e1, e2] at h
  exact h

end field

/-! ### non-vacuity (integers; the hypotheses of the generic lemma hold, both branches differ) -/

theorem int_absd_nonneg (x y : Int) : ¬ absd x y < absd x x := by
  unfold absd; split <;> split <;> omega

-- the state after `[0, 5]` is the stack `5 :: 0`, no rows: the hypothesis `hrun` is satisfiable
example : run (index (([0] : List Int) ++ [5]) 0) = ([(5, 1), (0, 0)], []) := by decide +kernel

-- KEPT at the end, ERASED when `1` follows
example :
    rainflow ([0, 5, 5] : List Int) = rainflow ([0, 5] : List Int) ++ [⟨0, 10, false, 1, 2⟩] ∧
    rainflow ([0, 5, 5, 1] : List Int) = [⟨0, 10, true, 1, 2⟩, ⟨1, 1, false, 0, 3⟩] ∧
    rainflow ([0, 5, 1] : List Int) = [⟨5, 5, false, 0, 1⟩, ⟨4, 6, false, 1, 2⟩] := by decide +kernel

-- the generic lemma applied at the integers
example := duplicate_interior_aux ([0] : List Int) 5 (0, 0) [] [] (by decide +kernel) (by decide)
  (int_absd_nonneg 5)

end PyYetiVerif.C05
