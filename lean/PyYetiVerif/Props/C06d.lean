import PyYetiVerif.Lemmas.RigidBodyNet
import PyYetiVerif.Props.C06c
import Mathlib.LinearAlgebra.Matrix.NonsingularInverse
/-!
# C06 (second extension) — `cb.mk_net_drms`: what the recovery matrices recover

Property theorems only.  Executable definitions: `Model/RigidBodyNet.lean` (`mkNetDrms` and its pieces).
The two dense kernels enter through their specifications: `formrbe3`'s normal equations `A·X = B`
(C14 proves `rbe3_reproduces_rb` for its model of `formrbe3`; here the same algebra is stated for the
configuration `mk_net_drms` uses) and `linalg.solve(Mcg, ·)`.
-/
set_option linter.unusedVariables false
set_option linter.unusedSimpArgs false
set_option linter.unusedSectionVars false
namespace PyYetiVerif.C06
open PyYetiVerif.RigidBody

/-! ## ifltma / ifltmd -/

section ifltm

/-- the load of interface DOF `k` in basic axes, from local (rectangular output system) components `F` -/
def localToBasic (u : NMat ℝ) (F : Nat → ℝ) : Nat → ℝ := fun k =>
  let g := k / 6
  let a := k % 6
  if a < 3 then u (6 * g + 3 + a) 0 * F (6 * g) + u (6 * g + 3 + a) 1 * F (6 * g + 1)
    + u (6 * g + 3 + a) 2 * F (6 * g + 2)
  else u (6 * g + a) 0 * F (6 * g + 3) + u (6 * g + a) 1 * F (6 * g + 4) + u (6 * g + a) 2 * F (6 * g + 5)

/-- ★ `ifltma @ a + ifltmd @ d_b` IS the resultant interface force about `ref`.  For `ng` interface grids
(rows `u` of the uset, rectangular output systems), any response `a` (all DOF) and boundary displacement `d`
the two recovery matrices `rb.T @ Mcb[bset_if]` and `rb.T @ Kcb[bset_if, bset]` of `mk_net_drms` give row by row
the resultant at the reference point - force sum in rows 0-2, moment sum plus `(p_g - ref) × f_g` in rows 3-5 - of the
interface forces `Mcb[bset_if] @ a + Kcb[bset_if, bset] @ d`, each turned to basic axes by its grid's transform. -/
theorem net_ifltm_is_interface_resultant (ng n nb : Nat) (u : NMat ℝ) (r : V3 ℝ) (M K : NMat ℝ)
    (bi bs : Nat → Nat) (a d : Nat → ℝ) (j : Nat) (hj : j < 6) :
    let rb := rbgeomUset u (fun _ => false) (fun _ => false) r
    sumN n (fun c => netDrm (6 * ng) rb M bi j c * a c) + sumN nb (fun c => netDrmD (6 * ng) rb K bi bs j c * d c)
      = resultant ng (fun g => ⟨u (6 * g) 0, u (6 * g) 1, u (6 * g) 2⟩) r
          (localToBasic u fun k => (sumN n fun c => M (bi k) c * a c) + sumN nb fun c => K (bi k) (bs c) * d c) j := by
  intro rb
  have h := net_force_is_resultant_local ng u r
    (fun k => (sumN n fun c => M (bi k) c * a c) + sumN nb fun c => K (bi k) (bs c) * d c) j hj
  unfold localToBasic
  rw [← h]
  unfold netDrm netDrmD
  have e1 : sumN n (fun c => (sumN (6 * ng) fun k => rb k j * M (bi k) c) * a c)
      = sumN (6 * ng) fun k => rb k j * sumN n fun c => M (bi k) c * a c := by
    have : ∀ c, (sumN (6 * ng) fun k => rb k j * M (bi k) c) * a c
        = sumN (6 * ng) fun k => rb k j * M (bi k) c * a c := fun c => (sumN_mul_right _ _ _).symm
    simp only [this]
    rw [sumN_swap]
    apply sumN_congr
    intro k _
    rw [← sumN_mul_left]
    apply sumN_congr
    intro c _
    ring
  have e2 : sumN nb (fun c => (sumN (6 * ng) fun k => rb k j * K (bi k) (bs c)) * d c)
      = sumN (6 * ng) fun k => rb k j * sumN nb fun c => K (bi k) (bs c) * d c := by
    have : ∀ c, (sumN (6 * ng) fun k => rb k j * K (bi k) (bs c)) * d c
        = sumN (6 * ng) fun k => rb k j * K (bi k) (bs c) * d c := fun c => (sumN_mul_right _ _ _).symm
    simp only [this]
    rw [sumN_swap]
    apply sumN_congr
    intro k _
    rw [← sumN_mul_left]
    apply sumN_congr
    intro c _
    ring
  rw [e1, e2, ← sumN_add]
  apply sumN_congr
  intro k _
  ring

/-- non-vacuity: one basic grid at (0, 2, 0), `M` the identity, `K = 0`: a unit x-acceleration of the grid gives the
moment `-2` about z at the origin -/
example : sumN 6 (fun c => netDrm 6 (rbgeomUset (fun i j => if i = 0 ∧ j = 1 then (2 : ℝ) else if i ≥ 3 ∧ i - 3 = j then 1 else 0)
      (fun _ => false) (fun _ => false) ⟨0, 0, 0⟩) (fun i j => if i = j then 1 else 0) id 5 c * (if c = 0 then 1 else 0)) = -2 := by
  simp [netDrm, sumN, rbgeomUset, usetBlock, rbBlock, pick6]

end ifltm

/-! ## unit conversion commutes with the net-force recovery -/

section units

/-- ★ `ifltma_lv` (before the rotation to l/v axes) is the CONVERTED net force: the recovery matrix formed from the
converted mass `cbconvert(Mcb)`, the converted uset and the converted reference point equals, row by row, the s/c matrix
converted as a data recovery matrix (`cbconvert(ifltma_sc, drm=True)`, what the routine returns as `ifltma_sc`) times
the force factor `mc·lc` (rows 0-2) or the moment factor `mc·lc²` (rows 3-5) - for interface grids with rectangular
output systems and an interface DOF list aligned with the b-set pattern (translations first in every grid). -/
theorem net_ifltm_units (ng : Nat) (u M : NMat ℝ) (r : V3 ℝ) (bset : List Nat) (bi : Nat → Nat) (lc mc : ℝ)
    (hrole : ∀ k, k < 6 * ng → role bset (bi k) = if k % 6 < 3 then Role.trans else Role.rot)
    (j c : Nat) (hj : j < 6) :
    netDrm (6 * ng) (rbgeomUset (usetConvert u lc) (fun _ => false) (fun _ => false) ⟨r.x * lc, r.y * lc, r.z * lc⟩)
        (cbconvert M bset lc mc false) bi j c
      = (if j < 3 then mc * lc else mc * (lc * lc)) *
        cbconvert (netDrm (6 * ng) (rbgeomUset u (fun _ => false) (fun _ => false) r) M bi) bset lc mc true j c := by
  unfold netDrm cbconvert
  simp only [if_true, Bool.false_eq_true, if_false]
  rw [← sumN_mul_right, ← sumN_mul_left, sumN_six_blocks, sumN_six_blocks]
  apply sumN_congr
  intro g hg
  have hd : ∀ a, a < 6 → (6 * g + a) / 6 = g ∧ (6 * g + a) % 6 = a := fun a ha => ⟨by omega, by omega⟩
  have h0 : (6 * g) / 6 = g ∧ (6 * g) % 6 = 0 := ⟨by omega, by omega⟩
  have r0 := hrole (6 * g) (by omega)
  have r1 := hrole (6 * g + 1) (by omega)
  have r2 := hrole (6 * g + 2) (by omega)
  have r3 := hrole (6 * g + 3) (by omega)
  have r4 := hrole (6 * g + 4) (by omega)
  have r5 := hrole (6 * g + 5) (by omega)
  simp only [h0.2, (hd 1 (by norm_num)).2, (hd 2 (by norm_num)).2, (hd 3 (by norm_num)).2,
    (hd 4 (by norm_num)).2, (hd 5 (by norm_num)).2] at r0 r1 r2 r3 r4 r5
  norm_num at r0 r1 r2 r3 r4 r5
  simp only [rbgeomUset, h0.1, h0.2, (hd 1 (by norm_num)).1, (hd 1 (by norm_num)).2,
    (hd 2 (by norm_num)).1, (hd 2 (by norm_num)).2, (hd 3 (by norm_num)).1, (hd 3 (by norm_num)).2,
    (hd 4 (by norm_num)).1, (hd 4 (by norm_num)).2, (hd 5 (by norm_num)).1, (hd 5 (by norm_num)).2,
    r0, r1, r2, r3, r4, r5, convD]
  interval_cases j <;> simp [usetBlock, usetConvert, rbBlock, pick6] <;> ring

end units

/-! ## ifatm: the RBE3 at the reference point -/

section ifatm
open Matrix

/-- the weighted least-squares kernel of `formrbe3` reproduces rigid-body motion: if `X` solves the normal equations
`(RBᵀ W RB) X = RBᵀ W` and the normal matrix is invertible, then `X · RB = 1` -/
theorem rbe3_normal_reproduces (m : Nat) (rb : NMat ℝ) (w : Nat → ℝ) (X : NMat ℝ)
    (hA : IsUnit (Matrix.of fun i j : Fin 6 => rbe3Normal m rb w i j).det)
    (hX : (Matrix.of fun i j : Fin 6 => rbe3Normal m rb w i j) * (Matrix.of fun (i : Fin 6) (k : Fin m) => X i k)
      = Matrix.of fun (i : Fin 6) (k : Fin m) => rbe3Rhs rb w i k) :
    (Matrix.of fun (i : Fin 6) (k : Fin m) => X i k) * (Matrix.of fun (k : Fin m) (j : Fin 6) => rb k j) = 1 := by
  set A := Matrix.of fun i j : Fin 6 => rbe3Normal m rb w i j with hAdef
  set B := Matrix.of fun (i : Fin 6) (k : Fin m) => rbe3Rhs rb w i k with hBdef
  set R := Matrix.of fun (k : Fin m) (j : Fin 6) => rb k j with hRdef
  have hBR : B * R = A := by
    ext i j
    simp [hBdef, hRdef, hAdef, Matrix.mul_apply, rbe3Rhs, rbe3Normal, sumN_eq_sum_fin]
  have : A * ((Matrix.of fun (i : Fin 6) (k : Fin m) => X i k) * R) = A * 1 := by
    rw [← Matrix.mul_assoc, hX, hBR, Matrix.mul_one]
  have h2 := congrArg (fun Z => A⁻¹ * Z) this
  simpa [← Matrix.mul_assoc, Matrix.nonsing_inv_mul _ hA] using h2

/-- ★ the net interface acceleration.  `ifatm` holds the RBE3 coefficients `X` (6 x m) in the columns `cols` of the
independent DOF and zeros elsewhere.  If `X` reproduces rigid-body motion of the independent DOF about the reference
point (`X · RB = 1`, the specification of `formrbe3` with the dependent grid at `ref`), then for every response vector
`a` that is a rigid-body acceleration `alpha` (about `ref`) on the independent DOF, `ifatm @ a = alpha`; after the
routine's `ifatm[:3] /= g` the translational rows are in units of `g`. -/
theorem net_ifatm_is_rb_acceleration_of_interface (n m : Nat) (cols : List Nat) (hnd : cols.Nodup)
    (hlt : ∀ x ∈ cols, x < n) (hlen : cols.length = m) (X rb : NMat ℝ)
    (hXR : (Matrix.of fun (i : Fin 6) (k : Fin m) => X i k) * (Matrix.of fun (k : Fin m) (j : Fin 6) => rb k j) = 1)
    (alpha : Fin 6 → ℝ) (a : Nat → ℝ) (ha : ∀ k, k < m → a (cols.getD k 0) = ∑ j : Fin 6, rb k j * alpha j)
    (g : ℝ) (i : Fin 6) :
    sumN n (fun c => scatterCols cols X i c * a c) = alpha i ∧
      sumN n (fun c => divRows3 (scatterCols cols X) g i c * a c) = if i.val < 3 then alpha i / g else alpha i := by
  have h1 : sumN n (fun c => scatterCols cols X i c * a c) = alpha i := by
    have e : (fun c => scatterCols cols X i c * a c)
        = fun c => match idxIn cols c with | some k => X i k * a c | none => 0 := by
      funext c
      unfold scatterCols
      cases idxIn cols c <;> simp
    rw [e]
    refine (sumN_scatter n cols hnd hlt (fun k c => X i k * a c)).trans ?_
    rw [hlen, sumN_eq_sum_fin]
    have hrow := congrFun (congrFun hXR i)
    have : ∑ k : Fin m, X i k * a (cols.getD k 0) = ∑ j : Fin 6, (∑ k : Fin m, X i k * rb k j) * alpha j := by
      simp only [ha _ (Fin.is_lt _), Finset.mul_sum, Finset.sum_mul]
      rw [Finset.sum_comm]
      apply Finset.sum_congr rfl
      intro j _
      apply Finset.sum_congr rfl
      intro k _
      ring
    rw [this]
    have h3 : ∀ j : Fin 6, (∑ k : Fin m, X i k * rb k j) = (1 : Matrix (Fin 6) (Fin 6) ℝ) i j := by
      intro j
      have := hrow j
      simpa [Matrix.mul_apply] using this
    simp only [h3, Matrix.one_apply]
    simp
  refine ⟨h1, ?_⟩
  by_cases hi : i.val < 3
  · simp only [divRows3, hi, if_true]
    have : (fun c => scatterCols cols X i c / g * a c) = fun c => (scatterCols cols X i c * a c) * g⁻¹ := by
      funext c; ring
    rw [this, sumN_mul_right, h1]
    ring
  · simp only [divRows3, hi, if_false]
    exact h1

/-- which columns: with more than one interface grid the translations of every grid (`rbe3_indep_dof` default 123),
with a single grid all six of its DOF (the fix 75ede6d: its columns are `bset_if`, not `0..5`) -/
example : ifatmCols [7, 8, 9, 10, 11, 12] 123456 = [7, 8, 9, 10, 11, 12] ∧
    ifatmCols [0, 1, 2, 3, 4, 5, 20, 21, 22, 23, 24, 25] 123 = [0, 1, 2, 20, 21, 22] ∧
    indepCode 6 none = 123456 ∧ indepCode 12 none = 123 ∧ indepCode 12 (some 123456) = 123456 := by decide

end ifatm

/-! ## cgatm: what the code computes (open finding F46 included) -/

section cgatm

/-- grid locations read off the uset rows -/
def usetPts (u : NMat ℝ) : Nat → V3 ℝ := fun g => ⟨u (6 * g) 0, u (6 * g) 1, u (6 * g) 2⟩

/-- the force rows of a resultant do not depend on the reference point -/
theorem resultant_force_ref_indep (ng : Nat) (p : Nat → V3 ℝ) (r r' : V3 ℝ) (F : Nat → ℝ) (i : Nat) (hi : i < 3) :
    resultant ng p r F i = resultant ng p r' F i := by
  unfold resultant
  apply sumN_congr
  intro g _
  interval_cases i <;> simp [pick6]

/-- ★ rows 0-2 of `cgatm` are the acceleration of the cg (Newton): for `Mcg = diag(m, m, m, J)` - what `cgmass`
returns for the rigid interface mass, `cgmass_recovers` - and `X = linalg.solve(Mcg, rbcg.T @ Mcb[bset_if])`,
`m · (X[i] @ a)` is component `i` of the net interface force `Σ_g f_g` (in basic axes) for every response `a`; the point
the rigid-body modes `rbcg` are formed about (`cgoff`, finding F46) does not matter for these rows; after
`cgatm[:3] /= g` the rows give the cg acceleration in units of `g`. -/
theorem cgatm_translation_rows_are_cg_acceleration (ng n : Nat) (u : NMat ℝ) (cgoff : V3 ℝ) (M Mcg X : NMat ℝ)
    (bi : Nat → Nat) (m : ℝ)
    (hM : ∀ i j, i < 3 → j < 6 → Mcg i j = if i = j then m else 0)
    (hX : ∀ i c, i < 6 → c < n → sumN 6 (fun t => Mcg i t * X t c)
        = cgatmRhs (6 * ng) (rbgeomUset u (fun _ => false) (fun _ => false) cgoff) M bi i c)
    (a : Nat → ℝ) (g : ℝ) (hg : g ≠ 0) (i : Nat) (hi : i < 3) (r : V3 ℝ) :
    m * sumN n (fun c => X i c * a c)
        = resultant ng (usetPts u) r (localToBasic u fun k => sumN n fun c => M (bi k) c * a c) i ∧
      m * g * sumN n (fun c => divRows3 X g i c * a c)
        = resultant ng (usetPts u) r (localToBasic u fun k => sumN n fun c => M (bi k) c * a c) i := by
  have hrow : ∀ c, c < n → m * X i c
      = cgatmRhs (6 * ng) (rbgeomUset u (fun _ => false) (fun _ => false) cgoff) M bi i c := by
    intro c hc
    rw [← hX i c (by omega) hc]
    interval_cases i <;> simp [sumN, hM]
  have h1 : m * sumN n (fun c => X i c * a c)
      = resultant ng (usetPts u) r (localToBasic u fun k => sumN n fun c => M (bi k) c * a c) i := by
    rw [← sumN_mul_left]
    have e : sumN n (fun c => m * (X i c * a c))
        = sumN n (fun c => netDrm (6 * ng) (rbgeomUset u (fun _ => false) (fun _ => false) cgoff) M bi i c * a c) := by
      apply sumN_congr
      intro c hc
      rw [← mul_assoc, hrow c hc]
      rfl
    rw [e]
    have h := net_ifltm_is_interface_resultant ng n 0 u cgoff M (fun _ _ => 0) bi (fun k => k) a (fun _ => 0) i (by omega)
    simp only [sumN, add_zero] at h
    rw [h]
    exact resultant_force_ref_indep ng _ cgoff r _ i hi
  refine ⟨h1, ?_⟩
  rw [← h1]
  have : (fun c => divRows3 X g i c * a c) = fun c => (X i c * a c) * g⁻¹ := by
    funext c
    simp only [divRows3, hi, if_true]
    ring
  rw [this, sumN_mul_right]
  field_simp

/-- ★ rows 3-5 of `cgatm`, as the code computes them: with `Mcg = diag(m, m, m, J)`, `J · (X[3:6] @ a)` is the moment
of the interface forces about the point whose BASIC coordinates are `cgoff` - the second argument of
`rbcg = rbgeom_uset(uset_if, cg_sc)`.  `cg_sc` is the cg offset FROM `ref`; only for `ref` = basic origin is that
point the cg (open finding F46, `cgatm_rotation_rows_reference_counterexample`). -/
theorem cgatm_rotation_rows_are_moment_about_offset (ng n : Nat) (u : NMat ℝ) (cgoff : V3 ℝ) (M Mcg X J : NMat ℝ)
    (bi : Nat → Nat)
    (hM : ∀ i j, 3 ≤ i → i < 6 → j < 6 → Mcg i j = if j < 3 then 0 else J (i - 3) (j - 3))
    (hX : ∀ i c, i < 6 → c < n → sumN 6 (fun t => Mcg i t * X t c)
        = cgatmRhs (6 * ng) (rbgeomUset u (fun _ => false) (fun _ => false) cgoff) M bi i c)
    (a : Nat → ℝ) (i : Nat) (hi : i < 3) :
    sumN 3 (fun t => J i t * sumN n (fun c => X (3 + t) c * a c))
      = resultant ng (usetPts u) cgoff (localToBasic u fun k => sumN n fun c => M (bi k) c * a c) (3 + i) := by
  have hrow : ∀ c, c < n → sumN 3 (fun t => J i t * X (3 + t) c)
      = cgatmRhs (6 * ng) (rbgeomUset u (fun _ => false) (fun _ => false) cgoff) M bi (3 + i) c := by
    intro c hc
    rw [← hX (3 + i) c (by omega) hc]
    interval_cases i <;> simp [sumN, hM]
  have h := net_ifltm_is_interface_resultant ng n 0 u cgoff M (fun _ _ => 0) bi (fun k => k) a (fun _ => 0) (3 + i) (by omega)
  simp only [sumN, add_zero] at h
  unfold usetPts
  rw [← h]
  have e : sumN n (fun c => netDrm (6 * ng) (rbgeomUset u (fun _ => false) (fun _ => false) cgoff) M bi (3 + i) c * a c)
      = sumN n (fun c => sumN 3 (fun t => J i t * X (3 + t) c) * a c) := by
    apply sumN_congr
    intro c hc
    rw [hrow c hc]
    rfl
  rw [e]
  simp only [sumN, zero_add]
  simp only [← sumN_mul_left]
  rw [← sumN_add, ← sumN_add]
  apply sumN_congr
  intro c _
  ring

/-- the uset rows of one grid at `p` with the basic output system -/
def basicGridRows (p : V3 ℝ) : NMat ℝ := fun i j =>
  if i = 0 then pick3 j p.x p.y p.z
  else if i = 1 then pick3 j 0 1 0
  else if i = 2 then 0
  else if i - 3 = j then 1 else 0

/-- ★ F46, formal side: the rotation rows are NOT about the cg when `ref` is not the basic origin.  One interface
grid at `p = (1, 0, 0)` (basic output system) carrying a unit mass and unit inertia, `ref = p`.  Then
`Mif = rb_all.T @ M @ rb_all = 1`, `cgmass` returns the offset `cg_sc = 0` (the cg IS the grid) and `Mcg = 1`, so
`cgatm = rbcg.T @ M` - and with the code's `rbcg = rbgeom_uset(uset_if, cg_sc)` row 5 (rotation about z) of `cgatm`
answers a unit y-acceleration of the grid, i.e. a rigid translation, with `1`, whereas with the modes about the true cg
(`ref + cg_sc`) it answers `0` as `[0 I]` requires. -/
theorem cgatm_rotation_rows_reference_counterexample :
    let p : V3 ℝ := ⟨1, 0, 0⟩
    let ref : V3 ℝ := ⟨1, 0, 0⟩
    let u := basicGridRows p
    let M : NMat ℝ := fun i j => if i = j then 1 else 0
    let rbAll := rbgeomUset u (fun _ => false) (fun _ => false) ref
    let cgm := cgmass (mass6 6 rbAll M)
    (cgm.2.x = 0 ∧ cgm.2.y = 0 ∧ cgm.2.z = 0) ∧ (∀ i j, i < 6 → j < 6 → cgm.1 i j = if i = j then 1 else 0) ∧
      cgatmRhs 6 (rbgeomUset u (fun _ => false) (fun _ => false) cgm.2) M id 5 1 = 1 ∧
      cgatmRhs 6 (rbgeomUset u (fun _ => false) (fun _ => false)
        ⟨ref.x + cgm.2.x, ref.y + cgm.2.y, ref.z + cgm.2.z⟩) M id 5 1 = 0 := by
  intro p ref u M rbAll cgm
  have hrb : ∀ i j, i < 6 → j < 6 → rbAll i j = if i = j then 1 else 0 := by
    intro i j hi hj
    interval_cases i <;> interval_cases j <;>
      simp [rbAll, u, p, ref, rbgeomUset, usetBlock, rbBlock, basicGridRows, pick6, pick3]
  have hmif : ∀ i j, i < 6 → j < 6 → mass6 6 rbAll M i j = if i = j then 1 else 0 := by
    intro i j hi hj
    interval_cases i <;> interval_cases j <;> simp [mass6, mulN, trN, sumN, hrb, M]
  have hd : cgm.2.x = 0 ∧ cgm.2.y = 0 ∧ cgm.2.z = 0 := by
    refine ⟨?_, ?_, ?_⟩ <;> simp [cgm, cgmass, hmif]
  refine ⟨hd, ?_, ?_, ?_⟩
  · intro i j hi hj
    interval_cases i <;> interval_cases j <;> simp [cgm, cgmass, hmif, pick3]
  · obtain ⟨hx, hy, hz⟩ := hd
    have : cgm.2 = ⟨0, 0, 0⟩ := by
      cases h : cgm.2; simp_all
    rw [this]
    simp [cgatmRhs, netDrm, sumN, rbgeomUset, usetBlock, rbBlock, basicGridRows, pick6, pick3, u, M, p]
  · obtain ⟨hx, hy, hz⟩ := hd
    rw [hx, hy, hz]
    simp [cgatmRhs, netDrm, sumN, rbgeomUset, usetBlock, rbBlock, basicGridRows, pick6, pick3, u, M, p, ref]

end cgatm

/-! ## cglf: weight-normalised load factors -/

section cglf

/-- ★ the five rows of `cglfa` per coordinate system (cb.py:1201-1211): axial and the two lateral rows are the
matching rows of `cgatm` (in `g`), the two moment-based rows are `± ifltma[lat[::-1] + 3] / (weight · height)`; the 14-row
matrix stacks s/c rows, l/v rows (or the s/c rows again when no l/v axis is the s/c axial one) and four blank rows -/
theorem cglf_is_weight_normalised (atm ifltm : NMat ℝ) (cg : V3 ℝ) (ax : Nat) (W h : ℝ) (j : Nat) :
    cglf5 (some atm) ifltm cg ax W h 0 j = atm ax j ∧
      cglf5 (some atm) ifltm cg ax W h 1 j = atm (latIdx ax).1 j ∧
      cglf5 (some atm) ifltm cg ax W h 2 j = atm (latIdx ax).2 j ∧
      cglf5 (some atm) ifltm cg ax W h 3 j = (momSign cg ax).1 * ifltm ((latIdx ax).2 + 3) j / (W * h) ∧
      cglf5 (some atm) ifltm cg ax W h 4 j = (momSign cg ax).2 * ifltm ((latIdx ax).1 + 3) j / (W * h) ∧
      (∀ (sc lv : NMat ℝ) (rep : Bool) (i : Nat), i < 5 →
        cglf14 sc lv rep i j = sc i j ∧ cglf14 sc lv rep (i + 5) j = (if rep then sc i j else lv i j)) ∧
      (∀ (sc lv : NMat ℝ) (rep : Bool) (i : Nat), 10 ≤ i → cglf14 sc lv rep i j = 0) := by
  refine ⟨by simp [cglf5], by simp [cglf5], by simp [cglf5], by simp [cglf5], by simp [cglf5], ?_, ?_⟩
  · intro sc lv rep i hi
    have h1 : i + 5 < 10 := by omega
    have h2 : ¬ (i + 5 < 5) := by omega
    simp [cglf14, hi, h1, h2]
  · intro sc lv rep i hi
    have h1 : ¬ (i < 5) := by omega
    have h2 : ¬ (i < 10) := by omega
    simp [cglf14, h1, h2]

/-- ★ the sign convention of the moment-based rows ("set to match the lateral directions", cb.py:1166-1174): for a cg
on the axial axis `ax` at signed height `h ≠ 0` above `ref`, a force `F` acting at the cg produces the moment `cg × F`
about `ref`; the routine detects `ax` as the axial direction and `|h|` as the height, and its two moment-based load
factors `sign · M[lat[::-1]] / (W · |h|)` equal the two lateral force components divided by the weight - whichever of
the six axis / direction combinations applies. -/
theorem cglf_moment_rows_match_shear (ax : Nat) (hax : ax < 3) (h W : ℝ) (hh : h ≠ 0) (hW : W ≠ 0) (F : V3 ℝ) :
    let cg : V3 ℝ := ⟨if ax = 0 then h else 0, if ax = 1 then h else 0, if ax = 2 then h else 0⟩
    let Mo : Nat → ℝ := fun k =>
      pick3 k (cg.y * F.z - cg.z * F.y) (cg.z * F.x - cg.x * F.z) (cg.x * F.y - cg.y * F.x)
    argmaxAbs3 cg = ax ∧ maxAbs3 cg = |h| ∧
      (momSign cg ax).1 * Mo (latIdx ax).2 / (W * maxAbs3 cg) = v3get F (latIdx ax).1 / W ∧
      (momSign cg ax).2 * Mo (latIdx ax).1 / (W * maxAbs3 cg) = v3get F (latIdx ax).2 / W := by
  have habs : 0 < |h| := abs_pos.2 hh
  have hne : |h| ≠ 0 := habs.ne'
  obtain rfl | rfl | rfl : ax = 0 ∨ ax = 1 ∨ ax = 2 := by omega
  all_goals
    intro cg Mo
    rcases lt_or_gt_of_ne hh with hneg | hpos
    · have ha : |h| = -h := abs_of_neg hneg
      have hng : ¬ (0 < h) := by linarith
      simp [cg, Mo, argmaxAbs3, maxAbs3, pyMax, momSign, sgn, v3get, latIdx, pick3, RbOps.abs, RbOps.gt,
        NetOps.isZero, hh, habs, hng, ha, hneg]
      repeat' constructor
      all_goals first | linarith | field_simp
    · have ha : |h| = h := abs_of_pos hpos
      simp [cg, Mo, argmaxAbs3, maxAbs3, pyMax, momSign, sgn, v3get, latIdx, pick3, RbOps.abs, RbOps.gt,
        NetOps.isZero, hh, habs, hpos, ha, not_lt.2 hpos.le]
      repeat' constructor
      all_goals first | linarith | field_simp

/-- non-vacuity / the comment in the source: x up (`s = +1`, `ax = 0`): lat 1 (y) moment-based = +Mz/wh,
lat 2 (z) moment-based = -My/wh -/
example : momSign (⟨2, 0, 0⟩ : V3 ℝ) 0 = (1, -1) ∧ latIdx 0 = (1, 2) := by
  simp [momSign, sgn, v3get, latIdx, RbOps.gt, NetOps.isZero]

end cglf

/-! ## `sccoord`, `reorder`, `bsubset` bookkeeping -/

section book

/-- `Tsc2lv = blockdiag(sccoord, sccoord).T`: the l/v rows are the s/c rows turned by the TRANSPOSE of `sccoord` in both
the force / translation block and the moment / rotation block; `None` is the identity -/
theorem tsc2lv_blocks (T : NMat ℝ) (X : NMat ℝ) (i j : Nat) (hi : i < 3) :
    mul6 (tsc2lv (some T)) X i j = T 0 i * X 0 j + T 1 i * X 1 j + T 2 i * X 2 j ∧
      mul6 (tsc2lv (some T)) X (i + 3) j = T 0 i * X 3 j + T 1 i * X 4 j + T 2 i * X 5 j ∧
      mul6 (tsc2lv none) X i j = X i j ∧ mul6 (tsc2lv none) X (i + 3) j = X (i + 3) j := by
  interval_cases i <;> simp [mul6, tsc2lv, sumN]

/-- `reorder=True`: the interface subset after reordering is the set of new positions whose uset row
(`rank(bset[j])`, the fix 9414dcb) is named by `bsubset`; for a sorted b-set nothing changes -/
example : netReorderSub [6, 7, 8, 9, 10, 11, 12, 13, 14, 15, 16, 17, 0, 1, 2, 3, 4, 5] [0, 1, 2, 3, 4, 5]
      = [12, 13, 14, 15, 16, 17] ∧
    netReorderSub [0, 1, 2, 3, 4, 5, 6, 7, 8, 9, 10, 11] [6, 7, 8, 9, 10, 11] = [6, 7, 8, 9, 10, 11] ∧
    bsetIf [20, 21, 22, 23, 24, 25, 3, 4, 5, 6, 7, 8] [6, 7, 8, 9, 10, 11] = [3, 4, 5, 6, 7, 8] := by decide

end book

/-! ## the routine as a whole: its outputs are the pieces the theorems above are about -/

section whole
variable {α : Type} [Add α] [Sub α] [Mul α] [Div α] [Neg α] [OfNat α 0] [OfNat α 1] [RbOps α] [NetOps α]

/-- ★ `mk_net_drms` without unit conversion and reordering (`conv=None`, `reorder=False`): every returned matrix in
terms of the pieces - `ifltma = rb.T @ Mcb[bset_if]`, `ifltmd = rb.T @ Kcb[bset_if, bset]`, the RBE3 coefficients
scattered into the columns `ifatmCols`, `cgatm` the solve with `Mcg` for the modes about `cg_sc` (finding F46), both
divided by `g` in rows 0-2 (and multiplied back when `tau` is not `'g'`), the l/v versions turned by `Tsc2lv`, weight
`Mcg[0,0]·g`, height `max|cg_sc|`, the axial directions by `argmax`, the 14 rows of `cglfa`. -/
theorem mk_net_drms_fields (n : Nat) (M K : NMat α) (bset sub : List Nat) (u : NMat α) (isCyl isSph : Nat → Bool)
    (ref : V3 α) (o : NetOpts α) (solve : (nc : Nat) → NMat α → NMat α → NMat α)
    (hc : o.conv = none) (hr : o.reorder = false) :
    let out := mkNetDrms n M K bset sub u isCyl isSph ref o solve
    let bi : Nat → Nat := fun k => (bsetIf bset sub).getD k 0
    let bs : Nat → Nat := fun k => bset.getD k 0
    let cyl : Nat → Bool := fun g => isCyl (sub.getD (6 * g) 0 / 6)
    let sph : Nat → Bool := fun g => isSph (sub.getD (6 * g) 0 / 6)
    let rb := rbgeomUset (rowsOf sub u) cyl sph ref
    let T := tsc2lv o.sccoord
    out.rb = rb ∧ out.rbAll = rbgeomUset u isCyl isSph ref ∧
      out.ifltmaSc = netDrm sub.length rb M bi ∧ out.ifltmdSc = netDrmD sub.length rb K bi bs ∧
      out.ifltmaLv = mul6 T out.ifltmaSc ∧ out.ifltmdLv = mul6 T out.ifltmdSc ∧
      out.mcg = (cgmass (mass6 bset.length out.rbAll fun i j => M (bs i) (bs j))).1 ∧
      out.cgSc = (cgmass (mass6 bset.length out.rbAll fun i j => M (bs i) (bs j))).2 ∧
      out.cgB = cgatmRhs sub.length (rbgeomUset (rowsOf sub u) cyl sph out.cgSc) M bi ∧
      out.cgX = solve n out.mcg out.cgB ∧
      out.cgatmSc = (if o.tauScG then divRows3 out.cgX o.g else mulRows3 (divRows3 out.cgX o.g) o.g) ∧
      out.ifatmSc = (let a := divRows3 (scatterCols (ifatmCols (bsetIf bset sub) (indepCode sub.length o.rbe3Indep)) out.rbe3X) o.g
                     if o.tauScG then a else mulRows3 a o.g) ∧
      out.weightLv = out.mcg 0 0 * o.g ∧ out.heightLv = maxAbs3 out.cgSc ∧
      out.weightSc = out.weightLv ∧ out.heightSc = out.heightLv ∧
      out.axSc = argmaxAbs3 out.cgSc ∧ out.cgLv = mul3v T out.cgSc ∧ out.axLv = argmaxAbs3 out.cgLv ∧
      out.replaceLv = !(allclose1 (maxAbs3 out.cgSc) (maxAbs3 out.cgLv)) ∧
      out.cglfa = cglf14 (cglf5 (some (divRows3 out.cgX o.g)) out.ifltmaSc out.cgSc out.axSc out.weightSc out.heightSc)
        (cglf5 (some (mul6 T (divRows3 out.cgX o.g))) out.ifltmaLv out.cgLv out.axLv out.weightLv out.heightLv)
        out.replaceLv := by
  intro out bi bs cyl sph rb T
  simp only [out, mkNetDrms, mkNetDrmsWith, hc, hr, Option.isSome_none, Bool.false_eq_true, if_false]
  repeat' constructor

end whole

end PyYetiVerif.C06
