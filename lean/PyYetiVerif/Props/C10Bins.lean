import PyYetiVerif.Lemmas.BinifySpec
import PyYetiVerif.Model.BinifyLabels
import PyYetiVerif.Props.C10
import Mathlib.Algebra.Order.Floor.Ring
import Mathlib.Data.Rat.Floor
import Mathlib.Tactic.Positivity
/-!
# C10 (continued) — `binify` / `sigcount` end to end: explicit bins, two-dimensional counts,
labels and packaging, `sigcount` as a composition

Property theorems only.  Models: `Model/Binify.lean` (`_binify`, `getbins`, `binifyApi`),
`Model/BinifyLabels.lean` (`_getlabels`, the pandas packaging, `retbins`, `sigcount`), tied by the
exact `bn` / `sc` / `bx` / `sx` streams of harness/props/c10.py.
-/
set_option linter.unusedSectionVars false
set_option linter.unusedVariables false
namespace PyYetiVerif.C10
open PyYetiVerif.Binify

section explicit
variable {α : Type} [LinearOrder α]

/-- `np.digitize` returns `k + 1` **exactly** for the values in the documented half-open interval
of bin `k` (`digitize_spec` is the "if" direction). -/
theorem digitize_eq_iff (right : Bool) (x : α) (bins : List α) (k : Nat) (lo hi : α)
    (hs : List.Pairwise (· < ·) bins) (hlo : bins[k]? = some lo) (hhi : bins[k + 1]? = some hi) :
    digitize right x bins = k + 1 ↔ inBin right lo hi x :=
  digitize_eq_iff' right x bins k lo hi hs hlo hhi

/-- a value lies in some bin of an increasing edge vector iff it is inside the documented range
`b[0] < x ≤ b[-1]` (`right=True`) / `b[0] ≤ x < b[-1]` (`right=False`): a value ON the first edge
is outside for `right=True` and inside for `right=False`, a value ON the last edge the other way
round, anything below the first / above the last edge is outside. -/
theorem explicit_bins_range (right : Bool) (bins : List α) (hs : List.Pairwise (· < ·) bins) (x : α) :
    Covered right bins x ↔ inRange right bins x = true :=
  (inRange_iff_covered right bins hs x).symm

variable {β : Type} [AddCommMonoid β]

/-- what `_binify(ensure_boundaries=True)` drops: a cycle whose amplitude or mean is outside the
range of its bins leaves the table unchanged (it is not counted anywhere). -/
theorem binify_drops_uncovered (right : Bool) (br bm : List α) (hr : List.Pairwise (· < ·) br)
    (hm : List.Pairwise (· < ·) bm) (amp mean : α) (cnt : β) (cs : List (α × α × β))
    (T : List (List β)) (h : ¬ (inRange right br amp = true ∧ inRange right bm mean = true)) :
    binifyLoop right true br bm ((amp, mean, cnt) :: cs) T = binifyLoop right true br bm cs T := by
  apply binify_drops right br bm hr hm
  rw [explicit_bins_range right br hr, explicit_bins_range right bm hm]
  exact h

theorem binifyLoop_2d (right : Bool) (br bm : List α) (hr : List.Pairwise (· < ·) br)
    (hm : List.Pairwise (· < ·) bm) (cycles : List (α × α × β)) :
    ∀ (T : List (List β)), T.length = bm.length - 1 → (∀ row ∈ T, row.length = br.length - 1) →
      ∃ T', binifyLoop right true br bm cycles T = some T' ∧ T'.length = bm.length - 1 ∧
        (∀ row ∈ T', row.length = br.length - 1) ∧
        tableSum T' = tableSum T +
          ((cycles.filter fun c => inRange right br c.1 && inRange right bm c.2.1).map (·.2.2)).sum := by
  induction cycles with
  | nil => intro T h1 h2; exact ⟨T, rfl, h1, h2, by simp⟩
  | cons c cs ih =>
      intro T hT hrow
      obtain ⟨amp, mean, cnt⟩ := c
      by_cases hin : inRange right br amp = true ∧ inRange right bm mean = true
      · obtain ⟨j, loa, hia, h4, h5, h6⟩ := (explicit_bins_range right br hr amp).mpr hin.1
        obtain ⟨i, lom, him, h1, h2, h3⟩ := (explicit_bins_range right bm hm mean).mpr hin.2
        rw [binify_places right true br bm hr hm amp mean cnt cs T i j lom him loa hia h1 h2 h3 h4 h5 h6]
        have hi : i + 1 < bm.length := (List.getElem?_eq_some_iff.mp h2).1
        have hj : j + 1 < br.length := (List.getElem?_eq_some_iff.mp h5).1
        obtain ⟨s1, s2⟩ := bump2_shape cnt (br.length - 1) i j T hrow
        obtain ⟨T', e, l1, l2, hs⟩ := ih (bump2 cnt i j T) (by rw [s1, hT]) s2
        refine ⟨T', e, l1, l2, ?_⟩
        rw [hs, tableSum_bump2 cnt (br.length - 1) i j T hrow (by omega) (by omega)]
        rw [List.filter_cons_of_pos (by simp [hin.1, hin.2])]
        simp only [List.map_cons, List.sum_cons]
        rw [add_assoc]
      · rw [binify_drops_uncovered right br bm hr hm amp mean cnt cs T hin]
        obtain ⟨T', e, l1, l2, hs⟩ := ih T hT hrow
        refine ⟨T', e, l1, l2, ?_⟩
        rw [hs, List.filter_cons_of_neg (by simpa using hin)]

/-- **two-dimensional counts** (`meanbins > 1` included): with `ensure_boundaries=True` (what
`binify` passes when a bound check failed) `_binify` returns a `len(meanbins)-1 × len(ampbins)-1`
table whose total is the summed count (0.5 / 1) of exactly the cycles that are inside BOTH bin
ranges — each such cycle is counted once (`binify_places`: in the cell of its two intervals), every
other cycle is dropped (`binify_drops_uncovered`); no `IndexError`. -/
theorem binify_conserves_2d (right : Bool) (br bm : List α) (hr : List.Pairwise (· < ·) br)
    (hm : List.Pairwise (· < ·) bm) (cycles : List (α × α × β)) :
    ∃ T, binifyCore right true br bm cycles = some T ∧ T.length = bm.length - 1 ∧
      (∀ row ∈ T, row.length = br.length - 1) ∧
      tableSum T = ((cycles.filter fun c => inRange right br c.1 && inRange right bm c.2.1).map (·.2.2)).sum := by
  obtain ⟨T, e, l1, l2, hs⟩ := binifyLoop_2d right br bm hr hm cycles
    (zeros (bm.length - 1) (br.length - 1)) (by simp [zeros])
    (by intro row h; simp only [zeros, List.mem_replicate] at h; rw [h.2]; simp)
  exact ⟨T, e, l1, l2, by rw [hs, tableSum_zeros, zero_add]⟩

end explicit

/-- when every cycle is inside both ranges the boundary guard of `_binify` is never used -/
theorem binifyLoop_ensure_irrelevant {α : Type} [LinearOrder α] {β : Type} [AddCommMonoid β]
    (right : Bool) (br bm : List α) (hr : List.Pairwise (· < ·) br)
    (hm : List.Pairwise (· < ·) bm) (cycles : List (α × α × β)) :
    ∀ (T : List (List β)), (∀ c ∈ cycles, Covered right br c.1 ∧ Covered right bm c.2.1) →
      binifyLoop right false br bm cycles T = binifyLoop right true br bm cycles T := by
  induction cycles with
  | nil => intro T _; rfl
  | cons c cs ih =>
      intro T hc
      obtain ⟨amp, mean, cnt⟩ := c
      obtain ⟨⟨j, loa, hia, h4, h5, h6⟩, ⟨i, lom, him, h1, h2, h3⟩⟩ := hc (amp, mean, cnt) (by simp)
      rw [binify_places right false br bm hr hm amp mean cnt cs T i j lom him loa hia h1 h2 h3 h4 h5 h6,
        binify_places right true br bm hr hm amp mean cnt cs T i j lom him loa hia h1 h2 h3 h4 h5 h6]
      exact ih _ (fun d hd => hc d (by simp [hd]))

section api
variable {α : Type} [Field α] [LinearOrder α] [IsStrictOrderedRing α]

theorem range_of_flag (right : Bool) (bins : List α) (b0 bl : α) (h0 : bins.head? = some b0)
    (hl : bins.getLast? = some bl) (mx mn x : α) (h1 : min mx mn ≤ x) (h2 : x ≤ max mx mn)
    (hf : (if right then !decide (b0 < (fixRange mx mn).2) || decide (bl < (fixRange mx mn).1)
            else decide ((fixRange mx mn).2 < b0) || !decide ((fixRange mx mn).1 < bl)) = false) :
    inRange right bins x = true := by
  obtain ⟨a, b⟩ := fixRange_contains mx mn x h1 h2
  unfold inRange
  simp only [h0, hl, decide_eq_true_eq]
  unfold inBin
  cases right
  · simp only [Bool.false_eq_true, if_false, Bool.or_eq_false_iff, decide_eq_false_iff_not,
      Bool.not_eq_false', decide_eq_true_eq] at hf ⊢
    exact ⟨fun h => hf.1 (lt_of_le_of_lt a h), lt_of_le_of_lt b hf.2⟩
  · simp only [if_true, Bool.or_eq_false_iff, decide_eq_false_iff_not,
      Bool.not_eq_false', decide_eq_true_eq] at hf ⊢
    exact ⟨lt_of_lt_of_le hf.1 a, fun h => hf.2 (lt_of_lt_of_le h b)⟩

/-- **explicit `bins` vectors, `check_bounds=True` (the default)**: for increasing edge vectors
`binify` never raises; it returns the vectors themselves as the bin edges (`retbins`), a
`len(meanbins)-1 × len(ampbins)-1` table, and the table total is the summed count of exactly the
cycles inside both documented ranges (`b[0] < x ≤ b[-1]` for `right=True`, `b[0] ≤ x < b[-1]`
otherwise): cycles on or below the first edge (`right=True`) / on or above the last edge
(`right=False`) or outside the vector are dropped, everything else is counted once. -/
theorem binify_explicit_bins_spec (right : Bool) (ab mb : List α) (ha : increasing ab = true)
    (hb : increasing mb = true) (ha2 : ab ≠ []) (hb2 : mb ≠ []) (c : α × α × α) (cs : List (α × α × α)) :
    ∃ T, binifyApi right true (.vector ab) (.vector mb) (c :: cs) = .table T ab mb ∧
      T.length = mb.length - 1 ∧ (∀ row ∈ T, row.length = ab.length - 1) ∧
      tableSum T = (((c :: cs).filter fun d => inRange right ab d.1 && inRange right mb d.2.1).map (·.2.2)).sum := by
  have pa := increasing_pairwise ab ha
  have pm := increasing_pairwise mb hb
  obtain ⟨amx, e1, h1⟩ := maxOf_spec c.1 (cs.map (·.1))
  obtain ⟨amn, e2, h2⟩ := minOf_spec c.1 (cs.map (·.1))
  obtain ⟨mmx, e3, h3⟩ := maxOf_spec c.2.1 (cs.map (·.2.1))
  obtain ⟨mmn, e4, h4⟩ := minOf_spec c.2.1 (cs.map (·.2.1))
  obtain ⟨a0, ha0⟩ : ∃ b0, ab.head? = some b0 := by
    cases ab with
    | nil => exact absurd rfl ha2
    | cons a t => exact ⟨a, rfl⟩
  obtain ⟨al, hal⟩ : ∃ bl, ab.getLast? = some bl := ⟨ab.getLast ha2, List.getLast?_eq_some_getLast ha2⟩
  obtain ⟨m0, hm0⟩ : ∃ b0, mb.head? = some b0 := by
    cases mb with
    | nil => exact absurd rfl hb2
    | cons a t => exact ⟨a, rfl⟩
  obtain ⟨ml, hml⟩ : ∃ bl, mb.getLast? = some bl := ⟨mb.getLast hb2, List.getLast?_eq_some_getLast hb2⟩
  simp only [binifyApi, List.map_cons] at e1 e2 e3 e4 ⊢
  rw [e1, e2, e3, e4]
  simp only [binsFor, getbinsVector, ha, hb, if_true, ha0, hal, hm0, hml, Option.map_some, Bool.true_and]
  generalize hfa : (if right then !decide (a0 < (fixRange amx amn).2) || decide (al < (fixRange amx amn).1)
      else decide ((fixRange amx amn).2 < a0) || !decide ((fixRange amx amn).1 < al)) = fa
  generalize hfm : (if right then !decide (m0 < (fixRange mmx mmn).2) || decide (ml < (fixRange mmx mmn).1)
      else decide ((fixRange mmx mmn).2 < m0) || !decide ((fixRange mmx mmn).1 < ml)) = fm
  cases hflag : (fa || fm)
  · -- no bound problem: unguarded loop; every cycle is inside both ranges
    simp only [Bool.or_eq_false_iff] at hflag
    have mem1 : ∀ d ∈ c :: cs, d.1 ∈ c.1 :: cs.map (·.1) := by
      intro d hd
      rcases List.mem_cons.mp hd with rfl | hd
      · simp
      · exact List.mem_cons_of_mem _ (List.mem_map.mpr ⟨d, hd, rfl⟩)
    have mem2 : ∀ d ∈ c :: cs, d.2.1 ∈ c.2.1 :: cs.map (·.2.1) := by
      intro d hd
      rcases List.mem_cons.mp hd with rfl | hd
      · simp
      · exact List.mem_cons_of_mem _ (List.mem_map.mpr ⟨d, hd, rfl⟩)
    have inr : ∀ d ∈ c :: cs, inRange right ab d.1 = true ∧ inRange right mb d.2.1 = true := by
      intro d hd
      exact ⟨range_of_flag right ab a0 al ha0 hal amx amn d.1
          (le_trans (min_le_right _ _) (h2 _ (mem1 d hd))) (le_trans (h1 _ (mem1 d hd)) (le_max_left _ _))
          (by rw [hfa]; exact hflag.1),
        range_of_flag right mb m0 ml hm0 hml mmx mmn d.2.1
          (le_trans (min_le_right _ _) (h4 _ (mem2 d hd))) (le_trans (h3 _ (mem2 d hd)) (le_max_left _ _))
          (by rw [hfm]; exact hflag.2)⟩
    have cov : ∀ d ∈ c :: cs, Covered right ab d.1 ∧ Covered right mb d.2.1 := fun d hd =>
      ⟨(explicit_bins_range right ab pa d.1).mpr (inr d hd).1, (explicit_bins_range right mb pm d.2.1).mpr (inr d hd).2⟩
    obtain ⟨T, eT, l1, l2, hT⟩ := binify_conserves_2d right ab mb pa pm (c :: cs)
    refine ⟨T, ?_, l1, l2, hT⟩
    have : binifyCore right false ab mb (c :: cs) = binifyCore right true ab mb (c :: cs) := by
      unfold binifyCore
      exact binifyLoop_ensure_irrelevant right ab mb pa pm (c :: cs) _ cov
    simp only [this, eT]
  · obtain ⟨T, eT, l1, l2, hT⟩ := binify_conserves_2d right ab mb pa pm (c :: cs)
    refine ⟨T, ?_, l1, l2, hT⟩
    simp only [eT]

end api

/-! ### non-vacuity -/

example : increasing ([1, 2, 3, 4] : List Rat) = true ∧ ([1, 2, 3, 4] : List Rat) ≠ [] := by decide +kernel
example : inRange true ([1, 2, 3, 4] : List Rat) 1 = false ∧ inRange false ([1, 2, 3, 4] : List Rat) 1 = true ∧
    inRange true ([1, 2, 3, 4] : List Rat) 4 = true ∧ inRange false ([1, 2, 3, 4] : List Rat) 4 = false ∧
    inRange true ([1, 2, 3, 4] : List Rat) 5 = false ∧ inRange false ([1, 2, 3, 4] : List Rat) (1 / 2) = false := by
  decide +kernel
/-- two mean bins, three amplitude bins; the cycle ON the first amplitude edge (`right=True`) and the one above the last mean edge
are dropped, the other two are counted once: total `3/2` of `3`. -/
example : binifyCore true true ([1, 2, 3, 4] : List Rat) [0, 1, 2]
      [(2, 1, (1 : Rat) / 2), (1, 1, 1), (3 / 2, 2, 1), (3, 5, 1 / 2)] = some [[1 / 2, 0, 0], [1, 0, 0]] ∧
    (([(2, 1, (1 : Rat) / 2), (1, 1, 1), (3 / 2, 2, 1), (3, 5, 1 / 2)] : List (Rat × Rat × Rat)).filter
      fun c => inRange true [1, 2, 3, 4] c.1 && inRange true [0, 1, 2] c.2.1).map (·.2.2) = [1 / 2, 1] := by
  decide +kernel
example : binifyFull true 3 true false true (.vector ([1, 2, 3, 4] : List Rat)) (.vector [0, 1, 2])
    [(2, 1, (1 : Rat) / 2), (1, 1, 1), (3 / 2, 2, 1), (3, 5, 1 / 2)]
    = .ok { table := [[1 / 2, 0, 0], [1, 0, 0]], index := none, columns := none, names := none,
            bins := some ([1, 2, 3, 4], [0, 1, 2]) } := by
  decide +kernel

end PyYetiVerif.C10
