import PyYetiVerif.Lemmas.SuPartitionAuto
import Mathlib.Algebra.Order.Group.Abs
import Mathlib.Tactic.NormNum
/-!
# C01 — partition bookkeeping, second part

Property theorems about `Model/SuPartition.lean` that complete `partition_ok` / `rb_order_agrees`
of `Props/C01.lean`:

* `partition_auto_ok`  : `rb is None` (auto-detection through any position predicate `small`);
* `small_unc_iff`, `small_coupled_iff` : what the two predicates of `_make_rb_el` decide
  (`abs(k) < tol`; row and column maxima of `abs(k)` and `abs(b)` below `tol`);
* `el_order_agrees`    : `nonrf[_el] = el` as lists, for an explicit and for an auto-detected `rb`;
* `mkSlice_spec`       : `_mk_slice` converts exactly the contiguous ranges;
* `slicesFlag_iff`     : `slices` is set iff all seven index vectors are contiguous ranges.
-/
namespace PyYetiVerif.C01
open PyYetiVerif.SuPartition

/-- `_el` is ascending whatever `rb` is -/
theorem el'_pairwise (n : Nat) (rb : Option (List Nat)) (rf : List Nat) (small : Nat → Bool) :
    (mkPart n rb rf small).el'.Pairwise (· < ·) := by
  cases rb <;> exact filter_range_pairwise _ _

/-- `nonrf[_el]` lists, in the same order, the modes of `el` (explicit or auto-detected `rb`):
the elastic rows of `d`, `v` (`self.el`) and the elastic entries of the non-rf `m, b, k`
(`self._el`) are paired mode by mode -/
theorem el_order_agrees (n : Nat) (rb : Option (List Nat)) (rf : List Nat) (small : Nat → Bool) :
    take (mkPart n rb rf small).nonrf (mkPart n rb rf small).el' = (mkPart n rb rf small).el ∧
    (mkPart n rb rf small).el.Pairwise (· < ·) := by
  have h := el'_pairwise n rb rf small
  have e : (mkPart n rb rf small).el
      = (List.range n).filter (take (nonrf n rf) (mkPart n rb rf small).el').contains := by
    cases rb <;> rfl
  have hn : (mkPart n rb rf small).nonrf = nonrf n rf := by cases rb <;> rfl
  rw [e, hn, scatter_gather_eq h]
  exact ⟨rfl, take_pairwise (nonrf_pairwise n rf) h⟩

/-- auto-detected rigid-body set (`rb is None`), for any position predicate `small` (see
`small_unc_iff`, `small_coupled_iff` for the two the code uses): `rb`, `el`, `rf` partition
`[0, n)`; `rb` is exactly the set of non-rf modes whose position in the non-rf partition passes
the test; `nonrf[_rb] = rb` and `nonrf[_el] = el` as lists (same order), so the positions handed to
`get_su_coef` (`coefRb`) together with the non-rf partitions of `m, b, k` select exactly the
rigid-body modes -/
theorem partition_auto_ok (n : Nat) (rf : List Nat) (small : Nat → Bool) :
    (∀ i, i < n → (i ∈ (mkPart n none rf small).rb ∨ i ∈ (mkPart n none rf small).el
        ∨ i ∈ (mkPart n none rf small).rf)) ∧
    (∀ i, ¬(i ∈ (mkPart n none rf small).rb ∧ i ∈ (mkPart n none rf small).el)) ∧
    (∀ i, ¬(i ∈ (mkPart n none rf small).el ∧ i ∈ (mkPart n none rf small).rf)) ∧
    (∀ i, ¬(i ∈ (mkPart n none rf small).rb ∧ i ∈ (mkPart n none rf small).rf)) ∧
    (∀ g, g ∈ (mkPart n none rf small).rb ↔
        ∃ i, (mkPart n none rf small).nonrf[i]? = some g ∧ small i = true) ∧
    take (mkPart n none rf small).nonrf (coefRb (mkPart n none rf small))
        = (mkPart n none rf small).rb ∧
    take (mkPart n none rf small).nonrf (mkPart n none rf small).el'
        = (mkPart n none rf small).el ∧
    (mkPart n none rf small).rb.Pairwise (· < ·) := by
  have hrb' : (mkPart n none rf small).rb' = (List.range (nonrf n rf).length).filter small := rfl
  have hrbP : (mkPart n none rf small).rb'.Pairwise (· < ·) := filter_range_pairwise _ _
  have hrb : (mkPart n none rf small).rb = take (nonrf n rf) (mkPart n none rf small).rb' :=
    scatter_gather_eq hrbP
  have hel := (el_order_agrees n none rf small).1
  have hnr : (mkPart n none rf small).nonrf = nonrf n rf := rfl
  have hrf : (mkPart n none rf small).rf = rf := rfl
  have hel' : (mkPart n none rf small).el' = (List.range (nonrf n rf).length).filter
      fun i => !((List.range (nonrf n rf).length).filter small).contains i := rfl
  have mrb : ∀ g, g ∈ (mkPart n none rf small).rb ↔ ∃ i, (nonrf n rf)[i]? = some g ∧ small i = true := by
    intro g; rw [hrb, hrb', mem_take_filter]
  have mel : ∀ g, g ∈ (mkPart n none rf small).el ↔ ∃ i, (nonrf n rf)[i]? = some g ∧ small i = false := by
    intro g
    rw [← hel, hnr, hel', mem_take_filter]
    constructor
    · rintro ⟨i, hg, hq⟩
      refine ⟨i, hg, ?_⟩
      cases hs : small i with
      | false => rfl
      | true =>
        have : i ∈ (List.range (nonrf n rf).length).filter small :=
          List.mem_filter.2 ⟨List.mem_range.2 (List.getElem?_eq_some_iff.1 hg).1, hs⟩
        simp [this] at hq
    · rintro ⟨i, hg, hq⟩
      refine ⟨i, hg, ?_⟩
      simp [List.mem_filter, hq]
  have uniq : ∀ {g i j : Nat}, (nonrf n rf)[i]? = some g → (nonrf n rf)[j]? = some g → i = j := by
    intro g i j hi hj
    obtain ⟨hi', e1⟩ := List.getElem?_eq_some_iff.1 hi
    obtain ⟨hj', e2⟩ := List.getElem?_eq_some_iff.1 hj
    have hnd : (nonrf n rf).Nodup := (nonrf_pairwise n rf).imp (fun h => Nat.ne_of_lt h)
    exact (List.Nodup.getElem_inj_iff hnd).1 (e1.trans e2.symm)
  refine ⟨fun i hi => ?_, fun i h => ?_, fun i h => ?_, fun i h => ?_, mrb, ?_, hel, ?_⟩
  · rw [mrb, mel, hrf]
    by_cases h2 : i ∈ rf
    · exact Or.inr (Or.inr h2)
    · obtain ⟨j, hj⟩ := List.getElem?_of_mem (mem_nonrf.2 ⟨hi, h2⟩)
      cases hs : small j with
      | true => exact Or.inl ⟨j, hj, hs⟩
      | false => exact Or.inr (Or.inl ⟨j, hj, hs⟩)
  · rw [mrb, mel] at h
    obtain ⟨⟨a, ha, hsa⟩, ⟨c, hc, hsc⟩⟩ := h
    rw [uniq ha hc, hsc] at hsa
    cases hsa
  · rw [mel, hrf] at h
    obtain ⟨⟨a, ha, _⟩, h2⟩ := h
    exact (mem_nonrf.1 (List.mem_of_getElem? ha)).2 h2
  · rw [mrb, hrf] at h
    obtain ⟨⟨a, ha, _⟩, h2⟩ := h
    exact (mem_nonrf.1 (List.mem_of_getElem? ha)).2 h2
  · exact hrb.symm
  · rw [hrb]; exact take_pairwise (nonrf_pairwise n rf) hrbP

/-- the uncoupled test: position `i` passes iff `|k_i| < tol` -/
theorem small_unc_iff {α : Type} [AddCommGroup α] [LinearOrder α] (k : List α) (tol : α) (i : Nat) :
    smallUnc (fun x : α => |x|) 0 k tol i = true ↔ |k.getD i 0| < tol := by
  simp [smallUnc]

/-- the coupled test: position `i` passes iff every entry of row `i` and of column `i` of `k`
and of `b` is below `tol` in magnitude (`0 < tol`; in the source `tol = 0.005`) -/
theorem small_coupled_iff (k b : List (List ℚ)) (tol : ℚ) (htol : 0 < tol) (i : Nat) :
    smallCoupled (fun x : ℚ => |x|) 0 k b tol i = true ↔
      (∀ x ∈ column 0 k i, |x| < tol) ∧ (∀ x ∈ k.getD i [], |x| < tol) ∧
      (∀ x ∈ column 0 b i, |x| < tol) ∧ (∀ x ∈ b.getD i [], |x| < tol) := by
  simp only [smallCoupled, Bool.and_eq_true, decide_eq_true_eq, listMax_lt_iff 0 tol htol,
    List.mem_map, forall_exists_index, and_imp, forall_apply_eq_imp_iff₂, and_assoc]

/-- `_mk_slice` succeeds exactly on the contiguous ranges, with the right bounds:
`[]` gives `0:0`, `a, a+1, …, a+len-1` (`len > 0`) gives `a : a+len`, anything else raises -/
theorem mkSlice_spec (pv : List Nat) (a b : Nat) :
    mkSlice pv = some (a, b) ↔
      (pv = [] ∧ a = 0 ∧ b = 0) ∨ (pv ≠ [] ∧ a < b ∧ pv = List.range' a (b - a)) := by
  cases pv with
  | nil => simp [mkSlice]; omega
  | cons c r =>
    simp only [mkSlice, List.length_cons, reduceCtorEq, false_and, ne_eq, not_false_eq_true,
      true_and, false_or]
    by_cases hc : consecutive (c :: r) = true
    · rw [if_pos hc]
      have h := (consecutive_iff c r).1 hc
      constructor
      · intro e
        simp only [Option.some.injEq, Prod.mk.injEq] at e
        obtain ⟨rfl, rfl⟩ := e
        refine ⟨by omega, ?_⟩
        have : c + (r.length + 1) - c = r.length + 1 := by omega
        rw [this]; exact h
      · rintro ⟨hab, e⟩
        have hl := congrArg List.length e
        simp only [List.length_cons, List.length_range'] at hl
        have hd : b - a = r.length + 1 := hl.symm
        rw [hd, List.range'_succ] at e
        have := (List.cons.inj e).1
        subst this
        simp only [Option.some.injEq, Prod.mk.injEq, true_and]
        omega
    · rw [if_neg hc]
      simp only [reduceCtorEq, false_iff, not_and]
      intro _ e
      apply hc
      rw [consecutive_iff]
      have hl := congrArg List.length e
      simp only [List.length_cons, List.length_range'] at hl
      rw [← hl] at e
      have e' := e
      rw [List.range'_succ] at e'
      have := (List.cons.inj e').1
      subst this
      exact e

theorem mkSlice_isSome_iff (pv : List Nat) :
    (mkSlice pv).isSome = true ↔ ∃ a len, pv = List.range' a len := by
  constructor
  · intro h
    obtain ⟨⟨a, b⟩, hab⟩ := Option.isSome_iff_exists.1 h
    rcases (mkSlice_spec pv a b).1 hab with ⟨rfl, _, _⟩ | ⟨_, _, e⟩
    · exact ⟨0, 0, rfl⟩
    · exact ⟨a, b - a, e⟩
  · rintro ⟨a, len, rfl⟩
    cases len with
    | zero => simp [mkSlice]
    | succ len =>
      have : mkSlice (List.range' a (len + 1)) = some (a, a + (len + 1)) := by
        rw [mkSlice_spec]
        right
        refine ⟨by simp, by omega, ?_⟩
        have : a + (len + 1) - a = len + 1 := by omega
        rw [this]
      rw [this]; rfl

/-- `_mk_slices` sets `slices = True` iff all seven index vectors (`nonrf`, `rf`, `kdof = nonrf`,
`rb`, `el`, `_rb`, `_el`) are contiguous ranges -/
theorem slicesFlag_iff (p : Part) :
    slicesFlag p = true ↔
      ∀ v ∈ [p.nonrf, p.rf, p.rb, p.el, p.rb', p.el'], ∃ a len, v = List.range' a len := by
  simp only [slicesFlag, List.all_cons, List.all_nil, Bool.and_true, Bool.and_eq_true,
    mkSlice_isSome_iff, List.mem_cons, List.not_mem_nil, or_false, forall_eq_or_imp, forall_eq]
  tauto

/-! ### non-vacuity and concrete instances -/

/-- auto-detection with an rf mode first and the rigid-body mode last -/
example : (mkPart 4 none [0] fun i => i == 2).rb = [3] ∧ (mkPart 4 none [0] fun i => i == 2).el = [1, 2] ∧
    (mkPart 4 none [0] fun i => i == 2).rb' = [2] ∧ (mkPart 4 none [0] fun i => i == 2).el' = [0, 1] ∧
    slicesFlag (mkPart 4 none [0] fun i => i == 2) = true := by decide

/-- interleaved modes: no slices -/
example : slicesFlag (mkPart 4 (some [0, 2]) [] fun _ => false) = false := by decide

example : mkSlice [3, 4, 5] = some (3, 6) ∧ mkSlice [3, 5] = none ∧ mkSlice [] = some (0, 0) := by decide

/-- the coupled test looks at rows *and* columns of both matrices: a zero stiffness row with a
damping entry in its column is not a rigid-body mode -/
example : smallCoupled (fun x : ℚ => |x|) 0 [[0, 0], [0, 100]] [[0, 0], [1, 2]] (5 / 1000) 0 = false ∧
    smallCoupled (fun x : ℚ => |x|) 0 [[0, 0], [0, 100]] [[0, 0], [0, 2]] (5 / 1000) 0 = true := by
  constructor <;> norm_num [smallCoupled, listMax, column]

end PyYetiVerif.C01
