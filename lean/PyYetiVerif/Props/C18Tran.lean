import PyYetiVerif.Lemmas.UsetTranAux
/-!
C18, matrix routines on the set vectors: `n2p.formtran` (model `Uset.formtranUp` / `formtran0`,
`Model/UsetTran.lean`).  The stored matrices (`got`, `goq`, `gm`, …) are matrices over any type with `+ * 0 1`;
the `[id, dof]` rows that `locate.mat_intersect` compares are values of any linearly ordered type `κ`.

`formtran_partition_identity`: the general path of `formtran(nas, se != 0, dof)` returns one row per requested DOF,
in the order of the request, and the row of a DOF is filled by the rule of the set the DOF is found in: the unit
vector at its a-set column for the retained sets (t, q), the stored `got` / `goq` row scattered to the t- and
q-columns for the o-set, a row of the m-set block for the m-set, zero for the s-set.
-/
set_option linter.constructorNameAsVariable false
set_option linter.unusedSectionVars false
namespace PyYetiVerif.C18
open PyYetiVerif.Uset PyYetiVerif.Locate

section formtran
variable {κ : Type} [LinearOrder κ] (mkKey : Nat → Nat → κ)
variable {α : Type} [Add α] [Mul α] [OfNat α 0] [OfNat α 1] [DecidableEq α]

/-- the rule by which `formtran` fills the row of the DOF `p` (an index into the `[id, dof]` rows; `t o m q s` list
the DOF of those sets, `t_a q_a` the columns of the t- and q-set DOF within the a-set; for an m-set DOF the row
is row `k` of the m-set block `mRows`, which belongs to GM row `pvm[k]`): -/
def TranRow (w : Nat) (t o m q s t_a q_a : List Nat) (gotM goqM : M α) (pvm : List Nat) (mRows : List (List α))
    (p : Nat) (row : List α) : Prop :=
  (∃ (i c : Nat), t[i]? = some p ∧ t_a[i]? = some c ∧ row = unitRow w c) ∨
  (∃ (i : Nat) (g : List α), o[i]? = some p ∧ gotM.r[i]? = some g ∧
      ((goqM.c ≠ 0 ∧ ∃ qr, goqM.r[i]? = some qr ∧ ORow w t_a q_a g qr row) ∨
       (goqM.c = 0 ∧ ORow w t_a [] g [] row))) ∨
  (∃ (i k : Nat), m[i]? = some p ∧ pvm[k]? = some i ∧ mRows[k]? = some row ∧ row.length = w) ∨
  (∃ (i c : Nat), q[i]? = some p ∧ q_a[i]? = some c ∧ row = unitRow w c) ∨
  (∃ (i : Nat), s[i]? = some p ∧ row = zeroRow w)

/-- **formtran, general path** (`se != 0`, some requested DOF outside the a-set): one row per requested DOF in
request order; the row of DOF `d` is `TranRow` of the g-set position `p` whose `[id, dof]` is exactly `d` (`idg` = `iddofG`, the `[id, dof]` table of the g-set
rows - the code since fix e74e9b9 of finding F69; `iddofG_is_gset_rows` in `Props/C18Tran0.lean`).
`t_a`, `q_a` must not share a column (`hdis`: no DOF is in the t-set and in the q-set at once, as in every
table of base-set words). -/
theorem formtran_partition_identity (mk : Masks) (tbl : List Row) (got goq gm : Option (M α)) (req : Request)
    (out : M α) (dof : List (Nat × Nat)) (pvdof : List Nat) (a : List Bool) (t_a q_a : List Nat)
    (h : formtranUp mkKey mk tbl got goq gm req = .ok (out, dof))
    (hpv : mkdofpv mk.p tbl (.mask mk.g) req true = .ok (pvdof, dof))
    (ha : mksetpv (tbl.map (·.2.2)) mk.g mk.a = .ok a)
    (hgen : pvdof.all (fun i => a[i]? == some true) = false)
    (hta : setPos tbl mk.a mk.t = .ok t_a) (hqa : setPos tbl mk.a mk.q = .ok q_a)
    (hdis : ∀ c ∈ t_a, c ∉ q_a) :
    ∃ (idg : List κ) (t o m q s : List Nat) (gotM goqM : M α) (pvm : List Nat) (mRows : List (List α)),
      iddofG mkKey mk tbl = .ok idg ∧
      setPos tbl mk.g mk.t = .ok t ∧ setPos tbl mk.g mk.o = .ok o ∧ setPos tbl mk.g mk.q = .ok q ∧
      setPos tbl mk.g mk.s = .ok s ∧
      (mRows ≠ [] → setPos tbl mk.g mk.m = .ok m ∧ ∃ (gmM gmSel : M α) (t_n o_n q_n : List Nat),
        gm = some gmM ∧ List.Forall₂ (fun i y => gmM.r[i]? = some y) pvm gmSel.r ∧
        setPos tbl mk.n mk.t = .ok t_n ∧ setPos tbl mk.n mk.o = .ok o_n ∧ setPos tbl mk.n mk.q = .ok q_n ∧
        mBlock gmSel gotM goqM gotM.c goqM.c t_a q_a t_n o_n q_n = .ok mRows) ∧
      (∀ g, got = some g → gotM = g) ∧ (∀ g, goq = some g → goqM = g) ∧
      (got = none → ∀ r ∈ gotM.r, r.length = gotM.c) ∧ (goq = none → ∀ r ∈ goqM.r, r.length = goqM.c) ∧
      out.c = gotM.c + goqM.c ∧
      List.Forall₂ (fun d row => ∃ p, idg[p]? = some (mkKey d.1 d.2) ∧
        TranRow (gotM.c + goqM.c) t o m q s t_a q_a gotM goqM pvm mRows p row) dof out.r := by
  unfold formtranUp formtranUpWith at h
  rw [hpv, hta, hqa, ha] at h
  obtain ⟨pd, hpd, h⟩ := bind_ok h
  cases liftE_ok hpd
  simp only at h
  obtain ⟨ta', hta', h⟩ := bind_ok h
  cases hta'
  obtain ⟨qa', hqa', h⟩ := bind_ok h
  cases hqa'
  obtain ⟨a', ha', h⟩ := bind_ok h
  cases liftE_ok ha'
  rw [hgen] at h
  simp only [Bool.false_eq_true, if_false] at h
  obtain ⟨x, hx, h⟩ := bind_ok h
  obtain ⟨idg, hidg, h⟩ := bind_ok h
  obtain ⟨rows, hrows, h⟩ := bind_ok h
  obtain ⟨o', ho', h⟩ := bind_ok h
  simp only [Except.ok.injEq, Prod.mk.injEq] at h
  obtain ⟨rfl, _⟩ := h
  obtain ⟨t, o, q, s, ht, ho, hq, hs, hft, hfo, hfq, hfs, hgot, hgoq, hgot0, hgoq0, hpm, hpmok, htn⟩ :=
    upSelectWith_spec hx
  -- distinct columns
  have hnt : t_a.Nodup := by
    unfold setPos at hta
    cases hm : mksetpv (tbl.map (·.2.2)) mk.a mk.t with
    | error e => rw [hm] at hta; cases hta
    | ok l =>
        rw [hm] at hta
        simp only [Except.map, liftE, Except.ok.injEq] at hta
        rw [← hta]
        exact (positions_sorted l).imp (fun h => Nat.ne_of_lt h)
  have hnq : q_a.Nodup := by
    unfold setPos at hqa
    cases hm : mksetpv (tbl.map (·.2.2)) mk.a mk.q with
    | error e => rw [hm] at hqa; cases hqa
    | ok l =>
        rw [hm] at hqa
        simp only [Except.map, liftE, Except.ok.injEq] at hqa
        rw [← hqa]
        exact (positions_sorted l).imp (fun h => Nat.ne_of_lt h)
  -- the blocks
  unfold upBlocks at hrows
  obtain ⟨tRows, htR, hrows⟩ := bind_ok hrows
  obtain ⟨oRows, hoR, hrows⟩ := bind_ok hrows
  obtain ⟨mRows, hmR, hrows⟩ := bind_ok hrows
  obtain ⟨qRows, hqR, hrows⟩ := bind_ok hrows
  simp only [Except.ok.injEq] at hrows
  let w := x.gotM.c + x.goqM.c
  -- the m-set part
  obtain ⟨m, pvm, hmset, hfm⟩ : ∃ (m pvm : List Nat),
      (mRows ≠ [] → setPos tbl mk.g mk.m = .ok m ∧ ∃ (gmM gmSel : M α) (t_n o_n q_n : List Nat),
        gm = some gmM ∧ List.Forall₂ (fun i y => gmM.r[i]? = some y) pvm gmSel.r ∧
        setPos tbl mk.n mk.t = .ok t_n ∧ setPos tbl mk.n mk.o = .ok o_n ∧ setPos tbl mk.n mk.q = .ok q_n ∧
        mBlock gmSel x.gotM x.goqM x.gotM.c x.goqM.c t_a q_a t_n o_n q_n = .ok mRows) ∧
      List.Forall₂ (fun p row => ∃ (i k : Nat), m[i]? = some p ∧ pvm[k]? = some i ∧ mRows[k]? = some row ∧
          row.length = w)
        (match x.pm with | some y => y.1 | none => []) mRows := by
    cases hpmv : x.pm with
    | none =>
        rw [hpmv] at hmR
        simp only [pure, Except.pure, Except.ok.injEq] at hmR
        subst hmR
        exact ⟨[], [], fun hne => absurd rfl hne, .nil⟩
    | some y =>
        obtain ⟨v, hv⟩ := hpmok
        rw [hv] at hpm
        simp only at hpm
        rw [hpmv] at hpm
        rw [← hpm] at hv
        obtain ⟨htn1, htn2, htn3⟩ := htn y hpmv
        obtain ⟨m', g'⟩ := y
        obtain ⟨m, gmM, pv, hm, hgm, hfm, _, hfg⟩ := procMsetWith_spec hv
        rw [hpmv] at hmR
        simp only at hmR
        have hl := mBlock_length hmR
        refine ⟨m, pv, fun _ => ⟨hm, gmM, g', _, _, _, hgm, hfg, htn1, htn2, htn3, hmR⟩, ?_⟩
        simp only
        apply forall₂_of_getElem? (by rw [hl, ← hfg.length_eq, hfm.length_eq])
        intro k p row hp hrow
        obtain ⟨i, hik, hi⟩ := forall₂_getElem?' hfm k p hp
        exact ⟨i, k, hi, hik, hrow, mBlock_row_length hmR row (List.mem_of_getElem? hrow)⟩
  have hT := forall₂_join hft (eyeBlock_spec htR hnt)
  have hO := forall₂_join hfo (oBlock_spec hoR hnt hnq hdis)
  have hQ := forall₂_join hfq (eyeBlock_spec hqR hnq)
  have hS : List.Forall₂ (fun p row => ∃ (i : Nat), s[i]? = some p ∧ row = zeroRow (α := α) w) x.s'
      (x.s'.map fun _ => zeroRow w) := by
    rw [List.forall₂_map_right_iff]
    apply forall₂_of_getElem? rfl
    intro k p p' hp hp'
    rw [hp] at hp'; simp only [Option.some.injEq] at hp'; subst hp'
    obtain ⟨i, _, hi⟩ := forall₂_getElem?' hfs k p hp
    exact ⟨i, hi, rfl⟩
  have hall : List.Forall₂ (TranRow w t o m q s t_a q_a x.gotM x.goqM pvm mRows) x.sets rows := by
    rw [← hrows]
    unfold UpSel.sets
    refine List.rel_append (List.rel_append (List.rel_append (List.rel_append ?_ ?_) ?_) ?_) ?_
    · exact hT.imp fun p row ⟨i, _, hi, c, hc, hr⟩ => Or.inl ⟨i, c, hi, hc, hr⟩
    · exact hO.imp fun p row ⟨i, _, hi, g, hg, hr⟩ => Or.inr (Or.inl ⟨i, g, hi, hg, hr⟩)
    · exact hfm.imp fun p row h => Or.inr (Or.inr (Or.inl h))
    · exact hQ.imp fun p row ⟨i, _, hi, c, hc, hr⟩ => Or.inr (Or.inr (Or.inr (Or.inl ⟨i, c, hi, hc, hr⟩)))
    · exact hS.imp fun p row h => Or.inr (Or.inr (Or.inr (Or.inr h)))
  have hre := reorder_spec ho' hall.length_eq.symm
    (by rw [mkdofpv_lengths hpv]; simp [dofRows])
  refine ⟨idg, t, o, m, q, s, x.gotM, x.goqM, pvm, mRows, hidg, ht, ho, hq, hs, hmset, hgot, hgoq, hgot0, hgoq0, hre.1, ?_⟩
  have h2 := hre.2
  unfold dofRows at h2
  rw [List.forall₂_map_left_iff] at h2
  refine h2.imp ?_
  rintro d row ⟨j, p, hj, hp, hr⟩
  obtain ⟨row', hrow', hT'⟩ := forall₂_getElem? hall j p hj
  rw [hr] at hrow'
  simp only [Option.some.injEq] at hrow'
  subst hrow'
  exact ⟨p, hp, hT'⟩

/-- **formtran, all requested DOF in the a-set** (`se != 0`): `tran = np.eye(len(a-set))[pvdofa]` - row `k` is the
unit vector at the position of requested DOF `k` within the a-set (`pvdofa = mkdofpv(uset, "a", dof)[0]`, whose
entries are those positions by `mkdofpv_spec` / `mkdofpv_set`); the columns are the a-set DOF. -/
theorem formtran_aset_identity (mk : Masks) (tbl : List Row) (got goq gm : Option (M α)) (req : Request)
    (out : M α) (dof dofa : List (Nat × Nat)) (pvdof pvdofa : List Nat) (a : List Bool) (t_a q_a : List Nat)
    (h : formtranUp mkKey mk tbl got goq gm req = .ok (out, dof))
    (hpv : mkdofpv mk.p tbl (.mask mk.g) req true = .ok (pvdof, dof))
    (ha : mksetpv (tbl.map (·.2.2)) mk.g mk.a = .ok a)
    (hfast : pvdof.all (fun i => a[i]? == some true) = true)
    (hta : setPos tbl mk.a mk.t = .ok t_a) (hqa : setPos tbl mk.a mk.q = .ok q_a)
    (hpa : mkdofpv mk.p tbl (.mask mk.a) (.rows dof) true = .ok (pvdofa, dofa)) :
    out.c = a.count true ∧
    List.Forall₂ (fun i row => i < a.count true ∧ row = unitRow (a.count true) i) pvdofa out.r := by
  unfold formtranUp formtranUpWith at h
  rw [hpv, hta, hqa, ha] at h
  obtain ⟨pd, hpd, h⟩ := bind_ok h
  cases liftE_ok hpd
  simp only at h
  obtain ⟨ta', hta', h⟩ := bind_ok h
  cases hta'
  obtain ⟨qa', hqa', h⟩ := bind_ok h
  cases hqa'
  obtain ⟨a', ha', h⟩ := bind_ok h
  cases liftE_ok ha'
  rw [hfast, hpa] at h
  simp only [if_true] at h
  obtain ⟨pd2, hpd2, h⟩ := bind_ok h
  cases liftE_ok hpd2
  simp only at h
  obtain ⟨rows, hrows, h⟩ := bind_ok h
  simp only [Except.ok.injEq, Prod.mk.injEq] at h
  obtain ⟨rfl, _⟩ := h
  refine ⟨rfl, (takeIdx_ok hrows).imp ?_⟩
  intro i row hi
  have hin : i < a.count true := by
    have := (List.getElem?_eq_some_iff.mp hi).1
    simpa using this
  rw [List.getElem?_map, List.getElem?_range hin] at hi
  exact ⟨hin, by simpa using hi.symm⟩

/-- **the columns of `formtran` are the target set**: the result has one row per requested DOF and every row has
`out.c` entries - the number of a-set DOF when every requested DOF is in the a-set, else the columns of `got`
(t-set) plus the columns of `goq` (q-set), i.e. again the a-set of a well-formed dictionary. -/
theorem formtran_columns_are_target_set (mk : Masks) (tbl : List Row) (got goq gm : Option (M α)) (req : Request)
    (out : M α) (dof dofa : List (Nat × Nat)) (pvdof pvdofa : List Nat) (a : List Bool) (t_a q_a : List Nat)
    (h : formtranUp mkKey mk tbl got goq gm req = .ok (out, dof))
    (hpv : mkdofpv mk.p tbl (.mask mk.g) req true = .ok (pvdof, dof))
    (ha : mksetpv (tbl.map (·.2.2)) mk.g mk.a = .ok a)
    (hta : setPos tbl mk.a mk.t = .ok t_a) (hqa : setPos tbl mk.a mk.q = .ok q_a)
    (hdis : ∀ c ∈ t_a, c ∉ q_a)
    (hpa : pvdof.all (fun i => a[i]? == some true) = true →
      mkdofpv mk.p tbl (.mask mk.a) (.rows dof) true = .ok (pvdofa, dofa)) :
    out.r.length = dof.length ∧ (∀ row ∈ out.r, row.length = out.c) ∧
    (pvdof.all (fun i => a[i]? == some true) = true → out.c = a.count true) ∧
    (pvdof.all (fun i => a[i]? == some true) = false → ∃ gotM goqM : M α,
      (∀ g, got = some g → gotM = g) ∧ (∀ g, goq = some g → goqM = g) ∧ out.c = gotM.c + goqM.c) := by
  cases hc : pvdof.all (fun i => a[i]? == some true) with
  | true =>
      obtain ⟨h1, h2⟩ := formtran_aset_identity mkKey mk tbl got goq gm req out dof dofa pvdof pvdofa a t_a q_a
        h hpv ha hc hta hqa (hpa hc)
      refine ⟨?_, ?_, fun _ => h1, fun hf => by cases hf⟩
      · rw [← h2.length_eq, mkdofpv_lengths (hpa hc), mkdofpv_rows_fixed hpv (hpa hc)]
      · intro row hrow
        obtain ⟨k, hk⟩ := List.getElem?_of_mem hrow
        obtain ⟨i, _, _, hr⟩ := forall₂_getElem?' h2 k row hk
        rw [hr, unitRow_length, h1]
  | false =>
      obtain ⟨_, t, o, m, q, s, gotM, goqM, pvm, mRows, _, _, _, _, _, _, hg1, hg2, _, _, hcw, hall⟩ :=
        formtran_partition_identity mkKey mk tbl got goq gm req out dof pvdof a t_a q_a h hpv ha hc hta hqa hdis
      refine ⟨hall.length_eq.symm, ?_, fun hf => (by cases hf), fun _ => ⟨gotM, goqM, hg1, hg2, hcw⟩⟩
      intro row hrow
      obtain ⟨k, hk⟩ := List.getElem?_of_mem hrow
      obtain ⟨d, _, p, _, hT⟩ := forall₂_getElem?' hall k row hk
      rw [hcw]
      rcases hT with ⟨_, _, _, _, hr⟩ | ⟨_, _, _, _, hr⟩ | ⟨_, _, _, _, _, hr⟩ | ⟨_, _, _, _, hr⟩ | ⟨_, _, hr⟩
      · rw [hr, unitRow_length]
      · rcases hr with ⟨_, _, _, hO⟩ | ⟨_, hO⟩ <;> exact hO.1
      · exact hr
      · rw [hr, unitRow_length]
      · rw [hr, zeroRow_length]

end formtran
/-! ## non-vacuity: a table of three scalar points (b-set, o-set, q-set), `got = [[2]]`, `goq = [[3]]` -/

section examples
open PyYetiVerif.Generated.UsetMask
set_option linter.unusedSimpArgs false

def exKey (i d : Nat) : Nat := i * 10 + d
def exMasks : Masks := Masks.ofTable mask
def exTbl : List Row := [(1, 0, 2097154), (2, 0, 4), (3, 0, 4194304)]

/-- the general path (the o-set DOF `(2, 0)` is requested): the hypotheses of `formtran_partition_identity` and
`formtran_columns_are_target_set` hold together; row 0 is `got`/`goq` scattered, row 1 the unit vector of the b-DOF -/
example : formtranUp (α := Int) exKey exMasks exTbl (some ⟨[[2]], 1⟩) (some ⟨[[3]], 1⟩) none (.rows [(2, 0), (1, 0)])
      = .ok (⟨[[2, 3], [1, 0]], 2⟩, [(2, 0), (1, 0)]) ∧
    mkdofpv exMasks.p exTbl (.mask exMasks.g) (.rows [(2, 0), (1, 0)]) true = .ok ([1, 0], [(2, 0), (1, 0)]) ∧
    mksetpv (exTbl.map (·.2.2)) exMasks.g exMasks.a = .ok [true, false, true] ∧
    ([1, 0] : List Nat).all (fun i => [true, false, true][i]? == some true) = false ∧
    setPos exTbl exMasks.a exMasks.t = .ok [0] ∧ setPos exTbl exMasks.a exMasks.q = .ok [1] := by
  simp [formtranUp, formtranUpWith, upSelectWith, procMsetWith, iddofG, rowsOfMask, mkdofpv, mksetpv, expanddof, expanddof2, expandRow, digits, digitsRev, mkdofpvKeys, argsort,
    lookup, searchsortedLeft, key, List.mergeSort, List.zipIdx, List.MergeSort.Internal.splitInTwo,
    exMasks, Masks.ofTable, exTbl, mask, v_p, v_g, v_n, v_f, v_a, v_q, v_r, v_b, v_c, v_o, v_s, v_m, v_e, v_l, v_t,
    inSet, liftE, setPos, positions, upSelect, selSet, selIn, takeIdx, matIntersect, lookupAll, iddofOf, dofRows, exKey,
    procMset, upBlocks, eyeBlock, oBlock, scatterRows, setCols, rowsAt, unitRow, zeroRow, reorder, UpSel.sets,
    bind, Except.bind, pure, Except.pure, Except.map, List.mapM_cons, List.mapM_nil]

/-- the a-set path (only a-set DOF requested): the hypotheses of `formtran_aset_identity` hold together -/
example : formtranUp (α := Int) exKey exMasks exTbl (some ⟨[[2]], 1⟩) (some ⟨[[3]], 1⟩) none (.rows [(3, 0), (1, 0)])
      = .ok (⟨[[0, 1], [1, 0]], 2⟩, [(3, 0), (1, 0)]) ∧
    mkdofpv exMasks.p exTbl (.mask exMasks.g) (.rows [(3, 0), (1, 0)]) true = .ok ([2, 0], [(3, 0), (1, 0)]) ∧
    ([2, 0] : List Nat).all (fun i => [true, false, true][i]? == some true) = true ∧
    mkdofpv exMasks.p exTbl (.mask exMasks.a) (.rows [(3, 0), (1, 0)]) true = .ok ([1, 0], [(3, 0), (1, 0)]) := by
  simp [formtranUp, formtranUpWith, upSelectWith, procMsetWith, iddofG, rowsOfMask, mkdofpv, mksetpv, expanddof, expanddof2, expandRow, digits, digitsRev, mkdofpvKeys, argsort,
    lookup, searchsortedLeft, key, List.mergeSort, List.zipIdx, List.MergeSort.Internal.splitInTwo,
    exMasks, Masks.ofTable, exTbl, mask, v_p, v_g, v_n, v_f, v_a, v_q, v_r, v_b, v_c, v_o, v_s, v_m, v_e, v_l, v_t,
    inSet, liftE, setPos, positions, takeIdx, unitRow, maskSel,
    bind, Except.bind, pure, Except.pure, Except.map, List.mapM_cons, List.mapM_nil]
  decide

end examples

end PyYetiVerif.C18
