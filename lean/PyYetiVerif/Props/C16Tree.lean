import PyYetiVerif.Lemmas.ExtremaTree
import PyYetiVerif.Props.C16
/-!
# C16 — nested results: `delete_extreme`, `form_extreme` twice, the traversal generators

Property theorems only.  Model: `Model/ExtremaTree.lean` (`del` = `delete_extreme`, `add` =
`_add_extreme`, `form` = `form_extreme`, `allCats` / `allBases` = the generators), tied by the `tree`
stream of `harness/props/c16.py` (random nested results with stale `'extreme'` entries at every
level, exact).  `comb` is the category-level step (`init_extreme_cat` + `extrema`); the structural
theorems hold for EVERY `comb`, `form_extreme_flat_is_envelope` instantiates it with the one-row
model of `Props/C16.lean`.
-/
namespace PyYetiVerif.C16
open PyYetiVerif.Extrema PyYetiVerif.ExtremaTree

section structural
variable {C : Type} (comb : String → Bool → Nat → Option C → C → C)

/-- ★ forming the envelope again from the same parts gives the same tables — stale `'extreme'`
entries at ANY level (also ones the caller put there) do not matter —, and `delete_extreme` followed
by `form_extreme` restores them. -/
theorem form_extreme_idempotent (t : Res C) :
    form comb (form comb t) = form comb t ∧ form comb (del (form comb t)) = form comb t ∧
    form comb (del t) = form comb t := by
  have h : del (add comb (del t)) = del t := del_add comb _ (noExtreme_del t) (canonical_del t)
  refine ⟨?_, ?_, ?_⟩
  · simp only [form, h]
  · simp only [form, h, del_del]
  · simp only [form, del_del]

/-- ★ `form_extreme` does not modify the parts (value level): removing the `'extreme'` entries from
the result leaves exactly what `delete_extreme` leaves of the input — every event, group and
category that is not an `'extreme'` entry is where it was and holds what it held; for a structure
without `'extreme'` entries that is the input itself. -/
theorem form_extreme_keeps_parts (t : Res C) :
    del (form comb t) = del t ∧
    (noExtreme t = true → canonical t = true → del (form comb t) = t) := by
  have h : del (add comb (del t)) = del t := del_add comb _ (noExtreme_del t) (canonical_del t)
  exact ⟨h, fun hn hc => by rw [form, h, del_of_noExtreme t hn hc]⟩

/-- ★ the nested envelope is `extrema` applied recursively: after `form_extreme` the `'extreme'` entry of
a group holds `_calc_extreme` over its members in key order, where a member that is a base event
contributes its own categories (`use_ext = False`) and a member that is a group contributes ITS
envelope, formed the same way (`use_ext = True`) — `envOf`, which never mentions stale entries or
the order in which the tree is rebuilt. -/
theorem nested_envelope_is_recursive_extrema (t : Res C) :
    extOf (form comb t) = envOf comb (del t) ∧
    ∀ kids, del t = .group kids →
      form comb t = .group (addKids comb kids ++ [("extreme", mkBase (envOf comb (del t)).1)]) := by
  refine ⟨extOf_add comb _ (noExtreme_del t), fun kids hk => ?_⟩
  have hn : noExtremeKids kids = true := by
    have := noExtreme_del t
    rw [hk] at this
    simpa [noExtreme] using this
  rw [form, hk]
  simp only [add, envOf, calcExtreme, map_extOf_addKids comb kids hn]

/-- ★ `delete_extreme` removes every `'extreme'` entry at every level, is idempotent, and leaves a
structure without such entries alone. -/
theorem delete_extreme_spec (t : Res C) :
    noExtreme (del t) = true ∧ del (del t) = del t ∧
    (noExtreme t = true → canonical t = true → del t = t) :=
  ⟨noExtreme_del t, del_del t, del_of_noExtreme t⟩

/-- ★ traversal order of nested results: `all_categories()` yields the categories of the base events
in the order `all_base_events()` yields the base events (depth first, insertion order at every
level), inside a base event in insertion order, and the path of a category is the path of its base
event followed by the category name. -/
theorem nested_traversal_order (t : Res C) (top : String) :
    allCats t [] = (allBases t top []).flatMap fun b =>
      b.2.1.map fun p => (p.1, p.2, b.2.2 ++ [p.1]) :=
  allCats_eq_bases t top []

end structural

section flat
variable {α X : Type} [LinearOrder α]

/-- ★ `form_extreme` over a flat group of base events that hold the category `c`: the parts stay, and
the new last entry `'extreme'` holds, for `c`, the running extreme of `cla.extrema` over the events'
rows relabelled by `_mk_case_lbls` — by `ext_is_fold_max` the first-best over the events. -/
theorem form_extreme_flat_is_envelope (d : Nat) (c : String) (hc : c ≠ "extreme")
    (p : String × Cur α X String) (ps : List (String × Cur α X String))
    (hk : ∀ q ∈ p :: ps, q.1 ≠ "extreme") :
    let relabel := fun q : String × Cur α X String =>
      ((⟨q.2.hi.v, q.2.hi.x, mkCaseLbl q.1 q.2.hi.lab false d⟩ : Tr α X String),
       (⟨q.2.lo.v, q.2.lo.x, mkCaseLbl q.1 q.2.lo.lab false d⟩ : Tr α X String))
    ∃ r, run2 ((p :: ps).map relabel) = some r ∧
      form (combRow d) (.group (flatKids c (p :: ps)))
        = .group (flatKids c (p :: ps) ++ [("extreme", .base [(c, r)])]) ∧
      FirstBest id ((p :: ps).map fun q => (relabel q).1) r.hi ∧
      FirstBest OrderDual.toDual ((p :: ps).map fun q => (relabel q).2) r.lo := by
  intro relabel
  obtain ⟨r, hr, h1, h2⟩ := ext_is_fold_max (relabel p) (ps.map relabel)
  refine ⟨r, by simpa using hr, ?_, by simpa [List.map_map, Function.comp_def] using h1,
    by simpa [List.map_map, Function.comp_def] using h2⟩
  have hdel : del (Res.group (flatKids c (p :: ps))) = Res.group (flatKids c (p :: ps)) :=
    del_of_noExtreme _ (by simpa [noExtreme] using noExtremeKids_flat c hc (p :: ps) hk)
      (by simpa [canonical] using canonicalKids_flat c (p :: ps))
  rw [form, hdel]
  simp only [add, addKids_flat]
  have hce : calcExtreme (combRow d) (flatKids c (p :: ps)) = [(c, r)] := by
    rw [calcExtreme, extOf_flatKids, calcCore_single]
    have : (fun (cur : Option (Cur α X String)) (q : (String × Cur α X String × Bool) × Nat) =>
        some (combRow d q.1.1 q.1.2.2 q.2 cur q.1.2.1))
        = fun cur q => some (combRow d q.1.1 q.1.2.2 0 cur q.1.2.1) := rfl
    rw [this]
    have h2 := foldl_zipIdx_ignore
      (fun (cur : Option (Cur α X String)) (q : String × Cur α X String × Bool) =>
        some (combRow d q.1 q.2.2 0 cur q.2.1))
      ((p :: ps).map fun q => (q.1, q.2, false)) 0 none
    rw [h2, List.foldl_map]
    have : (p :: ps).foldl (fun cur q => some (combRow d q.1 false 0 cur q.2)) none = some r := by
      have : (fun (cur : Option (Cur α X String)) (q : String × Cur α X String) =>
          some (combRow d q.1 false 0 cur q.2)) = fun cur q => some (upd2 cur (relabel q)) := rfl
      rw [this]
      simpa [run2, List.foldl_map] using hr
    rw [this]
    rfl
  rw [hce]
  rfl

end flat

/-! ### non-vacuity -/

/-- a nested structure with stale `'extreme'` entries at two levels: `form` twice = `form` once, and
the traversal generators on it (checked by evaluation) -/
example :
    let v : String → Int → Cur Int Unit String := fun l a => ⟨⟨some a, (), l⟩, ⟨some (-a), (), l⟩⟩
    let t : Res (Cur Int Unit String) := .group [
      ("G0", .group [("E0", .base [("cat", v "a" 1)]), ("extreme", .base [("cat", v "stale" 9)]),
                     ("E1", .base [("cat", v "b" 3)])]),
      ("extreme", .base [("cat", v "stale" 7)]),
      ("E2", .base [("cat", v "c" 2)])]
    (allCats (form (combRow 1) t) []).map (fun q => (q.2.2, q.2.1.hi.v, q.2.1.hi.lab))
      = [(["G0", "E0", "cat"], some 1, "a"), (["G0", "E1", "cat"], some 3, "b"),
         (["G0", "extreme", "cat"], some 3, "E1,b"), (["E2", "cat"], some 2, "c"),
         (["extreme", "cat"], some 3, "G0,E1,b")]
    ∧ (allBases (del t) "Top Level" []).map (fun b => (b.1, b.2.2))
      = [("E0", ["G0", "E0"]), ("E1", ["G0", "E1"]), ("E2", ["E2"])] := by
  intro v t
  decide +kernel

end PyYetiVerif.C16
