import PyYetiVerif.Props.C02e
/-!
# C02 (continued) — one whole frequency column of `SolveUnc.fsolve` / `FreqDirect.fsolve`

`colSU_solves`, `colFD_solves`: for the functions the driver runs (`colSU`, `colFD` of
`Model/FreqSolve.lean`: constructor state, block solves, scatter), with `incrb = "dva"`,
`rf_disp_only = False`, `Ω ≠ 0`: whatever column is returned satisfies the full-size
block-diagonal-by-partition equation `partStiff · d = F` on every row, with `v = iΩd`, `a = −Ω²d`;
for `SolveUnc` the rigid-body block is `iΩ B − Ω² M` on the uncoupled path (damped rigid-body modes,
repaired code) and `−Ω² M` on the coupled path (`ColEnv.rbDamping`).
Everything is proved except the eigen-decomposition of the coupled elastic block, which stays a
hypothesis (`hcoup`, the relations of `frfCoupled_solves`).
`fd_incrb_rows`: the `d[self.rb] = 0` … statements of `FreqDirect.fsolve` touch the rigid-body rows
only and clear exactly the excluded letters.
-/
set_option linter.unusedSimpArgs false
set_option linter.unusedSectionVars false
set_option linter.unusedVariables false
namespace PyYetiVerif.C02
open PyYetiVerif.Freq Matrix

section cols
variable {α : Type} [Field α]

/-- the `kdof` block of `FreqDirect.fsolve`: `(K − Ω²M + iΩB)[nonrf,nonrf] d = F[nonrf]` by the
closed form (uncoupled) or by the proved solver (`la.solve(Hi, …)`), `v = iΩd`, `a = −Ω²d`. -/
theorem fdBlock_solves (e : ColEnv α) (hz : ∀ x, e.isZero x = true ↔ x = 0)
    (nonrf : List Nat) (hnd : nonrf.Nodup) (F : Nat → α) (w : α)
    (hmn : e.mNone = true → ∀ r c, e.M r c = if r = c then 1 else 0)
    (hunc : e.unc = true → (∀ r ∈ nonrf, ∀ c ∈ nonrf, r ≠ c → e.M r c = 0 ∧ e.B r c = 0 ∧ e.K r c = 0) ∧
      ∀ r ∈ nonrf, (e.i * e.B r r) * w + e.K r r - e.M r r * (w * w) ≠ 0)
    (vk : List (Dva α)) (h : fdVals e nonrf F w = .ok vk) :
    vk.length = nonrf.length ∧
    (∀ r ∈ nonrf, blockSum (fun r c => e.i * e.B r c * w + e.K r c - e.M r c * (w * w)) nonrf
      (vk.map (·.d)) r = F r) ∧
    ∀ x ∈ vk, x.v = e.i * w * x.d ∧ x.a = -(w * w) * x.d := by
  unfold fdVals at h
  by_cases hu : e.unc = true
  · simp only [hu, if_true, Except.ok.injEq] at h
    subst h
    obtain ⟨hoff, hden⟩ := hunc hu
    refine ⟨by simp, ?_, ?_⟩
    · intro r hr
      rw [List.map_map]
      have hmap : nonrf.map ((fun x : Dva α => x.d) ∘ fun r =>
            frfDir e.i (if e.mNone = true then 1 else e.M r r) (e.B r r) (e.K r r) (F r) w) =
          nonrf.map fun r => F r / ((e.i * e.B r r) * w + e.K r r - e.M r r * (w * w)) := by
        apply List.map_congr_left
        intro c hc
        simp only [Function.comp, frfDir]
        by_cases hm : e.mNone = true
        · simp [hm, hmn hm c c]
        · simp [hm]
      rw [hmap, blockSum_diag _ nonrf hnd _ (fun r hr c hc hne => by
        obtain ⟨h1, h2, h3⟩ := hoff r hr c hc hne
        simp [h1, h2, h3]) r hr]
      exact mul_div_cancel₀ _ (hden r hr)
    · intro x hx
      obtain ⟨r, _, rfl⟩ := List.mem_map.1 hx
      exact ⟨rfl, rfl⟩
  · simp only [hu, Bool.false_eq_true, if_false] at h
    cases hs : solveIdx e (fun r c => e.i * e.B r c * w + e.K r c
        - (if e.mNone = true then (if r = c then 1 else 0) else e.M r c) * (w * w)) nonrf nonrf F with
    | error m => rw [hs] at h; cases h
    | ok d =>
      rw [hs] at h
      simp only [Except.map, Except.ok.injEq] at h
      subst h
      obtain ⟨hl, heq⟩ := blockEq_of_solveIdx e hz _ nonrf F d hs
      refine ⟨by simp [hl], ?_, ?_⟩
      · intro r hr
        rw [List.map_map]
        have : ((fun x : Dva α => x.d) ∘ dvaOfDispFD e.i w) = id := by
          funext y; simp [Function.comp, dvaOfDispFD]
        rw [this, List.map_id, ← heq r hr]
        apply blockSum_congr
        intro c _
        by_cases hm : e.mNone = true
        · simp [hm, hmn hm r c]
        · simp [hm]
      · intro x hx
        obtain ⟨y, _, rfl⟩ := List.mem_map.1 hx
        exact ⟨rfl, rfl⟩

/-- `if "d" not in incrb: d[self.rb] = 0` … (`FreqDirect.fsolve`): rows outside `rb` are untouched,
rows in `rb` keep exactly the requested letters (`incrb_table_direct` at the level of the column). -/
theorem fd_incrb_rows (inc : Incrb) (s : List (Dva α)) (rb : List Nat) (hnd : rb.Nodup) (r : Nat) :
    (modifyRows (applyIncrb inc) s rb)[r]? =
      if r ∈ rb then (s[r]?).map (applyIncrb inc) else s[r]? := by
  by_cases h : r ∈ rb
  · rw [if_pos h, modifyRows_getElem?_of_mem _ _ _ hnd _ h]
  · rw [if_neg h, modifyRows_getElem?_of_not_mem _ _ _ _ h]

/-- **one column of `FreqDirect.fsolve`** (`incrb = "dva"`, `rf_disp_only = False`): the non-rf
block solved as a whole and the rf block solved statically, scattered into the full column. -/
theorem colFD_solves (e : ColEnv α) (hz : ∀ x, e.isZero x = true ↔ x = 0)
    (L : Layout) (hperm : (L.nonrf ++ L.rf).Perm (List.range L.n))
    (F : Nat → α) (w : α) (hinc : e.inc = Incrb.all) (hdo : e.dispOnly = false)
    (hmn : e.mNone = true → ∀ r c, e.M r c = if r = c then 1 else 0)
    (hunc : e.unc = true → (∀ r c, r ≠ c → e.M r c = 0 ∧ e.B r c = 0 ∧ e.K r c = 0) ∧
      (∀ r ∈ L.rf, e.K r r ≠ 0) ∧
      ∀ r ∈ L.nonrf, (e.i * e.B r r) * w + e.K r r - e.M r r * (w * w) ≠ 0)
    (sol : List (Dva α)) (h : colFD e L F w = .ok sol) :
    ∀ r, r < L.n →
      ((List.range L.n).map fun c =>
        partStiff e.i w e.M e.B e.B e.K [] L.nonrf L.rf r c * (rowOf sol c).d).sum = F r ∧
      (rowOf sol r).v = e.i * w * (rowOf sol r).d ∧ (rowOf sol r).a = -(w * w) * (rowOf sol r).d := by
  have hperm' : (([] : List Nat) ++ L.nonrf ++ L.rf).Perm (List.range L.n) := by simpa using hperm
  have hnd : (L.nonrf ++ L.rf).Nodup := hperm.nodup_iff.2 List.nodup_range
  have hnd1 := List.nodup_append.1 hnd
  unfold colFD at h
  cases hrf : rfVals e L.rf F w with
  | error m => simp only [hrf] at h; cases h
  | ok vrf =>
    simp only [hrf] at h
    obtain ⟨hlrf, hrfeq, hrfva⟩ := rfBlock_solves e hz L.rf hnd1.2.1 F w vrf
      (fun hu => ⟨fun r _ c _ hne => ((hunc hu).1 r c hne).2.2, (hunc hu).2.1⟩) hrf
    have key : ∀ vk : List (Dva α), vk.length = L.nonrf.length →
        (∀ r ∈ L.nonrf, blockSum (fun r c => e.i * e.B r c * w + e.K r c - e.M r c * (w * w)) L.nonrf
          (vk.map (·.d)) r = F r) →
        (∀ x ∈ vk, x.v = e.i * w * x.d ∧ x.a = -(w * w) * x.d) →
        sol = assemble L.n L.rf vrf [] [] L.nonrf vk →
        ∀ r, r < L.n →
          ((List.range L.n).map fun c =>
            partStiff e.i w e.M e.B e.B e.K [] L.nonrf L.rf r c * (rowOf sol c).d).sum = F r ∧
          (rowOf sol r).v = e.i * w * (rowOf sol r).d ∧
          (rowOf sol r).a = -(w * w) * (rowOf sol r).d := by
      intro vk hlk hkeq hkva hsol r hr
      subst hsol
      refine ⟨fsolve_full_solves L.n e.i w e.M e.B e.B e.K F [] L.nonrf L.rf hperm' [] vk vrf rfl
        hlk.symm hlrf.symm (fun r hr => by cases hr) hkeq hrfeq r hr, ?_⟩
      exact fsolve_full_va L.n e.i w [] L.nonrf L.rf hperm' [] vk vrf rfl hlk.symm hlrf.symm
        (fun x hx => by
          simp only [List.nil_append, List.mem_append] at hx
          rcases hx with hx | hx
          · exact hkva x hx
          · exact (hrfva x hx).2 hdo) r hr
    by_cases hemp : L.nonrf = []
    · simp only [hemp, List.isEmpty_nil, if_true, Except.ok.injEq] at h
      refine key [] (by simp [hemp]) (fun r hr => by rw [hemp] at hr; cases hr)
        (fun x hx => by cases hx) ?_
      rw [← h, hemp]; rfl
    · have hemp' : L.nonrf.isEmpty = false := by
        cases hn : L.nonrf with
        | nil => exact absurd hn hemp
        | cons _ _ => rfl
      simp only [hemp', Bool.false_eq_true, if_false] at h
      cases hk : fdVals e L.nonrf F w with
      | error m => simp only [hk] at h; cases h
      | ok vk =>
        simp only [hk, Except.ok.injEq] at h
        obtain ⟨hlk, hkeq, hkva⟩ := fdBlock_solves e hz L.nonrf hnd1.1 F w hmn
          (fun hu => ⟨fun r _ c _ hne => (hunc hu).1 r c hne, (hunc hu).2.2⟩) vk hk
        refine key vk hlk hkeq hkva ?_
        rw [← h, hinc, modifyRows_id _ (fun x => by simp [applyIncrb, Incrb.all])]
        rfl

/-- the elastic block of `SolveUnc.fsolve` on either path (`_solve_freq_unc`: closed form on the rows
`b[_el]`, `k[_el]`, `m[_el]`; `_solve_freq_coup`: complex modes on the shrunk `kdof`) for every `Ω`: it is
written to `el`, one value per row, and satisfies `(K − Ω²M + iΩB)[el,el] d = F[el]`, `v = iΩd`,
`a = −Ω²d` -/
theorem elValsSU_solves (e : ColEnv α) (hz : ∀ x, e.isZero x = true ↔ x = 0)
    (L : Layout) (hrbg : gather L.nonrf L.rb_ = some L.rb) (helg : gather L.nonrf L.el_ = some L.el)
    (hndel : L.el.Nodup)
    (uncReal : Bool) (huc : uncReal = true → e.unc = true)
    (st : SuState) (hst : suInit L (!uncReal) e.mNone = some st)
    (eig : Option (EigData α st.kdof.length)) (F : Nat → α) (w : α)
    (hi : e.i * e.i = -1)
    (hmn : e.mNone = true → ∀ r c, e.M r c = if r = c then 1 else 0)
    (hunc : e.unc = true → (∀ r c, r ≠ c → e.M r c = 0 ∧ e.B r c = 0 ∧ e.K r c = 0) ∧
      ∀ r ∈ L.el, e.i * (e.B r r * w) + e.K r r - e.M r r * (w * w) ≠ 0)
    (hcoup : e.unc = false → ∀ ed, eig = some ed →
      ∃ Uv : Fin st.kdof.length → Fin ed.s → α,
        of (fun p q : Fin st.kdof.length => e.M st.kdof[p] st.kdof[q]) * (of Uv * diagonal ed.lam)
          + of (fun p q : Fin st.kdof.length => e.B st.kdof[p] st.kdof[q]) * of Uv
          + of (fun p q : Fin st.kdof.length => e.K st.kdof[p] st.kdof[q]) * of ed.urd = 0 ∧
        of Uv = of ed.urd * diagonal ed.lam ∧ of Uv * of ed.urinvv = 1 ∧
        of ed.urd * of ed.urinvv = 0 ∧ ∀ j, e.i * w - ed.lam j ≠ 0)
    (rows : List Nat) (vel : List (Dva α)) (hel : elValsSU e st eig F w = .ok (rows, vel)) :
    rows = L.el ∧ vel.length = L.el.length ∧
      (∀ r ∈ L.el, blockSum (fun r c => e.i * e.B r c * w + e.K r c - e.M r c * (w * w)) L.el
        (vel.map (·.d)) r = F r) ∧
      ∀ x ∈ vel, x.v = e.i * w * x.d ∧ x.a = -(w * w) * x.d := by
  obtain ⟨st', hst', hlay, helr, hE, hN, hmr⟩ := imrb_correct L hrbg helg (!uncReal) e.mNone
  have : st' = st := Option.some.inj (hst'.symm.trans hst)
  subst this
  have hellen := gather_length _ _ _ helg
  unfold elValsSU at hel
  rw [hlay] at hel
  by_cases hu : e.unc = true
  · simp only [hu, if_true] at hel
    by_cases hee : L.el = []
    · simp only [hee, List.isEmpty_nil, if_true, Except.ok.injEq, Prod.mk.injEq] at hel
      obtain ⟨h1, h2⟩ := hel
      subst h1 h2
      simp [hee]
    · have hee' : L.el.isEmpty = false := by
        cases hn : L.el with
        | nil => exact absurd hn hee
        | cons _ _ => rfl
      simp only [hee', Bool.false_eq_true, if_false, helr] at hel
      cases hv : elValsUnc e L.el L.el F w with
      | error m => rw [hv] at hel; cases hel
      | ok v =>
        rw [hv] at hel
        simp only [Except.map, Except.ok.injEq, Prod.mk.injEq] at hel
        obtain ⟨h1, h2⟩ := hel
        subst h1 h2
        obtain ⟨a, b, c⟩ := elBlockUnc_solves e L.el hndel F w
          (fun r _ c _ hne => (hunc hu).1 r c hne)
          (fun hm r _ => by rw [hmn hm r r]; simp) (hunc hu).2 v hv
        exact ⟨rfl, a, b, c⟩
  · have hu' : e.unc = false := by simpa using hu
    have hur : uncReal = false := by
      cases hx : uncReal
      · rfl
      · exact absurd (huc hx) hu
    simp only [hu', Bool.false_eq_true, if_false] at hel
    -- `kdof`, `mRows` have been shrunk to `el`
    have hk : st'.kdof = L.el ∧ st'.mRows = st'.kdof := by
      by_cases hne : L.nonrf = []
      · have h0 : L.el = [] := by
          cases hq : L.el_ with
          | nil =>
            rw [hq] at hellen
            exact List.eq_nil_of_length_eq_zero (by simpa using hellen)
          | cons p ps => rw [hq, hne, gather_cons] at helg; simp at helg
        have := hst'
        simp only [suInit, hne, List.isEmpty_nil, if_true, Option.some.injEq] at this
        subst this
        exact ⟨by simp [h0, hne], rfl⟩
      · obtain ⟨a, b, _⟩ := hE (by simp [hur]) hne
        exact ⟨a, by rw [a, b]⟩
    by_cases hke : st'.kdof = []
    · simp only [hke, List.isEmpty_nil, if_true, Except.ok.injEq, Prod.mk.injEq] at hel
      obtain ⟨h1, h2⟩ := hel
      subst h1 h2
      have : L.el = [] := by rw [← hk.1, hke]
      simp [this]
    · have hke' : st'.kdof.isEmpty = false := by
        cases hn : st'.kdof with
        | nil => exact absurd hn hke
        | cons _ _ => rfl
      simp only [hke', Bool.false_eq_true, if_false] at hel
      cases hed : eig with
      | none => simp only [hed] at hel; cases hel
      | some ed =>
        simp only [hed] at hel
        rw [hk.2] at hel
        cases hv : elValsCoup e st'.kdof st'.kdof ed.lam ed.urd ed.urinvv F w with
        | error m => rw [hv] at hel; cases hel
        | ok v =>
          rw [hv] at hel
          simp only [Except.map, Except.ok.injEq, Prod.mk.injEq] at hel
          obtain ⟨h1, h2⟩ := hel
          subst h1 h2
          obtain ⟨Uv, htop, hbot, hU1, hU2, hH⟩ := hcoup hu' ed hed
          obtain ⟨a, b, c⟩ := elBlockCoup_solves e hz st'.kdof (hk.1 ▸ hndel) ed.lam
            ed.urd ed.urinvv Uv F w (fun hm r _ c _ => hmn hm r c) htop hbot hU1 hU2 hH hi v hv
          rw [hk.1] at a b
          exact ⟨hk.1, a, b, c⟩

/-- **one column of `SolveUnc.fsolve`** (`incrb = "dva"`, `rf_disp_only = False`, `Ω ≠ 0`), from the
constructor state to the assembled column: combines `imrb_correct`, `rbDampRows_correct`,
`rfBlock_solves`, `rbBlock_solves`, `elValsSU_solves` (`elBlockUnc_solves` / `elBlockCoup_solves`),
`scatter_covers` and `fsolve_full_solves`. -/
theorem colSU_solves (e : ColEnv α) (hz : ∀ x, e.isZero x = true ↔ x = 0)
    (L : Layout) (hrbg : gather L.nonrf L.rb_ = some L.rb) (helg : gather L.nonrf L.el_ = some L.el)
    (hperm : (L.rb ++ L.el ++ L.rf).Perm (List.range L.n))
    (uncReal : Bool) (huc : uncReal = true → e.unc = true)
    (st : SuState) (hst : suInit L (!uncReal) e.mNone = some st)
    (eig : Option (EigData α st.kdof.length)) (F : Nat → α) (w : α) (hw : w ≠ 0)
    (hi : e.i * e.i = -1) (hinc : e.inc = Incrb.all) (hdo : e.dispOnly = false)
    (hmn : e.mNone = true → ∀ r c, e.M r c = if r = c then 1 else 0)
    (hunc : e.unc = true → (∀ r c, r ≠ c → e.M r c = 0 ∧ e.B r c = 0 ∧ e.K r c = 0) ∧
      (∀ r ∈ L.rf, e.K r r ≠ 0) ∧ (∀ r ∈ L.rb, e.M r r ≠ 0) ∧
      (∀ r ∈ L.rb, -(w * w) * e.M r r + e.i * w * e.B r r ≠ 0) ∧
      ∀ r ∈ L.el, e.i * (e.B r r * w) + e.K r r - e.M r r * (w * w) ≠ 0)
    (hcoup : e.unc = false → ∀ ed, eig = some ed →
      ∃ Uv : Fin st.kdof.length → Fin ed.s → α,
        of (fun p q : Fin st.kdof.length => e.M st.kdof[p] st.kdof[q]) * (of Uv * diagonal ed.lam)
          + of (fun p q : Fin st.kdof.length => e.B st.kdof[p] st.kdof[q]) * of Uv
          + of (fun p q : Fin st.kdof.length => e.K st.kdof[p] st.kdof[q]) * of ed.urd = 0 ∧
        of Uv = of ed.urd * diagonal ed.lam ∧ of Uv * of ed.urinvv = 1 ∧
        of ed.urd * of ed.urinvv = 0 ∧ ∀ j, e.i * w - ed.lam j ≠ 0)
    (sol : List (Dva α)) (h : colSU e st uncReal eig F w = .ok sol) :
    ∀ r, r < L.n →
      ((List.range L.n).map fun c =>
        partStiff e.i w e.M e.rbDamping e.B e.K L.rb L.el L.rf r c * (rowOf sol c).d).sum = F r ∧
      (rowOf sol r).v = e.i * w * (rowOf sol r).d ∧ (rowOf sol r).a = -(w * w) * (rowOf sol r).d := by
  obtain ⟨st', hst', hlay, helr, hE, hN, hmr⟩ := imrb_correct L hrbg helg (!uncReal) e.mNone
  have : st' = st := Option.some.inj (hst'.symm.trans hst)
  subst this
  have hnd : (L.rb ++ L.el ++ L.rf).Nodup := hperm.nodup_iff.2 List.nodup_range
  have hnd1 := List.nodup_append.1 hnd
  have hnd2 := List.nodup_append.1 hnd1.1
  unfold colSU at h
  rw [hlay] at h
  cases hrf : rfVals e L.rf F w with
  | error m => simp only [hrf] at h; cases h
  | ok vrf =>
    simp only [hrf] at h
    obtain ⟨hlrf, hrfeq, hrfva⟩ := rfBlock_solves e hz L.rf hnd1.2.1 F w vrf
      (fun hu => ⟨fun r _ c _ hne => ((hunc hu).1 r c hne).2.2, (hunc hu).2.1⟩) hrf
    cases hrb : rbVals e st' uncReal F w with
    | error m => simp only [hrb] at h; cases h
    | ok vrb =>
      simp only [hrb] at h
      obtain ⟨hlrb, hrbeq, hrbva⟩ := rbBlock_solves e hz st' uncReal
        (fun hm hne => by
          have := hmr hm (hlay ▸ hne)
          rw [hlay]; simpa using this)
        (fun _ => by
          have := rbDampRows_correct L hrbg helg (!uncReal) e.mNone st' hst'
          rw [hlay]; simpa using this)
        (hlay ▸ hnd2.1) F w hw hinc
        (fun hm r _ c _ => hmn hm r c)
        (fun hu => ⟨fun r _ c _ hne => ⟨((hunc hu).1 r c hne).1, ((hunc hu).1 r c hne).2.1⟩,
          fun r hr => (hunc hu).2.2.1 r (hlay ▸ hr),
          fun r hr => (hunc hu).2.2.2.1 r (hlay ▸ hr)⟩) vrb hrb
      rw [hlay] at hlrb hrbeq
      cases hel : elValsSU e st' eig F w with
      | error m => simp only [hel] at h; cases h
      | ok rv =>
        obtain ⟨rows, vel⟩ := rv
        simp only [hel, Except.ok.injEq] at h
        obtain ⟨hrows, hlel, heleq, helva⟩ := elValsSU_solves e hz L hrbg helg hnd2.2.1 uncReal huc st'
          hst' eig F w hi hmn (fun hu => ⟨(hunc hu).1, (hunc hu).2.2.2.2⟩) hcoup rows vel hel
        subst hrows
        subst h
        intro r hr
        refine ⟨fsolve_full_solves L.n e.i w e.M e.rbDamping e.B e.K F L.rb L.el L.rf hperm vrb vel vrf
          hlrb.symm hlel.symm hlrf.symm hrbeq heleq hrfeq r hr, ?_⟩
        exact fsolve_full_va L.n e.i w L.rb L.el L.rf hperm vrb vel vrf hlrb.symm hlel.symm hlrf.symm
          (fun x hx => by
            simp only [List.mem_append] at hx
            rcases hx with (hx | hx) | hx
            · exact hrbva x hx
            · exact helva x hx
            · exact (hrfva x hx).2 hdo) r hr

/-- **one column of `SolveUnc.fsolve` at `Ω = 0`** (`incrb = "dva"`, `rf_disp_only = False`; 0 Hz is in
the quantifier of the property for `SolveUnc`): on every elastic and residual-flexibility row the
full-size equation holds — at `Ω = 0` it is the static equation `K d = F` — with `v = a = 0`; on the
rigid-body rows, where the equation `0 · d = F` has no solution, the column holds the documented
convention `d = v = 0`, `a = M[rb,rb]⁻¹ F[rb]`, whatever the damping of those modes. -/
theorem colSU_zero_freq (e : ColEnv α) (hz : ∀ x, e.isZero x = true ↔ x = 0)
    (L : Layout) (hrbg : gather L.nonrf L.rb_ = some L.rb) (helg : gather L.nonrf L.el_ = some L.el)
    (hperm : (L.rb ++ L.el ++ L.rf).Perm (List.range L.n))
    (uncReal : Bool) (huc : uncReal = true → e.unc = true)
    (st : SuState) (hst : suInit L (!uncReal) e.mNone = some st)
    (eig : Option (EigData α st.kdof.length)) (F : Nat → α)
    (hi : e.i * e.i = -1) (hinc : e.inc = Incrb.all) (hdo : e.dispOnly = false)
    (hmn : e.mNone = true → ∀ r c, e.M r c = if r = c then 1 else 0)
    (hunc : e.unc = true → (∀ r c, r ≠ c → e.M r c = 0 ∧ e.B r c = 0 ∧ e.K r c = 0) ∧
      (∀ r ∈ L.rf, e.K r r ≠ 0) ∧ (∀ r ∈ L.rb, e.M r r ≠ 0) ∧
      ∀ r ∈ L.el, e.i * (e.B r r * 0) + e.K r r - e.M r r * (0 * 0) ≠ 0)
    (hcoup : e.unc = false → ∀ ed, eig = some ed →
      ∃ Uv : Fin st.kdof.length → Fin ed.s → α,
        of (fun p q : Fin st.kdof.length => e.M st.kdof[p] st.kdof[q]) * (of Uv * diagonal ed.lam)
          + of (fun p q : Fin st.kdof.length => e.B st.kdof[p] st.kdof[q]) * of Uv
          + of (fun p q : Fin st.kdof.length => e.K st.kdof[p] st.kdof[q]) * of ed.urd = 0 ∧
        of Uv = of ed.urd * diagonal ed.lam ∧ of Uv * of ed.urinvv = 1 ∧
        of ed.urd * of ed.urinvv = 0 ∧ ∀ j, e.i * 0 - ed.lam j ≠ 0)
    (sol : List (Dva α)) (h : colSU e st uncReal eig F 0 = .ok sol) :
    (∀ r, r < L.n → r ∉ L.rb →
      ((List.range L.n).map fun c =>
        partStiff e.i 0 e.M e.rbDamping e.B e.K L.rb L.el L.rf r c * (rowOf sol c).d).sum = F r ∧
      (rowOf sol r).v = 0 ∧ (rowOf sol r).a = 0) ∧
    ∃ arb : List α, ∃ hl : L.rb.length = arb.length,
      (∀ r ∈ L.rb, blockSum e.M L.rb arb r = F r) ∧
      ∀ q (hq : q < L.rb.length), rowOf sol L.rb[q] = ⟨0, 0, arb[q]'(hl ▸ hq)⟩ := by
  obtain ⟨st', hst', hlay, helr, hE, hN, hmr⟩ := imrb_correct L hrbg helg (!uncReal) e.mNone
  have : st' = st := Option.some.inj (hst'.symm.trans hst)
  subst this
  have hnd : (L.rb ++ L.el ++ L.rf).Nodup := hperm.nodup_iff.2 List.nodup_range
  have hnd1 := List.nodup_append.1 hnd
  have hnd2 := List.nodup_append.1 hnd1.1
  unfold colSU at h
  rw [hlay] at h
  cases hrf : rfVals e L.rf F 0 with
  | error m => simp only [hrf] at h; cases h
  | ok vrf =>
    simp only [hrf] at h
    obtain ⟨hlrf, hrfeq, hrfva⟩ := rfBlock_solves e hz L.rf hnd1.2.1 F 0 vrf
      (fun hu => ⟨fun r _ c _ hne => ((hunc hu).1 r c hne).2.2, (hunc hu).2.1⟩) hrf
    cases hrb : rbVals e st' uncReal F 0 with
    | error m => simp only [hrb] at h; cases h
    | ok vrb =>
      simp only [hrb] at h
      obtain ⟨hlrb, hrbz, hrbeq⟩ := rbBlock_zero_freq e hz st' uncReal
        (fun hm hne => by
          have := hmr hm (hlay ▸ hne)
          rw [hlay]; simpa using this)
        (fun _ => by
          have := rbDampRows_correct L hrbg helg (!uncReal) e.mNone st' hst'
          rw [hlay]; simpa using this)
        (hlay ▸ hnd2.1) F hinc
        (fun hm r _ c _ => hmn hm r c)
        (fun hu => ⟨fun r _ c _ hne => ⟨((hunc hu).1 r c hne).1, ((hunc hu).1 r c hne).2.1⟩,
          fun r hr => (hunc hu).2.2.1 r (hlay ▸ hr)⟩) vrb hrb
      rw [hlay] at hlrb hrbeq
      cases hel : elValsSU e st' eig F 0 with
      | error m => simp only [hel] at h; cases h
      | ok rv =>
        obtain ⟨rows, vel⟩ := rv
        simp only [hel, Except.ok.injEq] at h
        obtain ⟨hrows, hlel, heleq, helva⟩ := elValsSU_solves e hz L hrbg helg hnd2.2.1 uncReal huc st'
          hst' eig F 0 hi hmn (fun hu => ⟨(hunc hu).1, (hunc hu).2.2.2⟩) hcoup rows vel hel
        subst hrows
        subst h
        obtain ⟨_, _, hgrb, hgel, hgrf⟩ := scatter_covers L.n L.rb L.el L.rf hperm vrb vel vrf
          hlrb.symm hlel.symm hlrf.symm
        refine ⟨?_, vrb.map (·.a), by simp [hlrb], hrbeq, ?_⟩
        · intro r hr hnrb
          refine ⟨fsolve_full_rows L.n e.i 0 e.M e.rbDamping e.B e.K F L.rb L.el L.rf hperm vrb vel vrf
            hlrb.symm hlel.symm hlrf.symm heleq hrfeq r hr (fun h => absurd h hnrb), ?_⟩
          -- `v = i·0·d = 0`, `a = −0·d = 0` on the elastic and residual-flexibility rows
          have hr' : r ∈ L.rb ++ L.el ++ L.rf := hperm.mem_iff.2 (List.mem_range.2 hr)
          rcases List.mem_append.1 hr' with hr' | hrrf
          · rcases List.mem_append.1 hr' with hrrb | hrel
            · exact absurd hrrb hnrb
            · obtain ⟨q, hq, rfl⟩ := List.mem_iff_getElem.1 hrel
              have hx := helva (vel[q]'(hlel.symm ▸ hq)) (List.getElem_mem _)
              simp only [rowOf, hgel q hq, optRow]
              rw [hx.1, hx.2]
              constructor <;> ring
          · obtain ⟨q, hq, rfl⟩ := List.mem_iff_getElem.1 hrrf
            have hx := (hrfva (vrf[q]'(hlrf.symm ▸ hq)) (List.getElem_mem _)).2 hdo
            simp only [rowOf, hgrf q hq, optRow]
            rw [hx.1, hx.2]
            constructor <;> ring
        · intro q hq
          have hx := hrbz (vrb[q]'(hlrb.symm ▸ hq)) (List.getElem_mem _)
          simp only [rowOf, hgrb q hq, optRow, List.getElem_map]
          cases hv : vrb[q]'(hlrb.symm ▸ hq) with
          | mk d v a =>
            rw [hv] at hx
            simp only at hx
            simp [hx.1, hx.2]

end cols

end PyYetiVerif.C02
