import PyYetiVerif.Lemmas.FreqGauss
import PyYetiVerif.Props.C02
/-!
# C02 (continued) — the linear solver of the model is proved, not specified

`gaussList` (`Model/FreqGauss.lean`) is the Gaussian elimination with partial pivoting that the
driver runs wherever pyYeti calls `la.solve` / `lu_factor`+`lu_solve`.  Over any field, with
`isZero` deciding `= 0` and the pivot comparison `absLt` satisfying what `|a| < |b|` satisfies
(`absLt a b → b ≠ 0`, `b ≠ 0 → absLt 0 b`):

* `gaussSolve_spec`            `gaussSolveFn A b = some x → A x = b`
* `gaussSolve_none_singular`   `gaussSolveFn A b = none → det A = 0`
* `gaussSolve_complete`        `det A ≠ 0 →` it returns the unique solution
* `freqDirect_gauss_solves`, `direct_eq_modal_gauss`   the C02 statements `direct_unique` /
  `direct_eq_modal` with the proved solver in place of the `hsolve` / `hg` specifications.
-/
set_option linter.unusedSimpArgs false
set_option linter.unusedSectionVars false
set_option linter.unusedVariables false
namespace PyYetiVerif.C02
open PyYetiVerif.Freq Matrix

section gauss
variable {α : Type} [Field α]

/-- list level: a returned solution has one entry per unknown and satisfies every equation. -/
theorem gaussList_spec (isZero : α → Bool) (hz : ∀ x, isZero x = true ↔ x = 0)
    (absLt : α → α → Bool) (n : Nat) (rows : List (Eqn α)) (xs : List α) (hl : rows.length = n)
    (h : gaussList isZero absLt n rows = some xs) :
    xs.length = n ∧ ∀ e ∈ rows, dot e.1 xs = e.2 :=
  ⟨gaussList_length isZero absLt n rows xs h, gaussList_sound isZero hz absLt n rows xs hl h⟩

/-- **`gaussSolve A b = some x → A x = b`**, over any field, partial pivoting as implemented. -/
theorem gaussSolve_spec {n : Nat} (isZero : α → Bool) (hz : ∀ x, isZero x = true ↔ x = 0)
    (absLt : α → α → Bool) (A : Fin n → Fin n → α) (b x : Fin n → α)
    (h : gaussSolveFn isZero absLt A b = some x) : of A *ᵥ x = b := by
  unfold gaussSolveFn at h
  split at h
  · cases h
  · rename_i xs hxs
    simp only [Option.some.injEq] at h
    subst h
    have hlen := gaussList_length isZero absLt n _ xs hxs
    funext r
    have := gaussList_sound isZero hz absLt n _ xs (by simp [eqnsOfFn]) hxs
      ((List.finRange n).map (A r), b r) (by
        simp only [eqnsOfFn, List.mem_map]
        exact ⟨r, List.mem_finRange r, rfl⟩)
    simp only [dot_finRange _ xs hlen] at this
    simpa [Matrix.mulVec, dotProduct] using this

/-- **`gaussSolve A b = none → A` singular**: the elimination only gives up on a zero column. -/
theorem gaussSolve_none_singular {n : Nat} (isZero : α → Bool) (hz : ∀ x, isZero x = true ↔ x = 0)
    (absLt : α → α → Bool)
    (h1 : ∀ a b : α, absLt a b = true → b ≠ 0) (h2 : ∀ b : α, b ≠ 0 → absLt 0 b = true)
    (A : Fin n → Fin n → α) (b : Fin n → α)
    (h : gaussSolveFn isZero absLt A b = none) : (of A).det = 0 := by
  unfold gaussSolveFn at h
  split at h
  · rename_i hnone
    obtain ⟨y, hyl, ⟨v, hv, hvne⟩, hker⟩ :=
      gaussList_none isZero hz absLt h1 h2 n _ (by simp [eqnsOfFn]) hnone
    apply Matrix.exists_mulVec_eq_zero_iff.1
    refine ⟨fun j => y[j.val]'(by rw [hyl]; exact j.isLt), ?_, ?_⟩
    · intro h0
      obtain ⟨k, hk, rfl⟩ := List.mem_iff_getElem.1 hv
      exact hvne (by simpa using congrFun h0 ⟨k, by rw [← hyl]; exact hk⟩)
    · funext r
      have := hker ((List.finRange n).map (A r), b r) (by
        simp only [eqnsOfFn, List.mem_map]
        exact ⟨r, List.mem_finRange r, rfl⟩)
      simp only [dot_finRange _ y hyl] at this
      simpa [Matrix.mulVec, dotProduct] using this
  · cases h

/-- on a non-singular system the elimination succeeds and returns *the* solution -/
theorem gaussSolve_complete {n : Nat} (isZero : α → Bool) (hz : ∀ x, isZero x = true ↔ x = 0)
    (absLt : α → α → Bool)
    (h1 : ∀ a b : α, absLt a b = true → b ≠ 0) (h2 : ∀ b : α, b ≠ 0 → absLt 0 b = true)
    (A : Fin n → Fin n → α) (b : Fin n → α) (hdet : (of A).det ≠ 0) :
    ∃ x, gaussSolveFn isZero absLt A b = some x ∧ of A *ᵥ x = b ∧
      ∀ y, of A *ᵥ y = b → y = x := by
  cases hx : gaussSolveFn isZero absLt A b with
  | none => exact absurd (gaussSolve_none_singular isZero hz absLt h1 h2 A b hx) hdet
  | some x =>
    have hs := gaussSolve_spec isZero hz absLt A b x hx
    exact ⟨x, rfl, hs, fun y hy => direct_unique A hdet y x b hy hs⟩

/-- `FreqDirect.fsolve`, coupled branch, with the model's own solver: whatever it returns solves
the dynamic-stiffness equation, and it returns something whenever that matrix is non-singular. -/
theorem freqDirect_gauss_solves {n : Nat} (isZero : α → Bool) (hz : ∀ x, isZero x = true ↔ x = 0)
    (absLt : α → α → Bool)
    (h1 : ∀ a b : α, absLt a b = true → b ≠ 0) (h2 : ∀ b : α, b ≠ 0 → absLt 0 b = true)
    (i w : α) (M B K : Fin n → Fin n → α) (f : Fin n → α) :
    (∀ d, gaussSolveFn isZero absLt (dynStiff i w M B K) f = some d →
      of (dynStiff i w M B K) *ᵥ d = f) ∧
    ((of (dynStiff i w M B K)).det ≠ 0 →
      ∃ d, gaussSolveFn isZero absLt (dynStiff i w M B K) f = some d) :=
  ⟨fun d h => gaussSolve_spec isZero hz absLt _ f d h,
   fun hdet => by
    obtain ⟨x, hx, _⟩ := gaussSolve_complete isZero hz absLt h1 h2 (dynStiff i w M B K) f hdet
    exact ⟨x, hx⟩⟩

/-- `direct_eq_modal` resting on the proved solver: `M⁻¹f` (`lu_solve(invm, …)`) and the direct
solution (`la.solve(Hi, …)`) are both computed by `gaussSolveFn`; only the eigen-decomposition
relations remain hypotheses. -/
theorem direct_eq_modal_gauss {n s : Nat} (isZero : α → Bool) (hz : ∀ x, isZero x = true ↔ x = 0)
    (absLt : α → α → Bool)
    (h1 : ∀ a b : α, absLt a b = true → b ≠ 0) (h2 : ∀ b : α, b ≠ 0 → absLt 0 b = true)
    (i w : α) (M B K : Fin n → Fin n → α)
    (lam : Fin s → α) (Uv Ud : Fin n → Fin s → α) (Wv : Fin s → Fin n → α) (f : Fin n → α)
    (hdetM : (of M).det ≠ 0) (hdet : (of (dynStiff i w M B K)).det ≠ 0)
    (htop : of M * (of Uv * diagonal lam) + of B * of Uv + of K * of Ud = 0)
    (hbot : of Uv = of Ud * diagonal lam)
    (hU1 : of Uv * of Wv = 1) (hU2 : of Ud * of Wv = 0)
    (hH : ∀ j, i * w - lam j ≠ 0) (hi : i * i = -1) :
    ∃ g d, gaussSolveFn isZero absLt M f = some g ∧
      gaussSolveFn isZero absLt (dynStiff i w M B K) f = some d ∧
      d = frfCoupled i w lam Ud Wv g := by
  obtain ⟨g, hg, hgs, _⟩ := gaussSolve_complete isZero hz absLt h1 h2 M f hdetM
  obtain ⟨d, hd, hds, _⟩ := gaussSolve_complete isZero hz absLt h1 h2 (dynStiff i w M B K) f hdet
  exact ⟨g, d, hg, hd, direct_unique _ hdet _ _ f hds
    (frfCoupled_solves i w M B K lam Uv Ud Wv f g hgs htop hbot hU1 hU2 hH hi)⟩

/-! ### the hypotheses are inhabited, and the elimination computes -/

/-- `|a| < |b|` on `ℚ` meets the two pivot-comparison hypotheses -/
example : (∀ a b : ℚ, decide (|a| < |b|) = true → b ≠ 0) ∧
    (∀ b : ℚ, b ≠ 0 → decide (|(0:ℚ)| < |b|) = true) := by
  refine ⟨fun a b h hb => ?_, fun b hb => ?_⟩
  · subst hb
    simp only [abs_zero, decide_eq_true_eq] at h
    exact absurd h (not_lt.2 (abs_nonneg a))
  · simpa using hb

/-- pivoting is exercised: the first pivot candidate is `0`, the system `[[0,2],[3,1]] x = [2,5]`
is solved exactly, and a singular system is refused. -/
example :
    gaussList (fun x : ℚ => decide (x = 0)) (fun a b => decide (|a| < |b|)) 2
      [([0, 2], 2), ([3, 1], 5)] = some [4/3, 1] ∧
    gaussList (fun x : ℚ => decide (x = 0)) (fun a b => decide (|a| < |b|)) 2
      [([1, 2], 2), ([2, 4], 5)] = none := by
  constructor <;> decide +kernel

end gauss

end PyYetiVerif.C02
