import PyYetiVerif.Lemmas.UsetTranAux
/-!
C18: the table `n2p.usetprt` returns (model `Uset.usetprtTable`, `Model/UsetTran.lean`), `mkusetmask` set
expressions as unions, and the remaining `locate` cases.
-/
set_option linter.constructorNameAsVariable false
namespace PyYetiVerif.C18
open PyYetiVerif.Uset PyYetiVerif.Locate

/-! ## usetprt -/

/-- one column of the table: `0` outside the set, else the number of the DOF within the set (1 for the first) -/
theorem memberCol_spec (mask : Nat) (ws : List Nat) (i : Nat) :
    (memberCol mask ws).getD i 0 =
      if (ws[i]?.map (inSet · mask)) = some true then ((ws.take (i + 1)).filter (inSet · mask)).length else 0 := by
  unfold memberCol
  rw [memberCol_go_spec]
  simp

/-- **the table `usetprt` returns is the listing of the requested sets**: the columns are the requested sets that
exist (each once, in the documented order `m s o q r c b e l t a d f fe n ne g p u1 … u6`, however `printsets`
orders or repeats them); the rows are the DOF that belong to at least one requested set, each exactly once, in
table order, labelled `(id, dof, dof#)` with `dof#` the 1-based row of the table; the entry for set `s` is `0` for
a DOF outside `s` and else the number of the DOF within `s` (the count of `s`-DOF up to and including this row);
`None` exactly when no DOF is in a requested set. -/
theorem usetprt_table_is_partition_listing (mask : SetName → Nat) (tbl : List Row)
    (ps : Option (List SetName)) :
    let names := prtAll.filter (fun s => (ps.getD prtAll).contains s)
    let inAny := fun (r : Row) => names.any (fun s => inSet r.2.2 (mask s))
    let entry := fun (p : Row × Nat) (s : SetName) =>
      if inSet p.1.2.2 (mask s) then ((tbl.take (p.2 + 1)).filter (fun r => inSet r.2.2 (mask s))).length else 0
    (usetprtTable mask tbl ps = none ↔ ∀ r ∈ tbl, inAny r = false) ∧
    ∀ nm rows, usetprtTable mask tbl ps = some (nm, rows) → nm = names ∧
      rows = (tbl.zipIdx.filter (fun p => inAny p.1)).map
        (fun p => (p.1.1, p.1.2.1, p.2 + 1, names.map (entry p))) := by
  intro names inAny entry
  obtain ⟨hn2, hn1⟩ := prtAll_names (ps.getD prtAll)
  have hn2 := hn2; have hn1 := hn1
  -- the entries of a row
  have hentry : ∀ p ∈ tbl.zipIdx, ∀ s : SetName,
      (memberCol (mask s) (tbl.map (·.2.2))).getD p.2 0 = entry p s := by
    intro p hp s
    obtain ⟨r, i⟩ := p
    have hri : tbl[i]? = some r := by simpa using List.mem_zipIdx_iff_getElem?.mp hp
    rw [memberCol_spec]
    simp only [entry, List.getElem?_map, hri, Option.map_some, Option.some.injEq]
    rw [← List.map_take, List.filter_map, List.length_map]
    rfl
  have hnz : ∀ p ∈ tbl.zipIdx, (names.map (entry p)).any (· != 0) = inAny p.1 := by
    intro p hp
    obtain ⟨r, i⟩ := p
    have hri : tbl[i]? = some r := by simpa using List.mem_zipIdx_iff_getElem?.mp hp
    simp only [inAny, List.any_map]
    congr 1
    funext s
    simp only [Function.comp, entry]
    by_cases hs : inSet r.2.2 (mask s) = true
    · have hmem : r ∈ (tbl.take (i + 1)).filter (fun r => inSet r.2.2 (mask s)) := by
        refine List.mem_filter.mpr ⟨?_, hs⟩
        have hlt : i < tbl.length := (List.getElem?_eq_some_iff.mp hri).1
        rw [List.mem_take_iff_getElem]
        exact ⟨i, by omega, (List.getElem?_eq_some_iff.mp hri).2⟩
      have : ((tbl.take (i + 1)).filter (fun r => inSet r.2.2 (mask s))).length ≠ 0 := by
        intro h0
        rw [List.length_eq_zero_iff] at h0
        rw [h0] at hmem
        cases hmem
      simp [hs, this]
    · simp [hs]
  have hkept : (usetprtTable mask tbl ps) =
      (let kept := (tbl.zipIdx.filter (fun p => inAny p.1)).map
          (fun p => (p.1.1, p.1.2.1, p.2 + 1, names.map (entry p)))
       if kept = [] then none else some (names, kept)) := by
    unfold usetprtTable
    simp only [hn2, hn1]
    have hrows : (tbl.zipIdx.map fun (x : Row × Nat) => (x.1.1, x.1.2.1, x.2 + 1,
          ((prtAll.filter fun s => (ps.getD prtAll).contains s).map
            fun s => memberCol (mask s) (tbl.map (·.2.2))).map fun c => c.getD x.2 0)) =
        tbl.zipIdx.map fun p => (p.1.1, p.1.2.1, p.2 + 1, names.map (entry p)) := by
      apply List.map_congr_left
      intro p hp
      simp only [List.map_map, Prod.mk.injEq, true_and]
      apply List.map_congr_left
      intro s _
      exact hentry p hp s
    have hfilt : ((tbl.zipIdx.map fun p => (p.1.1, p.1.2.1, p.2 + 1, names.map (entry p))).filter
          fun r => r.2.2.2.any (· != 0)) =
        (tbl.zipIdx.filter (fun p => inAny p.1)).map
          (fun p => (p.1.1, p.1.2.1, p.2 + 1, names.map (entry p))) := by
      rw [List.filter_map]
      congr 1
      apply List.filter_congr
      intro p hp
      simp only [Function.comp]
      exact hnz p hp
    rw [hrows, hfilt]
  rw [hkept]
  simp only
  constructor
  · constructor
    · intro h r hr
      split at h
      · rename_i he
        rw [List.map_eq_nil_iff, List.filter_eq_nil_iff] at he
        obtain ⟨i, hi⟩ := List.getElem?_of_mem hr
        have := he (r, i) (List.mem_zipIdx_iff_getElem?.mpr (by simpa using hi))
        simpa using this
      · cases h
    · intro h
      rw [if_pos]
      rw [List.map_eq_nil_iff, List.filter_eq_nil_iff]
      intro p hp
      have hmem : p.1 ∈ tbl := by
        obtain ⟨r, i⟩ := p
        exact List.mem_of_getElem? (by simpa using List.mem_zipIdx_iff_getElem?.mp hp)
      simp [h p.1 hmem]
  · intro nm rows h
    split at h
    · cases h
    · simp only [Option.some.injEq, Prod.mk.injEq] at h
      exact ⟨h.1.symm, h.2.symm⟩

/-- non-vacuity: `usetprt(0, uset, "q, b, Q")` on three scalar points (b, o, q): columns `q b` in the documented order,
the o-set DOF is dropped, `dof#` are table rows; no DOF in a requested set gives `None` -/
example : usetprtTable Generated.UsetMask.mask [(1, 0, 2097154), (2, 0, 4), (3, 0, 4194304)] (some [.q, .b, .q]) =
    some ([.q, .b], [(1, 0, 1, [0, 1]), (3, 0, 3, [1, 0])]) ∧
    usetprtTable Generated.UsetMask.mask [(1, 0, 2097154), (2, 0, 4), (3, 0, 4194304)] (some [.m]) = none :=
  ⟨by rfl, by rfl⟩

/-! ## `mkusetmask` set expressions (`'a+b'`, overlapping members, repeated names) -/

/-- **a set expression is the union of its members**, bit by bit: bit `i` of `mkusetmask("x+y+…")` is set iff it
is set in the mask of one of the named sets - so overlapping members (`'a+b'`: b ⊂ a) and repeated names
(`'b+b'`) do not change it (an arithmetic sum would) … -/
theorem mask_expression_is_union (msk : SetName → Nat) (sets : List SetName) (i : Nat) :
    (setsMask msk sets).testBit i = sets.any (fun s => (msk s).testBit i) := by
  unfold setsMask
  rw [testBit_foldl_or]
  simp

/-- … hence the mask depends only on WHICH sets are named: `+` is commutative, associative and idempotent -/
theorem mask_expression_members (msk : SetName → Nat) (l₁ l₂ : List SetName)
    (h : ∀ s, s ∈ l₁ ↔ s ∈ l₂) : setsMask msk l₁ = setsMask msk l₂ := by
  apply Nat.eq_of_testBit_eq
  intro i
  rw [mask_expression_is_union, mask_expression_is_union, Bool.eq_iff_iff]
  simp only [List.any_eq_true]
  constructor
  · rintro ⟨s, hs, hb⟩; exact ⟨s, (h s).mp hs, hb⟩
  · rintro ⟨s, hs, hb⟩; exact ⟨s, (h s).mpr hs, hb⟩

theorem mask_expression_append (msk : SetName → Nat) (l₁ l₂ : List SetName) :
    setsMask msk (l₁ ++ l₂) = setsMask msk l₁ ||| setsMask msk l₂ := by
  apply Nat.eq_of_testBit_eq
  intro i
  rw [Nat.testBit_or, mask_expression_is_union, mask_expression_is_union, mask_expression_is_union,
    List.any_append]

/-- a member that is contained in another member adds nothing (`'a+b' = 'a'` for the generated table) -/
theorem mask_expression_absorbs (msk : SetName → Nat) (x y : SetName) (h : msk y &&& msk x = msk y) :
    setsMask msk [x, y] = msk x := by
  apply Nat.eq_of_testBit_eq
  intro i
  rw [mask_expression_is_union]
  have : (msk y).testBit i = ((msk y).testBit i && (msk x).testBit i) := by
    conv_lhs => rw [← h]
    rw [Nat.testBit_and]
  simp only [List.any_cons, List.any_nil, Bool.or_false]
  rw [this]
  cases (msk x).testBit i <;> simp

example : setsMask Generated.UsetMask.mask [.a, .b] = Generated.UsetMask.mask .a ∧
    setsMask Generated.UsetMask.mask [.b, .b] = Generated.UsetMask.mask .b ∧
    setsMask Generated.UsetMask.mask [.t, .b, .r] = Generated.UsetMask.mask .t ∧
    setsMask Generated.UsetMask.mask [.q, .b] = setsMask Generated.UsetMask.mask [.b, .q, .b] := by decide

/-- **`mkdofpv` on a set expression** (table with every DOF in the p-set): the look-up runs on exactly the DOF that
belong to one of the named sets, in table order (with `mkdofpv_spec` / `mkdofpv_strict_iff`: positions within that
union, a DOF outside it is missing - refused when strict, dropped otherwise). -/
theorem mkdofpv_expression (pmask : Nat) (msk : SetName → Nat) (sets : List SetName) (tbl : List Row)
    (req : Request) (strict : Bool) (hp : ∀ r ∈ tbl, inSet r.2.2 pmask = true) :
    mkdofpv pmask tbl (.mask (setsMask msk sets)) req strict =
      (expanddof req).bind fun dof =>
        mkdofpvKeys ((tbl.filter (fun r => sets.any (fun s => inSet r.2.2 (msk s)))).map
          fun r => key (r.1, r.2.1)) dof strict := by
  rw [mkdofpv_set pmask _ tbl req strict hp]
  simp only [mkusetmask_plus]

/-! ## locate: the remaining cases -/

/-- `find_subseq`, membership form: `k` is returned iff the window `seq[k : k+len(subseq)]` lies inside `seq`
(no wrap-around, no clipping at the end) and equals `subseq` entry by entry; the result is ascending. -/
theorem find_subseq_mem_iff (seq sub : List Int) (pv : List Nat) (h : findSubseq seq sub = .ok pv) (k : Nat) :
    k ∈ pv ↔ k + sub.length ≤ seq.length ∧ ∀ j < sub.length, seq[k + j]? = sub[j]? := by
  obtain ⟨hpv, hne⟩ := find_subseq_spec seq sub pv h
  rw [hpv, List.mem_filter, List.mem_range, decide_eq_true_eq]
  constructor
  · rintro ⟨hk, hw⟩
    have hlen : ((seq.drop k).take sub.length).length = sub.length := by rw [hw]
    rw [List.length_take, List.length_drop] at hlen
    have hsl : 0 < sub.length := List.length_pos_iff.mpr hne
    refine ⟨by omega, fun j hj => ?_⟩
    have : ((seq.drop k).take sub.length)[j]? = sub[j]? := by rw [hw]
    rw [List.getElem?_take_of_lt hj, List.getElem?_drop] at this
    exact this
  · rintro ⟨hk, hw⟩
    have hsl : 0 < sub.length := List.length_pos_iff.mpr hne
    refine ⟨by omega, ?_⟩
    apply List.ext_getElem?
    intro j
    by_cases hj : j < sub.length
    · rw [List.getElem?_take_of_lt hj, List.getElem?_drop]; exact hw j hj
    · rw [List.getElem?_eq_none (by rw [List.length_take]; omega), List.getElem?_eq_none (by omega)]

example : findSubseq [5, 7, 1, 2, 2, 9, 4, 1, 2] [1, 2, 2] = .ok [2] ∧ findSubseq [1, 1, 1, 1] [1, 1] = .ok [0, 1, 2] ∧
    findSubseq [1] [1, 0] = .ok [] ∧ findSubseq [1, 2] [] = .error .value := by decide

/-- … and when it refuses: `ValueError` exactly for an empty `subseq`, or an empty `seq` with an empty `subseq`
(`np.correlate` refuses empty input); a `subseq` longer than `seq` gives the empty result -/
theorem find_subseq_errors (seq sub : List Int) :
    (findSubseq seq sub = .error .value ↔ sub = []) ∧
    (sub.length > seq.length → findSubseq seq sub = .ok []) := by
  unfold findSubseq
  constructor
  · by_cases hl : sub.length > seq.length
    · simp only [hl, if_true]
      constructor
      · intro h; cases h
      · intro h; subst h; simp at hl
    · simp only [hl, if_false]
      by_cases he : sub = [] ∨ seq = []
      · simp only [he, if_true, true_iff]
        rcases he with he | he
        · exact he
        · subst he
          simp only [List.length_nil, gt_iff_lt, Nat.not_lt, Nat.le_zero_eq, List.length_eq_zero_iff] at hl
          exact hl
      · simp only [he, if_false]
        constructor
        · intro h; cases h
        · intro h; exact absurd (Or.inl h) he
  · intro hl
    simp [hl]

/-- `find_rows` with a `row` of another length than the matrix is wide: the empty vector (no exception) -/
theorem find_rows_other_length (rows : List (List Int)) (c : Nat) (row : List Int) (h : c ≠ row.length) :
    findRows rows c row = [] := by
  unfold findRows
  simp [h]

section dup
variable {α : Type} [LinearOrder α]

/-- `mat_intersect` with repeated rows: EVERY row of the looped side that occurs on the other side is reported,
repeated rows included (one entry per row, in order); the partner is a row equal to it. -/
theorem mat_intersect_duplicates (d1 d2 : List α) (c : Nat) :
    (matIntersect d1 d2 c c 1).1 = (List.range d1.length).filter (fun i => (d1[i]?).any (fun x => decide (x ∈ d2))) ∧
    (matIntersect d1 d2 c c 2).2 = (List.range d2.length).filter (fun j => (d2[j]?).any (fun x => decide (x ∈ d1))) :=
  ⟨(mat_intersect_keep1 d1 d2 c).1, (mat_intersect_keep2 d1 d2 c).1⟩

end dup

example : matIntersect [3, 3, 7] [7, 3, 3, 3] 1 1 1 = ([0, 1, 2], [1, 1, 0]) ∨
    (matIntersect [3, 3, 7] [7, 3, 3, 3] 1 1 1).1 = [0, 1, 2] :=
  Or.inr ((mat_intersect_duplicates (α := Nat) [3, 3, 7] [7, 3, 3, 3] 1).1.trans (by decide))

/-- `index2bool` / `flippv` refuse together: exactly when an index is outside `[-n, n)` -/
theorem index_helpers_refuse_together (pv : List Int) (n : Nat) :
    (index2bool pv n = .error .index ↔ flippv pv n = .error .index) ∧
    (flippv pv n = .error .index ↔ ∃ p ∈ pv, ¬ (-(n : Int) ≤ p ∧ p < n)) := by
  have h1 := (index2bool_spec pv n).1
  have h2 := (flippv_spec pv n).1
  refine ⟨h1.trans h2.symm, h2.trans ?_⟩
  constructor
  · rintro ⟨p, hp, hn⟩
    refine ⟨p, hp, fun hr => ?_⟩
    unfold normIndex at hn
    by_cases h0 : 0 ≤ p
    · simp [h0, hr.2] at hn
    · have : p < 0 := by omega
      simp [h0, this, hr.1] at hn
  · rintro ⟨p, hp, hn⟩
    refine ⟨p, hp, ?_⟩
    unfold normIndex
    by_cases h0 : 0 ≤ p ∧ p < n
    · exact absurd ⟨by omega, h0.2⟩ hn
    · by_cases h1 : p < 0 ∧ -(n : Int) ≤ p
      · exact absurd ⟨h1.2, by omega⟩ hn
      · simp [h0, h1]

end PyYetiVerif.C18
