import PyYetiVerif.Props.C18Tran
import PyYetiVerif.Lemmas.UsetTranM2
/-!
C18, `n2p.formtran`: the rows of m-set DOF over a semiring - "composing the set transforms equals the direct
transform": with `u_t`, `u_q` the a-set values, `u_o = GOT u_t + GOQ u_q`, `u_s = 0`, the row that `formtran`
returns for an m-set DOF with GM row `g` is `g[t_n] + g[o_n]·GOT` at the t-columns and `g[o_n]·GOQ + g[q_n]` at the
q-columns, i.e. `u_m = GM u_n` written over the a-set.
-/
set_option linter.constructorNameAsVariable false
set_option linter.unusedSectionVars false
namespace PyYetiVerif.C18
open PyYetiVerif.Uset PyYetiVerif.Locate

section
variable {κ : Type} [LinearOrder κ] (mkKey : Nat → Nat → κ)
variable {α : Type} [Semiring α] [DecidableEq α]

/-- **formtran, m-set rows = GM composed with the n-set transform** (general path, entries in a semiring, `got` /
`goq` with rows of their declared width): every requested DOF is answered by `TranRow` (`formtran_partition_identity`),
and when it is an m-set DOF - row `k` of the m-set block, belonging to GM row `i` - its row is `MRow` of that GM row:
`g[t_n] + g[o_n]·GOT` at the t-columns, `g[o_n]·GOQ + g[q_n]` at the q-columns, zero elsewhere. -/
theorem formtran_mset_composition (mk : Masks) (tbl : List Row) (got goq gm : Option (M α)) (req : Request)
    (out : M α) (dof : List (Nat × Nat)) (pvdof : List Nat) (a : List Bool) (t_a q_a : List Nat)
    (h : formtranUp mkKey mk tbl got goq gm req = .ok (out, dof))
    (hpv : mkdofpv mk.p tbl (.mask mk.g) req true = .ok (pvdof, dof))
    (ha : mksetpv (tbl.map (·.2.2)) mk.g mk.a = .ok a)
    (hgen : pvdof.all (fun i => a[i]? == some true) = false)
    (hta : setPos tbl mk.a mk.t = .ok t_a) (hqa : setPos tbl mk.a mk.q = .ok q_a)
    (hdis : ∀ c ∈ t_a, c ∉ q_a)
    (hgotw : ∀ g, got = some g → ∀ r ∈ g.r, r.length = g.c)
    (hgoqw : ∀ g, goq = some g → ∀ r ∈ g.r, r.length = g.c) :
    ∃ (idg : List κ) (t o m q s : List Nat) (gotM goqM : M α) (pvm : List Nat) (mRows : List (List α)),
      iddofG mkKey mk tbl = .ok idg ∧
      List.Forall₂ (fun d row => ∃ p, idg[p]? = some (mkKey d.1 d.2) ∧
        TranRow (gotM.c + goqM.c) t o m q s t_a q_a gotM goqM pvm mRows p row ∧
        ∀ (i k : Nat), m[i]? = some p → pvm[k]? = some i → mRows[k]? = some row →
          ∃ (gmM : M α) (g : List α) (t_n o_n q_n : List Nat), gm = some gmM ∧ gmM.r[i]? = some g ∧
            setPos tbl mk.n mk.t = .ok t_n ∧ setPos tbl mk.n mk.o = .ok o_n ∧ setPos tbl mk.n mk.q = .ok q_n ∧
            MRow gotM.c goqM.c t_a q_a t_n o_n q_n gotM goqM g row) dof out.r := by
  obtain ⟨idg, t, o, m, q, s, gotM, goqM, pvm, mRows, hidg, _, _, _, _, hmset, hg1, hg2, hg10, hg20, _, hall⟩ :=
    formtran_partition_identity mkKey mk tbl got goq gm req out dof pvdof a t_a q_a h hpv ha hgen hta hqa hdis
  refine ⟨idg, t, o, m, q, s, gotM, goqM, pvm, mRows, hidg, hall.imp ?_⟩
  rintro d row ⟨p, hp, hT⟩
  refine ⟨p, hp, hT, ?_⟩
  intro i k _ hik hrow
  have hne : mRows ≠ [] := by
    intro he; rw [he] at hrow; simp at hrow
  obtain ⟨_, gmM, gmSel, t_n, o_n, q_n, hgm, hsel, h1, h2, h3, hmB⟩ := hmset hne
  have hgotr : ∀ r ∈ gotM.r, r.length = gotM.c := by
    cases hgot : got with
    | none => exact hg10 hgot
    | some g => rw [hg1 g hgot]; exact hgotw g hgot
  have hgoqr : ∀ r ∈ goqM.r, r.length = goqM.c := by
    cases hgoq : goq with
    | none => exact hg20 hgoq
    | some g => rw [hg2 g hgoq]; exact hgoqw g hgoq
  have hnt : t_a.Nodup := by
    unfold setPos at hta
    cases hm : mksetpv (tbl.map (·.2.2)) mk.a mk.t with
    | error e => rw [hm] at hta; cases hta
    | ok l =>
        rw [hm] at hta
        simp only [Except.map, liftE, Except.ok.injEq] at hta
        rw [← hta]
        exact (positions_sorted l).imp (fun h => Nat.ne_of_lt h)
  have hnq : q_a.Nodup := by
    unfold setPos at hqa
    cases hm : mksetpv (tbl.map (·.2.2)) mk.a mk.q with
    | error e => rw [hm] at hqa; cases hqa
    | ok l =>
        rw [hm] at hqa
        simp only [Except.map, liftE, Except.ok.injEq] at hqa
        rw [← hqa]
        exact (positions_sorted l).imp (fun h => Nat.ne_of_lt h)
  have hM := mBlock_spec hmB hgotr hgoqr hnt hnq hdis
  obtain ⟨g, hg, hMRow⟩ := forall₂_getElem?' hM k row hrow
  obtain ⟨g', hg', hsel'⟩ := forall₂_getElem? hsel k i hik
  rw [hg] at hg'
  simp only [Option.some.injEq] at hg'
  subst hg'
  exact ⟨gmM, g, t_n, o_n, q_n, hgm, hsel', h1, h2, h3, hMRow⟩

end
/-! ## non-vacuity: scalar points 1 (b), 2 (o), 3 (q), 4 (m); `got = [[2]]`, `goq = [[3]]`, `gm = [[1, 1, 1]]` -/

section examples
open PyYetiVerif.Generated.UsetMask
set_option linter.unusedSimpArgs false

def exTblM : List Row := [(1, 0, 2097154), (2, 0, 4), (3, 0, 4194304), (4, 0, 1)]

/-- the m-set DOF `(4, 0)`: `u_m = u_t + u_o + u_q` with `u_o = 2 u_t + 3 u_q`, i.e. the row `[1 + 2, 3 + 1]`; the
hypotheses of `formtran_mset_composition` hold together -/
example : formtranUp (α := Int) exKey exMasks exTblM (some ⟨[[2]], 1⟩) (some ⟨[[3]], 1⟩) (some ⟨[[1, 1, 1]], 3⟩)
      (.rows [(4, 0), (2, 0)]) = .ok (⟨[[3, 4], [2, 3]], 2⟩, [(4, 0), (2, 0)]) ∧
    mkdofpv exMasks.p exTblM (.mask exMasks.g) (.rows [(4, 0), (2, 0)]) true = .ok ([3, 1], [(4, 0), (2, 0)]) ∧
    mksetpv (exTblM.map (·.2.2)) exMasks.g exMasks.a = .ok [true, false, true, false] ∧
    ([3, 1] : List Nat).all (fun i => [true, false, true, false][i]? == some true) = false ∧
    setPos exTblM exMasks.a exMasks.t = .ok [0] ∧ setPos exTblM exMasks.a exMasks.q = .ok [1] := by
  simp [formtranUp, formtranUpWith, upSelectWith, procMsetWith, iddofG, rowsOfMask, mkdofpv, mksetpv, expanddof, expanddof2, expandRow, digits, digitsRev, mkdofpvKeys, argsort,
    lookup, searchsortedLeft, key, List.mergeSort, List.zipIdx, List.MergeSort.Internal.splitInTwo,
    exMasks, Masks.ofTable, exTblM, mask, v_p, v_g, v_n, v_f, v_a, v_q, v_r, v_b, v_c, v_o, v_s, v_m, v_e, v_l, v_t,
    inSet, liftE, setPos, positions, upSelect, selSet, selIn, takeIdx, matIntersect, lookupAll, iddofOf, dofRows, exKey,
    procMset, upBlocks, eyeBlock, oBlock, mBlock, colsAt, anyCols, dot, addM, rowComb, addRow, smulRow,
    scatterRows, setCols, rowsAt, unitRow, zeroRow, reorder, UpSel.sets,
    bind, Except.bind, pure, Except.pure, Except.map, List.mapM_cons, List.mapM_nil]

/-- `exTblM` behind an extra point (e-set: in the p-set, not in the g-set) -/
def exTblMx : List Row := (9, 0, 2048) :: exTblM

/-- the request `[(4, 0), (2, 0)]` with the extra point in front: the answer is the one on the table without the point
(before fix e74e9b9 of finding F69: `RuntimeError`, the g-set positions indexed the whole table) -/
example : formtranUp (α := Int) exKey exMasks exTblMx (some ⟨[[2]], 1⟩) (some ⟨[[3]], 1⟩) (some ⟨[[1, 1, 1]], 3⟩)
      (.rows [(4, 0), (2, 0)]) = .ok (⟨[[3, 4], [2, 3]], 2⟩, [(4, 0), (2, 0)]) := by
  simp [formtranUp, formtranUpWith, upSelectWith, procMsetWith, iddofG, rowsOfMask, mkdofpv, mksetpv, expanddof, expanddof2, expandRow, digits, digitsRev, mkdofpvKeys, argsort,
    lookup, searchsortedLeft, key, List.mergeSort, List.zipIdx, List.MergeSort.Internal.splitInTwo,
    exMasks, Masks.ofTable, exTblMx, exTblM, mask, v_p, v_g, v_n, v_f, v_a, v_q, v_r, v_b, v_c, v_o, v_s, v_m, v_e, v_l, v_t,
    inSet, liftE, setPos, positions, upSelect, selSet, selIn, takeIdx, matIntersect, lookupAll, iddofOf, dofRows, exKey,
    procMset, upBlocks, eyeBlock, oBlock, mBlock, colsAt, rowsAt, anyCols, dot, addM, rowComb, addRow, smulRow,
    scatterRows, setCols, unitRow, zeroRow, reorder, UpSel.sets,
    bind, Except.bind, pure, Except.pure, Except.map, List.mapM_cons, List.mapM_nil]

end examples

end PyYetiVerif.C18
