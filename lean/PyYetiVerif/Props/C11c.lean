import PyYetiVerif.Lemmas.Op4VariantsAsciiLoop
import PyYetiVerif.Lemmas.Op4AsciiPuts
/-!
# C11 (continued) — ASCII OUTPUT4: skipping = reading, listings = reads, named subset = filter

Property theorems only.  The ASCII reader model is C04's (`Model/Op4Ascii.lean`, namespace `Op4A`, imported
read-only): `rdMatrixA` / `rdFileA` / `loadAscii` transcribe `_loadop4_ascii` with `_rd_dense_ascii`,
`_rd_bigmat_ascii`, `_rd_nonbigmat_ascii`; `skipCols` / `dirA` / `dirAscii` transcribe `_skipop4_ascii` and `dir`.
`Model/Op4VariantsAscii.lean` adds the name-list loop (`loadLoopA`, `loadAsciiNamed`).

The theorems here involve NO encoder: they hold on **every** text on which the reader model succeeds — E or D
exponents, any announced `nEw.d`, with or without `1P,`, `|I16` headers, any partition of the columns into
strings, files written by Nastran, by pyYeti or by anything else.  (That the reader succeeds on every file
pyYeti's writer produces is C04's `file_roundtrip_ascii` = `Op4A.loadAscii_enc`; `dir_matches_load_ascii_written` combines the two.)
-/
namespace PyYetiVerif.C11
open PyYetiVerif.Op4 (Layout Mat checkName)
open PyYetiVerif.Op4A PyYetiVerif.Op4VA

/-- **skip_positions_ascii.**  Whenever `_loadop4_ascii` reads a matrix `d` from the lines `ls` and leaves the
lines `rest`, the listing step — title line, `_skipop4_ascii(perline, rows, cols, mtype)`, the closing
`readline()` — accepts the same lines and leaves exactly `rest`: skipper and reader consume the same lines; and
the header it reports is the header of `d`. -/
theorem skip_positions_ascii (dformat : Bool) (ls : List Str) (d : ADec) (rest : List Str)
    (h : rdMatrixA dformat ls = some (some (d, rest))) :
    ∃ hd, skipMatrixA ls = some (some (hd, rest)) ∧ listingH hd = listingA d ∧ hd.name = d.rawName :=
  skipMatrixA_of_rdMatrixA dformat ls d rest h

/-- the listing step is what `dir` iterates -/
theorem dir_is_iterated_skip (fuel : Nat) (ls : List Str) :
    dirA (fuel + 1) ls = (match skipMatrixA ls with
      | none => none
      | some none => some []
      | some (some (h, rest)) => (dirA fuel rest).map (listingH h :: ·)) :=
  dirA_succ fuel ls

/-- **dir_matches_load_ascii.**  On every ASCII text on which `op4.load` succeeds, `op4.dir` succeeds and lists,
in order, exactly the name field, `|rows|`, columns, form and type of the matrices `load` returns. -/
theorem dir_matches_load_ascii (cs : Str) (ds : List ADec) (h : loadAscii cs = some ds) :
    dirAscii cs = some (ds.map listingA) := by
  unfold loadAscii at h
  unfold dirAscii
  split at h
  · next ha =>
    rw [if_pos ha]
    exact dirA_of_rdFileA _ _ _ ds h
  · cases h

/-- **named_subset_is_filter (OUTPUT4 ASCII).**  On every ASCII text on which the full read succeeds with `ds`,
`load(file, namelist=pl, into='list')` returns exactly those matrices of `ds` whose name — `_check_name` of the
name field, the counter being the position in the file — passes the name test `skipped pl name = false`
(list membership, i.e. exact equality: `namelist_test_exact` in Props/C11b.lean), in file order, keeping every
occurrence of a repeated name. -/
theorem named_subset_is_filter_ascii (pl : List (List Nat)) (cs : Str) (ds : List ADec) (h : loadAscii cs = some ds) :
    loadAsciiNamed pl cs = some ((namedFrom 0 ds).filter fun p => !Op4VR.skipped pl p.1) := by
  unfold loadAscii at h
  unfold loadAsciiNamed
  split at h
  · next ha =>
    rw [if_pos ha]
    exact loadLoopA_of_rdFileA _ pl _ 0 _ ds h
  · cases h

/-- the two theorems above apply to every file pyYeti's ASCII writer produces (C04's `file_roundtrip_ascii`
gives the successful read): `dir` lists what `load` returns -/
theorem dir_matches_load_ascii_written (d : Nat) (hd : 1 ≤ d) (hd' : d ≤ 73) (ms : List (Layout × Mat)) (hne : ms ≠ [])
    (hok : ∀ p ∈ ms, PyYetiVerif.Op4A.MatOK d p) :
    ∃ ds, loadAscii (PyYetiVerif.Op4.encFileAscii d ms) = some ds ∧
      dirAscii (PyYetiVerif.Op4.encFileAscii d ms) = some (ds.map listingA) := by
  have hp : 1 ≤ PyYetiVerif.Op4.perline d := by
    unfold PyYetiVerif.Op4.perline PyYetiVerif.Op4.numlen PyYetiVerif.Generated.Op4Consts.numlenBase PyYetiVerif.Op4.expdigits
      PyYetiVerif.Generated.Op4Consts.lineWidth
    exact (Nat.le_div_iff_mul_le (by omega)).2 (by omega)
  obtain ⟨ds, h, _⟩ := PyYetiVerif.Op4A.loadAscii_enc d hd hp ms hne hok
  exact ⟨ds, h, dir_matches_load_ascii _ ds h⟩

/-! ### non-vacuity: a two-matrix text (D exponents; dense, then bigmat with two strings and a negative row count) on which the
reader succeeds; its listing; the named read -/

def exText : Str :=
  ("       2       2       2       2A       1P,3E23.16\n" ++
   "       1       1       2\n" ++
   " 1.0000000000000000D+00 2.0000000000000000D+00\n" ++
   "       3       1       1\n" ++
   " 1.0000000000000000D+00\n" ++
   "       1      -4       2       2BB      1P,2D12.4\n" ++
   "       1       0       7\n" ++
   "       3       1\n" ++
   "  5.0000D-01\n" ++
   "       3       4\n" ++
   "  2.5000D+00\n" ++
   "       2       1       1\n" ++
   "  1.0000D+00\n").toList

example : (loadAscii exText).map (fun ds => ds.map fun d => (d.layout, d.puts.length)) =
    some [(Layout.dense, 1), (Layout.bigmat, 2)] := by decide +kernel

example : dirAscii exText = some [("A       ".toList, 2, 2, 2, 2), ("BB      ".toList, 4, 1, 2, 2)] := by
  decide +kernel

example : (loadAsciiNamed ["bb".toList.map Char.toNat] exText).map (fun l => l.map (·.1)) =
    some ["bb".toList.map Char.toNat] ∧
    (loadAsciiNamed ["b".toList.map Char.toNat] exText).map (fun l => l.map (·.1)) = some [] := by
  decide +kernel

end PyYetiVerif.C11
