import PyYetiVerif.Lemmas.UsetTranAux
/-!
C18, `n2p._formtran_0` (the residual, `formtran(nas, 0, dof, gset)`; model `Uset.formtran0`): the three ways the
routine answers - selection from the g-set (`gset=True`, the code since fix 061ccd9), rows of `nas['phg'][0]`, or recovery from
`nas['pha'][0]` (a-set rows, m-set rows through GM, zero s-set rows).
-/
set_option linter.constructorNameAsVariable false
set_option linter.unusedSectionVars false
namespace PyYetiVerif.C18
open PyYetiVerif.Uset PyYetiVerif.Locate

section formtran0
variable {κ : Type} [LinearOrder κ] (mkKey : Nat → Nat → κ)
variable {α : Type} [Add α] [Mul α] [OfNat α 0] [OfNat α 1] [DecidableEq α]

/-- **`gset=True`** (the code since fix 061ccd9, finding F68): row `k` is the unit vector at the position of requested
DOF `k` within the g-set - for EVERY request, also when a DOF is requested more than once - and the columns are the
g-set DOF. -/
theorem formtran0_gset (mk : Masks) (tbl : List Row) (phg pha gm : Option (M α)) (req : Request)
    (out : M α) (dof : List (Nat × Nat)) (pvdof ng : List Nat)
    (h : formtran0 mkKey mk tbl phg pha gm req true = .ok (out, dof))
    (hpv : mkdofpv mk.p tbl (.mask mk.g) req true = .ok (pvdof, dof))
    (hng : setPos tbl mk.p mk.g = .ok ng) :
    out.c = ng.length ∧ out.r = pvdof.map (fun c => unitRow ng.length c) ∧ ∀ c ∈ pvdof, c < ng.length := by
  unfold formtran0 formtran0With at h
  rw [hpv] at h
  obtain ⟨pd, hpd, h⟩ := bind_ok h
  cases liftE_ok hpd
  simp only [if_true] at h
  rw [hng] at h
  obtain ⟨ng', hng', h⟩ := bind_ok h
  cases hng'
  split at h
  · cases h
  · rename_i hr
    simp only [Except.ok.injEq, Prod.mk.injEq] at h
    obtain ⟨rfl, _⟩ := h
    refine ⟨rfl, rfl, fun c hc => ?_⟩
    by_contra hge
    exact hr (List.any_eq_true.mpr ⟨c, hc, by simpa using hge⟩)

/-- the input of finding F68 on the repaired model: one scalar point requested twice gets its unit row twice (the
code before the fix answered `[[0], [1]]`: `tran[:, [0, 0]] = np.eye(2)`, the later column assignment wins) -/
example : formtran0 (α := Int) (fun i d => i * 10 + d) (Masks.ofTable Generated.UsetMask.mask) [(7, 0, 4194304)]
      none none none (.rows [(7, 0), (7, 0)]) true = .ok (⟨[[1], [1]], 1⟩, [(7, 0), (7, 0)]) ∧
    scatterRows (α := Int) 1 [0, 0] [unitRow 2 0, unitRow 2 1] = .ok [[0], [1]] := by
  constructor
  · simp [formtran0, formtran0With, procMsetWith, iddofG, rowsOfMask, mkdofpv, mksetpv, expanddof, expanddof2, expandRow, digits, digitsRev, mkdofpvKeys, argsort,
      lookup, searchsortedLeft, key, List.mergeSort, List.zipIdx, List.MergeSort.Internal.splitInTwo,
      Masks.ofTable, Generated.UsetMask.mask, Generated.UsetMask.v_p, Generated.UsetMask.v_g, Generated.UsetMask.v_n,
      Generated.UsetMask.v_f, Generated.UsetMask.v_a, Generated.UsetMask.v_q, Generated.UsetMask.v_r,
      Generated.UsetMask.v_b, Generated.UsetMask.v_c, Generated.UsetMask.v_o, Generated.UsetMask.v_s,
      Generated.UsetMask.v_m, Generated.UsetMask.v_e, Generated.UsetMask.v_l, Generated.UsetMask.v_t,
      inSet, liftE, setPos, positions, unitRow, bind, Except.bind, pure, Except.pure, Except.map]
  · decide

/-- **`nas['phg'][0]` available** (and `gset=False`): row `k` is the row of `phg` at the position of requested DOF
`k` within the g-set -/
theorem formtran0_phg (mk : Masks) (tbl : List Row) (ph : M α) (pha gm : Option (M α)) (req : Request)
    (out : M α) (dof : List (Nat × Nat)) (pvdof : List Nat)
    (h : formtran0 mkKey mk tbl (some ph) pha gm req false = .ok (out, dof))
    (hpv : mkdofpv mk.p tbl (.mask mk.g) req true = .ok (pvdof, dof)) :
    out.c = ph.c ∧ List.Forall₂ (fun i row => ph.r[i]? = some row) pvdof out.r := by
  unfold formtran0 formtran0With at h
  rw [hpv] at h
  obtain ⟨pd, hpd, h⟩ := bind_ok h
  cases liftE_ok hpd
  simp only [Bool.false_eq_true, if_false] at h
  obtain ⟨r, hr, h⟩ := bind_ok h
  simp only [Except.ok.injEq, Prod.mk.injEq] at h
  obtain ⟨rfl, _⟩ := h
  exact rowsAt_ok hr

/-- the rule by which the `pha` branch fills the row of the DOF `p`: the `pha` row of an a-set DOF, a row of
`gm[:, a_n] @ pha` for an m-set DOF, zero for an s-set DOF -/
def Tran0Row (a m s : List Nat) (pa : M α) (mRows : List (List α)) (p : Nat) (row : List α) : Prop :=
  (∃ (i : Nat), a[i]? = some p ∧ pa.r[i]? = some row) ∨
  (∃ (i : Nat), m[i]? = some p ∧ row ∈ mRows) ∨
  (∃ (i : Nat), s[i]? = some p ∧ row = zeroRow pa.c)

/-! ### the `[id, dof]` table of the g-set -/

/-- every row of the table is a g-set DOF (no extra points): the g-set table is the whole table -/
theorem iddofG_eq_iddofOf (mk : Masks) (tbl : List Row)
    (hg : ∀ r ∈ tbl, inSet r.2.2 mk.p = true ∧ inSet r.2.2 mk.g = true) :
    iddofG mkKey mk tbl = .ok (iddofOf mkKey tbl) := by
  unfold iddofG
  rw [mksetpv_all_true (by
    intro w hw
    obtain ⟨r, hr, rfl⟩ := List.mem_map.mp hw
    exact hg r hr)]
  simp only [liftE, bind, Except.bind, List.map_map, List.length_map, ne_eq, not_true_eq_false, if_false]
  have : (tbl.map ((fun _ => true) ∘ fun (x : Row) => x.2.2)) = tbl.map fun _ => true := rfl
  rw [this, rowsOfMask_all_true]

/-- **`iddof` (since fix e74e9b9 of finding F69) is the `[id, dof]` table of the g-set**: its `p`-th entry is the `[id, dof]` of the table row at the
`p`-th position of `np.nonzero(mksetpv(uset, "p", "g"))[0]` - the numbering `mkdofpv(uset, "g", …)` and
`mksetpv(uset, "g", x)` (the `a`, `m`, `s`, `t`, `o`, `q` of the routines) use -/
theorem iddofG_is_gset_rows (mk : Masks) (tbl : List Row) (idg : List κ) (h : iddofG mkKey mk tbl = .ok idg) :
    ∃ (gpos : List Nat) (rows : List Row), setPos tbl mk.p mk.g = .ok gpos ∧
      List.Forall₂ (fun i r => tbl[i]? = some r) gpos rows ∧ idg = rows.map fun r => mkKey r.1 r.2.1 := by
  unfold iddofG at h
  obtain ⟨pv, hpv, h⟩ := bind_ok h
  split at h
  · cases h
  · rename_i hlen
    simp only [Except.ok.injEq] at h
    refine ⟨positions pv, rowsOfMask tbl pv, ?_, ?_, h.symm⟩
    · unfold setPos
      rw [liftE_ok hpv]
      rfl
    · have := rowsOfMask_positions tbl pv 0 (by simpa using hlen)
      unfold positions
      exact this.imp fun i r ⟨j, hi, hj⟩ => by rw [hi, Nat.zero_add]; exact hj

/-- **only `nas['pha'][0]` available**: one row per requested DOF in request order, filled by
`Tran0Row` - the `pha` row of an a-set DOF, a row of `gm[:, a_n] @ pha` for an m-set DOF, zero for an s-set DOF - where
the position `p` that ties the requested DOF to its set is a position in `idg`, the `[id, dof]` table OF THE G-SET
(`iddofG`), the table `a`, `m`, `s` (positions within the g-set) refer to.  An o-set DOF in the request, or a GM that
depends on the o-set, is refused (`RuntimeError`, as documented). -/
theorem formtran0_pha (mk : Masks) (tbl : List Row) (pa : M α) (gm : Option (M α)) (req : Request)
    (out : M α) (dof : List (Nat × Nat)) (pvdof : List Nat)
    (h : formtran0 mkKey mk tbl none (some pa) gm req false = .ok (out, dof))
    (hpv : mkdofpv mk.p tbl (.mask mk.g) req true = .ok (pvdof, dof)) :
    ∃ (idg : List κ) (a m s : List Nat) (mRows : List (List α)),
      iddofG mkKey mk tbl = .ok idg ∧
      setPos tbl mk.g mk.a = .ok a ∧ setPos tbl mk.g mk.s = .ok s ∧
      (mRows ≠ [] → setPos tbl mk.g mk.m = .ok m) ∧ out.c = pa.c ∧
      List.Forall₂ (fun d row => ∃ p, idg[p]? = some (mkKey d.1 d.2) ∧
        Tran0Row a m s pa mRows p row) dof out.r := by
  unfold formtran0 formtran0With at h
  rw [hpv] at h
  obtain ⟨pd, hpd, h⟩ := bind_ok h
  cases liftE_ok hpd
  simp only [Bool.false_eq_true, if_false] at h
  obtain ⟨o, _, h⟩ := bind_ok h
  obtain ⟨idg, hidg, h⟩ := bind_ok h
  obtain ⟨vo, _, h⟩ := bind_ok h
  split at h
  · cases h
  · obtain ⟨a, ha, h⟩ := bind_ok h
    obtain ⟨pvdofa, _, h⟩ := bind_ok h
    obtain ⟨a', ha', h⟩ := bind_ok h
    obtain ⟨pm, hpm, h⟩ := bind_ok h
    obtain ⟨_, _, h⟩ := bind_ok h
    obtain ⟨s, hs, h⟩ := bind_ok h
    obtain ⟨pvdofs, _, h⟩ := bind_ok h
    obtain ⟨s', hs', h⟩ := bind_ok h
    obtain ⟨aRows, haR, h⟩ := bind_ok h
    obtain ⟨mRows, hmR, h⟩ := bind_ok h
    obtain ⟨o', ho', h⟩ := bind_ok h
    simp only [Except.ok.injEq, Prod.mk.injEq] at h
    obtain ⟨rfl, _⟩ := h
    have hfa := takeIdx_ok ha'
    have hfs := takeIdx_ok hs'
    obtain ⟨_, hfar⟩ := rowsAt_ok haR
    have hA : List.Forall₂ (fun p row => ∃ (i : Nat), a[i]? = some p ∧ pa.r[i]? = some row) a' aRows.r :=
      (forall₂_join hfa hfar).imp fun p row ⟨i, _, h1, h2⟩ => ⟨i, h1, h2⟩
    have hS : List.Forall₂ (fun p row => ∃ (i : Nat), s[i]? = some p ∧ row = zeroRow (α := α) pa.c) s'
        (s'.map fun _ => zeroRow pa.c) := by
      rw [List.forall₂_map_right_iff]
      apply forall₂_of_getElem? rfl
      intro k p p' hp hp'
      rw [hp] at hp'; simp only [Option.some.injEq] at hp'; subst hp'
      obtain ⟨i, _, hi⟩ := forall₂_getElem?' hfs k p hp
      exact ⟨i, hi, rfl⟩
    have tail : ∀ (m' m : List Nat) (mRows : List (List α)),
        (mRows ≠ [] → setPos tbl mk.g mk.m = .ok m) →
        List.Forall₂ (fun p row => ∃ (i : Nat), m[i]? = some p ∧ row ∈ mRows) m' mRows →
        reorder idg (a' ++ m' ++ s') (dofRows mkKey dof) pvdof.length
          (aRows.r ++ mRows ++ s'.map fun _ => zeroRow pa.c) pa.c = .ok o' →
        ∃ (idg' : List κ) (a m s : List Nat) (mRows : List (List α)),
          iddofG mkKey mk tbl = .ok idg' ∧
          setPos tbl mk.g mk.a = .ok a ∧ setPos tbl mk.g mk.s = .ok s ∧
          (mRows ≠ [] → setPos tbl mk.g mk.m = .ok m) ∧ o'.c = pa.c ∧
          List.Forall₂ (fun d row => ∃ p, idg'[p]? = some (mkKey d.1 d.2) ∧
            Tran0Row a m s pa mRows p row) dof o'.r := by
      intro m' m mRows hmset hfm ho'
      have hall : List.Forall₂ (Tran0Row a m s pa mRows) (a' ++ m' ++ s')
          (aRows.r ++ mRows ++ s'.map fun _ => zeroRow pa.c) := by
        refine List.rel_append (List.rel_append ?_ ?_) ?_
        · exact hA.imp fun p row h => Or.inl h
        · exact hfm.imp fun p row h => Or.inr (Or.inl h)
        · exact hS.imp fun p row h => Or.inr (Or.inr h)
      have hre := reorder_spec ho' hall.length_eq.symm (by rw [mkdofpv_lengths hpv]; simp [dofRows])
      refine ⟨idg, a, m, s, mRows, hidg, ha, hs, hmset, hre.1, ?_⟩
      have h2 := hre.2
      unfold dofRows at h2
      rw [List.forall₂_map_left_iff] at h2
      refine h2.imp ?_
      rintro d row ⟨j, p, hj, hp, hr⟩
      obtain ⟨row', hrow', hT'⟩ := forall₂_getElem? hall j p hj
      rw [hr] at hrow'
      simp only [Option.some.injEq] at hrow'
      subst hrow'
      exact ⟨p, hp, hT'⟩
    cases pm with
    | none =>
        simp only [pure, Except.pure, Except.ok.injEq] at hmR
        subst hmR
        exact tail [] [] [] (fun hne => absurd rfl hne) .nil ho'
    | some y =>
        obtain ⟨m', g'⟩ := y
        obtain ⟨m, gmM, pv, hm, _, hfm, _, hfg⟩ := procMsetWith_spec hpm
        simp only at hmR
        obtain ⟨a_n, _, hmR⟩ := bind_ok hmR
        obtain ⟨gma, hgma, hmR⟩ := bind_ok hmR
        obtain ⟨pr, hpr, hmR⟩ := bind_ok hmR
        simp only [pure, Except.pure, Except.ok.injEq] at hmR
        subst hmR
        have hl : pr.r.length = m'.length := by
          rw [(dot_ok hpr).1, (colsAt_ok hgma).1, ← hfg.length_eq, hfm.length_eq]
        refine tail m' m pr.r (fun _ => hm) ?_ ho'
        apply forall₂_of_getElem? hl.symm
        intro k p row hp hrow
        obtain ⟨i, _, hi⟩ := forall₂_getElem?' hfm k p hp
        exact ⟨i, hi, List.mem_of_getElem? hrow⟩

end formtran0
/-! ## non-vacuity: the residual with scalar points 5 (b), 6 (m), 7 (q) -/

section examples
open PyYetiVerif.Generated.UsetMask
set_option linter.unusedSimpArgs false

def exKey0 (i d : Nat) : Nat := i * 10 + d
def exMasks0 : Masks := Masks.ofTable mask
def exTbl0 : List Row := [(5, 0, 2097154), (6, 0, 1), (7, 0, 4194304)]

/-- the three branches on the request `[(7, 0), (6, 0)]`: unit vectors of the g-set; rows of `phg`; rows recovered
from `pha` (`u_m = 2 u_b + 3 u_q` through `gm = [[2, 3]]`) -/
example : formtran0 (α := Int) exKey0 exMasks0 exTbl0 none none none (.rows [(7, 0), (6, 0)]) true
      = .ok (⟨[[0, 0, 1], [0, 1, 0]], 3⟩, [(7, 0), (6, 0)]) ∧
    formtran0 (α := Int) exKey0 exMasks0 exTbl0 (some ⟨[[1], [2], [3]], 1⟩) none none (.rows [(7, 0), (6, 0)]) false
      = .ok (⟨[[3], [2]], 1⟩, [(7, 0), (6, 0)]) ∧
    formtran0 (α := Int) exKey0 exMasks0 exTbl0 none (some ⟨[[1], [10]], 1⟩) (some ⟨[[2, 3]], 2⟩)
      (.rows [(7, 0), (6, 0)]) false = .ok (⟨[[10], [32]], 1⟩, [(7, 0), (6, 0)]) ∧
    mkdofpv exMasks0.p exTbl0 (.mask exMasks0.g) (.rows [(7, 0), (6, 0)]) true = .ok ([2, 1], [(7, 0), (6, 0)]) ∧
    setPos exTbl0 exMasks0.p exMasks0.g = .ok [0, 1, 2] := by
  simp [formtran0, formtran0With, procMsetWith, iddofG, rowsOfMask, mkdofpv, mksetpv, expanddof, expanddof2, expandRow, digits, digitsRev, mkdofpvKeys, argsort,
    lookup, searchsortedLeft, key, List.mergeSort, List.zipIdx, List.MergeSort.Internal.splitInTwo,
    exMasks0, Masks.ofTable, exTbl0, mask, v_p, v_g, v_n, v_f, v_a, v_q, v_r, v_b, v_c, v_o, v_s, v_m, v_e, v_l, v_t,
    inSet, liftE, setPos, positions, selIn, takeIdx, matIntersect, lookupAll, iddofOf, dofRows, exKey0,
    procMset, colsAt, anyCols, dot, rowComb, addRow, smulRow,
    scatterRows, setCols, rowsAt, unitRow, zeroRow, reorder,
    bind, Except.bind, pure, Except.pure, Except.map, List.mapM_cons, List.mapM_nil]
  decide

/-- `make_uset([[1, 0], [2, 123456], [3, 0]], ['e', 'b', 'q'])`: an extra point in front of the a-set DOF -/
def exTblF69 : List Row :=
  [(1, 0, 2048), (2, 1, 2097154), (2, 2, 2097154), (2, 3, 2097154), (2, 4, 2097154), (2, 5, 2097154), (2, 6, 2097154),
   (3, 0, 4194304)]

/-- `np.arange(14.).reshape(7, 2)` -/
def exPhaF69 : M Int := ⟨[[0, 1], [2, 3], [4, 5], [6, 7], [8, 9], [10, 11], [12, 13]], 2⟩

/-- `formtran({'uset': {0: u}, 'pha': {0: pha}}, 0, [[2, 1], [3, 0]])` returns `pha[[0, 6]]` (the input of finding F69:
before fix e74e9b9 the routine raised `RuntimeError`); the g-set table has seven rows, the extra point is not among them -/
example : formtran0 (α := Int) exKey0 exMasks0 exTblF69 none (some exPhaF69) none (.rows [(2, 1), (3, 0)]) false
      = .ok (⟨[[0, 1], [12, 13]], 2⟩, [(2, 1), (3, 0)]) ∧
    iddofG exKey0 exMasks0 exTblF69 = .ok [21, 22, 23, 24, 25, 26, 30] := by
  simp [formtran0, formtran0With, procMsetWith, iddofG, rowsOfMask, mkdofpv, mksetpv, expanddof, expanddof2, expandRow, digits, digitsRev, mkdofpvKeys, argsort,
    lookup, searchsortedLeft, key, List.mergeSort, List.zipIdx, List.MergeSort.Internal.splitInTwo,
    exMasks0, Masks.ofTable, exTblF69, exPhaF69, mask, v_p, v_g, v_n, v_f, v_a, v_q, v_r, v_b, v_c, v_o, v_s, v_m, v_e, v_l, v_t,
    inSet, liftE, setPos, positions, selIn, takeIdx, matIntersect, lookupAll, iddofOf, dofRows, exKey0,
    procMset, colsAt, anyCols, dot, rowComb, addRow, smulRow,
    scatterRows, setCols, rowsAt, unitRow, zeroRow, reorder,
    bind, Except.bind, pure, Except.pure, Except.map, List.mapM_cons, List.mapM_nil]

end examples

end PyYetiVerif.C18
