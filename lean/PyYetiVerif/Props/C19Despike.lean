import PyYetiVerif.Lemmas.FixtimeDespike
/-!
# C19 — the despikers `fixtime(delspikes=…)` calls

Property theorems about `Model/FixtimeDespike.lean` (`exclusive_sgfilter`, `despike`, `despike_diff`,
`_simple_filter`), tied to `pyyeti/dsp.py` by the exact streams `despike`, `despike_diff`,
`exclusive-sgfilter` and `fixtime-full-spikes` of `harness/props/c19.py`.

* `despike_decision_rule`        — the sweep decision stated outright: a point is a spike iff its
                                   deviation is STRICTLY greater than `fmax(sigma·std, min_limit)`;
                                   the model's square-root-free test is that very comparison;
* `despike_removes_only_flagged` — the returned signal is the input without the flagged points, in order;
* `despike_fixed_point`          — a signal in which no point exceeds its limit is returned unchanged
                                   after one iteration (all three generators, `despike_diff` too);
* `despike_idempotent_partial`   — that is the partial idempotence: once a despiked signal meets the
                                   no-spike condition, despiking it again changes nothing.
-/
namespace PyYetiVerif.C19
open PyYetiVerif.Fixtime PyYetiVerif.Despike

/-- **despike_decision_rule** (the sweep decision of `despike` / `despike_diff`, `_outs_*` and
`_sweep_out_*` alike): with `sigma ≥ 0`, a deviation `a = |y − ave| ≥ 0` and the window variance `var`,
a point is flagged iff `a > fmax(sigma·sqrt(|var|), min_limit)` — STRICTLY greater: a deviation equal
to the limit is not a spike — where `min_limit` is `threshold_value` or
`threshold_sigma·std(x − moving average)` (`threshold_sigma ≥ 0`, kept as `threshold_sigma²·Var`) -/
theorem despike_decision_rule (sigma a var : ℚ) (hs : 0 ≤ sigma) (ha : 0 ≤ a) :
    (∀ tv : ℚ, exceeds sigma ⟨true, tv⟩ a var = true ↔
        max ((sigma : ℝ) * Real.sqrt |(var : ℝ)|) (tv : ℝ) < (a : ℝ)) ∧
      (∀ ts V : ℚ, 0 ≤ ts → 0 ≤ V → (exceeds sigma ⟨false, ts * ts * V⟩ a var = true ↔
        max ((sigma : ℝ) * Real.sqrt |(var : ℝ)|) ((ts : ℝ) * Real.sqrt (V : ℝ)) < (a : ℝ))) := by
  have h1 := sq_test sigma a |var| hs ha (abs_nonneg _)
  have hc : ((|var| : ℚ) : ℝ) = |(var : ℝ)| := by push_cast; rfl
  rw [hc] at h1
  constructor
  · intro tv
    unfold exceeds
    simp only [Bool.and_eq_true, decide_eq_true_eq, if_true, absQ_eq_abs, max_lt_iff]
    rw [h1]
    constructor
    · rintro ⟨x, y⟩; exact ⟨x, by exact_mod_cast y⟩
    · rintro ⟨x, y⟩; exact ⟨x, by exact_mod_cast y⟩
  · intro ts V hts hV
    have h2 := sq_test ts a V hts ha hV
    unfold exceeds
    simp only [Bool.and_eq_true, decide_eq_true_eq, Bool.false_eq_true, if_false, absQ_eq_abs, max_lt_iff]
    rw [h1, h2]

/-- the deviation that EQUALS the limit is kept (the documentation example of `despike_diff`:
`threshold_value=4` catches the step of 5 but not the step of 3; a step of exactly 4 is not caught) -/
theorem despike_threshold_is_strict :
    exceeds 8 ⟨true, 4⟩ 4 0 = false ∧ exceeds 8 ⟨true, 4⟩ 5 0 = true ∧ exceeds 1 ⟨true, 0⟩ 2 4 = false := by
  decide +kernel

/-- **despike_removes_only_flagged** — the signal a despiker returns (`x[~PV]`) is the input with
exactly the flagged positions removed: a sublist of `x` (order kept) whose length is the number of
unflagged positions -/
theorem despike_removes_only_flagged {β : Type} (x : List β) (pv : List Bool) (h : pv.length = x.length) :
    (selBy x pv false).Sublist x ∧ (selBy x pv false).length = (pv.filter (· == false)).length := by
  constructor
  · unfold selBy
    have : ((x.zip pv).filter fun p => p.2 == false).Sublist (x.zip pv) := List.filter_sublist
    have := this.map (·.1)
    rwa [List.map_fst_zip (by omega)] at this
  · unfold selBy
    rw [List.length_map]
    exact selBy_length_aux x pv h

/-- **despike_fixed_point** — if no point of `x` exceeds its limit under the first statistics, every
generator stops at once: nothing is flagged and one iteration is counted (`despike`) -/
theorem despike_fixed_point (x : List ℚ) (n0 : Nat) (sigma : ℚ) (maxiter : Int) (ts : ℚ) (tv : Option ℚ)
    (xp : XP) (m : MinLim) (ave var : List ℚ)
    (hm : getMinLimit x (if x.length < n0 then x.length - 1 else n0) ts tv = some m)
    (hst : statsFull x (if x.length < n0 then x.length - 1 else n0) xp = some (ave, var))
    (hno : (flagsOf sigma m x ave var).any id = false) :
    (despike x n0 sigma maxiter ts tv xp).map (fun r => (r.pv, r.niter)) =
      some (List.replicate x.length false, 1) := by
  have hnz : nonzeroIdx (flagsOf sigma m x ave var) = [] := by
    rw [List.eq_nil_iff_forall_not_mem]
    intro i hi
    have := ((mem_nonzeroIdx _ _).mp hi)
    have hmem : true ∈ flagsOf sigma m x ave var := List.mem_of_getElem? this.2
    have : (flagsOf sigma m x ave var).any id = true := List.any_eq_true.mpr ⟨true, hmem, rfl⟩
    rw [hno] at this; cases this
  unfold despike
  simp only [hm]
  cases hbr : branchOf xp (if x.length < n0 then x.length - 1 else n0) with
  | gen =>
      simp only
      unfold genLoop
      simp only [hst, hno, Bool.not_false, if_true]
      rfl
  | first =>
      simp only [hst, beq_self_eq_true, if_true]
      rw [iterate_none _ maxiter (x.length + 1)
        ⟨x, ave, var, flagsOf sigma m x ave var, List.replicate x.length false, 0⟩ _
        (stepFirst_noflags sigma m _ xp _ hnz)]
      rfl
  | last =>
      simp only [hst, show (Branch.last == Branch.first) = false from rfl, Bool.false_eq_true, if_false]
      rw [iterate_none _ maxiter (x.length + 1)
        ⟨x, ave, var, flagsOf sigma m x ave var, List.replicate x.length false, 0⟩ _
        (stepLast_noflags sigma m _ xp _ hnz)]
      rfl

/-- … and the same for `despike_diff` (the statistics are those of `np.diff(x)`) -/
theorem despike_diff_fixed_point (x : List ℚ) (n0 : Nat) (sigma : ℚ) (maxiter : Int) (ts : ℚ)
    (tv : Option ℚ) (xp : XP) (m : MinLim) (ave var : List ℚ)
    (hbr : branchOf xp (if (diffsQ x).length < n0 then (diffsQ x).length - 1 else n0) ≠ Branch.gen)
    (hm : getMinLimit (diffsQ x) (if (diffsQ x).length < n0 then (diffsQ x).length - 1 else n0) ts tv = some m)
    (hst : statsFull (diffsQ x) (if (diffsQ x).length < n0 then (diffsQ x).length - 1 else n0) xp = some (ave, var))
    (hno : (flagsOf sigma m (diffsQ x) ave var).any id = false) :
    (despikeDiff x n0 sigma maxiter ts tv xp).map (fun r => (r.pv, r.niter)) =
      some (List.replicate x.length false, 1) := by
  have hnz : nonzeroIdx (flagsOf sigma m (diffsQ x) ave var) = [] := by
    rw [List.eq_nil_iff_forall_not_mem]
    intro i hi
    have := ((mem_nonzeroIdx _ _).mp hi)
    have hmem : true ∈ flagsOf sigma m (diffsQ x) ave var := List.mem_of_getElem? this.2
    have : (flagsOf sigma m (diffsQ x) ave var).any id = true := List.any_eq_true.mpr ⟨true, hmem, rfl⟩
    rw [hno] at this; cases this
  unfold despikeDiff
  simp only [hm, hst]
  cases hb : branchOf xp (if (diffsQ x).length < n0 then (diffsQ x).length - 1 else n0) with
  | gen => exact absurd hb hbr
  | first =>
      simp only [beq_self_eq_true, if_true]
      rw [iterateD_none _ maxiter (x.length + 1)
        ⟨x, diffsQ x, ave, var, flagsOf sigma m (diffsQ x) ave var, List.replicate x.length false, 0⟩ _
        (stepFirstD_noflags sigma m _ xp _ hnz)]
      rfl
  | last =>
      simp only [show (Branch.last == Branch.first) = false from rfl, Bool.false_eq_true, if_false]
      rw [iterateD_none _ maxiter (x.length + 1)
        ⟨x, diffsQ x, ave, var, flagsOf sigma m (diffsQ x) ave var, List.replicate x.length false, 0⟩ _
        (stepLastD_noflags sigma m _ xp _ hnz)]
      rfl

/-- **despike_idempotent_partial** — idempotence where it holds: a signal `y` (for instance the
output of a despiking run) in which no point exceeds its limit — limits computed on `y` itself, as a
second call does — comes back unchanged: `despike(y).x = y`.  (Full idempotence does not hold:
`min_limit = threshold_sigma·std(y − ave)` is recomputed from the shorter signal and is smaller, and
`_outs_first/_outs_last` stop with statistics that were only refreshed locally.) -/
theorem despike_idempotent_partial (y : List ℚ) (n0 : Nat) (sigma : ℚ) (maxiter : Int) (ts : ℚ)
    (tv : Option ℚ) (xp : XP) (m : MinLim) (ave var : List ℚ)
    (hm : getMinLimit y (if y.length < n0 then y.length - 1 else n0) ts tv = some m)
    (hst : statsFull y (if y.length < n0 then y.length - 1 else n0) xp = some (ave, var))
    (hno : (flagsOf sigma m y ave var).any id = false) :
    ∃ r, despike y n0 sigma maxiter ts tv xp = some r ∧ selBy y r.pv false = y := by
  have h := despike_fixed_point y n0 sigma maxiter ts tv xp m ave var hm hst hno
  cases hd : despike y n0 sigma maxiter ts tv xp with
  | none => rw [hd] at h; simp at h
  | some r =>
      rw [hd] at h
      simp only [Option.map_some, Option.some.injEq, Prod.mk.injEq] at h
      refine ⟨r, rfl, ?_⟩
      rw [h.1]
      exact selBy_replicate_false y

/-! ## non-vacuity -/

/-- the documentation example of `despike`: `[1,1,1,1,5,5,1,1,1,1]`, `n = 5`, `exclude_point='first'`
removes both 5s (one sweep: the second 5 and, swept up with it, the first); with `'middle'` nothing is removed -/
example : (despike [1, 1, 1, 1, 5, 5, 1, 1, 1, 1] 5 8 (-1) 2 none XP.first).map (fun r => (r.pv, r.niter)) =
    some ([false, false, false, false, true, true, false, false, false, false], 2) ∧
    (despike [1, 1, 1, 1, 5, 5, 1, 1, 1, 1] 5 8 (-1) 2 none XP.middle).map (fun r => (r.pv, r.niter)) =
    some (List.replicate 10 false, 1) := by decide +kernel

/-- the documentation example of `despike_diff` -/
example : (despikeDiff [2, 2, 2, 2, 5, 2, 2, 2, 2, 7, 2, 2, 2, 2, 2] 5 8 (-1) 2 (some 4) XP.first).map
    (fun r => (r.pv, r.niter)) =
    some ([false, false, false, false, false, false, false, false, false, true, false, false, false, false, false], 2) := by
  decide +kernel

end PyYetiVerif.C19
