import PyYetiVerif.Lemmas.CdfConv
import PyYetiVerif.Props.C17Cdf
/-!
# C17 (continued) — SolveCDF: local error, error propagation, conditional global convergence, stability of the lag

Property theorems only (helpers in `Lemmas/CdfConv.lean`).

* `cdf_run_is_sequence` — the history `cdfRun` returns is the sequence `cdfSeq`; its carried damping force is always
  `C_od q̇_n`, and the pairs `(q_n, q̇_n)` follow the one-step map `cdfStep2` (either force order).
* `cdf_local_error` — what the step integrates exactly is the LINEAR INTERPOLANT of the right-hand side
  `R(t) = P(t) − C_od q̇(t)` between the two ends of the step (`cdf_step_is_exact_for_interpolated_damping_force`); for a
  solution with bounded third derivative (`‖q⃛‖ ≤ M₃`) and a force with `‖P̈‖ ≤ M_P` that interpolant differs from `R`
  by at most `(M_P + c_od M₃) h²` on the whole step (`‖C_od x‖ ≤ c_od ‖x‖`): the per-step force error is `O(h²)`.
* `cdf_error_recursion` — the global error `e_n = (q_n, q̇_n) − (q(t_n), q̇(t_n))` obeys `e_{n+1} = L e_n − τ_n` with `L`
  the homogeneous cd-as-force step (zero forces) and `τ_n` the residual of the exact solution in one step (the step is
  affine with one linear part for all steps).
* `cdf_converges_partial` — stability + local error ⇒ global convergence: if in some seminorm `N` the homogeneous step
  satisfies `N (L e) ≤ (1 + c h) N e` and the one-step residuals are `≤ C_τ h³`, then `N e_n ≤ T e^{cT} C_τ h²` for all
  `n h ≤ T`: second order.  NOT discharged here (the missing part, named): that the `O(h²)` force error of
  `cdf_local_error` produces an `O(h³)` one-step residual (needs the Duhamel kernel bound of the exact uncoupled step,
  property C01's coefficients) and the stability constant `c` for general `(m, b, k, C_od)`; both are measured by the
  step-halving streams.
* `cdf_stable_two_dof` — the stability question answered on the 2-DOF velocity test problem (two identical DOF with
  `k = 0`, diagonal damping `b`, coupled by `C_od = [[0, c], [c, 0]]`; first-order-hold coefficients `γ = e^{−βh}`,
  `0 ≤ a ≤ β_p`, `(a + β_p) b = 1 − γ`): the symmetric and antisymmetric velocity combinations are multiplied per step by
  `ρ₊ = (γ − a c)/(1 + β_p c)` and `ρ₋ = (γ + a c)/(1 − β_p c)`; `|ρ±| < 1` when `|c| < b` (the damping matrix is
  strictly diagonally dominant = positive definite), and `ρ₋ ≥ 1` when `c ≥ b` (then the exact solution does not decay
  either): the lag is stable exactly when the physical problem is.
-/
namespace PyYetiVerif.C17
open PyYetiVerif.Cdf

section seq
variable {V : Type} [AddCommGroup V]

/-- pair `(q_n, q̇_n)` of the cd-as-force history -/
def cdfPair (C : Ops V) (o : Bool) (d0 v0 : V) (P : ℕ → V) (n : ℕ) : V × V :=
  ((cdfSeq C o d0 v0 P n).1, (cdfSeq C o d0 v0 P n).2.1)

theorem cdf_run_is_sequence (C : Ops V) (Z : V → V) (hα : ∀ x, C.alpha x = C.bo (Z x))
    (hZ : ∀ x, Z x + C.Bp (C.bo (Z x)) = x) (H : OpsAdditive C) (o : Bool) (d0 v0 : V) (P : ℕ → V) (n : ℕ) :
    cdfRun C o d0 v0 ((List.range (n + 1)).map P) = (List.range (n + 1)).map (cdfSeq C o d0 v0 P) ∧
    (cdfSeq C o d0 v0 P n).2.2 = C.bo (cdfSeq C o d0 v0 P n).2.1 ∧
    cdfPair C o d0 v0 P (n + 1) = cdfStep2 C o (cdfPair C o d0 v0 P n) (P n) (P (n + 1)) := by
  have inv : ∀ k, (cdfSeq C o d0 v0 P k).2.2 = C.bo (cdfSeq C o d0 v0 P k).2.1 := by
    intro k
    induction k with
    | zero => rfl
    | succ k ih =>
      have e : cdfSeq C o d0 v0 P k
          = ((cdfSeq C o d0 v0 P k).1, (cdfSeq C o d0 v0 P k).2.1, C.bo (cdfSeq C o d0 v0 P k).2.1) := by
        rw [← ih]
      show (cdfStep C o (cdfSeq C o d0 v0 P k) (P k) (P (k + 1))).2.2
        = C.bo (cdfStep C o (cdfSeq C o d0 v0 P k) (P k) (P (k + 1))).2.1
      rw [e]
      exact (cdf_step_is_exact_for_interpolated_damping_force C Z hα hZ (additive_sub _ H.A)
        (additive_sub _ H.B) (additive_sub _ H.Ap) (additive_sub _ H.Bp) o _ _ _ _).2
  refine ⟨cdfRun_eq_cdfSeq C o d0 v0 P n, inv n, ?_⟩
  have e : cdfSeq C o d0 v0 P n
      = ((cdfSeq C o d0 v0 P n).1, (cdfSeq C o d0 v0 P n).2.1, C.bo (cdfSeq C o d0 v0 P n).2.1) := by
    rw [← inv n]
  show ((cdfStep C o (cdfSeq C o d0 v0 P n) (P n) (P (n + 1))).1,
      (cdfStep C o (cdfSeq C o d0 v0 P n) (P n) (P (n + 1))).2.1) = _
  rw [e]
  rfl

/-- error recursion of the cd-as-force solver against ANY reference sequence `y` of pairs -/
theorem cdf_error_recursion (C : Ops V) (Z : V → V) (hα : ∀ x, C.alpha x = C.bo (Z x))
    (hZ : ∀ x, Z x + C.Bp (C.bo (Z x)) = x) (H : OpsAdditive C) (o : Bool) (P : ℕ → V) (d0 v0 : V)
    (y : ℕ → V × V) (n : ℕ) :
    cdfPair C o d0 v0 P (n + 1) - y (n + 1)
      = cdfStep2 C o (cdfPair C o d0 v0 P n - y n) 0 0
        - (y (n + 1) - cdfStep2 C o (y n) (P n) (P (n + 1))) := by
  rw [(cdf_run_is_sequence C Z hα hZ H o d0 v0 P n).2.2, ← cdfStep2_sub C H o _ _ (P n) (P (n + 1))]
  abel

/-- **Conditional global convergence of SolveCDF** (stability and one-step residual as hypotheses) -/
theorem cdf_converges_partial (C : Ops V) (Z : V → V) (hα : ∀ x, C.alpha x = C.bo (Z x))
    (hZ : ∀ x, Z x + C.Bp (C.bo (Z x)) = x) (H : OpsAdditive C) (o : Bool) (P : ℕ → V) (y : ℕ → V × V)
    (N : V × V → ℝ) (c h T Cτ : ℝ) (hN0 : N 0 = 0) (hNadd : ∀ a b, N (a - b) ≤ N a + N b)
    (hc : 0 ≤ c) (hh : 0 < h) (hCτ : 0 ≤ Cτ)
    (hstab : ∀ e, N (cdfStep2 C o e 0 0) ≤ (1 + c * h) * N e) (Nst : ℕ)
    (hlocal : ∀ n, n < Nst → N (y (n + 1) - cdfStep2 C o (y n) (P n) (P (n + 1))) ≤ Cτ * h ^ 3)
    (hT : (Nst : ℝ) * h ≤ T) :
    ∀ n, n ≤ Nst → N (cdfPair C o (y 0).1 (y 0).2 P n - y n) ≤ T * Real.exp (c * T) * Cτ * h ^ 2 := by
  intro n hn
  have := gronwall_affine N (fun e => cdfStep2 C o e 0 0)
    (fun n => cdfPair C o (y 0).1 (y 0).2 P n - y n)
    (fun n => y (n + 1) - cdfStep2 C o (y n) (P n) (P (n + 1))) c h T (Cτ * h ^ 3) hN0 hNadd hc hh
    (by positivity) hstab (by simp [cdfPair, cdfSeq]) Nst
    (fun n _ => cdf_error_recursion C Z hα hZ H o P (y 0).1 (y 0).2 y n) hlocal hT n hn
  refine le_trans this (le_of_eq ?_)
  field_simp

end seq

/-- **Per-step force error of SolveCDF is `O(h²)`**: the right-hand side `P − C_od q̇` against its linear interpolant
over the step `[a, a + h]`. -/
theorem cdf_local_error {E : Type*} [NormedAddCommGroup E] [NormedSpace ℝ E] (Cod : E →ₗ[ℝ] E) (cod : ℝ)
    (hcod : ∀ x, ‖Cod x‖ ≤ cod * ‖x‖) (hcod0 : 0 ≤ cod)
    (q1 q2 q3 P P1 P2 : ℝ → E)
    (hq1 : ∀ t, HasDerivAt q1 (q2 t) t) (hq2 : ∀ t, HasDerivAt q2 (q3 t) t)
    (hP : ∀ t, HasDerivAt P (P1 t) t) (hP1 : ∀ t, HasDerivAt P1 (P2 t) t)
    (a h M3 MP : ℝ) (hh : 0 < h)
    (hM3 : ∀ t ∈ Set.Icc a (a + h), ‖q3 t‖ ≤ M3) (hMP : ∀ t ∈ Set.Icc a (a + h), ‖P2 t‖ ≤ MP) :
    ∀ s ∈ Set.Icc 0 h,
      ‖(P (a + s) - Cod (q1 (a + s)))
          - ((1 - s / h) • (P a - Cod (q1 a)) + (s / h) • (P (a + h) - Cod (q1 (a + h))))‖
        ≤ (MP + cod * M3) * h ^ 2 := by
  intro s hs
  have e1 := interp_error_le P P1 P2 hP hP1 a h MP hh hMP s hs
  have e2 := interp_error_le q1 q2 q3 hq1 hq2 a h M3 hh hM3 s hs
  have split : (P (a + s) - Cod (q1 (a + s)))
        - ((1 - s / h) • (P a - Cod (q1 a)) + (s / h) • (P (a + h) - Cod (q1 (a + h))))
      = (P (a + s) - ((1 - s / h) • P a + (s / h) • P (a + h)))
        - Cod (q1 (a + s) - ((1 - s / h) • q1 a + (s / h) • q1 (a + h))) := by
    simp only [map_sub, map_add, map_smul, smul_sub]
    abel
  rw [split]
  refine le_trans (norm_sub_le _ _) ?_
  have h3 := le_trans (hcod _) (mul_le_mul_of_nonneg_left e2 hcod0)
  calc _ ≤ MP * h ^ 2 + cod * (M3 * h ^ 2) := add_le_add e1 h3
    _ = (MP + cod * M3) * h ^ 2 := by ring

/-- **Stability of the implicit lag on the 2-DOF velocity test problem.** -/
theorem cdf_stable_two_dof (F G A B γ a β b c : ℝ) (hγ0 : 0 < γ) (hγ1 : γ < 1) (ha : 0 ≤ a) (haβ : a ≤ β)
    (hb : 0 < b) (hfoh : (a + β) * b = 1 - γ) :
    -- the coupled damping matrix is handled exactly as documented: `alpha = C_od Z`, `(I + Bp C_od) Z = I`
    (|c| < b → ∃ Z : ℝ × ℝ → ℝ × ℝ,
      (∀ x, (twoDofOps F G A B 0 γ a β c).alpha x = (twoDofOps F G A B 0 γ a β c).bo (Z x)) ∧
      (∀ x, Z x + (twoDofOps F G A B 0 γ a β c).Bp ((twoDofOps F G A B 0 γ a β c).bo (Z x)) = x)) ∧
    -- one homogeneous step multiplies the two velocity combinations by `ρ₊`, `ρ₋`
    (|c| < b → ∀ d v : ℝ × ℝ,
      let v' := (cdfStep2 (twoDofOps F G A B 0 γ a β c) true (d, v) 0 0).2
      v'.1 + v'.2 = (γ - a * c) / (1 + β * c) * (v.1 + v.2) ∧
      v'.1 - v'.2 = (γ + a * c) / (1 - β * c) * (v.1 - v.2)) ∧
    -- both factors are contractions iff the damping matrix is diagonally dominant
    (|c| < b → |(γ - a * c) / (1 + β * c)| < 1 ∧ |(γ + a * c) / (1 - β * c)| < 1) ∧
    (b ≤ c → β * c < 1 → 1 ≤ (γ + a * c) / (1 - β * c)) := by
  have hβ0 : 0 ≤ β := le_trans ha haβ
  have hβb : β * b < 1 := by nlinarith
  have hβpos : 0 < a + β := by
    by_contra hcon
    push Not at hcon
    nlinarith
  have dom : |c| < b → β * |c| < 1 := fun hc => by
    have := mul_le_mul_of_nonneg_left hc.le hβ0
    linarith
  have pos : |c| < b → 0 < 1 + β * c ∧ 0 < 1 - β * c := fun hc => by
    have h1 := dom hc
    have h2 : β * c ≤ β * |c| := mul_le_mul_of_nonneg_left (le_abs_self c) hβ0
    have h3 : -(β * |c|) ≤ β * c := by
      have := mul_le_mul_of_nonneg_left (neg_abs_le c) hβ0
      linarith
    constructor <;> linarith
  refine ⟨fun hc => ?_, fun hc d v => ?_, fun hc => ?_, fun hbc hβc => ?_⟩
  · obtain ⟨p1, p2⟩ := pos hc
    have hD : 1 - β ^ 2 * c ^ 2 ≠ 0 := by
      have : 1 - β ^ 2 * c ^ 2 = (1 + β * c) * (1 - β * c) := by ring
      rw [this]; exact (mul_pos p1 p2).ne'
    refine ⟨fun x => ((x.1 - β * c * x.2) / (1 - β ^ 2 * c ^ 2), (x.2 - β * c * x.1) / (1 - β ^ 2 * c ^ 2)),
      fun x => rfl, fun x => ?_⟩
    simp only [twoDofOps, Prod.mk_add_mk]
    refine Prod.ext ?_ ?_ <;> simp only <;> field_simp <;> ring
  · obtain ⟨p1, p2⟩ := pos hc
    have hD : 1 - β ^ 2 * c ^ 2 ≠ 0 := by
      have : 1 - β ^ 2 * c ^ 2 = (1 + β * c) * (1 - β * c) := by ring
      rw [this]; exact (mul_pos p1 p2).ne'
    simp only [cdfStep2, cdfStep, abf, twoDofOps, if_true, Prod.mk_add_mk, Prod.mk_sub_mk, Prod.fst_zero,
      Prod.snd_zero, mul_zero, zero_mul, add_zero, zero_add]
    have n1 : 1 + β * c ≠ 0 := p1.ne'
    have n2 : 1 - β * c ≠ 0 := p2.ne'
    have n1' : 1 + c * β ≠ 0 := by rwa [mul_comm] at n1
    have n2' : 1 - c * β ≠ 0 := by rwa [mul_comm] at n2
    rw [show 1 - β ^ 2 * c ^ 2 = (1 + β * c) * (1 - β * c) by ring]
    constructor <;> field_simp <;> ring
  · obtain ⟨p1, p2⟩ := pos hc
    obtain ⟨hc1, hc2⟩ := abs_lt.mp hc
    constructor
    · rw [abs_div, abs_of_pos p1, div_lt_one p1, abs_lt]
      constructor <;> nlinarith
    · rw [abs_div, abs_of_pos p2, div_lt_one p2, abs_lt]
      constructor <;> nlinarith
  · have p2 : 0 < 1 - β * c := by linarith
    rw [le_div_iff₀ p2]
    nlinarith

/-! ## non-vacuity -/

/-- the coefficient hypotheses of `cdf_stable_two_dof` are inhabited: `γ = 1/2`, `a = 1/8`, `β = 3/8`, `b = 1` -/
example : (0 : ℝ) < 1 / 2 ∧ (1 / 2 : ℝ) < 1 ∧ (0 : ℝ) ≤ 1 / 8 ∧ (1 / 8 : ℝ) ≤ 3 / 8 ∧ (0 : ℝ) < 1 ∧
    ((1 / 8 : ℝ) + 3 / 8) * 1 = 1 - 1 / 2 := by norm_num

/-- `cdf_converges_partial`: the seminorm hypotheses hold for `N = |·.1| + |·.2|` on `ℝ × ℝ` -/
example : (fun x : ℝ × ℝ => |x.1| + |x.2|) 0 = 0 ∧
    ∀ a b : ℝ × ℝ, (fun x : ℝ × ℝ => |x.1| + |x.2|) (a - b)
      ≤ (fun x : ℝ × ℝ => |x.1| + |x.2|) a + (fun x : ℝ × ℝ => |x.1| + |x.2|) b := by
  refine ⟨by simp, fun a b => ?_⟩
  simp only [Prod.fst_sub, Prod.snd_sub]
  have h1 := abs_sub a.1 b.1
  have h2 := abs_sub a.2 b.2
  linarith

end PyYetiVerif.C17
