import PyYetiVerif.Lemmas.NewmarkEnergyVecConv
/-!
# C17 (continued) — convergence for FULL matrices by the energy method (any symmetric `B ≥ 0`, no modes needed)

Property theorems only (helpers in `Lemmas/NewmarkEnergyVecConv.lean`, `Lemmas/NewmarkTaylorVec.lean`).

Setting: `V` a real inner product space, `M`, `K` symmetric, `K ≥ 0`, `⟪B x, x⟫ ≥ 0` (no symmetry of `B`, no
commutation, no proportional damping), `M ≥ μ²` (`μ² ‖x‖² ≤ ⟪M x, x⟫`, `μ > 0`: the smallest eigenvalue of the mass
matrix); `S` the solver instance (`solve` inverts `A`, `S.A1 = A⁻¹A1`, `S.A0 = A⁻¹A0`).

* `newmark_energy_stable_full` — forced recurrence: `√E_n ≤ √E_0 + (h/μ) Σ_{j<n} ‖g_j‖`, every `h > 0`, no exponential
  factor (the forced version of `newmark_stable_full`).
* `newmark_truncation_bound_full` — local truncation error of the three-point recurrence on a vector solution with
  four bounded derivatives: `‖τ‖ ≤ (5 c_M M₄/12 + c_B M₃/2) h²` (`‖M x‖ ≤ c_M ‖x‖`, `‖B x‖ ≤ c_B ‖x‖`).
* `newmark_converges_energy_partial` — stability ⇒ convergence with the consistency facts as EXPLICIT hypotheses:
  if the truncation errors at the grid points are `≤ C_τ h²` and the energy of the first error pair is `≤ R₀²`, then
  `‖d_n − u(t_n)‖ ≤ (T/μ)(R₀ + (T C_τ h² + h ‖F(0) − K u₀ − B v₀‖/3)/μ)` for every `n` with `n h ≤ T` — the error
  recurrence is the scheme applied to the truncation error.
* `newmark_converges_energy` — both hypotheses discharged from four bounded derivatives of the exact solution:
  `‖d_n − u(t_n)‖ ≤ (T/μ)((h/μ) P + (T C_τ h² + h ‖F(0) − K u₀ − B v₀‖/3)/μ)`,
  `P = ‖u''(0)‖ (c_B h/12 + c_M/6) + c_M M₃ h/2 + c_B M₃ h²/4`, `C_τ = 5 c_M M₄/12 + c_B M₃/2`: first order in general,
  second order when `F(0) = K u₀ + B v₀` (then `M u''(0) = 0`, so `u''(0) = 0`): `newmark_converges_energy_second_order`.
-/
namespace PyYetiVerif.C17
open PyYetiVerif.Newmark InnerProductSpace Set

section full
variable {V : Type} [NormedAddCommGroup V] [InnerProductSpace ℝ V]
attribute [local instance 10] moduleVecOps

open Finset in
/-- forced recurrence, full matrices: `E_n ≤ (R + (h/μ) Σ_{j<n} ‖g_j‖)²` whenever `E_0 ≤ R²` -/
theorem newmark_energy_stable_full (M B K : V →ₗ[ℝ] V) (h μ R : ℝ) (u g : ℕ → V)
    (hM : ∀ x y, ⟪M x, y⟫_ℝ = ⟪x, M y⟫_ℝ) (hK : ∀ x y, ⟪K x, y⟫_ℝ = ⟪x, K y⟫_ℝ)
    (hBp : ∀ x, 0 ≤ ⟪B x, x⟫_ℝ) (hKp : ∀ x, 0 ≤ ⟪K x, x⟫_ℝ)
    (hMlow : ∀ z, μ ^ 2 * ‖z‖ ^ 2 ≤ ⟪M z, z⟫_ℝ) (hμ : 0 < μ) (hh : 0 < h) (hR : 0 ≤ R)
    (hrec : ∀ n, fullA M B K h (u (n + 2)) = g n + fullA1 M K h (u (n + 1)) + fullA0 M B K h (u n))
    (hE0 : energyV M K h (u 1) (u 0) ≤ R ^ 2) (n : ℕ) :
    energyV M K h (u (n + 1)) (u n) ≤ (R + h / μ * ∑ j ∈ range n, ‖g j‖) ^ 2 ∧
    ‖u (n + 1) - u n‖ ≤ h / μ * (R + h / μ * ∑ j ∈ range n, ‖g j‖) := by
  have h1 := energyV_sum_le M B K h μ R u g hM hK hBp hKp hMlow hμ hh hR hrec hE0 n
  have hs : 0 ≤ ∑ j ∈ range n, ‖g j‖ := sum_nonneg fun _ _ => norm_nonneg _
  exact ⟨h1, normdiff_le_of_energyV M K h μ _ _ _ hK hKp hMlow hμ hh (by positivity) h1⟩

/-- local truncation error of the three-point recurrence, vector-valued solution -/
theorem newmark_truncation_bound_full (M B K : V →ₗ[ℝ] V) (h cM cB M3 M4 : ℝ) (u u1 u2 u3 u4 f : ℝ → V)
    (t : ℝ) (hcM : ∀ x, ‖M x‖ ≤ cM * ‖x‖) (hcB : ∀ x, ‖B x‖ ≤ cB * ‖x‖) (hcM0 : 0 ≤ cM) (hcB0 : 0 ≤ cB)
    (hh : 0 < h)
    (hu : ∀ t, HasDerivAt u (u1 t) t) (hu1 : ∀ t, HasDerivAt u1 (u2 t) t)
    (hu2 : ∀ t, HasDerivAt u2 (u3 t) t) (hu3 : ∀ t, HasDerivAt u3 (u4 t) t)
    (hM3 : ∀ s ∈ Icc (t - h) (t + h), ‖u3 s‖ ≤ M3) (hM4 : ∀ s ∈ Icc (t - h) (t + h), ‖u4 s‖ ≤ M4)
    (hode : ∀ s ∈ Icc (t - h) (t + h), M (u2 s) + B (u1 s) + K (u s) = f s) :
    ‖fullA M B K h (u (t + h)) - fullA1 M K h (u t) - fullA0 M B K h (u (t - h))
        - (3 : ℝ)⁻¹ • (f (t + h) + f t + f (t - h))‖ ≤ (5 * cM * M4 / 12 + cB * M3 / 2) * h ^ 2 :=
  truncV_norm_le M B K h cM cB M3 M4 u u1 u2 u3 u4 f t hcM hcB hcM0 hcB0 hh hu hu1 hu2 hu3 hM3 hM4 hode

/-- **Energy-method convergence, consistency as hypotheses.**  `u`, `f` are only used at the grid points. -/
theorem newmark_converges_energy_partial (S : Sys V ℝ) (M B K : V →ₗ[ℝ] V) (h T μ R0 Cτ : ℝ)
    (hM : ∀ x y, ⟪M x, y⟫_ℝ = ⟪x, M y⟫_ℝ) (hK : ∀ x y, ⟪K x, y⟫_ℝ = ⟪x, K y⟫_ℝ)
    (hBp : ∀ x, 0 ≤ ⟪B x, x⟫_ℝ) (hKp : ∀ x, 0 ≤ ⟪K x, x⟫_ℝ)
    (hMlow : ∀ z, μ ^ 2 * ‖z‖ ^ 2 ≤ ⟪M z, z⟫_ℝ) (hμ : 0 < μ) (hh : 0 < h)
    (hSh : S.h = h) (hSK : ∀ x, S.K x = K x) (hSB : ∀ x, S.B x = B x)
    (hsolve : ∀ x, fullA M B K h (S.solve x) = x)
    (hA1 : ∀ x, fullA M B K h (S.A1 x) = fullA1 M K h x)
    (hA0 : ∀ x, fullA M B K h (S.A0 x) = fullA0 M B K h x)
    (u f : ℝ → V) (v0 : V) (n : ℕ) (hnT : ((n : ℝ) + 1) * h ≤ T) (hR0 : 0 ≤ R0) (hCτ : 0 ≤ Cτ)
    (htrunc : ∀ i, i < n → ‖truncV M B K h u f (((i + 1 : ℕ) : ℝ) * h)‖ ≤ Cτ * h ^ 2)
    (hstart : energyV M K h (dseq S (fun j : ℕ => f ((j : ℝ) * h)) (u 0) v0 0 1 - u h) 0 ≤ R0 ^ 2) :
    ∃ hist, run S (fun _ _ => 0) ((List.range (n + 2)).map fun j : ℕ => f ((j : ℝ) * h)) (u 0) v0
        = some hist ∧ hist.d.length = n + 2 ∧
      ∀ j (hj : j < hist.d.length), ‖hist.d[j] - u ((j : ℝ) * h)‖
        ≤ T / μ * (R0 + (T * (Cτ * h ^ 2) + h * (‖f 0 - (K (u 0) + B v0)‖ / 3)) / μ) := by
  obtain ⟨hist, hrun, hd, -⟩ := run_eq_dseq S (fun j : ℕ => f ((j : ℝ) * h)) (u 0) v0 0 n
  refine ⟨hist, hrun, by rw [hd]; simp, ?_⟩
  intro j hj
  have hjn : j < n + 2 := by rw [hd] at hj; simpa using hj
  have hget : hist.d[j] = dseq S (fun j : ℕ => f ((j : ℝ) * h)) (u 0) v0 0 j := by simp [hd]
  rw [hget]
  set e : ℕ → V := fun i => dseq S (fun j : ℕ => f ((j : ℝ) * h)) (u 0) v0 0 i - u ((i : ℝ) * h) with he
  set δ0 := f 0 - (K (u 0) + B v0) with hδ0
  set g : ℕ → V := fun i => -truncV M B K h u f (((i + 1 : ℕ) : ℝ) * h)
    - (if i = 0 then (3 : ℝ)⁻¹ • δ0 else 0) with hg
  have hrec : ∀ i, fullA M B K h (e (i + 2))
      = g i + fullA1 M K h (e (i + 1)) + fullA0 M B K h (e i) := by
    intro i
    have hr := dseqV_rec S (fullA M B K h) (fullA1 M K h) (fullA0 M B K h) hsolve hA1 hA0
      (fun j : ℕ => f ((j : ℝ) * h)) (u 0) v0 i
    have t2 : ((i + 1 : ℕ) : ℝ) * h + h = ((i + 2 : ℕ) : ℝ) * h := by push_cast; ring
    have t0 : ((i + 1 : ℕ) : ℝ) * h - h = (i : ℝ) * h := by push_cast; ring
    simp only [he, hg, map_sub, hr, truncV, t2, t0, effForceV, hSK, hSB]
    rcases Nat.eq_zero_or_pos i with rfl | hi
    · simp only [if_true, hδ0, Nat.cast_zero, zero_mul, Nat.cast_ofNat, Nat.cast_one, zero_add]
      module
    · have : i ≠ 0 := hi.ne'
      simp only [this, if_false]
      module
  have he0 : e 0 = 0 := by simp [he, dseq]
  have hE0 : energyV M K h (e 1) (e 0) ≤ R0 ^ 2 := by
    rw [he0]
    simpa [he] using hstart
  have hg0 : 1 ≤ n → ‖g 0‖ ≤ Cτ * h ^ 2 + ‖δ0‖ / 3 := by
    intro h1
    have h2 := htrunc 0 (by omega)
    simp only [hg, if_true]
    refine le_trans (norm_sub_le _ _) ?_
    rw [norm_neg, norm_smul, Real.norm_eq_abs, abs_of_pos (by norm_num : (0 : ℝ) < 3⁻¹)]
    have : (3 : ℝ)⁻¹ * ‖δ0‖ = ‖δ0‖ / 3 := by ring
    rw [this]
    exact add_le_add h2 (le_refl _)
  have hgj : ∀ i, 1 ≤ i → i < n → ‖g i‖ ≤ Cτ * h ^ 2 := by
    intro i h1 hi
    have hne : i ≠ 0 := by omega
    simp only [hg, hne, if_false, sub_zero, norm_neg]
    exact htrunc i hi
  obtain ⟨-, hsz⟩ := conv_core_V M B K h T μ R0 (Cτ * h ^ 2) (‖δ0‖ / 3) e g n hM hK hBp hKp hMlow hμ hh hR0
    (mul_nonneg hCτ (sq_nonneg h)) (div_nonneg (norm_nonneg _) (by norm_num)) hnT hrec he0 hE0 hg0 hgj
  exact hsz j (by omega)

/-- **Convergence of SolveNewmark for full matrices with ANY symmetric-part-nonnegative damping**, from four bounded
derivatives of the exact solution. -/
theorem newmark_converges_energy (S : Sys V ℝ) (M B K : V →ₗ[ℝ] V) (T μ cM cB M3 M4 : ℝ)
    (hM : ∀ x y, ⟪M x, y⟫_ℝ = ⟪x, M y⟫_ℝ) (hK : ∀ x y, ⟪K x, y⟫_ℝ = ⟪x, K y⟫_ℝ)
    (hBp : ∀ x, 0 ≤ ⟪B x, x⟫_ℝ) (hKp : ∀ x, 0 ≤ ⟪K x, x⟫_ℝ)
    (hMlow : ∀ z, μ ^ 2 * ‖z‖ ^ 2 ≤ ⟪M z, z⟫_ℝ) (hμ : 0 < μ)
    (hcM : ∀ x, ‖M x‖ ≤ cM * ‖x‖) (hcB : ∀ x, ‖B x‖ ≤ cB * ‖x‖) (hcM0 : 0 ≤ cM) (hcB0 : 0 ≤ cB)
    (u u1 u2 u3 u4 f : ℝ → V)
    (hu : ∀ t, HasDerivAt u (u1 t) t) (hu1 : ∀ t, HasDerivAt u1 (u2 t) t)
    (hu2 : ∀ t, HasDerivAt u2 (u3 t) t) (hu3 : ∀ t, HasDerivAt u3 (u4 t) t)
    (hM3 : ∀ t ∈ Icc 0 T, ‖u3 t‖ ≤ M3) (hM4 : ∀ t ∈ Icc 0 T, ‖u4 t‖ ≤ M4)
    (hode : ∀ t ∈ Icc 0 T, M (u2 t) + B (u1 t) + K (u t) = f t)
    (h : ℝ) (n : ℕ) (hh : 0 < h) (hnT : ((n : ℝ) + 1) * h ≤ T)
    (hSh : S.h = h) (hSK : ∀ x, S.K x = K x) (hSB : ∀ x, S.B x = B x)
    (hsolve : ∀ x, fullA M B K h (S.solve x) = x)
    (hA1 : ∀ x, fullA M B K h (S.A1 x) = fullA1 M K h x)
    (hA0 : ∀ x, fullA M B K h (S.A0 x) = fullA0 M B K h x) :
    ∃ hist, run S (fun _ _ => 0) ((List.range (n + 2)).map fun j : ℕ => f ((j : ℝ) * h)) (u 0) (u1 0)
        = some hist ∧ hist.d.length = n + 2 ∧
      ∀ j (hj : j < hist.d.length), ‖hist.d[j] - u ((j : ℝ) * h)‖
        ≤ T / μ * (h / μ * (‖u2 0‖ * (cB * h / 12 + cM / 6) + cM * M3 * h / 2 + cB * M3 * h ^ 2 / 4)
            + (T * ((5 * cM * M4 / 12 + cB * M3 / 2) * h ^ 2)
                + h * (‖f 0 - (K (u 0) + B (u1 0))‖ / 3)) / μ) := by
  have hn0 : (0 : ℝ) ≤ n := Nat.cast_nonneg n
  have hhT : h ≤ T := by nlinarith
  have hT : 0 < T := lt_of_lt_of_le hh hhT
  have h0T : (0 : ℝ) ∈ Icc 0 T := ⟨le_refl _, hT.le⟩
  have hM3n : 0 ≤ M3 := le_trans (norm_nonneg _) (hM3 0 h0T)
  have hM4n : 0 ≤ M4 := le_trans (norm_nonneg _) (hM4 0 h0T)
  set P := ‖u2 0‖ * (cB * h / 12 + cM / 6) + cM * M3 * h / 2 + cB * M3 * h ^ 2 / 4 with hP
  have hP0 : 0 ≤ P := by positivity
  set Cτ := 5 * cM * M4 / 12 + cB * M3 / 2 with hCτ
  have hCτ0 : 0 ≤ Cτ := by positivity
  -- truncation errors at the grid points
  have htr : ∀ i, i < n → ‖truncV M B K h u f (((i + 1 : ℕ) : ℝ) * h)‖ ≤ Cτ * h ^ 2 := by
    intro i hi
    have hi' : (i : ℝ) + 2 ≤ n + 1 := by
      have : i + 2 ≤ n + 1 := by omega
      exact_mod_cast this
    have hlo : (0 : ℝ) ≤ ((i + 1 : ℕ) : ℝ) * h - h := by
      push_cast; nlinarith [Nat.cast_nonneg (α := ℝ) i]
    have hhi : ((i + 1 : ℕ) : ℝ) * h + h ≤ T := by
      push_cast; nlinarith
    have sub : ∀ s ∈ Icc (((i + 1 : ℕ) : ℝ) * h - h) (((i + 1 : ℕ) : ℝ) * h + h), s ∈ Icc 0 T :=
      fun s hs => ⟨le_trans hlo hs.1, le_trans hs.2 hhi⟩
    exact truncV_norm_le M B K h cM cB M3 M4 u u1 u2 u3 u4 f _ hcM hcB hcM0 hcB0 hh hu hu1 hu2 hu3
      (fun s hs => hM3 s (sub s hs)) (fun s hs => hM4 s (sub s hs)) (fun s hs => hode s (sub s hs))
  -- the start-up step
  have hstart : energyV M K h (dseq S (fun j : ℕ => f ((j : ℝ) * h)) (u 0) (u1 0) 0 1 - u h) 0
      ≤ (h / μ * P) ^ 2 := by
    refine le_trans (startV_energy_le M B K h μ _ hBp hKp hMlow hμ hh) ?_
    refine pow_le_pow_left₀ (by positivity) ?_ 2
    have h1 := dseqV_one S (fullA M B K h) (fullA1 M K h) (fullA0 M B K h) hsolve hA1 hA0
      (fun j : ℕ => f ((j : ℝ) * h)) (u 0) (u1 0)
    simp only [Nat.cast_one, one_mul, hSK, hSB, hSh] at h1
    have h2 := startV_residual_eq M B K h u u1 u2 (f h) hh.ne' (hode h ⟨hh.le, hhT⟩)
    have h3 := startV_residual_norm_le M B K h cM cB M3 u u1 u2 u3 hcM hcB hcM0 hcB0 hh hu hu1 hu2
      (fun s hs => hM3 s ⟨hs.1, le_trans hs.2 hhT⟩)
    rw [map_sub, h1, h2]
    calc h * ‖_‖ / μ ≤ h * P / μ :=
          div_le_div_of_nonneg_right (mul_le_mul_of_nonneg_left h3 hh.le) hμ.le
      _ = h / μ * P := by ring
  exact newmark_converges_energy_partial S M B K h T μ (h / μ * P) Cτ hM hK hBp hKp hMlow hμ hh hSh hSK hSB
    hsolve hA1 hA0 u f (u1 0) n hnT (by positivity) hCτ0 htr hstart

/-- balanced start-up (`F(0) = K u₀ + B v₀`): SECOND order for full matrices -/
theorem newmark_converges_energy_second_order (S : Sys V ℝ) (M B K : V →ₗ[ℝ] V) (T μ cM cB M3 M4 : ℝ)
    (hM : ∀ x y, ⟪M x, y⟫_ℝ = ⟪x, M y⟫_ℝ) (hK : ∀ x y, ⟪K x, y⟫_ℝ = ⟪x, K y⟫_ℝ)
    (hBp : ∀ x, 0 ≤ ⟪B x, x⟫_ℝ) (hKp : ∀ x, 0 ≤ ⟪K x, x⟫_ℝ)
    (hMlow : ∀ z, μ ^ 2 * ‖z‖ ^ 2 ≤ ⟪M z, z⟫_ℝ) (hμ : 0 < μ)
    (hcM : ∀ x, ‖M x‖ ≤ cM * ‖x‖) (hcB : ∀ x, ‖B x‖ ≤ cB * ‖x‖) (hcM0 : 0 ≤ cM) (hcB0 : 0 ≤ cB)
    (u u1 u2 u3 u4 f : ℝ → V)
    (hu : ∀ t, HasDerivAt u (u1 t) t) (hu1 : ∀ t, HasDerivAt u1 (u2 t) t)
    (hu2 : ∀ t, HasDerivAt u2 (u3 t) t) (hu3 : ∀ t, HasDerivAt u3 (u4 t) t)
    (hM3 : ∀ t ∈ Icc 0 T, ‖u3 t‖ ≤ M3) (hM4 : ∀ t ∈ Icc 0 T, ‖u4 t‖ ≤ M4)
    (hode : ∀ t ∈ Icc 0 T, M (u2 t) + B (u1 t) + K (u t) = f t)
    (hbal : f 0 = K (u 0) + B (u1 0))
    (h : ℝ) (n : ℕ) (hh : 0 < h) (hnT : ((n : ℝ) + 1) * h ≤ T)
    (hSh : S.h = h) (hSK : ∀ x, S.K x = K x) (hSB : ∀ x, S.B x = B x)
    (hsolve : ∀ x, fullA M B K h (S.solve x) = x)
    (hA1 : ∀ x, fullA M B K h (S.A1 x) = fullA1 M K h x)
    (hA0 : ∀ x, fullA M B K h (S.A0 x) = fullA0 M B K h x) :
    ∃ hist, run S (fun _ _ => 0) ((List.range (n + 2)).map fun j : ℕ => f ((j : ℝ) * h)) (u 0) (u1 0)
        = some hist ∧ hist.d.length = n + 2 ∧
      ∀ j (hj : j < hist.d.length), ‖hist.d[j] - u ((j : ℝ) * h)‖
        ≤ T / μ * ((cM * M3 / 2 + cB * M3 * h / 4) / μ + T * (5 * cM * M4 / 12 + cB * M3 / 2) / μ) * h ^ 2 := by
  obtain ⟨hist, h1, h2, h3⟩ := newmark_converges_energy S M B K T μ cM cB M3 M4 hM hK hBp hKp hMlow hμ hcM hcB
    hcM0 hcB0 u u1 u2 u3 u4 f hu hu1 hu2 hu3 hM3 hM4 hode h n hh hnT hSh hSK hSB hsolve hA1 hA0
  refine ⟨hist, h1, h2, fun j hj => ?_⟩
  have hn0 : (0 : ℝ) ≤ n := Nat.cast_nonneg n
  have hT : 0 < T := lt_of_lt_of_le hh (by nlinarith)
  have h0T : (0 : ℝ) ∈ Icc 0 T := ⟨le_refl _, hT.le⟩
  -- `M u''(0) = 0`, hence `u''(0) = 0`
  have hz : u2 0 = 0 := by
    have h0 := hode 0 h0T
    have hMu : M (u2 0) = 0 := by
      have : M (u2 0) + (B (u1 0) + K (u 0)) = K (u 0) + B (u1 0) := by rw [← hbal, ← h0]; abel
      have h4 : M (u2 0) + (B (u1 0) + K (u 0)) = 0 + (B (u1 0) + K (u 0)) := by rw [this]; abel
      exact add_right_cancel h4
    have h5 := hMlow (u2 0)
    rw [hMu, inner_zero_left] at h5
    have h6 : ‖u2 0‖ ^ 2 ≤ 0 := by
      have hμ2 : 0 < μ ^ 2 := by positivity
      nlinarith
    have h7 : ‖u2 0‖ = 0 := by
      have := sq_nonneg ‖u2 0‖
      exact pow_eq_zero_iff (n := 2) (by norm_num) |>.mp (le_antisymm h6 this)
    exact norm_eq_zero.mp h7
  have := h3 j hj
  rw [hz, norm_zero, zero_mul, zero_add, hbal, sub_self, norm_zero, zero_div, mul_zero, add_zero] at this
  refine le_trans this (le_of_eq ?_)
  field_simp

end full

/-! ## non-vacuity -/

/-- the structural hypotheses are inhabited by `V = ℝ`, `M = K = B = id`, `μ = 1`, `c_M = c_B = 1` -/
example : (∀ z : ℝ, (1 : ℝ) ^ 2 * ‖z‖ ^ 2 ≤ ⟪(LinearMap.id : ℝ →ₗ[ℝ] ℝ) z, z⟫_ℝ) ∧
    (∀ x : ℝ, ‖(LinearMap.id : ℝ →ₗ[ℝ] ℝ) x‖ ≤ 1 * ‖x‖) := by
  refine ⟨fun z => ?_, fun x => by simp⟩
  simp only [LinearMap.id_apply, one_pow, one_mul, real_inner_self_eq_norm_sq]
  exact le_refl _

end PyYetiVerif.C17
