import PyYetiVerif.Lemmas.RainflowGenC1S
import PyYetiVerif.Lemmas.RainflowGenC2S2
import PyYetiVerif.Props.C05Gen
/-!
# C05, the two-pass build of c_rain.c (USE_FASTER_RAINFLOW_ROUTINE not defined)

Without the macro `rainflow1`/`rainflow2` run the stack machine twice: pass one only counts the full cycles
(`++fullcyclesp1`), the tables are then allocated with exactly `L - fullcyclesp1` rows, pass two runs the same
machine again and writes through the cursors `*rf++`, `*os++`; nothing is sliced off at the end.  The programs
below are `Generated/CRain.lean` (`rainflow1_slow`, `rainflow2_slow`: what harness/translate/c05_crain.py makes of
the `#else` branches).  The refinement needs one invariant more than the shipped setting: the rows written so far
are a prefix of the model's final table, whose length is the number pass one has counted — so no cursor write lands
outside the (now exactly sized) tables and no cell of the returned tables is left unwritten.
-/
namespace PyYetiVerif.C05
open PyYetiVerif.Rainflow PyYetiVerif.RainflowImp PyYetiVerif.RainflowEntry PyYetiVerif.RainflowGen

section twopass
variable {α : Type} [Ops α]

/-- the C `rainflow1` of the two-pass build computes the model's table: no index out of range, no unwritten cell
read or returned, the table allocated after pass one has exactly the model's number of rows -/
theorem generated_c_rainflow1_twopass_eq_model (habs : ∀ a b : α, Ops.abs (a - b) = absd a b)
    (pts : List α) (h1 : 1 ≤ pts.length) (fuel : Nat) (hf : pts.length ≤ fuel) :
    (PyYetiVerif.Generated.CRain.rainflow1_slow fuel (Arr.ofList pts) (pts.length : Int)).bind Arr2.toRows
        = some ((rainflow1 pts).map rfRow) :=
  RainflowGen.generated_c_rainflow1_slow_eq_model habs pts h1 fuel hf

/-- the C `rainflow2` of the two-pass build computes the model's table and offsets -/
theorem generated_c_rainflow2_twopass_eq_model (habs : ∀ a b : α, Ops.abs (a - b) = absd a b)
    (pts : List α) (h1 : 1 ≤ pts.length) (fuel : Nat) (hf : pts.length ≤ fuel) :
    (PyYetiVerif.Generated.CRain.rainflow2_slow fuel (Arr.ofList pts) (pts.length : Int)).bind tables
        = some ((rainflow pts).map rfRowC, (rainflow pts).map osRow) :=
  RainflowGen.generated_c_rainflow2_slow_eq_model habs pts h1 fuel hf

/-- hence the macro does not change what c_rain returns: both builds, as translated, give the same tables -/
theorem generated_c_twopass_eq_fast (habs : ∀ a b : α, Ops.abs (a - b) = absd a b)
    (pts : List α) (h1 : 1 ≤ pts.length) (fuel : Nat) (hf : pts.length ≤ fuel) :
    (PyYetiVerif.Generated.CRain.rainflow2_slow fuel (Arr.ofList pts) (pts.length : Int)).bind tables
        = (PyYetiVerif.Generated.CRain.rainflow2_fast fuel (Arr.ofList pts) (pts.length : Int)).bind tables ∧
      (PyYetiVerif.Generated.CRain.rainflow1_slow fuel (Arr.ofList pts) (pts.length : Int)).bind Arr2.toRows
        = (PyYetiVerif.Generated.CRain.rainflow1_fast fuel (Arr.ofList pts) (pts.length : Int)).bind Arr2.toRows := by
  rw [generated_c_rainflow2_twopass_eq_model habs pts h1 fuel hf,
    generated_c_rainflow1_twopass_eq_model habs pts h1 fuel hf,
    (generated_c_rainflow2_eq_model habs pts h1 fuel hf).1, (generated_c_rainflow1_eq_model habs pts h1 fuel hf).1]
  exact ⟨rfl, rfl⟩

/-- **pass one counts the rows**: run from the state the C code starts it in (`pts = calloc(L)`, `fullcyclesp1 = 1`,
`j = -1`), the first loop of the two-pass `rainflow1` never fails and ends with
`L - fullcyclesp1 = (rainflow1 pts).length` — the `dims[0]` of the allocation is the length of the model's table -/
theorem twopass_count_eq_length (habs : ∀ a b : α, Ops.abs (a - b) = absd a b)
    (pts : List α) (h1 : 1 ≤ pts.length) (fuel : Nat) (hf : pts.length ≤ fuel) :
    ∃ s1, forRange (pts.length : Int)
        (PyYetiVerif.Generated.CRain.rainflow1_slow_for1_body fuel (Arr.ofList pts) (pts.length : Int))
        { (PyYetiVerif.Generated.CRain.Rainflow1SlowSt.init : PyYetiVerif.Generated.CRain.Rainflow1SlowSt α) with
            pts := ⟨Array.replicate pts.length none⟩, fullcyclesp1 := 1, j := -1 } = some s1 ∧
      (pts.length : Int) - s1.fullcyclesp1 = ((rainflow1 pts).length : Int) :=
  RainflowGen.twopass_count_eq_length habs pts h1 fuel hf _
    ⟨by simp, by simp, by intro i hi; simp at hi, by simp, by simp, by omega⟩

end twopass

/-! ### non-vacuity: the hypothesis `habs` has an instance (`intOps_abs`), and the two-pass programs run -/

example : letI := intOps
    (PyYetiVerif.Generated.CRain.rainflow2_slow 9 (Arr.ofList [-4, 2, -6, 10, -2, 6, -8, 8, -4]) 9).bind tables
    = some ([[3, -1, 5], [4, -2, 5], [4, 2, 10], [8, 2, 5], [9, 1, 5], [8, 0, 5], [6, 2, 5]],
            [[0, 1], [1, 2], [4, 5], [2, 3], [3, 6], [6, 7], [7, 8]]) := by decide +kernel

example : letI := intOps
    (PyYetiVerif.Generated.CRain.rainflow1_slow 9 (Arr.ofList [-4, 2, -6, 10, -2, 6, -8, 8, -4]) 9).bind Arr2.toRows
    = some [[3, -1, 5], [4, -2, 5], [4, 2, 10], [8, 2, 5], [9, 1, 5], [8, 0, 5], [6, 2, 5]] := by decide +kernel

-- the theorems applied at the integers
example : letI := intOps
    (PyYetiVerif.Generated.CRain.rainflow1_slow 5 (Arr.ofList ([0, 6, 2, 8, 0] : List Int)) 5).bind Arr2.toRows
      = some ((rainflow1 ([0, 6, 2, 8, 0] : List Int)).map rfRow) :=
  letI := intOps
  generated_c_rainflow1_twopass_eq_model intOps_abs ([0, 6, 2, 8, 0] : List Int) (by decide) 5 (by decide)

example : letI := intOps
    (PyYetiVerif.Generated.CRain.rainflow2_slow 5 (Arr.ofList ([0, 6, 2, 8, 0] : List Int)) 5).bind tables
      = some ((rainflow ([0, 6, 2, 8, 0] : List Int)).map rfRowC, (rainflow ([0, 6, 2, 8, 0] : List Int)).map osRow) :=
  letI := intOps
  generated_c_rainflow2_twopass_eq_model intOps_abs ([0, 6, 2, 8, 0] : List Int) (by decide) 5 (by decide)

end PyYetiVerif.C05
