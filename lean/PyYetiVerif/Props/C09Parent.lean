import PyYetiVerif.Lemmas.ParSchedParent
import PyYetiVerif.Generated.ParFootprint
import PyYetiVerif.Generated.ParFootprintParent
import PyYetiVerif.Props.C09
/-!
# C09, parent side — what `srs.srs` / `fdepsd.fdepsd` do around the pool

Property theorems only.  The tables `Generated.ParFootprintParent.decision / helpers / sites` are
regenerated from srs.py / fdepsd.py on every run (harness/translate/c09_parent.py).

* decision: `generated_decision_is_std` (the regenerated `_process_parallel` table is the one the
  rules below are proved for), `process_parallel_auto_rule / _yes_rule / _no_rule` (the helper, used as
  it is by fdepsd), `generated_pickle_guard_std` and, with the `peak` argument as an input, `auto_rule`,
  `yes_rule`, `no_rule`, `unpicklable_peak_runs_serially`, `picklable_peak_decision_unchanged` (srs.srs),
  `invalid_option_raises`, `pool_size_bounds`, `pool_size_ignores_task_count`;
* tables: `generated_parent_ok` (every pool site passes `siteOk`), `generated_helpers_std`,
  `generated_serial_is_worker_loop` (the serial routine is `for j in range(LF): body(j)` over the
  index set of the pool's task list, with the argument tuple of the workers, in order);
* `tasks_partition_outputs`, `generated_outputs_partitioned`: the tasks' owned cells partition
  every output array, for any number of frequencies / columns / time steps;
* `assembly_eq_serial`: outputs after copy-out and post-processing equal the serial routine's for
  every complete schedule, although the serial routine starts from `np.empty` arrays;
* `peak_applied_once`, `getresp_histories_eq_serial`, `srs_routine_eq_serial` on the srs worker system;
* `generated_peak_travels_in_task_tuple`: why an unpicklable `peak` breaks the parallel path (finding).
-/
namespace PyYetiVerif.C09
open PyYetiVerif.ParSched
open PyYetiVerif.Generated

/-! ### the decision -/

/-- the regenerated `_process_parallel` is, condition for condition, the table of the model -/
theorem generated_decision_is_std : ParFootprintParent.decision = stdDecision := by decide

/-- RawArray of C doubles viewed as float64, filled by `a[:] = arr` (conversion by assignment) -/
theorem generated_helpers_std : ParFootprintParent.helpers = stdHelpers := by decide

/-- `parallel='auto'`: the pool is used iff there is more than one frequency AND the signal block
has more than 50000 elements AND no histories are requested AND the machine has more than one CPU
AND the platform is not Windows; otherwise serial with a worker count of 1. -/
theorem process_parallel_auto_rule (i : DecIn) :
    processParallel ParFootprintParent.decision "auto" i =
      some (if 1 < i.LF ∧ 50000 < i.size ∧ i.getresp = false ∧ 1 < i.cpu ∧ i.win = false
            then ("yes", poolSize i.maxcpu i.cpu) else ("no", 1)) := by
  rw [generated_decision_is_std]
  have hc := capChain_std i
  have ha := evalConj_std_auto i
  unfold processParallel
  have hmodes : stdDecision.modes.contains "auto" = true := by decide
  have h1 : stdDecision.autoThen = "yes" := rfl
  have h2 : stdDecision.autoElse = "no" := rfl
  have h3 : stdDecision.serialNcpu = .lit 1 := rfl
  simp only [hmodes, Bool.not_true, Bool.false_eq_true, if_false, if_true, ha,
    Option.map_some, show ¬ ("auto" = "no") by decide, h1, h2, h3]
  by_cases hcond : 1 < i.LF ∧ 50000 < i.size ∧ i.getresp = false ∧ 1 < i.cpu ∧ i.win = false
  · obtain ⟨a, b, c, d, e⟩ := hcond
    simp [a, b, c, d, e, hc]
  · have : (decide (1 < i.LF) && decide (50000 < i.size) && !i.getresp && decide (1 < i.cpu) && !i.win)
        = false := by
      by_cases a : 1 < i.LF <;> by_cases b : 50000 < i.size <;> by_cases d : 1 < i.cpu <;>
        cases c : i.getresp <;> cases e : i.win <;> simp_all
    simp [this, hcond, CapVal.eval]

/-- `parallel='yes'`: always the pool; the number of processes is `maxcpu` when that is a positive
number below the CPU count, else 4/5 of the CPU count (rounded down) on machines with more than
four CPUs, else the CPU count. -/
theorem process_parallel_yes_rule (i : DecIn) :
    processParallel ParFootprintParent.decision "yes" i = some ("yes", poolSize i.maxcpu i.cpu) := by
  rw [generated_decision_is_std]
  have hc := capChain_std i
  unfold processParallel
  have hmodes : "yes" ∈ stdDecision.modes := by decide
  simp [hmodes, hc, show ¬ ("yes" = "no") by decide, show ¬ ("yes" = "auto") by decide]

/-- `parallel='no'`: serial, worker count 1, whatever the other arguments -/
theorem process_parallel_no_rule (i : DecIn) :
    processParallel ParFootprintParent.decision "no" i = some ("no", 1) := by
  rw [generated_decision_is_std]
  unfold processParallel
  simp [show ¬ ("no" = "auto") by decide, show ¬ ("no" = "yes") by decide, stdDecision,
    CapVal.eval]

/-- the regenerated override of srs.srs is the repaired one (F53); fdepsd, which has no `peak`
option, has none -/
theorem generated_pickle_guard_std :
    ParFootprintParent.guard_srs = stdGuard ∧ ParFootprintParent.guard_fdepsd = noGuard := by decide

/-- srs.srs, `parallel='auto'`, with the `peak` argument as an input: the pool is used iff LF > 1 ∧
size > 50000 ∧ ¬getresp ∧ cpu count > 1 ∧ not Windows ∧ `peak` is not an unpicklable function. -/
theorem auto_rule (i : DecIn) (peak : PeakArg) :
    routineDecision ParFootprintParent.decision ParFootprintParent.guard_srs "auto" i peak =
      some (if 1 < i.LF ∧ 50000 < i.size ∧ i.getresp = false ∧ 1 < i.cpu ∧ i.win = false
            then (if peak = PeakArg.unpicklable then "no" else "yes", poolSize i.maxcpu i.cpu)
            else ("no", 1)) := by
  unfold routineDecision
  rw [process_parallel_auto_rule, generated_pickle_guard_std.1]
  by_cases h : 1 < i.LF ∧ 50000 < i.size ∧ i.getresp = false ∧ 1 < i.cpu ∧ i.win = false
  · cases peak <;> simp [h, guardedMode, stdGuard]
  · simp [h, guardedMode, stdGuard]

/-- srs.srs, `parallel='yes'`: the pool unless `peak` is a function that cannot be pickled — then the
serial loop (which simply calls it) -/
theorem yes_rule (i : DecIn) (peak : PeakArg) :
    routineDecision ParFootprintParent.decision ParFootprintParent.guard_srs "yes" i peak =
      some (if peak = PeakArg.unpicklable then "no" else "yes", poolSize i.maxcpu i.cpu) := by
  unfold routineDecision
  rw [process_parallel_yes_rule, generated_pickle_guard_std.1]
  cases peak <;> simp [guardedMode, stdGuard]

theorem no_rule (i : DecIn) (peak : PeakArg) :
    routineDecision ParFootprintParent.decision ParFootprintParent.guard_srs "no" i peak = some ("no", 1) := by
  unfold routineDecision
  rw [process_parallel_no_rule, generated_pickle_guard_std.1]
  cases peak <;> simp [guardedMode, stdGuard]

/-- whatever `parallel` says, an unpicklable `peak` never reaches the pool … -/
theorem unpicklable_peak_runs_serially (mode : String) (i : DecIn) (r : String × Nat)
    (h : routineDecision ParFootprintParent.decision ParFootprintParent.guard_srs mode i
      PeakArg.unpicklable = some r) : r.1 ≠ "yes" := by
  unfold routineDecision at h
  rw [generated_pickle_guard_std.1] at h
  cases hp : processParallel ParFootprintParent.decision mode i with
  | none => simp [hp] at h
  | some q =>
      simp only [hp, Option.map_some, Option.some.injEq] at h
      rw [← h]
      by_cases hq : q.1 = "yes" <;> simp [guardedMode, stdGuard, hq]

/-- … while a string or a picklable function (a module-level one) leaves the decision of
`_process_parallel` untouched; so does fdepsd for every input -/
theorem picklable_peak_decision_unchanged (mode : String) (i : DecIn) (peak : PeakArg)
    (h : peak ≠ PeakArg.unpicklable) :
    routineDecision ParFootprintParent.decision ParFootprintParent.guard_srs mode i peak =
      processParallel ParFootprintParent.decision mode i ∧
    routineDecision ParFootprintParent.decision ParFootprintParent.guard_fdepsd mode i peak =
      processParallel ParFootprintParent.decision mode i := by
  unfold routineDecision
  rw [generated_pickle_guard_std.1, generated_pickle_guard_std.2]
  constructor <;> cases hp : processParallel ParFootprintParent.decision mode i <;>
    cases peak <;> simp_all [guardedMode, stdGuard, noGuard]

/-- any other value of `parallel` raises -/
theorem invalid_option_raises (mode : String) (i : DecIn)
    (h : mode ≠ "auto" ∧ mode ≠ "yes" ∧ mode ≠ "no") :
    processParallel ParFootprintParent.decision mode i = none := by
  rw [generated_decision_is_std]
  unfold processParallel
  have : mode ∉ stdDecision.modes := by
    simp [stdDecision, h.1, h.2.1, h.2.2]
  simp [this]

/-- the pool never has more processes than CPUs nor than a positive `maxcpu`, and at least one
when the machine has a CPU -/
theorem pool_size_bounds (maxcpu : Option Nat) (cpu : Nat) :
    poolSize maxcpu cpu ≤ cpu ∧ (∀ m, maxcpu = some m → m ≠ 0 → poolSize maxcpu cpu ≤ m) ∧
    (1 ≤ cpu → 1 ≤ poolSize maxcpu cpu) := by
  cases maxcpu with
  | none =>
      simp only [poolSize]
      refine ⟨?_, ?_, ?_⟩
      · split <;> omega
      · intro m h; cases h
      · intro h; split <;> omega
  | some m =>
      simp only [poolSize]
      refine ⟨?_, ?_, ?_⟩
      · split
        · omega
        · split <;> omega
      · intro m' hm' hne
        cases hm'
        split
        · omega
        · split <;> omega
      · intro h
        split
        · omega
        · split <;> omega

/-- the number of processes does NOT depend on the number of tasks: a pool of `poolSize` processes
is created even for fewer frequencies (the idle ones get no task) -/
theorem pool_size_ignores_task_count (i : DecIn) (LF' : Nat) :
    processParallel ParFootprintParent.decision "yes" { i with LF := LF' } =
      processParallel ParFootprintParent.decision "yes" i := by
  rw [process_parallel_yes_rule, process_parallel_yes_rule]

/-! ### the regenerated pool sites -/

/-- every pool site of srs.srs / fdepsd.fdepsd passes the executable test `siteOk` against the
regenerated worker footprints -/
theorem generated_parent_ok :
    ∀ s ∈ ParFootprintParent.sites, siteOk s ParFootprint.workers = true := by
  decide

/-- the three sites, and the worker pair each one hands to the pool -/
theorem generated_sites_complete :
    ParFootprintParent.sites.map (fun s => (s.routine, s.guard, s.workerHist, s.workerNoHist)) =
      [("srs.srs", "doic", "srs._dosrs_ic", "srs._dosrs_nohist_ic"),
       ("srs.srs", "not (doic)", "srs._dosrs", "srs._dosrs_nohist"),
       ("fdepsd.fdepsd", "", "fdepsd._dofde", "fdepsd._dofde")] := by
  decide

/-- The serial routine is `for j in range(LF): body(j)`: at every site the pool's task list is
`zip(range(LF), repeat(args, LF))`, the serial loop runs over the same index set (`range(LF)`, or
`enumerate` of the frequency vector whose length `LF` is), the worker bodies are textually the serial
loop body (`serialSame`, with the renaming derived from the parent's own copy-in / copy-out
statements), and the worker's parameter list is bound to the same expressions, in the same order,
as the names of the serial loop body. -/
theorem generated_serial_is_worker_loop :
    ∀ s ∈ ParFootprintParent.sites,
      s.repeatCount = s.rangeBound ∧
      (s.serialDom = ("range", s.rangeBound) ∨ (s.serialDom = ("enumerate", s.wnName) ∧ s.wnOf = s.lfOf)) ∧
      s.params.length = s.parArgs.length ∧ s.parArgs = s.serArgs ∧
      (∀ fp ∈ ParFootprint.workers, (fp.name = s.workerHist ∨ fp.name = s.workerNoHist) →
        fp.serialSame = true) := by
  decide

/-- Cause of the (repaired, F53) finding `parallel-path-raises:srs:peak-callable-not-picklable` and the
reason the guard `generated_pickle_guard_std` is needed: at both srs sites the
peak function (`methfunc`) and the coefficient function travel to the workers INSIDE the task tuple,
which `multiprocessing` pickles for every task — a `peak` function that cannot be pickled (a lambda)
would make the parallel path raise where the serial loop simply calls it; the guard sends it to the
serial loop (`unpicklable_peak_runs_serially`).  The theorems below take the peak function as a
mathematical function `P`. -/
theorem generated_peak_travels_in_task_tuple :
    ∀ s ∈ ParFootprintParent.sites, s.routine = "srs.srs" →
      "methfunc" ∈ s.parArgs ∧ "methfunc" ∈ s.params ∧ s.initializer ∈ ["_mk_par_globals", "_mk_par_globals_ic"] ∧
      ∀ d ∈ s.shared, d.var ≠ "methfunc" := by
  decide

/-! ### the tasks' cells partition the outputs -/

/-- For a well-formed footprint whose write patterns cover the task slabs of array `arr` of
symbolic shape `dims`: for ANY number of tasks `LF` and any values of the other dimensions, every
cell of the array is written by exactly one task — its owner `j < LF` has a write pattern that
touches the cell, and no other task has one. -/
theorem tasks_partition_outputs (fp : Footprint) (hwf : wellFormed fp = true) (arr : String)
    (dims : List Dim) (hs : slabCovered fp arr dims = true) (LF : Nat) (env : String → Nat)
    (is : List Nat) (hb : is ∈ cellsOf (dims.map (Dim.eval LF env))) :
    ∃ j, j < LF ∧ (∃ a ∈ fp.writes, covers a j (arr, is) = true) ∧
      ∀ j', (∃ a ∈ fp.writes, covers a j' (arr, is) = true) → j' = j := by
  obtain ⟨j, hj, hown, hcov⟩ :=
    slabCovered_sound fp arr dims hs LF env is ((mem_cellsOf _ _).mp hb)
  refine ⟨j, hj, hcov, ?_⟩
  rintro j' ⟨a, ha, hc⟩
  have := write_owned fp hwf a ha j' (arr, is) hc
  rw [hown] at this
  exact (Option.some.inj this).symm

/-- … instantiated on the regenerated tables: every shared output array of every pool site, for
both workers of the site. -/
theorem generated_outputs_partitioned :
    ∀ s ∈ ParFootprintParent.sites, ∀ fp ∈ ParFootprint.workers,
      (fp.name = s.workerHist ∨ fp.name = s.workerNoHist) →
      ∀ d ∈ s.shared, d.glob ∈ accArrays fp.writes → ∀ dims ∈ d.dims,
      ∀ (LF : Nat) (env : String → Nat) (is : List Nat), is ∈ cellsOf (dims.map (Dim.eval LF env)) →
        ∃ j, j < LF ∧ (∃ a ∈ fp.writes, covers a j (d.glob, is) = true) ∧
          ∀ j', (∃ a ∈ fp.writes, covers a j' (d.glob, is) = true) → j' = j := by
  have key : ∀ s ∈ ParFootprintParent.sites, ∀ fp ∈ ParFootprint.workers,
      (fp.name = s.workerHist ∨ fp.name = s.workerNoHist) →
      wellFormed fp = true ∧ ∀ d ∈ s.shared, d.glob ∈ accArrays fp.writes → ∀ dims ∈ d.dims,
        slabCovered fp d.glob dims = true := by
    decide
  intro s hs fp hfp hname d hd hw dims hdims LF env is his
  obtain ⟨hwf, hcov⟩ := key s hs fp hfp hname
  exact tasks_partition_outputs fp hwf d.glob dims (hcov d hd hw dims hdims) LF env is his

/-! ### assembly -/

variable {L V O : Type}

/-- Outputs after copy-out and post-processing equal the serial routine's outputs, for EVERY
complete schedule of the pool.  `G` are the arrays the serial routine allocates with `np.empty`
(`SRSmax`, `resp['hist']`): the serial routine starts from a memory `mS` that agrees with the
parallel one (`m0`: inputs copied in, outputs zero filled) only outside `G`.  Hypotheses: the
system meets `Hyp` for the footprint's ownership map (`footprint_gives_hyp`), the footprint covers
the slabs of the `G` arrays, no step looks at a `G` array, and a
task that has halted has written every cell its write patterns touch. -/
theorem assembly_eq_serial (S : System L V) (fp : Footprint) (H : Hyp S (ownerOf fp)) (G : List String)
    (hG : ∀ j l m m', (∀ c : Cell, c.1 ∉ G → m c = m' c) → S.step j l m = S.step j l m')
    (env : String → Nat) (decl : List (String × List Dim))
    (hcov : ∀ d ∈ decl, d.1 ∈ G → slabCovered fp d.1 d.2 = true)
    (hTot : ∀ j, j < S.n → ∀ m k, S.halted j (S.solo m j k).1 = true →
      ∀ c : Cell, (∃ a ∈ fp.writes, covers a j c = true) → c ∈ S.written m j k)
    (m0 mS : Mem V) (hm : ∀ c : Cell, c.1 ∉ G → mS c = m0 c)
    (σ : List Nat) (fuel : Nat) (hσ : S.allHalted (S.run m0 σ))
    (hs : S.allHalted (S.run mS (serialSched S.n fuel))) (post : List V → O) :
    parallelRoutine S (decl.map (fun d => (d.1, d.2.map (Dim.eval S.n env)))) m0 σ post =
      serialRoutine S (decl.map (fun d => (d.1, d.2.map (Dim.eval S.n env)))) mS fuel post := by
  unfold parallelRoutine serialRoutine
  congr 1
  apply List.map_congr_left
  intro c hc
  apply run_garbage_cell S (ownerOf fp) H G hG m0 mS hm σ _ hσ hs c
  intro hcG
  simp only [outCells, List.mem_flatMap, List.mem_map] at hc
  obtain ⟨a, ⟨d, hd, rfl⟩, is, his, rfl⟩ := hc
  obtain ⟨j, hj, hown, hw⟩ :=
    slabCovered_sound fp d.1 d.2 (hcov d hd hcG) S.n env is ((mem_cellsOf _ _).mp his)
  exact ⟨j, hj, hown, fun k hk => hTot j hj m0 k hk _ hw⟩

/-! ### the srs worker system: peaks and histories -/

/-- owner of the srs output cells: row `j` of `SRSmax_`, slice `[:, :, j]` of `HIST_` -/
def srsOwner : Cell → Option Nat := fun c =>
  if c.1 = "SRSmax_" then c.2[0]? else if c.1 = "HIST_" then c.2[2]? else none

/-- … which is the ownership map of the regenerated footprints of all four srs workers -/
theorem generated_srs_owner :
    (∀ fp ∈ [ParFootprint.dosrs, ParFootprint.dosrs_ic],
      taskPos fp "SRSmax_" = some 0 ∧ taskPos fp "HIST_" = some 2 ∧
      (accArrays fp.writes).all (fun a => a == "SRSmax_" || a == "HIST_") = true) ∧
    (∀ fp ∈ [ParFootprint.dosrs_nohist, ParFootprint.dosrs_nohist_ic],
      taskPos fp "SRSmax_" = some 0 ∧ (accArrays fp.writes).all (fun a => a == "SRSmax_") = true) := by
  decide

/-- the response of frequency `j` depends on the inputs only (never on the output arrays) -/
def InputsOnly (R : Nat → Mem V → Nat → Nat → V) : Prop :=
  ∀ j m m', (∀ c : Cell, c.1 ≠ "SRSmax_" → c.1 ≠ "HIST_" → m c = m' c) → R j m = R j m'

theorem srs_hyp (LF T H : Nat) (hist : Bool) (R : Nat → Mem V → Nat → Nat → V)
    (P : (Nat → V) → V) (hR : InputsOnly R) : Hyp (srsSystem LF T H hist R P) srsOwner := by
  refine ⟨?_, ?_, ?_⟩
  · intro j l m w hw
    cases l with
    | true => simp [srsSystem] at hw
    | false =>
        simp only [srsSystem, Bool.false_eq_true, if_false, List.mem_append, List.mem_map,
          List.mem_range] at hw
        rcases hw with ⟨h, _, rfl⟩ | hw
        · simp [srsOwner]
        · cases hist with
          | false => simp at hw
          | true =>
              simp only [if_true, List.mem_flatMap, List.mem_range, List.mem_map] at hw
              obtain ⟨t, _, h, _, rfl⟩ := hw
              simp [srsOwner]
  · intro j l m m' hv
    have : R j m = R j m' := by
      apply hR
      intro c h1 h2
      apply hv c
      left
      simp [srsOwner, h1, h2]
    simp [srsSystem, this]
  · intro j l m hl
    have : l = true := by simpa [srsSystem] using hl
    subst this
    simp [srsSystem]

/-- last write wins, and here every write to the cell carries the same value -/
theorem applyWrites_value (ws : List (Cell × V)) (m : Mem V) (c : Cell) (v : V)
    (hex : ∃ w ∈ ws, w.1 = c) (hall : ∀ w ∈ ws, w.1 = c → w.2 = v) : applyWrites ws m c = v := by
  induction ws generalizing m with
  | nil => simp at hex
  | cons w ws ih =>
      simp only [applyWrites, List.foldl_cons]
      by_cases hin : ∃ w' ∈ ws, w'.1 = c
      · exact ih _ hin (fun x hx => hall x (List.mem_cons_of_mem _ hx))
      · have hun : ∀ x ∈ ws, x.1 ≠ c := fun x hx hxc => hin ⟨x, hx, hxc⟩
        have e := applyWrites_untouched ws (fun c' => if c' = w.1 then w.2 else m c') c hun
        simp only [applyWrites] at e
        rw [e]
        obtain ⟨w', hw', hc'⟩ := hex
        have hw : w.1 = c := by
          rcases List.mem_cons.mp hw' with h | h
          · rw [← h]; exact hc'
          · exact absurd ⟨w', h, hc'⟩ hin
        simp [hw, hall w (by simp) hw]

/-- closed form of the shared memory after ANY complete schedule: `SRSmax_[j, h]` holds the peak
function applied once to the response of frequency `j`, column `h`; `HIST_[t, h, j]` holds that
response. -/
theorem srs_final_cells (LF T H : Nat) (hist : Bool) (R : Nat → Mem V → Nat → Nat → V)
    (P : (Nat → V) → V) (hR : InputsOnly R) (m0 : Mem V) (σ : List Nat)
    (hσ : (srsSystem LF T H hist R P).allHalted ((srsSystem LF T H hist R P).run m0 σ)) :
    (∀ j h, j < LF → h < H →
      ((srsSystem LF T H hist R P).run m0 σ).mem ("SRSmax_", [j, h]) = P (fun t => R j m0 t h)) ∧
    (hist = true → ∀ t h j, t < T → h < H → j < LF →
      ((srsSystem LF T H hist R P).run m0 σ).mem ("HIST_", [t, h, j]) = R j m0 t h) := by
  have Hy := srs_hyp LF T H hist R P hR
  obtain ⟨k, hk⟩ := inv_run _ srsOwner m0 Hy σ _ _ (inv_init _ srsOwner m0)
  have hsolo : ∀ j, j < LF → (srsSystem LF T H hist R P).solo m0 j (k j) =
      (srsSystem LF T H hist R P).solo m0 j 1 := by
    intro j hj
    apply srs_solo_halted
    rw [← hk.loc j]
    exact hσ j hj
  have hrun : ∀ (c : Cell) j, srsOwner c = some j → j < LF →
      ((srsSystem LF T H hist R P).run m0 σ).mem c =
        applyWrites ((srsSystem LF T H hist R P).step j false m0).2 m0 c := by
    intro c j hc hj
    have := hk.mem j c (Or.inr hc)
    unfold System.run
    rw [this, hsolo j hj]
    rfl
  constructor
  · intro j h hj hh
    rw [hrun ("SRSmax_", [j, h]) j (by simp [srsOwner]) hj]
    apply applyWrites_value
    · refine ⟨(("SRSmax_", [j, h]), P (fun t => R j m0 t h)), ?_, rfl⟩
      simp only [srsSystem, Bool.false_eq_true, if_false, List.mem_append, List.mem_map,
        List.mem_range]
      exact Or.inl ⟨h, hh, rfl⟩
    · intro w hw hc
      simp only [srsSystem, Bool.false_eq_true, if_false, List.mem_append, List.mem_map,
        List.mem_range] at hw
      rcases hw with ⟨h', _, rfl⟩ | hw
      · simp only [Prod.mk.injEq, List.cons.injEq, and_true, true_and] at hc
        rw [hc]
      · cases hist with
        | false => simp at hw
        | true =>
            simp only [if_true, List.mem_flatMap, List.mem_range, List.mem_map] at hw
            obtain ⟨t, _, h', _, rfl⟩ := hw
            simp at hc
  · intro hh t h j ht hhh hj
    subst hh
    rw [hrun ("HIST_", [t, h, j]) j (by simp [srsOwner]) hj]
    apply applyWrites_value
    · refine ⟨(("HIST_", [t, h, j]), R j m0 t h), ?_, rfl⟩
      simp only [srsSystem, Bool.false_eq_true, if_false, if_true, List.mem_append, List.mem_map,
        List.mem_range, List.mem_flatMap]
      exact Or.inr ⟨t, ht, h, hhh, rfl⟩
    · intro w hw hc
      simp only [srsSystem, Bool.false_eq_true, if_false, if_true, List.mem_append, List.mem_map,
        List.mem_range, List.mem_flatMap] at hw
      rcases hw with ⟨h', _, rfl⟩ | ⟨t', _, h', _, rfl⟩
      · simp at hc
      · simp only [Prod.mk.injEq, List.cons.injEq, and_true, true_and] at hc
        obtain ⟨rfl, rfl⟩ := hc
        rfl

/-- The peak function is applied exactly once per cell on both paths: after every complete
schedule of the pool (from the zero-filled shared arrays `m0`) and after the serial loop (from a
memory `mS` whose output arrays hold garbage) the cell `SRSmax[j, h]` holds `P (response j h)` —
one application of `P`, none by the parent — and the common tail applies the `eqsine` scaling to
that value once. -/
theorem peak_applied_once (LF T H : Nat) (hist : Bool) (R : Nat → Mem V → Nat → Nat → V)
    (P : (Nat → V) → V) (hR : InputsOnly R) (m0 mS : Mem V)
    (hm : ∀ c : Cell, c.1 ≠ "SRSmax_" → c.1 ≠ "HIST_" → mS c = m0 c) (σ : List Nat) (fuel : Nat)
    (hσ : (srsSystem LF T H hist R P).allHalted ((srsSystem LF T H hist R P).run m0 σ))
    (hs : (srsSystem LF T H hist R P).allHalted
      ((srsSystem LF T H hist R P).run mS (serialSched LF fuel)))
    (eqsine : Bool) (scale : V → V) (j h : Nat) (hj : j < LF) (hh : h < H) :
    eqsineTail eqsine scale [((srsSystem LF T H hist R P).run m0 σ).mem ("SRSmax_", [j, h])] =
      [if eqsine then scale (P (fun t => R j m0 t h)) else P (fun t => R j m0 t h)] ∧
    eqsineTail eqsine scale
        [((srsSystem LF T H hist R P).run mS (serialSched LF fuel)).mem ("SRSmax_", [j, h])] =
      [if eqsine then scale (P (fun t => R j m0 t h)) else P (fun t => R j m0 t h)] := by
  have e1 := (srs_final_cells LF T H hist R P hR m0 σ hσ).1 j h hj hh
  have e2 := (srs_final_cells LF T H hist R P hR mS _ hs).1 j h hj hh
  have e3 : R j mS = R j m0 := hR j mS m0 hm
  rw [e1, e2, e3]
  cases eqsine <;> simp [eqsineTail]

/-- With `getresp` the returned histories are those of the serial routine: `hist[t, h, j]` is the
response of frequency `j`, column `h`, at step `t` on both paths (scaled once by the tail when
`eqsine`), whatever the schedule and although the serial array starts uninitialised. -/
theorem getresp_histories_eq_serial (LF T H : Nat) (R : Nat → Mem V → Nat → Nat → V)
    (P : (Nat → V) → V) (hR : InputsOnly R) (m0 mS : Mem V)
    (hm : ∀ c : Cell, c.1 ≠ "SRSmax_" → c.1 ≠ "HIST_" → mS c = m0 c) (σ : List Nat) (fuel : Nat)
    (hσ : (srsSystem LF T H true R P).allHalted ((srsSystem LF T H true R P).run m0 σ))
    (hs : (srsSystem LF T H true R P).allHalted
      ((srsSystem LF T H true R P).run mS (serialSched LF fuel)))
    (t h j : Nat) (ht : t < T) (hh : h < H) (hj : j < LF) :
    ((srsSystem LF T H true R P).run m0 σ).mem ("HIST_", [t, h, j]) = R j m0 t h ∧
    ((srsSystem LF T H true R P).run mS (serialSched LF fuel)).mem ("HIST_", [t, h, j]) =
      R j m0 t h := by
  have e1 := (srs_final_cells LF T H true R P hR m0 σ hσ).2 rfl t h j ht hh hj
  have e2 := (srs_final_cells LF T H true R P hR mS _ hs).2 rfl t h j ht hh hj
  have e3 : R j mS = R j m0 := hR j mS m0 hm
  rw [e1, e2, e3]
  exact ⟨rfl, rfl⟩

/-- the whole routine (all peaks, all histories when requested, any post-processing): parallel
under any complete schedule = serial -/
theorem srs_routine_eq_serial (LF T H : Nat) (hist : Bool) (R : Nat → Mem V → Nat → Nat → V)
    (P : (Nat → V) → V) (hR : InputsOnly R) (m0 mS : Mem V)
    (hm : ∀ c : Cell, c.1 ≠ "SRSmax_" → c.1 ≠ "HIST_" → mS c = m0 c) (σ : List Nat) (fuel : Nat)
    (hσ : (srsSystem LF T H hist R P).allHalted ((srsSystem LF T H hist R P).run m0 σ))
    (hs : (srsSystem LF T H hist R P).allHalted
      ((srsSystem LF T H hist R P).run mS (serialSched LF fuel)))
    (post : List V → O) :
    parallelRoutine (srsSystem LF T H hist R P)
        ([("SRSmax_", [LF, H])] ++ if hist then [("HIST_", [T, H, LF])] else []) m0 σ post =
      serialRoutine (srsSystem LF T H hist R P)
        ([("SRSmax_", [LF, H])] ++ if hist then [("HIST_", [T, H, LF])] else []) mS fuel post := by
  unfold parallelRoutine serialRoutine
  congr 1
  apply List.map_congr_left
  intro c hc
  have f1 := srs_final_cells LF T H hist R P hR m0 σ hσ
  have f2 := srs_final_cells LF T H hist R P hR mS _ hs
  have e3 : ∀ j, R j mS = R j m0 := fun j => hR j mS m0 hm
  simp only [outCells, List.mem_flatMap, List.mem_map, List.mem_append, List.mem_singleton] at hc
  obtain ⟨a, ha, is, his, rfl⟩ := hc
  have hb := (mem_cellsOf _ _).mp his
  rcases ha with rfl | ha
  · -- SRSmax_
    match is, hb with
    | [j, h], hb =>
        simp only [inBounds, Bool.and_eq_true, decide_eq_true_eq, and_true] at hb
        show ((srsSystem LF T H hist R P).run m0 σ).mem ("SRSmax_", [j, h]) =
          ((srsSystem LF T H hist R P).run mS (serialSched LF fuel)).mem ("SRSmax_", [j, h])
        rw [f1.1 j h hb.1 hb.2, f2.1 j h hb.1 hb.2, e3]
    | [], hb => simp [inBounds] at hb
    | [_], hb => simp [inBounds] at hb
    | _ :: _ :: _ :: _, hb => simp [inBounds] at hb
  · cases hist with
    | false => simp at ha
    | true =>
        simp only [if_true, List.mem_singleton] at ha
        subst ha
        match is, hb with
        | [t, h, j], hb =>
            simp only [inBounds, Bool.and_eq_true, decide_eq_true_eq, and_true] at hb
            show ((srsSystem LF T H true R P).run m0 σ).mem ("HIST_", [t, h, j]) =
              ((srsSystem LF T H true R P).run mS (serialSched LF fuel)).mem ("HIST_", [t, h, j])
            rw [f1.2 rfl t h j hb.1 hb.2.1 hb.2.2, f2.2 rfl t h j hb.1 hb.2.1 hb.2.2, e3]
        | [], hb => simp [inBounds] at hb
        | [_], hb => simp [inBounds] at hb
        | [_, _], hb => simp [inBounds] at hb
        | _ :: _ :: _ :: _ :: _, hb => simp [inBounds] at hb

/-! ### non-vacuity -/

/-- the decision on a 16-CPU box: default `maxcpu = 14` -> 14 processes; `maxcpu = None` -> 12;
`maxcpu = 16` (not below the CPU count) -> 12 as well; a small job stays serial under 'auto' -/
example : processParallel ParFootprintParent.decision "yes" ⟨5, 100, some 14, false, 16, false⟩ = some ("yes", 14) ∧
    processParallel ParFootprintParent.decision "yes" ⟨5, 100, none, false, 16, false⟩ = some ("yes", 12) ∧
    processParallel ParFootprintParent.decision "yes" ⟨5, 100, some 16, false, 16, false⟩ = some ("yes", 12) ∧
    processParallel ParFootprintParent.decision "auto" ⟨5, 100, some 14, false, 16, false⟩ = some ("no", 1) ∧
    processParallel ParFootprintParent.decision "auto" ⟨5, 50001, some 14, false, 16, false⟩ = some ("yes", 14) ∧
    processParallel ParFootprintParent.decision "auto" ⟨5, 50001, some 14, true, 16, false⟩ = some ("no", 1) ∧
    processParallel ParFootprintParent.decision "maybe" ⟨5, 50001, some 14, true, 16, false⟩ = none := by
  decide

/-- the guard: a lambda goes serial under 'yes' and under 'auto' on a big block, a module-level
function still goes parallel; without the guard (fdepsd's table) nothing changes -/
example :
    routineDecision ParFootprintParent.decision ParFootprintParent.guard_srs "yes" ⟨5, 100, some 2, false, 16, false⟩ .unpicklable = some ("no", 2) ∧
    routineDecision ParFootprintParent.decision ParFootprintParent.guard_srs "yes" ⟨5, 100, some 2, false, 16, false⟩ .picklable = some ("yes", 2) ∧
    routineDecision ParFootprintParent.decision ParFootprintParent.guard_srs "auto" ⟨5, 50001, some 2, false, 16, false⟩ .unpicklable = some ("no", 2) ∧
    routineDecision ParFootprintParent.decision ParFootprintParent.guard_srs "auto" ⟨5, 50001, some 2, false, 16, false⟩ .name = some ("yes", 2) ∧
    routineDecision ParFootprintParent.decision noGuard "yes" ⟨5, 100, some 2, false, 16, false⟩ .unpicklable = some ("yes", 2) := by
  decide

/-- `slabCovered` rejects a footprint that leaves one of the three `ASV_` rows unwritten, and one
whose task index sits on the wrong dimension -/
def twoRows : Footprint :=
  { name := "bad", shared := ["ASV_"],
    writes := [⟨"ASV_", [.const 1, .task]⟩, ⟨"ASV_", [.const 0, .task]⟩], reads := [], serialSame := true }
example : wellFormed twoRows = true ∧ slabCovered twoRows "ASV_" [.lit 3, .tasks] = false ∧
    slabCovered twoRows "ASV_" [.lit 2, .tasks] = true ∧
    slabCovered twoRows "ASV_" [.tasks, .lit 2] = false := by decide

/-- a concrete srs system over the integers: two frequencies, two time steps, one column; the
response is `WN_[j] * SIG_[t]`, the peak the sum of squares (not idempotent: applying it twice
gives something else).  Submission order, reverse order and an interleaving with repeated firings
give the same peaks and histories, equal to the closed form; the serial loop from garbage too. -/
def toyR : Nat → Mem Int → Nat → Nat → Int := fun j m t h => m ("WN_", [j]) * m ("SIG_", [t, h])
def toyP : (Nat → Int) → Int := fun f => f 0 * f 0 + f 1 * f 1
def toyIn : Mem Int := fun c =>
  if c.1 = "WN_" then (if c.2 = [0] then 2 else 3)
  else if c.1 = "SIG_" then (if c.2 = [0, 0] then 1 else 5) else 0
def toyGarbage : Mem Int := fun c => if c.1 = "SRSmax_" ∨ c.1 = "HIST_" then 77 else toyIn c

example : InputsOnly toyR := by
  intro j m m' h
  funext t hh
  simp [toyR, h ("WN_", [j]) (by simp) (by simp), h ("SIG_", [t, hh]) (by simp) (by simp)]

example :
    let S := srsSystem 2 2 1 true toyR toyP
    (outCells [("SRSmax_", [2, 1]), ("HIST_", [2, 1, 2])]).map (S.run toyIn [0, 1]).mem
      = [104, 234, 2, 3, 10, 15] ∧
    (outCells [("SRSmax_", [2, 1]), ("HIST_", [2, 1, 2])]).map (S.run toyIn [1, 0]).mem
      = [104, 234, 2, 3, 10, 15] ∧
    (outCells [("SRSmax_", [2, 1]), ("HIST_", [2, 1, 2])]).map (S.run toyIn [1, 1, 0, 1, 0]).mem
      = [104, 234, 2, 3, 10, 15] ∧
    (outCells [("SRSmax_", [2, 1]), ("HIST_", [2, 1, 2])]).map
        (S.run toyGarbage (serialSched 2 1)).mem = [104, 234, 2, 3, 10, 15] ∧
    toyP (fun t => toyR 0 toyIn t 0) = 104 ∧ toyP (fun _ => 104) ≠ 104 := by
  decide

end PyYetiVerif.C09
