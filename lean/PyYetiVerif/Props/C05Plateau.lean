import PyYetiVerif.Lemmas.RainflowPlateau
import PyYetiVerif.Props.C05Dup
/-!
# C05 — runs of `k ≥ 2` equal points (plateaus): what the table gains, from where the machine continues

* at the very START a run of any length is harmless: `k` zero-range HALF cycles in front, then the table of the
  record with the run compressed to one point (`plateau_at_start`, generalises `duplicate_first`);
* at an INTERIOR position (stack `x :: w :: rest`, `w ≠ x`) a run of `2 j + 1` copies counts `j` zero-range FULL
  cycles and behaves like ONE copy, a run of `2 j + 2` copies counts `j` zero-range full cycles and behaves like
  TWO copies — and two copies are erased as soon as a point follows (`duplicate_insertion_interior`), kept as a
  zero half cycle if the record ends (`plateau_insertion_general`, `plateau_ends_record`);
* hence "compress every run to one point" does NOT preserve the non-zero rows (`rainflow_plateau_compress_false`);
  what is preserved is compression by PARITY (`rainflow_plateau_parity`).
-/
namespace PyYetiVerif.C05
open PyYetiVerif.Rainflow

section field
variable {α : Type} [Field α] [LinearOrder α] [IsStrictOrderedRing α]

omit [Field α] [LinearOrder α] [IsStrictOrderedRing α] in
private theorem absd_self_lt {β : Type} [Field β] [LinearOrder β] [IsStrictOrderedRing β] (x : β) (w : β)
    (hw : w ≠ x) : absd x x < absd w x := by
  rw [absd_eq_abs, absd_eq_abs, sub_self, abs_zero]; exact abs_pos.mpr (sub_ne_zero.mpr hw)

/-- the rows a run gains at an interior position: `j` zero-range FULL cycles on the offsets
`(n, n+1), (n+2, n+3), …, (n+2j-2, n+2j-1)` -/
theorem plateau_zero_rows (x : α) (n j : Nat) :
    zeroFulls x n j = (List.range j).map fun i => (⟨0, x + x, true, n + 2 * i, n + 2 * i + 1⟩ : Cyc α) := by
  induction j generalizing n with
  | zero => rfl
  | succ j ih =>
      rw [List.range_succ_eq_map]
      simp only [zeroFulls, ih, List.map_cons, List.map_map, mkCyc, absd_eq_abs, sub_self, abs_zero]
      refine congrArg₂ _ (by simp) (List.map_congr_left ?_)
      intro i _
      simp only [Function.comp_def]
      have e : n + 2 + 2 * i = n + 2 * (i + 1) := by omega
      rw [e]

/-- **plateau_insertion_general (interior).**  `pre ++ [x]` has been read and left the stack `x :: w :: rest`
with `w ≠ x` and the rows `rows`; `n = pre.length`.  For EVERY `j` and every continuation `post` (also none):
a run of `2 j + 1` copies of `x` gains exactly the `j` rows `zeroFulls x n j` (`plateau_zero_rows`) and the machine
continues with `post` from the stack `(x, n + 2 j) :: w :: rest`; a run of `2 j + 2` copies gains the same `j` rows
and the machine continues from `(x, n + 2 j + 1) :: (x, n + 2 j) :: w :: rest`. -/
theorem plateau_insertion_general (pre : List α) (x : α) (w : α × Nat) (rest : List (α × Nat))
    (rows : List (Cyc α))
    (hrun : run (index (pre ++ [x]) 0) = ((x, pre.length) :: w :: rest, rows)) (hw : w.1 ≠ x)
    (j : Nat) (post : List α) :
    rainflow (pre ++ List.replicate (2 * j + 1) x ++ post) =
        ((index post (pre.length + 2 * j + 1)).foldl step
            ((x, pre.length + 2 * j) :: w :: rest, rows ++ zeroFulls x pre.length j)).2 ++
          finish ((index post (pre.length + 2 * j + 1)).foldl step
            ((x, pre.length + 2 * j) :: w :: rest, rows ++ zeroFulls x pre.length j)).1.reverse ∧
    rainflow (pre ++ List.replicate (2 * j + 2) x ++ post) =
        ((index post (pre.length + 2 * j + 2)).foldl step
            ((x, pre.length + 2 * j + 1) :: (x, pre.length + 2 * j) :: w :: rest,
              rows ++ zeroFulls x pre.length j)).2 ++
          finish ((index post (pre.length + 2 * j + 2)).foldl step
            ((x, pre.length + 2 * j + 1) :: (x, pre.length + 2 * j) :: w :: rest,
              rows ++ zeroFulls x pre.length j)).1.reverse :=
  plateau_interior_aux pre x w rest rows hrun (absd_self_lt x w.1 hw) (lt_irrefl _) j post

/-- the run ends the record: an odd run leaves the residue of the record with one copy (the last half cycle ends
at the offset of the last copy), an even run leaves one zero-range half cycle more -/
theorem plateau_ends_record (pre : List α) (x : α) (w : α × Nat) (rest : List (α × Nat))
    (rows : List (Cyc α))
    (hrun : run (index (pre ++ [x]) 0) = ((x, pre.length) :: w :: rest, rows)) (hw : w.1 ≠ x) (j : Nat) :
    rainflow (pre ++ List.replicate (2 * j + 1) x) =
        rows ++ zeroFulls x pre.length j ++ finish ((w :: rest).reverse ++ [(x, pre.length + 2 * j)]) ∧
    rainflow (pre ++ List.replicate (2 * j + 2) x) =
        rows ++ zeroFulls x pre.length j ++ finish ((w :: rest).reverse ++ [(x, pre.length + 2 * j)])
          ++ [(⟨0, x + x, false, pre.length + 2 * j, pre.length + 2 * j + 1⟩ : Cyc α)] := by
  have h := plateau_insertion_general pre x w rest rows hrun hw j []
  simp only [List.append_nil, index, List.foldl_nil] at h
  refine ⟨by rw [h.1]; simp, ?_⟩
  rw [h.2]
  have hrev : ((x, pre.length + 2 * j + 1) :: (x, pre.length + 2 * j) :: w :: rest).reverse
      = (w :: rest).reverse ++ [(x, pre.length + 2 * j), (x, pre.length + 2 * j + 1)] := by simp
  rw [hrev, finish_snoc]
  simp [mkCyc, absd_eq_abs, List.append_assoc]

/-- **a run at the very start** (generalises `duplicate_first_field`): `k` zero-range half cycles
`[0, x + x, half, i, i + 1]`, `i < k`, then the table of the record with the run compressed to one point, offsets
shifted by `k` -/
theorem plateau_at_start (x : α) (k : Nat) (rest : List α) :
    rainflow (List.replicate (k + 1) x ++ rest)
      = zeroHalves x 0 k ++ (rainflow (x :: rest)).map (shiftCyc k) :=
  plateau_start_aux x (by
    intro y; rw [absd_eq_abs, absd_eq_abs, sub_self, abs_zero]; exact not_lt.mpr (abs_nonneg _)) k rest

/-- **rainflow_plateau_parity — the true relation in user terms** (offset-free table `rainflow1`: range, sum,
full/half).  Under the hypotheses of `plateau_insertion_general`: the table of the record with a run of `2 j + 1`
copies is the table of the record with ONE copy with `j` rows `(0, x + x, full)` inserted after `rows`; the table
of the record with `2 j + 2` copies is that of the record with TWO copies with the same `j` rows inserted.  So the
non-zero rows are preserved by compressing a run to one point iff its length is odd. -/
theorem rainflow_plateau_parity (pre : List α) (x : α) (w : α × Nat) (rest : List (α × Nat))
    (rows : List (Cyc α))
    (hrun : run (index (pre ++ [x]) 0) = ((x, pre.length) :: w :: rest, rows)) (hw : w.1 ≠ x)
    (j : Nat) (post : List α) :
    (rainflow1 (pre ++ List.replicate (2 * j + 1) x ++ post)
        = rows.map strip ++ List.replicate j (0, x + x, true) ++ cont1 (x :: w.1 :: rest.map Prod.fst) post ∧
      rainflow1 (pre ++ x :: post) = rows.map strip ++ cont1 (x :: w.1 :: rest.map Prod.fst) post) ∧
    (rainflow1 (pre ++ List.replicate (2 * j + 2) x ++ post)
        = rows.map strip ++ List.replicate j (0, x + x, true)
            ++ cont1 (x :: x :: w.1 :: rest.map Prod.fst) post ∧
      rainflow1 (pre ++ x :: x :: post) = rows.map strip ++ cont1 (x :: x :: w.1 :: rest.map Prod.fst) post) := by
  have h := plateau_parity_aux pre x w rest rows hrun (absd_self_lt x w.1 hw) (lt_irrefl _) j post
  have e : absd x x = 0 := by rw [absd_eq_abs, sub_self, abs_zero]
  rw [e] at h
  exact h

end field

/-- **rainflow_plateau_compress is FALSE**: the non-zero-range rows (range, sum, full/half) of `[0, 5, 5, 1]`
are not those of the compressed record `[0, 5, 1]` — the even run erases the peak; the odd run `[0, 5, 5, 5, 1]`
and the run of four vs the run of two agree, as `rainflow_plateau_parity` says -/
theorem rainflow_plateau_compress_false :
    (rainflow1 ([0, 5, 5, 1] : List Int)).filter (fun r => r.1 ≠ 0) = [(1, 1, false)] ∧
    (rainflow1 ([0, 5, 1] : List Int)).filter (fun r => r.1 ≠ 0) = [(5, 5, false), (4, 6, false)] ∧
    (rainflow1 ([0, 5, 5, 5, 1] : List Int)).filter (fun r => r.1 ≠ 0) = [(5, 5, false), (4, 6, false)] ∧
    (rainflow1 ([0, 5, 5, 5, 5, 1] : List Int)).filter (fun r => r.1 ≠ 0) = [(1, 1, false)] := by
  decide +kernel

/-! ### non-vacuity -/

-- the generic lemmas applied at the integers: `[0, 5]` leaves the stack `5 :: 0`
example := plateau_interior_aux ([0] : List Int) 5 (0, 0) [] [] (by decide +kernel) (by decide) (by decide) 2 [1]
example := plateau_parity_aux ([0] : List Int) 5 (0, 0) [] [] (by decide +kernel) (by decide) (by decide) 2 [1]
example := plateau_start_aux (5 : Int) (int_absd_nonneg 5) 3 [1, 4]

-- a run of five in the middle: two zero full cycles (1,2), (3,4), then as `[0, 5, 1]` with the peak at offset 5
example : rainflow ([0, 5, 5, 5, 5, 5, 1] : List Int)
    = [⟨0, 10, true, 1, 2⟩, ⟨0, 10, true, 3, 4⟩, ⟨5, 5, false, 0, 5⟩, ⟨4, 6, false, 5, 6⟩] := by decide +kernel
-- a run of four at the start: three zero half cycles, then `[5, 1, 4]` shifted by 3
example : rainflow ([5, 5, 5, 5, 1, 4] : List Int)
    = [⟨0, 10, false, 0, 1⟩, ⟨0, 10, false, 1, 2⟩, ⟨0, 10, false, 2, 3⟩, ⟨4, 6, false, 3, 4⟩, ⟨3, 5, false, 4, 5⟩] := by
  decide +kernel
example : zeroFulls (5 : Int) 1 2 = [⟨0, 10, true, 1, 2⟩, ⟨0, 10, true, 3, 4⟩] := by decide +kernel

end PyYetiVerif.C05
